//go:build linux && go1.18

package candevice

// Verification shim: compiled into package candevice through `go build -overlay` (never written to /repo).
// It only forwards to the unexported (un)marshalers so that the harness can drive them.

import (
	"unsafe"

	"github.com/mdlayher/netlink"
	"golang.org/x/sys/unix"
)

func VerifIfInfoMarshal(family uint8, typ uint16, index int32, flags, change uint32) ([]byte, []byte) {
	m := ifInfoMsg{unix.IfInfomsg{Family: family, Type: typ, Index: index, Flags: flags, Change: change}}
	img := make([]byte, unsafe.Sizeof(m.IfInfomsg))
	copy(img, (*[unix.SizeofIfInfomsg]byte)(unsafe.Pointer(&m.IfInfomsg))[:])
	return m.marshalBinary(), img
}

func VerifIfInfoUnmarshal(b []byte) (uint8, uint16, int32, uint32, uint32, error) {
	var m ifInfoMsg
	err := m.unmarshalBinary(b)
	return m.Family, m.Type, m.Index, m.Flags, m.Change, err
}

func VerifBitTimingMarshal(v [8]uint32) ([]byte, []byte) {
	bt := BitTiming{unix.CANBitTiming{Bitrate: v[0], Sample_point: v[1], Tq: v[2], Prop_seg: v[3], Phase_seg1: v[4], Phase_seg2: v[5], Sjw: v[6], Brp: v[7]}}
	img := make([]byte, unsafe.Sizeof(bt.CANBitTiming))
	copy(img, (*[32]byte)(unsafe.Pointer(&bt.CANBitTiming))[:])
	return bt.marshalBinary(), img
}

func VerifBitTimingUnmarshal(b []byte) ([8]uint32, error) {
	var bt BitTiming
	err := bt.unmarshalBinary(b)
	return [8]uint32{bt.Bitrate, bt.Sample_point, bt.Tq, bt.Prop_seg, bt.Phase_seg1, bt.Phase_seg2, bt.Sjw, bt.Brp}, err
}

func VerifCtrlModeMarshal(mask, flags uint32) ([]byte, []byte) {
	cm := CtrlMode{unix.CANCtrlMode{Mask: mask, Flags: flags}}
	img := make([]byte, unsafe.Sizeof(cm.CANCtrlMode))
	copy(img, (*[8]byte)(unsafe.Pointer(&cm.CANCtrlMode))[:])
	return cm.marshalBinary(), img
}

func VerifCtrlModeUnmarshal(b []byte) (uint32, uint32, error) {
	var cm CtrlMode
	err := cm.unmarshalBinary(b)
	return cm.Mask, cm.Flags, err
}

func VerifBitTimingConstUnmarshal(b []byte) ([16]byte, [8]uint32, error) {
	var c BitTimingConst
	err := c.unmarshalBinary(b)
	return c.Name, [8]uint32{c.Tseg1_min, c.Tseg1_max, c.Tseg2_min, c.Tseg2_max, c.Sjw_max, c.Brp_min, c.Brp_max, c.Brp_inc}, err
}

func VerifClockUnmarshal(b []byte) (uint32, error) {
	var c Clock
	err := c.unmarshalBinary(b)
	return c.Freq, err
}

func VerifBerrUnmarshal(b []byte) (uint16, uint16, error) {
	var c BusErrorCounters
	err := c.unmarshalBinary(b)
	return c.Txerr, c.Rxerr, err
}

func VerifStatsUnmarshal(b []byte) ([6]uint32, error) {
	var s Stats
	err := s.unmarshalBinary(b)
	return [6]uint32{s.Bus_error, s.Error_warning, s.Error_passive, s.Bus_off, s.Arbitration_lost, s.Restarts}, err
}

func VerifSizes() [6]int {
	return [6]int{sizeOfBitTiming, sizeOfBitTimingConst, sizeOfClock, sizeOfCtrlMode, sizeOfBusErrorCounters, sizeOfStats}
}

// VerifLinkInfoEncode returns the IFLA_LINKINFO attribute bytes SetBitrate/SetListenOnlyMode append to a request.
func VerifLinkInfoEncode(kind string, bt [8]uint32, mask, flags uint32) ([]byte, error) {
	li := &linkInfoMsg{linkType: kind}
	li.info.BitTiming = BitTiming{unix.CANBitTiming{Bitrate: bt[0], Sample_point: bt[1], Tq: bt[2], Prop_seg: bt[3], Phase_seg1: bt[4], Phase_seg2: bt[5], Sjw: bt[6], Brp: bt[7]}}
	li.info.CtrlMode = CtrlMode{unix.CANCtrlMode{Mask: mask, Flags: flags}}
	ae := netlink.NewAttributeEncoder()
	ae.Nested(unix.IFLA_LINKINFO, li.encode)
	return ae.Encode()
}

// VerifLinkInfoDecode decodes attribute bytes the way Device.unmarshalBinary does after the ifinfomsg header.
func VerifLinkInfoDecode(b []byte) (kind string, bt [8]uint32, mask, flags uint32, err error) {
	var d Device
	ad, err := netlink.NewAttributeDecoder(b)
	if err != nil {
		return "", bt, 0, 0, err
	}
	for ad.Next() {
		switch ad.Type() {
		case unix.IFLA_LINKINFO:
			ad.Nested(d.li.decode)
		default:
		}
	}
	if err := ad.Err(); err != nil {
		return "", bt, 0, 0, err
	}
	i := d.li.info
	return d.li.linkType, [8]uint32{i.BitTiming.Bitrate, i.BitTiming.Sample_point, i.BitTiming.Tq, i.BitTiming.Prop_seg, i.BitTiming.Phase_seg1, i.BitTiming.Phase_seg2, i.BitTiming.Sjw, i.BitTiming.Brp}, i.CtrlMode.Mask, i.CtrlMode.Flags, nil
}
