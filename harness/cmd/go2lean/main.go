// go2lean: translator (T1).  `go2lean <repo> <out.lean>` type-checks the listed packages of the working tree (go/types,
// source importer) and writes each listed function as Lean definitions over `BitVec` / `Bool`
// (namespace CanVerif.Gen.Go).  For a Go function F three definitions are written:
//
//	F_ret  args   the returned value            (absent when F returns nothing)
//	F_recv args   the receiver after the call   (only for methods on a pointer to a byte array / struct that assign to it)
//	F_ok   args   Bool: no run-time panic (index out of range, division by zero) on the executed path
//
// Covered: integer and boolean expressions with Go's typed semantics (go/types gives the type of every subexpression,
// including untyped constants in shifts), conversions between integer types, constant folding by go/types, byte-array
// indexing, struct field reads of parameters, if / else, switch without fallthrough, return, assignments (=, :=, op=, ++,
// --), var declarations, `for i := c0; i < c1; i++` with constant bounds (unrolled), calls to other listed functions and
// `fmt.Errorf` / `errors.New` (an error result is the Bool "error is non-nil").  Anything else makes the translator refuse
// (exit status 3, reason on stderr); the check then says that the regenerated tie is unavailable and rests on the
// correspondence run.
//
// Representation: intN/uintN -> BitVec N (int, uint -> 64), bool -> Bool, error -> Bool, [8]byte (can.Data) -> BitVec 64
// with byte k = bits 8k..8k+7, a struct parameter -> one parameter per field that is read.
package main

import (
	"fmt"
	"go/ast"
	"go/build"
	"go/constant"
	"go/importer"
	"go/parser"
	"go/token"
	"go/types"
	"math/big"
	"os"
	"path/filepath"
	"sort"
	"strings"
)

type refusal struct{ msg string }

func refuse(format string, a ...interface{}) { panic(refusal{fmt.Sprintf(format, a...)}) }

type pkgInfo struct {
	path  string
	info  *types.Info
	pkg   *types.Package
	decls map[types.Object]*ast.FuncDecl
	fset  *token.FileSet
}

type target struct {
	pkgPath string // import path relative to the module root ("" = root)
	name    string // "Type.Method" or "Func"
}

// groupOf says which bridge a listed function belongs to; `go2lean <repo> <out> <groups>` translates only the listed
// groups (and, on demand, what they call), so that a construct the translator refuses in one package does not take
// the tie away from the properties about another
func groupOf(t target) string {
	switch {
	case t.pkgPath == "pkg/descriptor":
		return "signal"
	case t.pkgPath == "pkg/socketcan" || t.name == "Frame.Validate":
		return "frame"
	case t.pkgPath == "pkg/dbc":
		return "msgid"
	case t.pkgPath == "pkg/candevice":
		return "netlink"
	}
	return "data"
}

// the functions translated; the order is the order of the output (callees first)
var targets = []target{
	{"internal/reinterpret", "AsSigned"},
	{"internal/reinterpret", "AsUnsigned"},
	{"", "invertEndian"},
	{"", "Data.PackLittleEndian"},
	{"", "Data.PackBigEndian"},
	{"", "Data.UnpackLittleEndian"},
	{"", "Data.UnpackBigEndian"},
	{"", "Data.UnsignedBitsLittleEndian"},
	{"", "Data.UnsignedBitsBigEndian"},
	{"", "Data.SignedBitsLittleEndian"},
	{"", "Data.SignedBitsBigEndian"},
	{"", "Data.SetUnsignedBitsLittleEndian"},
	{"", "Data.SetUnsignedBitsBigEndian"},
	{"", "Data.SetSignedBitsLittleEndian"},
	{"", "Data.SetSignedBitsBigEndian"},
	{"", "Data.Bit"},
	{"", "Data.SetBit"},
	{"", "CheckBitRangeLittleEndian"},
	{"", "CheckBitRangeBigEndian"},
	{"", "CheckValue"},
	{"", "Frame.Validate"},
	{"pkg/descriptor", "Signal.UnmarshalUnsigned"},
	{"pkg/descriptor", "Signal.UnmarshalSigned"},
	{"pkg/descriptor", "Signal.UnmarshalBool"},
	{"pkg/descriptor", "Signal.MarshalUnsigned"},
	{"pkg/descriptor", "Signal.MarshalSigned"},
	{"pkg/descriptor", "Signal.MarshalBool"},
	{"pkg/descriptor", "Signal.MaxUnsigned"},
	{"pkg/descriptor", "Signal.MinSigned"},
	{"pkg/descriptor", "Signal.MaxSigned"},
	{"pkg/descriptor", "Signal.SaturatedCastSigned"},
	{"pkg/descriptor", "Signal.SaturatedCastUnsigned"},
	{"pkg/socketcan", "frame.isExtended"},
	{"pkg/socketcan", "frame.isRemote"},
	{"pkg/socketcan", "frame.isError"},
	{"pkg/socketcan", "frame.id"},
	{"pkg/socketcan", "frame.errorClass"},
	{"pkg/socketcan", "frame.lostArbitrationBit"},
	{"pkg/socketcan", "frame.controllerError"},
	{"pkg/socketcan", "frame.protocolError"},
	{"pkg/socketcan", "frame.protocolErrorLocation"},
	{"pkg/socketcan", "frame.transceiverError"},
	{"pkg/socketcan", "frame.encodeFrame"},
	{"pkg/socketcan", "frame.decodeFrame"},
	{"pkg/socketcan", "frame.marshalBinary"},
	{"pkg/socketcan", "frame.unmarshalBinary"},
	{"pkg/dbc", "MessageID.IsExtended"},
	{"pkg/dbc", "MessageID.ToCAN"},
	{"pkg/dbc", "MessageID.Validate"},
	{"pkg/candevice", "ifInfoMsg.marshalBinary"},
	{"pkg/candevice", "ifInfoMsg.unmarshalBinary"},
	{"pkg/candevice", "BitTiming.marshalBinary"},
	{"pkg/candevice", "BitTiming.unmarshalBinary"},
	{"pkg/candevice", "CtrlMode.marshalBinary"},
	{"pkg/candevice", "CtrlMode.unmarshalBinary"},
	{"pkg/candevice", "Clock.unmarshalBinary"},
	{"pkg/candevice", "BusErrorCounters.unmarshalBinary"},
	{"pkg/candevice", "Stats.unmarshalBinary"},
}

const modPath = "go.einride.tech/can"

var pkgs = map[string]*pkgInfo{}
var fullNames = map[target]string{}
var done = map[string]*fnOut{} // translated functions, by types.Func.FullName

type fnOut struct {
	lean     string   // Lean base name
	params   []string // Lean parameter names, in order (receiver first)
	hasRet   bool
	hasRecv  bool
	nret     int
	outArg   int        // index of the Go-level argument (receiver = 0 for methods) the function mutates; -1 none
	goStruct [][]string // per Go-level argument: nil, or the field names a struct argument expands to
}

func load(repo, rel string) *pkgInfo {
	if p, ok := pkgs[rel]; ok {
		return p
	}
	dir := filepath.Join(repo, rel)
	bp, err := build.Default.ImportDir(dir, 0) // honours build constraints (tools.go is excluded)
	if err != nil {
		refuse("read %s: %v", dir, err)
	}
	fset := token.NewFileSet()
	names := append([]string(nil), bp.GoFiles...)
	sort.Strings(names)
	var files []*ast.File
	for _, n := range names {
		f, err := parser.ParseFile(fset, filepath.Join(dir, n), nil, 0)
		if err != nil {
			refuse("parse: %v", err)
		}
		files = append(files, f)
	}
	if err := os.Chdir(dir); err != nil {
		refuse("chdir: %v", err)
	}
	var terrs []string
	conf := types.Config{Importer: importer.ForCompiler(fset, "source", nil), Error: func(err error) { terrs = append(terrs, err.Error()) }}
	info := &types.Info{Types: map[ast.Expr]types.TypeAndValue{}, Selections: map[*ast.SelectorExpr]*types.Selection{},
		Uses: map[*ast.Ident]types.Object{}, Defs: map[*ast.Ident]types.Object{}}
	ip := modPath
	if rel != "" {
		ip += "/" + rel
	}
	pkg, _ := conf.Check(ip, fset, files, info)
	if len(terrs) > 0 {
		refuse("type check %s: %s", ip, strings.Join(terrs, "; "))
	}
	p := &pkgInfo{path: ip, info: info, pkg: pkg, decls: map[types.Object]*ast.FuncDecl{}, fset: fset}
	for _, f := range files {
		for _, d := range f.Decls {
			if fd, ok := d.(*ast.FuncDecl); ok && fd.Body != nil {
				if obj := info.Defs[fd.Name]; obj != nil {
					p.decls[obj] = fd
				}
			}
		}
	}
	pkgs[rel] = p
	return p
}

// ---- types ----

type lty struct {
	kind   string // "bv", "bool", "err", "arr", "struct"
	w      int
	signed bool
	st     *types.Struct
	name   string // Lean structure name (struct kinds)
	goT    types.Type
}

func (t lty) lean() string {
	switch t.kind {
	case "bv":
		return fmt.Sprintf("BitVec %d", t.w)
	case "bool", "err":
		return "Bool"
	case "arr":
		return "BitVec 64"
	case "struct":
		if t.name != "" {
			return t.name
		}
	case "sl":
		return "BitVec 512"
	}
	refuse("no Lean type for %v", t.kind)
	return ""
}

func ltype(T types.Type) lty {
	if p, ok := T.(*types.Pointer); ok {
		T = p.Elem()
	}
	if n, ok := T.(*types.Named); ok && n.Obj().Name() == "error" && n.Obj().Pkg() == nil {
		return lty{kind: "err"}
	}
	switch u := T.Underlying().(type) {
	case *types.Basic:
		switch u.Kind() {
		case types.Bool, types.UntypedBool:
			return lty{kind: "bool"}
		case types.Uint8:
			return lty{kind: "bv", w: 8}
		case types.Uint16:
			return lty{kind: "bv", w: 16}
		case types.Uint32:
			return lty{kind: "bv", w: 32}
		case types.Uint64, types.Uint, types.Uintptr:
			return lty{kind: "bv", w: 64}
		case types.Int8:
			return lty{kind: "bv", w: 8, signed: true}
		case types.Int16:
			return lty{kind: "bv", w: 16, signed: true}
		case types.Int32:
			return lty{kind: "bv", w: 32, signed: true}
		case types.Int64, types.Int, types.UntypedInt, types.UntypedRune:
			return lty{kind: "bv", w: 64, signed: true}
		}
	case *types.Array:
		if b, ok := u.Elem().Underlying().(*types.Basic); ok && b.Kind() == types.Uint8 && u.Len() == 8 {
			return lty{kind: "arr"}
		}
	case *types.Struct:
		return lty{kind: "struct", st: u, goT: T}
	case *types.Slice:
		if b, ok := u.Elem().Underlying().(*types.Basic); ok && b.Kind() == types.Uint8 {
			// a byte slice: its first 64 bytes are modelled (a 512-bit vector) together with its length
			return lty{kind: "sl"}
		}
	case *types.Interface:
		if T.String() == "error" {
			return lty{kind: "err"}
		}
	}
	refuse("unsupported type %s", T.String())
	return lty{}
}

// supported reports whether a type has a Lean rendering (used to skip struct fields such as strings, floats, slices)
func supported(T types.Type) (ok bool) {
	defer func() {
		if r := recover(); r != nil {
			if _, isRef := r.(refusal); isRef {
				ok = false
				return
			}
			panic(r)
		}
	}()
	k := ltype(T).kind
	return k == "bv" || k == "bool" || k == "arr"
}

func structFields(st *types.Struct) []*types.Var {
	var fs []*types.Var
	for i := 0; i < st.NumFields(); i++ {
		f := st.Field(i)
		if f.Name() == "_" {
			continue
		}
		if f.Embedded() {
			// promoted fields of an embedded struct appear under their own names
			if es, ok := f.Type().Underlying().(*types.Struct); ok {
				fs = append(fs, structFields(es)...)
				continue
			}
		}
		if supported(f.Type()) {
			fs = append(fs, f)
		}
	}
	return fs
}

var structDecls []string
var structNames = map[string]string{}

// declareStruct writes a Lean structure for a Go struct type (fields with a Lean rendering only) once and returns its name
func declareStruct(T types.Type) string {
	if p, ok := T.(*types.Pointer); ok {
		T = p.Elem()
	}
	nt, ok := T.(*types.Named)
	if !ok {
		refuse("anonymous struct type")
	}
	key := nt.Obj().Pkg().Path() + "." + nt.Obj().Name()
	if n, ok := structNames[key]; ok {
		return n
	}
	name := nt.Obj().Name()
	for _, other := range structNames {
		if other == name {
			refuse("two struct types named %s", name)
		}
	}
	structNames[key] = name
	var sb strings.Builder
	fmt.Fprintf(&sb, "/-- struct `%s`: the fields that have a bit-vector / Bool rendering -/\nstructure %s where\n", key, name)
	for _, f := range structFields(nt.Underlying().(*types.Struct)) {
		fmt.Fprintf(&sb, "  %s : %s\n", leanIdent(f.Name()), ltype(f.Type()).lean())
	}
	structDecls = append(structDecls, sb.String())
	return name
}

var leanKeywords = map[string]bool{"Type": true, "Sort": true, "Prop": true, "fun": true, "let": true, "have": true, "show": true,
	"from": true, "at": true, "end": true, "open": true, "in": true, "do": true, "then": true, "else": true, "if": true,
	"match": true, "with": true, "where": true, "by": true, "def": true, "theorem": true, "instance": true, "class": true,
	"structure": true, "inductive": true, "namespace": true, "section": true, "variable": true, "universe": true,
	"import": true, "export": true, "mutual": true, "private": true, "protected": true, "partial": true, "unsafe": true,
	"noncomputable": true, "macro": true, "syntax": true, "notation": true, "infix": true, "prefix": true, "postfix": true,
	"return": true, "for": true, "while": true, "try": true, "catch": true, "finally": true, "unless": true, "using": true,
	"deriving": true, "extends": true, "abbrev": true, "axiom": true, "example": true, "opaque": true, "set_option": true,
	"attribute": true, "local": true, "scoped": true, "calc": true, "suffices": true, "obtain": true, "nomatch": true,
	"nofun": true, "forall": true, "exists": true, "true": true, "false": true, "default": true, "this": true, "at_": true}

// leanIdent makes a Go identifier usable as a Lean identifier (keywords get a trailing underscore)
func leanIdent(n string) string {
	if leanKeywords[n] {
		return n + "_"
	}
	return n
}

func lit(v *big.Int, w int) string {
	m := new(big.Int).Lsh(big.NewInt(1), uint(w))
	x := new(big.Int).Mod(v, m)
	return fmt.Sprintf("%s#%d", x.String(), w)
}

// ---- function translation ----

type ctx struct {
	p          *pkgInfo
	repo       string
	fd         *ast.FuncDecl
	recvObj    types.Object         // the pointer parameter the function mutates (known in the recv pass)
	cands      map[types.Object]int // pointer parameters that may be mutated -> Go-level argument index
	mutated    map[types.Object]bool
	slLen      map[types.Object]string // byte-slice parameter -> Lean name of its length
	ret        lty
	hasRet     bool
	fresh      int
	fields     map[string]lty // struct-parameter fields used: lean name -> type
	fieldOrder []string
	named      []types.Object // named result parameters, in order
	retSel     string         // "_ret" or "_retK" for the K-th result of a multi-result callee
	rets       []lty
}

type env struct {
	vars map[types.Object]string // current Lean name/expression of each Go variable
	oks  []string
}

func (e *env) clone() *env {
	n := &env{vars: map[types.Object]string{}, oks: append([]string(nil), e.oks...)}
	for k, v := range e.vars {
		n.vars[k] = v
	}
	return n
}

func (c *ctx) name(base string) string {
	c.fresh++
	return fmt.Sprintf("%s_%d", base, c.fresh)
}

func (c *ctx) typeOf(e ast.Expr) types.Type {
	tv, ok := c.p.info.Types[e]
	if !ok {
		if id, ok := e.(*ast.Ident); ok {
			if o := c.p.info.Uses[id]; o != nil {
				return o.Type()
			}
		}
		refuse("no type for expression at %s", c.p.fset.Position(e.Pos()))
	}
	return tv.Type
}

// to64 converts an integer expression of type t to a 64-bit vector (sign- or zero-extended)
func to64(x string, t lty) string {
	if t.w == 64 {
		return x
	}
	if t.signed {
		return "(BitVec.signExtend 64 " + x + ")"
	}
	return "(BitVec.setWidth 64 " + x + ")"
}

func (c *ctx) expr(e ast.Expr, en *env) string {
	tv := c.p.info.Types[e]
	if tv.Value != nil {
		t := ltype(tv.Type)
		switch t.kind {
		case "bool":
			if constant.BoolVal(tv.Value) {
				return "true"
			}
			return "false"
		case "bv":
			v, ok := constant.Val(constant.ToInt(tv.Value)).(*big.Int)
			if !ok {
				i, ok2 := constant.Val(constant.ToInt(tv.Value)).(int64)
				if !ok2 {
					refuse("constant %s", tv.Value.String())
				}
				v = big.NewInt(i)
			}
			return lit(v, t.w)
		}
		refuse("constant of type %s", tv.Type)
	}
	switch x := e.(type) {
	case *ast.ParenExpr:
		return c.expr(x.X, en)
	case *ast.Ident:
		if x.Name == "nil" {
			return "false"
		}
		if x.Name == "true" || x.Name == "false" {
			return x.Name
		}
		o := c.p.info.Uses[x]
		if o == nil {
			o = c.p.info.Defs[x]
		}
		if v, ok := en.vars[o]; ok {
			return v
		}
		refuse("unknown identifier %s at %s", x.Name, c.p.fset.Position(x.Pos()))
	case *ast.StarExpr:
		return c.expr(x.X, en)
	case *ast.UnaryExpr:
		a := c.expr(x.X, en)
		switch x.Op {
		case token.XOR:
			return "(~~~ " + a + ")"
		case token.SUB:
			return "(- " + a + ")"
		case token.ADD:
			return a
		case token.NOT:
			return "(! " + a + ")"
		case token.AND:
			// the address of an array or struct variable: pointers are rendered as the value they point to
			if k := ltype(c.typeOf(x.X)).kind; k == "arr" || k == "struct" {
				return a
			}
		}
		refuse("unary %s", x.Op)
	case *ast.BinaryExpr:
		return c.binary(x.Op, x.X, x.Y, en, ltype(c.typeOf(e)))
	case *ast.CallExpr:
		return c.call(x, en, true)
	case *ast.IndexExpr:
		at := ltype(c.typeOf(x.X))
		if at.kind == "sl" {
			w := c.window(x.X, en)
			v := c.p.info.Types[x.Index].Value
			if v == nil {
				refuse("index into a byte slice that is not a constant")
			}
			k, _ := constant.Int64Val(constant.ToInt(v))
			w.lo = int(k)
			c.windowOk(w, 1, en)
			return c.windowRead(w, 1)
		}
		if at.kind != "arr" {
			refuse("index of %s", c.typeOf(x.X))
		}
		a := c.expr(x.X, en)
		return "(getByte " + a + " " + c.index(x.Index, en) + ")"
	case *ast.CompositeLit:
		t := ltype(c.typeOf(x))
		if t.kind != "struct" {
			refuse("composite literal of %s", c.typeOf(x))
		}
		name := declareStruct(c.typeOf(x))
		given := map[string]string{}
		for _, el := range x.Elts {
			kv, ok := el.(*ast.KeyValueExpr)
			if !ok {
				refuse("positional composite literal")
			}
			given[kv.Key.(*ast.Ident).Name] = c.expr(kv.Value, en)
		}
		var parts []string
		for _, f := range structFields(t.st) {
			v, ok := given[f.Name()]
			if !ok {
				switch ft := ltype(f.Type()); ft.kind {
				case "bv":
					v = fmt.Sprintf("0#%d", ft.w)
				case "arr":
					v = "0#64"
				default:
					v = "false"
				}
			}
			delete(given, f.Name())
			parts = append(parts, leanIdent(f.Name())+" := "+v)
		}
		if len(given) > 0 {
			refuse("composite literal sets a field without a Lean rendering")
		}
		return "({ " + strings.Join(parts, ", ") + " } : " + name + ")"
	case *ast.SelectorExpr:
		// field of a struct parameter
		if sel, ok := c.p.info.Selections[x]; ok && sel.Kind() == types.FieldVal {
			if id, ok := x.X.(*ast.Ident); ok {
				o := c.p.info.Uses[id]
				if base, ok := en.vars[o]; ok && strings.HasPrefix(base, "¶") {
					if !supported(sel.Type()) {
						refuse("field %s of type %s", x.Sel.Name, sel.Type())
					}
					if cur, ok := en.vars[fieldKey(o, x.Sel.Name)]; ok {
						return cur
					}
					return "(" + base[len("¶"):] + "." + leanIdent(x.Sel.Name) + ")"
				}
			}
		}
		refuse("selector %s at %s", x.Sel.Name, c.p.fset.Position(x.Pos()))
	}
	refuse("expression %T at %s", e, c.p.fset.Position(e.Pos()))
	return ""
}

var fieldKeys = map[string]types.Object{}

// fieldKey gives a stable pseudo-object for "field f of struct variable o" so that assignments to fields can be tracked
func fieldKey(o types.Object, f string) types.Object {
	k := fmt.Sprintf("%p.%s", o, f)
	if v, ok := fieldKeys[k]; ok {
		return v
	}
	v := types.NewVar(token.NoPos, nil, k, nil)
	fieldKeys[k] = v
	return v
}

// index translates an index expression to a 64-bit vector and records the bound check
func (c *ctx) index(ix ast.Expr, en *env) string {
	t := ltype(c.typeOf(ix))
	if t.kind != "bv" {
		refuse("index type")
	}
	i := to64(c.expr(ix, en), t)
	if strings.Contains(i, "§") {
		refuse("call inside an index expression")
	}
	if c.p.info.Types[ix].Value == nil {
		n := c.name("ix")
		en.oks = append(en.oks, "(BitVec.ult "+n+" 8#64)")
		return "§let " + n + " := " + i + "§" + n
	}
	return i
}

func (c *ctx) binary(op token.Token, X, Y ast.Expr, en *env, rt lty) string {
	if op == token.LAND || op == token.LOR {
		// Go evaluates the right operand only when needed; its panics conditions must be guarded likewise
		a := c.expr(X, en)
		before := map[types.Object]string{}
		for k, v := range en.vars {
			before[k] = v
		}
		sub := &env{vars: en.vars}
		b := c.expr(Y, sub)
		for k, v := range en.vars {
			if before[k] != v {
				refuse("a call that assigns through a pointer inside the right operand of %s", op)
			}
		}
		for _, k := range sub.oks {
			if op == token.LAND {
				en.oks = append(en.oks, "(!"+a+" || "+k+")")
			} else {
				en.oks = append(en.oks, "("+a+" || "+k+")")
			}
		}
		if op == token.LAND {
			return "(" + a + " && " + b + ")"
		}
		return "(" + a + " || " + b + ")"
	}
	a := c.expr(X, en)
	b := c.expr(Y, en)
	xt := ltype(c.typeOf(X))
	switch op {
	case token.SHL, token.SHR:
		yt := ltype(c.typeOf(Y))
		if yt.kind != "bv" {
			refuse("shift count type")
		}
		if yt.signed && c.p.info.Types[Y].Value == nil {
			en.oks = append(en.oks, "(BitVec.sle 0#"+fmt.Sprint(yt.w)+" "+b+")")
		}
		if op == token.SHL {
			return "(" + a + " <<< " + b + ")"
		}
		if xt.signed {
			return "(BitVec.sshiftRight' " + a + " " + b + ")"
		}
		return "(" + a + " >>> " + b + ")"
	}
	if xt.kind == "bool" || xt.kind == "err" {
		switch op {
		case token.EQL:
			return "(" + a + " == " + b + ")"
		case token.NEQ:
			return "(" + a + " != " + b + ")"
		}
		refuse("boolean operator %s", op)
	}
	w := fmt.Sprint(xt.w)
	switch op {
	case token.ADD:
		return "(" + a + " + " + b + ")"
	case token.SUB:
		return "(" + a + " - " + b + ")"
	case token.MUL:
		return "(" + a + " * " + b + ")"
	case token.AND:
		return "(" + a + " &&& " + b + ")"
	case token.OR:
		return "(" + a + " ||| " + b + ")"
	case token.XOR:
		return "(" + a + " ^^^ " + b + ")"
	case token.AND_NOT:
		return "(" + a + " &&& ~~~ " + b + ")"
	case token.QUO, token.REM:
		if c.p.info.Types[Y].Value == nil {
			en.oks = append(en.oks, "("+b+" != 0#"+w+")")
		}
		if xt.signed {
			if op == token.QUO {
				return "(BitVec.sdiv " + a + " " + b + ")"
			}
			return "(BitVec.srem " + a + " " + b + ")"
		}
		if op == token.QUO {
			return "(" + a + " / " + b + ")"
		}
		return "(" + a + " % " + b + ")"
	case token.EQL:
		return "(" + a + " == " + b + ")"
	case token.NEQ:
		return "(" + a + " != " + b + ")"
	case token.LSS, token.LEQ, token.GTR, token.GEQ:
		f := map[bool]map[token.Token]string{
			false: {token.LSS: "BitVec.ult", token.LEQ: "BitVec.ule"},
			true:  {token.LSS: "BitVec.slt", token.LEQ: "BitVec.sle"}}
		switch op {
		case token.LSS, token.LEQ:
			return "(" + f[xt.signed][op] + " " + a + " " + b + ")"
		case token.GTR:
			return "(" + f[xt.signed][token.LSS] + " " + b + " " + a + ")"
		default:
			return "(" + f[xt.signed][token.LEQ] + " " + b + " " + a + ")"
		}
	}
	refuse("binary operator %s", op)
	return ""
}

// call translates a call expression; wantValue says whether the value is used
func (c *ctx) call(x *ast.CallExpr, en *env, wantValue bool) string {
	// conversion?
	if tv, ok := c.p.info.Types[x.Fun]; ok && tv.IsType() {
		if len(x.Args) != 1 {
			refuse("conversion arity")
		}
		from := ltype(c.typeOf(x.Args[0]))
		to := ltype(tv.Type)
		a := c.expr(x.Args[0], en)
		if from.kind == "bool" && to.kind == "bool" {
			return a
		}
		if from.kind != "bv" || to.kind != "bv" {
			refuse("conversion %s -> %s", c.typeOf(x.Args[0]), tv.Type)
		}
		if from.w == to.w {
			return a
		}
		if to.w > from.w && from.signed {
			return fmt.Sprintf("(BitVec.signExtend %d %s)", to.w, a)
		}
		return fmt.Sprintf("(BitVec.setWidth %d %s)", to.w, a)
	}
	// error constructors
	if se, ok := x.Fun.(*ast.SelectorExpr); ok {
		if id, ok := se.X.(*ast.Ident); ok {
			if pn, ok := c.p.info.Uses[id].(*types.PkgName); ok {
				full := pn.Imported().Path() + "." + se.Sel.Name
				if full == "fmt.Errorf" || full == "errors.New" {
					return "true"
				}
			}
		}
	}
	if id, ok := x.Fun.(*ast.Ident); ok && id.Name == "len" && len(x.Args) == 1 {
		if _, isBuiltin := c.p.info.Uses[id].(*types.Builtin); isBuiltin {
			ro := c.rootObj(x.Args[0])
			if ro == nil || c.slLen[ro] == "" {
				refuse("len of something other than a byte-slice variable")
			}
			return c.slLen[ro] // len() has type int: a 64-bit vector
		}
	}
	// intrinsics: mdlayher/netlink/nlenc (native byte order = little-endian on the platforms the package builds for)
	if se, ok := x.Fun.(*ast.SelectorExpr); ok {
		if id, ok := se.X.(*ast.Ident); ok {
			if pn, ok := c.p.info.Uses[id].(*types.PkgName); ok && pn.Imported().Path() == "github.com/mdlayher/netlink/nlenc" {
				nb := map[string]int{"Uint8": 1, "Uint16": 2, "Uint32": 4, "Uint64": 8, "Int32": 4,
					"PutUint8": 1, "PutUint16": 2, "PutUint32": 4, "PutUint64": 8, "PutInt32": 4}[se.Sel.Name]
				if nb == 0 {
					refuse("nlenc.%s", se.Sel.Name)
				}
				w := c.window(x.Args[0], en)
				// nlenc panics unless the slice is exactly nb bytes long
				if w.n >= 0 && w.n != nb {
					en.oks = append(en.oks, "false")
				} else if w.n < 0 {
					if w.lo != 0 {
						refuse("nlenc on an open-ended slice with an offset")
					}
					en.oks = append(en.oks, fmt.Sprintf("(%s == %d#64)", w.lenE, nb))
				}
				c.windowOk(w, nb, en)
				if strings.HasPrefix(se.Sel.Name, "Put") {
					if wantValue {
						refuse("value of nlenc.Put")
					}
					return c.windowWrite(w, nb, c.expr(x.Args[1], en), en)
				}
				return c.windowRead(w, nb)
			}
		}
	}
	// intrinsics: encoding/binary on byte windows, copy, math/bits byte reversal
	if id, ok := x.Fun.(*ast.Ident); ok && id.Name == "copy" {
		if _, isBuiltin := c.p.info.Uses[id].(*types.Builtin); isBuiltin {
			if wantValue {
				refuse("result of copy is used")
			}
			dst := c.window(x.Args[0], en)
			src := c.window(x.Args[1], en)
			n := dst.n
			if src.n >= 0 && (n < 0 || src.n < n) {
				n = src.n
			}
			if n < 0 {
				refuse("copy between two open-ended slices")
			}
			// an open-ended side must be at least n bytes long for the copy to be the n-byte move modelled here
			c.windowOk(dst, n, en)
			c.windowOk(src, n, en)
			return c.windowWrite(dst, n, c.windowRead(src, n), en)
		}
	}
	if se, ok := x.Fun.(*ast.SelectorExpr); ok {
		if in, ok := se.X.(*ast.SelectorExpr); ok {
			if id, ok := in.X.(*ast.Ident); ok {
				if pn, ok := c.p.info.Uses[id].(*types.PkgName); ok && pn.Imported().Path() == "encoding/binary" &&
					(in.Sel.Name == "LittleEndian" || in.Sel.Name == "BigEndian") && len(x.Args) >= 1 {
					le := in.Sel.Name == "LittleEndian"
					nb := map[string]int{"Uint16": 2, "Uint32": 4, "Uint64": 8, "PutUint16": 2, "PutUint32": 4, "PutUint64": 8}[se.Sel.Name]
					if nb == 0 {
						refuse("encoding/binary.%s.%s", in.Sel.Name, se.Sel.Name)
					}
					w := c.window(x.Args[0], en)
					if w.n >= 0 && w.n < nb {
						refuse("encoding/binary on a window of %d bytes", w.n)
					}
					c.windowOk(w, nb, en)
					swap := func(v string) string {
						if le {
							return v
						}
						return fmt.Sprintf("(bswapN %d %s)", nb, v)
					}
					if strings.HasPrefix(se.Sel.Name, "Put") {
						if wantValue {
							refuse("value of PutUint")
						}
						return c.windowWrite(w, nb, swap(c.expr(x.Args[1], en)), en)
					}
					return swap(c.windowRead(w, nb))
				}
			}
		}
		if id, ok := se.X.(*ast.Ident); ok {
			if pn, ok := c.p.info.Uses[id].(*types.PkgName); ok && pn.Imported().Path() == "math/bits" {
				switch se.Sel.Name {
				case "ReverseBytes64":
					return "(bswap64 " + c.expr(x.Args[0], en) + ")"
				case "ReverseBytes32":
					return "(bswapN 4 " + c.expr(x.Args[0], en) + ")"
				case "ReverseBytes16":
					return "(bswapN 2 " + c.expr(x.Args[0], en) + ")"
				}
				refuse("math/bits.%s", se.Sel.Name)
			}
		}
	}
	// a listed function or method
	var obj types.Object
	var recv ast.Expr
	switch f := x.Fun.(type) {
	case *ast.Ident:
		obj = c.p.info.Uses[f]
	case *ast.SelectorExpr:
		if sel, ok := c.p.info.Selections[f]; ok && sel.Kind() == types.MethodVal {
			obj = sel.Obj()
			recv = f.X
		} else {
			obj = c.p.info.Uses[f.Sel]
		}
	}
	fo, _ := obj.(*types.Func)
	if fo == nil {
		refuse("call of a non-function at %s", c.p.fset.Position(x.Pos()))
	}
	out, ok := done[fo.FullName()]
	if !ok && fo.Pkg() != nil && (fo.Pkg().Path() == modPath || strings.HasPrefix(fo.Pkg().Path(), modPath+"/")) {
		// a helper of the module that is not in the list: translate it now (its definitions are written first)
		rel := strings.TrimPrefix(strings.TrimPrefix(fo.Pkg().Path(), modPath), "/")
		name := fo.Name()
		if sig := fo.Type().(*types.Signature); sig.Recv() != nil {
			rt := sig.Recv().Type()
			if pt, ok := rt.(*types.Pointer); ok {
				rt = pt.Elem()
			}
			if nt, ok := rt.(*types.Named); ok {
				name = nt.Obj().Name() + "." + name
			}
		}
		translate(c.repo, target{rel, name})
		out, ok = done[fo.FullName()]
	}
	if !ok {
		refuse("call of %v (outside the module or not translatable) at %s", obj, c.p.fset.Position(x.Pos()))
	}
	var args []string
	var goArgs []ast.Expr
	if recv != nil {
		goArgs = append(goArgs, recv)
	}
	goArgs = append(goArgs, x.Args...)
	if len(goArgs) != len(out.goStruct) {
		refuse("call of %s: %d arguments for %d parameters", out.lean, len(goArgs), len(out.goStruct))
	}
	for i, a := range goArgs {
		if out.goStruct[i] != nil {
			// a struct argument: must be a struct parameter of the caller, passed on field by field
			ro := c.rootObj(a)
			base, ok := en.vars[ro]
			if ro == nil || !ok || !strings.HasPrefix(base, "¶") {
				refuse("struct argument of %s is not a parameter", out.lean)
			}
			args = append(args, c.structValue(ro, en))
			continue
		}
		args = append(args, c.expr(a, en))
	}
	al := strings.Join(args, " ")
	en.oks = append(en.oks, "("+out.lean+"_ok "+al+")")
	if out.hasRecv && out.outArg >= 0 {
		// the callee updates the array its argument points to
		ro := c.rootObj(goArgs[out.outArg])
		if ro == nil {
			refuse("target of a mutating call is not a variable")
		}
		n := c.name("d")
		pre := "§let " + n + " := (" + out.lean + "_recv " + al + ")§"
		c.markMut(ro)
		newVal := n
		if t := ltype(ro.Type()); t.kind == "struct" {
			// the struct as a whole is replaced: field values tracked so far are superseded
			newVal = "¶" + n
			for _, f := range structFields(t.st) {
				delete(en.vars, fieldKey(ro, f.Name()))
			}
		}
		if wantValue && out.hasRet {
			r := c.name("r")
			pre = "§let " + r + " := (" + out.lean + "_ret " + al + ")§" + pre
			en.vars[ro] = newVal
			return pre + r
		}
		en.vars[ro] = newVal
		return pre
	}
	if out.nret == 0 {
		if wantValue {
			refuse("value of a function without result")
		}
		return ""
	}
	if out.nret > 1 {
		if c.retSel == "" {
			refuse("multi-valued call of %s outside an assignment", out.lean)
		}
		return "(" + out.lean + c.retSel + " " + al + ")"
	}
	return "(" + out.lean + "_ret " + al + ")"
}

func (c *ctx) markMut(o types.Object) {
	if _, ok := c.cands[o]; ok {
		c.mutated[o] = true
	}
}

// recvValue is the Lean expression of the mutable parameter at the end of a path
func (c *ctx) recvValue(en *env) string {
	if c.recvObj == nil {
		return "0#64"
	}
	return c.structValue(c.recvObj, en)
}

// structValue is the current value of a variable: for a struct parameter, the parameter with the fields assigned so far
func (c *ctx) structValue(o types.Object, en *env) string {
	base := en.vars[o]
	if !strings.HasPrefix(base, "¶") {
		return base
	}
	t := ltype(o.Type())
	var ups []string
	for _, f := range structFields(t.st) {
		if cur, ok := en.vars[fieldKey(o, f.Name())]; ok {
			ups = append(ups, leanIdent(f.Name())+" := "+cur)
		}
	}
	if len(ups) == 0 {
		return base[len("¶"):]
	}
	return "{ " + base[len("¶"):] + " with " + strings.Join(ups, ", ") + " }"
}

// win is a run of bytes inside an array ([8]byte as 64 bits) or a byte slice (first 16 bytes as 128 bits)
type win struct {
	base  string       // Lean expression of the whole container
	width int          // 64 or 128
	lo    int          // first byte
	n     int          // number of bytes, -1 = up to the end of a slice of dynamic length
	root  types.Object // variable to rebind on a write (nil for a struct field)
	field *ast.SelectorExpr
	lenE  string // Lean expression of the slice length (slices only)
}

// window resolves `x[lo:hi]`, `x[:]`, `x` for an array variable, an array field of a struct parameter or a byte-slice parameter
func (c *ctx) window(e ast.Expr, en *env) win {
	lo, hi := 0, -1
	inner := e
	if sl, ok := e.(*ast.SliceExpr); ok {
		if sl.Max != nil {
			refuse("three-index slice")
		}
		cst := func(x ast.Expr) int {
			v := c.p.info.Types[x].Value
			if v == nil {
				refuse("slice bound that is not a constant at %s", c.p.fset.Position(x.Pos()))
			}
			n, _ := constant.Int64Val(constant.ToInt(v))
			return int(n)
		}
		if sl.Low != nil {
			lo = cst(sl.Low)
		}
		if sl.High != nil {
			hi = cst(sl.High)
		}
		inner = sl.X
	}
	t := ltype(c.typeOf(inner))
	w := win{lo: lo, n: -1}
	switch t.kind {
	case "arr":
		w.width = 64
		if hi < 0 {
			hi = 8
		}
		if hi > 8 || lo > hi {
			refuse("slice bounds out of the array")
		}
		w.n = hi - lo
	case "sl":
		w.width = 512
		if hi >= 0 {
			if lo > hi {
				refuse("slice bounds")
			}
			w.n = hi - lo
		}
	default:
		refuse("slice of %s", c.typeOf(inner))
	}
	w.base = c.expr(inner, en)
	if se, ok := inner.(*ast.SelectorExpr); ok {
		w.field = se
	} else {
		w.root = c.rootObj(inner)
		if w.root == nil {
			refuse("slice of something that is not a variable")
		}
	}
	if t.kind == "sl" {
		if w.root == nil || c.slLen[w.root] == "" {
			refuse("byte slice whose length is not known (neither a parameter nor made with a constant length)")
		}
		w.lenE = c.slLen[w.root]
	}
	return w
}

// windowOk records that bytes lo..lo+n of the window exist (slices: inside the length and inside the 16 modelled bytes)
func (c *ctx) windowOk(w win, n int, en *env) {
	if w.width == 64 {
		return
	}
	if w.lo+n > 64 {
		en.oks = append(en.oks, "false")
		return
	}
	en.oks = append(en.oks, fmt.Sprintf("(BitVec.ule %d#64 %s)", w.lo+n, w.lenE))
}

func (c *ctx) windowRead(w win, n int) string {
	return fmt.Sprintf("(BitVec.setWidth %d (%s >>> %d))", 8*n, w.base, 8*w.lo)
}

// windowWrite stores the 8n-bit value v at the window and rebinds the container
func (c *ctx) windowWrite(w win, n int, v string, en *env) string {
	mask := new(big.Int).Sub(new(big.Int).Lsh(big.NewInt(1), uint(8*n)), big.NewInt(1))
	nv := fmt.Sprintf("((%s &&& ~~~ (%s#%d <<< %d)) ||| ((BitVec.setWidth %d %s) <<< %d))", w.base, mask.String(), w.width, 8*w.lo, w.width, v, 8*w.lo)
	if w.field != nil {
		ro := c.rootObj(w.field.X)
		base, ok := en.vars[ro]
		if ro == nil || !ok || !strings.HasPrefix(base, "¶") {
			refuse("write into a field of something other than a struct parameter")
		}
		if _, ok := c.cands[ro]; !ok {
			refuse("write into a field of a struct that is not passed by pointer")
		}
		c.markMut(ro)
		nm := c.name(w.field.Sel.Name)
		en.vars[fieldKey(ro, w.field.Sel.Name)] = nm
		return "§let " + nm + " : BitVec 64 := " + nv + "§"
	}
	c.markMut(w.root)
	nm := c.name("d")
	en.vars[w.root] = nm
	return fmt.Sprintf("§let %s : BitVec %d := %s§", nm, w.width, nv)
}

func (c *ctx) rootObj(e ast.Expr) types.Object {
	switch x := e.(type) {
	case *ast.Ident:
		return c.p.info.Uses[x]
	case *ast.ParenExpr:
		return c.rootObj(x.X)
	case *ast.StarExpr:
		return c.rootObj(x.X)
	case *ast.UnaryExpr:
		if x.Op == token.AND {
			return c.rootObj(x.X)
		}
	}
	return nil
}

// hoist splits the "§let n := e§" prefixes produced by sub-expressions out of an expression string
func hoist(s string) (lets []string, rest string) {
	for {
		i := strings.Index(s, "§let ")
		if i < 0 {
			return lets, s
		}
		j := strings.Index(s[i+len("§"):], "§")
		if j < 0 {
			refuse("internal: unbalanced let marker")
		}
		j += i + len("§")
		lets = append(lets, s[i+len("§"):j])
		s = s[:i] + s[j+len("§"):]
	}
}

type out struct {
	sb    strings.Builder
	depth int
}

func (o *out) line(s string) {
	o.sb.WriteString(strings.Repeat("  ", o.depth+1))
	o.sb.WriteString(s)
	o.sb.WriteString("\n")
}

// ev evaluates an expression, emitting hoisted lets into o, and returns the remaining expression
func (c *ctx) ev(e ast.Expr, en *env, o *out) string {
	lets, r := hoist(c.expr(e, en))
	for _, l := range lets {
		o.line(l)
	}
	return r
}

func (c *ctx) evs(s string, o *out) string {
	lets, r := hoist(s)
	for _, l := range lets {
		o.line(l)
	}
	return r
}

const maxOut = 400000

// stmts translates a statement list followed by the continuation k (the statements after the enclosing block);
// mode is "ret", "recv" or "ok".  Every path ends in a leaf.
func (c *ctx) stmts(list []ast.Stmt, k []func(*env, *out), en *env, o *out, mode string) {
	if o.sb.Len() > maxOut {
		refuse("translation too large")
	}
	if len(list) == 0 {
		if len(k) == 0 {
			c.leaf(nil, en, o, mode)
			return
		}
		k[0](en, o)
		return
	}
	s, rest := list[0], list[1:]
	cont := func(en *env, o *out) { c.stmts(rest, k, en, o, mode) }
	switch x := s.(type) {
	case *ast.EmptyStmt:
	case *ast.BlockStmt:
		c.stmts(x.List, append([]func(*env, *out){cont}, k...), en, o, mode)
		return
	case *ast.ReturnStmt:
		c.leaf(x.Results, en, o, mode)
		return
	case *ast.DeclStmt:
		gd, ok := x.Decl.(*ast.GenDecl)
		if !ok || gd.Tok != token.VAR {
			if ok && gd.Tok == token.CONST {
				break
			}
			refuse("declaration")
		}
		for _, sp := range gd.Specs {
			vs := sp.(*ast.ValueSpec)
			for i, id := range vs.Names {
				obj := c.p.info.Defs[id]
				t := ltype(obj.Type())
				var v string
				if i < len(vs.Values) {
					if u, ok := vs.Values[i].(*ast.UnaryExpr); ok && u.Op == token.AND {
						refuse("a pointer to a variable is stored (aliasing is not modelled)")
					}
					v = c.ev(vs.Values[i], en, o)
				} else {
					switch t.kind {
					case "bv":
						v = fmt.Sprintf("0#%d", t.w)
					case "bool", "err":
						v = "false"
					case "arr":
						v = "0#64"
					default:
						refuse("zero value of %s", obj.Type())
					}
				}
				c.bind(obj, id.Name, t, v, en, o)
			}
		}
	case *ast.AssignStmt:
		c.assign(x, en, o)
	case *ast.IncDecStmt:
		t := ltype(c.typeOf(x.X))
		cur := c.ev(x.X, en, o)
		op := " + "
		if x.Tok == token.DEC {
			op = " - "
		}
		c.store(x.X, "("+cur+op+fmt.Sprintf("1#%d", t.w)+")", en, o)
	case *ast.ExprStmt:
		ce, ok := x.X.(*ast.CallExpr)
		if !ok {
			refuse("expression statement")
		}
		r := c.call(ce, en, false)
		c.evs(r, o)
	case *ast.IfStmt:
		if x.Init != nil {
			c.stmts([]ast.Stmt{x.Init, &ast.IfStmt{Cond: x.Cond, Body: x.Body, Else: x.Else, If: x.If}}, append([]func(*env, *out){cont}, k...), en, o, mode)
			return
		}
		cond := c.ev(x.Cond, en, o)
		k2 := append([]func(*env, *out){cont}, k...)
		o.line("if " + cond + " then")
		o.depth++
		c.stmts(x.Body.List, k2, en.clone(), o, mode)
		o.depth--
		o.line("else")
		o.depth++
		if x.Else == nil {
			c.stmts(nil, k2, en.clone(), o, mode)
		} else {
			c.stmts([]ast.Stmt{x.Else}, k2, en.clone(), o, mode)
		}
		o.depth--
		return
	case *ast.SwitchStmt:
		k2 := append([]func(*env, *out){cont}, k...)
		if x.Init != nil {
			refuse("switch with init")
		}
		var tag string
		if x.Tag != nil {
			tag = c.ev(x.Tag, en, o)
			n := c.name("tag")
			o.line("let " + n + " := " + tag)
			tag = n
		}
		var def *ast.CaseClause
		var cases []*ast.CaseClause
		for _, cl := range x.Body.List {
			cc := cl.(*ast.CaseClause)
			for _, st := range cc.Body {
				if b, ok := st.(*ast.BranchStmt); ok {
					refuse("branch statement %s in switch", b.Tok)
				}
			}
			if cc.List == nil {
				def = cc
			} else {
				cases = append(cases, cc)
			}
		}
		var rec func(i int, en *env)
		rec = func(i int, en *env) {
			if i == len(cases) {
				if def != nil {
					c.stmts(def.Body, k2, en.clone(), o, mode)
				} else {
					c.stmts(nil, k2, en.clone(), o, mode)
				}
				return
			}
			var conds []string
			for _, ce := range cases[i].List {
				v := c.ev(ce, en, o)
				if x.Tag != nil {
					v = "(" + tag + " == " + v + ")"
				}
				conds = append(conds, v)
			}
			o.line("if " + strings.Join(conds, " || ") + " then")
			o.depth++
			c.stmts(cases[i].Body, k2, en.clone(), o, mode)
			o.depth--
			o.line("else")
			o.depth++
			rec(i+1, en)
			o.depth--
		}
		rec(0, en)
		return
	case *ast.ForStmt:
		c.forLoop(x, cont, k, en, o, mode)
		return
	case *ast.RangeStmt:
		c.rangeLoop(x, cont, k, en, o, mode)
		return
	default:
		refuse("statement %T at %s", s, c.p.fset.Position(s.Pos()))
	}
	cont(en, o)
}

// rangeLoop unrolls `for i := range N` (constant N <= 64) and `for i[, v] := range a` over an [8]byte
func (c *ctx) rangeLoop(x *ast.RangeStmt, cont func(*env, *out), k []func(*env, *out), en *env, o *out, mode string) {
	if x.Tok != token.DEFINE && x.Key != nil {
		refuse("range loop that assigns to existing variables")
	}
	ast.Inspect(x.Body, func(n ast.Node) bool {
		if y, ok := n.(*ast.BranchStmt); ok {
			refuse("range loop: %s", y.Tok)
		}
		return true
	})
	var n int64
	var arr ast.Expr
	if cv := c.p.info.Types[x.X].Value; cv != nil {
		n, _ = constant.Int64Val(constant.ToInt(cv))
	} else if t := ltype(c.typeOf(x.X)); t.kind == "arr" {
		n, arr = 8, x.X
	} else {
		refuse("range over %s", c.typeOf(x.X))
	}
	if n < 0 || n > 64 {
		refuse("range loop: more than 64 iterations")
	}
	var keyObj, valObj types.Object
	if id, ok := x.Key.(*ast.Ident); ok && id.Name != "_" {
		keyObj = c.p.info.Defs[id]
	}
	if id, ok := x.Value.(*ast.Ident); ok && id.Name != "_" {
		valObj = c.p.info.Defs[id]
	}
	if valObj != nil && arr == nil {
		refuse("range value without an array")
	}
	// the array is evaluated once, before the loop
	arrVal := ""
	if arr != nil {
		arrVal = c.ev(arr, en, o)
	}
	var iter func(i int64) func(*env, *out)
	iter = func(i int64) func(*env, *out) {
		return func(en *env, o *out) {
			if i >= n {
				cont(en, o)
				return
			}
			if keyObj != nil {
				en.vars[keyObj] = lit(big.NewInt(i), ltype(keyObj.Type()).w)
			}
			if valObj != nil {
				en.vars[valObj] = fmt.Sprintf("(getByte %s %d#64)", arrVal, i)
			}
			c.stmts(x.Body.List, append([]func(*env, *out){iter(i + 1)}, k...), en, o, mode)
		}
	}
	iter(0)(en, o)
}

const generalUnroll = 16

// generalLoop unrolls any `for init; cond; post { body }` without break / continue up to generalUnroll iterations; a path
// that would need more ends in a leaf whose _ok is false (so nothing is claimed about it)
func (c *ctx) generalLoop(x *ast.ForStmt, cont func(*env, *out), k []func(*env, *out), en *env, o *out, mode string) {
	if x.Cond == nil {
		refuse("for loop without condition")
	}
	ast.Inspect(x.Body, func(n ast.Node) bool {
		if y, ok := n.(*ast.BranchStmt); ok {
			refuse("for loop: %s", y.Tok)
		}
		return true
	})
	var iter func(n int) func(*env, *out)
	iter = func(n int) func(*env, *out) {
		return func(en *env, o *out) {
			if n > generalUnroll {
				switch mode {
				case "ok":
					o.line("false")
				case "recv":
					o.line(c.recvValue(en))
				default:
					switch c.ret.kind {
					case "bv":
						o.line(fmt.Sprintf("0#%d", c.ret.w))
					case "arr":
						o.line("0#64")
					default:
						o.line("false")
					}
				}
				return
			}
			cond := c.ev(x.Cond, en, o)
			o.line("if " + cond + " then")
			o.depth++
			body := append([]ast.Stmt(nil), x.Body.List...)
			if x.Post != nil {
				body = append(body, x.Post)
			}
			c.stmts(body, append([]func(*env, *out){iter(n + 1)}, k...), en.clone(), o, mode)
			o.depth--
			o.line("else")
			o.depth++
			cont(en.clone(), o)
			o.depth--
		}
	}
	if x.Init != nil {
		c.stmts([]ast.Stmt{x.Init}, append([]func(*env, *out){iter(1)}, k...), en, o, mode)
		return
	}
	iter(1)(en, o)
}

// forLoop unrolls `for i := c0; i < c1; i++ { body }` (constant bounds, body without break/continue/return of i);
// other loops go to generalLoop
func (c *ctx) forLoop(x *ast.ForStmt, cont func(*env, *out), k []func(*env, *out), en *env, o *out, mode string) {
	if !c.simpleLoop(x) {
		c.generalLoop(x, cont, k, en, o, mode)
		return
	}
	as, ok := x.Init.(*ast.AssignStmt)
	if !ok || as.Tok != token.DEFINE || len(as.Lhs) != 1 {
		refuse("for loop: init")
	}
	id := as.Lhs[0].(*ast.Ident)
	obj := c.p.info.Defs[id]
	c0 := c.p.info.Types[as.Rhs[0]].Value
	be, ok := x.Cond.(*ast.BinaryExpr)
	if !ok || c0 == nil {
		refuse("for loop: condition")
	}
	bid, ok := be.X.(*ast.Ident)
	c1 := c.p.info.Types[be.Y].Value
	if !ok || c.p.info.Uses[bid] != obj || c1 == nil || (be.Op != token.LSS && be.Op != token.LEQ) {
		refuse("for loop: bound")
	}
	inc, ok := x.Post.(*ast.IncDecStmt)
	if !ok || inc.Tok != token.INC || c.rootObj(inc.X) != obj {
		refuse("for loop: post")
	}
	ast.Inspect(x.Body, func(n ast.Node) bool {
		switch y := n.(type) {
		case *ast.BranchStmt:
			refuse("for loop: %s", y.Tok)
		case *ast.AssignStmt:
			for _, l := range y.Lhs {
				if c.rootObj(l) == obj {
					refuse("for loop: loop variable assigned")
				}
			}
		}
		return true
	})
	lo, _ := constant.Int64Val(constant.ToInt(c0))
	hi, _ := constant.Int64Val(constant.ToInt(c1))
	if be.Op == token.LEQ {
		hi++
	}
	if hi-lo > 64 {
		refuse("for loop: more than 64 iterations")
	}
	t := ltype(obj.Type())
	var iter func(i int64) func(*env, *out)
	iter = func(i int64) func(*env, *out) {
		return func(en *env, o *out) {
			if i >= hi {
				cont(en, o)
				return
			}
			en.vars[obj] = lit(big.NewInt(i), t.w)
			c.stmts(x.Body.List, append([]func(*env, *out){iter(i + 1)}, k...), en, o, mode)
		}
	}
	iter(lo)(en, o)
}

// simpleLoop recognises `for i := c0; i < c1; i++` with constant bounds, at most 64 iterations and a body that neither
// assigns i nor branches
func (c *ctx) simpleLoop(x *ast.ForStmt) bool {
	as, ok := x.Init.(*ast.AssignStmt)
	if !ok || as.Tok != token.DEFINE || len(as.Lhs) != 1 || len(as.Rhs) != 1 {
		return false
	}
	id, ok := as.Lhs[0].(*ast.Ident)
	if !ok {
		return false
	}
	obj := c.p.info.Defs[id]
	c0 := c.p.info.Types[as.Rhs[0]].Value
	be, ok := x.Cond.(*ast.BinaryExpr)
	if !ok || c0 == nil {
		return false
	}
	bid, ok := be.X.(*ast.Ident)
	c1 := c.p.info.Types[be.Y].Value
	if !ok || c.p.info.Uses[bid] != obj || c1 == nil || (be.Op != token.LSS && be.Op != token.LEQ) {
		return false
	}
	inc, ok := x.Post.(*ast.IncDecStmt)
	if !ok || inc.Tok != token.INC || c.rootObj(inc.X) != obj {
		return false
	}
	good := true
	ast.Inspect(x.Body, func(n ast.Node) bool {
		switch y := n.(type) {
		case *ast.BranchStmt:
			good = false
		case *ast.AssignStmt:
			for _, l := range y.Lhs {
				if c.rootObj(l) == obj {
					good = false
				}
			}
		case *ast.IncDecStmt:
			if c.rootObj(y.X) == obj {
				good = false
			}
		}
		return true
	})
	lo, _ := constant.Int64Val(constant.ToInt(c0))
	hi, _ := constant.Int64Val(constant.ToInt(c1))
	return good && hi-lo <= 64
}

func (c *ctx) bind(obj types.Object, base string, t lty, v string, en *env, o *out) {
	if base == "_" {
		return
	}
	n := c.name(base)
	o.line("let " + n + " : " + t.lean() + " := " + v)
	en.vars[obj] = n
}

func (c *ctx) assign(x *ast.AssignStmt, en *env, o *out) {
	if len(x.Lhs) > 1 && len(x.Rhs) == 1 {
		// a, b := f(x) with a translated multi-result function
		ce, ok := x.Rhs[0].(*ast.CallExpr)
		if !ok || (x.Tok != token.DEFINE && x.Tok != token.ASSIGN) {
			refuse("assignment of a multi-valued expression")
		}
		var vs []string
		for i := range x.Lhs {
			c.retSel = fmt.Sprintf("_ret%d", i)
			sub := en
			if i > 0 {
				sub = &env{vars: en.vars} // the panic condition of the call is recorded once
			}
			v := c.evs(c.call(ce, sub, true), o)
			c.retSel = ""
			n := c.name("t")
			o.line("let " + n + " := " + v)
			vs = append(vs, n)
		}
		for i, l := range x.Lhs {
			if x.Tok == token.DEFINE {
				id := l.(*ast.Ident)
				obj := c.p.info.Defs[id]
				if obj == nil {
					obj = c.p.info.Uses[id]
				}
				c.bind(obj, id.Name, ltype(obj.Type()), vs[i], en, o)
			} else {
				c.store(l, vs[i], en, o)
			}
		}
		return
	}
	if len(x.Lhs) != len(x.Rhs) {
		refuse("assignment of a multi-valued expression")
	}
	if len(x.Lhs) > 1 {
		// parallel assignment: all right-hand sides first
		if x.Tok != token.DEFINE && x.Tok != token.ASSIGN {
			refuse("parallel assignment operator")
		}
		var vs []string
		for _, r := range x.Rhs {
			t := ltype(c.typeOf(r))
			n := c.name("t")
			o.line("let " + n + " : " + t.lean() + " := " + c.ev(r, en, o))
			vs = append(vs, n)
		}
		for i, l := range x.Lhs {
			if x.Tok == token.DEFINE {
				id := l.(*ast.Ident)
				obj := c.p.info.Defs[id]
				if obj == nil {
					obj = c.p.info.Uses[id]
				}
				c.bind(obj, id.Name, ltype(obj.Type()), vs[i], en, o)
			} else {
				c.store(l, vs[i], en, o)
			}
		}
		return
	}
	lhs, rhs := x.Lhs[0], x.Rhs[0]
	if u, ok := rhs.(*ast.UnaryExpr); ok && u.Op == token.AND {
		refuse("a pointer to a variable is stored (aliasing is not modelled)")
	}
	if ce, ok := rhs.(*ast.CallExpr); ok && x.Tok == token.DEFINE {
		if fid, ok := ce.Fun.(*ast.Ident); ok && fid.Name == "make" {
			if _, isBuiltin := c.p.info.Uses[fid].(*types.Builtin); isBuiltin {
				// buf := make([]byte, N) with a constant N: a zeroed byte slice of known length
				if len(ce.Args) != 2 || ltype(c.typeOf(ce)).kind != "sl" {
					refuse("make of something other than a byte slice with a length")
				}
				cv := c.p.info.Types[ce.Args[1]].Value
				if cv == nil {
					refuse("make with a length that is not a constant")
				}
				n, _ := constant.Int64Val(constant.ToInt(cv))
				id := lhs.(*ast.Ident)
				obj := c.p.info.Defs[id]
				c.slLen[obj] = fmt.Sprintf("%d#64", n)
				c.bind(obj, id.Name, ltype(obj.Type()), "0#512", en, o)
				return
			}
		}
	}
	switch x.Tok {
	case token.DEFINE:
		id := lhs.(*ast.Ident)
		obj := c.p.info.Defs[id]
		if obj == nil {
			obj = c.p.info.Uses[id]
		}
		v := c.ev(rhs, en, o)
		c.bind(obj, id.Name, ltype(obj.Type()), v, en, o)
		return
	case token.ASSIGN:
		v := c.ev(rhs, en, o)
		c.store(lhs, v, en, o)
		return
	}
	ops := map[token.Token]token.Token{token.ADD_ASSIGN: token.ADD, token.SUB_ASSIGN: token.SUB, token.MUL_ASSIGN: token.MUL,
		token.QUO_ASSIGN: token.QUO, token.REM_ASSIGN: token.REM, token.AND_ASSIGN: token.AND, token.OR_ASSIGN: token.OR,
		token.XOR_ASSIGN: token.XOR, token.SHL_ASSIGN: token.SHL, token.SHR_ASSIGN: token.SHR, token.AND_NOT_ASSIGN: token.AND_NOT}
	op, ok := ops[x.Tok]
	if !ok {
		refuse("assignment operator %s", x.Tok)
	}
	v := c.evs(c.binary(op, lhs, rhs, en, ltype(c.typeOf(lhs))), o)
	c.store(lhs, v, en, o)
}

// store assigns the Lean expression v to the Go lvalue lhs
func (c *ctx) store(lhs ast.Expr, v string, en *env, o *out) {
	switch l := lhs.(type) {
	case *ast.ParenExpr:
		c.store(l.X, v, en, o)
	case *ast.Ident:
		if l.Name == "_" {
			return
		}
		obj := c.p.info.Uses[l]
		if obj == nil {
			obj = c.p.info.Defs[l]
		}
		if _, ok := en.vars[obj]; !ok {
			refuse("assignment to %s", l.Name)
		}
		c.bind(obj, l.Name, ltype(obj.Type()), v, en, o)
	case *ast.StarExpr:
		ro := c.rootObj(l.X)
		if _, ok := c.cands[ro]; ro == nil || !ok {
			refuse("assignment through a pointer")
		}
		c.markMut(ro)
		c.bind(ro, "d", ltype(ro.Type()), v, en, o)
	case *ast.IndexExpr:
		if ltype(c.typeOf(l.X)).kind == "sl" {
			w := c.window(l.X, en)
			cv := c.p.info.Types[l.Index].Value
			if cv == nil {
				refuse("index into a byte slice that is not a constant")
			}
			k, _ := constant.Int64Val(constant.ToInt(cv))
			w.lo = int(k)
			c.windowOk(w, 1, en)
			c.evs(c.windowWrite(w, 1, v, en), o)
			return
		}
		ro := c.rootObj(l.X)
		if ro == nil || ltype(ro.Type()).kind != "arr" {
			refuse("indexed assignment")
		}
		c.markMut(ro)
		ix := c.evs(c.index(l.Index, en), o)
		c.bind(ro, "d", lty{kind: "arr"}, "(setByte "+en.vars[ro]+" "+ix+" "+v+")", en, o)
	case *ast.SelectorExpr:
		ro := c.rootObj(l.X)
		base, ok := en.vars[ro]
		if ro == nil || !ok || !strings.HasPrefix(base, "¶") {
			refuse("assignment to a field of something other than a struct parameter")
		}
		if _, ok := c.cands[ro]; !ok {
			refuse("assignment to a field of a struct that is not passed by pointer")
		}
		ft := ltype(c.typeOf(l))
		if ft.kind != "bv" && ft.kind != "bool" && ft.kind != "arr" {
			refuse("assignment to field %s", l.Sel.Name)
		}
		c.markMut(ro)
		n := c.name(l.Sel.Name)
		o.line("let " + n + " : " + ft.lean() + " := " + v)
		en.vars[fieldKey(ro, l.Sel.Name)] = n
	default:
		refuse("assignment target %T", lhs)
	}
}

func (c *ctx) leaf(rs []ast.Expr, en *env, o *out, mode string) {
	var rvs []string
	for _, r := range rs {
		rvs = append(rvs, c.ev(r, en, o))
	}
	if len(rs) == 0 && len(c.named) == len(c.rets) {
		for _, ro := range c.named {
			rvs = append(rvs, en.vars[ro])
		}
	}
	if strings.HasPrefix(mode, "ret") {
		k := 0
		if len(mode) > 3 {
			fmt.Sscan(mode[3:], &k)
		}
		if len(rvs) != len(c.rets) {
			refuse("return with %d values for %d results (named results are not covered)", len(rvs), len(c.rets))
		}
		o.line(rvs[k])
		return
	}
	switch mode {
	case "recv":
		o.line(c.recvValue(en))
	case "ok":
		if len(en.oks) == 0 {
			o.line("true")
		} else {
			o.line("(" + strings.Join(en.oks, " && ") + ")")
		}
	}
}

var outputs []string
var inProgress = map[target]bool{}
var leanNames = map[string]target{}

func translate(repo string, tg target) {
	if _, ok := fullNames[tg]; ok {
		return
	}
	if inProgress[tg] {
		refuse("recursion through %s", tg.name)
	}
	inProgress[tg] = true
	defer delete(inProgress, tg)
	cwd, _ := os.Getwd()
	defer os.Chdir(cwd)
	p := load(repo, tg.pkgPath)
	var fd *ast.FuncDecl
	var obj types.Object
	for o, d := range p.decls {
		n := d.Name.Name
		if d.Recv != nil && len(d.Recv.List) == 1 {
			t := d.Recv.List[0].Type
			if s, ok := t.(*ast.StarExpr); ok {
				t = s.X
			}
			if id, ok := t.(*ast.Ident); ok {
				n = id.Name + "." + n
			}
		}
		if n == tg.name {
			fd, obj = d, o
		}
	}
	if fd == nil {
		refuse("function %s not found in %s", tg.name, p.path)
	}
	lean := strings.ReplaceAll(tg.name, ".", "_")
	if other, ok := leanNames[lean]; ok && other != tg {
		refuse("two translated functions named %s", lean)
	}
	leanNames[lean] = tg
	sig := obj.Type().(*types.Signature)
	res := &fnOut{lean: lean, hasRet: sig.Results().Len() == 1, nret: sig.Results().Len()}
	var rets []lty
	for i := 0; i < sig.Results().Len(); i++ {
		rt := ltype(sig.Results().At(i).Type())
		if rt.kind == "struct" {
			rt.name = declareStruct(sig.Results().At(i).Type())
		}
		rets = append(rets, rt)
	}
	var sbAll strings.Builder
	var paramDecl string
	modes := []string{"ok", "recv"}
	if res.nret == 1 {
		modes = append([]string{"ret"}, modes...)
	} else {
		for i := res.nret - 1; i >= 0; i-- {
			modes = append([]string{fmt.Sprintf("ret%d", i)}, modes...)
		}
	}
	bodies := map[string]string{}
	mutated := map[types.Object]bool{}
	recvType := "BitVec 64"
	var rett lty
	if res.hasRet {
		rett = rets[0]
	}
	for _, mode := range modes {
		c := &ctx{p: p, repo: repo, fd: fd, fields: map[string]lty{}, ret: rett, hasRet: res.hasRet, rets: rets,
			cands: map[types.Object]int{}, mutated: mutated, slLen: map[types.Object]string{}}
		if mode == "recv" {
			// the passes before this one have found which pointer parameter is assigned through
			if len(mutated) > 1 {
				refuse("%s mutates more than one pointer parameter", tg.name)
			}
			for o := range mutated {
				c.recvObj = o
			}
		}
		en := &env{vars: map[types.Object]string{}}
		var params []string
		var decl []string
		structOf := map[int]*types.Struct{}
		add := func(id *ast.Ident, T types.Type) {
			o := p.info.Defs[id]
			t := ltype(T)
			pn := leanIdent(id.Name)
			if t.kind == "struct" {
				en.vars[o] = "¶" + pn
				structOf[len(params)] = t.st
				params = append(params, pn)
				decl = append(decl, "("+pn+" : "+declareStruct(T)+")")
				return
			}
			en.vars[o] = pn
			params = append(params, pn)
			decl = append(decl, "("+pn+" : "+t.lean()+")")
			if t.kind == "sl" {
				// the length of the slice travels with it
				params = append(params, pn+"_len")
				decl = append(decl, "("+pn+"_len : BitVec 64)")
				c.slLen[o] = pn + "_len"
			}
		}
		goIdx := 0
		res.goStruct = nil
		note := func(id *ast.Ident) {
			T := p.info.Defs[id].Type()
			t := ltype(T)
			if _, isPtr := T.(*types.Pointer); (isPtr && (t.kind == "arr" || t.kind == "struct")) || t.kind == "sl" {
				// a pointer to a byte array or struct: something the function may mutate
				c.cands[p.info.Defs[id]] = goIdx
			}
			if t.kind == "struct" {
				var fs []string
				for _, f := range structFields(t.st) {
					fs = append(fs, f.Name())
				}
				if fs == nil {
					fs = []string{}
				}
				res.goStruct = append(res.goStruct, fs)
			} else {
				res.goStruct = append(res.goStruct, nil)
			}
			goIdx++
		}
		if fd.Recv != nil {
			f := fd.Recv.List[0]
			if len(f.Names) != 1 {
				refuse("%s: unnamed receiver", tg.name)
			}
			add(f.Names[0], p.info.Defs[f.Names[0]].Type())
			note(f.Names[0])
		}
		for _, f := range fd.Type.Params.List {
			for _, id := range f.Names {
				add(id, p.info.Defs[id].Type())
				note(id)
			}
		}
		o := &out{}
		// named results start at their zero values; a bare return returns their current values
		c.named = nil
		if fd.Type.Results != nil {
			for _, f := range fd.Type.Results.List {
				for _, id := range f.Names {
					ro := p.info.Defs[id]
					if ro == nil || id.Name == "_" {
						refuse("%s: blank named result", tg.name)
					}
					t := ltype(ro.Type())
					var z string
					switch t.kind {
					case "bv":
						z = fmt.Sprintf("0#%d", t.w)
					case "bool", "err":
						z = "false"
					case "arr":
						z = "0#64"
					default:
						refuse("%s: named result of type %s", tg.name, ro.Type())
					}
					en.vars[ro] = z
					c.named = append(c.named, ro)
				}
			}
		}
		c.stmts(fd.Body.List, nil, en, o, mode)
		bodies[mode] = o.sb.String()
		if mode == "recv" {
			res.hasRecv = c.recvObj != nil
			res.outArg = -1
			if c.recvObj != nil {
				res.outArg = c.cands[c.recvObj]
			}
			recvType = "BitVec 64"
			if c.recvObj != nil {
				if t := ltype(c.recvObj.Type()); t.kind == "struct" {
					recvType = declareStruct(c.recvObj.Type())
				} else if t.kind == "sl" {
					recvType = "BitVec 512"
				}
			}
		}
		if mode == modes[len(modes)-1] {
			ps := params
			ds := decl
			res.params = ps
			paramDecl = strings.Join(ds, " ")
		}
	}
	fmt.Fprintf(&sbAll, "/-- `%s` of %s -/\n", tg.name, p.path)
	if res.hasRet {
		fmt.Fprintf(&sbAll, "def %s_ret %s : %s :=\n%s\n", lean, paramDecl, rett.lean(), bodies["ret"])
	} else {
		for i := 0; i < res.nret; i++ {
			fmt.Fprintf(&sbAll, "def %s_ret%d %s : %s :=\n%s\n", lean, i, paramDecl, rets[i].lean(), bodies[fmt.Sprintf("ret%d", i)])
		}
	}
	if res.hasRecv {
		fmt.Fprintf(&sbAll, "def %s_recv %s : %s :=\n%s\n", lean, paramDecl, recvType, bodies["recv"])
	}
	fmt.Fprintf(&sbAll, "def %s_ok %s : Bool :=\n%s\n", lean, paramDecl, bodies["ok"])
	fmt.Fprintf(&sbAll, "/-- whether `%s` assigns through one of its pointer parameters -/\ndef %s_mutates : Bool := %v\n", tg.name, lean, res.hasRecv)
	done[obj.(*types.Func).FullName()] = res
	fullNames[tg] = obj.(*types.Func).FullName()
	outputs = append(outputs, sbAll.String())
	order = append(order, tg)
}

var order []target

const prelude = `/- GENERATED by harness/cmd/go2lean from /repo's working tree on every run; not committed. -/
namespace CanVerif.Gen.Go

/-- byte reversal of an n-byte value (encoding/binary.BigEndian on n bytes; stdlib, trusted) -/
def bswapN (n : Nat) (x : BitVec (8 * n)) : BitVec (8 * n) :=
  (List.range n).foldl (fun acc i => acc ||| (((x >>> (8 * i)) &&& 255) <<< (8 * (n - 1 - i)))) 0

/-- byte i of a [8]byte held as a 64-bit vector (byte k = bits 8k..8k+7); i is the index extended to 64 bits -/
def getByte (d : BitVec 64) (i : BitVec 64) : BitVec 8 := BitVec.setWidth 8 (d >>> (i * 8#64))
/-- the array with byte i replaced -/
def setByte (d : BitVec 64) (i : BitVec 64) (v : BitVec 8) : BitVec 64 :=
  (d &&& ~~~ (255#64 <<< (i * 8#64))) ||| (BitVec.setWidth 64 v <<< (i * 8#64))
/-- byte reversal: binary.BigEndian.Uint64 / PutUint64 on the whole array, bits.ReverseBytes64 (stdlib, trusted) -/
def bswap64 (x : BitVec 64) : BitVec 64 :=
  ((x &&& 255#64) <<< 56) ||| (((x >>> 8) &&& 255#64) <<< 48) ||| (((x >>> 16) &&& 255#64) <<< 40) |||
  (((x >>> 24) &&& 255#64) <<< 32) ||| (((x >>> 32) &&& 255#64) <<< 24) ||| (((x >>> 40) &&& 255#64) <<< 16) |||
  (((x >>> 48) &&& 255#64) <<< 8) ||| ((x >>> 56) &&& 255#64)

`

func main() {
	if len(os.Args) != 3 && len(os.Args) != 4 {
		fmt.Fprintln(os.Stderr, "usage: go2lean <repo> <out.lean> [group,group,...]   groups: data frame signal msgid netlink")
		os.Exit(2)
	}
	want := map[string]bool{}
	if len(os.Args) == 4 {
		for _, g := range strings.Split(os.Args[3], ",") {
			want[g] = true
		}
	}
	repo, err := filepath.Abs(os.Args[1])
	if err != nil {
		fmt.Fprintln(os.Stderr, err)
		os.Exit(2)
	}
	outp, _ := filepath.Abs(os.Args[2])
	var sb strings.Builder
	sb.WriteString(prelude)
	code := 0
	func() {
		defer func() {
			if r := recover(); r != nil {
				if rf, ok := r.(refusal); ok {
					fmt.Fprintln(os.Stderr, "go2lean: UNAVAILABLE:", rf.msg)
					code = 3
					return
				}
				panic(r)
			}
		}()
		for _, tg := range targets {
			if len(want) > 0 && !want[groupOf(tg)] {
				continue
			}
			func() {
				defer func() {
					if r := recover(); r != nil {
						if rf, ok := r.(refusal); ok {
							panic(refusal{tg.name + ": " + rf.msg})
						}
						panic(r)
					}
				}()
				translate(repo, tg)
			}()
		}
	}()
	if code != 0 {
		os.Exit(code)
	}
	for _, d := range structDecls {
		sb.WriteString(d)
		sb.WriteString("\n")
	}
	for _, o := range outputs {
		sb.WriteString(o)
		sb.WriteString("\n")
	}
	// a tactic that unfolds every translated definition (used by the bridge proofs)
	var names []string
	for _, tg := range order {
		l := strings.ReplaceAll(tg.name, ".", "_")
		o := done[fullNames[tg]]
		if o == nil {
			continue
		}
		if o.hasRet {
			names = append(names, l+"_ret")
		} else {
			for i := 0; i < o.nret; i++ {
				names = append(names, fmt.Sprintf("%s_ret%d", l, i))
			}
		}
		if o.hasRecv {
			names = append(names, l+"_recv")
		}
		names = append(names, l+"_ok")
	}
	sb.WriteString("open Lean in\nmacro \"unfold_go\" : tactic => `(tactic| simp only [getByte, setByte, bswap64, bswapN, List.range, List.range.loop, List.foldl, " + strings.Join(names, ", ") + "])\n\n")
	sb.WriteString("end CanVerif.Gen.Go\n")
	if err := os.WriteFile(outp, []byte(sb.String()), 0o644); err != nil {
		fmt.Fprintln(os.Stderr, err)
		os.Exit(2)
	}
}
