// genbuild: for every distinct DBC program mentioned in an operation file, runs the real generator
// (generate.Compile + generate.Database, as `cantool generate` does), writes the package into a scratch Go module,
// checks determinism / gofmt / go vet / go build per package, extracts the exported API, and links all packages that
// compile with the reflective executor (genexec).
//
//	genbuild <ops file> <scratch dir> <genexec template> <report file>
//
// The report holds one line per program: `<sha1> <status> <flags> api=<hex of canonical API listing>`.
package main

import (
	"bufio"
	"bytes"
	"crypto/sha1"
	"encoding/hex"
	"fmt"
	"go/ast"
	"go/format"
	"go/parser"
	"go/printer"
	"go/token"
	"os"
	"os/exec"
	"path/filepath"
	"sort"
	"strings"
	"sync"

	"go.einride.tech/can/internal/generate"
)

type prog struct {
	idx    int
	key    string
	dbc    []byte
	status string
	flags  []string
	api    string
	pkg    string
	msgs   []string
	nodes  []string
	hasNd  bool
}

func genOnce(name string, dbc []byte) ([]byte, string) {
	res, err := generate.Compile(name, dbc)
	if err != nil {
		return nil, "gen-error:parse"
	}
	if len(res.Warnings) > 0 {
		return nil, "gen-error:warning"
	}
	out, err := generate.Database(res.Database)
	if err != nil {
		return nil, "gen-error:database"
	}
	return out, "ok"
}

// apiOf lists the exported API of a generated file from its syntax: type declarations with their kind,
// interface method sets, struct-less; functions and methods with parameter and result types; constants.
func apiOf(src []byte) (string, []string, []string, bool) {
	fset := token.NewFileSet()
	f, err := parser.ParseFile(fset, "x.go", src, 0)
	if err != nil {
		return "parse-error", nil, nil, false
	}
	typ := func(e ast.Expr) string {
		var b bytes.Buffer
		_ = printer.Fprint(&b, fset, e)
		return strings.ReplaceAll(b.String(), " ", "")
	}
	fields := func(fl *ast.FieldList) string {
		if fl == nil {
			return ""
		}
		var out []string
		for _, f := range fl.List {
			n := len(f.Names)
			if n == 0 {
				n = 1
			}
			for i := 0; i < n; i++ {
				out = append(out, typ(f.Type))
			}
		}
		return strings.Join(out, ",")
	}
	var items []string
	var msgs []string
	var nodeNames []string
	hasNodes := false
	for _, d := range f.Decls {
		switch d := d.(type) {
		case *ast.GenDecl:
			for _, sp := range d.Specs {
				switch sp := sp.(type) {
				case *ast.TypeSpec:
					if !sp.Name.IsExported() {
						continue
					}
					switch t := sp.Type.(type) {
					case *ast.InterfaceType:
						var ms []string
						for _, m := range t.Methods.List {
							if ft, ok := m.Type.(*ast.FuncType); ok {
								for _, n := range m.Names {
									ms = append(ms, fmt.Sprintf("%s(%s)(%s)", n.Name, fields(ft.Params), fields(ft.Results)))
								}
							} else {
								ms = append(ms, "embed:"+typ(m.Type))
							}
						}
						sort.Strings(ms)
						items = append(items, "interface "+sp.Name.Name+"{"+strings.Join(ms, ";")+"}")
						if strings.HasSuffix(sp.Name.Name, "_Rx") {
							hasNodes = true
						}
					case *ast.StructType:
						items = append(items, "struct "+sp.Name.Name)
					default:
						items = append(items, "type "+sp.Name.Name+" "+typ(sp.Type))
					}
				case *ast.ValueSpec:
					if d.Tok == token.CONST {
						for i, n := range sp.Names {
							if n.IsExported() {
								v := ""
								if i < len(sp.Values) {
									v = typ(sp.Values[i])
								}
								items = append(items, "const "+n.Name+" "+typ(sp.Type)+"="+v)
							}
						}
					}
				}
			}
		case *ast.FuncDecl:
			if !d.Name.IsExported() {
				continue
			}
			recv := ""
			if d.Recv != nil {
				recv = typ(d.Recv.List[0].Type)
				if !ast.IsExported(strings.TrimPrefix(recv, "*")) {
					continue
				}
			}
			items = append(items, fmt.Sprintf("func (%s)%s(%s)(%s)", recv, d.Name.Name, fields(d.Type.Params), fields(d.Type.Results)))
			if recv == "" && strings.HasPrefix(d.Name.Name, "New") && d.Type.Results != nil && len(d.Type.Results.List) == 1 {
				if st, ok := d.Type.Results.List[0].Type.(*ast.StarExpr); ok {
					if id, ok := st.X.(*ast.Ident); ok && "New"+id.Name == d.Name.Name {
						msgs = append(msgs, id.Name)
					}
				}
				// node constructors: New<N>(network, address string) <N>
				if id, ok := d.Type.Results.List[0].Type.(*ast.Ident); ok && "New"+id.Name == d.Name.Name && fields(d.Type.Params) == "string,string" {
					nodeNames = append(nodeNames, id.Name)
				}
			}
		}
	}
	sort.Strings(items)
	return strings.Join(items, "\n"), msgs, nodeNames, hasNodes
}

func run(dir string, name string, args ...string) (string, error) {
	cmd := exec.Command(name, args...)
	cmd.Dir = dir
	cmd.Env = append(os.Environ(), "GOFLAGS=-mod=mod", "GOPROXY=off", "GOSUMDB=off", "GOTOOLCHAIN=local", "CGO_ENABLED=0")
	out, err := cmd.CombinedOutput()
	return string(out), err
}

func cantoolStage(scratch string, order []*prog) {
	var ok []*prog
	for _, p := range order {
		if p.status == "ok" {
			ok = append(ok, p)
		}
	}
	if len(ok) == 0 {
		return
	}
	flagAll := func(f string) {
		for _, p := range ok {
			p.flags = append(p.flags, f)
		}
	}
	if out, err := run(scratch, "go", "build", "-o", "cantool", "go.einride.tech/can/cmd/cantool"); err != nil {
		fmt.Fprintln(os.Stderr, "cantool build failed:\n"+out)
		flagAll("CANTOOL-BUILD-FAILS")
		return
	}
	in, outDir := filepath.Join(scratch, "ctin"), filepath.Join(scratch, "ctout")
	_ = os.MkdirAll(in, 0o755)
	// pass 1: every program, bulky variant first (the program followed by a copy of the longest program's messages is
	// not available without editing DBCs, so the order is: longest source under every name, then the real sources)
	longest := ok[0]
	for _, p := range ok {
		if len(p.dbc) > len(longest.dbc) {
			longest = p
		}
	}
	for _, p := range ok {
		_ = os.WriteFile(filepath.Join(in, fmt.Sprintf("prog%d.dbc", p.idx)), longest.dbc, 0o644)
	}
	if out, err := run(scratch, "./cantool", "generate", "ctin", "ctout"); err != nil {
		fmt.Fprintln(os.Stderr, "cantool generate (pass 1) failed:\n"+out)
		flagAll("CANTOOL-ERROR")
		return
	}
	for _, p := range ok {
		_ = os.WriteFile(filepath.Join(in, fmt.Sprintf("prog%d.dbc", p.idx)), p.dbc, 0o644)
	}
	if out, err := run(scratch, "./cantool", "generate", "ctin", "ctout"); err != nil {
		fmt.Fprintln(os.Stderr, "cantool generate (pass 2) failed:\n"+out)
		flagAll("CANTOOL-ERROR")
		return
	}
	for _, p := range ok {
		want, st := genOnce(fmt.Sprintf("ctin/prog%d.dbc", p.idx), p.dbc)
		got, err := os.ReadFile(filepath.Join(outDir, fmt.Sprintf("prog%d.dbc.go", p.idx)))
		switch {
		case st != "ok" || err != nil:
			p.flags = append(p.flags, "CANTOOL-NO-OUTPUT")
		case !bytes.Equal(want, got):
			p.flags = append(p.flags, "CANTOOL-DIFFERS")
		default:
			p.flags = append(p.flags, "cantool")
		}
	}
	_ = os.RemoveAll(in)
	_ = os.RemoveAll(outDir)
	_ = os.Remove(filepath.Join(scratch, "cantool"))
}

func main() {
	if len(os.Args) != 5 {
		fmt.Fprintln(os.Stderr, "usage: genbuild <ops> <scratch> <template> <report>")
		os.Exit(2)
	}
	opsPath, scratch, tmpl, report := os.Args[1], os.Args[2], os.Args[3], os.Args[4]
	f, err := os.Open(opsPath)
	if err != nil {
		panic(err)
	}
	sc := bufio.NewScanner(f)
	sc.Buffer(make([]byte, 1<<20), 1<<28)
	progs := map[string]*prog{}
	var order []*prog
	hasGapi := false
	for sc.Scan() {
		a := strings.Fields(sc.Text())
		if len(a) < 2 || !strings.HasPrefix(a[0], "g") {
			continue
		}
		if a[0] == "gapi" {
			hasGapi = true
		}
		h := sha1.Sum([]byte(a[1]))
		key := hex.EncodeToString(h[:])
		if progs[key] != nil {
			continue
		}
		b, err := hex.DecodeString(a[1])
		if err != nil {
			continue
		}
		p := &prog{idx: len(order), key: key, dbc: b}
		progs[key] = p
		order = append(order, p)
	}
	must := func(err error) {
		if err != nil {
			panic(err)
		}
	}
	must(os.MkdirAll(scratch, 0o755))
	must(os.WriteFile(filepath.Join(scratch, "go.mod"), []byte("module go.einride.tech/can/zzgen\n\ngo 1.19\n\nrequire go.einride.tech/can v0.0.0\n\nreplace go.einride.tech/can => /repo\n"), 0o644))
	sum, _ := os.ReadFile("/repo/go.sum")
	must(os.WriteFile(filepath.Join(scratch, "go.sum"), sum, 0o644))
	for _, p := range order {
		name := fmt.Sprintf("prog%d.dbc", p.idx)
		p.pkg = fmt.Sprintf("prog%dcan", p.idx)
		out, st := genOnce(name, p.dbc)
		p.status = st
		if st != "ok" {
			continue
		}
		out2, _ := genOnce(name, p.dbc)
		if !bytes.Equal(out, out2) {
			p.flags = append(p.flags, "NONDETERMINISTIC")
		} else {
			p.flags = append(p.flags, "deterministic")
		}
		if fm, err := format.Source(out); err != nil || !bytes.Equal(fm, out) {
			p.flags = append(p.flags, "NOT-GOFMT")
		} else {
			p.flags = append(p.flags, "gofmt")
		}
		dir := filepath.Join(scratch, p.pkg)
		must(os.MkdirAll(dir, 0o755))
		must(os.WriteFile(filepath.Join(dir, "gen.go"), out, 0o644))
		p.api, p.msgs, p.nodes, p.hasNd = apiOf(out)
	}
	// the command-line entry point (`cantool generate <in> <out>`): its files must be byte-identical to what the
	// library calls return for the same source name; regenerating into a directory that already holds (longer) files
	// must give the same bytes as generating into a fresh one
	if hasGapi {
		cantoolStage(scratch, order)
	}
	// compile every package (in parallel); vet the ones that compile
	var wg sync.WaitGroup
	sem := make(chan struct{}, 16)
	for _, p := range order {
		if p.status != "ok" {
			continue
		}
		wg.Add(1)
		go func(p *prog) {
			defer wg.Done()
			sem <- struct{}{}
			defer func() { <-sem }()
			if out, err := run(scratch, "go", "build", "./"+p.pkg); err != nil {
				p.status = "compile-error"
				first := strings.SplitN(strings.TrimSpace(out), "\n", 3)
				if len(first) > 1 {
					p.flags = append(p.flags, "msg="+hex.EncodeToString([]byte(first[1])))
				}
				return
			}
			if _, err := run(scratch, "go", "vet", "./"+p.pkg); err != nil {
				p.flags = append(p.flags, "VET-FAILS")
			} else {
				p.flags = append(p.flags, "vet")
			}
		}(p)
	}
	wg.Wait()
	// registry + executor
	var reg bytes.Buffer
	reg.WriteString("package main\n\nimport (\n\t\"go.einride.tech/can\"\n\t\"go.einride.tech/can/pkg/descriptor\"\n\t\"go.einride.tech/can/pkg/generated\"\n\t\"go.einride.tech/can/pkg/canrunner\"\n")
	for _, p := range order {
		if p.status == "ok" {
			fmt.Fprintf(&reg, "\t%s \"go.einride.tech/can/zzgen/%s\"\n", p.pkg, p.pkg)
		}
	}
	reg.WriteString(")\n\nvar _ can.Frame\nvar _ *descriptor.Database\nvar _ generated.Message\nvar _ canrunner.Node\n\nvar registry = map[string]*pkgEntry{\n")
	for _, p := range order {
		if p.status != "ok" {
			fmt.Fprintf(&reg, "\t%q: {status: %q},\n", p.key, p.status)
			continue
		}
		fmt.Fprintf(&reg, "\t%q: {status: \"ok\", newMsg: map[string]func() generated.Message{\n", p.key)
		for _, m := range p.msgs {
			fmt.Fprintf(&reg, "\t\t%q: func() generated.Message { return %s.New%s() },\n", m, p.pkg, m)
		}
		fmt.Fprintf(&reg, "\t}, newNode: map[string]func() canrunner.Node{\n")
		for _, n := range p.nodes {
			fmt.Fprintf(&reg, "\t\t%q: func() canrunner.Node { return %s.New%s(\"\", \"\").(canrunner.Node) },\n", n, p.pkg, n)
		}
		fmt.Fprintf(&reg, "\t}, dispatch: func(f can.Frame) (generated.Message, error) { return %s.Messages().UnmarshalFrame(f) }, database: func() *descriptor.Database { return %s.Messages().Database() }},\n", p.pkg, p.pkg)
	}
	reg.WriteString("}\n")
	must(os.WriteFile(filepath.Join(scratch, "registry.go"), reg.Bytes(), 0o644))
	t, err := os.ReadFile(tmpl)
	must(err)
	must(os.WriteFile(filepath.Join(scratch, "exec.go"), t, 0o644))
	if out, err := run(scratch, "go", "build", "-o", "genexec", "."); err != nil {
		fmt.Fprintln(os.Stderr, "genexec build failed:\n"+out)
		os.Exit(1)
	}
	var rep bytes.Buffer
	for _, p := range order {
		fmt.Fprintf(&rep, "%s %s %s api=%s\n", p.key, p.status, strings.Join(p.flags, ","), hex.EncodeToString([]byte(p.api)))
	}
	must(os.WriteFile(report, rep.Bytes(), 0o644))
}
