// extract: translator (T2).  `extract runner <repo> <out.lean>` type-checks the non-test Go files of pkg/canrunner
// (go/types, source importer) and writes every goroutine body of the runner (RunMessageReceiver, RunMessageTransmitter,
// Run and every function literal handed to another goroutine) as a structured program over the atoms of
// Model/Runner.lean (CanVerif.Gen.RunnerProg): statements become seq / alt / loop / blk, calls to functions, methods and
// closures of the package are inlined as `call`, `return` / `break` / `continue` become ret / brk / cont.
//
// Atoms: `Lock()` / `Unlock()` methods are the node lock; a method call on a value whose type has
// `Descriptor() *descriptor.Message` (a message) is a state access, except the three channel/descriptor getters;
// `TransmitFrame` is a transmission; a call of a function *value* of type `func(context.Context) error` (the hook
// signature) is a hook call.  Everything else touches no node state.  Constructs the translator does not understand
// (goto, labels, fallthrough, defer below the top level of a function, recursion, reassigned closures) make it fail; the
// check then rests on the correspondence run alone and says so in its evidence.
package main

import (
	"fmt"
	"go/ast"
	"go/importer"
	"go/parser"
	"go/token"
	"go/types"
	"os"
	"path/filepath"
	"sort"
	"strings"
)

var staticMethods = map[string]bool{"Descriptor": true, "WakeUpChan": true, "TransmitEventChan": true}

type tr struct {
	info     *types.Info
	pkg      *types.Package
	decls    map[types.Object]*ast.FuncDecl // functions and methods declared in the package
	closures map[types.Object]*ast.FuncLit  // local variables defined as function literals
	err      error
	stack    []string // inlining stack (recursion guard)
	spawned  []string // programs of function literals that run on other goroutines
}

func (t *tr) fail(format string, a ...interface{}) {
	if t.err == nil {
		t.err = fmt.Errorf(format, a...)
	}
}

// ---- program terms ----

func seq(ps ...string) string {
	var xs []string
	for _, p := range ps {
		if p != "" && p != ".skip" {
			xs = append(xs, p)
		}
	}
	if len(xs) == 0 {
		return ".skip"
	}
	out := xs[len(xs)-1]
	for i := len(xs) - 2; i >= 0; i-- {
		out = "(.seq " + xs[i] + " " + out + ")"
	}
	return out
}
func alt(ps ...string) string {
	if len(ps) == 0 {
		return ".skip"
	}
	out := ps[len(ps)-1]
	for i := len(ps) - 2; i >= 0; i-- {
		out = "(.alt " + ps[i] + " " + out + ")"
	}
	return out
}
func atom(a string) string { return "(.atom (" + a + "))" }
func wrap(k, p string) string { return "(" + k + " " + p + ")" }

// ---- types ----

func isMessage(T types.Type) bool {
	for _, ty := range []types.Type{T, types.NewPointer(T)} {
		ms := types.NewMethodSet(ty)
		for i := 0; i < ms.Len(); i++ {
			f, ok := ms.At(i).Obj().(*types.Func)
			if !ok || f.Name() != "Descriptor" {
				continue
			}
			sig := f.Type().(*types.Signature)
			if sig.Results().Len() == 1 && strings.HasSuffix(sig.Results().At(0).Type().String(), "descriptor.Message") {
				return true
			}
		}
	}
	return false
}

func isHookSig(T types.Type) bool {
	sig, ok := T.Underlying().(*types.Signature)
	if !ok || sig.Params().Len() != 1 || sig.Results().Len() != 1 {
		return false
	}
	return sig.Params().At(0).Type().String() == "context.Context" && sig.Results().At(0).Type().String() == "error"
}

// ---- expressions ----

// expr translates the calls inside an expression in evaluation order (arguments before the call).
func (t *tr) expr(n ast.Node) string {
	if n == nil {
		return ".skip"
	}
	var out []string
	var walk func(ast.Node)
	walk = func(n ast.Node) {
		ast.Inspect(n, func(x ast.Node) bool {
			switch x := x.(type) {
			case nil:
				return false
			case *ast.FuncLit:
				// a function value that is not called here: it runs elsewhere (another goroutine, a callback)
				t.spawned = append(t.spawned, t.funcBody(x.Body, "func literal"))
				return false
			case *ast.CallExpr:
				for _, a := range x.Args {
					walk(a)
				}
				switch f := x.Fun.(type) {
				case *ast.SelectorExpr:
					walk(f.X)
				case *ast.FuncLit:
					out = append(out, wrap(".call", t.funcBody(f.Body, "func literal")))
					return false
				case *ast.Ident:
				default:
					walk(x.Fun)
				}
				out = append(out, t.call(x))
				return false
			}
			return true
		})
	}
	walk(n)
	return seq(out...)
}

func (t *tr) inline(name string, body *ast.BlockStmt) string {
	for _, s := range t.stack {
		if s == name {
			t.fail("recursive call of %s", name)
			return ".skip"
		}
	}
	t.stack = append(t.stack, name)
	defer func() { t.stack = t.stack[:len(t.stack)-1] }()
	return wrap(".call", t.funcBody(body, name))
}

// call: a message handed to code outside the package (fmt, errors, ...) is a state access by that code (it may call
// String(), read fields through reflection, ...): `.access "escape to <callee>"` precedes the call's own atom.
func (t *tr) call(c *ast.CallExpr) string {
	r := t.call0(c)
	if !strings.HasPrefix(r, "(.atom (.other") {
		return r
	}
	for _, a := range c.Args {
		if tv, ok := t.info.Types[a]; ok && tv.Type != nil && isMessage(tv.Type) {
			return seq(atom(fmt.Sprintf(".access %q", "escape")), r)
		}
	}
	return r
}

func (t *tr) call0(c *ast.CallExpr) string {
	if tv, ok := t.info.Types[c.Fun]; ok && tv.IsType() {
		return atom(`.other "conversion"`)
	}
	switch f := c.Fun.(type) {
	case *ast.SelectorExpr:
		name := f.Sel.Name
		if sel, ok := t.info.Selections[f]; ok && sel.Kind() == types.MethodVal {
			switch {
			case name == "Lock" && len(c.Args) == 0:
				return atom(".lock")
			case name == "Unlock" && len(c.Args) == 0:
				return atom(".unlock")
			case name == "TransmitFrame":
				return atom(".tx")
			case isMessage(sel.Recv()) && !staticMethods[name]:
				return atom(fmt.Sprintf(".access %q", name))
			}
			if fd, ok := t.decls[sel.Obj()]; ok {
				return t.inline("method "+sel.Obj().(*types.Func).FullName(), fd.Body)
			}
			return atom(fmt.Sprintf(".other %q", "."+name))
		}
		// qualified identifier pkg.F, or a field of function type
		if obj, ok := t.info.Uses[f.Sel]; ok {
			if fn, ok := obj.(*types.Func); ok {
				if fd, ok := t.decls[fn]; ok {
					return t.inline("func "+fn.FullName(), fd.Body)
				}
				return atom(fmt.Sprintf(".other %q", fn.FullName()))
			}
		}
		if tv, ok := t.info.Types[c.Fun]; ok && isHookSig(tv.Type) {
			return atom(".hook")
		}
		return atom(fmt.Sprintf(".other %q", "."+name))
	case *ast.Ident:
		obj := t.info.Uses[f]
		switch o := obj.(type) {
		case *types.Builtin:
			return atom(fmt.Sprintf(".other %q", f.Name))
		case *types.Func:
			if fd, ok := t.decls[o]; ok {
				return t.inline("func "+o.FullName(), fd.Body)
			}
			return atom(fmt.Sprintf(".other %q", o.FullName()))
		case *types.Var:
			if fl, ok := t.closures[o]; ok {
				return t.inline(fmt.Sprintf("closure %s@%d", f.Name, fl.Pos()), fl.Body)
			}
			if isHookSig(o.Type()) {
				return atom(".hook")
			}
			return atom(fmt.Sprintf(".other %q", "value "+f.Name))
		}
		return atom(fmt.Sprintf(".other %q", f.Name))
	}
	if tv, ok := t.info.Types[c.Fun]; ok && isHookSig(tv.Type) {
		return atom(".hook")
	}
	return atom(`.other "call"`)
}

// ---- statements ----

func (t *tr) stmts(list []ast.Stmt) string {
	var out []string
	for _, s := range list {
		out = append(out, t.stmt(s))
	}
	return seq(out...)
}

func (t *tr) stmt(s ast.Stmt) string {
	switch s := s.(type) {
	case nil, *ast.EmptyStmt:
		return ".skip"
	case *ast.ExprStmt:
		return t.expr(s.X)
	case *ast.SendStmt:
		return seq(t.expr(s.Chan), t.expr(s.Value))
	case *ast.IncDecStmt:
		return t.expr(s.X)
	case *ast.AssignStmt:
		var out []string
		for i, r := range s.Rhs {
			if fl, ok := r.(*ast.FuncLit); ok && len(s.Lhs) == len(s.Rhs) {
				if id, ok := s.Lhs[i].(*ast.Ident); ok && s.Tok == token.DEFINE {
					if obj := t.info.Defs[id]; obj != nil {
						t.closures[obj] = fl // a closure definition runs nothing
						continue
					}
				}
			}
			out = append(out, t.expr(r))
		}
		for _, l := range s.Lhs {
			if id, ok := l.(*ast.Ident); ok {
				if s.Tok != token.DEFINE {
					if _, isClosure := t.closures[t.info.Uses[id]]; isClosure {
						t.fail("closure variable %s is reassigned", id.Name)
					}
				}
				continue
			}
			out = append(out, t.expr(l))
		}
		return seq(out...)
	case *ast.DeclStmt:
		gd, ok := s.Decl.(*ast.GenDecl)
		if !ok {
			return ".skip"
		}
		var out []string
		for _, sp := range gd.Specs {
			if vs, ok := sp.(*ast.ValueSpec); ok {
				for i, v := range vs.Values {
					if fl, isLit := v.(*ast.FuncLit); isLit && len(vs.Names) == len(vs.Values) {
						if obj := t.info.Defs[vs.Names[i]]; obj != nil {
							t.closures[obj] = fl
							continue
						}
					}
					out = append(out, t.expr(v))
				}
			}
		}
		return seq(out...)
	case *ast.BlockStmt:
		return t.stmts(s.List)
	case *ast.ReturnStmt:
		var out []string
		for _, r := range s.Results {
			out = append(out, t.expr(r))
		}
		return seq(append(out, ".ret")...)
	case *ast.BranchStmt:
		if s.Label != nil {
			t.fail("labelled %v", s.Tok)
			return ".skip"
		}
		switch s.Tok {
		case token.BREAK:
			return ".brk"
		case token.CONTINUE:
			return ".cont"
		}
		t.fail("unsupported branch statement %v", s.Tok)
		return ".skip"
	case *ast.IfStmt:
		init := t.stmt(s.Init)
		cond := t.expr(s.Cond)
		then := t.stmts(s.Body.List)
		els := ".skip"
		switch e := s.Else.(type) {
		case nil:
		case *ast.BlockStmt:
			els = t.stmts(e.List)
		case *ast.IfStmt:
			els = t.stmt(e)
		default:
			t.fail("unsupported else shape")
		}
		return seq(init, cond, alt(then, els))
	case *ast.SwitchStmt:
		return seq(t.stmt(s.Init), t.expr(s.Tag), t.cases(s.Body))
	case *ast.TypeSwitchStmt:
		return seq(t.stmt(s.Init), t.stmt(s.Assign), t.cases(s.Body))
	case *ast.SelectStmt:
		var branches []string
		for _, c := range s.Body.List {
			cc := c.(*ast.CommClause)
			branches = append(branches, seq(t.stmt(cc.Comm), t.stmts(cc.Body)))
		}
		if len(branches) == 0 {
			return ".skip"
		}
		return wrap(".blk", alt(branches...))
	case *ast.ForStmt:
		init := t.stmt(s.Init)
		cond := t.expr(s.Cond)
		body := t.stmts(s.Body.List)
		post := t.stmt(s.Post)
		if post != ".skip" && strings.Contains(body, ".cont") {
			t.fail("continue in a loop with a post statement")
		}
		return seq(init, wrap(".loop", seq(cond, body, post)), cond)
	case *ast.RangeStmt:
		return seq(t.expr(s.X), wrap(".loop", t.stmts(s.Body.List)))
	case *ast.GoStmt:
		var out []string
		for _, a := range s.Call.Args {
			out = append(out, t.expr(a))
		}
		if f, ok := s.Call.Fun.(*ast.FuncLit); ok {
			t.spawned = append(t.spawned, t.funcBody(f.Body, "go func literal"))
		} else {
			t.spawned = append(t.spawned, t.call(s.Call)) // the callee runs on the new goroutine
		}
		return seq(append(out, atom(`.other "go"`))...)
	case *ast.DeferStmt:
		t.fail("defer below the top level of a function")
		return ".skip"
	case *ast.LabeledStmt:
		t.fail("labelled statement")
		return ".skip"
	}
	t.fail("unsupported statement %T", s)
	return ".skip"
}

func (t *tr) cases(body *ast.BlockStmt) string {
	var branches []string
	hasDefault := false
	for _, c := range body.List {
		cc := c.(*ast.CaseClause)
		if cc.List == nil {
			hasDefault = true
		}
		var conds []string
		for _, e := range cc.List {
			conds = append(conds, t.expr(e))
		}
		for _, st := range cc.Body {
			if b, ok := st.(*ast.BranchStmt); ok && b.Tok == token.FALLTHROUGH {
				t.fail("fallthrough")
			}
		}
		branches = append(branches, seq(append(conds, t.stmts(cc.Body))...))
	}
	if !hasDefault {
		branches = append(branches, ".skip")
	}
	return wrap(".blk", alt(branches...))
}

// funcBody translates a function body.  A `defer` at the top level of the body covers the statements after it: they
// become an inner call (so that their returns end there), followed by the deferred call.
func (t *tr) funcBody(body *ast.BlockStmt, what string) string {
	return t.bodyFrom(body.List, what)
}

func (t *tr) bodyFrom(list []ast.Stmt, what string) string {
	for i, s := range list {
		d, ok := s.(*ast.DeferStmt)
		if !ok {
			continue
		}
		var pre []string
		for _, a := range d.Call.Args {
			pre = append(pre, t.expr(a))
		}
		var p string
		if fl, ok := d.Call.Fun.(*ast.FuncLit); ok {
			p = wrap(".call", t.funcBody(fl.Body, "deferred literal"))
		} else {
			p = t.call(d.Call)
		}
		return seq(t.stmts(list[:i]), seq(pre...), wrap(".call", t.bodyFrom(list[i+1:], what)), p)
	}
	return t.stmts(list)
}

func runner(repo, out string) error {
	dir, err := filepath.Abs(filepath.Join(repo, "pkg/canrunner"))
	if err != nil {
		return err
	}
	ents, err := os.ReadDir(dir)
	if err != nil {
		return err
	}
	fset := token.NewFileSet()
	var names []string
	for _, e := range ents {
		if strings.HasSuffix(e.Name(), ".go") && !strings.HasSuffix(e.Name(), "_test.go") {
			names = append(names, e.Name())
		}
	}
	sort.Strings(names)
	var files []*ast.File
	for _, n := range names {
		f, err := parser.ParseFile(fset, filepath.Join(dir, n), nil, 0)
		if err != nil {
			return err
		}
		files = append(files, f)
	}
	absOut, err := filepath.Abs(out)
	if err != nil {
		return err
	}
	if err := os.Chdir(dir); err != nil { // the source importer resolves imports relative to the working directory
		return err
	}
	var terrs []string
	conf := types.Config{Importer: importer.ForCompiler(fset, "source", nil), Error: func(err error) { terrs = append(terrs, err.Error()) }}
	info := &types.Info{Types: map[ast.Expr]types.TypeAndValue{}, Selections: map[*ast.SelectorExpr]*types.Selection{},
		Uses: map[*ast.Ident]types.Object{}, Defs: map[*ast.Ident]types.Object{}}
	pkg, _ := conf.Check("go.einride.tech/can/pkg/canrunner", fset, files, info)
	if len(terrs) > 0 {
		return fmt.Errorf("type check: %s", strings.Join(terrs, "; "))
	}
	t := &tr{info: info, pkg: pkg, decls: map[types.Object]*ast.FuncDecl{}, closures: map[types.Object]*ast.FuncLit{}}
	byName := map[string]*ast.FuncDecl{}
	for _, f := range files {
		for _, d := range f.Decls {
			if fd, ok := d.(*ast.FuncDecl); ok && fd.Body != nil {
				if obj := info.Defs[fd.Name]; obj != nil {
					t.decls[obj] = fd
				}
				if fd.Recv == nil {
					byName[fd.Name.Name] = fd
				}
			}
		}
	}
	var sb strings.Builder
	sb.WriteString("import CanVerif.Model.Prog\n/- GENERATED by harness/cmd/extract from pkg/canrunner on every run; not committed. -/\nnamespace CanVerif.Gen\nopen CanVerif\n\n")
	entries := []struct{ lean, gofn string }{{"receiverThread", "RunMessageReceiver"}, {"transmitterThread", "RunMessageTransmitter"}, {"runThread", "Run"}}
	for _, e := range entries {
		fd, ok := byName[e.gofn]
		if !ok {
			return fmt.Errorf("function %s not found", e.gofn)
		}
		t.stack = []string{"func " + info.Defs[fd.Name].(*types.Func).FullName()}
		p := t.funcBody(fd.Body, e.gofn)
		if t.err != nil {
			return fmt.Errorf("%s: %w", e.gofn, t.err)
		}
		fmt.Fprintf(&sb, "def %s : Prog := %s\n\n", e.lean, p)
	}
	sb.WriteString("def spawned : List Prog := [")
	for i, p := range t.spawned {
		if i > 0 {
			sb.WriteString(",\n  ")
		}
		sb.WriteString(p)
	}
	sb.WriteString("]\n\nend CanVerif.Gen\n")
	return os.WriteFile(absOut, []byte(sb.String()), 0o644)
}

func main() {
	if len(os.Args) == 4 && os.Args[1] == "runner" {
		if err := runner(os.Args[2], os.Args[3]); err != nil {
			fmt.Fprintln(os.Stderr, "extract:", err)
			os.Exit(1)
		}
		return
	}
	fmt.Fprintln(os.Stderr, "usage: extract runner <repo> <out.lean>")
	os.Exit(2)
}
