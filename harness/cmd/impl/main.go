// impl: generator of operation lines and executor of them against the real code.
//
//	impl gen <property> <tier> <seed> [hist.json]   operation lines on stdout
//	impl exec                                       reads lines on stdin, one result per line
package main

import (
	"fmt"
	"os"
	"strconv"

	"go.einride.tech/can/zzverif/internal/ops"
)

func main() {
	if len(os.Args) < 2 {
		fmt.Fprintln(os.Stderr, "usage: impl gen <prop> <tier> <seed> [hist] | impl exec")
		os.Exit(2)
	}
	switch os.Args[1] {
	case "gen":
		if len(os.Args) < 5 {
			fmt.Fprintln(os.Stderr, "usage: impl gen <prop> <tier> <seed> [hist]")
			os.Exit(2)
		}
		seed, err := strconv.ParseUint(os.Args[4], 10, 64)
		if err != nil {
			fmt.Fprintln(os.Stderr, "bad seed")
			os.Exit(2)
		}
		hist := ""
		if len(os.Args) > 5 {
			hist = os.Args[5]
		}
		if err := ops.RunGen(os.Args[2], os.Args[3], seed, os.Stdout, hist); err != nil {
			fmt.Fprintln(os.Stderr, err)
			os.Exit(2)
		}
	case "exec":
		if err := ops.RunExec(os.Stdin, os.Stdout); err != nil {
			fmt.Fprintln(os.Stderr, err)
			os.Exit(2)
		}
	default:
		os.Exit(2)
	}
}
