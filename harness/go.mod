module go.einride.tech/can/zzverif

go 1.19

require (
	go.einride.tech/can v0.0.0
	golang.org/x/sys v0.28.0
)

require (
	golang.org/x/net v0.33.0 // indirect
	golang.org/x/sync v0.7.0 // indirect
)

replace go.einride.tech/can => /repo
