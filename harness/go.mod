module go.einride.tech/can/zzverif

go 1.19

require go.einride.tech/can v0.0.0

replace go.einride.tech/can => /repo
