module go.einride.tech/can/zzverif

go 1.19

require (
	go.einride.tech/can v0.0.0
	golang.org/x/sys v0.28.0
)

require (
	github.com/josharian/native v1.1.0 // indirect
	github.com/mdlayher/netlink v1.7.2 // indirect
	github.com/mdlayher/socket v0.4.1 // indirect
	github.com/shurcooL/go v0.0.0-20190704215121-7189cc372560 // indirect
	github.com/shurcooL/go-goon v0.0.0-20170922171312-37c2f522c041 // indirect
	golang.org/x/net v0.33.0 // indirect
	golang.org/x/sync v0.7.0 // indirect
)

replace go.einride.tech/can => /repo
