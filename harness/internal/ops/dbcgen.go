package ops

import (
	"fmt"
	"math"
	"strconv"
	"strings"
)

// dbcWriter renders a DBC file token by token, tracking the scanner position of every token.
type dbcWriter struct {
	g      *G
	sb     []byte
	line   int // 1-based
	col    int // runes written on the current line
	noEol  bool
	noTab  bool
	layout int // 0 canonical, 1 spacious, 2 random, 3 CRLF
}

type gpos struct{ line, col, off int }

func (p gpos) String() string { return fmt.Sprintf("%d:%d@%d", p.line, p.col, p.off) }

func (w *dbcWriter) raw(s string) {
	for _, r := range s {
		if r == '\n' {
			w.line++
			w.col = 0
		} else {
			w.col++
		}
	}
	w.sb = append(w.sb, s...)
}

func (w *dbcWriter) here() gpos { return gpos{w.line, w.col + 1, len(w.sb)} }

// tok writes a token and returns its position.
func (w *dbcWriter) tok(s string) gpos {
	p := w.here()
	w.raw(s)
	return p
}

func (w *dbcWriter) eol() string {
	if w.layout == 3 || (w.layout == 2 && w.g.R.Intn(3) == 0) {
		return "\r\n"
	}
	return "\n"
}

// gapStr produces white space; nonEmpty forces at least one character.
func (w *dbcWriter) gapStr(nonEmpty bool) string {
	var parts []string
	switch w.layout {
	case 0:
		if nonEmpty {
			return " "
		}
		return ""
	case 1:
		parts = []string{"  "}
	default:
		n := w.g.R.Intn(4)
		if nonEmpty && n == 0 {
			n = 1
		}
		for i := 0; i < n; i++ {
			switch w.g.R.Intn(6) {
			case 0, 1, 2:
				parts = append(parts, " ")
			case 3:
				if !w.noTab {
					parts = append(parts, "\t")
				} else {
					parts = append(parts, " ")
				}
			default:
				if !w.noEol {
					parts = append(parts, w.eol())
				} else {
					parts = append(parts, " ")
				}
			}
		}
	}
	return strings.Join(parts, "")
}

func (w *dbcWriter) S() { w.raw(w.gapStr(true)) }
func (w *dbcWriter) s() {
	if w.layout == 0 {
		return
	}
	w.raw(w.gapStr(false))
}

// defGap separates definitions: always ends the line in canonical layouts.
func (w *dbcWriter) defGap() {
	switch w.layout {
	case 0:
		w.raw("\n")
	case 1:
		w.raw("\n\n")
	case 3:
		w.raw("\r\n")
	default:
		n := 1 + w.g.R.Intn(3)
		for i := 0; i < n; i++ {
			switch w.g.R.Intn(4) {
			case 0:
				w.raw(" ")
			case 1:
				if !w.noTab {
					w.raw("\t")
				} else {
					w.raw(" ")
				}
			default:
				w.raw(w.eol())
			}
		}
	}
}

func (g *G) ident() string {
	const first = "ABCDEFGHIJKLMNOPQRSTUVWXYZabcdefghijklmnopqrstuvwxyz_"
	const rest = first + "0123456789"
	n := 1 + g.R.Intn(12)
	if g.R.Intn(40) == 0 {
		n = 120 + g.R.Intn(9) // up to the 128-character limit
	}
	b := make([]byte, n)
	b[0] = first[g.R.Intn(len(first))]
	for i := 1; i < n; i++ {
		b[i] = rest[g.R.Intn(len(rest))]
	}
	s := string(b)
	if dbcKeywords[s] {
		return s + "x"
	}
	return s
}

var dbcKeywords = map[string]bool{"VERSION": true, "NS_": true, "BS_": true, "BU_": true, "VAL_TABLE_": true, "BO_": true, "SG_": true,
	"BO_TX_BU_": true, "EV_": true, "ENVVAR_DATA_": true, "CM_": true, "BA_DEF_": true, "BA_DEF_DEF_": true, "BA_": true, "VAL_": true, "SIG_VALTYPE_": true}

func (g *G) uintText() (string, uint64) {
	var v uint64
	switch g.R.Intn(6) {
	case 0:
		v = 0
	case 1:
		v = uint64(g.R.Intn(10))
	case 2:
		v = uint64(g.R.Intn(1000))
	case 3:
		v = g.R.U64() >> uint(11+g.R.Intn(53)) // up to 2^53
	case 4:
		v = 1 << 53
	default:
		v = uint64(g.R.Intn(65536))
	}
	return strconv.FormatUint(v, 10), v
}

// numberText returns a decimal/exponent float literal without sign and its value as strconv reads it.
func (g *G) numberText() (string, float64) {
	var t string
	switch g.R.Intn(8) {
	case 0:
		t, _ = g.uintText()
	case 1:
		t = fmt.Sprintf("%d.%d", g.R.Intn(1000), g.R.Intn(1000))
	case 2:
		t = fmt.Sprintf("%d.", g.R.Intn(100))
	case 3:
		t = fmt.Sprintf(".%d", g.R.Intn(1000))
	case 4:
		t = fmt.Sprintf("%de%d", 1+g.R.Intn(9), g.R.Intn(20))
	case 5:
		t = fmt.Sprintf("%d.%dE-%d", g.R.Intn(10), g.R.Intn(100), g.R.Intn(12))
	case 6:
		t = fmt.Sprintf("%d.%de+%d", g.R.Intn(10), g.R.Intn(100000), g.R.Intn(30))
	default:
		t = strconv.FormatFloat(math.Float64frombits(g.R.U64()&0x7fefffffffffffff), 'g', -1, 64)
		if strings.ContainsAny(t, "IN") {
			t = "1"
		}
	}
	f, err := strconv.ParseFloat(t, 64)
	if err != nil {
		t, f = "1", 1
	}
	return t, f
}

// stringLit returns the source form (without quotes) and the denoted value.
func (g *G) stringLit() (string, string) {
	n := g.R.Intn(10)
	var src, den strings.Builder
	for i := 0; i < n; i++ {
		switch g.R.Intn(14) {
		case 0:
			src.WriteString("\\\"")
			den.WriteString("\\\"")
		case 1:
			src.WriteString("\n")
			den.WriteString(" ")
		case 2:
			src.WriteString("é")
			den.WriteString("é")
		case 3:
			src.WriteString(" ")
			den.WriteString(" ")
		case 4:
			c := string(rune("#;:,|[]()@+-%/"[g.R.Intn(14)]))
			src.WriteString(c)
			den.WriteString(c)
		case 5:
			src.WriteString("\\n") // a backslash not followed by a quote is an ordinary character
			den.WriteString("\\n")
		case 6:
			src.WriteString("\r")
			den.WriteString("\r")
		case 7:
			src.WriteString("\t")
			den.WriteString("\t")
		default:
			c := string(rune('a' + g.R.Intn(26)))
			src.WriteString(c)
			den.WriteString(c)
		}
	}
	return src.String(), den.String()
}

type attrInfo struct {
	typ   string
	enums []string
}

// dbcFile is a generated file with its oracle.
type dbcFile struct {
	text  []byte
	defs  []string // expected dump per definition
	spans [][2]int // byte span of each definition (first token .. end)
	kinds []string
}

func (f *dbcFile) expected() string {
	var sb strings.Builder
	fmt.Fprintf(&sb, "ok %d", len(f.defs))
	for _, d := range f.defs {
		sb.WriteString(" | ")
		sb.WriteString(d)
	}
	return sb.String()
}

type dbcGen struct {
	w     *dbcWriter
	g     *G
	attrs map[string]*attrInfo // first definition of each attribute name
	order []string
	f     *dbcFile
	msgs  []uint32
}

func (d *dbcGen) strTok() (string, gpos) {
	src, den := d.g.stringLit()
	p := d.w.tok("\"")
	d.w.raw(src)
	d.w.raw("\"")
	return den, p
}

func (d *dbcGen) floatTok() (float64, gpos) {
	t, f := d.g.numberText()
	p := d.w.here()
	if d.g.R.Intn(3) == 0 {
		d.w.raw("-")
		d.w.s()
		f = -f
	}
	d.w.raw(t)
	return f, p
}

func (d *dbcGen) msgID() uint32 {
	switch d.g.R.Intn(8) {
	case 0:
		return 0x80000000 | uint32(d.g.R.U64())&0x1fffffff
	case 1:
		return 3221225472
	case 2:
		return 0x7ff
	default:
		return uint32(d.g.R.Intn(0x800))
	}
}

func (d *dbcGen) identList(sep func()) []string {
	n := 1 + d.g.R.Intn(3)
	var out []string
	for i := 0; i < n; i++ {
		if i > 0 {
			sep()
		}
		id := d.g.ident()
		d.w.raw(id)
		out = append(out, id)
	}
	return out
}

func hxl(l []string) string { return hxStrings(l) }

func (d *dbcGen) valueDescs() string {
	n := d.g.R.Intn(4)
	var items []string
	for i := 0; i < n; i++ {
		d.w.S()
		f, p := d.floatTok()
		d.w.S()
		den, _ := d.strTok()
		items = append(items, fmt.Sprintf("%s;%s;%s", p, f64Str(f), hx(den)))
	}
	if len(items) == 0 {
		return "-"
	}
	return strings.Join(items, ",")
}

func (d *dbcGen) signal() string {
	w := d.w
	p := w.tok("SG_")
	w.S()
	name := d.g.ident()
	w.raw(name)
	mux := "-"
	switch d.g.R.Intn(4) {
	case 0:
		w.S()
		w.raw("M")
		mux = "M"
	case 1:
		v := d.g.R.Intn(300)
		w.S()
		w.raw(fmt.Sprintf("m%d", v))
		mux = fmt.Sprintf("m%d", v)
	}
	w.s()
	w.raw(":")
	w.s()
	st, stv := d.g.uintText()
	w.raw(st)
	w.s()
	w.raw("|")
	w.s()
	sz, szv := d.g.uintText()
	w.raw(sz)
	w.s()
	w.raw("@")
	be := d.g.R.Bool()
	if be {
		w.raw("0")
	} else {
		w.raw("1")
	}
	signed := d.g.R.Bool()
	if signed {
		w.raw("-")
	} else {
		w.raw("+")
	}
	w.s()
	w.raw("(")
	w.s()
	factor, _ := d.floatTok()
	w.s()
	w.raw(",")
	w.s()
	offset, _ := d.floatTok()
	w.s()
	w.raw(")")
	w.s()
	w.raw("[")
	w.s()
	mn, _ := d.floatTok()
	w.s()
	w.raw("|")
	w.s()
	mx, _ := d.floatTok()
	w.s()
	w.raw("]")
	w.s()
	unit, _ := d.strTok()
	w.S()
	recv := d.identList(func() { w.s(); w.raw(","); w.s() })
	return fmt.Sprintf("SG_ %s %s %s %d %d %s %s %s %s %s %s %s %s", p, hx(name), mux, stv, szv, B(be), B(signed),
		f64Str(factor), f64Str(offset), f64Str(mn), f64Str(mx), hx(unit), hxl(recv))
}

func (d *dbcGen) objRef(allowNone bool) (obj string, node string, id uint32, sig string, env string) {
	w := d.w
	k := d.g.R.Intn(5)
	if !allowNone && k == 0 {
		k = 1
	}
	obj = "-"
	switch k {
	case 1:
		obj = "BU_"
		w.S()
		w.raw("BU_")
		w.S()
		node = d.g.ident()
		w.raw(node)
	case 2:
		obj = "BO_"
		w.S()
		w.raw("BO_")
		w.S()
		id = d.msgID()
		w.raw(fmt.Sprint(id))
	case 3:
		obj = "SG_"
		w.S()
		w.raw("SG_")
		w.S()
		id = d.msgID()
		w.raw(fmt.Sprint(id))
		w.S()
		sig = d.g.ident()
		w.raw(sig)
	case 4:
		obj = "EV_"
		w.S()
		w.raw("EV_")
		w.S()
		env = d.g.ident()
		w.raw(env)
	}
	return
}

// typedValue writes the value of attribute `name` if it is known; returns (int, float, string) fields.
func (d *dbcGen) typedValue(name string) (int64, float64, string) {
	a := d.attrs[name]
	if a == nil {
		return 0, 0, ""
	}
	w := d.w
	w.S()
	switch a.typ {
	case "INT", "HEX":
		t, v := d.g.uintText()
		neg := d.g.R.Intn(3) == 0
		if neg {
			w.raw("-")
			w.s()
		}
		w.raw(t)
		if neg {
			return -int64(v), 0, ""
		}
		return int64(v), 0, ""
	case "FLOAT":
		f, _ := d.floatTok()
		return 0, f, ""
	case "STRING":
		s, _ := d.strTok()
		return 0, 0, s
	default: // ENUM
		if d.g.R.Bool() {
			i := d.g.R.Intn(len(a.enums))
			w.raw(fmt.Sprint(i))
			return 0, 0, a.enums[i]
		}
		s, _ := d.strTok()
		return 0, 0, s
	}
}

func (d *dbcGen) attrName() string {
	if len(d.order) > 0 && d.g.R.Intn(4) > 0 {
		return d.order[d.g.R.Intn(len(d.order))]
	}
	return d.g.ident()
}

var allKinds = []string{"VERSION", "NS_", "BS_", "BU_", "VAL_TABLE_", "BO_", "BO_TX_BU_", "EV_", "ENVVAR_DATA_", "CM_", "BA_DEF_", "BA_DEF_DEF_", "BA_", "VAL_", "SIG_VALTYPE_", "UNKNOWN"}

// def writes one definition of the given kind; returns its expected dump.
func (d *dbcGen) def(kind string, last bool) string {
	w := d.w
	g := d.g
	switch kind {
	case "VERSION":
		p := w.tok("VERSION")
		w.S()
		s, _ := d.strTok()
		return fmt.Sprintf("VERSION %s %s", p, hx(s))
	case "NS_":
		p := w.tok("NS_")
		w.noTab = true
		w.s()
		w.raw(":")
		n := g.R.Intn(4)
		var syms []string
		for i := 0; i < n; i++ {
			w.raw(w.eol())
			w.s()
			w.raw("\t")
			if w.layout >= 2 && g.R.Intn(3) == 0 {
				w.raw(" ")
			}
			id := g.ident()
			w.raw(id)
			syms = append(syms, id)
		}
		// noTab stays set until the next definition's first token has been written (see file())
		return fmt.Sprintf("NS_ %s %s", p, hxl(syms))
	case "BS_":
		p := w.tok("BS_")
		w.s()
		w.raw(":")
		var baud, b1, b2 uint64
		if g.R.Intn(3) > 0 {
			w.s()
			t, v := g.uintText()
			w.raw(t)
			baud = v
			if g.R.Bool() {
				w.s()
				w.raw(":")
				w.s()
				t1, v1 := g.uintText()
				w.raw(t1)
				b1 = v1
				if g.R.Bool() {
					w.s()
					w.raw(",")
					w.s()
					t2, v2 := g.uintText()
					w.raw(t2)
					b2 = v2
				}
			}
		}
		return fmt.Sprintf("BS_ %s %d %d %d", p, baud, b1, b2)
	case "BU_":
		p := w.tok("BU_")
		w.noEol = true
		w.s()
		w.raw(":")
		n := g.R.Intn(5)
		var names []string
		for i := 0; i < n; i++ {
			w.S()
			id := g.ident()
			w.raw(id)
			names = append(names, id)
		}
		w.s()
		w.noEol = false
		if !last || g.R.Bool() {
			w.raw(w.eol())
		}
		return fmt.Sprintf("BU_ %s %s", p, hxl(names))
	case "VAL_TABLE_":
		p := w.tok("VAL_TABLE_")
		w.S()
		name := g.ident()
		w.raw(name)
		vds := d.valueDescs()
		w.s()
		w.raw(";")
		return fmt.Sprintf("VAL_TABLE_ %s %s %s", p, hx(name), vds)
	case "BO_":
		p := w.tok("BO_")
		w.S()
		id := d.msgID()
		w.raw(fmt.Sprint(id))
		d.msgs = append(d.msgs, id)
		w.S()
		name := g.ident()
		w.raw(name)
		w.s()
		w.raw(":")
		w.s()
		st, sv := g.uintText()
		w.raw(st)
		w.S()
		tx := g.ident()
		w.raw(tx)
		out := fmt.Sprintf("BO_ %s %d %s %d %s", p, id, hx(name), sv, hx(tx))
		n := g.R.Intn(4)
		for i := 0; i < n; i++ {
			w.raw(w.gapStr(true))
			out += " $ " + d.signal()
		}
		return out
	case "BO_TX_BU_":
		p := w.tok("BO_TX_BU_")
		w.S()
		id := d.msgID()
		w.raw(fmt.Sprint(id))
		w.s()
		w.raw(":")
		n := g.R.Intn(4)
		var txs []string
		for i := 0; i < n; i++ {
			if i == 0 {
				w.s()
			}
			t := g.ident()
			w.raw(t)
			txs = append(txs, t)
			if g.R.Bool() {
				w.s()
				w.raw(",")
				w.s()
			} else {
				w.S()
			}
		}
		w.s()
		w.raw(";")
		return fmt.Sprintf("BO_TX_BU_ %s %d %s", p, id, hxl(txs))
	case "EV_":
		p := w.tok("EV_")
		w.S()
		name := g.ident()
		w.raw(name)
		w.s()
		w.raw(":")
		w.s()
		typ := g.R.Intn(3)
		w.raw(fmt.Sprint(typ))
		w.s()
		w.raw("[")
		w.s()
		mn, _ := d.floatTok()
		w.s()
		w.raw("|")
		w.s()
		mx, _ := d.floatTok()
		w.s()
		w.raw("]")
		w.s()
		unit, _ := d.strTok()
		w.S()
		init, _ := d.floatTok()
		w.S()
		idt, idv := g.uintText()
		w.raw(idt)
		w.S()
		acc := fmt.Sprintf("DUMMY_NODE_VECTOR%d", g.R.Intn(4))
		w.raw(acc)
		w.S()
		nodes := d.identList(func() { w.s(); w.raw(","); w.s() })
		w.s()
		w.raw(";")
		return fmt.Sprintf("EV_ %s %s %d %s %s %s %s %d %s %s", p, hx(name), typ, f64Str(mn), f64Str(mx), hx(unit), f64Str(init), idv, hx(acc), hxl(nodes))
	case "ENVVAR_DATA_":
		p := w.tok("ENVVAR_DATA_")
		w.S()
		name := g.ident()
		w.raw(name)
		w.s()
		w.raw(":")
		w.s()
		t, v := g.uintText()
		w.raw(t)
		w.s()
		w.raw(";")
		return fmt.Sprintf("ENVVAR_DATA_ %s %s %d", p, hx(name), v)
	case "CM_":
		p := w.tok("CM_")
		obj, node, id, sig, env := d.objRef(true)
		w.S()
		text, _ := d.strTok()
		w.s()
		w.raw(";")
		return fmt.Sprintf("CM_ %s %s %s %d %s %s %s", p, obj, hx(node), id, hx(sig), hx(env), hx(text))
	case "BA_DEF_":
		p := w.tok("BA_DEF_")
		obj := "-"
		if g.R.Intn(3) > 0 {
			obj = []string{"BU_", "BO_", "SG_", "EV_"}[g.R.Intn(4)]
			w.S()
			w.raw(obj)
		}
		w.S()
		name := g.ident()
		if len(d.order) > 0 && g.R.Intn(8) == 0 {
			name = d.order[g.R.Intn(len(d.order))] // a duplicate definition: the first one keeps typing the values
		}
		w.raw("\"" + name + "\"")
		w.S()
		typ := []string{"INT", "HEX", "FLOAT", "STRING", "ENUM"}[g.R.Intn(5)]
		w.raw(typ)
		var mi, ma int64
		var mf, xf float64
		var enums []string
		switch typ {
		case "INT", "HEX":
			if g.R.Intn(4) > 0 {
				for k := 0; k < 2; k++ {
					w.S()
					t, v := g.uintText()
					neg := g.R.Intn(3) == 0
					if neg {
						w.raw("-")
						w.s()
					}
					w.raw(t)
					iv := int64(v)
					if neg {
						iv = -iv
					}
					if k == 0 {
						mi = iv
					} else {
						ma = iv
					}
				}
			}
		case "FLOAT":
			if g.R.Intn(4) > 0 {
				w.S()
				mf, _ = d.floatTok()
				w.S()
				xf, _ = d.floatTok()
			}
		case "ENUM":
			n := 1 + g.R.Intn(4)
			for i := 0; i < n; i++ {
				if i == 0 {
					w.S()
				} else {
					w.s()
					w.raw(",")
					w.s()
				}
				s, _ := d.strTok()
				enums = append(enums, s)
			}
		}
		w.s()
		w.raw(";")
		if d.attrs[name] == nil {
			d.attrs[name] = &attrInfo{typ: typ, enums: enums}
			d.order = append(d.order, name)
		}
		return fmt.Sprintf("BA_DEF_ %s %s %s %s %d %d %s %s %s", p, obj, hx(name), typ, mi, ma, f64Str(mf), f64Str(xf), hxl(enums))
	case "BA_DEF_DEF_":
		p := w.tok("BA_DEF_DEF_")
		w.S()
		name := d.attrName()
		w.raw("\"" + name + "\"")
		i, f, s := d.typedValue(name)
		w.s()
		w.raw(";")
		return fmt.Sprintf("BA_DEF_DEF_ %s %s %d %s %s", p, hx(name), i, f64Str(f), hx(s))
	case "BA_":
		p := w.tok("BA_")
		w.S()
		name := d.attrName()
		w.raw("\"" + name + "\"")
		obj, node, id, sig, env := d.objRef(true)
		i, f, s := d.typedValue(name)
		w.s()
		w.raw(";")
		return fmt.Sprintf("BA_ %s %s %s %d %s %s %s %d %s %s", p, hx(name), obj, id, hx(sig), hx(node), hx(env), i, f64Str(f), hx(s))
	case "VAL_":
		p := w.tok("VAL_")
		w.S()
		obj, sig, env := "SG_", "", ""
		var id uint32
		if g.R.Intn(4) == 0 {
			obj = "EV_"
			env = g.ident()
			w.raw(env)
		} else {
			id = d.msgID()
			w.raw(fmt.Sprint(id))
			w.S()
			sig = g.ident()
			w.raw(sig)
		}
		vds := d.valueDescs()
		w.s()
		w.raw(";")
		return fmt.Sprintf("VAL_ %s %s %d %s %s %s", p, obj, id, hx(sig), hx(env), vds)
	case "SIG_VALTYPE_":
		p := w.tok("SIG_VALTYPE_")
		w.S()
		id := d.msgID()
		w.raw(fmt.Sprint(id))
		w.S()
		sig := g.ident()
		w.raw(sig)
		if g.R.Bool() {
			w.s()
			w.raw(":")
			w.s()
		} else {
			w.S()
		}
		typ := g.R.Intn(3)
		w.raw(fmt.Sprint(typ))
		w.s()
		w.raw(";")
		return fmt.Sprintf("SIG_VALTYPE_ %s %d %s %d", p, id, hx(sig), typ)
	default: // unknown line
		kw := g.R.Pick("FOO_", "SIG_GROUP_", "SGTYPE_", "BA_REL_", "BA_DEF_REL_", "CAT_", "FILTER", "x") + ""
		if g.R.Intn(4) == 0 {
			kw = g.ident()
		}
		p := w.tok(kw)
		w.noEol = true
		n := g.R.Intn(9)
		for i := 0; i < n; i++ {
			w.S()
			switch g.R.Intn(3) {
			case 0:
				w.raw(g.ident())
			case 1:
				t, _ := g.uintText()
				w.raw(t)
			default:
				w.raw(string(rune(":;,|[]()@+-%/=<>!&*"[g.R.Intn(19)])))
			}
		}
		w.s()
		w.noEol = false
		if !last || g.R.Bool() {
			w.raw(w.eol())
		}
		return fmt.Sprintf("UNKNOWN %s %s", p, hx(kw))
	}
}

// genDbcFile generates one file of the grammar of DESIGN.md section 4.1.
func genDbcFile(g *G, layout int, nDefs int, kinds []string) *dbcFile {
	w := &dbcWriter{g: g, line: 1, layout: layout}
	d := &dbcGen{w: w, g: g, attrs: map[string]*attrInfo{}, f: &dbcFile{}}
	if layout >= 1 {
		w.raw(w.gapStr(false))
	}
	for i := 0; i < nDefs; i++ {
		kind := kinds[g.R.Intn(len(kinds))]
		start := len(w.sb)
		exp := d.def(kind, i == nDefs-1)
		w.noTab = kind == "NS_"
		d.f.defs = append(d.f.defs, exp)
		d.f.kinds = append(d.f.kinds, kind)
		d.f.spans = append(d.f.spans, [2]int{start, len(w.sb)})
		if i < nDefs-1 || g.R.Bool() {
			if kind == "BU_" || kind == "UNKNOWN" {
				// these end at their own end-of-line (already written); optional further blank space
				if layout >= 2 {
					w.raw(w.gapStr(false))
				}
			} else {
				w.defGap()
			}
		}
		w.noTab = false
	}
	d.f.text = w.sb
	return d.f
}
