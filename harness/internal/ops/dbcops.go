package ops

import (
	"fmt"
	"strings"
)

func randLayoutFile(g *G, kinds []string) *dbcFile {
	n := 1 + g.R.Intn(12)
	if g.R.Intn(10) == 0 {
		n = 20 + g.R.Intn(30)
	}
	return genDbcFile(g, g.R.Intn(4), n, kinds)
}

func genC04(g *G) {
	n := g.N(400, 20000)
	for i := 0; i < n; i++ {
		f := randLayoutFile(g, allKinds)
		g.Emit("dbcx %s %s", HexS(f.text), HexS([]byte(f.expected())))
		ks := map[string]bool{}
		for _, k := range f.kinds {
			ks[k] = true
			g.Tag("kind-" + k)
		}
		if len(ks) >= 6 {
			g.Tag("files-with-6+-kinds")
		}
	}
	// each kind alone, in every layout, including as the last definition without a final newline
	for _, k := range allKinds {
		for layout := 0; layout < 4; layout++ {
			for r := 0; r < g.N(3, 40); r++ {
				f := genDbcFile(g, layout, 1+g.R.Intn(2), []string{k})
				g.Emit("dbcx %s %s", HexS(f.text), HexS([]byte(f.expected())))
			}
		}
	}
	// unknown lines followed by a definition: never change how the following lines are parsed
	for i := 0; i < g.N(200, 5000); i++ {
		f := genDbcFile(g, g.R.Intn(4), 2+g.R.Intn(6), []string{"UNKNOWN", "UNKNOWN", allKinds[g.R.Intn(len(allKinds))]})
		g.Emit("dbcx %s %s", HexS(f.text), HexS([]byte(f.expected())))
		g.Tag("unknown-then-def")
	}
	g.Emit("dbcx - %s", HexS([]byte("ok 0")))
}

func mutateBytes(g *G, b []byte) []byte {
	out := append([]byte(nil), b...)
	nm := 1 + g.R.Intn(3)
	for k := 0; k < nm; k++ {
		if len(out) == 0 {
			out = append(out, byte(g.R.U64()))
			continue
		}
		i := g.R.Intn(len(out))
		switch g.R.Intn(12) {
		case 0:
			out[i] ^= 1 << uint(g.R.Intn(8))
		case 1:
			out[i] = 0
		case 2:
			out[i] = byte(0x80 + g.R.Intn(128))
		case 3:
			out = out[:i]
		case 4:
			out = append(out[:i], out[i+1:]...)
		case 5:
			tok := g.R.Pick("\"", ";", ":", "BO_ ", "SG_ ", "VAL_ ", "BA_ ", "m1M", "08", "0x1F", "1e999", "1_000", "99999999999999999999999999", "0x1p4", "1__0", ".", "-", "\n", "\t", "\r", "é", "\xef\xbb\xbf", "m", "M", "@2", "\\", "1e", "0b", "0o8", "٣")
			out = append(out[:i], append([]byte(tok), out[i:]...)...)
		case 6:
			j := g.R.Intn(len(out))
			if j > i {
				out = append(out[:i], out[j:]...)
			}
		case 7: // duplicate a slice (deep repetition)
			j := i + g.R.Intn(len(out)-i)
			piece := append([]byte(nil), out[i:j]...)
			for r := 0; r < 1+g.R.Intn(20) && len(out) < 20000; r++ {
				out = append(out[:j], append(piece, out[j:]...)...)
			}
		case 8:
			out[i] = "\"';:,|[]()@+-_.0123456789"[g.R.Intn(25)]
		case 9: // swap two bytes
			j := g.R.Intn(len(out))
			out[i], out[j] = out[j], out[i]
		default:
			out[i] = byte(g.R.U64())
		}
	}
	return out
}

func genC12(g *G) {
	fixed := []string{"", " ", "\n", "\x00", "\xff", "\xef\xbb\xbf", "\xef\xbb\xbfVERSION \"\"", "VERSION", "VERSION \"", "VERSION \"a", "VERSION \"a\\\"", "VERSION \"\\", "1", "\"", ";", "BO_", "BO_ 1", "BO_ 1 A", "BO_ 1 A:", "BO_ 1 A: 8", "BO_ 1 A: 8 N SG_", "BO_ 1 A: 8 N ;",
		"BO_ 2048 A: 8 N", "BO_ 4294967297 A: 8 N", "BO_ 18446744073709551616 A: 8 N", "SG_ A : 0|1@1+ (1,0) [0|0] \"\" X", "SG_ A m : 0|1@1+ (1,0) [0|0] \"\" X", "SG_ A m1M : 0|1@1+ (1,0) [0|0] \"\" X",
		"SG_ A m99999999999999999999 : 0|1@1+ (1,0) [0|0] \"\" X", "SG_ A : 0|1@2+ (1,0) [0|0] \"\" X", "SG_ A : 0|1@-1+ (1,0) [0|0] \"\" X", "SG_ A : 0|1@- 0+ (1,0) [0|0] \"\" X", "SG_ A : 0|1@1* (1,0) [0|0] \"\" X",
		"SG_ A : 08|1@1+ (1,0) [0|0] \"\" X", "SG_ A : 0x8|1@1+ (1,0) [0|0] \"\" X", "SG_ A : 0|1@1+ (1e999,0) [0|0] \"\" X", "SG_ A : 0|1@1+ (0x1p4,1_0) [0|0] \"\" X", "SG_ A : 0|1@1+ (1__0,0) [0|0] \"\" X",
		"BA_DEF_ \"A\" INT 9223372036854775808 -9223372036854775809;", "BA_DEF_ \"A\" INT 1e30 -1e30;", "BA_DEF_ \"\" INT;", "BA_DEF_ \"1a\" INT;", "BA_DEF_ \"A\" ENUM \"a\",\"b\";BA_DEF_DEF_ \"A\" 2;", "BA_DEF_ \"A\" ENUM \"a\",\"b\";BA_DEF_DEF_ \"A\" 1;",
		"BA_DEF_ \"A\" FOO;", "BA_DEF_ XX_ \"A\" INT;", "BA_ \"A\" 5;", "CM_ XX_ \"a\";", "VAL_ 1 S 1 \"a\" ;", "VAL_ 1 S - 1 \"a\";", "VAL_ 1 S -1 \"a\" 2", "SIG_VALTYPE_ 1 S : 3;", "EV_ A: 3 [0|0] \"\" 0 0 DUMMY_NODE_VECTOR0 V;",
		"EV_ A: 0 [0|0] \"\" 0 0 DUMMY_NODE_VECTOR4 V;", "NS_ :\n\tA\n\t\tB", "NS_ : \tA", "BU_: A B\nC", "BU_ : A 1", "BU_\n: A", "FOO 08", "FOO \x00", "FOO \"unterminated\nVERSION \"x\"", "é", "éé: 1", "٣", "x٣", "_", "a.b", ".5", "5.", "..", "BS_: 1 : 2 , 3", "BS_: : ,", "BS_:", "BS_ 5"}
	for _, s := range fixed {
		g.Emit("dbc %s", HexS([]byte(s)))
	}
	n := g.N(3000, 300000)
	for i := 0; i < n; i++ {
		f := randLayoutFile(g, allKinds)
		m := mutateBytes(g, f.text)
		g.Emit("dbc %s", HexS(m))
		g.Tag("mutated")
	}
	for i := 0; i < n/10; i++ {
		b := make([]byte, g.R.Intn(40))
		for j := range b {
			if g.R.Bool() {
				const alpha = "VERSIONBU_BO_SG_ \"\n\t:;|@+-(),[]0123456789mM"
				b[j] = alpha[g.R.Intn(len(alpha))]
			} else {
				b[j] = byte(g.R.U64())
			}
		}
		g.Emit("dbc %s", HexS(b))
		g.Tag("random-bytes")
	}
	// locality: every generated file x every definition index x corruption operators
	nf := g.N(150, 6000)
	for i := 0; i < nf; i++ {
		f := randLayoutFile(g, allKinds)
		for k := range f.defs {
			st, en := f.spans[k][0], f.spans[k][1]
			kwEnd := st
			for kwEnd < en && (f.text[kwEnd] == '_' || f.text[kwEnd] >= '0' && f.text[kwEnd] <= '9' || f.text[kwEnd] >= 'A' && f.text[kwEnd] <= 'Z' || f.text[kwEnd] >= 'a' && f.text[kwEnd] <= 'z') {
				kwEnd++
			}
			prefix := f.expectedPrefix(k)
			emit := func(op string, data []byte, must bool) {
				m := "0"
				if must {
					m = "1"
				}
				g.Emit("dbcl %s %d %d %s %s", HexS(data), k, st, m, HexS([]byte(prefix)))
				g.Tag("locality-" + op)
			}
			if en-kwEnd >= 2 {
				at := kwEnd + 1 + g.R.Intn(en-kwEnd-1)
				for _, bad := range []byte{0x00, 0xff} {
					data := append(append(append([]byte(nil), f.text[:at]...), bad), f.text[at:]...)
					emit(fmt.Sprintf("insert-%02x", bad), data, true)
				}
				// truncate the file inside the definition
				emit("truncate", append([]byte(nil), f.text[:at]...), false)
			}
			if f.kinds[k] != "UNKNOWN" && f.kinds[k] != "BU_" && f.kinds[k] != "NS_" {
				// replace the first character after the keyword's gap by '$'
				at := kwEnd
				for at < en && strings.ContainsRune(" \t\r\n", rune(f.text[at])) {
					at++
				}
				if at < en {
					data := append([]byte(nil), f.text...)
					data[at] = '$'
					emit("dollar", data, f.kinds[k] != "CM_" && f.kinds[k] != "BA_DEF_")
				}
			}
		}
	}
}

func (f *dbcFile) expectedPrefix(k int) string {
	var sb strings.Builder
	fmt.Fprintf(&sb, "%d", k)
	for _, d := range f.defs[:k] {
		sb.WriteString(" | ")
		sb.WriteString(d)
	}
	return sb.String()
}

// localityVerdict judges the locality clause on a parse dump: "local ok", "local no-error" or "local FAIL ...".
func localityVerdict(dump string, k int, start int, must bool, prefix string) string {
	body := strings.SplitN(dump, " ;; ", 2)[0]
	if strings.HasPrefix(body, "ok ") {
		if must {
			return "local FAIL corrupted file parsed without error"
		}
		return "local no-error"
	}
	if !strings.HasPrefix(body, "err ") {
		return "local FAIL " + body
	}
	rest := body[4:]
	sp := strings.SplitN(rest, " ", 2)
	pos := sp[0]
	var line, col, off int
	fmt.Sscanf(pos, "%d:%d@%d", &line, &col, &off)
	if off < start {
		return fmt.Sprintf("local FAIL error position %s before the corrupted definition (offset %d)", pos, start)
	}
	if len(sp) < 2 || sp[1] != prefix {
		return "local FAIL definitions so far differ from the preceding definitions"
	}
	return "local ok"
}

func init() {
	RegGen("C04", genC04)
	RegGen("C12", genC12)
	RegExec("dbc", func(a []string) string {
		d1 := ParseDump(Hex(a[0]))
		d2 := ParseDump(Hex(a[0]))
		if d1 != d2 {
			return "NONDETERMINISTIC " + d1
		}
		return d1
	})
	RegExec("dbcx", func(a []string) string { return ParseDump(Hex(a[0])) })
	RegExec("dbcl", func(a []string) string {
		d := ParseDump(Hex(a[0]))
		return localityVerdict(d, int(U(a[1])), int(U(a[2])), a[3] == "1", string(Hex(a[4])))
	})
}
