// Package ops holds the operation-line generators and the executors that run each
// operation line against the real einride/can-go code in-process.
package ops

import (
	"bufio"
	"encoding/hex"
	"fmt"
	"io"
	"os"
	"sort"
	"strconv"
	"strings"
)

// Rng is splitmix64: every random choice of a run derives from one seed.
type Rng struct{ s uint64 }

// NewRng scrambles the seed first: the state advances by a constant, so seeds must not be multiples of it
// (consecutive seeds would otherwise give the same stream shifted by one draw).
func NewRng(seed uint64) *Rng {
	z := seed + 0x1234567
	z = (z ^ (z >> 30)) * 0xBF58476D1CE4E5B9
	z = (z ^ (z >> 27)) * 0x94D049BB133111EB
	return &Rng{s: z ^ (z >> 31)}
}

func (r *Rng) U64() uint64 {
	r.s += 0x9E3779B97F4A7C15
	z := r.s
	z = (z ^ (z >> 30)) * 0xBF58476D1CE4E5B9
	z = (z ^ (z >> 27)) * 0x94D049BB133111EB
	return z ^ (z >> 31)
}

// Intn returns a value in [0,n).
func (r *Rng) Intn(n int) int {
	if n <= 0 {
		return 0
	}
	return int(r.U64() % uint64(n))
}

func (r *Rng) Bool() bool { return r.U64()&1 == 1 }

// Pick returns one of the strings.
func (r *Rng) Pick(xs ...string) string { return xs[r.Intn(len(xs))] }

// G is the generator context handed to each property's generator.
type G struct {
	R     *Rng
	Tier  string // quick | thorough
	W     *bufio.Writer
	Count int
	Hist  map[string]int // input-distribution histogram (written to the evidence)
}

func (g *G) Thorough() bool { return g.Tier == "thorough" }

// N picks the budget by tier.
func (g *G) N(quick, thorough int) int {
	if g.Thorough() {
		return thorough
	}
	return quick
}

func (g *G) Emit(format string, a ...interface{}) {
	fmt.Fprintf(g.W, format, a...)
	g.W.WriteByte('\n')
	g.Count++
}

func (g *G) Tag(k string) { g.Hist[k]++ }

type GenFn func(g *G)
type ExecFn func(a []string) string

var (
	Gens  = map[string]GenFn{}
	Execs = map[string]ExecFn{}
)

func RegGen(prop string, f GenFn)  { Gens[prop] = f }
func RegExec(word string, f ExecFn) { Execs[word] = f }

// RunGen writes the operation lines of a property to w and the histogram to histPath.
func RunGen(prop, tier string, seed uint64, w io.Writer, histPath string) error {
	f, ok := Gens[prop]
	if !ok {
		return fmt.Errorf("no generator for %s", prop)
	}
	bw := bufio.NewWriterSize(w, 1<<20)
	g := &G{R: NewRng(seed), Tier: tier, W: bw, Hist: map[string]int{}}
	f(g)
	if err := bw.Flush(); err != nil {
		return err
	}
	if histPath != "" {
		keys := make([]string, 0, len(g.Hist))
		for k := range g.Hist {
			keys = append(keys, k)
		}
		sort.Strings(keys)
		var sb strings.Builder
		sb.WriteString("{")
		for i, k := range keys {
			if i > 0 {
				sb.WriteString(",")
			}
			fmt.Fprintf(&sb, "%q:%d", k, g.Hist[k])
		}
		sb.WriteString("}")
		return os.WriteFile(histPath, []byte(sb.String()), 0o644)
	}
	return nil
}

// ExecLine runs one operation line against the real code; panics become a result.
func ExecLine(line string) (res string) {
	defer func() {
		if r := recover(); r != nil {
			res = "PANIC " + strings.ReplaceAll(fmt.Sprint(r), "\n", " ")
		}
	}()
	a := strings.Fields(line)
	if len(a) == 0 {
		return "bad-op"
	}
	f, ok := Execs[a[0]]
	if !ok {
		return "bad-op"
	}
	return f(a[1:])
}

// RunExec reads operation lines and prints one result per line.
func RunExec(r io.Reader, w io.Writer) error {
	sc := bufio.NewScanner(r)
	sc.Buffer(make([]byte, 1<<20), 1<<28)
	bw := bufio.NewWriterSize(w, 1<<20)
	for sc.Scan() {
		bw.WriteString(ExecLine(sc.Text()))
		bw.WriteByte('\n')
	}
	if err := sc.Err(); err != nil {
		return err
	}
	return bw.Flush()
}

// ---- argument helpers ----

func U(s string) uint64 {
	v, err := strconv.ParseUint(s, 10, 64)
	if err != nil {
		panic("bad uint " + s)
	}
	return v
}

func I(s string) int64 {
	v, err := strconv.ParseInt(s, 10, 64)
	if err != nil {
		panic("bad int " + s)
	}
	return v
}

func U8(s string) uint8 {
	v := U(s)
	if v > 255 {
		panic("bad uint8 " + s)
	}
	return uint8(v)
}

func Hex(s string) []byte {
	if s == "-" {
		return nil
	}
	b, err := hex.DecodeString(s)
	if err != nil {
		panic("bad hex " + s)
	}
	return b
}

func HexS(b []byte) string {
	if len(b) == 0 {
		return "-"
	}
	return hex.EncodeToString(b)
}

func OkErr(err error) string {
	if err == nil {
		return "ok"
	}
	return "err"
}

func B(b bool) string {
	if b {
		return "1"
	}
	return "0"
}
