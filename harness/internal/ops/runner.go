package ops

import (
	"bytes"
	"context"
	"errors"
	"fmt"
	"net"
	"runtime"
	"strconv"
	"strings"
	"sync"
	"sync/atomic"
	"time"

	"go.einride.tech/can"
	"go.einride.tech/can/pkg/canrunner"
	"go.einride.tech/can/pkg/descriptor"
	"go.einride.tech/can/pkg/socketcan"
)

func goid() int64 {
	var buf [64]byte
	n := runtime.Stack(buf[:], false)
	f := bytes.Fields(buf[:n])
	id, _ := strconv.ParseInt(string(f[1]), 10, 64)
	return id
}

// fakeNode: a sync.Locker that knows which goroutine holds it, plus the trace of everything the runner does.
type fakeNode struct {
	mu     sync.Mutex
	holder int64
	tmu    sync.Mutex
	trace  []string
	viol   []string
	rx     map[uint32]*fakeMsg
	tx     []*fakeMsg
	conn   net.Conn
}

func (n *fakeNode) rec(s string) {
	n.tmu.Lock()
	n.trace = append(n.trace, s)
	n.tmu.Unlock()
}
func (n *fakeNode) violation(s string) {
	n.tmu.Lock()
	n.viol = append(n.viol, s)
	n.tmu.Unlock()
}
func (n *fakeNode) traceLen() int {
	n.tmu.Lock()
	defer n.tmu.Unlock()
	return len(n.trace)
}
func (n *fakeNode) count(s string) int {
	n.tmu.Lock()
	defer n.tmu.Unlock()
	c := 0
	for _, t := range n.trace {
		if t == s {
			c++
		}
	}
	return c
}
func (n *fakeNode) Lock() {
	n.mu.Lock()
	atomic.StoreInt64(&n.holder, goid())
	n.rec("lock")
}
func (n *fakeNode) Unlock() {
	n.rec("unlock")
	atomic.StoreInt64(&n.holder, 0)
	n.mu.Unlock()
}
func (n *fakeNode) Connect() (net.Conn, error)                       { return n.conn, nil }
func (n *fakeNode) Descriptor() *descriptor.Node                     { return &descriptor.Node{Name: "FakeNode"} }
func (n *fakeNode) TransmittedMessages() []canrunner.TransmittedMessage {
	out := make([]canrunner.TransmittedMessage, len(n.tx))
	for i, m := range n.tx {
		out[i] = m
	}
	return out
}
func (n *fakeNode) ReceivedMessage(id uint32) (canrunner.ReceivedMessage, bool) {
	m, ok := n.rx[id]
	if !ok {
		return nil, false
	}
	return m, true
}

// fakeMsg implements both canrunner message interfaces; every state access checks the lock holder.
type fakeMsg struct {
	n        *fakeNode
	desc     *descriptor.Message
	state    uint64 // "signal values": written by unmarshal and by the before-transmit hook
	hookErr  error
	unmErr   error
	cyclic   bool
	wake     chan struct{}
	event    chan struct{}
	hookLocks bool
	hookSleep time.Duration
	hookGate  chan struct{} // when set: the hook signals its entry on hookIn and waits for hookGate to be closed
	hookIn    chan struct{}
}

func (m *fakeMsg) acc(name string) {
	if atomic.LoadInt64(&m.n.holder) != goid() {
		m.n.violation("access " + name + " without holding the node lock")
	}
	m.n.rec("acc:" + name)
}
func (m *fakeMsg) hook(kind string) func(context.Context) error {
	return func(context.Context) error {
		if atomic.LoadInt64(&m.n.holder) == goid() {
			m.n.violation(kind + " hook called while holding the node lock")
			m.n.rec("hook")
			return m.hookErr
		}
		m.n.rec("hook")
		if m.hookSleep > 0 {
			time.Sleep(m.hookSleep)
		}
		if m.hookGate != nil {
			select {
			case m.hookIn <- struct{}{}:
			default:
			}
			<-m.hookGate
		}
		if m.hookLocks {
			// a hook may take the lock itself
			m.n.mu.Lock()
			m.state++
			m.n.mu.Unlock()
		}
		return m.hookErr
	}
}
func (m *fakeMsg) Descriptor() *descriptor.Message { return m.desc }
func (m *fakeMsg) Reset()                          { m.acc("Reset") }
func (m *fakeMsg) String() string                  { m.acc("String"); return "fake" } // formatting a message reads its state
func (m *fakeMsg) Frame() can.Frame {
	m.acc("Frame")
	var d can.Data
	d.UnpackLittleEndian(m.state)
	return can.Frame{ID: m.desc.ID, Length: 8, Data: d}
}
func (m *fakeMsg) MarshalFrame() (can.Frame, error) { return m.Frame(), nil }
func (m *fakeMsg) UnmarshalFrame(f can.Frame) error {
	m.acc("UnmarshalFrame")
	if m.unmErr != nil {
		return m.unmErr
	}
	m.state = f.Data.PackLittleEndian()
	return nil
}
func (m *fakeMsg) SetReceiveTime(time.Time)  { m.acc("SetReceiveTime") }
func (m *fakeMsg) SetTransmitTime(time.Time) { m.acc("SetTransmitTime") }
func (m *fakeMsg) AfterReceiveHook() func(context.Context) error {
	m.acc("AfterReceiveHook")
	return m.hook("after-receive")
}
func (m *fakeMsg) BeforeTransmitHook() func(context.Context) error {
	m.acc("BeforeTransmitHook")
	return m.hook("before-transmit")
}
func (m *fakeMsg) IsCyclicTransmissionEnabled() bool {
	m.acc("IsCyclicTransmissionEnabled")
	return m.cyclic
}
func (m *fakeMsg) WakeUpChan() <-chan struct{}        { return m.wake }
func (m *fakeMsg) TransmitEventChan() <-chan struct{} { return m.event }

type fakeClock struct{}

func (fakeClock) Now() time.Time                          { return time.Unix(0, 0) }
func (fakeClock) After(d time.Duration) <-chan time.Time  { return time.After(d) }
func (fakeClock) NewTicker(d time.Duration) interface{}   { return nil }

// scripted frame receiver
type scriptRx struct {
	frames []can.Frame
	i      int
	err    error
	cur    can.Frame
}

func (r *scriptRx) Receive() bool {
	if r.i >= len(r.frames) {
		return false
	}
	r.cur = r.frames[r.i]
	r.i++
	return true
}
func (r *scriptRx) Frame() can.Frame { return r.cur }
func (r *scriptRx) Err() error       { return r.err }

type recTx struct {
	n      *fakeNode
	frames []can.Frame
	fail   map[int]bool
	mu     sync.Mutex
}

func (t *recTx) TransmitFrame(_ context.Context, f can.Frame) error {
	if atomic.LoadInt64(&t.n.holder) == goid() {
		t.n.violation("TransmitFrame called while holding the node lock")
	}
	t.n.rec("tx")
	t.mu.Lock()
	defer t.mu.Unlock()
	k := len(t.frames)
	t.frames = append(t.frames, f)
	if t.fail[k] {
		return errors.New("bus off")
	}
	return nil
}

// execRtxSlow: a before-transmit hook that takes longer than the message's send timeout (its cycle time) and a
// transmitter that honours its context: the accepted request must still produce exactly one frame (the send
// timeout bounds the transmission, not the hook).  rtxslow <cycle ms> <hook ms>
func execRtxSlow(a []string) string {
	return withTimeout(8*time.Second, func() string {
		cycle := time.Duration(U(a[0])) * time.Millisecond
		hookDur := time.Duration(U(a[1])) * time.Millisecond
		n := &fakeNode{}
		m := &fakeMsg{n: n, desc: &descriptor.Message{Name: "TxMsg", ID: 7, SendType: descriptor.SendTypeEvent, CycleTime: cycle},
			wake: make(chan struct{}, 1), event: make(chan struct{}), hookLocks: true, hookSleep: hookDur}
		tx := &ctxTx{recTx: recTx{n: n, fail: map[int]bool{}}}
		ctx, cancel := context.WithCancel(context.Background())
		defer cancel()
		done := make(chan error, 1)
		go func() { done <- canrunner.RunMessageTransmitter(ctx, tx, n, m, nil2clock()) }()
		select {
		case m.event <- struct{}{}:
		case err := <-done:
			return "ended-before-request " + errClass(err)
		case <-time.After(3 * time.Second):
			return "TIMEOUT-request-not-accepted"
		}
		res := "nil"
		if !waitFor(func() bool { return n.count("tx") >= 1 }) {
			res = "no-transmission"
		}
		cancel()
		select {
		case err := <-done:
			if err != nil {
				res = errClass(err)
			}
		case <-time.After(3 * time.Second):
			return "TIMEOUT-cancel"
		}
		tx.mu.Lock()
		nf := 0
		for i := range tx.frames {
			if !tx.late[i] {
				nf++
			}
		}
		tx.mu.Unlock()
		return fmt.Sprintf("%s %s frames=%d", res, viols(n), nf)
	})
}

// ctxTx: a transmitter that, like socketcan.Transmitter, fails when its context is already done
type ctxTx struct {
	recTx
	late map[int]bool
}

func (t *ctxTx) TransmitFrame(ctx context.Context, f can.Frame) error {
	if err := ctx.Err(); err != nil {
		t.mu.Lock()
		if t.late == nil {
			t.late = map[int]bool{}
		}
		t.late[len(t.frames)] = true
		t.mu.Unlock()
		_ = t.recTx.TransmitFrame(ctx, f)
		return fmt.Errorf("transmit frame: %w", err)
	}
	return t.recTx.TransmitFrame(ctx, f)
}

func withTimeout(d time.Duration, f func() string) string {
	ch := make(chan string, 1)
	go func() { ch <- f() }()
	select {
	case s := <-ch:
		return s
	case <-time.After(d):
		return "TIMEOUT"
	}
}

func errClass(err error) string {
	if err == nil {
		return "nil"
	}
	s := err.Error()
	for _, k := range []string{"hook failed", "unmarshal failed", "bus off", "read failed", "connection closed by peer"} {
		if strings.Contains(s, k) {
			return strings.ReplaceAll(k, " ", "-")
		}
	}
	return "other:" + strings.ReplaceAll(s, " ", "_")
}

func waitFor(cond func() bool) bool {
	deadline := time.Now().Add(3 * time.Second)
	for time.Now().Before(deadline) {
		if cond() {
			return true
		}
		time.Sleep(200 * time.Microsecond)
	}
	return false
}

func viols(n *fakeNode) string {
	n.tmu.Lock()
	defer n.tmu.Unlock()
	if len(n.viol) == 0 {
		return "viol=0"
	}
	return "VIOLATIONS=" + strings.ReplaceAll(strings.Join(n.viol, ";"), " ", "_")
}

func traceStr(n *fakeNode) string {
	n.tmu.Lock()
	defer n.tmu.Unlock()
	return strings.Join(n.trace, ",")
}

// rrx <frame ids with optional !U (unmarshal fails) / !H (hook fails)> [rxerr]
func execRrx(a []string) string {
	return withTimeout(5*time.Second, func() string {
		n := &fakeNode{rx: map[uint32]*fakeMsg{}}
		for _, id := range []uint32{1, 2} {
			n.rx[id] = &fakeMsg{n: n, desc: &descriptor.Message{Name: fmt.Sprintf("M%d", id), ID: id}, hookLocks: true}
		}
		rx := &scriptRx{}
		type fault struct{ u, h bool }
		var faults []fault
		if a[0] != "-" {
			for _, tok := range strings.Split(a[0], ",") {
				p := strings.Split(tok, "!")
				id := uint32(U(p[0]))
				rx.frames = append(rx.frames, can.Frame{ID: id, Length: 8, Data: can.Data{byte(len(rx.frames) + 1)}})
				f := fault{}
				if len(p) > 1 {
					f.u, f.h = p[1] == "U", p[1] == "H"
				}
				faults = append(faults, f)
			}
		}
		if len(a) > 1 && a[1] == "rxerr" {
			rx.err = errors.New("read failed")
		}
		// faults are armed just before the frame is delivered
		wrapped := &faultRx{scriptRx: rx, n: n, faults: func(i int) (bool, bool) { return faults[i].u, faults[i].h }}
		err := canrunner.RunMessageReceiver(context.Background(), wrapped, n, nil2clock())
		states := fmt.Sprintf("s1=%d s2=%d", n.rx[1].state, n.rx[2].state)
		return fmt.Sprintf("%s %s %s trace=%s", errClass(err), viols(n), states, traceStr(n))
	})
}

type faultRx struct {
	*scriptRx
	n      *fakeNode
	faults func(i int) (bool, bool)
}

func (r *faultRx) Receive() bool {
	ok := r.scriptRx.Receive()
	if ok {
		u, h := r.faults(r.scriptRx.i - 1)
		if m, ok := r.n.rx[r.scriptRx.cur.ID]; ok {
			m.unmErr, m.hookErr = nil, nil
			if u {
				m.unmErr = errors.New("unmarshal failed")
			}
			if h {
				m.hookErr = errors.New("hook failed")
			}
		}
	}
	return ok
}

// rtx <events>: e (event request) eH (hook fails) eT (transmit fails) w1/w0 (toggle + wake) c (cancel)
func execRtx(a []string) string {
	return withTimeout(8*time.Second, func() string {
		n := &fakeNode{}
		m := &fakeMsg{n: n, desc: &descriptor.Message{Name: "TxMsg", ID: 7, SendType: descriptor.SendTypeCyclic, CycleTime: time.Hour},
			wake: make(chan struct{}, 1), event: make(chan struct{}), hookLocks: true}
		tx := &recTx{n: n, fail: map[int]bool{}}
		ctx, cancel := context.WithCancel(context.Background())
		defer cancel()
		done := make(chan error, 1)
		go func() { done <- canrunner.RunMessageTransmitter(ctx, tx, n, m, nil2clock()) }()
		if !waitFor(func() bool { return n.count("acc:IsCyclicTransmissionEnabled") >= 1 && n.count("unlock") >= 1 }) {
			return "TIMEOUT-initial"
		}
		finished := false
		var result error
		nreads := 1
		nsent := 0
		hookStates := []uint64{}
		for _, ev := range strings.Split(a[0], ",") {
			if finished {
				break
			}
			switch {
			case strings.HasPrefix(ev, "e"):
				m.n.mu.Lock()
				m.hookErr = nil
				if ev == "eH" {
					m.hookErr = errors.New("hook failed")
				}
				if ev == "eT" {
					tx.mu.Lock()
					tx.fail[len(tx.frames)] = true
					tx.mu.Unlock()
				}
				m.n.mu.Unlock()
				select {
				case m.event <- struct{}{}:
				case err := <-done:
					finished, result = true, err
					continue
				case <-time.After(3 * time.Second):
					return "TIMEOUT-request-not-accepted"
				}
				if ev == "e" {
					nsent++
					want := nsent
					if !waitFor(func() bool { return n.count("tx") >= want }) {
						return "TIMEOUT-no-transmission"
					}
					// wait until transmit() has returned to the select: the next event is accepted only then anyway
				} else {
					select {
					case err := <-done:
						finished, result = true, err
					case <-time.After(3 * time.Second):
						return "TIMEOUT-fault-not-reported"
					}
				}
				m.n.mu.Lock()
				hookStates = append(hookStates, m.state)
				m.n.mu.Unlock()
			case ev == "w1" || ev == "w0":
				m.n.mu.Lock()
				m.cyclic = ev == "w1"
				m.n.mu.Unlock()
				select {
				case m.wake <- struct{}{}:
				default:
				}
				nreads++
				want := nreads
				if !waitFor(func() bool { return n.count("acc:IsCyclicTransmissionEnabled") >= want }) {
					return "TIMEOUT-toggle-not-handled"
				}
			case ev == "c":
				cancel()
				select {
				case err := <-done:
					finished, result = true, err
				case <-time.After(3 * time.Second):
					return "TIMEOUT-cancel"
				}
			}
		}
		if !finished {
			cancel()
			select {
			case result = <-done:
			case <-time.After(3 * time.Second):
				return "TIMEOUT-final-cancel"
			}
		}
		// every transmitted frame carries the state left by the hook of that transmission
		tx.mu.Lock()
		frameOK := "frames-after-hook"
		for i, f := range tx.frames {
			if i < len(hookStates) && f.Data.PackLittleEndian() != uint64(i+1) {
				frameOK = fmt.Sprintf("FRAME-%d-STALE(%d)", i, f.Data.PackLittleEndian())
			}
		}
		nf := len(tx.frames)
		tx.mu.Unlock()
		return fmt.Sprintf("%s %s frames=%d %s trace=%s", errClass(result), viols(n), nf, frameOK, traceStr(n))
	})
}

// rcyc: real-time cyclic transmission with a short cycle: frames start after enable, at most one follows a handled disable
func execRcyc(a []string) string {
	return withTimeout(20*time.Second, func() string {
		n := &fakeNode{}
		m := &fakeMsg{n: n, desc: &descriptor.Message{Name: "TxMsg", ID: 7, SendType: descriptor.SendTypeCyclic, CycleTime: 3 * time.Millisecond},
			wake: make(chan struct{}, 1), event: make(chan struct{})}
		tx := &recTx{n: n, fail: map[int]bool{}}
		ctx, cancel := context.WithCancel(context.Background())
		defer cancel()
		done := make(chan error, 1)
		go func() { done <- canrunner.RunMessageTransmitter(ctx, tx, n, m, nil2clock()) }()
		toggle := func(b bool, k int) bool {
			n.mu.Lock()
			m.cyclic = b
			n.mu.Unlock()
			select {
			case m.wake <- struct{}{}:
			default:
			}
			return waitFor(func() bool { return n.count("acc:IsCyclicTransmissionEnabled") >= k })
		}
		if !waitFor(func() bool { return n.count("acc:IsCyclicTransmissionEnabled") >= 1 }) {
			return "TIMEOUT-initial"
		}
		reads := 1
		for round := 0; round < 3; round++ {
			before := n.count("tx")
			if before != 0 && round == 0 {
				return "frames-without-enable"
			}
			reads++
			if !toggle(true, reads) {
				return "TIMEOUT-enable"
			}
			start := n.count("tx")
			if !waitFor(func() bool { return n.count("tx") >= start+3 }) {
				return "no-frames-after-enable"
			}
			reads++
			if !toggle(false, reads) {
				return "TIMEOUT-disable"
			}
			time.Sleep(time.Millisecond) // the handler arms/disarms right after the read
			after := n.count("tx")
			time.Sleep(40 * time.Millisecond)
			if extra := n.count("tx") - after; extra > 1 {
				return fmt.Sprintf("frames-after-disable=%d", extra)
			}
		}
		cancel()
		select {
		case err := <-done:
			return "ok " + errClass(err) + " " + viols(n)
		case <-time.After(3 * time.Second):
			return "TIMEOUT-cancel"
		}
	})
}

// gateTx: a transmitter whose first call waits (inside TransmitFrame) until the gate is closed
type gateTx struct {
	recTx
	in   chan struct{}
	gate chan struct{}
}

func (t *gateTx) TransmitFrame(ctx context.Context, f can.Frame) error {
	select {
	case t.in <- struct{}{}:
	default:
	}
	<-t.gate
	return t.recTx.TransmitFrame(ctx, f)
}

// rtog <hook|tx> <on|off>: cyclic transmission is toggled while the transmitter goroutine is busy inside transmit() --
// in the before-transmit hook or in TransmitFrame -- i.e. while it is not parked in its select.  The toggle must take
// effect all the same: after `on` (made during an event transmission, ticker not armed) cyclic frames follow; after
// `off` (made during a cyclic transmission) at most one already-due frame follows the one in flight.
func execRtog(a []string) string {
	return withTimeout(20*time.Second, func() string {
		where, on := a[0], a[1] == "on"
		n := &fakeNode{}
		m := &fakeMsg{n: n, desc: &descriptor.Message{Name: "TxMsg", ID: 7, SendType: descriptor.SendTypeCyclic, CycleTime: 3 * time.Millisecond},
			wake: make(chan struct{}, 1), event: make(chan struct{}), cyclic: !on}
		tx := &gateTx{recTx: recTx{n: n, fail: map[int]bool{}}, in: make(chan struct{}, 1), gate: make(chan struct{})}
		var in chan struct{}
		var gate chan struct{}
		if where == "hook" {
			m.hookGate, m.hookIn = make(chan struct{}), make(chan struct{}, 1)
			in, gate = m.hookIn, m.hookGate
			close(tx.gate)
		} else {
			in, gate = tx.in, tx.gate
		}
		ctx, cancel := context.WithCancel(context.Background())
		defer cancel()
		done := make(chan error, 1)
		go func() { done <- canrunner.RunMessageTransmitter(ctx, tx, n, m, nil2clock()) }()
		if !waitFor(func() bool { return n.count("acc:IsCyclicTransmissionEnabled") >= 1 }) {
			return "TIMEOUT-initial"
		}
		if on {
			// ticker not armed: the only way into transmit() is an event request
			select {
			case m.event <- struct{}{}:
			case <-time.After(3 * time.Second):
				return "TIMEOUT-request-not-accepted"
			}
		}
		select {
		case <-in:
		case <-time.After(3 * time.Second):
			return "TIMEOUT-not-inside-" + where
		}
		// the runner is inside transmit(): toggle now
		n.mu.Lock()
		m.cyclic = on
		n.mu.Unlock()
		select {
		case m.wake <- struct{}{}:
		default:
		}
		before := n.count("tx")
		reads := n.count("acc:IsCyclicTransmissionEnabled")
		close(gate)
		res := "ok"
		// the toggle takes effect whatever the runner was doing: the loop comes back to its select, takes the wake-up
		// token and reads the flag
		if !waitFor(func() bool { return n.count("acc:IsCyclicTransmissionEnabled") > reads }) {
			res = "TOGGLE-NOT-HANDLED"
		} else if on {
			if !waitFor(func() bool { return n.count("tx") >= before+4 }) {
				res = fmt.Sprintf("ENABLE-LOST(frames-after=%d)", n.count("tx")-before)
			}
		} else {
			// once the toggle is handled at most one already-due frame follows (frames sent before it is handled are
			// not counted: the loop may serve due ticks first)
			time.Sleep(time.Millisecond)
			after := n.count("tx")
			time.Sleep(40 * time.Millisecond)
			if extra := n.count("tx") - after; extra > 1 {
				res = fmt.Sprintf("DISABLE-LOST(frames-after-handling=%d)", extra)
			}
		}
		cancel()
		select {
		case err := <-done:
			return res + " " + errClass(err) + " " + viols(n)
		case <-time.After(3 * time.Second):
			return "TIMEOUT-cancel"
		}
	})
}

// rrun <mode>: canrunner.Run over a pipe: mode = cancel | hookerr | hookerr-closed | txerr
func execRrun(a []string) string {
	return withTimeout(10*time.Second, func() string {
		base := runtime.NumGoroutine()
		c1, c2 := net.Pipe()
		n := &fakeNode{rx: map[uint32]*fakeMsg{}, conn: c1}
		rxm := &fakeMsg{n: n, desc: &descriptor.Message{Name: "RxMsg", ID: 1}, hookLocks: true}
		n.rx[1] = rxm
		txm := &fakeMsg{n: n, desc: &descriptor.Message{Name: "TxMsg", ID: 7, SendType: descriptor.SendTypeEvent}, wake: make(chan struct{}, 1), event: make(chan struct{}), hookLocks: true}
		n.tx = []*fakeMsg{txm}
		switch a[0] {
		case "hookerr":
			rxm.hookErr = errors.New("hook failed")
		case "hookerr-closed":
			rxm.hookErr = errors.New("hook failed: valve closed")
		}
		ctx, cancel := context.WithCancel(context.Background())
		defer cancel()
		done := make(chan error, 1)
		go func() { done <- canrunner.Run(ctx, n) }()
		// peer: send two frames for message 1, read what the node transmits
		peerTx := socketcan.NewTransmitter(c2)
		got := make(chan int, 1)
		go func() {
			rx := socketcan.NewReceiver(c2)
			k := 0
			for rx.Receive() {
				k++
			}
			got <- k
		}()
		for i := 0; i < 2; i++ {
			wctx, wc := context.WithTimeout(context.Background(), time.Second)
			_ = peerTx.TransmitFrame(wctx, can.Frame{ID: 1, Length: 8, Data: can.Data{byte(i + 1)}})
			wc()
		}
		var result error
		if a[0] == "cancel" || a[0] == "txreq" {
			if !waitFor(func() bool { return n.count("hook") >= 2 }) {
				return "TIMEOUT-frames-not-received"
			}
			rctx, rc := context.WithTimeout(context.Background(), 2*time.Second)
			terr := (&txReq{txm}).Transmit(rctx)
			rc()
			if terr != nil {
				return "request-not-accepted"
			}
			if !waitFor(func() bool { return n.count("acc:Frame") >= 1 }) {
				return "TIMEOUT-no-transmission"
			}
			time.Sleep(5 * time.Millisecond)
			cancel()
		}
		select {
		case result = <-done:
		case <-time.After(4 * time.Second):
			return "TIMEOUT-run-did-not-return"
		}
		// the connection must be closed: a write on the node's side fails
		closed := "conn-closed"
		_ = c1.SetWriteDeadline(time.Now().Add(50 * time.Millisecond))
		if _, err := c1.Write(make([]byte, 16)); err == nil {
			closed = "CONN-OPEN"
		}
		c2.Close()
		peerFrames := -1
		select {
		case peerFrames = <-got:
		case <-time.After(time.Second):
		}
		leak := "no-leak"
		if !waitFor(func() bool { return runtime.NumGoroutine() <= base+1 }) {
			leak = fmt.Sprintf("GOROUTINES-LEFT=%d", runtime.NumGoroutine()-base)
		}
		return fmt.Sprintf("%s %s %s %s peer-frames=%d rx-hooks=%d", errClass(result), closed, leak, viols(n), peerFrames, n.count("hook"))
	})
}

// rrun2 <k> <i>: canrunner.Run with k event messages; every request is accepted and reaches its write while the peer is
// not reading yet (net.Pipe writes block), so all k transmissions are in flight together; then the peer reads.
func execRrun2(a []string) string {
	return withTimeout(10*time.Second, func() string {
		k := int(U(a[0]))
		c1, c2 := net.Pipe()
		n := &fakeNode{rx: map[uint32]*fakeMsg{}, conn: c1}
		for i := 0; i < k; i++ {
			n.tx = append(n.tx, &fakeMsg{n: n, desc: &descriptor.Message{Name: fmt.Sprintf("Tx%d", i), ID: uint32(16 + i), SendType: descriptor.SendTypeEvent},
				state: uint64(i+1) * 0x0101010101010101, wake: make(chan struct{}, 1), event: make(chan struct{}), hookLocks: true})
		}
		ctx, cancel := context.WithCancel(context.Background())
		defer cancel()
		done := make(chan error, 1)
		go func() { done <- canrunner.Run(ctx, n) }()
		for i, m := range n.tx {
			rctx, rc := context.WithTimeout(context.Background(), 2*time.Second)
			terr := (&txReq{m}).Transmit(rctx)
			rc()
			if terr != nil {
				return "request-not-accepted"
			}
			if !waitFor(func() bool { return n.count("acc:Frame") >= i+1 }) {
				return "TIMEOUT-no-transmission"
			}
			time.Sleep(3 * time.Millisecond) // let it reach the blocking write
		}
		var got []string
		rx := socketcan.NewReceiver(c2)
		for i := 0; i < k; i++ {
			_ = c2.SetReadDeadline(time.Now().Add(2 * time.Second))
			if !rx.Receive() {
				break
			}
			f := rx.Frame()
			got = append(got, fmt.Sprintf("%d:%s", f.ID, HexS(f.Data[:])))
		}
		sortStrings(got)
		cancel()
		var result error
		select {
		case result = <-done:
		case <-time.After(4 * time.Second):
			return "TIMEOUT-run-did-not-return"
		}
		c2.Close()
		return fmt.Sprintf("%s %s frames=%s", errClass(result), viols(n), strings.Join(got, ","))
	})
}

func sortStrings(x []string) {
	for i := 1; i < len(x); i++ {
		for j := i; j > 0 && x[j] < x[j-1]; j-- {
			x[j], x[j-1] = x[j-1], x[j]
		}
	}
}

// gatedCloseConn delays Close until the gate is opened (a connection whose Close waits for in-flight I/O)
type gatedCloseConn struct {
	net.Conn
	gate chan struct{}
}

func (c *gatedCloseConn) Close() error {
	select {
	case <-c.gate:
	case <-time.After(3 * time.Second):
	}
	return c.Conn.Close()
}

// rrun3 <i>: the context is cancelled while a transmitter is inside its before-transmit hook (between leaving the
// select and calling TransmitFrame); Run must still return nil, close the connection and leave no goroutine behind.
func execRrun3(a []string) string {
	return withTimeout(10*time.Second, func() string {
		base := runtime.NumGoroutine()
		c1, c2 := net.Pipe()
		closeGate := make(chan struct{})
		n := &fakeNode{rx: map[uint32]*fakeMsg{}, conn: &gatedCloseConn{Conn: c1, gate: closeGate}}
		txm := &fakeMsg{n: n, desc: &descriptor.Message{Name: "TxMsg", ID: 7, SendType: descriptor.SendTypeEvent}, wake: make(chan struct{}, 1),
			event: make(chan struct{}), hookLocks: true, hookGate: make(chan struct{}), hookIn: make(chan struct{}, 1)}
		n.tx = []*fakeMsg{txm}
		ctx, cancel := context.WithCancel(context.Background())
		defer cancel()
		done := make(chan error, 1)
		go func() { done <- canrunner.Run(ctx, n) }()
		go func() { // the peer drains whatever is written
			rx := socketcan.NewReceiver(c2)
			for rx.Receive() {
			}
		}()
		rctx, rc := context.WithTimeout(context.Background(), 2*time.Second)
		terr := (&txReq{txm}).Transmit(rctx)
		rc()
		if terr != nil {
			return "request-not-accepted"
		}
		select {
		case <-txm.hookIn:
		case <-time.After(2 * time.Second):
			return "TIMEOUT-hook-not-entered"
		}
		cancel()
		time.Sleep(2 * time.Millisecond)
		close(txm.hookGate)
		// let the transmission that was under way finish before the connection is allowed to close
		waitFor(func() bool { return n.count("acc:Frame") >= 1 })
		time.Sleep(10 * time.Millisecond)
		close(closeGate)
		var result error
		select {
		case result = <-done:
		case <-time.After(4 * time.Second):
			return "TIMEOUT-run-did-not-return"
		}
		closed := "conn-closed"
		_ = c1.SetWriteDeadline(time.Now().Add(50 * time.Millisecond))
		if _, err := c1.Write(make([]byte, 16)); err == nil {
			closed = "CONN-OPEN"
		}
		c2.Close()
		leak := "no-leak"
		if !waitFor(func() bool { return runtime.NumGoroutine() <= base+1 }) {
			leak = fmt.Sprintf("GOROUTINES-LEFT=%d", runtime.NumGoroutine()-base)
		}
		return fmt.Sprintf("%s %s %s %s", errClass(result), closed, leak, viols(n))
	})
}

type txReq struct{ m *fakeMsg }

func (t *txReq) Transmit(ctx context.Context) error {
	select {
	case t.m.event <- struct{}{}:
		return nil
	case <-ctx.Done():
		return ctx.Err()
	}
}

func genC13(g *G) {
	ids := []string{"1", "2", "9"}
	for i := 0; i < g.N(60, 2000); i++ {
		n := g.R.Intn(7)
		var toks []string
		for k := 0; k < n; k++ {
			toks = append(toks, ids[g.R.Intn(3)])
		}
		s := strings.Join(toks, ",")
		if n == 0 {
			s = "-"
		}
		g.Emit("rrx %s", s)
	}
	evs := []string{"e", "w1", "w0", "e", "e"}
	for i := 0; i < g.N(40, 1500); i++ {
		n := 1 + g.R.Intn(6)
		var toks []string
		for k := 0; k < n; k++ {
			toks = append(toks, evs[g.R.Intn(len(evs))])
		}
		g.Emit("rtx %s", strings.Join(toks, ","))
	}
}

func genC14(g *G) {
	ids := []string{"1", "2", "9"}
	// receiver: order, unknown ids, faults at every position
	for i := 0; i < g.N(60, 2000); i++ {
		n := 1 + g.R.Intn(6)
		var toks []string
		faultAt := -1
		if g.R.Intn(2) == 0 {
			faultAt = g.R.Intn(n)
		}
		for k := 0; k < n; k++ {
			t := ids[g.R.Intn(3)]
			if k == faultAt && t != "9" {
				t += g.R.Pick("!U", "!H")
			}
			toks = append(toks, t)
		}
		line := "rrx " + strings.Join(toks, ",")
		if g.R.Intn(6) == 0 {
			line += " rxerr"
		}
		g.Emit("%s", line)
	}
	g.Emit("rrx -")
	g.Emit("rrx - rxerr")
	g.Emit("rtxslow 25 80")
	g.Emit("rtxslow 50 150")
	// transmitter: all event sequences up to length 3 over the alphabet, then sampled longer ones
	alpha := []string{"e", "w1", "w0", "c", "eH", "eT"}
	var rec func(prefix []string, depth int)
	rec = func(prefix []string, depth int) {
		if len(prefix) > 0 {
			g.Emit("rtx %s", strings.Join(prefix, ","))
		}
		if depth == 0 {
			return
		}
		last := ""
		if len(prefix) > 0 {
			last = prefix[len(prefix)-1]
		}
		if last == "c" || last == "eH" || last == "eT" {
			return
		}
		for _, a := range alpha {
			rec(append(append([]string{}, prefix...), a), depth-1)
		}
	}
	rec(nil, g.N(3, 4))
	for i := 0; i < g.N(20, 600); i++ {
		n := 4 + g.R.Intn(5)
		var toks []string
		for k := 0; k < n; k++ {
			toks = append(toks, []string{"e", "w1", "w0", "e"}[g.R.Intn(4)])
		}
		toks = append(toks, g.R.Pick("c", "eH", "eT", "e"))
		g.Emit("rtx %s", strings.Join(toks, ","))
	}
	for i := 0; i < g.N(2, 20); i++ {
		g.Emit("rcyc %d", i)
	}
	for i := 0; i < g.N(1, 6); i++ {
		for _, w := range []string{"hook", "tx"} {
			for _, d := range []string{"on", "off"} {
				g.Emit("rtog %s %s %d", w, d, i)
			}
		}
	}
	for k := 1; k <= 4; k++ {
		for i := 0; i < g.N(1, 8); i++ {
			g.Emit("rrun2 %d %d", k, i)
		}
	}
	for i := 0; i < g.N(3, 20); i++ {
		g.Emit("rrun3 %d", i)
	}
	for _, mode := range []string{"cancel", "hookerr", "hookerr-closed"} {
		for i := 0; i < g.N(2, 20); i++ {
			g.Emit("rrun %s %d", mode, i)
		}
	}
}

func init() {
	RegGen("C13", genC13)
	RegGen("C14", genC14)
	RegExec("rrx", execRrx)
	RegExec("rtx", execRtx)
	RegExec("rcyc", execRcyc)
	RegExec("rtog", execRtog)
	RegExec("rrun", execRrun)
	RegExec("rrun2", execRrun2)
	RegExec("rrun3", execRrun3)
	RegExec("rtxslow", execRtxSlow)
}
