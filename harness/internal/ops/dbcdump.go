package ops

import (
	"fmt"
	"math"
	"regexp"
	"strings"
	"text/scanner"

	"go.einride.tech/can/pkg/dbc"
)

func posStr(p scanner.Position) string { return fmt.Sprintf("%d:%d@%d", p.Line, p.Column, p.Offset) }
func hx(s string) string              { return HexS([]byte(s)) }
func f64Str(f float64) string         { return fmt.Sprintf("%016x", math.Float64bits(f)) }

func hxIdents(l []dbc.Identifier) string {
	if len(l) == 0 {
		return "-"
	}
	s := make([]string, len(l))
	for i, x := range l {
		s[i] = hx(string(x))
	}
	return strings.Join(s, ",")
}

func hxStrings(l []string) string {
	if len(l) == 0 {
		return "-"
	}
	s := make([]string, len(l))
	for i, x := range l {
		s[i] = hx(x)
	}
	return strings.Join(s, ",")
}

func objStr(o dbc.ObjectType) string {
	if o == dbc.ObjectTypeUnspecified {
		return "-"
	}
	return string(o)
}

func vdsStr(vds []dbc.ValueDescriptionDef) string {
	if len(vds) == 0 {
		return "-"
	}
	s := make([]string, len(vds))
	for i, v := range vds {
		s[i] = fmt.Sprintf("%s;%s;%s", posStr(v.Pos), f64Str(v.Value), hx(v.Description))
	}
	return strings.Join(s, ",")
}

func sigStr(s *dbc.SignalDef) string {
	mux := "-"
	if s.IsMultiplexerSwitch {
		mux = "M"
	} else if s.IsMultiplexed {
		mux = fmt.Sprintf("m%d", s.MultiplexerSwitch)
	}
	return fmt.Sprintf("SG_ %s %s %s %d %d %s %s %s %s %s %s %s %s", posStr(s.Pos), hx(string(s.Name)), mux, s.StartBit, s.Size,
		B(s.IsBigEndian), B(s.IsSigned), f64Str(s.Factor), f64Str(s.Offset), f64Str(s.Minimum), f64Str(s.Maximum), hx(s.Unit), hxIdents(s.Receivers))
}

// DefStr is the canonical one-line rendering of a definition (every field).
func DefStr(d dbc.Def) string {
	switch d := d.(type) {
	case *dbc.VersionDef:
		return fmt.Sprintf("VERSION %s %s", posStr(d.Pos), hx(d.Version))
	case *dbc.NewSymbolsDef:
		l := make([]string, len(d.Symbols))
		for i, x := range d.Symbols {
			l[i] = string(x)
		}
		return fmt.Sprintf("NS_ %s %s", posStr(d.Pos), hxStrings(l))
	case *dbc.BitTimingDef:
		return fmt.Sprintf("BS_ %s %d %d %d", posStr(d.Pos), d.BaudRate, d.BTR1, d.BTR2)
	case *dbc.NodesDef:
		return fmt.Sprintf("BU_ %s %s", posStr(d.Pos), hxIdents(d.NodeNames))
	case *dbc.ValueTableDef:
		return fmt.Sprintf("VAL_TABLE_ %s %s %s", posStr(d.Pos), hx(string(d.TableName)), vdsStr(d.ValueDescriptions))
	case *dbc.MessageDef:
		s := fmt.Sprintf("BO_ %s %d %s %d %s", posStr(d.Pos), uint32(d.MessageID), hx(string(d.Name)), d.Size, hx(string(d.Transmitter)))
		for i := range d.Signals {
			s += " $ " + sigStr(&d.Signals[i])
		}
		return s
	case *dbc.SignalDef:
		return sigStr(d)
	case *dbc.MessageTransmittersDef:
		return fmt.Sprintf("BO_TX_BU_ %s %d %s", posStr(d.Pos), uint32(d.MessageID), hxIdents(d.Transmitters))
	case *dbc.ValueDescriptionsDef:
		return fmt.Sprintf("VAL_ %s %s %d %s %s %s", posStr(d.Pos), objStr(d.ObjectType), uint32(d.MessageID), hx(string(d.SignalName)),
			hx(string(d.EnvironmentVariableName)), vdsStr(d.ValueDescriptions))
	case *dbc.EnvironmentVariableDef:
		return fmt.Sprintf("EV_ %s %s %d %s %s %s %s %d %s %s", posStr(d.Pos), hx(string(d.Name)), uint64(d.Type), f64Str(d.Minimum), f64Str(d.Maximum),
			hx(d.Unit), f64Str(d.InitialValue), d.ID, hx(string(d.AccessType)), hxIdents(d.AccessNodes))
	case *dbc.EnvironmentVariableDataDef:
		return fmt.Sprintf("ENVVAR_DATA_ %s %s %d", posStr(d.Pos), hx(string(d.EnvironmentVariableName)), d.DataSize)
	case *dbc.CommentDef:
		return fmt.Sprintf("CM_ %s %s %s %d %s %s %s", posStr(d.Pos), objStr(d.ObjectType), hx(string(d.NodeName)), uint32(d.MessageID),
			hx(string(d.SignalName)), hx(string(d.EnvironmentVariableName)), hx(d.Comment))
	case *dbc.AttributeDef:
		return fmt.Sprintf("BA_DEF_ %s %s %s %s %d %d %s %s %s", posStr(d.Pos), objStr(d.ObjectType), hx(string(d.Name)), string(d.Type),
			d.MinimumInt, d.MaximumInt, f64Str(d.MinimumFloat), f64Str(d.MaximumFloat), hxStrings(d.EnumValues))
	case *dbc.AttributeDefaultValueDef:
		return fmt.Sprintf("BA_DEF_DEF_ %s %s %d %s %s", posStr(d.Pos), hx(string(d.AttributeName)), d.DefaultIntValue, f64Str(d.DefaultFloatValue), hx(d.DefaultStringValue))
	case *dbc.AttributeValueForObjectDef:
		return fmt.Sprintf("BA_ %s %s %s %d %s %s %s %d %s %s", posStr(d.Pos), hx(string(d.AttributeName)), objStr(d.ObjectType), uint32(d.MessageID),
			hx(string(d.SignalName)), hx(string(d.NodeName)), hx(string(d.EnvironmentVariableName)), d.IntValue, f64Str(d.FloatValue), hx(d.StringValue))
	case *dbc.SignalValueTypeDef:
		return fmt.Sprintf("SIG_VALTYPE_ %s %d %s %d", posStr(d.Pos), uint32(d.MessageID), hx(string(d.SignalName)), uint64(d.SignalValueType))
	case *dbc.UnknownDef:
		return fmt.Sprintf("UNKNOWN %s %s", posStr(d.Pos), hx(string(d.Keyword)))
	}
	return fmt.Sprintf("?%T", d)
}

var reasonClasses = []struct {
	re    *regexp.Regexp
	class string
}{
	{regexp.MustCompile(`^expected token "$`), `expected token "`},
	{regexp.MustCompile(`^invalid identifier`), "invalid identifier"},
	{regexp.MustCompile(`^expected keyword`), "expected keyword"},
	{regexp.MustCompile(`^expected token:`), "expected token"},
	{regexp.MustCompile(`^invalid (extended|standard) ID`), "invalid message id"},
	{regexp.MustCompile(`^invalid object type`), "invalid object type"},
	{regexp.MustCompile(`^invalid signal value type`), "invalid signal value type"},
	{regexp.MustCompile(`^invalid environment variable type`), "invalid environment variable type"},
	{regexp.MustCompile(`^invalid attribute value type`), "invalid attribute value type"},
}

// ReasonClass canonicalises the dynamic parts of a parse error's reason.
func ReasonClass(r string) string {
	for _, c := range reasonClasses {
		if c.re.MatchString(r) {
			return c.class
		}
	}
	return r
}

// ParseDump parses data with the real parser and renders outcome, position, definitions and reason.
func ParseDump(data []byte) string {
	p := dbc.NewParser("f.dbc", data)
	err := p.Parse()
	var sb strings.Builder
	defs := p.Defs()
	reason := "-"
	if err == nil {
		fmt.Fprintf(&sb, "ok %d", len(defs))
	} else {
		fmt.Fprintf(&sb, "err %s %d", posStr(err.Position()), len(defs))
		reason = ReasonClass(err.Reason())
		if reason == "" {
			reason = "EMPTY-REASON"
		}
	}
	for _, d := range defs {
		sb.WriteString(" | ")
		sb.WriteString(DefStr(d))
	}
	sb.WriteString(" ;; ")
	sb.WriteString(reason)
	return sb.String()
}
