package ops

import (
	"encoding/json"
	"fmt"
	"strings"

	"go.einride.tech/can"
)

// zeroUnused clears the data bytes the text/JSON forms do not carry.
func zeroUnused(f can.Frame) can.Frame {
	if f.IsRemote {
		f.Data = can.Data{}
		return f
	}
	for i := int(f.Length); i < 8; i++ {
		if i >= 0 {
			f.Data[i] = 0
		}
	}
	return f
}

const hexLo = "0123456789abcdef"
const hexUp = "0123456789ABCDEF"

func randHex(g *G, n int, mode int) string {
	var sb strings.Builder
	for i := 0; i < n; i++ {
		d := g.R.Intn(16)
		switch {
		case mode == 0 || (mode == 2 && g.R.Bool()):
			sb.WriteByte(hexUp[d])
		default:
			sb.WriteByte(hexLo[d])
		}
	}
	return sb.String()
}

func patternString(g *G) string {
	mode := g.R.Intn(3)
	id := randHex(g, 3, mode)
	if g.R.Bool() {
		id = randHex(g, 8, mode)
	}
	switch g.R.Intn(4) {
	case 0:
		return id + "#R"
	case 1:
		return id + "#R" + fmt.Sprint(g.R.Intn(9))
	default:
		return id + "#" + randHex(g, 2*g.R.Intn(9), mode)
	}
}

func mutate(g *G, s string) string {
	b := []byte(s)
	alphabet := []byte("#R0123456789abcdefABCDEFgGxX+-_ .r\x00\xff\xc3\xa9")
	switch g.R.Intn(5) {
	case 0: // replace
		if len(b) > 0 {
			b[g.R.Intn(len(b))] = alphabet[g.R.Intn(len(alphabet))]
		}
	case 1: // insert
		i := g.R.Intn(len(b) + 1)
		b = append(b[:i], append([]byte{alphabet[g.R.Intn(len(alphabet))]}, b[i:]...)...)
	case 2: // delete
		if len(b) > 0 {
			i := g.R.Intn(len(b))
			b = append(b[:i], b[i+1:]...)
		}
	case 3: // truncate
		b = b[:g.R.Intn(len(b)+1)]
	default: // duplicate a piece
		if len(b) > 0 {
			i := g.R.Intn(len(b))
			b = append(b, b[i:]...)
		}
	}
	return string(b)
}

func genC15(g *G) {
	emitValidateBoundary(g)
	for _, f := range genFrames(g, true) {
		g.Emit("fstr %s", frameArgs(f))
		z := zeroUnused(f)
		g.Emit("frt %s", frameArgs(z))
		g.Tag("valid-frame")
	}
	for _, f := range genFrames(g, false)[:g.N(600, 6000)] {
		if !f.IsRemote && f.Length > 8 {
			continue // Frame.String panics on these (invalid frames only; note N1 in DESIGN.md)
		}
		g.Emit("fstr %s", frameArgs(f))
	}
	// remote frames with every length 0..255 (String prints the decimal length)
	for ln := 0; ln < 256; ln++ {
		g.Emit("fstr 1 %d 0000000000000000 1 0", ln)
		g.Emit("frt 1 %d 0000000000000000 1 1", ln)
	}
	fixed := []string{"", "#", "##", "123", "123#", "123#R", "123#R0", "123#R8", "123#R9", "123#R10", "123#R+", "123#R-", "123#r",
		"12#", "1234#", "12345678#", "123456789#", "+12#", "-12#", "0x1#", "1_2#", "12g#", "abc#", "ABC#", "fFf#Ab", "123#1", "123#12345",
		"123#0102030405060708", "123#010203040506070809", "123#0g", "123#R#", "#123", "123#R 1", " 123#", "123 #", "123#\x00\x00",
		"\xff\xff\xff#", "é1#", "FFFFFFFF#", "ffffffff#R8", "00000000#", "000#"}
	for _, s := range fixed {
		g.Emit("fparse %s", HexS([]byte(s)))
	}
	// over-long parts: every length at which a count kept in 8 or 16 bits would wrap into the accepted range
	for _, id := range []string{"123", "1234ABCD"} {
		for _, base := range []int{16, 256, 512, 768, 1024, 2048, 65536, 131072} {
			for d := -2; d <= 18; d++ {
				if n := base + d; n > 16 {
					g.Emit("fparse %s", HexS([]byte(id+"#"+strings.Repeat("A1", n/2)+strings.Repeat("7", n%2))))
				}
			}
		}
		for _, n := range []int{2, 3, 4, 9, 255, 256, 257, 260, 264} {
			g.Emit("fparse %s", HexS([]byte(id+"#R"+strings.Repeat("8", n))))
			g.Emit("fparse %s", HexS([]byte(strings.Repeat("1", n)+"#00")))
		}
	}
	g.Tag("over-long-parts")
	n := g.N(4000, 200000)
	for i := 0; i < n; i++ {
		s := patternString(g)
		g.Emit("fparse %s", HexS([]byte(s)))
		g.Tag("pattern-string")
		m := s
		for k := 0; k <= g.R.Intn(3); k++ {
			m = mutate(g, m)
		}
		g.Emit("fparse %s", HexS([]byte(m)))
		g.Tag("mutated-string")
	}
	for i := 0; i < n/4; i++ {
		b := make([]byte, g.R.Intn(24))
		for j := range b {
			if g.R.Intn(3) == 0 {
				b[j] = "#R0123456789abcdefABCDEF"[g.R.Intn(24)]
			} else {
				b[j] = byte(g.R.U64())
			}
		}
		g.Emit("fparse %s", HexS(b))
		g.Tag("random-bytes")
	}
}

func jsonMemberValues(g *G, name string) []string {
	common := []string{"null", "true", "false", "0", "1", "-1", "1.0", "1e1", "\"\"", "\"00\"", "[]", "{}", "[1]", "{\"a\":1}", "256", "255", "4294967295", "4294967296", "18446744073709551616", "0.5", "-0", "1E2", "\"zz\"", "\"0\"", "\"0102030405060708\"", "\"010203040506070809\"", "\"AbCd\"", "\"\\u0030\\u0031\"", "\"\\n\""}
	_ = name
	return common
}

func randomDoc(g *G) string {
	names := []string{"id", "data", "length", "extended", "remote"}
	var members []string
	for _, n := range names {
		if g.R.Intn(3) == 0 {
			continue
		}
		vals := jsonMemberValues(g, n)
		var v string
		if g.R.Intn(3) > 0 { // mostly right-typed
			switch n {
			case "id":
				v = fmt.Sprint(g.R.U64() >> uint(32+g.R.Intn(32)))
			case "data":
				v = "\"" + randHex(g, 2*g.R.Intn(10), g.R.Intn(3)) + "\""
			case "length":
				v = fmt.Sprint(g.R.Intn(10))
			default:
				v = g.R.Pick("true", "false")
			}
		} else {
			v = vals[g.R.Intn(len(vals))]
		}
		key := n
		switch g.R.Intn(8) {
		case 0:
			key = strings.ToUpper(n)
		case 1:
			key = strings.ToUpper(n[:1]) + n[1:]
		case 2:
			key = n + "x"
		case 3:
			key = "\\u00" + fmt.Sprintf("%02x", n[0]) + n[1:]
		}
		members = append(members, fmt.Sprintf("%s\"%s\"%s:%s%s", ws(g), key, ws(g), ws(g), v))
	}
	if g.R.Intn(4) == 0 && len(members) > 0 { // duplicate a member (last wins)
		members = append(members, members[g.R.Intn(len(members))])
	}
	if g.R.Intn(5) == 0 {
		members = append(members, "\"other\":{\"id\":[1,2,{\"x\":null}]}")
	}
	// shuffle
	for i := len(members) - 1; i > 0; i-- {
		j := g.R.Intn(i + 1)
		members[i], members[j] = members[j], members[i]
	}
	return ws(g) + "{" + strings.Join(members, ",") + ws(g) + "}" + ws(g)
}

func ws(g *G) string {
	switch g.R.Intn(6) {
	case 0:
		return " "
	case 1:
		return "\n\t"
	case 2:
		return "\r "
	}
	return ""
}

func genC16(g *G) {
	emitValidateBoundary(g)
	for _, f := range genFrames(g, true) {
		g.Emit("fjson %s", frameArgs(f))
		z := zeroUnused(f)
		g.Emit("jrt %s", frameArgs(z))
		g.Tag("valid-frame")
	}
	for _, f := range genFrames(g, false)[:g.N(600, 6000)] {
		if !f.IsRemote && f.Length > 8 {
			continue // Frame.JSON panics on these (invalid frames only)
		}
		g.Emit("fjson %s", frameArgs(f))
	}
	fixed := []string{"", "null", "{}", "[]", "1", "\"x\"", "true", "{\"id\":1}", "{\"id\":1,}", "{\"remote\":true}", "{\"remote\":true,\"length\":null}",
		"{\"remote\":true,\"length\":3}", "{\"remote\":false,\"length\":3,\"data\":\"0102\"}", "{\"remote\":true,\"length\":3,\"data\":\"0102\"}",
		"{\"id\":1,\"id\":2}", "{\"data\":\"00\",\"data\":null}", "{\"ID\":7}", "{\"Id\":7,\"iD\":8}", "{\"id\":01}", "{\"id\":1} x", "{\"id\":1}{}",
		"{\"data\":\"0\"}", "{\"data\":\"0g\"}", "{\"data\":\"010203040506070809\"}", "{\"extended\":1}", "{\"extended\":\"true\"}",
		"{\"id\":-1}", "{\"id\":1.5}", "{\"id\":4294967296}", "{\"length\":256,\"remote\":true}", "{\"length\":255,\"remote\":true}",
		"{\"id\" 1}", "{id:1}", "{'id':1}", "{\"id\":1,\"data\":\"\\u0041\\u0042\"}", "{\"id\":1,\"data\":\"\\ud83d\\ude00\"}", "{\"id\":1,\"data\":\"\\ud83d\"}",
		"{\"id\":1,\"x\":\"\x01\"}", "{\"id\":1,\"x\":\"\\x\"}", "\t{\"id\":1}\n", "{\"id\":1e0}", "{\"id\":1E+0}", "{\"id\":null}", "[{\"id\":1}]",
		"{\"id\":1,\"data\":null,\"length\":null,\"extended\":null,\"remote\":null}", "{\"\":1}", "{\"id\":1,\"nested\":{\"a\":[1,2,{\"b\":\"c\"}],\"d\":-0.5e-3}}", "nul", "tru", "{\"id\":1,\"x\":-}", "{\"id\":1,\"x\":1.}", "{\"id\":1,\"x\":.5}", "{\"id\":1,\"x\":1e}"}
	for _, s := range fixed {
		g.Emit("junm %s", HexS([]byte(s)))
	}
	// over-long members: every data length (in bytes) around 8, 256, 512, 65536, and lengths / ids around the
	// integer type boundaries
	for _, base := range []int{8, 256, 512, 768, 1024, 65536} {
		for d := -1; d <= 9; d++ {
			if n := base + d; n > 8 {
				g.Emit("junm %s", HexS([]byte("{\"id\":1,\"data\":\""+strings.Repeat("a1", n)+"\"}")))
				g.Emit("junm %s", HexS([]byte("{\"id\":1,\"extended\":true,\"data\":\""+strings.Repeat("0f", n)+"\"}")))
			}
		}
	}
	for _, v := range []string{"255", "256", "257", "264", "65536", "65544", "4294967296", "4294967304", "18446744073709551616", "-1", "-248", "8.0", "8e0", "1e1"} {
		g.Emit("junm %s", HexS([]byte("{\"id\":1,\"remote\":true,\"length\":"+v+"}")))
		g.Emit("junm %s", HexS([]byte("{\"id\":"+v+"}")))
		g.Emit("junm %s", HexS([]byte("{\"extended\":true,\"id\":"+v+"}")))
	}
	g.Tag("over-long-members")
	n := g.N(5000, 250000)
	for i := 0; i < n; i++ {
		d := randomDoc(g)
		g.Emit("junm %s", HexS([]byte(d)))
		g.Tag("structured-doc")
		if g.R.Intn(3) == 0 {
			m := []byte(d)
			if len(m) > 0 {
				switch g.R.Intn(3) {
				case 0:
					m[g.R.Intn(len(m))] = "{}[]\":,0a \\u-"[g.R.Intn(13)]
				case 1:
					m = m[:g.R.Intn(len(m))]
				default:
					j := g.R.Intn(len(m))
					m = append(m[:j], m[j+1:]...)
				}
			}
			g.Emit("junm %s", HexS(m))
			g.Tag("mutated-doc")
		}
	}
}

// frames a destination may already hold
var dirtyFrames = []can.Frame{
	{ID: 0x1abcdef, Length: 8, Data: can.Data{0xff, 0xfe, 0xfd, 0xfc, 0xfb, 0xfa, 0xf9, 0xf8}, IsExtended: true},
	{ID: 0x7ff, Length: 5, Data: can.Data{}, IsRemote: true},
}

func init() {
	RegGen("C15", genC15)
	RegGen("C16", genC16)
	RegExec("fstr", func(a []string) string { return HexS([]byte(frameOfArgs(a).String())) })
	RegExec("fparse", func(a []string) string {
		sentinel := can.Frame{ID: 0x1abcdef, Length: 7, Data: can.Data{1, 2, 3, 4, 5, 6, 7, 8}, IsRemote: true, IsExtended: true}
		f := sentinel
		if err := f.UnmarshalString(string(Hex(a[0]))); err != nil {
			if f != sentinel {
				return "err-modified"
			}
			return "err"
		}
		return "ok " + frameStr(f)
	})
	RegExec("frt", func(a []string) string {
		f := frameOfArgs(a)
		var out can.Frame
		if err := out.UnmarshalString(f.String()); err != nil {
			return "err"
		}
		return "ok " + frameStr(out)
	})
	RegExec("fjson", func(a []string) string {
		f := frameOfArgs(a)
		s := f.JSON()
		b, err := json.Marshal(f) // goes through MarshalJSON; encoding/json validates and compacts the output
		v := " valid"
		if !json.Valid([]byte(s)) || err != nil || string(b) != s {
			v = " invalid"
		}
		return HexS([]byte(s)) + v
	})
	RegExec("junm", func(a []string) string {
		var f can.Frame
		err := f.UnmarshalJSON(Hex(a[0]))
		// the same document into destinations that already hold a frame (a reused variable, a decoder loop)
		for _, prior := range dirtyFrames {
			g := prior
			err2 := g.UnmarshalJSON(Hex(a[0]))
			if (err == nil) != (err2 == nil) {
				return "destination-dependent-outcome"
			}
			if err == nil && g != f {
				return "ok " + frameStr(f) + " but-into-used-destination " + frameStr(g)
			}
		}
		if err != nil {
			return "err"
		}
		return "ok " + frameStr(f)
	})
	RegExec("jrt", func(a []string) string {
		f := frameOfArgs(a)
		var direct can.Frame
		if err := direct.UnmarshalJSON([]byte(f.JSON())); err != nil {
			return "err"
		}
		// inside larger documents through encoding/json
		type wrap struct {
			A int                  `json:"a"`
			F can.Frame            `json:"f"`
			L []can.Frame          `json:"l"`
			M map[string]can.Frame `json:"m"`
			P *can.Frame           `json:"p"`
		}
		w := wrap{A: 1, F: f, L: []can.Frame{f, f}, M: map[string]can.Frame{"k": f}, P: &f}
		b, err := json.Marshal(w)
		if err != nil {
			return "err-marshal"
		}
		// decoder loop over a stream, one destination variable reused; and pre-filled destinations
		dec := json.NewDecoder(strings.NewReader(dirtyFrames[0].JSON() + " " + f.JSON() + "\n" + dirtyFrames[1].JSON() + f.JSON()))
		var reused can.Frame
		for k := 0; k < 4; k++ {
			if err := dec.Decode(&reused); err != nil {
				return "err-stream"
			}
			if k%2 == 1 && reused != direct {
				return "stream-mismatch " + frameStr(reused)
			}
		}
		back := wrap{F: dirtyFrames[0], L: []can.Frame{dirtyFrames[1], dirtyFrames[0], dirtyFrames[1]}, P: &can.Frame{ID: 5, Length: 8, Data: can.Data{9, 9, 9, 9, 9, 9, 9, 9}}}
		if err := json.Unmarshal(b, &back); err != nil {
			return "err-unmarshal-nested"
		}
		if back.F != direct || len(back.L) != 2 || back.L[0] != direct || back.L[1] != direct || back.M["k"] != direct || back.P == nil || *back.P != direct {
			return "nested-mismatch"
		}
		return "ok " + frameStr(direct)
	})
}
