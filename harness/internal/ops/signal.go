package ops

import (
	"fmt"
	"math"
	"strings"

	"go.einride.tech/can/pkg/descriptor"
)

func sigOf(ord, s, l string, signed bool) *descriptor.Signal {
	return &descriptor.Signal{Name: "S", Start: U8(s), Length: U8(l), IsBigEndian: ord == "BE", IsSigned: signed}
}

func genC08(g *G) {
	geos := Geometries()
	g.Hist["geometries"] = len(geos)
	// the same (start, length) in the two byte orders back to back, reads and writes: a result must not depend on the
	// call before (state kept between calls)
	for s0 := 0; s0 < 64; s0++ {
		for l := 1; l <= 64; l++ {
			if !FitsLE(s0, l) || !FitsBE(s0, l) {
				continue
			}
			p, v := g.R.U64(), g.R.U64()&maskN(l)
			for _, ord := range []string{"LE", "BE", "LE"} {
				g.Emit("sgu %s %d %d %s", ord, s0, l, dataHex(p))
				g.Emit("sgs %s %d %d %s", ord, s0, l, dataHex(p))
				g.Emit("smu %s %d %d %s %d", ord, s0, l, dataHex(p), v)
			}
		}
	}
	g.Tag("interleaved-orders")
	nr := g.N(2, 32)
	for _, ge := range geos {
		m := maskN(ge.L)
		ps := []uint64{0, ^uint64(0), 1 << uint(g.R.Intn(64)), ^(uint64(1) << uint(g.R.Intn(64)))}
		for i := 0; i < nr; i++ {
			ps = append(ps, g.R.U64())
		}
		for _, p := range ps {
			g.Emit("sgu %s %d %d %s", ge.Ord(), ge.S, ge.L, dataHex(p))
			g.Emit("sgs %s %d %d %s", ge.Ord(), ge.S, ge.L, dataHex(p))
			g.Emit("smu %s %d %d %s %d", ge.Ord(), ge.S, ge.L, dataHex(p), g.R.U64()&m)
			g.Emit("smu %s %d %d %s %d", ge.Ord(), ge.S, ge.L, dataHex(p), m)
			g.Emit("sms %s %d %d %s %d", ge.Ord(), ge.S, ge.L, dataHex(p), int64(g.R.U64())>>uint(g.R.Intn(64)))
			g.Emit("sms %s %d %d %s %d", ge.Ord(), ge.S, ge.L, dataHex(p), -int64(m>>1)-1)
			for _, sg := range []int{0, 1} {
				g.Emit("sgp %s %d %d %d %s", ge.Ord(), ge.S, ge.L, sg, dataHex(p))
			}
			if ge.L == 32 {
				g.Emit("sgf %s %d %s", ge.Ord(), ge.S, dataHex(p))
				for _, f := range floatPatterns(g.R) {
					g.Emit("smf %s %d %s %d", ge.Ord(), ge.S, dataHex(p), f)
				}
				g.Tag("float32-geometry")
			}
		}
		// value-description lookup: descriptions on the value actually carried (as the reference read gives it), its
		// neighbours, zero and the extremes, for both signs
		for i := 0; i < 2; i++ {
			p := ps[g.R.Intn(len(ps))]
			if i == 0 {
				p |= refMSBMask(ge) // the most significant value bit set: unsigned 64-bit values wrap to negative int64
			}
			u := refRead(ge, p)
			sv := int64(u)
			if ge.L < 64 && u>>(uint(ge.L)-1)&1 == 1 {
				sv = int64(u) - int64(1)<<uint(ge.L)
			}
			g.Emit("sgv %s %d %d 0 %s %d,%d,0,%d,%d", ge.Ord(), ge.S, ge.L, dataHex(p), int64(u), int64(u)+1, sv, int64(math.MaxInt64))
			g.Emit("sgv %s %d %d 1 %s %d,%d,0,%d,%d", ge.Ord(), ge.S, ge.L, dataHex(p), sv, sv-1, int64(u), int64(math.MinInt64))
			g.Emit("sgv %s %d %d %d %s 0", ge.Ord(), ge.S, ge.L, i, dataHex(p))
		}
		g.Tag("geo-" + ge.Ord())
	}
	for s := 0; s < 256; s++ {
		for _, p := range []uint64{0, ^uint64(0), g.R.U64(), 1 << uint(s%64), ^(uint64(1) << uint(s%64))} {
			g.Emit("sgb %d %s", s, dataHex(p))
			g.Emit("smb %d %s 0", s, dataHex(p))
			g.Emit("smb %d %s 1", s, dataHex(p))
		}
	}
	for l := 1; l <= 64; l++ {
		g.Emit("bnd %d", l)
		m := maskN(l)
		half := int64(m >> 1)
		xs := []int64{0, 1, -1, half, half + 1, half - 1, -half - 1, -half - 2, -half, math.MinInt64, math.MaxInt64, math.MinInt64 + 1, math.MaxInt64 - 1}
		n := g.N(8, 200)
		for i := 0; i < n; i++ {
			xs = append(xs, int64(g.R.U64())>>uint(g.R.Intn(64)))
		}
		for _, x := range xs {
			g.Emit("sats %d %d", l, x)
		}
		vs := []uint64{0, 1, m, m - 1, m + 1, m >> 1, math.MaxUint64, math.MaxUint64 - 1, 1 << 63}
		for i := 0; i < n; i++ {
			vs = append(vs, g.R.U64()>>uint(g.R.Intn(64)))
		}
		for _, v := range vs {
			g.Emit("satu %d %d", l, v)
		}
	}
}

// floatPatterns: binary32 patterns of every exponent class (no signalling NaNs: their quiet bit is
// set by the hardware float32->float64 conversion, which is outside the property).
func floatPatterns(r *Rng) []uint32 {
	out := []uint32{0, 0x80000000, 0x3f800000, 0xbf800000, 1, 0x007fffff, 0x00800000, 0x7f7fffff, 0xff7fffff, 0x7f800000, 0xff800000, 0x7fc00000}
	for i := 0; i < 6; i++ {
		v := uint32(r.U64())
		if v&0x7f800000 == 0x7f800000 && v&0x007fffff != 0 {
			v |= 0x00400000
		}
		out = append(out, v)
	}
	return out
}

func init() {
	RegGen("C08", genC08)
	RegExec("sgu", func(a []string) string {
		return fmt.Sprint(sigOf(a[0], a[1], a[2], false).UnmarshalUnsigned(parseData(a[3])))
	})
	RegExec("sgs", func(a []string) string {
		return fmt.Sprint(sigOf(a[0], a[1], a[2], true).UnmarshalSigned(parseData(a[3])))
	})
	RegExec("sgp", func(a []string) string {
		s := sigOf(a[0], a[1], a[2], a[3] == "1")
		s.Scale = 1
		f := s.UnmarshalPhysical(parseData(a[4]))
		if math.IsNaN(f) {
			return "nan"
		}
		return fmt.Sprintf("%016x", math.Float64bits(f))
	})
	RegExec("sgv", func(a []string) string {
		s := sigOf(a[0], a[1], a[2], a[3] == "1")
		for i, v := range strings.Split(a[5], ",") {
			s.ValueDescriptions = append(s.ValueDescriptions, &descriptor.ValueDescription{Value: I(v), Description: fmt.Sprint(i)})
		}
		d, ok := s.UnmarshalValueDescription(parseData(a[4]))
		if !ok {
			return "none"
		}
		return "d" + d
	})
	RegExec("sgb", func(a []string) string {
		return B(sigOf("LE", a[0], "1", false).UnmarshalBool(parseData(a[1])))
	})
	RegExec("sgf", func(a []string) string {
		s := sigOf(a[0], a[1], "32", false)
		s.IsFloat = true
		f := s.UnmarshalFloat(parseData(a[2]))
		if math.IsNaN(f) {
			return "nan" // NaN payloads are not compared (the hardware conversion quiets signalling NaNs)
		}
		return fmt.Sprint(math.Float32bits(float32(f)))
	})
	RegExec("smu", func(a []string) string {
		d := parseData(a[3])
		sigOf(a[0], a[1], a[2], false).MarshalUnsigned(&d, U(a[4]))
		return HexS(d[:])
	})
	RegExec("sms", func(a []string) string {
		d := parseData(a[3])
		sigOf(a[0], a[1], a[2], true).MarshalSigned(&d, I(a[4]))
		return HexS(d[:])
	})
	RegExec("smb", func(a []string) string {
		d := parseData(a[1])
		sigOf("LE", a[0], "1", false).MarshalBool(&d, a[2] != "0")
		return HexS(d[:])
	})
	RegExec("smf", func(a []string) string {
		d := parseData(a[2])
		s := sigOf(a[0], a[1], "32", false)
		s.IsFloat = true
		s.MarshalFloat(&d, float64(math.Float32frombits(uint32(U(a[3])))))
		return HexS(d[:])
	})
	RegExec("bnd", func(a []string) string {
		s := &descriptor.Signal{Length: U8(a[0])}
		return fmt.Sprintf("%d %d %d", s.MaxUnsigned(), s.MinSigned(), s.MaxSigned())
	})
	RegExec("sats", func(a []string) string {
		s := &descriptor.Signal{Length: U8(a[0]), IsSigned: true}
		return fmt.Sprint(s.SaturatedCastSigned(I(a[1])))
	})
	RegExec("satu", func(a []string) string {
		s := &descriptor.Signal{Length: U8(a[0])}
		return fmt.Sprint(s.SaturatedCastUnsigned(U(a[1])))
	})
}

// refRead: the documented numbering, bit by bit (independent of data.go)
func refRead(ge Geo, p uint64) uint64 {
	var v uint64
	for i := 0; i < ge.L; i++ {
		var pos int
		if ge.BE {
			pos = BePos(ge.S, ge.L-1-i)
		} else {
			pos = ge.S + i
		}
		if p>>uint(pos)&1 == 1 {
			v |= 1 << uint(i)
		}
	}
	return v
}

// refMSBMask: payload (as the uint64 the ops lines carry) with the range's most significant value bit set
func refMSBMask(ge Geo) uint64 {
	for b := 0; b < 64; b++ {
		m := uint64(1) << uint(b)
		if refRead(ge, m)>>(uint(ge.L)-1)&1 == 1 {
			return m
		}
	}
	return 0
}
