package ops

import (
	"go.einride.tech/can/internal/clock"
)

func nil2clock() clock.Clock { return clock.System() }
