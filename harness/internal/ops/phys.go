package ops

import (
	"fmt"
	"math"
	"strconv"

	"go.einride.tech/can/pkg/descriptor"
)

func fb(f float64) string { return fmt.Sprintf("%016x", math.Float64bits(f)) }
func fOut(f float64) string {
	if math.IsNaN(f) {
		return "nan"
	}
	return fb(f)
}
func fIn(s string) float64 {
	v, err := strconv.ParseUint(s, 16, 64)
	if err != nil {
		panic("bad f64 " + s)
	}
	return math.Float64frombits(v)
}

func physSig(a []string) *descriptor.Signal {
	return &descriptor.Signal{Length: U8(a[0]), IsSigned: a[1] == "1", Scale: fIn(a[2]), Offset: fIn(a[3]), Min: fIn(a[4]), Max: fIn(a[5])}
}

func specialFloats(g *G) []float64 {
	out := []float64{0, math.Copysign(0, -1), 1, -1, 0.5, 2, 1e-6, 1e6, math.Inf(1), math.Inf(-1), math.SmallestNonzeroFloat64, -math.SmallestNonzeroFloat64,
		math.MaxFloat64, -math.MaxFloat64, 1e308, -1e308, 4.9e-324, 2.2250738585072014e-308, 9007199254740992, 9007199254740993, 1e-300, 0.1, 0.3, 1.0 / 3,
		9.223372036854775807e18, 9.223372036854775808e18, 1.8446744073709552e19, 4294967295, 4294967296, 2147483647.5, -2147483648.5, 255.9, -128.9, 65535.999}
	for i := 0; i < 6; i++ {
		out = append(out, math.Float64frombits(g.R.U64()&0x7fefffffffffffff|g.R.U64()&(1<<63)))
	}
	return out
}

func randFloat(g *G) float64 {
	switch g.R.Intn(6) {
	case 0:
		return float64(int64(g.R.U64()) >> uint(g.R.Intn(64)))
	case 1:
		return math.Float64frombits(g.R.U64()&0x7fefffffffffffff | g.R.U64()&(1<<63))
	case 2:
		return float64(g.R.Intn(2000)-1000) / float64(1+g.R.Intn(1000))
	case 3:
		return math.Ldexp(float64(g.R.U64()>>11), g.R.Intn(200)-150)
	default:
		s := specialFloats(g)
		return s[g.R.Intn(len(s))]
	}
}

func genC09(g *G) {
	// software floats against the hardware (correspondence only)
	sp := specialFloats(g)
	for _, a := range sp {
		for _, b := range sp {
			for _, op := range []string{"mul", "add", "sub", "div", "max", "min"} {
				g.Emit("f64op %s %s %s", op, fb(a), fb(b))
			}
		}
		for _, op := range []string{"i64", "u64", "f32"} {
			g.Emit("f64cvt %s %s", op, fb(a))
		}
	}
	n := g.N(3000, 200000)
	for i := 0; i < n; i++ {
		a, b := randFloat(g), randFloat(g)
		g.Emit("f64op %s %s %s", g.R.Pick("mul", "add", "sub", "div", "max", "min"), fb(a), fb(b))
		g.Emit("f64cvt %s %s", g.R.Pick("i64", "u64", "f32"), fb(a))
		g.Emit("f64cvt %s %016x", g.R.Pick("ofi", "ofu"), g.R.U64()>>uint(g.R.Intn(64)))
		g.Emit("f64cvt of32 %016x", g.R.U64()&0xffffffff)
	}
	// physical conversions
	var scales []float64
	for k := -6; k <= 6; k++ {
		scales = append(scales, math.Pow(10, float64(k)), -math.Pow(10, float64(k)), math.Ldexp(1, k), -math.Ldexp(1, k))
	}
	scales = append(scales, 0.1, 0.3, 1.0/3, 2.5, 1)
	offsets := []float64{0, 1, -40, 0.5, 1e6, -273.15, 100}
	nsig := g.N(300, 6000)
	exhaustiveBudget := 60 // signals of at most 16 bits whose raw values are enumerated completely (thorough tier)
	// decision grid, the same on every run: identity / negative / fractional factors x zero / non-zero offsets x
	// no range / two-sided / one-sided ranges x sign x two lengths (the conversions branch on exactly these)
	type gridSpec struct {
		L       int
		signed  bool
		sc, off float64
		mn, mx  float64
	}
	var grid []gridSpec
	for _, L := range []int{8, 12} {
		for _, signed := range []bool{false, true} {
			for _, sc := range []float64{1, -1, 2, 0.5, -0.01} {
				for _, off := range []float64{0, 5, -40} {
					for _, rg := range [][2]float64{{0, 0}, {10, 100}, {-1e9, 5}, {0, 1000}, {-20, -3}} {
						grid = append(grid, gridSpec{L, signed, sc, off, rg[0], rg[1]})
					}
				}
			}
		}
	}
	if nsig < len(grid)+60 {
		nsig = len(grid) + 60
	}
	for i := 0; i < nsig; i++ {
		L := 1 + g.R.Intn(52)
		if g.R.Intn(3) == 0 {
			L = 2 + g.R.Intn(15)
		}
		signed := g.R.Bool()
		sc := scales[g.R.Intn(len(scales))]
		off := offsets[g.R.Intn(len(offsets))]
		var mn, mx float64
		switch g.R.Intn(4) {
		case 0: // no range
		case 1:
			mn, mx = -100, 250.5
		case 2:
			mn, mx = 0, 1000 // one-sided in effect
		default:
			mn, mx = -1e9, 5
		}
		if i < len(grid) {
			gs := grid[i]
			L, signed, sc, off, mn, mx = gs.L, gs.signed, gs.sc, gs.off, gs.mn, gs.mx
			g.Tag("decision-grid")
		}
		spec := fmt.Sprintf("%d %s %s %s %s %s", L, B(signed), fb(sc), fb(off), fb(mn), fb(mx))
		g.Tag(fmt.Sprintf("len-class-%d", (L+7)/8))
		lo, hi := int64(0), int64(1)<<uint(L)-1
		if signed {
			lo, hi = -(int64(1) << uint(L-1)), int64(1)<<uint(L-1)-1
		}
		raws := []int64{0, 1, -1, lo, hi, lo + 1, hi - 1, (lo + hi) / 2}
		exhaustiveBudget--
		if L <= 16 && g.Thorough() && exhaustiveBudget > 0 {
			raws = raws[:0]
			for v := lo; v <= hi; v++ {
				raws = append(raws, v)
			}
		} else {
			for k := 0; k < 8; k++ {
				raws = append(raws, lo+int64(g.R.U64()%uint64(hi-lo+1)))
			}
		}
		for _, r := range raws {
			if r < lo || r > hi {
				continue
			}
			g.Emit("tophys %s %d", spec, r)
			g.Emit("physrt %s %d", spec, r)
		}
		ps := append([]float64{}, sp...)
		edge := func(x float64) { ps = append(ps, x, math.Nextafter(x, math.Inf(1)), math.Nextafter(x, math.Inf(-1))) }
		edge(mn)
		edge(mx)
		edge(float64(lo)*sc + off)
		edge(float64(hi)*sc + off)
		for k := 0; k < 10; k++ {
			ps = append(ps, randFloat(g), (float64(lo)+float64(hi-lo)*float64(g.R.Intn(1000))/1000)*sc+off)
		}
		for _, p := range ps {
			if math.IsNaN(p) {
				continue
			}
			g.Emit("fromphys %s %s", spec, fb(p))
		}
		for k := 0; k < 12; k++ {
			p, q := ps[g.R.Intn(len(ps))], ps[g.R.Intn(len(ps))]
			if math.IsNaN(p) || math.IsNaN(q) {
				continue
			}
			if p > q {
				p, q = q, p
			}
			g.Emit("physmono %s %s %s", spec, fb(p), fb(q))
		}
		g.Emit("unmphys %s %d %s %016x", g.R.Pick("LE", "BE"), 7, spec, g.R.U64())
	}
}

func init() {
	RegGen("C09", genC09)
	RegExec("f64op", func(a []string) string {
		x, y := fIn(a[1]), fIn(a[2])
		var r float64
		switch a[0] {
		case "mul":
			r = x * y
		case "add":
			r = x + y
		case "sub":
			r = x - y
		case "div":
			r = x / y
		case "max":
			r = math.Max(x, y)
		case "min":
			r = math.Min(x, y)
		}
		return fOut(r)
	})
	RegExec("f64cvt", func(a []string) string {
		v, _ := strconv.ParseUint(a[1], 16, 64)
		x := math.Float64frombits(v)
		switch a[0] {
		case "i64":
			return fmt.Sprint(int64(x))
		case "u64":
			return fmt.Sprint(uint64(x))
		case "f32":
			return fmt.Sprint(math.Float32bits(float32(x)))
		case "ofi":
			return fOut(float64(int64(v)))
		case "ofu":
			return fOut(float64(v))
		case "of32":
			return fOut(float64(math.Float32frombits(uint32(v))))
		}
		return "bad-op"
	})
	RegExec("tophys", func(a []string) string { return fOut(physSig(a).ToPhysical(float64(I(a[6])))) })
	RegExec("fromphys", func(a []string) string {
		s := physSig(a)
		r := s.FromPhysical(fIn(a[6]))
		enc := false
		if !math.IsNaN(r) {
			if s.IsSigned {
				enc = r >= float64(s.MinSigned()) && r <= float64(s.MaxSigned()) && int64(r) >= s.MinSigned() && int64(r) <= s.MaxSigned()
			} else {
				enc = r >= 0 && r <= float64(s.MaxUnsigned()) && uint64(r) <= s.MaxUnsigned()
			}
		}
		return fOut(r) + " enc=" + B(enc)
	})
	RegExec("physmono", func(a []string) string {
		s := physSig(a)
		p, q := fIn(a[6]), fIn(a[7])
		rp, rq := s.FromPhysical(p), s.FromPhysical(q)
		ok := (s.Scale > 0 && rp <= rq) || (s.Scale < 0 && rq <= rp)
		return fOut(rp) + " " + fOut(rq) + " mono=" + B(ok)
	})
	RegExec("physrt", func(a []string) string {
		// raw -> physical -> raw and physical -> raw -> physical errors, reported as classes
		s := physSig(a)
		r := I(a[6])
		p := s.ToPhysical(float64(r))
		back := s.FromPhysical(p)
		var bi int64
		if s.IsSigned {
			bi = int64(back)
		} else {
			bi = int64(uint64(back))
		}
		d := bi - r
		if d < 0 {
			d = -d
		}
		p2 := s.ToPhysical(float64(bi))
		return fmt.Sprintf("%s %d %s", fOut(p), bi, fOut(p2))
	})
	RegExec("unmphys", func(a []string) string {
		s := physSig(a[2:])
		s.IsBigEndian = a[0] == "BE"
		s.Start = U8(a[1])
		return fOut(s.UnmarshalPhysical(parseData(a[8])))
	})
}
