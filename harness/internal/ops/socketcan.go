package ops

import (
	"context"
	"errors"
	"fmt"
	"io"
	"net"
	"strings"
	"time"

	"go.einride.tech/can"
	"go.einride.tech/can/pkg/socketcan"
	"golang.org/x/sys/unix"
)

// recConn is a net.Conn that records writes and can fail them.
type recConn struct {
	writes [][]byte
	fail   bool
	failAt map[int]bool // per-write failures (index of the write)
	mode   map[int]int  // how a failing write reports: 0 = (0, err), 2 = (len, err), 3 = (len/2, err)
	fmode  int
}

func (c *recConn) Read([]byte) (int, error) { return 0, io.EOF }
func (c *recConn) Write(b []byte) (int, error) {
	c.writes = append(c.writes, append([]byte(nil), b...))
	if c.fail || c.failAt[len(c.writes)-1] {
		m := c.fmode
		if c.mode != nil {
			m = c.mode[len(c.writes)-1]
		}
		switch m {
		case 2:
			return len(b), errors.New("write failed")
		case 3:
			return len(b) / 2, errors.New("write failed")
		}
		return 0, errors.New("write failed")
	}
	return len(b), nil
}
func (c *recConn) Close() error                     { return nil }
func (c *recConn) LocalAddr() net.Addr              { return nil }
func (c *recConn) RemoteAddr() net.Addr             { return nil }
func (c *recConn) SetDeadline(time.Time) error      { return nil }
func (c *recConn) SetReadDeadline(time.Time) error  { return nil }
func (c *recConn) SetWriteDeadline(time.Time) error { return nil }

type scriptRead struct {
	b   []byte
	err error
}

// scriptReader returns the scripted reads in order; when exhausted it returns io.EOF.
type scriptReader struct {
	reads []scriptRead
	after int // number of Read calls after the first error was returned
	erred bool
}

func (r *scriptReader) Read(p []byte) (int, error) {
	if r.erred {
		r.after++
	}
	if len(r.reads) == 0 {
		r.erred = true
		return 0, io.EOF
	}
	cur := &r.reads[0]
	n := copy(p, cur.b)
	if n < len(cur.b) {
		cur.b = cur.b[n:]
		return n, nil
	}
	err := cur.err
	r.reads = r.reads[1:]
	if err != nil {
		r.erred = true
	}
	return n, err
}
func (r *scriptReader) Close() error { return nil }

type codeErr int

func (e codeErr) Error() string { return fmt.Sprintf("E%d", int(e)) }

func frameOfArgs(a []string) can.Frame {
	return can.Frame{ID: uint32(U(a[0])), Length: U8(a[1]), Data: parseData(a[2]), IsRemote: a[3] == "1", IsExtended: a[4] == "1"}
}

func frameStr(f can.Frame) string {
	return fmt.Sprintf("%d %d %s %s %s", f.ID, f.Length, HexS(f.Data[:]), B(f.IsRemote), B(f.IsExtended))
}

func frameArgs(f can.Frame) string { return frameStr(f) }

func genFrames(g *G, valid bool) []can.Frame {
	var out []can.Frame
	add := func(id uint32, ext bool) {
		ln := uint8(g.R.Intn(9))
		if !valid && g.R.Intn(4) == 0 {
			ln = uint8(9 + g.R.Intn(247))
		}
		var d can.Data
		switch g.R.Intn(4) {
		case 0:
		case 1:
			d.UnpackLittleEndian(^uint64(0))
		case 2:
			d.UnpackLittleEndian(1 << uint(g.R.Intn(64)))
		default:
			d.UnpackLittleEndian(g.R.U64())
		}
		out = append(out, can.Frame{ID: id, Length: ln, Data: d, IsRemote: g.R.Intn(3) == 0, IsExtended: ext})
	}
	for id := uint32(0); id < 1<<11; id++ {
		add(id, false)
	}
	ext := []uint32{0, 1, 0x7ff, 0x800, 0x1fffffff, 0x1ffffffe}
	for i := 0; i < 29; i++ {
		ext = append(ext, 1<<uint(i))
	}
	n := g.N(200, 20000)
	for i := 0; i < n; i++ {
		ext = append(ext, uint32(g.R.U64())&0x1fffffff)
	}
	for _, id := range ext {
		add(id, true)
	}
	if !valid {
		for i := 0; i < g.N(300, 5000); i++ {
			add(uint32(g.R.U64()), g.R.Bool())
			add(0x800+uint32(g.R.Intn(1<<20)), false)
			add(0x20000000<<uint(g.R.Intn(3))|uint32(g.R.U64())&0x1fffffff, true)
		}
	}
	return out
}

// genFramesSmall: n valid frames with independent lengths, payloads (all 8 bytes set) and flags
func genFramesSmall(g *G, n int) []can.Frame {
	var out []can.Frame
	for i := 0; i < n; i++ {
		ext := g.R.Bool()
		id := uint32(g.R.Intn(0x800))
		if ext {
			id = uint32(g.R.U64()) & 0x1fffffff
		}
		var d can.Data
		d.UnpackLittleEndian(g.R.U64())
		if g.R.Intn(4) == 0 {
			d = can.Data{}
		}
		out = append(out, can.Frame{ID: id, Length: uint8(g.R.Intn(9)), Data: d, IsRemote: g.R.Intn(4) == 0, IsExtended: ext})
	}
	return out
}

// emitValidateBoundary: Frame.Validate at every boundary the notion "valid frame" rests on (properties that speak of
// valid frames or of frames passing validation emit these lines first)
func emitValidateBoundary(g *G) {
	for _, id := range []uint32{0, 1, 0x7fe, 0x7ff, 0x800, 0x801, 0x1ffffffe, 0x1fffffff, 0x20000000, 0x20000001, 0x7fffffff, 0x80000000, 0xffffffff} {
		for _, ln := range []int{0, 1, 7, 8, 9, 16, 255} {
			for _, fl := range [][2]string{{"0", "0"}, {"0", "1"}, {"1", "0"}, {"1", "1"}} {
				g.Emit("val %d %d %s %s", id, ln, fl[0], fl[1])
			}
		}
	}
	g.Tag("validate-boundary")
}

func genC06(g *G) {
	g.Emit("consts")
	for _, f := range genFrames(g, true) {
		g.Emit("tx %s", frameArgs(f))
		g.Emit("rt %s", frameArgs(f))
		g.Emit("val %d %d %s %s", f.ID, f.Length, B(f.IsRemote), B(f.IsExtended))
		g.Tag("valid-frame")
	}
	for _, f := range genFrames(g, false) {
		g.Emit("val %d %d %s %s", f.ID, f.Length, B(f.IsRemote), B(f.IsExtended))
		g.Emit("tx %s", frameArgs(f)) // TransmitFrame does not validate: the layout of any frame is compared
	}
	for ln := 0; ln < 256; ln++ {
		g.Emit("val 1 %d 0 0", ln)
		g.Emit("val 1 %d 1 1", ln)
	}
	// one Transmitter, consecutive frames that differ only in their flags (and the all-zero frame with a flag as the very
	// first frame): what is written must not depend on the frame sent before
	for _, id := range []uint32{0, 0x123, 0x7ff} {
		for _, ln := range []int{0, 2, 8} {
			var d uint64
			if id != 0 {
				d = g.R.U64()
			}
			var toks []string
			for _, fl := range [][2]bool{{false, true}, {false, false}, {true, false}, {true, true}, {false, false}} {
				dd := d
				if ln < 8 {
					dd &= (1 << uint(8*ln)) - 1
				}
				f := can.Frame{ID: id, Length: uint8(ln), IsRemote: fl[0], IsExtended: fl[1]}
				f.Data.UnpackLittleEndian(dd)
				toks = append(toks, strings.ReplaceAll(frameArgs(f), " ", ",")+",1")
			}
			g.Emit("txq %s", strings.Join(toks, ";"))
			g.Tag("flag-twins")
		}
	}
	// blocks: every flag combination x ID patterns x dlc x payload basis + random blocks
	ids := []uint32{0, 1, 0x7ff, 0x800, 0x1fffffff, 0x1ffff800, 0x555, 0x15555555}
	for i := 0; i < 29; i++ {
		ids = append(ids, 1<<uint(i))
	}
	for flags := uint32(0); flags < 8; flags++ {
		for _, id := range ids {
			for _, dlc := range []int{0, 1, 8, 9, 15, 16, 255, g.R.Intn(256)} {
				w := id | flags<<29
				blk := make([]byte, 16)
				blk[0], blk[1], blk[2], blk[3] = byte(w), byte(w>>8), byte(w>>16), byte(w>>24)
				blk[4] = byte(dlc)
				if g.R.Bool() {
					blk[5], blk[6], blk[7] = byte(g.R.U64()), byte(g.R.U64()), byte(g.R.U64())
				}
				p := g.R.U64()
				switch g.R.Intn(3) {
				case 0:
					p = 1 << uint(g.R.Intn(64))
				case 1:
					p = ^(uint64(1) << uint(g.R.Intn(64)))
				}
				for j := 0; j < 8; j++ {
					blk[8+j] = byte(p >> uint(8*j))
				}
				g.Emit("rx %s", HexS(blk))
				g.Tag(fmt.Sprintf("rx-flags-%d", flags))
			}
		}
	}
	for i := 0; i < g.N(2000, 200000); i++ {
		blk := make([]byte, 16)
		for j := range blk {
			blk[j] = byte(g.R.U64())
		}
		g.Emit("rx %s", HexS(blk))
	}
}

func randBlock(g *G) []byte {
	blk := make([]byte, 16)
	for j := range blk {
		blk[j] = byte(g.R.U64())
	}
	if g.R.Intn(3) == 0 {
		blk[4] = byte(g.R.Intn(9))
	}
	return blk
}

func emitScript(g *G, chunks [][]byte, errAt int, errTok string) {
	var toks []string
	for i, c := range chunks {
		t := HexS(c)
		if i == errAt {
			t += "!" + errTok
		}
		toks = append(toks, t)
	}
	if len(toks) == 0 {
		g.Emit("rxs -")
		return
	}
	g.Emit("rxs %s", strings.Join(toks, ","))
}

func genC07(g *G) {
	// constant chunk sizes 1..64 over streams of 0..N frames + 0..15 trailing bytes
	for size := 1; size <= 64; size++ {
		for rep := 0; rep < g.N(2, 12); rep++ {
			nf := g.R.Intn(g.N(6, 40))
			tail := g.R.Intn(16)
			var stream []byte
			for i := 0; i < nf; i++ {
				stream = append(stream, randBlock(g)...)
			}
			for i := 0; i < tail; i++ {
				stream = append(stream, byte(g.R.U64()))
			}
			var chunks [][]byte
			for i := 0; i < len(stream); i += size {
				e := i + size
				if e > len(stream) {
					e = len(stream)
				}
				chunks = append(chunks, stream[i:e])
			}
			emitScript(g, chunks, -1, "")
			g.Tag("const-chunk")
		}
	}
	// all cut sets for short streams (exhaustive): streams of 16, 17, 18 bytes -> 2^(n-1) segmentations
	for _, n := range []int{1, 15, 16, 17, 18} {
		if n > 16 && !g.Thorough() && n == 18 {
			continue
		}
		stream := make([]byte, n)
		for i := range stream {
			stream[i] = byte(g.R.U64())
		}
		for cuts := 0; cuts < 1<<uint(n-1); cuts++ {
			var chunks [][]byte
			start := 0
			for i := 1; i < n; i++ {
				if cuts&(1<<uint(i-1)) != 0 {
					chunks = append(chunks, stream[start:i])
					start = i
				}
			}
			chunks = append(chunks, stream[start:])
			emitScript(g, chunks, -1, "")
		}
		g.Hist[fmt.Sprintf("exhaustive-cuts-len-%d", n)] = 1 << uint(n-1)
	}
	// random partitions with error injection at every read index, with and without accompanying data
	for rep := 0; rep < g.N(150, 5000); rep++ {
		nf := g.R.Intn(6)
		tail := g.R.Intn(16)
		var stream []byte
		for i := 0; i < nf; i++ {
			stream = append(stream, randBlock(g)...)
		}
		for i := 0; i < tail; i++ {
			stream = append(stream, byte(g.R.U64()))
		}
		var chunks [][]byte
		for i := 0; i < len(stream); {
			sz := 1 + g.R.Intn(40)
			if g.R.Intn(5) == 0 {
				sz = 1 + g.R.Intn(3)
			}
			e := i + sz
			if e > len(stream) {
				e = len(stream)
			}
			chunks = append(chunks, stream[i:e])
			i = e
		}
		emitScript(g, chunks, -1, "")
		for k := range chunks {
			emitScript(g, chunks, k, fmt.Sprintf("E%d", 1+g.R.Intn(9)))
			emitScript(g, chunks, k, "EOF")
			// error without accompanying data: insert an empty erroring read at k
			with := append(append(append([][]byte{}, chunks[:k]...), []byte{}), chunks[k:]...)
			emitScript(g, with, k, fmt.Sprintf("E%d", 1+g.R.Intn(9)))
			g.Tag("error-injection")
		}
	}
	// one Transmitter, a history of frames (lengths and payloads varying), some writes failing
	for rep := 0; rep < g.N(150, 3000); rep++ {
		pool := genFramesSmall(g, 2+g.R.Intn(7))
		var toks []string
		for i, f := range pool {
			ok := "1"
			if g.R.Intn(5) == 0 {
				// a failing write: nothing written, everything "written" but an error, or half
				ok = g.R.Pick("0", "2", "3")
			}
			_ = i
			toks = append(toks, strings.ReplaceAll(frameArgs(f), " ", ",")+","+ok)
		}
		g.Emit("txq %s", strings.Join(toks, ";"))
		g.Tag("tx-history")
	}
	// transmitter: one 16-byte write; interceptor only after success
	for _, f := range genFrames(g, true)[:g.N(300, 3000)] {
		g.Emit("txs %s 1", frameArgs(f))
		g.Emit("txs %s 0", frameArgs(f))
		g.Emit("txs %s %s", frameArgs(f), g.R.Pick("2", "3"))
	}
}

func rxString(r *socketcan.Receiver) string {
	f := r.Frame()
	e := r.ErrorFrame()
	return fmt.Sprintf("%s err=%s class=%d la=%d ce=%d pe=%d pl=%d te=%d csi=%s", frameStr(f), B(r.HasErrorFrame()),
		uint32(e.ErrorClass), e.LostArbitrationBit, uint8(e.ControllerError), uint8(e.ProtocolError),
		uint8(e.ProtocolViolationErrorLocation), uint8(e.TransceiverError), HexS(e.ControllerSpecificInformation[:]))
}

func init() {
	RegGen("C06", genC06)
	RegGen("C07", genC07)
	RegExec("consts", func(a []string) string {
		return fmt.Sprintf("%d %d %d %d %d %d", uint32(unix.CAN_EFF_FLAG), uint32(unix.CAN_RTR_FLAG), uint32(unix.CAN_ERR_FLAG),
			uint32(unix.CAN_EFF_MASK), uint32(unix.CAN_SFF_MASK), unix.CAN_MTU)
	})
	RegExec("tx", func(a []string) string {
		c := &recConn{}
		t := socketcan.NewTransmitter(c)
		if err := t.TransmitFrame(context.Background(), frameOfArgs(a)); err != nil {
			return "err"
		}
		var parts []string
		for _, w := range c.writes {
			parts = append(parts, HexS(w))
		}
		return fmt.Sprintf("%d %s", len(c.writes), strings.Join(parts, ";"))
	})
	RegExec("rx", func(a []string) string {
		r := socketcan.NewReceiver(&scriptReader{reads: []scriptRead{{b: Hex(a[0])}}})
		if !r.Receive() {
			return "no-frame"
		}
		return rxString(r)
	})
	RegExec("val", func(a []string) string {
		f := can.Frame{ID: uint32(U(a[0])), Length: U8(a[1]), IsRemote: a[2] == "1", IsExtended: a[3] == "1"}
		return OkErr(f.Validate())
	})
	RegExec("rt", func(a []string) string {
		c := &recConn{}
		t := socketcan.NewTransmitter(c)
		if err := t.TransmitFrame(context.Background(), frameOfArgs(a)); err != nil {
			return "err"
		}
		var all []byte
		for _, w := range c.writes {
			all = append(all, w...)
		}
		r := socketcan.NewReceiver(&scriptReader{reads: []scriptRead{{b: all}}})
		if !r.Receive() {
			return "no-frame"
		}
		return frameStr(r.Frame())
	})
	RegExec("rxs", func(a []string) string {
		sr := &scriptReader{}
		if a[0] != "-" {
			for _, tok := range strings.Split(a[0], ",") {
				p := strings.Split(tok, "!")
				rd := scriptRead{b: Hex(p[0])}
				if len(p) == 2 {
					if p[1] == "EOF" {
						rd.err = io.EOF
					} else {
						rd.err = codeErr(U(p[1][1:]))
					}
				}
				sr.reads = append(sr.reads, rd)
			}
		}
		var icpt []can.Frame
		r := socketcan.NewReceiver(sr, socketcan.ReceiverFrameInterceptor(func(f can.Frame) { icpt = append(icpt, f) }))
		var frames []string
		n := 0
		icptOK := true
		for r.Receive() {
			f := r.Frame()
			frames = append(frames, rxString(r)) // frame, error-frame flag and error details of every delivery
			n++
			if len(icpt) != n || icpt[n-1] != f {
				icptOK = false
			}
			if n > 10000 {
				return "runaway"
			}
		}
		if len(icpt) != n {
			icptOK = false
		}
		// Receive stays false and performs no further reads once it has ended
		before := sr.after
		if r.Receive() || sr.after != before {
			icptOK = false
		}
		e := "nil"
		if err := r.Err(); err != nil {
			var ce codeErr
			if errors.As(err, &ce) {
				e = ce.Error()
			} else {
				e = "other:" + err.Error()
			}
		}
		ic := "ok"
		if !icptOK {
			ic = "mismatch"
		}
		return fmt.Sprintf("n=%d err=%s icpt=%s frames=%s", n, e, ic, strings.Join(frames, ";"))
	})
	RegExec("txq", func(a []string) string {
		c := &recConn{failAt: map[int]bool{}, mode: map[int]int{}}
		var frames []can.Frame
		for i, tok := range strings.Split(a[0], ";") {
			p := strings.Split(tok, ",")
			frames = append(frames, frameOfArgs(p))
			if p[5] != "1" {
				c.failAt[i] = true
				c.mode[i] = int(U(p[5]))
			}
		}
		var icpt []can.Frame
		t := socketcan.NewTransmitter(c, socketcan.TransmitterFrameInterceptor(func(f can.Frame) { icpt = append(icpt, f) }))
		var oks []string
		var want []can.Frame
		for i, f := range frames {
			err := t.TransmitFrame(context.Background(), f)
			oks = append(oks, B(err == nil))
			if !c.failAt[i] {
				want = append(want, f)
			}
		}
		ic := "ok"
		if len(icpt) != len(want) {
			ic = "mismatch"
		} else {
			for i := range want {
				if icpt[i] != want[i] {
					ic = "mismatch"
				}
			}
		}
		var parts []string
		for _, w := range c.writes {
			parts = append(parts, HexS(w))
		}
		return fmt.Sprintf("writes=%d bytes=%s icpt=%s n=%d ok=%s", len(c.writes), strings.Join(parts, ";"), ic, len(icpt), strings.Join(oks, ""))
	})
	RegExec("txs", func(a []string) string {
		c := &recConn{fail: a[5] != "1", fmode: int(U(a[5]))}
		nic := 0
		var got can.Frame
		t := socketcan.NewTransmitter(c, socketcan.TransmitterFrameInterceptor(func(f can.Frame) { nic++; got = f }))
		f := frameOfArgs(a)
		err := t.TransmitFrame(context.Background(), f)
		if nic == 1 && got != f {
			nic = -1
		}
		var parts []string
		for _, w := range c.writes {
			parts = append(parts, HexS(w))
		}
		return fmt.Sprintf("writes=%d bytes=%s icpt=%d ok=%s", len(c.writes), strings.Join(parts, ";"), nic, B(err == nil))
	})
}
