package ops

import (
	"fmt"
	"strings"

	"go.einride.tech/can"
	"go.einride.tech/can/internal/reinterpret"
)

// ---- geometry helpers (the property's domain; written from the documented numbering, not from data.go) ----

// BePos is the documented big-endian walk: k steps after start.
func BePos(s, k int) int {
	p := s
	for i := 0; i < k; i++ {
		if p%8 == 0 {
			p += 15
		} else {
			p--
		}
	}
	return p
}

func FitsLE(s, l int) bool { return l >= 1 && s+l <= 64 }
func FitsBE(s, l int) bool { return l >= 1 && l <= 64 && s < 64 && BePos(s, l-1) < 64 }

type Geo struct {
	BE   bool
	S, L int
}

func (g Geo) Ord() string {
	if g.BE {
		return "BE"
	}
	return "LE"
}

// Geometries enumerates all 4160 fitting (order,start,length) triples.
func Geometries() []Geo {
	var out []Geo
	for s := 0; s < 64; s++ {
		for l := 1; l <= 64; l++ {
			if FitsLE(s, l) {
				out = append(out, Geo{false, s, l})
			}
		}
	}
	for s := 0; s < 64; s++ {
		for l := 1; l <= 64; l++ {
			if FitsBE(s, l) {
				out = append(out, Geo{true, s, l})
			}
		}
	}
	return out
}

func dataHex(w uint64) string { // w is the LE-packed word
	var d can.Data
	d.UnpackLittleEndian(w)
	return HexS(d[:])
}

func parseData(s string) can.Data {
	b := Hex(s)
	if len(b) != 8 {
		panic("bad data " + s)
	}
	var d can.Data
	copy(d[:], b)
	return d
}

// basisPayloads: zero, all-ones, 64 one-hot, 64 one-cold, n random words.
func basisPayloads(r *Rng, n int) []uint64 {
	out := []uint64{0, ^uint64(0)}
	for i := 0; i < 64; i++ {
		out = append(out, 1<<uint(i))
	}
	for i := 0; i < 64; i++ {
		out = append(out, ^(uint64(1) << uint(i)))
	}
	for i := 0; i < n; i++ {
		out = append(out, r.U64())
	}
	return out
}

func maskN(l int) uint64 {
	if l >= 64 {
		return ^uint64(0)
	}
	return (uint64(1) << uint(l)) - 1
}

func genC01(g *G) {
	geos := Geometries()
	g.Hist["geometries"] = len(geos)
	ps := basisPayloads(g.R, g.N(16, 512))
	for _, ge := range geos {
		for _, p := range ps {
			g.Emit("rdu %s %d %d %s", ge.Ord(), ge.S, ge.L, dataHex(p))
			g.Emit("rds %s %d %d %s", ge.Ord(), ge.S, ge.L, dataHex(p))
		}
		g.Tag("geo-" + ge.Ord())
	}
	// the same (start, length) read in the two byte orders back to back, in both sequences: a result must not depend on
	// what was read before (state kept between calls, e.g. a memo keyed by the geometry alone)
	for s0 := 0; s0 < 64; s0++ {
		for l := 1; l <= 64; l++ {
			if !FitsLE(s0, l) || !FitsBE(s0, l) {
				continue
			}
			p := g.R.U64()
			g.Emit("rdu LE %d %d %s", s0, l, dataHex(p))
			g.Emit("rdu BE %d %d %s", s0, l, dataHex(p))
			g.Emit("rds LE %d %d %s", s0, l, dataHex(p))
			g.Emit("rds BE %d %d %s", s0, l, dataHex(p))
			g.Emit("rdu LE %d %d %s", s0, l, dataHex(p))
		}
	}
	g.Tag("interleaved-orders")
	for i := 0; i < 256; i++ {
		for _, p := range []uint64{0, ^uint64(0), g.R.U64(), 1 << uint(i%64), ^(uint64(1) << uint(i%64))} {
			g.Emit("bit %d %s", i, dataHex(p))
		}
	}
	for _, p := range ps {
		g.Emit("pack LE %s", dataHex(p))
		g.Emit("pack BE %s", dataHex(p))
		g.Emit("unpack LE %d", p)
		g.Emit("unpack BE %d", p)
	}
	// sign reinterpretation over every width, at the boundaries of each
	for l := 1; l <= 64; l++ {
		m := maskN(l)
		vals := []uint64{0, 1, m, m >> 1, (m >> 1) + 1, g.R.U64() & m, g.R.U64() & m}
		for _, v := range vals {
			g.Emit("ass %d %d", v&m, l)
		}
	}
}

func genC02(g *G) {
	geos := Geometries()
	g.Hist["geometries"] = len(geos)
	nr := g.N(2, 24)
	for _, ge := range geos {
		m := maskN(ge.L)
		priors := []uint64{0, ^uint64(0)}
		for i := 0; i < nr; i++ {
			priors = append(priors, g.R.U64())
		}
		for _, p := range priors {
			vals := []uint64{0, 1 & m, m, (uint64(1) << uint(g.R.Intn(ge.L))) & m, g.R.U64() & m, m ^ (m >> 1)}
			for _, v := range vals {
				g.Emit("wru %s %d %d %s %d", ge.Ord(), ge.S, ge.L, dataHex(p), v)
			}
			half := int64(m >> 1)
			svals := []int64{0, 1, -1, -half - 1, half, -9223372036854775808, 9223372036854775807, int64(g.R.U64()), int64(g.R.U64()) >> uint(g.R.Intn(64))}
			for _, x := range svals {
				g.Emit("wrs %s %d %d %s %d", ge.Ord(), ge.S, ge.L, dataHex(p), x)
			}
		}
		g.Tag("geo-" + ge.Ord())
	}
	for i := 0; i < 256; i++ {
		for _, p := range []uint64{0, ^uint64(0), g.R.U64()} {
			g.Emit("sbit %d 0 %s", i, dataHex(p))
			g.Emit("sbit %d 1 %s", i, dataHex(p))
		}
	}
	for l := 1; l <= 64; l++ {
		for _, x := range []int64{0, 1, -1, -9223372036854775808, 9223372036854775807, int64(g.R.U64()), int64(g.R.U64())} {
			g.Emit("asu %d %d", x, l)
		}
	}
	// histories: writes to pairwise-disjoint ranges applied in two orders
	nseq := g.N(3000, 100000)
	for i := 0; i < nseq; i++ {
		k := 2 + g.R.Intn(7)
		var ws []string
		var used uint64
		for tries := 0; len(ws) < k && tries < 60; tries++ {
			ge := geos[g.R.Intn(len(geos))]
			if ge.L > 24 && g.R.Intn(4) != 0 {
				continue
			}
			var bits uint64
			for j := 0; j < ge.L; j++ {
				if ge.BE {
					bits |= 1 << uint(BePos(ge.S, j))
				} else {
					bits |= 1 << uint(ge.S+j)
				}
			}
			if bits&used != 0 {
				continue
			}
			used |= bits
			if g.R.Bool() {
				ws = append(ws, fmt.Sprintf("u:%s:%d:%d:%d", ge.Ord(), ge.S, ge.L, g.R.U64()&maskN(ge.L)))
			} else {
				ws = append(ws, fmt.Sprintf("s:%s:%d:%d:%d", ge.Ord(), ge.S, ge.L, int64(g.R.U64())))
			}
		}
		// a random permutation of 0..len-1
		perm := make([]int, len(ws))
		for j := range perm {
			perm[j] = j
		}
		for j := len(perm) - 1; j > 0; j-- {
			t := g.R.Intn(j + 1)
			perm[j], perm[t] = perm[t], perm[j]
		}
		ps := make([]string, len(perm))
		for j, p := range perm {
			ps[j] = fmt.Sprint(p)
		}
		g.Emit("wseq %s %s %s", dataHex(g.R.U64()), strings.Join(ws, ","), strings.Join(ps, ","))
		g.Tag(fmt.Sprintf("seq-len-%d", len(ws)))
	}
}

func genC17(g *G) {
	for _, ord := range []string{"LE", "BE"} {
		for fl := 0; fl <= 8; fl++ {
			for s := 0; s <= 255; s++ {
				for l := 1; l <= 255; l++ {
					g.Emit("chk %s %d %d %d", ord, fl, s, l)
				}
			}
		}
	}
	g.Hist["chk-domain"] = 2 * 9 * 256 * 255
	// the two checks on the same arguments back to back (a result must not depend on the call before)
	for _, fl := range []int{1, 4, 8} {
		for s := 0; s < 72; s++ {
			for l := 1; l <= 66; l++ {
				g.Emit("chk LE %d %d %d", fl, s, l)
				g.Emit("chk BE %d %d %d", fl, s, l)
				g.Emit("chk LE %d %d %d", fl, s, l)
			}
		}
	}
	for b := 1; b <= 64; b++ {
		m := maskN(b)
		vals := []uint64{0, 1, m >> 1, (m >> 1) + 1, m, m + 1, ^uint64(0), g.R.U64(), g.R.U64() & m}
		n := g.N(4, 64)
		for i := 0; i < n; i++ {
			vals = append(vals, g.R.U64()>>uint(g.R.Intn(64)))
		}
		for _, v := range vals {
			g.Emit("chv %d %d", v, b)
		}
	}
	// confinement: for every (fl, geometry), if the check passes, write then read on alternating payloads
	for _, ord := range []string{"LE", "BE"} {
		for fl := 0; fl <= 8; fl++ {
			for s := 0; s < 64; s++ {
				for l := 1; l <= 64; l++ {
					g.Emit("conf %s %d %d %d %s %d", ord, fl, s, l, "55aa55aa55aa55aa", g.R.U64()&maskN(l))
				}
			}
		}
	}
}

func init() {
	RegGen("C01", genC01)
	RegGen("C02", genC02)
	RegGen("C17", genC17)

	RegExec("rdu", func(a []string) string {
		d := parseData(a[3])
		if a[0] == "BE" {
			return fmt.Sprint(d.UnsignedBitsBigEndian(U8(a[1]), U8(a[2])))
		}
		return fmt.Sprint(d.UnsignedBitsLittleEndian(U8(a[1]), U8(a[2])))
	})
	RegExec("rds", func(a []string) string {
		d := parseData(a[3])
		if a[0] == "BE" {
			return fmt.Sprint(d.SignedBitsBigEndian(U8(a[1]), U8(a[2])))
		}
		return fmt.Sprint(d.SignedBitsLittleEndian(U8(a[1]), U8(a[2])))
	})
	RegExec("wru", func(a []string) string {
		d := parseData(a[3])
		if a[0] == "BE" {
			d.SetUnsignedBitsBigEndian(U8(a[1]), U8(a[2]), U(a[4]))
		} else {
			d.SetUnsignedBitsLittleEndian(U8(a[1]), U8(a[2]), U(a[4]))
		}
		return HexS(d[:])
	})
	RegExec("wrs", func(a []string) string {
		d := parseData(a[3])
		if a[0] == "BE" {
			d.SetSignedBitsBigEndian(U8(a[1]), U8(a[2]), I(a[4]))
		} else {
			d.SetSignedBitsLittleEndian(U8(a[1]), U8(a[2]), I(a[4]))
		}
		return HexS(d[:])
	})
	RegExec("bit", func(a []string) string {
		d := parseData(a[1])
		return B(d.Bit(U8(a[0])))
	})
	RegExec("sbit", func(a []string) string {
		d := parseData(a[2])
		d.SetBit(U8(a[0]), a[1] != "0")
		return HexS(d[:])
	})
	RegExec("pack", func(a []string) string {
		d := parseData(a[1])
		if a[0] == "BE" {
			return fmt.Sprint(d.PackBigEndian())
		}
		return fmt.Sprint(d.PackLittleEndian())
	})
	RegExec("unpack", func(a []string) string {
		var d can.Data
		if a[0] == "BE" {
			d.UnpackBigEndian(U(a[1]))
		} else {
			d.UnpackLittleEndian(U(a[1]))
		}
		return HexS(d[:])
	})
	RegExec("ass", func(a []string) string { return fmt.Sprint(reinterpret.AsSigned(U(a[0]), U8(a[1]))) })
	RegExec("asu", func(a []string) string { return fmt.Sprint(reinterpret.AsUnsigned(I(a[0]), U8(a[1]))) })
	RegExec("chk", func(a []string) string {
		if a[0] == "BE" {
			return OkErr(can.CheckBitRangeBigEndian(U8(a[1]), U8(a[2]), U8(a[3])))
		}
		return OkErr(can.CheckBitRangeLittleEndian(U8(a[1]), U8(a[2]), U8(a[3])))
	})
	RegExec("chv", func(a []string) string { return OkErr(can.CheckValue(U(a[0]), U8(a[1]))) })
	RegExec("conf", func(a []string) string {
		// conf ORD fl s l data v : check; if ok write v then read back
		fl, s, l := U8(a[1]), U8(a[2]), U8(a[3])
		d := parseData(a[4])
		v := U(a[5])
		if a[0] == "BE" {
			if err := can.CheckBitRangeBigEndian(fl, s, l); err != nil {
				return "err"
			}
			d.SetUnsignedBitsBigEndian(s, l, v)
			return fmt.Sprintf("ok %s %d", HexS(d[:]), d.UnsignedBitsBigEndian(s, l))
		}
		if err := can.CheckBitRangeLittleEndian(fl, s, l); err != nil {
			return "err"
		}
		d.SetUnsignedBitsLittleEndian(s, l, v)
		return fmt.Sprintf("ok %s %d", HexS(d[:]), d.UnsignedBitsLittleEndian(s, l))
	})
	RegExec("wseq", func(a []string) string {
		// wseq data w1,w2,.. perm : apply in order, and in the permuted order
		ws := strings.Split(a[1], ",")
		apply := func(d *can.Data, w string) {
			f := strings.Split(w, ":")
			s, l := U8(f[2]), U8(f[3])
			switch {
			case f[0] == "u" && f[1] == "LE":
				d.SetUnsignedBitsLittleEndian(s, l, U(f[4]))
			case f[0] == "u" && f[1] == "BE":
				d.SetUnsignedBitsBigEndian(s, l, U(f[4]))
			case f[0] == "s" && f[1] == "LE":
				d.SetSignedBitsLittleEndian(s, l, I(f[4]))
			default:
				d.SetSignedBitsBigEndian(s, l, I(f[4]))
			}
		}
		d1 := parseData(a[0])
		for _, w := range ws {
			apply(&d1, w)
		}
		d2 := parseData(a[0])
		for _, p := range strings.Split(a[2], ",") {
			apply(&d2, ws[U(p)])
		}
		return HexS(d1[:]) + " " + HexS(d2[:])
	})
}
