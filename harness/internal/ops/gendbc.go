package ops

import (
	"fmt"
	"math"
	"strconv"
	"strings"
)

// ---- generator of the generator-supported class (DESIGN.md 4.3) ----

type gSig struct {
	name           string
	geo            Geo
	signed, flt    bool
	mux, muxed     bool
	muxVal         int
	factor, offset string
	min, max       string
	unit           string
	vds            [][2]string
	def            int64
	hasDef         bool
	recv           []string
}

func (s *gSig) kind() (signed bool, width int, isBool, isFloat bool) {
	L := s.geo.L
	if L == 32 && s.flt {
		return false, 32, false, true
	}
	if L == 1 {
		return false, 1, true, false
	}
	w := 64
	switch {
	case L <= 8:
		w = 8
	case L <= 16:
		w = 16
	case L <= 32:
		w = 32
	}
	return s.signed, w, false, false
}

type gMsg struct {
	name     string
	id       uint32 // with the extended flag
	size     int
	sender   string
	sendType string
	cycle    int
	sigs     []*gSig
}

type gDbc struct {
	nodes []string
	msgs  []*gMsg
	text  []byte
}

func bitsOf(ge Geo) uint64 {
	var b uint64
	for j := 0; j < ge.L; j++ {
		if ge.BE {
			b |= 1 << uint(BePos(ge.S, j))
		} else {
			b |= 1 << uint(ge.S+j)
		}
	}
	return b
}

var widthClasses = [][2]int{{1, 1}, {2, 8}, {9, 16}, {17, 32}, {33, 62}, {63, 63}, {64, 64}}

func pickGeo(g *G, size int, used uint64, wc int) (Geo, bool) {
	lim := uint64(0)
	if size >= 8 {
		lim = ^uint64(0)
	} else {
		lim = (uint64(1) << uint(8*size)) - 1
	}
	for try := 0; try < 60; try++ {
		lo, hi := widthClasses[wc][0], widthClasses[wc][1]
		L := lo + g.R.Intn(hi-lo+1)
		if g.R.Intn(3) == 0 {
			// lengths next to and on the accessor-width and byte boundaries
			c := []int{7, 8, 9, 15, 16, 17, 24, 31, 32, 33, 40, 48, 55, 56, 57, 62}
			if l2 := c[g.R.Intn(len(c))]; l2 >= lo && l2 <= hi {
				L = l2
			}
		}
		be := g.R.Bool()
		s := g.R.Intn(64)
		ge := Geo{be, s, L}
		if be && !FitsBE(s, L) || !be && !FitsLE(s, L) {
			continue
		}
		b := bitsOf(ge)
		if b&^lim != 0 || b&used != 0 {
			continue
		}
		return ge, true
	}
	return Geo{}, false
}

// pickGeoLen: a free geometry of exactly L bits (either byte order)
func pickGeoLen(g *G, size int, used uint64, L int) (Geo, bool) {
	lim := ^uint64(0)
	if size < 8 {
		lim = (uint64(1) << uint(8*size)) - 1
	}
	for try := 0; try < 60; try++ {
		be := g.R.Bool()
		s := g.R.Intn(64)
		ge := Geo{be, s, L}
		if be && !FitsBE(s, L) || !be && !FitsLE(s, L) {
			continue
		}
		b := bitsOf(ge)
		if b&^lim != 0 || b&used != 0 {
			continue
		}
		return ge, true
	}
	return Geo{}, false
}

func (d *gDbc) render(g *G, twin bool) {
	// render
	var sb strings.Builder
	w := func(f string, a ...interface{}) { fmt.Fprintf(&sb, f+"\n", a...) }
	w("VERSION \"\"")
	w("NS_ :")
	w("BS_:")
	w("BU_: %s", strings.Join(d.nodes, " "))
	for _, m := range d.msgs {
		w("BO_ %d %s: %d %s", m.id, m.name, m.size, m.sender)
		for _, s := range m.sigs {
			mux := ""
			if s.mux {
				mux = " M"
			} else if s.muxed {
				mux = fmt.Sprintf(" m%d", s.muxVal)
			}
			ord, sign := "1", "+"
			if s.geo.BE {
				ord = "0"
			}
			if s.signed {
				sign = "-"
			}
			w(" SG_ %s%s : %d|%d@%s%s (%s,%s) [%s|%s] \"%s\" %s", s.name, mux, s.geo.S, s.geo.L, ord, sign, s.factor, s.offset, s.min, s.max, s.unit, strings.Join(s.recv, ","))
		}
	}
	w("BA_DEF_ BO_ \"GenMsgSendType\" ENUM \"None\",\"Cyclic\",\"Event\";")
	w("BA_DEF_ BO_ \"GenMsgCycleTime\" INT 0 100000;")
	w("BA_DEF_ BO_ \"GenMsgDelayTime\" INT 0 100000;")
	w("BA_DEF_ SG_ \"GenSigStartValue\" INT 0 0;")
	type mline struct {
		mi, si int // si = -1: message-level
		text   string
	}
	var metaLines []mline
	for mi, m := range d.msgs {
		if m.sendType != "" {
			metaLines = append(metaLines, mline{mi, -1, fmt.Sprintf("BA_ \"GenMsgSendType\" BO_ %d \"%s\";", m.id, m.sendType)})
			metaLines = append(metaLines, mline{mi, -1, fmt.Sprintf("BA_ \"GenMsgCycleTime\" BO_ %d %d;", m.id, m.cycle)})
			if m.cycle%30 == 0 {
				// a minimum delay between transmissions on a third of the messages with a send type
				metaLines = append(metaLines, mline{mi, -1, fmt.Sprintf("BA_ \"GenMsgDelayTime\" BO_ %d %d;", m.id, 200+m.cycle)})
			}
		}
		for si, s := range m.sigs {
			if s.hasDef {
				metaLines = append(metaLines, mline{mi, si, fmt.Sprintf("BA_ \"GenSigStartValue\" SG_ %d %s %d;", m.id, s.name, s.def)})
			}
			if len(s.vds) > 0 {
				var parts []string
				for _, v := range s.vds {
					parts = append(parts, fmt.Sprintf("%s \"%s\"", v[0], v[1]))
				}
				metaLines = append(metaLines, mline{mi, si, fmt.Sprintf("VAL_ %d %s %s ;", m.id, s.name, strings.Join(parts, " "))})
			}
			if s.flt {
				metaLines = append(metaLines, mline{mi, si, fmt.Sprintf("SIG_VALTYPE_ %d %s : 1;", m.id, s.name)})
			}
		}
	}
	// metadata lines may come in any order (§4.2): half of the files shuffle them; half of the twin files
	// interleave them signal by signal across the messages, each message's own lines in between
	switch {
	case twin && g.R.Bool():
		var out []mline
		used := make([]bool, len(metaLines))
		for si := 0; si < 6; si++ {
			for mi := range d.msgs {
				for k, l := range metaLines {
					if !used[k] && l.mi == mi && l.si == -1 {
						used[k] = true
						out = append(out, l)
						break
					}
				}
				for k, l := range metaLines {
					if !used[k] && l.mi == mi && l.si == si {
						used[k] = true
						out = append(out, l)
					}
				}
			}
		}
		for k, l := range metaLines {
			if !used[k] {
				out = append(out, l)
			}
		}
		metaLines = out
	case twin || g.R.Bool():
		for i := len(metaLines) - 1; i > 0; i-- {
			j := g.R.Intn(i + 1)
			metaLines[i], metaLines[j] = metaLines[j], metaLines[i]
		}
	}
	for _, l := range metaLines {
		w("%s", l.text)
	}
	d.text = []byte(sb.String())
}

// genDbcSweep: the deterministic part of the class — program k of 4 (byte order x sign) has one message per length
// L = 1..32 carrying a signal of L bits and one of 64-L bits, and one message with a 64-bit signal: every signal
// length 1..64 occurs in every byte order and sign on every run, whatever the seed.  A third of the signals are scaled.
func genDbcSweep(g *G, k int) *gDbc {
	be, signed := k&1 == 1, k&2 == 2
	d := &gDbc{nodes: []string{"NodeS0"}}
	mk := func(name string, start, L int, mi int) *gSig {
		sg := &gSig{name: name, signed: signed, factor: "1", offset: "0", min: "0", max: "0", recv: []string{"NodeS0"}}
		sg.geo = Geo{be, start, L}
		switch L % 16 {
		case 3:
			sg.unit = "\x0bV"
		case 5:
			sg.unit = "m\x7fs"
		case 7:
			sg.unit = "\U000E0001x"
		case 9:
			sg.unit = "°C"
		}
		switch (L + 2*mi) % 6 {
		case 0:
			sg.factor = "0.5"
		case 1:
			sg.factor, sg.offset = "2", "-40"
		case 2:
			if L > 1 && L%4 == 0 {
				sg.min, sg.max = "1", "1e19" // unscaled, the range only raises the lower bound
			}
		case 3:
			if L > 1 && L%4 == 1 {
				sg.min, sg.max = "-1e19", "2" // unscaled, the range only lowers the upper bound
			}
		}
		return sg
	}
	for L := 1; L <= 33; L++ {
		m := &gMsg{name: fmt.Sprintf("Sweep%d", L), size: 8, sender: "NodeS0", id: uint32(0x100 + L)}
		if L > 16 {
			m.name = fmt.Sprintf("XSweep%d", L-16) // an earlier message's name is a suffix of this one
		}
		if L%2 == 0 {
			m.id = uint32(0x10000+L) | 0x80000000
		}
		if L == 33 {
			st := 0
			if be {
				st = 7
			}
			m.sigs = []*gSig{mk("Whole", st, 64, L)}
		} else {
			st, st2 := 0, L
			if be {
				st, st2 = 7, BePos(7, L)
			}
			m.sigs = []*gSig{mk("Lo", st, L, L), mk("Hi", st2, 64-L, L)}
			if L >= 2 && L <= 4 {
				// every raw value of the small signal is described (negative ones for signed signals), the wide one has no
				// descriptions: whatever the frame, a description applies to the first signal and none to the second
				lo, hi := int64(0), int64(1)<<uint(L)-1
				if signed {
					lo, hi = -(int64(1) << uint(L-1)), int64(1)<<uint(L-1)-1
				}
				for v := lo; v <= hi; v++ {
					name := fmt.Sprintf("Neg%d", -v)
					if v >= 0 {
						name = fmt.Sprintf("Pos%d", v)
					}
					m.sigs[0].vds = append(m.sigs[0].vds, [2]string{fmt.Sprint(v), name})
				}
			}
			if L == 32 {
				// a float32 signal in every byte order on every run
				m.sigs[0].flt, m.sigs[0].signed = true, false
				m.sigs[0].factor, m.sigs[0].offset = "1", "0"
			}
		}
		d.msgs = append(d.msgs, m)
	}
	// description carry-over: an enum signal whose every raw value is described, followed by 1-bit signals with no
	// description, with a description for one of the two values only, and for both -- whatever the frame, the first
	// signal shows a description and the second must show none
	{
		m := &gMsg{name: "Flags", size: 2, sender: "NodeS0", id: 0x7f0}
		pos := func(i int) int { // i-th bit of the message in this program's byte order
			if be {
				return BePos(7, i)
			}
			return i
		}
		gear := mk("Gear", pos(0), 3, 0)
		gear.factor, gear.offset, gear.min, gear.max, gear.signed = "1", "0", "0", "0", false
		for v := 0; v < 8; v++ {
			gear.vds = append(gear.vds, [2]string{fmt.Sprint(v), fmt.Sprintf("Gear%d", v)})
		}
		m.sigs = append(m.sigs, gear)
		for i, vd := range [][][2]string{nil, {{"1", "OnlyOne"}}, {{"0", "Off"}, {"1", "On"}}, nil} {
			f := mk(fmt.Sprintf("Flag%d", i), pos(3+i), 1, 0)
			f.factor, f.offset, f.min, f.max, f.signed = "1", "0", "0", "0", false
			f.vds = vd
			m.sigs = append(m.sigs, f)
		}
		d.msgs = append(d.msgs, m)
	}
	// short signals that lie inside one byte away from its edges (a byte-local read must still honour the byte order)
	{
		m := &gMsg{name: "Nib", size: 2, sender: "NodeS0", id: 0x7f1}
		starts := []int{3, 1, 11}
		if be {
			starts = []int{5, 2, 14}
		}
		for i, L := range []int{3, 2, 4} {
			sg := mk(fmt.Sprintf("Nib%d", i), starts[i], L, 0)
			sg.factor, sg.offset, sg.min, sg.max = "1", "0", "0", "0"
			m.sigs = append(m.sigs, sg)
		}
		d.msgs = append(d.msgs, m)
	}
	// 8-, 16- and 32-bit signals whose start bit is bit 0 of a byte: whole bytes in little-endian order, straddling
	// two bytes in big-endian order (a "whole byte" shortcut must look at the byte order)
	{
		m := &gMsg{name: "Straddle", size: 8, sender: "NodeS0", id: 0x7f2}
		for i, sl := range [][2]int{{0, 8}, {16, 16}, {40, 8}} {
			if be && i == 1 {
				sl = [2]int{24, 16}
			}
			sg := mk(fmt.Sprintf("Str%d", i), sl[0], sl[1], 0)
			sg.factor, sg.offset, sg.min, sg.max = "1", "0", "0", "0"
			m.sigs = append(m.sigs, sg)
		}
		d.msgs = append(d.msgs, m)
	}
	d.render(g, false)
	return d
}

func genDbc43(g *G, forceWC int) *gDbc {
	d := &gDbc{}
	nn := g.R.Intn(4)
	for i := 0; i < nn; i++ {
		d.nodes = append(d.nodes, fmt.Sprintf("Node%c%d", 'A'+byte(g.R.Intn(26)), i))
	}
	node := func() string {
		if len(d.nodes) == 0 || g.R.Intn(4) == 0 {
			return "Vector__XXX"
		}
		return d.nodes[g.R.Intn(len(d.nodes))]
	}
	withSend := g.R.Intn(3) > 0
	nm := 1 + g.R.Intn(4)
	// "twin" files: the messages repeat the first message's signal names, most signals carry metadata, metadata
	// lines are shuffled: every cross-message confusion of same-named signals becomes visible
	twin := g.R.Intn(4) == 0
	if twin {
		withSend = true
		nm = 2 + g.R.Intn(2)
	}
	ids := map[uint32]bool{}
	for mi := 0; mi < nm; mi++ {
		m := &gMsg{name: fmt.Sprintf("Msg%c%d", 'A'+byte(g.R.Intn(26)), mi), size: g.R.Intn(9), sender: node()}
		if mi > 0 && g.R.Intn(3) == 0 {
			// names that contain an earlier message's name as a suffix or prefix (lookups by name must be exact)
			o := d.msgs[g.R.Intn(len(d.msgs))].name
			if g.R.Bool() {
				m.name = g.R.Pick("X", "Aux", "M") + o
			} else {
				m.name = o + g.R.Pick("1", "B", "_2")
			}
			for _, x := range d.msgs {
				if x.name == m.name {
					m.name = fmt.Sprintf("%sZ%d", m.name, mi)
				}
			}
		}
		if forceWC >= 0 || g.R.Intn(3) > 0 {
			m.size = 8
		}
		for {
			raw := uint32(g.R.Intn(0x800))
			ext := g.R.Intn(3) == 0
			if ext {
				raw = uint32(g.R.U64()) & 0x1fffffff
			}
			if g.R.Intn(8) == 0 {
				// boundary IDs of both formats
				raw = []uint32{0, 1, 0x7ff, 0x800, 0x1fffffff, 0x1ffffffe}[g.R.Intn(6)]
				ext = raw > 0x7ff || g.R.Bool()
			}
			if !ids[raw] {
				ids[raw] = true
				m.id = raw
				if ext {
					m.id |= 0x80000000
				}
				break
			}
		}
		if withSend && g.R.Intn(3) > 0 {
			m.sendType = g.R.Pick("Cyclic", "Event")
			m.cycle = 10 * (1 + g.R.Intn(50))
		}
		var used uint64
		ns := g.R.Intn(6)
		if forceWC >= 0 {
			ns = 1 + g.R.Intn(3)
		}
		var muxSig *gSig
		muxUsed := map[int]uint64{}
		for si := 0; si < ns; si++ {
			wc := g.R.Intn(len(widthClasses))
			if forceWC >= 0 && si == 0 {
				wc = forceWC
			}
			sname := fmt.Sprintf("Sig%c%d", 'A'+byte(g.R.Intn(26)), si)
			if g.R.Bool() || twin {
				// names shared between messages; unique inside one message
				cand := g.R.Pick("Counter", "Checksum", "Status", "Mode", "Value", "Speed")
				if twin && mi > 0 && si < len(d.msgs[0].sigs) {
					cand = d.msgs[0].sigs[si].name
				}
				dup := false
				for _, o := range m.sigs {
					if o.name == cand {
						dup = true
					}
				}
				if !dup {
					sname = cand
				}
			}
			sg := &gSig{name: sname, signed: g.R.Bool(), factor: "1", offset: "0", min: "0", max: "0", recv: []string{node()}}
			role := g.R.Intn(6)
			if muxSig == nil && role <= 1 && si < ns-1 {
				// multiplexer: unsigned, 2..16 bits (1-bit multiplexers are exercised separately)
				ge, ok := pickGeo(g, m.size, used, 1+g.R.Intn(2))
				if !ok {
					continue
				}
				if g.R.Intn(5) == 0 {
					if ge1, ok1 := pickGeo(g, m.size, used, 0); ok1 {
						ge = ge1
					}
				}
				sg.geo, sg.mux, sg.signed = ge, true, false
				used |= bitsOf(ge)
				muxSig = sg
				m.sigs = append(m.sigs, sg)
				continue
			}
			if muxSig != nil && role <= 2 {
				maxSel := 1<<uint(muxSig.geo.L) - 1
				if maxSel > 5 {
					maxSel = 5
				}
				sel := g.R.Intn(maxSel + 1)
				ge, ok := pickGeo(g, m.size, used|muxUsed[sel], wc)
				if !ok {
					continue
				}
				sg.geo, sg.muxed, sg.muxVal = ge, true, sel
				muxUsed[sel] |= bitsOf(ge)
			} else {
				all := used
				for _, b := range muxUsed {
					all |= b
				}
				ge, ok := pickGeo(g, m.size, all, wc)
				wantFloat := g.R.Intn(6) == 0 // float32 signals in either byte order are a sixth of the plain signals
				if wantFloat {
					if g32, ok32 := pickGeoLen(g, m.size, all, 32); ok32 {
						ge, ok = g32, true
					} else {
						wantFloat = false
					}
				}
				if !ok {
					continue
				}
				sg.geo = ge
				used |= bitsOf(ge)
				if wantFloat {
					sg.flt = true
					sg.signed = false
				}
			}
			L := sg.geo.L
			if L == 32 && g.R.Intn(3) == 0 {
				sg.flt = true
				sg.signed = false
			}
			// scaling (never for 1-bit signals with plain types? allowed: the class includes 1-bit x factor)
			switch g.R.Intn(8) {
			case 6:
				// a range that only raises the lower bound / only lowers the upper bound of an unscaled signal
				sg.min, sg.max = g.R.Pick("1", "3"), "1e19"
			case 7:
				sg.min, sg.max = "-1e19", g.R.Pick("1", "5")
			case 0:
				sg.factor = g.R.Pick("0.5", "2", "0.001", "-1", "10", "0.1")
			case 1:
				sg.offset = g.R.Pick("-40", "1000", "0.5")
			case 2:
				sg.factor, sg.offset = g.R.Pick("0.25", "-0.5", "100"), g.R.Pick("-273.15", "7")
			case 3:
				sg.min, sg.max = "-100", "250.5"
			case 4:
				sg.factor = "0.01"
				sg.min, sg.max = "0", "100"
			}
			sg.unit = g.R.Pick("", "", "km/h", "V", "%")
			if g.R.Intn(6) == 0 {
				// text that renderers have to escape: control characters, DEL, non-ASCII, a non-printable rune above U+FFFF
				sg.unit = g.R.Pick("\x0bV", "m\x7fs", "°C", "\U000E0001x", "a\tb", "\x1f", "µ<&>")
			}
			if !sg.flt && g.R.Intn(4) == 0 {
				// value descriptions inside the raw range
				n := 1 + g.R.Intn(3)
				seen := map[int64]bool{}
				for k := 0; k < n; k++ {
					var v int64
					switch {
					case L == 1:
						v = int64(g.R.Intn(2))
					case sg.signed:
						lim := int64(1) << uint(minInt(L-1, 20))
						v = int64(g.R.Intn(int(2*lim))) - lim
					default:
						lim := int64(1) << uint(minInt(L, 20))
						v = int64(g.R.Intn(int(lim)))
					}
					if seen[v] {
						continue
					}
					seen[v] = true
					desc := fmt.Sprintf("Val%d %c", k, 'a'+byte(g.R.Intn(26)))
					if g.R.Intn(5) == 0 {
						desc += g.R.Pick("\x0b", "\x7f", "\x1f", "é", "\U000E0001", "<tag>")
					}
					sg.vds = append(sg.vds, [2]string{fmt.Sprint(v), desc})
				}
			}
			if !sg.flt && (g.R.Intn(5) == 0 || twin && g.R.Bool()) {
				sg.hasDef = true
				switch {
				case L == 1:
					sg.def = int64(g.R.Intn(2))
				case sg.signed:
					sg.def = int64(g.R.Intn(1<<uint(minInt(L-1, 16)))) - int64(g.R.Intn(2))*int64(1<<uint(minInt(L-1, 16))-1)
				default:
					sg.def = int64(g.R.Intn(1 << uint(minInt(L, 16))))
				}
			}
			m.sigs = append(m.sigs, sg)
		}
		if muxSig != nil {
			// selector values must be below 2^size(M): guaranteed by construction (sel ≤ 2^L - 1)
			_ = muxSig
		}
		d.msgs = append(d.msgs, m)
	}
	d.render(g, twin)
	return d
}

func minInt(a, b int) int {
	if a < b {
		return a
	}
	return b
}

// argValues: raw setter arguments covering the whole accessor type (extremes, signal bounds ± 1, random)
func rawArgs(g *G, s *gSig) []string {
	signed, width, isBool, isFloat := s.kind()
	if isBool {
		return []string{"0", "1"}
	}
	if isFloat {
		fs := []float32{0, 1, -1, math.MaxFloat32, -math.MaxFloat32, float32(math.Inf(1)), float32(math.Inf(-1)), 1e-40, 3.5, float32(g.R.Intn(1000)) / 7}
		var out []string
		for _, f := range fs {
			out = append(out, fmt.Sprint(math.Float32bits(f)))
		}
		return out
	}
	L := s.geo.L
	var out []string
	if signed {
		tmin, tmax := -(int64(1) << uint(width-1)), int64(1)<<uint(width-1)-1
		lo, hi := -(int64(1) << uint(L-1)), int64(1)<<uint(L-1)-1
		for _, v := range []int64{0, 1, -1, tmin, tmax, lo, hi, lo - 1, hi + 1, lo + 1, hi - 1, int64(g.R.U64()) >> uint(64-width)} {
			if v >= tmin && v <= tmax {
				out = append(out, fmt.Sprint(v))
			}
		}
		if lo-1 < tmin { // wrapped neighbours are not of the accessor type
		}
		return out
	}
	tmax := ^uint64(0) >> uint(64-width)
	hi := ^uint64(0) >> uint(64-L)
	for _, v := range []uint64{0, 1, tmax, hi, hi + 1, hi - 1, tmax - 1, g.R.U64() >> uint(64-width)} {
		if v <= tmax && !(v == 0 && hi+1 == 0 && false) {
			out = append(out, fmt.Sprint(v))
		}
	}
	return out
}

func physArgs(g *G) []string {
	fs := []float64{0, 1, -1, math.Inf(1), math.Inf(-1), 1e308, -1e308, 1e-300, 0.5, 100, -40, 250.5, 1e10, -1e10, 65535.5, float64(g.R.Intn(100000)) / 10, -float64(g.R.Intn(1000)) / 3}
	var out []string
	for _, f := range fs {
		out = append(out, fb(f))
	}
	return out
}

func frameArg(id uint32, ln int, data uint64, rem, ext bool) string {
	return fmt.Sprintf("%d:%d:%s:%s:%s", id, ln, dataHex(data), B(rem), B(ext))
}

func (m *gMsg) validFrame(g *G) string {
	var p uint64
	switch g.R.Intn(5) {
	case 0:
		p = 0
	case 1:
		p = ^uint64(0)
	case 2:
		p = 1 << uint(g.R.Intn(64))
	default:
		p = g.R.U64()
	}
	// multiplexed messages: half of the frames select a group that exists
	var mux *gSig
	var sels []int
	for _, s := range m.sigs {
		if s.mux {
			mux = s
		}
		if s.muxed {
			sels = append(sels, s.muxVal)
		}
	}
	if mux != nil && len(sels) > 0 && g.R.Bool() {
		p = putBits(p, mux.geo, uint64(sels[g.R.Intn(len(sels))]))
	}
	// float32 signals: a third of the frames carry a special pattern (infinities, the largest finite values, the
	// smallest subnormal, negative zero) that random payloads practically never contain
	for _, s := range m.sigs {
		if s.flt && g.R.Intn(3) == 0 {
			pats := []uint64{0x7f800000, 0xff800000, 0x7f7fffff, 0xff7fffff, 0x00000001, 0x80000000, 0x3f800000}
			p = putBits(p, s.geo, pats[g.R.Intn(len(pats))])
		}
	}
	return frameArg(m.id&0x7fffffff, m.size, p, false, m.id&0x80000000 != 0)
}

// putBits writes the low ge.L bits of v into the range ge of the LE-packed word p (documented numbering).
func putBits(p uint64, ge Geo, v uint64) uint64 {
	for j := 0; j < ge.L; j++ {
		var pos int
		var bit uint64
		if ge.BE {
			pos = BePos(ge.S, j)
			bit = v >> uint(ge.L-1-j) & 1
		} else {
			pos = ge.S + j
			bit = v >> uint(j) & 1
		}
		p = p&^(1<<uint(pos)) | bit<<uint(pos)
	}
	return p
}

func (m *gMsg) badFrame(g *G) string {
	id, ln, rem, ext := m.id&0x7fffffff, m.size, false, m.id&0x80000000 != 0
	switch g.R.Intn(4) {
	case 0:
		id ^= 1 << uint(g.R.Intn(11))
	case 1:
		ln = (ln + 1 + g.R.Intn(8)) % 9
		if ln == m.size {
			ln = (ln + 1) % 9
		}
	case 2:
		rem = true
	default:
		ext = !ext
	}
	return frameArg(id, ln, g.R.U64(), rem, ext)
}

// opSequence builds one random operation sequence for a message.
func opSequence(g *G, m *gMsg, n int) string {
	var ops []string
	for i := 0; i < n; i++ {
		if len(m.sigs) == 0 {
			ops = append(ops, g.R.Pick("fr", "rt", "cp", "reset", "un:"+m.validFrame(g), "un:"+m.badFrame(g)))
			continue
		}
		s := m.sigs[g.R.Intn(len(m.sigs))]
		switch g.R.Intn(12) {
		case 0, 1, 2, 3:
			a := rawArgs(g, s)
			ops = append(ops, fmt.Sprintf("sr:%s:%s", s.name, a[g.R.Intn(len(a))]))
		case 4, 5:
			a := physArgs(g)
			ops = append(ops, fmt.Sprintf("sp:%s:%s", s.name, a[g.R.Intn(len(a))]))
		case 6:
			ops = append(ops, "gp:"+s.name)
		case 7:
			ops = append(ops, "un:"+m.validFrame(g))
		case 8:
			ops = append(ops, "un:"+m.badFrame(g))
		case 9:
			ops = append(ops, "rt")
		case 10:
			ops = append(ops, "cp")
		default:
			ops = append(ops, g.R.Pick("reset", "new", "fr"))
		}
	}
	return strings.Join(ops, ",")
}

func emitGenOps(g *G, nDbc, seqPerMsg, seqLen int, which string) {
	for i := 0; i < nDbc; i++ {
		force := -1
		if i < len(widthClasses)*2 {
			force = i % len(widthClasses)
		}
		d := genDbc43(g, force)
		if i < 4 {
			d = genDbcSweep(g, i)
			g.Tag("dbc-length-sweep")
		}
		h := HexS(d.text)
		g.Tag("dbc")
		if which == "C03" {
			g.Emit("gdesc %s", h)
		}
		for _, m := range d.msgs {
			g.Tag("message")
			for _, s := range m.sigs {
				for wc, r := range widthClasses {
					if s.geo.L >= r[0] && s.geo.L <= r[1] {
						g.Tag(fmt.Sprintf("sig-width-class-%d-%d", widthClasses[wc][0], widthClasses[wc][1]))
					}
				}
				switch {
				case s.flt:
					g.Tag("sig-float32")
				case s.mux:
					g.Tag("sig-multiplexer")
				case s.muxed:
					g.Tag("sig-multiplexed")
				}
				if s.geo.BE {
					g.Tag("sig-big-endian")
				}
				if s.signed {
					g.Tag("sig-signed")
				}
				if len(s.vds) > 0 {
					g.Tag("sig-enum")
				}
			}
			switch which {
			case "C03":
				// decode/encode on the payload basis, rejection, dispatch
				spm, stride := seqPerMsg, 3
				if i < 4 {
					spm, stride = 1, 7 // length-sweep programs: many messages, fewer lines each
				}
				for k := 0; k < spm; k++ {
					g.Emit("gmsg %s %s un:%s,fr,rt", h, m.name, m.validFrame(g))
					g.Emit("gmsg %s %s un:%s,un:%s", h, m.name, m.validFrame(g), m.badFrame(g))
					g.Emit("gmsg %s %s un:%s,un:%s,fr", h, m.name, m.validFrame(g), m.validFrame(g)) // into a message that already holds a frame
					g.Emit("gdisp %s %s", h, m.validFrame(g))
					g.Emit("gdisp %s %s", h, m.badFrame(g))
				}
				for b := 0; b < 64; b += 1 + g.R.Intn(stride) {
					g.Emit("gmsg %s %s un:%s,fr", h, m.name, frameArg(m.id&0x7fffffff, m.size, 1<<uint(b), false, m.id&0x80000000 != 0))
				}
				// encode: every signal set to boundary raws, one at a time and all together
				for _, s := range m.sigs {
					for _, a := range rawArgs(g, s) {
						g.Emit("gmsg %s %s sr:%s:%s,fr", h, m.name, s.name, a)
					}
				}
			case "C10":
				for k := 0; k < seqPerMsg; k++ {
					g.Emit("gmsg %s %s %s", h, m.name, opSequence(g, m, 1+g.R.Intn(seqLen)))
				}
			case "C19":
				for k := 0; k < seqPerMsg; k++ {
					g.Emit("gtxt %s %s %s", h, m.name, m.validFrame(g))
				}
			}
		}
	}
}

// special DBCs of the class that exercise the generator's decision points
func specialDbcs() []string {
	hdr := "VERSION \"\"\nNS_ :\nBS_:\nBU_: NodeA NodeB\n"
	attrs := "BA_DEF_ BO_ \"GenMsgSendType\" ENUM \"None\",\"Cyclic\",\"Event\";\nBA_DEF_ BO_ \"GenMsgCycleTime\" INT 0 100000;\nBA_DEF_ SG_ \"GenSigStartValue\" INT 0 0;\n"
	var out []string
	add := func(body string) { out = append(out, hdr+body) }
	// 1-bit signals with factor / offset / range / enum
	add("BO_ 1 MsgA: 8 NodeA\n SG_ SigA : 0|1@1+ (2,0) [0|0] \"\" NodeB\n SG_ SigB : 1|1@1+ (1,5) [0|0] \"\" NodeB\n SG_ SigC : 2|1@1+ (1,0) [0|1] \"\" NodeB\n" + attrs + "VAL_ 1 SigB 0 \"Off\" 1 \"On\" ;\n")
	// 1-bit multiplexer
	add("BO_ 2 MsgB: 8 NodeA\n SG_ SigM M : 0|1@1+ (1,0) [0|0] \"\" NodeB\n SG_ SigX m0 : 8|8@1+ (1,0) [0|0] \"\" NodeB\n SG_ SigY m1 : 8|16@1- (1,0) [0|0] \"\" NodeB\n" + attrs)
	// width thresholds
	for _, L := range []int{1, 2, 7, 8, 9, 15, 16, 17, 31, 32, 33, 63, 64} {
		for _, sign := range []string{"+", "-"} {
			add(fmt.Sprintf("BO_ 3 MsgC: 8 NodeA\n SG_ SigW : 0|%d@1%s (1,0) [0|0] \"\" NodeB\n", L, sign) + attrs)
		}
	}
	// float32 with and without range / scaling, enum + offset, range equal to / narrower than the representable range
	add("BO_ 4 MsgD: 8 NodeA\n SG_ SigF : 0|32@1+ (1,0) [0|0] \"\" NodeB\n SG_ SigG : 32|32@1+ (1,0) [-10|10] \"\" NodeB\n" + attrs + "SIG_VALTYPE_ 4 SigF : 1;\nSIG_VALTYPE_ 4 SigG : 1;\n")
	add("BO_ 5 MsgE: 8 NodeA\n SG_ SigR : 0|8@1+ (1,0) [0|255] \"\" NodeB\n SG_ SigS : 8|8@1+ (1,0) [0|254] \"\" NodeB\n SG_ SigT : 16|8@1- (1,0) [-128|127] \"\" NodeB\n SG_ SigU : 24|8@1- (1,0) [-127|127] \"\" NodeB\n SG_ SigV : 32|4@1+ (1,3) [0|0] \"\" NodeB\n" + attrs + "VAL_ 5 SigV 1 \"One\" 2 \"Two Words\" ;\n")
	// send types and node groups; a message without send type, no nodes
	add("BO_ 6 MsgF: 8 NodeA\n SG_ SigA : 0|8@1+ (1,0) [0|0] \"\" NodeB\nBO_ 7 MsgG: 8 NodeB\n SG_ SigB : 0|8@1+ (1,0) [0|0] \"\" NodeA,NodeB\nBO_ 8 MsgH: 2 Vector__XXX\n SG_ SigC : 0|8@1+ (1,0) [0|0] \"\" Vector__XXX\n" + attrs +
		"BA_ \"GenMsgSendType\" BO_ 6 \"Cyclic\";\nBA_ \"GenMsgCycleTime\" BO_ 6 100;\nBA_ \"GenMsgSendType\" BO_ 7 \"Event\";\n")
	// a minimum delay time on a cyclic and on an event message (the runner-facing glue must not depend on it)
	add("BO_ 10 MsgJ: 8 NodeA\n SG_ SigA : 0|8@1+ (1,0) [0|0] \"\" NodeB\nBO_ 11 MsgK: 8 NodeB\n SG_ SigB : 0|8@1+ (1,0) [0|0] \"\" NodeA\n" + attrs +
		"BA_DEF_ BO_ \"GenMsgDelayTime\" INT 0 100000;\nBA_ \"GenMsgSendType\" BO_ 10 \"Cyclic\";\nBA_ \"GenMsgCycleTime\" BO_ 10 100;\nBA_ \"GenMsgDelayTime\" BO_ 10 500;\n" +
		"BA_ \"GenMsgSendType\" BO_ 11 \"Event\";\nBA_ \"GenMsgDelayTime\" BO_ 11 300;\n")
	out = append(out, rangeGridDbc(hdr, attrs))
	out = append(out, "VERSION \"\"\nNS_ :\nBS_:\nBU_:\nBO_ 9 MsgI: 0 Vector__XXX\n")
	out = append(out, "VERSION \"\"\nNS_ :\nBS_:\nBU_: NodeA\n")
	return out
}

// rangeGridDbc: the physical-accessor decision for unscaled signals (factor 1, offset 0) on a grid of declared ranges:
// each bound below / equal to / inside / above the representable bound, for unsigned, signed and float32 signals of
// either sign character -- one signal per grid point
func rangeGridDbc(hdr, attrs string) string {
	var sb strings.Builder
	sb.WriteString(hdr)
	id, n := 20, 0
	var valtypes []string
	type kind struct {
		tag, sign  string
		L          int
		mins, maxs []string
	}
	f32 := "3.4028234663852886e+38"
	kinds := []kind{
		{"U", "+", 8, []string{"0", "10", "-5", "255"}, []string{"255", "254", "300", "1e10", "0"}},
		{"S", "-", 8, []string{"-128", "-127", "-200", "0", "5"}, []string{"127", "126", "200", "0", "1e10"}},
		{"W", "+", 13, []string{"0", "1"}, []string{"8191", "8190", "8192"}},
		{"X", "-", 13, []string{"-4096", "-4095", "-4097"}, []string{"4095", "4094", "4096"}},
		{"F", "+", 32, []string{"-" + f32, "-1e10", "-2147483648", "-2147483649", "-100", "0", "-3.5e38"}, []string{f32, "1e10", "2147483647", "2147483648", "100", "4294967295", "3.5e38"}},
		{"G", "-", 32, []string{"-" + f32, "-1e10", "-2147483648", "-2147483649", "-100", "0", "-3.5e38"}, []string{f32, "1e10", "2147483647", "2147483648", "100", "4294967295", "3.5e38"}},
	}
	for _, k := range kinds {
		per := 64 / k.L
		if k.L == 13 {
			per = 4
		}
		cnt := 0
		for _, mi := range k.mins {
			for _, ma := range k.maxs {
				if mi == "0" && ma == "0" {
					continue
				}
				if a, _ := strconv.ParseFloat(mi, 64); true {
					if b, _ := strconv.ParseFloat(ma, 64); a > b {
						continue // min <= max in the class
					}
				}
				if cnt%per == 0 {
					id++
					fmt.Fprintf(&sb, "BO_ %d Grid%s%d: 8 NodeA\n", id, k.tag, id)
				}
				name := fmt.Sprintf("Sig%s%d", k.tag, n)
				n++
				fmt.Fprintf(&sb, " SG_ %s : %d|%d@1%s (1,0) [%s|%s] \"\" NodeB\n", name, (cnt%per)*strideOf(k.L), k.L, k.sign, mi, ma)
				if k.L == 32 {
					valtypes = append(valtypes, fmt.Sprintf("SIG_VALTYPE_ %d %s : 1;\n", id, name))
				}
				cnt++
			}
		}
	}
	sb.WriteString(attrs)
	for _, v := range valtypes {
		sb.WriteString(v)
	}
	return sb.String()
}

func strideOf(L int) int {
	if L == 13 {
		return 16
	}
	return L
}

func genC11(g *G) {
	for _, d := range specialDbcs() {
		g.Emit("gapi %s", HexS([]byte(d)))
		g.Tag("special")
		g.Emit("gnode %s", HexS([]byte(d)))
	}
	n := g.N(40, 600)
	for i := 0; i < n; i++ {
		force := -1
		if i < len(widthClasses)*2 {
			force = i % len(widthClasses)
		}
		d := genDbc43(g, force)
		g.Emit("gapi %s", HexS(d.text))
		g.Tag("random-class")
		g.Emit("gnode %s", HexS(d.text))
	}
}

func genC03(g *G) { emitGenOps(g, g.N(24, 400), g.N(4, 12), 0, "C03") }
func genC10(g *G) {
	emitValidateBoundary(g)
	emitGenOps(g, g.N(24, 400), g.N(10, 40), g.N(40, 400), "C10")
}
func genC19(g *G) { emitGenOps(g, g.N(24, 400), g.N(12, 40), 0, "C19") }

func init() {
	RegGen("C03", genC03)
	RegGen("C10", genC10)
	RegGen("C11", genC11)
	RegGen("C19", genC19)
}
