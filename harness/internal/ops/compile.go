package ops

import (
	"fmt"
	"os"
	"sort"
	"strings"

	"go.einride.tech/can/internal/generate"
	"go.einride.tech/can/pkg/descriptor"
)

func dbDump(db *descriptor.Database) string {
	var sb strings.Builder
	fmt.Fprintf(&sb, "v=%s", hx(db.Version))
	for _, n := range db.Nodes {
		fmt.Fprintf(&sb, " | N %s %s", hx(n.Name), hx(n.Description))
	}
	for _, m := range db.Messages {
		fmt.Fprintf(&sb, " | M %d %s %d %s %s %d %d %d %s", m.ID, B(m.IsExtended), m.Length, hx(m.Name), hx(m.SenderNode), uint8(m.SendType),
			int64(m.CycleTime), int64(m.DelayTime), hx(m.Description))
		for _, s := range m.Signals {
			var vds []string
			for _, v := range s.ValueDescriptions {
				vds = append(vds, fmt.Sprintf("%d:%s", v.Value, hx(v.Description)))
			}
			vd := "-"
			if len(vds) > 0 {
				vd = strings.Join(vds, ",")
			}
			fmt.Fprintf(&sb, " $ S %s %d %d %s %s %s %s %s %d %s %s %s %s %s %s %d %s %s", hx(s.Name), s.Start, s.Length, B(s.IsBigEndian), B(s.IsSigned), B(s.IsFloat),
				B(s.IsMultiplexer), B(s.IsMultiplexed), s.MultiplexerValue, f64Str(s.Offset), f64Str(s.Scale), f64Str(s.Min), f64Str(s.Max), hx(s.Unit), hx(s.Description),
				s.DefaultValue, hxStrings(s.ReceiverNodes), vd)
		}
	}
	return sb.String()
}

var warnPosRe = strings.NewReplacer()

// warnClass extracts position and reason class from a compile warning.
func warnClass(w error) string {
	// format: "failed to compile: <reason> (<def %v>)" ; the def prints as &{{f.dbc OFF LINE COL} ...}
	s := w.Error()
	reason := s
	if i := strings.Index(s, "failed to compile: "); i >= 0 {
		reason = s[i+len("failed to compile: "):]
	}
	pos := "?"
	if j := strings.Index(reason, " (&{f.dbc:"); j >= 0 {
		rest := reason[j+len(" (&{f.dbc:"):]
		reason = reason[:j]
		pos = strings.Fields(rest)[0]
	}
	if i := strings.Index(reason, ": "); i >= 0 {
		reason = reason[:i]
	}
	return pos + "/" + reason
}

func compileDump(data []byte) string {
	res, err := generate.Compile("f.dbc", data)
	if err != nil {
		return "parse-error"
	}
	var ws []string
	for _, w := range res.Warnings {
		ws = append(ws, warnClass(w))
	}
	sort.Strings(ws)
	w := "-"
	if len(ws) > 0 {
		w = strings.Join(ws, ",")
	}
	return dbDump(res.Database) + " ;; W " + w
}

// ---- generator of the compilable class (DESIGN.md 4.2) with an independent expected database ----

type cSig struct {
	name                         string
	start, size                  int
	be, signed, mux, muxed, flt  bool
	muxVal                       int
	factor, offset, min, max     string
	unit, desc                   string
	recv                         []string
	vds                          [][2]string // value (integer text), description
	def                          int64
}

type cMsg struct {
	id              uint32
	name, sender    string
	size            int
	sendType        int
	cycle, delay    int64
	desc            string
	sigs            []*cSig
}

type cItem struct {
	lines []string
	warn  []string // reason classes of the warnings this item's first line produces
	pin   int      // 0: BA_DEF_ (first), 1: free
}

func (g *G) camel() string {
	const up = "ABCDEFGHIJKLMNOPQRSTUVWXYZ"
	const lo = "abcdefghijklmnopqrstuvwxyz0123456789"
	n := 2 + g.R.Intn(8)
	b := make([]byte, n)
	b[0] = up[g.R.Intn(26)]
	for i := 1; i < n; i++ {
		b[i] = lo[g.R.Intn(len(lo))]
	}
	return string(b)
}

func pickF(g *G) string {
	return g.R.Pick("0", "1", "0.5", "2", "-1", "0.001", "100", "1e-3", "-40", "3.14159", "65535", "1.5e3")
}

type cFile struct {
	version  string
	hasVer   bool
	nodes    []string
	nodeDesc map[string]string
	msgs     []*cMsg
	items    []*cItem
}

func genCompilable(g *G) *cFile {
	f := &cFile{nodeDesc: map[string]string{}}
	used := map[string]bool{}
	uniq := func() string {
		for {
			s := g.camel()
			if !used[s] {
				used[s] = true
				return s
			}
		}
	}
	if g.R.Intn(4) > 0 {
		f.hasVer = true
		f.version = g.R.Pick("", "1.0", "x y")
		f.items = append(f.items, &cItem{lines: []string{fmt.Sprintf("VERSION \"%s\"", f.version)}, pin: 1})
	}
	f.items = append(f.items, &cItem{lines: []string{"NS_ :"}, pin: 1}, &cItem{lines: []string{"BS_:"}, pin: 1})
	nn := g.R.Intn(5)
	for i := 0; i < nn; i++ {
		f.nodes = append(f.nodes, uniq())
	}
	node := func() string {
		if len(f.nodes) == 0 || g.R.Intn(4) == 0 {
			return "Vector__XXX"
		}
		return f.nodes[g.R.Intn(len(f.nodes))]
	}
	// attribute definitions first
	sendEnum := g.R.Bool()
	if sendEnum {
		f.items = append(f.items, &cItem{lines: []string{"BA_DEF_ BO_ \"GenMsgSendType\" ENUM \"Cyclic\",\"Event\",\"None\",\"Periodic\";"}})
	} else {
		f.items = append(f.items, &cItem{lines: []string{"BA_DEF_ BO_ \"GenMsgSendType\" STRING;"}})
	}
	f.items = append(f.items, &cItem{lines: []string{"BA_DEF_ BO_ \"GenMsgCycleTime\" INT 0 10000;"}},
		&cItem{lines: []string{"BA_DEF_ BO_ \"GenMsgDelayTime\" HEX 0 10000;"}},
		&cItem{lines: []string{"BA_DEF_ SG_ \"GenSigStartValue\" INT 0 0;"}},
		&cItem{lines: []string{"BA_DEF_ BU_ \"NodeAttr\" INT 0 10;"}},
		&cItem{lines: []string{"BA_DEF_ \"Global\" STRING;"}})
	ids := map[uint32]bool{}
	nm := g.R.Intn(6)
	for i := 0; i < nm; i++ {
		m := &cMsg{name: uniq(), sender: node(), size: g.R.Intn(9)}
		for {
			raw := uint32(g.R.Intn(0x800))
			forceExt := false
			if g.R.Intn(3) == 0 {
				raw = uint32(g.R.U64()) & 0x1fffffff
			}
			if g.R.Intn(6) == 0 {
				// boundary IDs of both formats: 0 and the maxima, standard-sized IDs in the extended format
				b := []uint32{0, 1, 0x7ff, 0x800, 0x1fffffff, 0x1ffffffe, 0x10000000}[g.R.Intn(7)]
				raw, forceExt = b, g.R.Bool()
			}
			if !ids[raw] {
				ids[raw] = true
				m.id = raw
				if raw > 0x7ff || forceExt || g.R.Intn(4) == 0 {
					m.id |= 0x80000000
				}
				break
			}
		}
		ns := g.R.Intn(6)
		keys := map[[2]int]bool{}
		names := map[string]bool{}
		hasMux := false
		for s := 0; s < ns; s++ {
			nm := g.camel()
			if g.R.Intn(2) == 0 {
				// names shared between messages (Counter, Checksum, ... are common in real databases)
				nm = g.R.Pick("Counter", "Checksum", "Status", "Mode", "Value")
			}
			sg := &cSig{name: nm, size: 1 + g.R.Intn(64), be: g.R.Bool(), signed: g.R.Bool(), factor: pickF(g), offset: pickF(g), min: "0", max: "0",
				unit: g.R.Pick("", "km/h", "°", "V"), recv: []string{node()}}
			if sg.factor == "0" {
				sg.factor = "1"
			}
			if g.R.Intn(3) == 0 {
				sg.recv = append(sg.recv, node())
			}
			if g.R.Intn(3) == 0 {
				sg.min, sg.max = "-100", "250.5"
			}
			if g.R.Intn(6) == 0 {
				sg.size = 32
			}
			if !hasMux && g.R.Intn(5) == 0 {
				sg.mux = true
				hasMux = true
			} else if hasMux && g.R.Intn(2) == 0 {
				sg.muxed = true
				sg.muxVal = g.R.Intn(8)
				if g.R.Intn(3) == 0 {
					// selector values around the byte and word boundaries of a wide multiplexer
					sg.muxVal = []int{255, 256, 257, 300, 511, 512, 65535, 65536, 1 << 24, 1<<31 - 1}[g.R.Intn(10)]
				}
			}
			sg.start = g.R.Intn(64)
			if g.R.Intn(20) == 0 {
				sg.start = 200 + g.R.Intn(56)
			}
			k := [2]int{sg.start, sg.muxVal}
			if keys[k] || names[sg.name] {
				continue
			}
			keys[k] = true
			names[sg.name] = true
			m.sigs = append(m.sigs, sg)
		}
		f.msgs = append(f.msgs, m)
	}
	if g.R.Intn(4) == 0 {
		f.items = append(f.items, &cItem{lines: []string{"BO_ 3221225472 VECTOR__INDEPENDENT_SIG_MSG: 0 Vector__XXX", " SG_ Loose : 0|8@1+ (1,0) [0|0] \"\" Vector__XXX"}, pin: 1})
	}
	// metadata, at most one per (kind, attribute, object)
	meta := func(line string, warn ...string) {
		f.items = append(f.items, &cItem{lines: []string{line}, warn: warn, pin: 1})
	}
	for _, n := range f.nodes {
		if g.R.Intn(3) == 0 {
			f.nodeDesc[n] = "node " + n
			meta(fmt.Sprintf("CM_ BU_ %s \"node %s\";", n, n))
		}
		if g.R.Intn(4) == 0 {
			meta(fmt.Sprintf("BA_ \"NodeAttr\" BU_ %s 3;", n))
		}
	}
	for _, m := range f.msgs {
		if g.R.Intn(3) == 0 {
			m.desc = "about " + m.name
			meta(fmt.Sprintf("CM_ BO_ %d \"about %s\";", m.id, m.name))
		}
		switch g.R.Intn(4) {
		case 0:
			st := g.R.Pick("Cyclic", "Event", "None", "Periodic", "OnEvent", "cyclicIfActive", "weird", "FixedPeriodic", "EnabledPeriodic", "EventPeriodic", "eventperiodic")
			if sendEnum {
				idx := g.R.Intn(4)
				st = []string{"Cyclic", "Event", "None", "Periodic"}[idx]
				if g.R.Bool() {
					meta(fmt.Sprintf("BA_ \"GenMsgSendType\" BO_ %d %d;", m.id, idx))
				} else {
					meta(fmt.Sprintf("BA_ \"GenMsgSendType\" BO_ %d \"%s\";", m.id, st))
				}
			} else {
				meta(fmt.Sprintf("BA_ \"GenMsgSendType\" BO_ %d \"%s\";", m.id, st))
			}
			switch strings.ToLower(st) {
			case "cyclic", "periodic", "cyclicifactive", "fixedperiodic", "enabledperiodic", "eventperiodic":
				m.sendType = 1
			case "event", "onevent":
				m.sendType = 2
			}
		}
		if g.R.Intn(3) == 0 {
			m.cycle = int64(g.R.Intn(5000))
			meta(fmt.Sprintf("BA_ \"GenMsgCycleTime\" BO_ %d %d;", m.id, m.cycle))
		}
		if g.R.Intn(4) == 0 {
			m.delay = int64(g.R.Intn(500))
			meta(fmt.Sprintf("BA_ \"GenMsgDelayTime\" BO_ %d %d;", m.id, m.delay))
		}
		for _, s := range m.sigs {
			if g.R.Intn(4) == 0 {
				s.desc = "signal\n" + s.name
				meta(fmt.Sprintf("CM_ SG_ %d %s \"signal\n%s\";", m.id, s.name, s.name))
				// the embedded newline moves later positions: handled by the renderer's line tracking
			}
			if g.R.Intn(4) == 0 {
				n := 1 + g.R.Intn(4)
				seen := map[int]bool{}
				var parts []string
				for i := 0; i < n; i++ {
					v := g.R.Intn(20) - 5
					if seen[v] {
						continue
					}
					seen[v] = true
					d := g.camel()
					s.vds = append(s.vds, [2]string{fmt.Sprint(v), d})
					parts = append(parts, fmt.Sprintf("%d \"%s\"", v, d))
				}
				meta(fmt.Sprintf("VAL_ %d %s %s ;", m.id, s.name, strings.Join(parts, " ")))
			}
			if g.R.Intn(5) == 0 {
				s.def = int64(g.R.Intn(100))
				meta(fmt.Sprintf("BA_ \"GenSigStartValue\" SG_ %d %s %d;", m.id, s.name, s.def))
			}
			switch g.R.Intn(8) {
			case 0:
				meta(fmt.Sprintf("SIG_VALTYPE_ %d %s : 0;", m.id, s.name))
			case 1:
				if s.size == 32 {
					s.flt = true
					meta(fmt.Sprintf("SIG_VALTYPE_ %d %s : 1;", m.id, s.name))
				} else {
					meta(fmt.Sprintf("SIG_VALTYPE_ %d %s 1;", m.id, s.name), "incorrect float signal length")
				}
			case 2:
				meta(fmt.Sprintf("SIG_VALTYPE_ %d %s : 2;", m.id, s.name), "unsupported signal value type")
			}
		}
	}
	// dangling references: one warning each, attached to nothing
	freeID := uint32(0x7ff)
	for ids[freeID] {
		freeID--
	}
	for i := 0; i < g.R.Intn(4); i++ {
		switch g.R.Intn(7) {
		case 0:
			meta(fmt.Sprintf("CM_ BO_ %d \"nobody\";", freeID), "no declared message")
		case 1:
			meta(fmt.Sprintf("CM_ SG_ %d Ghost \"nobody\";", freeID), "no declared signal")
		case 2:
			meta("CM_ BU_ GhostNode \"nobody\";", "no declared node")
		case 3:
			meta(fmt.Sprintf("VAL_ %d Ghost 1 \"A\" ;", freeID), "no declared signal")
		case 4:
			meta(fmt.Sprintf("BA_ \"GenMsgCycleTime\" BO_ %d 10;", freeID), "no declared message")
		case 5:
			meta(fmt.Sprintf("SIG_VALTYPE_ %d Ghost : 1;", freeID), "no declared signal")
		case 6:
			if len(f.msgs) > 0 {
				meta(fmt.Sprintf("BA_ \"GenSigStartValue\" SG_ %d GhostSig 1;", f.msgs[0].id), "no declared signal")
			}
		}
	}
	// definitions that denote nothing in the database
	meta("CM_ \"network comment\";")
	meta("VAL_TABLE_ Tbl 0 \"Zero\" 1 \"One\" ;")
	meta("BA_ \"Global\" \"x\";")
	meta("EV_ EnvVar: 0 [0|10] \"\" 0 1 DUMMY_NODE_VECTOR0 Vector__XXX;")
	meta("VAL_ EnvVar 0 \"Off\" ;")
	meta("SGTYPE_ something 1 2 3")
	return f
}

// render writes the items in the given order (BA_DEF_ items first) and returns text + expected dump.
func (f *cFile) render(g *G, shuffle bool) ([]byte, string) {
	nodes := append([]string(nil), f.nodes...)
	msgs := append([]*cMsg(nil), f.msgs...)
	var first, free []*cItem
	for _, it := range f.items {
		if it.pin == 0 {
			first = append(first, it)
		} else {
			free = append(free, it)
		}
	}
	// message items and the node line are created per rendering (their inner order may be permuted)
	if len(nodes) > 0 || g.R.Bool() {
		if shuffle {
			for i := len(nodes) - 1; i > 0; i-- {
				j := g.R.Intn(i + 1)
				nodes[i], nodes[j] = nodes[j], nodes[i]
			}
		}
		l := "BU_:"
		for _, n := range nodes {
			l += " " + n
		}
		free = append(free, &cItem{lines: []string{l}, pin: 1})
	}
	for _, m := range msgs {
		it := &cItem{pin: 1}
		it.lines = append(it.lines, fmt.Sprintf("BO_ %d %s: %d %s", m.id, m.name, m.size, m.sender))
		sigs := append([]*cSig(nil), m.sigs...)
		if shuffle {
			for i := len(sigs) - 1; i > 0; i-- {
				j := g.R.Intn(i + 1)
				sigs[i], sigs[j] = sigs[j], sigs[i]
			}
		}
		for _, s := range sigs {
			mux := ""
			if s.mux {
				mux = " M"
			} else if s.muxed {
				mux = fmt.Sprintf(" m%d", s.muxVal)
			}
			ord, sign := "1", "+"
			if s.be {
				ord = "0"
			}
			if s.signed {
				sign = "-"
			}
			it.lines = append(it.lines, fmt.Sprintf(" SG_ %s%s : %d|%d@%s%s (%s,%s) [%s|%s] \"%s\" %s", s.name, mux, s.start, s.size, ord, sign,
				s.factor, s.offset, s.min, s.max, s.unit, strings.Join(s.recv, ",")))
		}
		free = append(free, it)
	}
	if shuffle {
		for i := len(free) - 1; i > 0; i-- {
			j := g.R.Intn(i + 1)
			free[i], free[j] = free[j], free[i]
		}
		for i := len(first) - 1; i > 0; i-- {
			j := g.R.Intn(i + 1)
			first[i], first[j] = first[j], first[i]
		}
	}
	var sb strings.Builder
	var warns []string
	line := 1
	for _, it := range append(first, free...) {
		for k, l := range it.lines {
			if k == 0 {
				for _, w := range it.warn {
					warns = append(warns, fmt.Sprintf("%d:1/%s", line, w))
				}
			}
			sb.WriteString(l)
			sb.WriteString("\n")
			line += 1 + strings.Count(l, "\n")
		}
	}
	// expected database, canonical order
	var exp strings.Builder
	fmt.Fprintf(&exp, "v=%s", hx(f.version))
	sn := append([]string(nil), f.nodes...)
	sort.Strings(sn)
	for _, n := range sn {
		fmt.Fprintf(&exp, " | N %s %s", hx(n), hx(f.nodeDesc[n]))
	}
	sm := append([]*cMsg(nil), f.msgs...)
	sort.Slice(sm, func(i, j int) bool { return sm[i].id&0x7fffffff < sm[j].id&0x7fffffff })
	for _, m := range sm {
		fmt.Fprintf(&exp, " | M %d %s %d %s %s %d %d %d %s", m.id&0x7fffffff, B(m.id&0x80000000 != 0), m.size, hx(m.name), hx(m.sender), m.sendType,
			m.cycle*1000000, m.delay*1000000, hx(m.desc))
		ss := append([]*cSig(nil), m.sigs...)
		sort.Slice(ss, func(i, j int) bool {
			if ss[i].start != ss[j].start {
				return ss[i].start < ss[j].start
			}
			return ss[i].muxVal < ss[j].muxVal
		})
		for _, s := range ss {
			vd := "-"
			if len(s.vds) > 0 {
				v := append([][2]string(nil), s.vds...)
				sort.Slice(v, func(i, j int) bool { return I(v[i][0]) < I(v[j][0]) })
				var p []string
				for _, x := range v {
					p = append(p, x[0]+":"+hx(x[1]))
				}
				vd = strings.Join(p, ",")
			}
			desc := strings.ReplaceAll(s.desc, "\n", " ")
			fmt.Fprintf(&exp, " $ S %s %d %d %s %s %s %s %s %d %s %s %s %s %s %s %d %s %s", hx(s.name), s.start, s.size, B(s.be), B(s.signed), B(s.flt),
				B(s.mux), B(s.muxed), s.muxVal, f64Str(mustF(s.offset)), f64Str(mustF(s.factor)), f64Str(mustF(s.min)), f64Str(mustF(s.max)), hx(s.unit), hx(desc),
				s.def, hxStrings(s.recv), vd)
		}
	}
	sort.Strings(warns)
	w := "-"
	if len(warns) > 0 {
		w = strings.Join(warns, ",")
	}
	return []byte(sb.String()), exp.String() + " ;; W " + w
}

func mustF(s string) float64 {
	var f float64
	if _, err := fmt.Sscanf(s, "%g", &f); err != nil {
		panic(err)
	}
	return f
}

// sendTypeTable: every spelling of a send type the library documents (descriptor.SendType.UnmarshalString), with the
// send type it denotes (1 cyclic, 2 event), in several letter cases, and near misses that denote none
func sendTypeTable() [][2]string {
	var out [][2]string
	add := func(s string, v string) {
		for _, x := range []string{s, strings.ToLower(s), strings.ToUpper(s), strings.ToUpper(s[:1]) + strings.ToLower(s[1:])} {
			out = append(out, [2]string{x, v})
		}
	}
	for _, s := range []string{"Cyclic", "CyclicIfActive", "Periodic", "FixedPeriodic", "EnabledPeriodic", "EventPeriodic"} {
		add(s, "1")
	}
	for _, s := range []string{"Event", "OnEvent"} {
		add(s, "2")
	}
	for _, s := range []string{"None", "NoMsgSendType", "Cyclic ", " Event", "Events", "OnEvents", "EventCyclic", "IfActive", "Spontaneous", "x"} {
		add(s, "0")
	}
	out = append(out, [2]string{"", "0"})
	return out
}

func genC05(g *G) {
	for _, e := range sendTypeTable() {
		g.Emit("sendtype %s %s", HexS([]byte(e[0])), e[1])
	}
	g.Tag("send-type-table")
	n := g.N(150, 3000)
	perms := g.N(6, 24)
	for i := 0; i < n; i++ {
		f := genCompilable(g)
		text, exp := f.render(g, false)
		g.Emit("cmpx %s %s", HexS(text), HexS([]byte(exp)))
		for p := 0; p < perms; p++ {
			text, exp := f.render(g, true)
			g.Emit("cmpx %s %s", HexS(text), HexS([]byte(exp)))
		}
		g.Tag(fmt.Sprintf("msgs-%d", len(f.msgs)))
	}
	// the repository's own example database (in class)
	if ex, err := os.ReadFile("/repo/testdata/dbc/example/example.dbc"); err == nil {
		g.Emit("cmp %s", HexS(ex))
		g.Tag("example.dbc")
	}
}

func init() {
	RegGen("C05", genC05)
	RegExec("sendtype", func(a []string) string {
		var st descriptor.SendType
		if err := st.UnmarshalString(string(Hex(a[0]))); err != nil {
			return "err"
		}
		return fmt.Sprint(uint8(st))
	})
	RegExec("cmp", func(a []string) string { return compileDump(Hex(a[0])) })
	RegExec("cmpx", func(a []string) string { return compileDump(Hex(a[0])) })
}
