package ops

import (
	"fmt"
	"strings"

	"go.einride.tech/can/pkg/dbc"
	"go.einride.tech/can/pkg/dbc/analysis"
	"go.einride.tech/can/pkg/dbc/analysis/passes/boolprefix"
	"go.einride.tech/can/pkg/dbc/analysis/passes/definitiontypeorder"
	"go.einride.tech/can/pkg/dbc/analysis/passes/intervals"
	"go.einride.tech/can/pkg/dbc/analysis/passes/lineendings"
	"go.einride.tech/can/pkg/dbc/analysis/passes/messagenames"
	"go.einride.tech/can/pkg/dbc/analysis/passes/multiplexedsignals"
	"go.einride.tech/can/pkg/dbc/analysis/passes/newsymbols"
	"go.einride.tech/can/pkg/dbc/analysis/passes/nodereferences"
	"go.einride.tech/can/pkg/dbc/analysis/passes/noreservedsignals"
	"go.einride.tech/can/pkg/dbc/analysis/passes/requireddefinitions"
	"go.einride.tech/can/pkg/dbc/analysis/passes/signalbounds"
	"go.einride.tech/can/pkg/dbc/analysis/passes/signalnames"
	"go.einride.tech/can/pkg/dbc/analysis/passes/singletondefinitions"
	"go.einride.tech/can/pkg/dbc/analysis/passes/siunits"
	"go.einride.tech/can/pkg/dbc/analysis/passes/uniquemessageids"
	"go.einride.tech/can/pkg/dbc/analysis/passes/uniquenodenames"
	"go.einride.tech/can/pkg/dbc/analysis/passes/uniquesignalnames"
	"go.einride.tech/can/pkg/dbc/analysis/passes/unitsuffixes"
	"go.einride.tech/can/pkg/dbc/analysis/passes/valuedescriptions"
	"go.einride.tech/can/pkg/dbc/analysis/passes/version"
)

type namedAnalyzer struct {
	name string
	a    *analysis.Analyzer
}

func lintAnalyzers() []namedAnalyzer {
	return []namedAnalyzer{
		{"boolprefix", boolprefix.Analyzer()}, {"definitiontypeorder", definitiontypeorder.Analyzer()}, {"intervals", intervals.Analyzer()},
		{"lineendings", lineendings.Analyzer()}, {"messagenames", messagenames.Analyzer()}, {"multiplexedsignals", multiplexedsignals.Analyzer()},
		{"newsymbols", newsymbols.Analyzer()}, {"nodereferences", nodereferences.Analyzer()}, {"noreservedsignals", noreservedsignals.Analyzer()},
		{"requireddefinitions", requireddefinitions.Analyzer()}, {"signalbounds", signalbounds.Analyzer()}, {"signalnames", signalnames.Analyzer()},
		{"singletondefinitions", singletondefinitions.Analyzer()}, {"siunits", siunits.Analyzer()}, {"uniquemessageids", uniquemessageids.Analyzer()},
		{"uniquenodenames", uniquenodenames.Analyzer()}, {"uniquesignalnames", uniquesignalnames.Analyzer()},
		{"unitsuffixes", unitsuffixes.Analyzer()}, {"valuedescriptions", valuedescriptions.Analyzer()}, {"version", version.Analyzer()},
	}
}

func msgClass(m string) string {
	if strings.HasPrefix(m, "signal with unit") {
		return "signal with unit"
	}
	if i := strings.Index(m, ": "); i >= 0 {
		return m[:i]
	}
	return m
}

func runOne(na namedAnalyzer, f *dbc.File) (out string) {
	defer func() {
		if r := recover(); r != nil {
			out = na.name + "{PANIC " + strings.ReplaceAll(fmt.Sprint(r), " ", "_") + "}"
		}
	}()
	pass := &analysis.Pass{Analyzer: na.a, File: f}
	if err := na.a.Run(pass); err != nil {
		return na.name + "{ERROR}"
	}
	var ds []string
	for _, d := range pass.Diagnostics {
		ds = append(ds, fmt.Sprintf("%s/%s", posStr(d.Pos), msgClass(d.Message)))
	}
	return na.name + "{" + strings.Join(ds, ";") + "}"
}

func dumpDefs(defs []dbc.Def) string {
	var sb strings.Builder
	for _, d := range defs {
		sb.WriteString(DefStr(d))
		sb.WriteString("|")
	}
	return sb.String()
}

// ---- lint-aware generator: clean canonical files with seeded violations ----

type lintOpts struct{ v map[string]int }

func (o lintOpts) n(k string) int { return o.v[k] }

var lintViolations = []string{"version", "newsymbols", "missing-bs", "missing-bu", "dup-version", "dup-bs", "dup-bu", "dup-ns", "order", "interval-signal", "interval-ev",
	"interval-attr-int", "interval-attr-float", "crlf", "message-name", "signal-name", "two-mux", "signed-mux", "muxed-without-mux", "mux-exceeds", "undeclared-tx",
	"undeclared-rx", "undeclared-access", "undeclared-txbu", "reserved", "start-oob", "si-unit", "unit-suffix", "dup-msgid", "dup-node", "dup-signal", "valdesc-case",
	"valtable-case", "boolprefix"}

func genLintFile(g *G, o lintOpts) []byte {
	eol := "\n"
	if o.n("crlf") > 0 {
		eol = "\r\n"
	}
	var lines []string
	add := func(s string) { lines = append(lines, s) }
	ver := ""
	if o.n("version") > 0 {
		ver = "1.0"
	}
	add(fmt.Sprintf("VERSION \"%s\"", ver))
	for i := 0; i < o.n("dup-version"); i++ {
		add("VERSION \"\"")
	}
	if o.n("newsymbols") > 0 {
		add("NS_ :" + eol + "\tCM_" + eol + "\tBA_")
	} else {
		add("NS_ :")
	}
	for i := 0; i < o.n("dup-ns"); i++ {
		add("NS_ :")
	}
	if o.n("missing-bs") == 0 {
		add("BS_:")
	}
	for i := 0; i < o.n("dup-bs"); i++ {
		add("BS_:")
	}
	nodes := []string{"ECU1", "ECU2", "Gateway"}
	if g.R.Intn(4) == 0 {
		nodes = append(nodes, "Ecu1") // near miss of a duplicate node name
	}
	if o.n("missing-bu") == 0 {
		l := "BU_: " + strings.Join(nodes, " ")
		for i := 0; i < o.n("dup-node"); i++ {
			l += " " + nodes[i%len(nodes)]
		}
		add(l)
	}
	for i := 0; i < o.n("dup-bu"); i++ {
		l := "BU_: Extra" + fmt.Sprint(i)
		if g.R.Bool() && len(nodes) > 0 {
			// a name that an earlier BU_ line already declared: unique-node-names looks across all BU_ lines
			l += " " + nodes[g.R.Intn(len(nodes))]
		}
		add(l)
		nodes = append(nodes, "Extra"+fmt.Sprint(i))
	}
	if o.n("missing-bu") > 0 {
		nodes = nil
	}
	node := func() string {
		if len(nodes) == 0 || g.R.Intn(5) == 0 {
			return "Vector__XXX"
		}
		return nodes[g.R.Intn(len(nodes))]
	}
	vtDesc := "On"
	if o.n("valtable-case") > 0 {
		vtDesc = "not camel"
	}
	add(fmt.Sprintf("VAL_TABLE_ Switch 0 \"Off\" 1 \"%s\" ;", vtDesc))
	nMsg := 1 + g.R.Intn(4)
	var vals []string
	type pend struct{ k string }
	use := func(k string) bool { // consume one pending violation of kind k
		if o.v[k] > 0 {
			o.v[k]--
			return true
		}
		return false
	}
	for m := 0; m < nMsg; m++ {
		id := 100 + m
		if m > 0 && use("dup-msgid") {
			id = 100
		} else if m > 0 && g.R.Intn(3) == 0 {
			// near miss of a duplicate ID: the same number in the other ID format
			id = (100 + g.R.Intn(m)) | 0x80000000
		}
		name := fmt.Sprintf("Message%d", m)
		if use("message-name") {
			name = g.R.Pick("message_x", "lowerCase", "With_Underscore") + fmt.Sprint(m)
		}
		tx := node()
		if use("undeclared-tx") {
			tx = "Ghost"
		}
		size := 8
		if g.R.Intn(3) == 0 {
			size = 2 + g.R.Intn(6)
		}
		add(fmt.Sprintf("BO_ %d %s: %d %s", id, name, size, tx))
		nSig := 1 + g.R.Intn(4)
		bit := 0
		hasMux := false
		for s := 0; s < nSig && bit < 8*size-8; s++ {
			sname := fmt.Sprintf("Signal%d", s)
			ln := 2 + g.R.Intn(6)
			unit := ""
			mux := ""
			sign := "+"
			mn, mx := "0", "0"
			recv := node()
			start := bit
			switch {
			case use("signal-name"):
				sname = g.R.Pick("signal_x", "lower", "Has_Underscore") + fmt.Sprint(s)
			case use("reserved"):
				sname = "Reserved" + fmt.Sprint(s)
			case use("dup-signal") && s > 0:
				sname = "Signal0"
			case use("boolprefix"):
				ln = 1
				if g.R.Bool() {
					// near miss of the value-description exemption: the same signal name is described in another
					// message (an earlier or a later one), which does not exempt this one
					other := 100 + g.R.Intn(nMsg)
					if other == id {
						other = 100 + (m+1)%nMsg
					}
					if other != id {
						vals = append(vals, fmt.Sprintf("VAL_ %d %s 0 \"Off\" 1 \"On\" ;", other, sname))
					}
				}
			case use("si-unit"):
				unit = g.R.Pick("kph", "mps", "meters/sec", "meters", "deg", "degrees", "radians")
			case use("unit-suffix"):
				unit = g.R.Pick("°", "rad", "%", "km/h", "m/s")
			case use("interval-signal"):
				mn, mx = "5", "1"
			case use("undeclared-rx"):
				recv = "Ghost"
			case use("start-oob"):
				start = 8*size + g.R.Intn(100)
				if g.R.Bool() {
					start = 8 * size // the first position outside
				}
			case use("two-mux"):
				add(fmt.Sprintf(" SG_ MuxA%d M : %d|2@1+ (1,0) [0|0] \"\" %s", s, bit, node()))
				bit += 2
				mux = " M"
				hasMux = true
			case use("signed-mux"):
				mux = " M"
				sign = "-"
				hasMux = true
			case use("muxed-without-mux") && !hasMux:
				mux = " m1"
			case use("mux-exceeds"):
				add(fmt.Sprintf(" SG_ MuxB%d M : %d|2@1+ (1,0) [0|0] \"\" %s", s, bit, node()))
				bit += 2
				mux = " m9"
				hasMux = true
			default:
				switch g.R.Intn(8) {
				case 0:
					ln = 1
					sname = g.R.Pick("Is", "Has") + sname
				case 1:
					unit = "°"
					sname += "Degrees"
				case 2:
					unit = "km/h"
					sname += "Kph"
				case 3:
					mn, mx = "-1.5", "100"
				case 4:
					ln = 1
					vals = append(vals, fmt.Sprintf("VAL_ %d %s 0 \"Off\" 1 \"On\" ;", id, sname))
				case 5:
					// near misses: equal bounds, a name that only resembles a reserved one, the last bit of the message
					switch g.R.Intn(4) {
					case 0:
						mn, mx = g.R.Pick("3", "-5", "0.5"), ""
						mx = mn
					case 1:
						sname = g.R.Pick("ReserveTank", "PreReserved", "Reserve") + fmt.Sprint(s)
					case 2:
						ln = 1
						start = 8*size - 1
						sname = "IsLast" + fmt.Sprint(s)
						bit -= ln
					case 3:
						if hasMux {
							mux = fmt.Sprintf(" m%d", g.R.Intn(4)) // every value a 2-bit switch can take
						}
					}
				}
			}
			add(fmt.Sprintf(" SG_ %s%s : %d|%d@1%s (1,0) [%s|%s] \"%s\" %s", sname, mux, start, ln, sign, mn, mx, unit, recv))
			bit += ln
			if use("valdesc-case") {
				vals = append(vals, fmt.Sprintf("VAL_ %d %s 0 \"bad value\" -12 \"snake_case\" 3 \"Good\" ;", id, sname))
			}
		}
	}
	if g.R.Intn(3) == 0 {
		add("BO_ 3221225472 VECTOR__INDEPENDENT_SIG_MSG: 0 Vector__XXX")
		add(" SG_ Dup : 0|8@1+ (1,0) [0|0] \"\" Vector__XXX")
		add(" SG_ Dup : 100|8@1+ (1,0) [0|0] \"\" Vector__XXX")
	}
	txn := node()
	if use("undeclared-txbu") {
		txn = "Ghost"
	}
	add(fmt.Sprintf("BO_TX_BU_ 100 : %s,%s;", txn, node()))
	evmn, evmx := "0", "10"
	if use("interval-ev") {
		evmn, evmx = "10", "0"
	}
	acc := node()
	if use("undeclared-access") {
		acc = "Ghost"
	}
	add(fmt.Sprintf("EV_ EnvVar: 0 [%s|%s] \"\" 0 1 DUMMY_NODE_VECTOR0 %s;", evmn, evmx, acc))
	add("CM_ \"network comment\";")
	ai := "0 100"
	if use("interval-attr-int") {
		ai = "100 0"
	}
	af := "0 1.5"
	if use("interval-attr-float") {
		af = "5 1"
	}
	add(fmt.Sprintf("BA_DEF_ BO_ \"GenMsgCycleTime\" INT %s;", ai))
	add(fmt.Sprintf("BA_DEF_ SG_ \"Scale\" FLOAT %s;", af))
	add("BA_DEF_DEF_ \"GenMsgCycleTime\" 10;")
	add("BA_ \"GenMsgCycleTime\" BO_ 100 20;")
	lines = append(lines, vals...)
	for i := 0; i < o.n("order"); i++ {
		a, b := g.R.Intn(len(lines)), g.R.Intn(len(lines))
		if !strings.HasPrefix(lines[a], " SG_") && !strings.HasPrefix(lines[b], " SG_") && !strings.HasPrefix(lines[a], "BO_ ") && !strings.HasPrefix(lines[b], "BO_ ") {
			lines[a], lines[b] = lines[b], lines[a]
		}
	}
	return []byte(strings.Join(lines, eol) + eol)
}

func genC18(g *G) {
	for _, s := range []string{"", "\n", "FOO_ 1 2 3\nBAR_\n", "CM_ \"only metadata\";\nBA_DEF_ \"A\" INT 0 1;\n", "VERSION \"\"\n", "BS_:\nBU_:\n", "BS_:\n", "BU_: A A\n", "VERSION \"\"\r\n"} {
		g.Emit("lint %s", HexS([]byte(s)))
		g.Tag("degenerate")
	}
	// clean files
	for i := 0; i < g.N(60, 2000); i++ {
		g.Emit("lint %s", HexS(genLintFile(g, lintOpts{map[string]int{}})))
		g.Tag("clean")
	}
	// each rule x 1, many violations
	for _, v := range lintViolations {
		for _, cnt := range []int{1, 3} {
			for r := 0; r < g.N(4, 60); r++ {
				g.Emit("lint %s", HexS(genLintFile(g, lintOpts{map[string]int{v: cnt}})))
			}
		}
		g.Tag("rule-" + v)
	}
	// interactions between two and more rules
	for i := 0; i < g.N(300, 20000); i++ {
		o := map[string]int{}
		for k := 0; k < 2+g.R.Intn(4); k++ {
			o[lintViolations[g.R.Intn(len(lintViolations))]] = 1 + g.R.Intn(2)
		}
		g.Emit("lint %s", HexS(genLintFile(g, lintOpts{o})))
		g.Tag("interaction")
	}
	// arbitrary grammar-derived files (many incidental violations, all definition kinds)
	for i := 0; i < g.N(300, 10000); i++ {
		f := randLayoutFile(g, allKinds)
		g.Emit("lint %s", HexS(f.text))
		g.Tag("grammar-file")
	}
}

func init() {
	RegGen("C18", genC18)
	RegExec("lint", func(a []string) string {
		data := Hex(a[0])
		p := dbc.NewParser("f.dbc", data)
		if err := p.Parse(); err != nil {
			return "parse-error"
		}
		before := dumpDefs(p.Defs())
		as := lintAnalyzers()
		res := make([]string, len(as))
		for i, na := range as {
			res[i] = runOne(na, p.File())
		}
		unchanged := "unchanged"
		if dumpDefs(p.Defs()) != before || string(p.File().Data) != string(data) {
			unchanged = "FILE-MODIFIED"
		}
		// order independence: run again in reverse order on the same file
		order := "order-independent"
		for i := len(as) - 1; i >= 0; i-- {
			if runOne(as[i], p.File()) != res[i] {
				order = "ORDER-DEPENDENT"
			}
		}
		return strings.Join(res, " ") + " " + unchanged + " " + order
	})
}
