package ops

import (
	"bytes"
	"fmt"
	"strings"

	"go.einride.tech/can/pkg/candevice"
)

func u32s(g *G) []uint32 {
	out := []uint32{0, 1, 0xffffffff, 0x80000000, 0x01020304}
	out = append(out, 1<<uint(g.R.Intn(32)), uint32(g.R.U64()), uint32(g.R.U64()))
	return out
}

func pickU32(g *G) uint32 {
	v := u32s(g)
	return v[g.R.Intn(len(v))]
}

func randBytes(g *G, n int) []byte {
	b := make([]byte, n)
	for i := range b {
		b[i] = byte(g.R.U64())
	}
	return b
}

func genC20(g *G) {
	g.Emit("nlsz")
	n := g.N(300, 20000)
	for i := 0; i < n; i++ {
		g.Emit("nlm ifinfo %d %d %d %d %d", g.R.Intn(256), uint16(pickU32(g)), int32(pickU32(g)), pickU32(g), pickU32(g))
		var bt [8]string
		for j := range bt {
			bt[j] = fmt.Sprint(pickU32(g))
		}
		g.Emit("nlm bt %s", strings.Join(bt[:], " "))
		g.Emit("nlm cm %d %d", pickU32(g), pickU32(g))
		kind := g.R.Pick("can", "vcan")
		g.Emit("nlli %s %s %d %d", kind, strings.Join(bt[:], " "), pickU32(g), pickU32(g))
	}
	genLinkInfoStreams(g, g.N(600, 40000))
	// one-hot per field
	for f := 0; f < 8; f++ {
		for b := 0; b < 32; b++ {
			var bt [8]string
			for j := range bt {
				bt[j] = "0"
			}
			bt[f] = fmt.Sprint(uint32(1) << uint(b))
			g.Emit("nlm bt %s", strings.Join(bt[:], " "))
		}
	}
	for b := 0; b < 32; b++ {
		g.Emit("nlm cm %d 0", uint32(1)<<uint(b))
		g.Emit("nlm cm 0 %d", uint32(1)<<uint(b))
		g.Emit("nlm ifinfo 0 0 %d 0 0", int32(uint32(1)<<uint(b)))
		g.Emit("nlm ifinfo 0 0 0 %d 0", uint32(1)<<uint(b))
		g.Emit("nlm ifinfo 0 0 0 0 %d", uint32(1)<<uint(b))
	}
	// decoders on every slice length 0..2*size
	sizes := map[string]int{"ifinfo": 16, "bt": 32, "cm": 8, "btc": 48, "clk": 4, "berr": 4, "stats": 24}
	for _, k := range []string{"ifinfo", "bt", "cm", "btc", "clk", "berr", "stats"} {
		for ln := 0; ln <= 2*sizes[k]; ln++ {
			reps := 1
			if ln == sizes[k] {
				reps = g.N(40, 2000)
			}
			for r := 0; r < reps; r++ {
				g.Emit("nlu %s %s", k, HexS(randBytes(g, ln)))
			}
		}
		g.Tag("decoder-" + k)
	}
}

// nlAttr frames one netlink attribute (length, type, payload, padding to 4) in native (little-endian) order.
func nlAttr(typ uint16, payload []byte) []byte {
	l := 4 + len(payload)
	b := []byte{byte(l), byte(l >> 8), byte(typ), byte(typ >> 8)}
	b = append(b, payload...)
	for len(b)%4 != 0 {
		b = append(b, 0)
	}
	return b
}

// genLinkInfoStreams: well-framed attribute streams around IFLA_LINKINFO whose fixed-size attributes have right and
// wrong sizes in every position, repeated attributes, unknown attributes, other kinds.
func genLinkInfoStreams(g *G, n int) {
	sizes := map[uint16]int{1: 32, 2: 48, 3: 4, 5: 8, 8: 4}
	infoTypes := []uint16{1, 2, 3, 5, 8, 4, 6, 99}
	for i := 0; i < n; i++ {
		var data []byte
		na := g.R.Intn(5)
		wrongAt := -1
		if g.R.Intn(3) == 0 && na > 0 {
			wrongAt = g.R.Intn(na)
		}
		for k := 0; k < na; k++ {
			t := infoTypes[g.R.Intn(len(infoTypes))]
			sz, fixed := sizes[t]
			if !fixed {
				sz = g.R.Intn(12)
			}
			if k == wrongAt && fixed {
				sz = []int{0, sz - 1, sz + 1, sz + 4, 2 * sz, sz / 2}[g.R.Intn(6)]
			}
			data = append(data, nlAttr(t, randBytes(g, sz))...)
		}
		var li []byte
		kind := g.R.Pick("can", "vcan", "can", "vcan", "bridge", "")
		parts := [][]byte{nlAttr(1, append([]byte(kind), 0)), nlAttr(2|0x8000, data)}
		if g.R.Intn(4) == 0 {
			sz := 24
			if g.R.Intn(3) == 0 {
				sz = []int{0, 23, 25, 28, 48}[g.R.Intn(5)]
			}
			parts = append(parts, nlAttr(3, randBytes(g, sz)))
		}
		if g.R.Intn(4) == 0 {
			parts[0], parts[1] = parts[1], parts[0]
		}
		for _, p := range parts {
			li = append(li, p...)
		}
		var top []byte
		if g.R.Bool() {
			top = append(top, nlAttr(3, []byte("can0\x00"))...) // IFLA_IFNAME
		}
		top = append(top, nlAttr(18|0x8000, li)...)
		if g.R.Intn(4) == 0 {
			top = append(top, nlAttr(4, randBytes(g, 4))...) // IFLA_MTU
		}
		g.Emit("nlraw %s", HexS(top))
		g.Tag("linkinfo-stream")
	}
}

func init() {
	RegGen("C20", genC20)
	RegExec("nlraw", func(a []string) string {
		kind, bt, m, f, err := candevice.VerifLinkInfoDecode(Hex(a[0]))
		if err != nil {
			return "dec-err"
		}
		return fmt.Sprintf("%s %s %d %d", kind, joinU32(bt[:]), m, f)
	})
	RegExec("nlsz", func(a []string) string {
		s := candevice.VerifSizes()
		return fmt.Sprintf("%d %d %d %d %d %d", s[0], s[1], s[2], s[3], s[4], s[5])
	})
	RegExec("nlm", func(a []string) string {
		var b, img []byte
		switch a[0] {
		case "ifinfo":
			b, img = candevice.VerifIfInfoMarshal(U8(a[1]), uint16(U(a[2])), int32(I(a[3])), uint32(U(a[4])), uint32(U(a[5])))
		case "bt":
			var v [8]uint32
			for i := range v {
				v[i] = uint32(U(a[1+i]))
			}
			b, img = candevice.VerifBitTimingMarshal(v)
		case "cm":
			b, img = candevice.VerifCtrlModeMarshal(uint32(U(a[1])), uint32(U(a[2])))
		default:
			return "bad-op"
		}
		s := "img=ok"
		if !bytes.Equal(b, img) {
			s = "img=diff"
		}
		return HexS(b) + " " + s
	})
	RegExec("nlu", func(a []string) string {
		b := Hex(a[1])
		switch a[0] {
		case "ifinfo":
			f, t, i, fl, c, err := candevice.VerifIfInfoUnmarshal(b)
			if err != nil {
				return "err"
			}
			return fmt.Sprintf("ok %d %d %d %d %d", f, t, uint32(i), fl, c)
		case "bt":
			v, err := candevice.VerifBitTimingUnmarshal(b)
			if err != nil {
				return "err"
			}
			return "ok " + joinU32(v[:])
		case "cm":
			m, f, err := candevice.VerifCtrlModeUnmarshal(b)
			if err != nil {
				return "err"
			}
			return fmt.Sprintf("ok %d %d", m, f)
		case "btc":
			name, v, err := candevice.VerifBitTimingConstUnmarshal(b)
			if err != nil {
				return "err"
			}
			return "ok " + HexS(name[:]) + " " + joinU32(v[:])
		case "clk":
			v, err := candevice.VerifClockUnmarshal(b)
			if err != nil {
				return "err"
			}
			return fmt.Sprintf("ok %d", v)
		case "berr":
			t, r, err := candevice.VerifBerrUnmarshal(b)
			if err != nil {
				return "err"
			}
			return fmt.Sprintf("ok %d %d", t, r)
		case "stats":
			v, err := candevice.VerifStatsUnmarshal(b)
			if err != nil {
				return "err"
			}
			return "ok " + joinU32(v[:])
		}
		return "bad-op"
	})
	RegExec("nlli", func(a []string) string {
		var v [8]uint32
		for i := range v {
			v[i] = uint32(U(a[1+i]))
		}
		enc, err := candevice.VerifLinkInfoEncode(a[0], v, uint32(U(a[9])), uint32(U(a[10])))
		if err != nil {
			return "enc-err"
		}
		kind, bt, m, f, err := candevice.VerifLinkInfoDecode(enc)
		if err != nil {
			return HexS(enc) + " | dec-err"
		}
		return fmt.Sprintf("%s | %s %s %d %d", HexS(enc), kind, joinU32(bt[:]), m, f)
	})
}

func joinU32(v []uint32) string {
	s := make([]string, len(v))
	for i, x := range v {
		s[i] = fmt.Sprint(x)
	}
	return strings.Join(s, " ")
}
