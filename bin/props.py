"""Per-property configuration for bin/check."""

COMMON_TRUSTED = [
    "Lean 4.33.0 kernel (thorough tier: re-checked with leanchecker)",
    "axioms per theorem are listed under coverage.axioms (allowed: propext, Classical.choice, Quot.sound)",
    "Go harness /verif/harness (generators, executors, canonicalisation) and bin/check (differ, verdict)",
    "the canmodel driver's parsing of operation lines (lean/Driver)",
]
COMMON_ASSUMPTIONS = [
    "theorems are about the hand-written Lean model (lean/CanVerif/Model); the model is tied to /repo's working tree "
    "by executing model and implementation on the same operation lines on every run (correspondence)",
]

CONFIG = {
    "C01": dict(
        level_text="Kernel-checked Lean theorems (Props/C01.lean) state the read semantics for all 2^64 payloads, all fitting ranges and all bit indices over the executable model of data.go/reinterpret.go; the model is compared with the real functions on all 4160 geometries x GF(2) payload basis + random words on every run, together with an independent bit-by-bit oracle.",
        level_note="Trusted: Lean kernel; the hand-written model Model/Bits.lean (Go uint8/uint64 semantics) validated only by the correspondence run; harness and driver. Axioms: propext, Quot.sound, Classical.choice at most.",
        level="proof", exhaustive=True,
        exhaustive_what="all 4160 fitting (order,start,length) geometries; all 256 Bit indices; payloads: GF(2) basis + seeded random",
        trivial=r"^(0|1|-1|ok|err|-|0{16}|f{16}|18446744073709551615)$",
        trusted_base=["Go integer semantics as modelled in Model/Bits.lean (uint8 wrap-around, shifts >= width give 0)"],
    ),
    "C02": dict(
        level_text="Kernel-checked Lean theorems (Props/C02.lean): inside/outside bit semantics of writes, read-after-write, signed writes, commutation of disjoint writes and permutation-invariance of write histories, for all payloads/values/ranges; model compared with the real setters on all 4160 geometries and sampled histories each run.",
        level_note="Trusted: Lean kernel; Model/Bits.lean validated by correspondence; harness and driver.",
        level="proof", exhaustive=True,
        exhaustive_what="all 4160 fitting geometries; all 256 SetBit indices; values/priors: boundary + seeded random; write histories sampled",
        trivial=r"^(0|1|-|0{16}|f{16}|0{16} 0{16}|f{16} f{16})$",
        trusted_base=["Go integer semantics as modelled in Model/Bits.lean"],
    ),
    "C08": dict(
        level_text="Kernel-checked Lean theorems (Props/C08.lean): descriptor (un)marshal functions are the C01/C02 functions of the descriptor's layout (inheriting their bit-level specs), exact closed-form bounds for every length 1..64, saturated casts equal clamping to those bounds for every int64/uint64 argument, float signals move exactly the 32-bit pattern; model compared with pkg/descriptor on all 4160 geometries, every length and boundary/random arguments on every run.",
        level_note="Trusted: Lean kernel; Model/Signal.lean + Model/Bits.lean validated by correspondence; hardware float32<->float64 conversions (exactly representable values only are exercised); harness and driver.",
        level="proof", exhaustive=True,
        exhaustive_what="all 4160 fitting geometries x {signed, unsigned, float32 on 32-bit}; every length 1..64 for bounds and saturation",
        trivial=r"^(0|1|-1|-|0{16}|f{16})$",
        trusted_base=["Go integer semantics as modelled in Model/Bits.lean, Model/Signal.lean", "float32<->float64 hardware conversion (uninterpreted; only the bit pattern is modelled)"],
    ),
    "C17": dict(
        level_text="Kernel-checked Lean theorems (Props/C17.lean): the three checks are equivalent to the declarative fit predicates for all arguments, and a passing check confines reads/writes to the first frameLength bytes; the model is compared with the real functions on the complete 1,175,040-case domain on every run.",
        level_note="Trusted: Lean kernel; Model/Bits.lean (checkLE/checkBE/checkValue) validated by the exhaustive correspondence run; harness and driver.",
        level="proof", exhaustive=True,
        exhaustive_what="the complete domain frameLength 0..8 x start 0..255 x length 1..255 x {LE,BE} (1,175,040 cases); CheckValue bits 1..64 at boundaries + random",
        trivial=r"^(err|-)$",
        rule="every case of the finite domain is enumerated; a case counts as non-trivial when the check passes (result ok...)",
        trusted_base=["Go integer semantics as modelled in Model/Bits.lean"],
    ),
}

PRE_PROVE = {}
TIES = {}
