"""Per-property configuration for bin/check."""

COMMON_TRUSTED = [
    "Lean 4.33.0 kernel (thorough tier: re-checked with leanchecker)",
    "axioms per theorem are listed under coverage.axioms (allowed: propext, Classical.choice, Quot.sound)",
    "Go harness /verif/harness (generators, executors, canonicalisation) and bin/check (differ, verdict)",
    "the canmodel driver's parsing of operation lines (lean/Driver)",
]
COMMON_ASSUMPTIONS = [
    "theorems are about the hand-written Lean model (lean/CanVerif/Model); the model is tied to /repo's working tree "
    "by executing model and implementation on the same operation lines on every run (correspondence)",
]

CONFIG = {
    "C01": dict(
        technique="Lean 4 kernel-checked theorems about an executable model; the model is tied to the code (a) by a Go-to-Lean translator run on every check with equivalence to the model proved for all inputs (bv_decide) and (b) by differential execution (correspondence) on every run",
        modules=["CanVerif.Props.C01", "CanVerif.Bridge.DataGo", "CanVerif.Props.C01Code"],
        t2_modules=["CanVerif.Bridge.DataGo", "CanVerif.Props.C01Code"],
        level_text="Kernel-checked Lean theorems (Props/C01.lean) state the read semantics for all 2^64 payloads, all fitting ranges and all bit indices over the executable model of data.go/reinterpret.go; the model is compared with the real functions on all 4160 geometries x GF(2) payload basis + random words on every run, together with an independent bit-by-bit oracle. The functions themselves are additionally translated from the working tree to Lean on every run (T1, harness/cmd/go2lean) and proved equal to the model for all arguments, and free of run-time panics, by bv_decide (Bridge/DataGo.lean); Props/C01Code.lean restates the theorems about the translated code. If the translator does not cover the current source shape the run says so (coverage.tie_notes) and rests on the correspondence run.",
        level_note="Trusted: Lean kernel; the hand-written model Model/Bits.lean (Go uint8/uint64 semantics) validated only by the correspondence run; harness and driver. Axioms: propext, Quot.sound, Classical.choice at most. T1 bridge theorems and the *Code corollaries additionally depend on bv_decide certificate axioms (<theorem>._native.bv_decide.ax_*, i.e. Lean.ofReduceBool on the LRAT checker), listed per theorem under coverage.axioms; the property theorems over the model do not. Trusted in T1: the translator's rendering of Go integer semantics (go/types decides every type), [8]byte as a 64-bit vector, encoding/binary and math/bits intrinsics.",
        level="proof", exhaustive=True,
        exhaustive_what="all 4160 fitting (order,start,length) geometries; all 256 Bit indices; payloads: GF(2) basis + seeded random",
        trivial=r"^(0|1|-1|ok|err|-|0{16}|f{16}|18446744073709551615)$",
        trusted_base=["Go integer semantics as modelled in Model/Bits.lean (uint8 wrap-around, shifts >= width give 0)", "T1: harness/cmd/go2lean (Go -> Lean translator) and bv_decide's certificate checker (axioms listed per theorem)"],
    ),
    "C02": dict(
        technique="Lean 4 kernel-checked theorems about an executable model; the model is tied to the code (a) by a Go-to-Lean translator run on every check with equivalence to the model proved for all inputs (bv_decide) and (b) by differential execution (correspondence) on every run",
        modules=["CanVerif.Props.C02", "CanVerif.Bridge.DataGo", "CanVerif.Props.C02Code"],
        t2_modules=["CanVerif.Bridge.DataGo", "CanVerif.Props.C02Code"],
        level_text="Kernel-checked Lean theorems (Props/C02.lean): inside/outside bit semantics of writes, read-after-write, signed writes, commutation of disjoint writes and permutation-invariance of write histories, for all payloads/values/ranges; model compared with the real setters on all 4160 geometries and sampled histories each run. The functions themselves are additionally translated from the working tree to Lean on every run (T1, harness/cmd/go2lean) and proved equal to the model for all arguments, and free of run-time panics, by bv_decide (Bridge/DataGo.lean); Props/C02Code.lean restates the theorems about the translated code. If the translator does not cover the current source shape the run says so (coverage.tie_notes) and rests on the correspondence run.",
        level_note="Trusted: Lean kernel; Model/Bits.lean validated by correspondence; harness and driver. T1 bridge theorems and the *Code corollaries additionally depend on bv_decide certificate axioms (<theorem>._native.bv_decide.ax_*, i.e. Lean.ofReduceBool on the LRAT checker), listed per theorem under coverage.axioms; the property theorems over the model do not. Trusted in T1: the translator's rendering of Go integer semantics (go/types decides every type), [8]byte as a 64-bit vector, encoding/binary and math/bits intrinsics.",
        level="proof", exhaustive=True,
        exhaustive_what="all 4160 fitting geometries; all 256 SetBit indices; values/priors: boundary + seeded random; write histories sampled",
        trivial=r"^(0|1|-|0{16}|f{16}|0{16} 0{16}|f{16} f{16})$",
        trusted_base=["Go integer semantics as modelled in Model/Bits.lean"],
    ),
    "C06": dict(
        modules=["CanVerif.Props.C06", "CanVerif.Bridge.FrameGo", "CanVerif.Props.C06Code"],
        t2_modules=["CanVerif.Bridge.FrameGo", "CanVerif.Props.C06Code"],
        technique="Lean 4 kernel-checked theorems about an executable model; the model is tied to the code (a) by a Go-to-Lean translator run on every check with equivalence to the model proved for all inputs (bv_decide) and (b) by differential execution (correspondence) on every run",
        level_text="Kernel-checked Lean theorems (Props/C06.lean): transmit layout of every frame, flag/ID/length/data decoding of every one of the 2^128 blocks, error-frame fields at the linux/can/error.h offsets, validation iff, and decode(encode f) = f for every valid frame; the model is compared with the real Transmitter/Receiver (public API, recording net.Conn / scripted reader) on all 2^11 standard IDs, structured and random extended IDs and blocks on every run; flag/mask constants cross-checked against golang.org/x/sys/unix. Frame.Validate, encodeFrame, decodeFrame, the flag / ID getters and the error-frame getters are additionally translated from the working tree to Lean on every run (T1, harness/cmd/go2lean) and proved equal to the model for every frame, and panic-free (Bridge/FrameGo.lean, bv_decide); marshalBinary / unmarshalBinary are translated too (the first 64 bytes of the slice and its length are modelled; shorter slices provably panic at the code's own bounds check); Props/C06Code.lean restates validation, the transmitted 16 bytes, the decoding of every one of the 2^128 received blocks, error fields and the end-to-end round trip about the translated transmit and receive paths (codeWire, codeUnwire). If the translator does not cover the current source shape the run says so (coverage.tie_notes) and rests on the correspondence run.",
        level_note="Trusted: Lean kernel; Model/Frame.lean validated by correspondence; the byte<->BitVec 128 conversion of the driver; kernel ABI constants transcribed by hand (cross-checked with x/sys/unix). T1 bridge theorems and the *Code corollaries additionally depend on bv_decide certificate axioms (listed per theorem under coverage.axioms); Byte slices are modelled as their first 64 bytes plus length; the composition of the translated functions in TransmitFrame / Receive (fresh zero buffer, fresh zero frame) is written by hand in Props/C06Code.lean (codeWire, codeUnwire).",
        level="proof", exhaustive=True,
        exhaustive_what="all 2^11 standard IDs; all 8 flag combinations x 37 ID patterns x dlc classes for received blocks; Validate for every length 0..255",
        trivial=r"^(ok|err|-)$",
        trusted_base=["Model/Frame.lean: wire block as BitVec 128 (byte k = bits 8k..8k+7)", "linux/can.h, linux/can/error.h constants transcribed by hand, cross-checked against x/sys/unix at run time"],
    ),
    "C07": dict(
        level_text="Kernel-checked Lean theorems (Props/C07.lean), by induction over the read script: for every stream and every segmentation the receiver yields exactly the floor(n/16) blocks of the concatenation in order, a read error ends reception after the frames completed before it, EOF is silent, transmit is one write with the interceptor after success; the model of bufio.Scanner+scanFrames is compared with the real Receiver over scripted io.Readers (every constant chunk size 1..64, all 2^(n-1) cut sets of short streams, random partitions, error injection at every read index) on every run.",
        level_note="Trusted: Lean kernel; Model/BufScanner.lean is a model of bufio.Scanner (stdlib) restricted to scanFrames, validated by correspondence only; buffer growth and the 100-empty-reads rule are outside the model.",
        level="proof", exhaustive=True,
        exhaustive_what="every constant chunk size 1..64; all cut sets of streams of 1,15,16,17 (quick) and 18 (thorough) bytes",
        trivial=r"^n=0 .*$",
        rule="scripts are generated per the generator in harness/internal/ops/socketcan.go; a case counts as non-trivial when at least one frame is delivered",
        trusted_base=["bufio.Scanner (stdlib) is modelled, not verified"],
    ),
    "C08": dict(
        modules=["CanVerif.Props.C08", "CanVerif.Bridge.SignalGo", "CanVerif.Props.C08Code"],
        t2_modules=["CanVerif.Bridge.SignalGo", "CanVerif.Props.C08Code"],
        technique="Lean 4 kernel-checked theorems about an executable model; the model is tied to the code (a) by a Go-to-Lean translator run on every check with equivalence to the model proved for all inputs (bv_decide) and (b) by differential execution (correspondence) on every run",
        level_text="Kernel-checked Lean theorems (Props/C08.lean): descriptor (un)marshal functions are the C01/C02 functions of the descriptor's layout (inheriting their bit-level specs), exact closed-form bounds for every length 1..64, saturated casts equal clamping to those bounds for every int64/uint64 argument, float signals move exactly the 32-bit pattern; model compared with pkg/descriptor on all 4160 geometries, every length and boundary/random arguments on every run. The integer functions of signal.go (layout dispatch, bool access, bounds, saturated casts) are additionally translated from the working tree to Lean on every run (T1, harness/cmd/go2lean) and proved equal to the model for every descriptor, payload and value, and panic-free, by bv_decide (Bridge/SignalGo.lean); Props/C08Code.lean restates the theorems about the translated code. If the translator does not cover the current source shape the run says so (coverage.tie_notes) and rests on the correspondence run.",
        level_note="Trusted: Lean kernel; Model/Signal.lean + Model/Bits.lean validated by correspondence; hardware float32<->float64 conversions (exactly representable values only are exercised); harness and driver. T1 bridge theorems and the *Code corollaries additionally depend on bv_decide certificate axioms (listed per theorem under coverage.axioms); the float functions are not translated.",
        level="proof", exhaustive=True,
        exhaustive_what="all 4160 fitting geometries x {signed, unsigned, float32 on 32-bit}; every length 1..64 for bounds and saturation",
        trivial=r"^(0|1|-1|-|0{16}|f{16})$",
        trusted_base=["Go integer semantics as modelled in Model/Bits.lean, Model/Signal.lean", "float32<->float64 hardware conversion (uninterpreted; only the bit pattern is modelled)"],
    ),
    "C15": dict(
        level_text="Kernel-checked Lean theorems (Props/C15.lean) over byte strings: every instance of the documented pattern in either letter case parses to the frame it denotes (C15_accept), the text of every valid frame is an upper-case pattern instance (C15_print_shape) and parses back to the identical frame (C15_roundtrip), parsing is total and atomic by construction with every partial Go operation guarded; the model is compared with Frame.String/UnmarshalString on all 2^11 standard IDs, extended boundary/random IDs, grammar-derived, mutated and random byte strings (destination pre-filled with a sentinel) on every run.",
        level_note="Trusted: Lean kernel; Model/FrameText.lean models fmt %03X/%08X, strconv.ParseUint/Atoi, encoding/hex, strings.Split for the inputs that occur (validated by correspondence); harness and driver. Every parsed frame has zero unused bytes (C15_parsed_unused_zero) and printing and re-parsing a valid parsed frame is the identity (C15_reprint).",
        level="proof", exhaustive=True,
        exhaustive_what="all 2^11 standard IDs; remote lengths 0..255",
        trivial=r"^(err|-)$",
        trusted_base=["stdlib fmt/strconv/hex/strings modelled in Model/FrameText.lean, validated by correspondence"],
    ),
    "C16": dict(
        level_text="Kernel-checked Lean theorems (Props/C16.lean): the encoder output of every valid frame is exactly the serialisation of the members the property lists (C16_members); decoding that object with the modelled encoding/json struct rules and UnmarshalJSON's logic returns the identical frame (C16_roundtrip_tree); remote without length is rejected; decoding is total. The text->tree step (a Lean model of encoding/json's scanner) is executable and compared with encoding/json on every run: JSON() output checked with json.Valid and json.Marshal, round trips directly and inside slices/maps/structs/pointers, and structured, mutated and fixed edge documents decoded on both sides.",
        level_note="Trusted: Lean kernel; Model/Json.lean is a model of encoding/json (stdlib), validated by correspondence only; the scanner model reads the encoder's text back as the tree written (parseJson_renderObj, C16 text round trip); nesting depth > 10000 and invalid UTF-8 replacement are outside the model.",
        level="proof", exhaustive=True,
        exhaustive_what="all 2^11 standard IDs for the encoder; the fixed edge-document list",
        trivial=r"^(err|-)$",
        trusted_base=["encoding/json (stdlib) modelled in Model/Json.lean, validated by correspondence"],
    ),
    "C17": dict(
        technique="Lean 4 kernel-checked theorems about an executable model; the model is tied to the code (a) by a Go-to-Lean translator run on every check with equivalence to the model proved for all inputs (bv_decide) and (b) by differential execution (correspondence) on every run",
        modules=["CanVerif.Props.C17", "CanVerif.Bridge.DataGo", "CanVerif.Props.C17Code"],
        t2_modules=["CanVerif.Bridge.DataGo", "CanVerif.Props.C17Code"],
        level_text="Kernel-checked Lean theorems (Props/C17.lean): the three checks are equivalent to the declarative fit predicates for all arguments, and a passing check confines reads/writes to the first frameLength bytes; the model is compared with the real functions on the complete 1,175,040-case domain on every run. The functions themselves are additionally translated from the working tree to Lean on every run (T1, harness/cmd/go2lean) and proved equal to the model for all arguments, and free of run-time panics, by bv_decide (Bridge/DataGo.lean); Props/C17Code.lean restates the theorems about the translated code. If the translator does not cover the current source shape the run says so (coverage.tie_notes) and rests on the correspondence run.",
        level_note="Trusted: Lean kernel; Model/Bits.lean (checkLE/checkBE/checkValue) validated by the exhaustive correspondence run; harness and driver. T1 bridge theorems and the *Code corollaries additionally depend on bv_decide certificate axioms (<theorem>._native.bv_decide.ax_*, i.e. Lean.ofReduceBool on the LRAT checker), listed per theorem under coverage.axioms; the property theorems over the model do not. Trusted in T1: the translator's rendering of Go integer semantics (go/types decides every type), [8]byte as a 64-bit vector, encoding/binary and math/bits intrinsics.",
        level="proof", exhaustive=True,
        exhaustive_what="the complete domain frameLength 0..8 x start 0..255 x length 1..255 x {LE,BE} (1,175,040 cases); CheckValue bits 1..64 at boundaries + random",
        trivial=r"^(err|-)$",
        rule="every case of the finite domain is enumerated; a case counts as non-trivial when the check passes (result ok...)",
        trusted_base=["Go integer semantics as modelled in Model/Bits.lean"],
    ),
}

CONFIG["C20"] = dict(
    modules=["CanVerif.Props.C20", "CanVerif.Bridge.NetlinkGo"],
    t2_modules=["CanVerif.Bridge.NetlinkGo"],
    technique="Lean 4 kernel-checked theorems about an executable model tied to the code by differential execution on every run; the fixed-size (un)marshalers are in addition translated from the Go source on every check and the byte-image, round-trip and size-guard statements proved about the translated code for all inputs (bv_decide)",
    level_text="Kernel-checked Lean theorems (Props/C20.lean): every image is the concatenation of the structure's fields in kernel order and size, has the structure's size, decodes back to the original field values for every layout and all in-range values, any other slice length is rejected without reading, and an encoded link-info message (kind + bit timing + control mode as netlink attributes) decodes to the same kind, bit timing and control mode; the model is compared with the real (un)marshalers (reached through a go build -overlay shim), with the unsafe memory image of the x/sys/unix structs, with every decoder on every slice length 0..2x size, and with the real mdlayher/netlink attribute encoder/decoder on every run. The fixed-size (un)marshalers of the interface-info header, bit timing, control mode, clock, bus-error counters and statistics are additionally translated from the working tree on every run (T1, harness/cmd/go2lean; a byte slice is its first 64 bytes and its length) and the statements are proved about the translated code directly (Bridge/NetlinkGo.lean, bv_decide): every image is the fields at the kernel offsets and sizes in little-endian order with zero padding, decoding an image returns the fields, a slice of any other length is rejected with the destination untouched and nothing read, no decoder panics on a slice of the right length. If the translator does not cover the current source shape the run says so (coverage.tie_notes) and rests on the correspondence run.",
    level_note="Trusted: Lean kernel; layout tables transcribed by hand from linux/can/netlink.h and rtnetlink.h (cross-checked against x/sys/unix memory images at run time); mdlayher/netlink is modelled (attribute TLVs), validated by correspondence; little-endian native byte order assumed. T1 theorems depend on bv_decide certificate axioms (listed under coverage.axioms); BitTimingConst (a [16]byte name) and the attribute walk are not translated.",
    level="proof", exhaustive=True,
    exhaustive_what="every decoder on every slice length 0..2x structure size; one-hot values for every bit of every field",
    trivial=r"^(err|-)$",
    trusted_base=["mdlayher/netlink attribute encoding modelled in Model/Netlink.lean", "kernel struct layouts transcribed by hand; compared with unsafe images of golang.org/x/sys/unix structs"],
)

CONFIG["C04"] = dict(
    modules=["CanVerif.Props.C04", "CanVerif.Bridge.MsgIdGo", "CanVerif.Props.C04Code"],
    t2_modules=["CanVerif.Bridge.MsgIdGo", "CanVerif.Props.C04Code"],
    level_text="The Lean model of text/scanner + pkg/dbc (Model/TextScanner.lean, Model/DbcParse.lean) is an executable function-by-function transcription of the parser; kernel-checked theorems (Props/C04.lean) cover the token-level facts the round trip rests on; the message-ID functions of pkg/dbc/messageid.go (IsExtended, ToCAN, Validate) are additionally translated from the working tree on every run (T1) and proved equal to the model's for every 32-bit ID (Bridge/MsgIdGo.lean, Props/C04Code.lean); the faithful-read-back property itself is decided per run by comparing, for grammar-derived files (all 16 kinds, 4 layout modes, positions), the real parser's definitions with the AST the text was printed from (oracle independent of the parser) and with the Lean model.",
    level_note="Partial proof: C04_roundtrip over all ASTs x layouts is not proved (stated in DESIGN.md); proved are the scanner/strconv lemmas in Props/C04.lean. text/scanner, strconv and unicode are modelled (validated by correspondence on every run; unicode tables regenerated from the toolchain and compared).",
    level="proof",
    trivial=r"^(ok 0 ;; -)$",
    rule="files are generated from the grammar of DESIGN.md 4.1 by harness/internal/ops/dbcgen.go; a case is non-trivial when the file has at least one definition; input_distribution counts kinds and files with >= 6 kinds",
    trusted_base=["text/scanner, strconv, unicode (stdlib) modelled in Lean, validated by correspondence", "the grammar generator computes the oracle (expected definitions and positions) independently of the parser; floats via strconv.ParseFloat"],
)
CONFIG["C12"] = dict(
    modules=["CanVerif.Props.C12", "CanVerif.Props.C12Term"],
    level_text="Kernel-checked Lean theorems about the executable parser model (a transcription of text/scanner and pkg/dbc). Termination (Props/C12Term.lean): every loop of the model carries a bound and reaching it is an outcome of its own (outOfFuel; scanner loops report it through ScanErr.fuel), never a silent stop; C12_terminates proves for every byte sequence that no bound is reached (measure: unread characters + pending look-ahead character + pending look-ahead token never increases, every token other than EOF and every character read decreases it, every continuing loop iteration and every definition consumes input; straight-line code by the Std.Do verification-condition generator from the primitives' specifications, loops by induction), so the result is what the unbounded Go loops compute and they terminate; the decoder's bound likewise (C12_decoder_bound). No panic: C12_no_panic proves the model's run-time panic site (tok.txt[0], guarded by the identifier test) unreachable for every byte sequence, from the invariant that scanner offsets stay inside the source and identifier tokens are never empty (kept by every scanner and parser operation; the panic site is specified with precondition False); hence C12_success_or_positioned_error: every byte sequence ends in success or a positioned error. Locality: C12_error_position_local proves that a failing parse fails in one iteration of the definition loop after the iterations that accepted exactly the reported definitions, and that the error position is at or after the start of the first token of the definition being parsed (the look-ahead start offset never decreases; tokens and scanner errors are positioned at or after it). Props/C12.lean: the outcome is a function of the bytes, classified ok/positioned error/panic; accepted definitions are only ever appended (prefix stability, errors report exactly the definitions accepted so far). The model is compared with the real parser on fixed edge inputs, mutated generated files (byte flips, NUL, invalid UTF-8, truncation, token splices, huge numbers, repetition), random bytes, and the locality clause on every generated file x definition index x corruption operator (each input parsed twice under recover).",
    level_note="The model has one partial Go operation (proved unreachable); Go runtime panics in code the model renders as total (slice growth, stdlib internals) are covered by correspondence only.",
    level="proof",
    trivial=r"^(ok 0 ;; -|local no-error)$",
    rule="inputs: fixed edge list + mutations of grammar-derived files + random bytes + locality corruptions; non-trivial = not the empty parse and not a vacuous locality case",
    trusted_base=["text/scanner, strconv, unicode (stdlib) modelled in Lean, validated by correspondence"],
)

CONFIG["C18"] = dict(
    level_text="The 20 analyzers are modelled as pure total functions of the parsed file (Model/Lint.lean): totality, purity and order-independence hold by construction of the model and are compared with the real analyzers on every run (file dumped before/after, analyzers run in two orders, panics caught). Kernel-checked theorems (Props/C18.lean) prove the state-based analyzers equal to their declarative rules (definitiontypeorder = 'some later definition has a smaller type order'; unique IDs/names = 'an earlier item has the same key'; multiplexer location = first M signal, each further M reported once; singleton and required counts; behaviour on the empty file); the filter-style analyzers are their own declarative rule. Diagnostics (analyzer, position, message class) of model and implementation are compared on clean files, every rule x 1/many seeded violations, rule interactions, degenerate files and arbitrary grammar-derived files.",
    level_note="Trusted: Lean kernel; Model/Lint.lean validated by correspondence; the parser model of C04 (files are parsed by both sides); message texts are compared up to their dynamic suffix (class).",
    level="proof",
    trivial=r"^(parse-error)$",
    rule="files from the lint-aware generator (harness/internal/ops/lint.go) and the C04 grammar; every parsed file counts as non-trivial (20 analyzers evaluated on it)",
    trusted_base=["unicode.IsDigit table (shared with C04)", "Go map semantics modelled as list membership"],
)

CONFIG["C05"] = dict(
    modules=["CanVerif.Props.C05", "CanVerif.Props.C05Order", "CanVerif.Props.C05Canon", "CanVerif.Props.C05Inner", "CanVerif.Bridge.MsgIdGo", "CanVerif.Props.C04Code"],
    t2_modules=["CanVerif.Bridge.MsgIdGo", "CanVerif.Props.C04Code"],
    level_text="Kernel-checked Lean theorems (Props/C05.lean, Props/C05Order.lean): for definition lists with distinct stripped IDs, distinct signal names per message, distinct node names, at most one VERSION and metadata about pairwise different (kind, object, attribute), every permutation of the definitions compiles to the same database (metadata attachment is a pointwise update under unique keys, updates about different things commute, sorting permutations with distinct keys is unique); the signal comparator is a strict weak order that separates distinct (start, multiplexer value) keys, the sort returns a sorted permutation, and sorted permutations with pairwise distinct keys are unique — so the canonical order does not depend on the input order nor on the sorting algorithm. The denotation (every field as written, one warning per dangling reference, nothing attached) is decided on every run: files of the compilable class are generated together with the database they denote (computed by the generator, independently of parser and compiler), and the original plus its class permutations (message order, signal order, node order, metadata order) are compiled by the real generate.Compile and by the Lean model and compared with that expected database and warning multiset.",
    level_note="Proof for the model of compile (collect, addMetadata, sortDescriptors): order invariance of the compiled database under any permutation of the definition list in the class (C05_order_invariant); reordering inside definitions -- the signals of a BO_, the names of a BU_, the pairs of a VAL_ -- does not change the compiled database either (C05_inner_order_invariant, Props/C05Inner.lean: collect and every metadata step respect 'equal up to inner orders', the final sort erases the rest under pairwise distinct sort keys, C05_canonical), and the two compose (C05_any_order); not proved: the multiset of warnings, and 'compile = denote' as a single statement (decided per run against the independent expected database). sort.Slice is trusted to return a sorted permutation. MessageID.ToCAN / IsExtended are tied by T1 (translated on every run, proved equal to the model for every 32-bit ID; bv_decide axioms listed under coverage.axioms).",
    level="proof",
    trivial=r"^(parse-error|v=- ;; W -)$",
    rule="files of DESIGN.md 4.2 from harness/internal/ops/compile.go, each rendered in original and permuted orders; non-trivial = the file compiles to a non-empty database",
    trusted_base=["sort.Slice (stdlib) assumed to return a sorted permutation when the comparator is a strict weak order", "expected databases are computed by the generator from its semantic description"],
)

CONFIG["C09"] = dict(
    modules=["CanVerif.Props.C09", "CanVerif.Props.C09Mono"],
    level_text="The conversion is modelled over a software binary64 (Model/SoftFloat.lean: exact rational results rounded once to nearest-even; Model/Phys.lean: ToPhysical/FromPhysical as written), which is compared bit-for-bit with the hardware on every run (all pairs of special values, random operands, every operation and conversion used). Kernel-checked theorems (Props/C09.lean) prove, for every signal and every non-NaN input of the model, that the result of physical->raw lies between the raw bounds (saturation) and that clamping, saturation and the min/max steps are monotone; the five clauses (linear rule, encodable result, monotonicity in both factor signs, both round-trip bounds) are also evaluated as an oracle on the implementation's outputs for lengths 1..52, decimal and binary scales, negative factors, ranges present/absent/one-sided, boundary/random raws and physical values including +-Inf, subnormals and huge magnitudes.",
    level_note="Proof for the software-float model: the linear rule with clamp and saturation, saturation between the raw bounds, and monotonicity of physical->raw for every finite offset and finite non-zero factor and all non-NaN arguments (C09_fromPhysical_monotone: roundF64 is monotone in the exact rational, add/sub/div are correctly rounded, keys order like values). Not proved: the two round-trip bounds (decided per run by the oracle; finding F3 shows the last clause fails as stated). Mathlib tactics are used in the proof modules Lemmas/RoundMono, FloatVal, FloatMono only. Hardware float64 arithmetic is modelled (compared bit-for-bit on every run).",
    level="proof",
    trivial=r"^(nan|0{16}|0{16} enc=1)$",
    rule="signals x raw/physical values from harness/internal/ops/phys.go; non-trivial = result is neither NaN nor +0",
    trusted_base=["hardware binary64 arithmetic and conversions (amd64) modelled by Model/SoftFloat.lean, compared bit-exactly on every run"],
)

_GEN_TRUSTED = ["the Go compiler, gofmt and go vet decide 'compiles' per generated program (translation validation over sampled programs)",
                "hardware float arithmetic modelled by Model/SoftFloat.lean (see C09)",
                "the reflective executor harness/genexec drives the generated API by method name"]
CONFIG["C03"] = dict(
    generated=True,
    level_text="The emitted code's denotation is modelled template by template (Model/GenSem.lean over the bit-level models of C01/C02/C08); kernel-checked theorems (Props/C03.lean) prove for every descriptor, payload and raw value that decoding yields the layout's value (unsigned, signed, bool), that rejection leaves the message unchanged, and for every integer/bool message in the class layout that the produced frame holds each encoded signal's raw value at its own layout and zeros elsewhere and that a multiplexed signal is encoded/decoded exactly when the multiplexer value equals its selector, over that model. That the emitted Go text has this denotation is validated per program: grammar-derived DBCs of the class are generated with the tree's generator, built with the Go compiler, and every message is driven (payload basis, boundary raw values, wrong ID/length/format/remote frames, dispatcher, embedded descriptors) and compared with the model and with a bit-by-bit oracle computed from the DBC layout.",
    level_note="Proof for the IR semantics; translation validation (programs sampled: coverage.programs) for 'the emitted text has this IR'. " + "; ".join(_GEN_TRUSTED),
    level="proof",
    trivial=r"^(err|not-in-class)$",
    rule="DBCs from harness/internal/ops/gendbc.go (stratified by signal width class, byte order, sign, float/enum/scaled, plain/mux/muxed, ID format); one case = one operation line on a generated message",
    trusted_base=_GEN_TRUSTED,
)
CONFIG["C10"] = dict(
    generated=True,
    modules=["CanVerif.Props.C10", "CanVerif.Props.C10Phys"],
    level_text="State machine model of a generated message (Model/GenSem.lean: New, Reset, raw and physical setters, CopyFrom, UnmarshalFrame, Frame); kernel-checked theorems (Props/C10.lean) prove for every descriptor and every argument: the raw-range invariant for all histories of construction, reset, raw setters, unmarshal and copy-from; no-leak (every encoded field decodes from the frame as stored; zeros elsewhere); re-encode identity (unmarshal of the own frame into any message, then marshal, gives the identical frame) and copy-from frame identity, for integer/bool signals in the class layout; physical setters (Props/C10Phys.lean): for every integer signal of 2..53 bits with finite offset and finite non-zero factor and every non-NaN argument including the infinities, the stored raw value is inside the representable range and the message invariant is preserved (binary64 arithmetic of the SoftFloat model: saturation leaves a finite double between the two exactly representable bounds, truncation toward zero stays between them, the conversion to the accessor type does not wrap); from 54 bits the statement is false on the unchanged tree (finding F1); float32 signals are decided per run. Seeded operation sequences over the compiled generated packages are compared with the model after every step and judged by the invariant, frame validity, no-leak (frame = spec encoding of the raw values), re-encode identity, CopyFrom without aliasing and Reset.",
    level_note="Proof for all operations; physical setters proved for integer signals of <= 53 bits (on >= 54-bit scaled signals they violate the invariant: known finding F1); translation validation per generated program. " + "; ".join(_GEN_TRUSTED),
    level="proof",
    trivial=r"^(not-in-class)$",
    rule="operation sequences of length <= 40 (quick) / 400 (thorough) from the state-machine walker in harness/internal/ops/gendbc.go; one case = one sequence",
    trusted_base=_GEN_TRUSTED,
)

CONFIG["C11"] = dict(
    generated=True,
    level_text="The generator's decision logic is modelled (Model/GenSem.lean kindOf/hasPhysical, Model/GenApi.lean apiOf: the exported API the DBC implies) and kernel-checked theorems (Props/C11.lean) prove the width rule (narrowest of 8/16/32/64 holding the length), the field-type rule and the physical-accessor rule for every signal. 'Returns no error, deterministic, gofmt-canonical, compiles, vets' is decided per program by running the generator twice, go/format, go build and go vet on every sampled DBC of the class (special decision-point DBCs + stratified random ones), and the exported API extracted from the generated source is compared with apiOf of the independently compiled database.",
    level_note="Translation validation over sampled programs for generation/compilation (no executable Lean model of gofmt or the Go compiler exists); proof for the decision logic. " + "; ".join(_GEN_TRUSTED),
    level="proof",
    trivial=r"^(not-in-class)$",
    rule="one case = one DBC program: generated twice, formatted, built, vetted, API extracted",
    trusted_base=_GEN_TRUSTED + ["the API listing is extracted from the generated source with go/ast (harness/cmd/genbuild apiOf)"],
)

CONFIG["C19"] = dict(
    generated=True,
    level_text="The renderers are modelled as functions to per-signal records (Model/Render.lean). Kernel-checked theorems (Props/C19.lean) prove that each rendering has one record per descriptor signal in descriptor order and that the raw value carried is the C01 read of the signal's layout over the full 64-bit range (unsigned decimal up to 2^64-1 in JSON, two's-complement hex in text). On every run the real output of cantext (compact and multi-line), canjson and the candebug HTTP handler (httptest) for messages of compiled generated packages is tokenised into the same records (floats by parse-back to bits, durations to ns), compared with the model, and the JSON checked with json.Valid.",
    level_note="strconv float formatting, encoding/json escaping, net/http and time are not modelled (parse-back / canonicalised). Translation validation per generated program. " + "; ".join(_GEN_TRUSTED),
    level="proof",
    trivial=r"^(err|not-in-class)$",
    rule="one case = one message state (a valid frame unmarshalled into a generated message) rendered four ways",
    trusted_base=_GEN_TRUSTED,
)

CONFIG["C13"] = dict(
    extra_gen=True,
    modules=["CanVerif.Props.C13", "CanVerif.Props.C13Code"],
    t2_modules=["CanVerif.Props.C13Code"],
    level_text="Kernel-checked Lean theorems: Props/C13.lean proves, for every reachable state of every interleaving of any number of threads that each run a well-locked region under one mutex (runner goroutines and application goroutines alike), that a thread in front of a state access holds the lock, a thread in front of a hook call, a transmission or a return does not, and that two threads are never both in front of an access (C13_sound, C13_race_free). Every goroutine body of pkg/canrunner (receiver, transmitter, Run and the function literals it spawns) is translated from the working tree on every run into a structured program (harness/cmd/extract: go/types, package-local calls, methods and closures inlined; Gen/RunnerProg.lean); Model/Prog.lean holds an abstract interpreter over such programs for finite-state monitors, proved sound for every partial and complete execution (Lemmas/Prog.lean chk_sound); Props/C13Code.lean re-checks by decide that every body passes the lock monitor (accesses only while holding the lock, hook calls / transmissions / returns only while not, lock and unlock alternating), that the frame is marshalled after the latest hook call on every path to a transmission, and that all the accesses the property lists occur. If the translator does not cover the current source shape the run says so (coverage.tie_notes) and rests on the correspondence run. The real RunMessageReceiver/RunMessageTransmitter are driven with step-controlled fakes that check the lock holder at every access and hook call; their call traces are compared with the model. The generated node code is part of the property too: for every node the tree's generator emits for the C11 programs, the runner-facing glue is driven through canrunner.Node (gnode: the hook value the runner reads is the one installed at that time, lookups by ID, embedded lock).",
    level_note="Trusted: Lean kernel; the extractor's classification of calls (message methods = state accesses, Lock/Unlock, hook variables, TransmitFrame); sync.Mutex and the Go memory model (lock-protected accesses do not race) are assumed, not modelled below mutex granularity.",
    level="proof",
    trivial=r"^$",
    rule="receiver scripts over known/unknown IDs and transmitter event scripts (requests, toggles); every case executes several critical sections with holder checks",
    trusted_base=["harness/cmd/extract (go/ast walker, fails closed on unknown statement shapes)", "sync.Mutex / Go memory model assumed"],
)
CONFIG["C14"] = dict(
    extra_gen=True,
    modules=["CanVerif.Props.C14", "CanVerif.Props.C14Stop"],
    level_text="Kernel-checked Lean theorems (Props/C14.lean) over the labelled transition system of the transmitter loop (wake-up channel of capacity 1, flag, any number of toggling applications, event requests by rendezvous, a tick channel that Stop does not drain): for every reachable state of every interleaving, toggles are never lost (parked with no wake-up pending and no toggle in progress implies ticker armed iff enabled), sent + in-flight = accepted requests + consumed ticks, and after a handled disable at most one already-due tick is consumed. The real functions are run against step-controlled fakes: receiver scripts with faults at every position, all transmitter event sequences up to length 3 (quick) / 4 (thorough) over {request, enable, disable, cancel, hook error, transmit error} plus sampled longer ones, real-time cyclic transmission with a 3 ms cycle (frames start after enable, at most one after a handled disable), and canrunner.Run over net.Pipe (returns nil on cancel / the error on a failing hook, connection closed, no goroutine left). The generated request / toggle API is driven for every node of the C11 programs (gnode: a toggle leaves exactly one wake-up token, a request is a rendezvous -- delivered when a loop receives, failing when the context is cancelled, also right after a transmission).",
    level_note="Stop and fault clauses (Props/C14Stop.lean, Model/RunGroup.lean: the errgroup of Run with its derived context, the closing goroutine, the receiver, one transmitter per message): for every number of transmitters and every schedule, a run whose only errors are closed-connection errors returns nil (C14_clean_stop), the connection is closed once all goroutines have returned (C14_terminal_conn_closed), the first recorded error is what Run returns unless its text contains 'closed' (C14_fault_reported; the complement is finding F2, C14_F2_swallowed), and from every reachable state with a done context some goroutine can return (C14_no_goroutine_left). What hooks, Receive and TransmitFrame do is not modelled (a goroutine may fail at any time; they are assumed to return), the timed clause is measured; the real Run is compared with the model on cancel / hook-failure / cancel-inside-hook scenarios with a goroutine-leak check. Known finding F2: Run maps any error containing 'closed' to nil.",
    level="proof",
    trivial=r"^$",
    rule="every script runs the real runner function to completion; traces, frame counts, returned error class and leak/close checks are compared",
    trusted_base=["Go channels, select, context, errgroup, time.Ticker are modelled abstractly (Model/Runner.lean)"],
)


def _extract_runner(work):
    """regenerate lean/CanVerif/Gen/RunnerProg.lean from /repo's working tree (T2); '' on success"""
    import subprocess, os
    here = os.path.dirname(os.path.dirname(os.path.abspath(__file__)))
    out = os.path.join(here, "lean", "CanVerif", "Gen", "RunnerProg.lean")
    os.makedirs(os.path.dirname(out), exist_ok=True)
    try:
        os.unlink(out)
    except OSError:
        pass
    env = dict(os.environ, GOFLAGS="-mod=mod", GOPROXY="off", GOSUMDB="off", GOTOOLCHAIN="local")
    r = subprocess.run(["go", "run", "./cmd/extract", "runner", os.environ.get("VERIF_REPO", "/repo"), out],
                       cwd=os.path.join(here, "harness"), env=env, stdout=subprocess.PIPE, stderr=subprocess.STDOUT, text=True)
    if r.returncode != 0:
        # the translator refused this source shape (or the package does not type-check): no regenerated tie on this run
        try:
            os.unlink(out)
        except OSError:
            pass
        return "UNAVAILABLE: T2 translator (harness/cmd/extract) does not cover the current pkg/canrunner: " + r.stdout[-500:].strip()
    return ""


def _go2lean(work, groups=""):
    """regenerate lean/CanVerif/Gen/DataGo.lean from /repo's working tree (T1), restricted to the function groups the
    property's bridge needs, so that a construct the translator refuses elsewhere does not take this tie away; '' on success"""
    import subprocess, os
    here = os.path.dirname(os.path.dirname(os.path.abspath(__file__)))
    out = os.path.join(here, "lean", "CanVerif", "Gen", "DataGo.lean")
    os.makedirs(os.path.dirname(out), exist_ok=True)
    try:
        os.unlink(out)
    except OSError:
        pass
    env = dict(os.environ, GOFLAGS="-mod=mod", GOPROXY="off", GOSUMDB="off", GOTOOLCHAIN="local")
    r = subprocess.run(["go", "run", "./cmd/go2lean", os.environ.get("VERIF_REPO", "/repo"), out] + ([groups] if groups else []),
                       cwd=os.path.join(here, "harness"), env=env, stdout=subprocess.PIPE, stderr=subprocess.STDOUT, text=True)
    if r.returncode != 0:
        try:
            os.unlink(out)
        except OSError:
            pass
        return "UNAVAILABLE: T1 translator (harness/cmd/go2lean) does not cover the current source: " + r.stdout[-500:].strip()
    return ""


def _g(groups):
    return lambda work: _go2lean(work, groups)


PRE_PROVE = {"C13": _extract_runner, "C01": _g("data"), "C02": _g("data"), "C17": _g("data"), "C08": _g("data,signal"),
             "C06": _g("data,frame"), "C04": _g("msgid"), "C05": _g("msgid"), "C20": _g("netlink")}
def _unicode_tie(work, impl):
    """the committed unicode tables equal what the toolchain's unicode package says now"""
    import subprocess, os
    env = dict(os.environ, GOFLAGS="-mod=mod", GOPROXY="off", GOSUMDB="off", GOTOOLCHAIN="local")
    r = subprocess.run(["go", "run", "./cmd/unitab"], cwd=os.path.join(os.path.dirname(os.path.dirname(os.path.abspath(__file__))), "harness"),
                       env=env, stdout=subprocess.PIPE, stderr=subprocess.PIPE, text=True)
    if r.returncode != 0:
        return "unitab failed: " + r.stderr[-300:]
    committed = open(os.path.join(os.path.dirname(os.path.dirname(os.path.abspath(__file__))), "lean", "CanVerif", "Model", "UnicodeTables.lean")).read()
    return "" if r.stdout == committed else "unicode tables of the toolchain differ from lean/CanVerif/Model/UnicodeTables.lean (re-run harness/cmd/unitab)"


TIES = {"C04": [("unicode-tables", _unicode_tie)], "C12": [("unicode-tables", _unicode_tie)]}
