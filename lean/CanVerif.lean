import CanVerif.Props.C01
import CanVerif.Props.C02
import CanVerif.Props.C17
import CanVerif.Props.C08
import CanVerif.Props.C06
import CanVerif.Props.C07
import CanVerif.Props.C15
import CanVerif.Props.C16
