import CanVerif.Model.Bits
/-
Model of `frame.go` (Frame, Validate) and `pkg/socketcan/frame.go` (wire codec, error-frame accessors).
A 16-byte SocketCAN block is a `BitVec 128` whose byte `k` is bits `8k..8k+7` (so the little-endian
32-bit word of bytes 0..3 is the low 32 bits, byte 4 is bits 32..39, bytes 8..15 are bits 64..127,
and the payload keeps the bit numbering of `Data`).  Core Lean only.
-/
namespace CanVerif

structure Frame where
  id : BitVec 32
  length : BitVec 8
  data : Data
  isRemote : Bool
  isExtended : Bool
deriving DecidableEq, Repr

def maxID : BitVec 32 := 0x7ff#32
def maxExtendedID : BitVec 32 := 0x1fffffff#32

/-- `Frame.Validate` (true = nil error). -/
def Frame.validate (f : Frame) : Bool :=
  if f.isExtended && decide (f.id > maxExtendedID) then false
  else if !f.isExtended && decide (f.id > maxID) then false
  else if f.length > 8#8 then false
  else true

def idFlagExtended : BitVec 32 := 0x80000000#32
def idFlagError : BitVec 32 := 0x20000000#32
def idFlagRemote : BitVec 32 := 0x40000000#32
def idMaskExtended : BitVec 32 := 0x1fffffff#32
def idMaskStandard : BitVec 32 := 0x7ff#32

/-- socketcan `frame`: the three fields that are marshalled. -/
structure ScFrame where
  idAndFlags : BitVec 32
  dlc : BitVec 8
  data : Data
deriving DecidableEq, Repr

/-- `encodeFrame` -/
def encodeFrame (cf : Frame) : ScFrame :=
  let w := cf.id
  let w := if cf.isRemote then w ||| idFlagRemote else w
  let w := if cf.isExtended then w ||| idFlagExtended else w
  { idAndFlags := w, dlc := cf.length, data := cf.data }

/-- `marshalBinary` into a zeroed 16-byte buffer -/
def marshalBinary (f : ScFrame) : BitVec 128 :=
  f.idAndFlags.setWidth 128 ||| (f.dlc.setWidth 128 <<< 32) ||| (f.data.setWidth 128 <<< 64)

/-- `unmarshalBinary` -/
def unmarshalBinary (b : BitVec 128) : ScFrame :=
  { idAndFlags := b.setWidth 32, dlc := (b >>> 32).setWidth 8, data := (b >>> 64).setWidth 64 }

def ScFrame.isExtended (f : ScFrame) : Bool := decide (f.idAndFlags &&& idFlagExtended > 0#32)
def ScFrame.isRemote (f : ScFrame) : Bool := decide (f.idAndFlags &&& idFlagRemote > 0#32)
def ScFrame.isError (f : ScFrame) : Bool := decide (f.idAndFlags &&& idFlagError > 0#32)
def ScFrame.id (f : ScFrame) : BitVec 32 :=
  if f.isExtended then f.idAndFlags &&& idMaskExtended else f.idAndFlags &&& idMaskStandard

/-- `decodeFrame` -/
def decodeFrame (f : ScFrame) : Frame :=
  { id := f.id, length := f.dlc, data := f.data, isExtended := f.isExtended, isRemote := f.isRemote }

/-- what `Transmitter.TransmitFrame` writes -/
def wire (cf : Frame) : BitVec 128 := marshalBinary (encodeFrame cf)
/-- what `Receiver.Frame` returns for a 16-byte block -/
def unwire (b : BitVec 128) : Frame := decodeFrame (unmarshalBinary b)

structure ErrorFrame where
  errorClass : BitVec 32
  lostArbitrationBit : BitVec 8
  controllerError : BitVec 8
  protocolError : BitVec 8
  protocolErrorLocation : BitVec 8
  transceiverError : BitVec 8
  csi : BitVec 24      -- 3 bytes, byte j at bits 8j
deriving DecidableEq, Repr

def dataByte (d : Data) (j : Nat) : BitVec 8 := (d >>> (8 * j)).setWidth 8

/-- `decodeErrorFrame` -/
def decodeErrorFrame (f : ScFrame) : ErrorFrame :=
  { errorClass := f.idAndFlags &&& ~~~ idFlagError
    lostArbitrationBit := dataByte f.data 0
    controllerError := dataByte f.data 1
    protocolError := dataByte f.data 2
    protocolErrorLocation := dataByte f.data 3
    transceiverError := dataByte f.data 4
    csi := (f.data >>> 40).setWidth 24 }

end CanVerif
