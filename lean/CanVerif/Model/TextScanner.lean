import CanVerif.Model.UnicodeTables
/-
Model of `text/scanner` (Go 1.23) restricted to the configuration `pkg/dbc/parser.go` uses:
Mode = ScanIdents | ScanFloats, switchable whitespace set, error callback that aborts (the parser's
callback panics with a parse error at `Scanner.Pos()`), `Scan`, `Next`, `Peek`, `TokenText`, `Position`.
Input is decoded with Go's `utf8.DecodeRune` rules.  Core Lean only.
-/
namespace CanVerif

structure Pos where
  offset : Nat
  line : Nat
  col : Nat
deriving DecidableEq, Repr, Inhabited

/-- one decoded source character: code point, encoded width, validity -/
structure SrcCh where
  r : Nat
  w : Nat
  bad : Bool
deriving Repr, Inhabited

def contByte (b : UInt8) : Bool := 0x80 ≤ b.toNat && b.toNat ≤ 0xBF

/-- `utf8.DecodeRune` on the bytes starting at the head of the list -/
def decodeRune : List UInt8 → SrcCh
  | [] => ⟨0xFFFD, 0, true⟩
  | b0 :: t =>
    let x := b0.toNat
    if x < 0x80 then ⟨x, 1, false⟩
    else if x < 0xC2 then ⟨0xFFFD, 1, true⟩
    else if x < 0xE0 then
      match t with
      | b1 :: _ => if contByte b1 then ⟨(x - 0xC0) * 64 + (b1.toNat - 0x80), 2, false⟩ else ⟨0xFFFD, 1, true⟩
      | _ => ⟨0xFFFD, 1, true⟩
    else if x < 0xF0 then
      match t with
      | b1 :: b2 :: _ =>
        let lo := if x == 0xE0 then 0xA0 else 0x80
        let hi := if x == 0xED then 0x9F else 0xBF
        if lo ≤ b1.toNat ∧ b1.toNat ≤ hi ∧ contByte b2 then
          ⟨(x - 0xE0) * 4096 + (b1.toNat - 0x80) * 64 + (b2.toNat - 0x80), 3, false⟩
        else ⟨0xFFFD, 1, true⟩
      | _ => ⟨0xFFFD, 1, true⟩
    else if x < 0xF5 then
      match t with
      | b1 :: b2 :: b3 :: _ =>
        let lo := if x == 0xF0 then 0x90 else 0x80
        let hi := if x == 0xF4 then 0x8F else 0xBF
        if lo ≤ b1.toNat ∧ b1.toNat ≤ hi ∧ contByte b2 ∧ contByte b3 then
          ⟨(x - 0xF0) * 262144 + (b1.toNat - 0x80) * 4096 + (b2.toNat - 0x80) * 64 + (b3.toNat - 0x80), 4, false⟩
        else ⟨0xFFFD, 1, true⟩
      | _ => ⟨0xFFFD, 1, true⟩
    else ⟨0xFFFD, 1, true⟩

/-- decode a whole source; fuel = number of bytes -/
def decodeAll : Nat → List UInt8 → List SrcCh
  | 0, _ => []
  | _, [] => []
  | fuel+1, bs =>
    let c := decodeRune bs
    c :: decodeAll fuel (bs.drop (max c.w 1))

def inTable (t : Array (Nat × Nat × Nat)) (r : Nat) : Bool :=
  t.any fun (lo, hi, stride) => lo ≤ r && r ≤ hi && (r - lo) % stride == 0

def isLetter (r : Nat) : Bool :=
  if r < 128 then (65 ≤ r && r ≤ 90) || (97 ≤ r && r ≤ 122) else inTable UnicodeTables.letterRanges r
def isUniDigit (r : Nat) : Bool :=
  if r < 128 then 48 ≤ r && r ≤ 57 else inTable UnicodeTables.digitRanges r

def tokEOF : Int := -1
def tokIdent : Int := -2
def tokInt : Int := -3
def tokFloat : Int := -4

def goWhitespace : Nat := 2^9 + 2^10 + 2^13 + 2^32        -- '\t' '\n' '\r' ' '
def significantNewline : Nat := 2^9 + 2^13 + 2^32
def significantTab : Nat := 2^10 + 2^13 + 2^32

structure ScanErr where
  pos : Pos
  msg : String
  /-- not an error of the scanner: the model's loop bound was reached (proved impossible, Lemmas/ParseTerm.lean) -/
  fuel : Bool := false
deriving Repr

structure Sc where
  src : Array UInt8
  rest : List SrcCh          -- characters not yet read by `next`
  ch : Int := -2             -- one-character look-ahead (-2: nothing read yet, -1: EOF)
  off : Nat := 0             -- srcBufOffset + srcPos
  line : Nat := 1
  col : Nat := 0
  lastLineLen : Nat := 0
  lastCharLen : Nat := 0
  ws : Nat := goWhitespace

structure Token where
  typ : Int
  pos : Pos
  txt : List UInt8
deriving Repr, Inhabited

/-- `Scanner.Pos()` -/
def Sc.pos (s : Sc) : Pos :=
  let off := s.off - s.lastCharLen
  if s.col > 0 then ⟨off, s.line, s.col⟩
  else if s.lastLineLen > 0 then ⟨off, s.line - 1, s.lastLineLen⟩
  else ⟨off, 1, 1⟩

/-- `Scanner.next()`; an error aborts (the parser's error callback panics at `Pos()`) -/
def Sc.next (s : Sc) : Except ScanErr (Int × Sc) :=
  match s.rest with
  | [] =>
    let s' := { s with col := if s.lastCharLen > 0 then s.col + 1 else s.col, lastCharLen := 0 }
    .ok (-1, s')
  | c :: rest =>
    if c.bad then
      let s' := { s with rest := rest, off := s.off + 1, lastCharLen := 1, col := s.col + 1 }
      .error ⟨s'.pos, "invalid UTF-8 encoding", false⟩
    else
      let s' := { s with rest := rest, off := s.off + c.w, lastCharLen := c.w, col := s.col + 1 }
      if c.r == 0 then .error ⟨s'.pos, "invalid character NUL", false⟩
      else if c.r == 10 then .ok (10, { s' with line := s'.line + 1, lastLineLen := s'.col, col := 0 })
      else .ok (c.r, s')

/-- `Scanner.Peek()` -/
def Sc.peek (s : Sc) : Except ScanErr (Int × Sc) :=
  if s.ch == -2 then do
    let (c, s1) ← s.next
    if c == 0xFEFF then
      let (c2, s2) ← s1.next
      pure (c2, { s2 with ch := c2 })
    else pure (c, { s1 with ch := c })
  else pure (s.ch, s)

/-- `Scanner.Next()` -/
def Sc.nextRune (s : Sc) : Except ScanErr (Int × Sc) := do
  let (c, s1) ← s.peek
  if c != -1 then
    let (c2, s2) ← s1.next
    pure (c, { s2 with ch := c2 })
  else pure (c, s1)

def isWsCh (ws : Nat) (c : Int) : Bool := 0 ≤ c && c < 64 && ws.testBit c.toNat
def isDec (c : Int) : Bool := 48 ≤ c && c ≤ 57
def lowerI (c : Int) : Int := if 65 ≤ c && c ≤ 90 then c + 32 else c
def isHexI (c : Int) : Bool := isDec c || (97 ≤ lowerI c && lowerI c ≤ 102)
def isIdentRune (c : Int) (i : Nat) : Bool :=
  c == 95 || (c ≥ 0 && isLetter c.toNat) || (c ≥ 0 && isUniDigit c.toNat && i > 0)

/-- skip white space starting with look-ahead `c` -/
def skipWsLoop : Nat → Int → Sc → Except ScanErr (Int × Sc)
  | 0, _, s => .error ⟨s.pos, "out of fuel", true⟩
  | fuel+1, c, s =>
    if isWsCh s.ws c then do
      let (c', s') ← s.next
      skipWsLoop fuel c' s'
    else .ok (c, s)

def identLoop : Nat → Nat → Int → Sc → Except ScanErr (Int × Sc)
  | 0, _, _, s => .error ⟨s.pos, "out of fuel", true⟩
  | fuel+1, i, c, s =>
    if isIdentRune c i then do
      let (c', s') ← s.next
      identLoop fuel (i + 1) c' s'
    else .ok (c, s)

/-- `digits`: returns (next char, digsep bits, first invalid digit or 0, scanner) -/
def digitsLoop : Nat → Int → Nat → Nat → Int → Sc → Except ScanErr (Int × Nat × Int × Sc)
  | 0, _, _, _, _, s => .error ⟨s.pos, "out of fuel", true⟩
  | fuel+1, c, base, ds, inv, s =>
    if base ≤ 10 then
      if isDec c || c == 95 then do
        let d := if c == 95 then 2 else 1
        let inv' := if c != 95 && c ≥ 48 + (base : Int) && inv == 0 then c else inv
        let (c', s') ← s.next
        digitsLoop fuel c' base (ds ||| d) inv' s'
      else .ok (c, ds, inv, s)
    else
      if isHexI c || c == 95 then do
        let d := if c == 95 then 2 else 1
        let (c', s') ← s.next
        digitsLoop fuel c' base (ds ||| d) inv s'
      else .ok (c, ds, inv, s)

def litname (prefix_ : Int) : String :=
  if prefix_ == 120 then "hexadecimal literal"
  else if prefix_ == 111 || prefix_ == 48 then "octal literal"
  else if prefix_ == 98 then "binary literal"
  else "decimal literal"

/-- `invalidSep` on the token text: index of the first invalid `_`, or none -/
def invalidSep (x : List UInt8) : Bool :=
  let n := x.length
  let x0 := x.getD 0 0
  let x1raw := x.getD 1 0
  let x1l : Nat := if 65 ≤ x1raw.toNat ∧ x1raw.toNat ≤ 90 then x1raw.toNat + 32 else x1raw.toNat
  let hasPrefix := n ≥ 2 && x0 == 48 && (x1l == 120 || x1l == 111 || x1l == 98)
  let isX := hasPrefix && x1l == 120
  let start := if hasPrefix then 2 else 0
  -- d: 0 = '_', 1 = digit, 2 = other
  let step (acc : Nat × Bool) (c : UInt8) : Nat × Bool :=
    let (p, bad) := acc
    if bad then acc else
    let ci : Int := c.toNat
    if c == 95 then (0, p != 1)
    else if isDec ci || (isX && isHexI ci) then (1, false)
    else (2, p == 0)
  let init : Nat × Bool := (if hasPrefix then 1 else 2, false)
  let (d, bad) := (x.drop start).foldl step init
  bad || d == 0

def Sc.err (s : Sc) (msg : String) : Except ScanErr α := .error ⟨s.pos, msg, false⟩

def quoteRune (c : Int) : String := "'" ++ String.singleton (Char.ofNat c.toNat) ++ "'"

/-- the local variables of `scanNumber` -/
structure NumSt where
  ch : Int
  s : Sc
  base : Nat := 10
  prefix_ : Int := 0
  digsep : Nat := 0
  invalid : Int := 0
  tok : Int := tokInt
  seenDot : Bool := false

/-- `scanNumber`, integer part: base prefix, digits, and the radix point (`if !seenDot { ... }`) -/
def numIntPart (fuel : Nat) (n : NumSt) : Except ScanErr NumSt := do
  if n.seenDot then pure n else
  let n ← (if n.ch == 48 then do
      let (c1, s1) ← n.s.next
      let l := lowerI c1
      if l == 120 then
        let (c2, s2) ← s1.next
        pure { n with ch := c2, s := s2, base := 16, prefix_ := 120 }
      else if l == 111 then
        let (c2, s2) ← s1.next
        pure { n with ch := c2, s := s2, base := 8, prefix_ := 111 }
      else if l == 98 then
        let (c2, s2) ← s1.next
        pure { n with ch := c2, s := s2, base := 2, prefix_ := 98 }
      else
        pure { n with ch := c1, s := s1, base := 8, prefix_ := 48, digsep := 1 }
    else pure n : Except ScanErr NumSt)
  let (c3, ds, inv, s3) ← digitsLoop fuel n.ch n.base 0 n.invalid n.s
  let n := { n with ch := c3, s := s3, digsep := n.digsep ||| ds, invalid := inv }
  if n.ch == 46 then
    let (c4, s4) ← n.s.next
    pure { n with ch := c4, s := s4, seenDot := true }
  else pure n

/-- fractional part (`if seenDot { ... }`) -/
def numFracPart (fuel : Nat) (n : NumSt) : Except ScanErr NumSt := do
  if n.seenDot then
    if n.prefix_ == 111 || n.prefix_ == 98 then
      n.s.err ("invalid radix point in " ++ litname n.prefix_)
    let (c5, ds, inv, s5) ← digitsLoop fuel n.ch n.base 0 n.invalid n.s
    pure { n with tok := tokFloat, ch := c5, s := s5, digsep := n.digsep ||| ds, invalid := inv }
  else pure n

/-- "has no digits" check and the exponent -/
def numExpPart (fuel : Nat) (n : NumSt) : Except ScanErr NumSt := do
  if n.digsep % 2 == 0 then
    n.s.err (litname n.prefix_ ++ " has no digits")
  let e := lowerI n.ch
  if e == 101 || e == 112 then
    if e == 101 && n.prefix_ != 0 && n.prefix_ != 48 then
      n.s.err (quoteRune n.ch ++ " exponent requires decimal mantissa")
    if e == 112 && n.prefix_ != 120 then
      n.s.err (quoteRune n.ch ++ " exponent requires hexadecimal mantissa")
    let (c6, s6) ← n.s.next
    let (c7, s7) ← (if c6 == 43 || c6 == 45 then s6.next else pure (c6, s6) : Except ScanErr (Int × Sc))
    let (c8, ds, _, s8) ← digitsLoop fuel c7 10 0 1 s7     -- invalid := 1: nil pointer, nothing recorded
    if ds % 2 == 0 then
      s8.err "exponent has no digits"
    pure { n with tok := tokFloat, ch := c8, s := s8, digsep := n.digsep ||| ds }
  else if n.prefix_ == 120 && n.tok == tokFloat then
    n.s.err "hexadecimal mantissa requires a 'p' exponent"
  else pure n

/-- invalid digit and separator checks; result -/
def numFinish (tokStart : Nat) (n : NumSt) : Except ScanErr (Int × Int × Sc) := do
  if n.tok == tokInt && n.invalid != 0 then
    n.s.err ("invalid digit " ++ quoteRune n.invalid ++ " in " ++ litname n.prefix_)
  if n.digsep / 2 % 2 == 1 then
    let tokEnd := n.s.off - n.s.lastCharLen
    let txt := (n.s.src.extract tokStart tokEnd).toList
    if invalidSep txt then
      n.s.err "'_' must separate successive digits"
  pure (n.tok, n.ch, n.s)

/-- `scanNumber`: returns (token type, next char, scanner); `tokStart` is the byte offset of the token -/
def scanNumber (fuel : Nat) (tokStart : Nat) (ch : Int) (seenDot : Bool) (s : Sc) : Except ScanErr (Int × Int × Sc) := do
  let n ← numIntPart fuel { ch := ch, s := s, seenDot := seenDot }
  let n ← numFracPart fuel n
  let n ← numExpPart fuel n
  numFinish tokStart n

/-- `Scanner.Scan()` together with `Position` and `TokenText()` -/
def Sc.scan (s : Sc) : Except ScanErr (Token × Sc) := do
  let fuel := s.rest.length + 2
  let (c0, s0) ← s.peek
  let (ch, s1) ← skipWsLoop fuel c0 s0
  let tokStart := s1.off - s1.lastCharLen
  let pos : Pos := if s1.col > 0 then ⟨tokStart, s1.line, s1.col⟩ else ⟨tokStart, s1.line - 1, s1.lastLineLen⟩
  let finish (tok : Int) (chNext : Int) (s2 : Sc) : Token × Sc :=
    let tokEnd := s2.off - s2.lastCharLen
    let tokEnd := if tokEnd < tokStart then tokStart else tokEnd
    (⟨tok, pos, (s2.src.extract tokStart tokEnd).toList⟩, { s2 with ch := chNext })
  if isIdentRune ch 0 then
    let (c1, s2) ← s1.next
    let (c2, s3) ← identLoop fuel 1 c1 s2
    pure (finish tokIdent c2 s3)
  else if isDec ch then
    let (tok, c2, s3) ← scanNumber fuel tokStart ch false s1
    pure (finish tok c2 s3)
  else if ch == -1 then
    pure (finish tokEOF ch s1)
  else if ch == 46 then
    let (c1, s2) ← s1.next
    if isDec c1 then
      let (tok, c2, s3) ← scanNumber fuel tokStart c1 true s2
      pure (finish tok c2 s3)
    else pure (finish ch c1 s2)
  else
    let (c1, s2) ← s1.next
    pure (finish ch c1 s2)

def Sc.init (data : List UInt8) : Sc :=
  { src := data.toArray, rest := decodeAll data.length data }

end CanVerif
