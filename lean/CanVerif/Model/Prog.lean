import CanVerif.Model.Runner
/-
Structured programs over the runner's atoms, and an abstract interpreter for them.

`Prog` is what harness/cmd/extract produces from the Go source of pkg/canrunner: statements become `seq`, `alt`
(if / switch / select: one branch runs), `loop` (for / range: any number of iterations), `blk` (switch / select as
the target of `break`), `call` (an inlined function, method or closure: its `return`s end the call), `ret`, `brk`,
`cont`, and the atoms of Model/Runner.lean.  `Run p t e` is the big-step semantics: `t` is the atom trace of a (partial
or complete) execution and `e` how it left `p` (`stop` = observed in the middle).

`chk δ p X` runs `p` abstractly from every state in `X` of a finite-state monitor `δ : S → Atom → Option S`
(`none` = the monitor rejects) and returns the sets of monitor states at each kind of exit, or `none` if some path is
rejected.  Loops are handled by iterating to a post-fixpoint which is then *checked*, so soundness does not depend on
how it was found.  Core Lean only.
-/
namespace CanVerif

inductive Prog
  | skip
  | atom (a : Atom)
  | seq (p q : Prog)
  | alt (p q : Prog)
  | loop (body : Prog)
  | blk (body : Prog)
  | call (body : Prog)
  | ret
  | brk
  | cont
deriving Repr, DecidableEq

inductive Exit | fall | ret | brk | cont | stop
deriving DecidableEq, Repr

inductive Run : Prog → List Atom → Exit → Prop
  | stop (p : Prog) : Run p [] .stop
  | skip : Run .skip [] .fall
  | atom (a : Atom) : Run (.atom a) [a] .fall
  | seqFall {p q t1 t2 e} : Run p t1 .fall → Run q t2 e → Run (.seq p q) (t1 ++ t2) e
  | seqExit {p q t1 e} : Run p t1 e → e ≠ .fall → Run (.seq p q) t1 e
  | altL {p q t e} : Run p t e → Run (.alt p q) t e
  | altR {p q t e} : Run q t e → Run (.alt p q) t e
  | loopDone {p} : Run (.loop p) [] .fall
  | loopIter {p t1 t2 e1 e2} : Run p t1 e1 → (e1 = .fall ∨ e1 = .cont) → Run (.loop p) t2 e2 →
      Run (.loop p) (t1 ++ t2) e2
  | loopBrk {p t} : Run p t .brk → Run (.loop p) t .fall
  | loopOut {p t e} : Run p t e → (e = .ret ∨ e = .stop) → Run (.loop p) t e
  | blkIn {p t e} : Run p t e → e ≠ .brk → Run (.blk p) t e
  | blkBrk {p t} : Run p t .brk → Run (.blk p) t .fall
  | callIn {p t e} : Run p t e → (e = .fall ∨ e = .stop) → Run (.call p) t e
  | callRet {p t} : Run p t .ret → Run (.call p) t .fall
  | ret : Run .ret [] .ret
  | brk : Run .brk [] .brk
  | cont : Run .cont [] .cont

/-- run a monitor over a trace -/
def foldM' {S : Type} (δ : S → Atom → Option S) : S → List Atom → Option S
  | s, [] => some s
  | s, a :: r => match δ s a with
    | none => none
    | some s' => foldM' δ s' r

structure Outs (S : Type) where
  fall : List S := []
  ret : List S := []
  brk : List S := []
  cont : List S := []
deriving Repr

variable {S : Type} [DecidableEq S]

def subset (a b : List S) : Bool := a.all fun x => b.contains x
def union (a b : List S) : List S := a ++ b.filter fun x => !a.contains x

def Outs.join (a b : Outs S) : Outs S :=
  { fall := union a.fall b.fall, ret := union a.ret b.ret, brk := union a.brk b.brk, cont := union a.cont b.cont }

/-- apply the monitor to every state of a set; `none` if it rejects one of them -/
def stepAll (δ : S → Atom → Option S) (a : Atom) : List S → Option (List S)
  | [] => some []
  | s :: r => match δ s a, stepAll δ a r with
    | some s', some r' => some (union [s'] r')
    | _, _ => none

/-- iterate the loop head set: `fuel` rounds of adding the states that flow back to the head -/
def iterHead (f : List S → Option (Outs S)) : Nat → List S → List S
  | 0, X => X
  | n+1, X => match f X with
    | none => X
    | some o => let X' := union X (union o.fall o.cont)
      if subset X' X then X else iterHead f n X'

def chk (δ : S → Atom → Option S) (fuel : Nat) : Prog → List S → Option (Outs S)
  | .skip, X => some { fall := X }
  | .atom a, X => (stepAll δ a X).map fun Y => { fall := Y }
  | .seq p q, X => match chk δ fuel p X with
    | none => none
    | some o1 => match chk δ fuel q o1.fall with
      | none => none
      | some o2 => some { fall := o2.fall, ret := union o1.ret o2.ret, brk := union o1.brk o2.brk, cont := union o1.cont o2.cont }
  | .alt p q, X => match chk δ fuel p X, chk δ fuel q X with
    | some o1, some o2 => some (o1.join o2)
    | _, _ => none
  | .loop p, X =>
    let H := iterHead (chk δ fuel p) fuel X
    match chk δ fuel p H with
    | none => none
    | some o =>
      if subset X H && subset o.fall H && subset o.cont H then some { fall := union H o.brk, ret := o.ret }
      else none
  | .blk p, X => (chk δ fuel p X).map fun o => { o with fall := union o.fall o.brk, brk := [] }
  | .call p, X => match chk δ fuel p X with
    | none => none
    | some o => if o.brk.isEmpty && o.cont.isEmpty then some { fall := union o.fall o.ret } else none
  | .ret, X => some { ret := X }
  | .brk, X => some { brk := X }
  | .cont, X => some { cont := X }

/-! ### the two monitors of C13 -/

/-- lock discipline: the state is "this goroutine holds the node lock" -/
def lockMon : Bool → Atom → Option Bool
  | h, .lock => if h then none else some true
  | h, .unlock => if h then some false else none
  | h, .access _ => if h then some h else none
  | h, .hook => if h then none else some h
  | h, .tx => if h then none else some h
  | h, .retIf => if h then none else some h
  | h, .other _ => some h

inductive HookSt | idle | hooked | framed
deriving DecidableEq, Repr

/-- a transmitted frame is marshalled after the latest hook call: `tx` is accepted only in state `framed` -/
def frameMon : HookSt → Atom → Option HookSt
  | _, .hook => some .hooked
  | .hooked, .access "Frame" => some .framed
  | s, .tx => if s = .framed then some .idle else none
  | s, _ => some s

/-- all atoms of a program (for the non-vacuity statements) -/
def Prog.atoms : Prog → List Atom
  | .atom a => [a]
  | .seq p q => p.atoms ++ q.atoms
  | .alt p q => p.atoms ++ q.atoms
  | .loop p => p.atoms
  | .blk p => p.atoms
  | .call p => p.atoms
  | _ => []

/-- a goroutine body obeys the lock discipline: no path is rejected, and it returns without the lock -/
def lockSafe (p : Prog) : Bool :=
  match chk lockMon 4 (.call p) [false] with
  | some o => subset o.fall [false]
  | none => false

def frameAfterHook (p : Prog) : Bool := (chk frameMon 6 (.call p) [HookSt.idle]).isSome

end CanVerif
