import CanVerif.Model.Frame
/-
Model of `Frame.String` / `Frame.UnmarshalString` (frame.go).  Strings are byte lists (Go `string` indexing
and `len` are byte based).  Modelled stdlib pieces: `fmt` verbs `%03X`/`%08X` on uint32, `strconv.Itoa` on
0..255, `hex.EncodeToString` + `strings.ToUpper`, `strings.Split(s, "#")`, `strconv.ParseUint(_, 16, 32)`,
`strconv.Atoi` on a one-byte string, `hex.DecodeString`.  Core Lean only.
-/
namespace CanVerif

abbrev Str := List UInt8

def ch (c : Char) : UInt8 := UInt8.ofNat c.toNat

def hexUpper (n : Nat) : UInt8 := if n < 10 then UInt8.ofNat (48 + n) else UInt8.ofNat (55 + n)   -- '0'.. / 'A'..
def hexLower (n : Nat) : UInt8 := if n < 10 then UInt8.ofNat (48 + n) else UInt8.ofNat (87 + n)   -- 'a'..

/-- value of a hex digit in either case -/
def hexVal (c : UInt8) : Option Nat :=
  let n := c.toNat
  if 48 ≤ n ∧ n ≤ 57 then some (n - 48)
  else if 97 ≤ n ∧ n ≤ 102 then some (n - 87)
  else if 65 ≤ n ∧ n ≤ 70 then some (n - 55)
  else none

/-- exactly `k` upper-case hex digits of `n`, most significant first -/
def hexFixed : Nat → Nat → Str
  | 0, _ => []
  | k+1, n => hexFixed k (n / 16) ++ [hexUpper (n % 16)]

/-- number of hex digits of `n` (at least 1) -/
def hexLen (n : Nat) : Nat := if h : n < 16 then 1 else hexLen (n / 16) + 1
termination_by n
decreasing_by omega

/-- `%0kX`: at least `k` digits, zero padded -/
def fmtHexMin (k n : Nat) : Str := if n < 16 ^ k then hexFixed k n else hexFixed (hexLen n) n

def decDigits (n : Nat) : Str :=
  if h : n < 10 then [UInt8.ofNat (48 + n)] else decDigits (n / 10) ++ [UInt8.ofNat (48 + n % 10)]
termination_by n
decreasing_by omega

/-- payload bytes d[0..7] -/
def dataBytes (d : Data) : List UInt8 := (List.range 8).map fun j => UInt8.ofNat ((d.toNat >>> (8 * j)) % 256)
def dataOfBytes (bs : List UInt8) : Data := BitVec.ofNat 64 ((bs.take 8).foldr (fun b acc => acc * 256 + b.toNat) 0)

def hexEncodeUpper (bs : List UInt8) : Str := bs.flatMap fun b => [hexUpper (b.toNat / 16), hexUpper (b.toNat % 16)]
def hexEncodeLower (bs : List UInt8) : Str := bs.flatMap fun b => [hexLower (b.toNat / 16), hexLower (b.toNat % 16)]

inductive PrintResult
  | ok (s : Str)
  | panic      -- Data[:Length] with Length > 8
deriving DecidableEq, Repr

/-- `Frame.String` -/
def Frame.toStr (f : Frame) : PrintResult :=
  let id := if f.isExtended then fmtHexMin 8 f.id.toNat else fmtHexMin 3 f.id.toNat
  if f.isRemote && f.length.toNat == 0 then .ok (id ++ [ch '#', ch 'R'])
  else if f.isRemote then .ok (id ++ [ch '#', ch 'R'] ++ decDigits f.length.toNat)
  else if f.length.toNat > 8 then .panic
  else .ok (id ++ [ch '#'] ++ hexEncodeUpper ((dataBytes f.data).take f.length.toNat))

/-- `strings.Split(s, "#")` -/
def splitHash : Str → List Str
  | [] => [[]]
  | c :: cs =>
    match splitHash cs with
    | [] => [[]]          -- unreachable
    | p :: ps => if c = ch '#' then [] :: p :: ps else (c :: p) :: ps

/-- `strconv.ParseUint(s, 16, 32)` for non-empty `s` of at most 8 bytes: all bytes hex digits -/
def parseHexUint (s : Str) : Option Nat :=
  if s.isEmpty then none else
  s.foldl (fun acc c => match acc, hexVal c with
    | some a, some v => some (a * 16 + v)
    | _, _ => none) (some 0)

/-- `hex.DecodeString` -/
def hexDecode : Str → Option (List UInt8)
  | [] => some []
  | [_] => none
  | a :: b :: rest =>
    match hexVal a, hexVal b, hexDecode rest with
    | some x, some y, some r => some (UInt8.ofNat (x * 16 + y) :: r)
    | _, _, _ => none

/-- the part of `UnmarshalString` after the `#` -/
def parsePayload (base : Frame) (dp : Str) : Option Frame :=
  if dp.isEmpty then some base
  else if dp.head? = some (ch 'R') then
    if dp.length > 2 then none
    else if dp.length = 2 then
      -- strconv.Atoi on one byte: a digit; anything else (including a lone sign) is an error
      let dg := (dp.getD 1 0).toNat
      if 48 ≤ dg ∧ dg ≤ 57 then some { base with isRemote := true, length := BitVec.ofNat 8 (dg - 48) }
      else none
    else some { base with isRemote := true }
  else if dp.length > 16 ∨ dp.length % 2 ≠ 0 then none
  else match hexDecode dp with
    | none => none
    | some bytes => some { base with length := BitVec.ofNat 8 (dp.length / 2), data := dataOfBytes bytes }

/-- `Frame.UnmarshalString`: `none` = error (destination untouched) -/
def parseFrame (s : Str) : Option Frame :=
  match splitHash s with
  | [idPart, dataPart] =>
    if idPart.length ≠ 3 ∧ idPart.length ≠ 8 then none else
    match parseHexUint idPart with
    | none => none
    | some id =>
      parsePayload { id := BitVec.ofNat 32 id, length := 0#8, data := 0#64, isRemote := false,
                     isExtended := idPart.length == 8 } dataPart
  | _ => none

end CanVerif
