import CanVerif.Model.Phys
import CanVerif.Model.Frame
/-
Denotation of the code `internal/generate/file.go` emits for one message (C03, C10, C19): the struct fields with
their Go types, `Reset`, raw and physical setters/getters, `Frame`, `UnmarshalFrame`, `CopyFrom`, and the
database-level dispatcher — written template by template as `file.go` prints them, over the descriptor functions of
Model/Bits, Model/Signal, Model/Phys.  `hasPhysicalRepresentation` and the multiplexer selector literal follow the
code after their `fix:` commits (1-bit signals have no physical accessors; a 1-bit multiplexer is compared with
true/false).  Core Lean only.
-/
namespace CanVerif

inductive Kind | bool | float | sint (w : Nat) | uint (w : Nat)
deriving DecidableEq, Repr

/-- width thresholds of `signalPrimitiveType` -/
def goWidth (L : Nat) : Nat := if L ≤ 8 then 8 else if L ≤ 16 then 16 else if L ≤ 32 then 32 else 64

/-- `signalPrimitiveType` -/
def kindOf (s : DSignal) : Kind :=
  if s.length == 32 && s.float then .float
  else if s.length == 1 then .bool
  else if s.signed && s.length ≤ 64 then .sint (goWidth s.length) else .uint (goWidth s.length)

def Kind.goName : Kind → String
  | .bool => "bool" | .float => "float32" | .sint w => s!"int{w}" | .uint w => s!"uint{w}"

/-- stored raw value of a field: booleans as 0/1, integers as themselves, float32 as its bit pattern -/
abbrev Raw := Int

/-- `hasPhysicalRepresentation` (1-bit signals excluded) -/
def hasPhysical (s : DSignal) : Bool :=
  if s.length == 1 then false else
  let hasScale := f64Ne s.scale 0 && f64Ne s.scale 0x3ff0000000000000
  let hasOffset := f64Ne s.offset 0
  let hasRange := f64Ne s.min 0 || f64Ne s.max 0
  let constrained :=
    if s.float then f64Lt (f64Neg f32MaxAsF64) s.min || f64Lt s.max f32MaxAsF64
    else if s.signed then f64Lt (f64OfInt (sInt64 (minSigned s.length))) s.min || f64Lt s.max (f64OfInt (sInt64 (maxSigned s.length)))
    else f64Lt 0 s.min || f64Lt s.max (f64OfNat (maxUnsigned s.length).toNat)
  hasScale || hasOffset || (hasRange && constrained)

/-- wrap an integer into the field type -/
def wrapKind (k : Kind) (v : Int) : Int :=
  match k with
  | .bool => if v != 0 then 1 else 0
  | .float => v % 2^32
  | .uint w => v % (2 ^ w : Int)
  | .sint w => let u := v % (2 ^ w : Int); if u ≥ (2 ^ (w - 1) : Int) then u - (2 ^ w : Int) else u

/-- value of the field as float64 (`float64(m.xxx_S)`) -/
def fieldToF64 (k : Kind) (v : Raw) : F64 :=
  match k with
  | .float => f32ToF64 v.toNat
  | _ => f64OfInt v

/-- `Reset`: the declared start value, converted to the field type by the Go compiler -/
def resetVal (s : DSignal) : Raw :=
  match kindOf s with
  | .bool => if s.default == 1 then 1 else 0
  | .float => (f64ToF32 (f64OfInt s.default) : Nat)
  | _ => s.default

/-- raw setter: `T(SaturatedCast<Super>(Super(v)))` (direct store for bools) -/
def setRaw (s : DSignal) (v : Raw) : Raw :=
  match kindOf s with
  | .bool => if v != 0 then 1 else 0
  | .float => (f64ToF32 (satFloat (f32ToF64 v.toNat)) : Nat)
  | .sint w => wrapKind (.sint w) (satSigned s.length (BitVec.ofInt 64 v)).toInt
  | .uint w => wrapKind (.uint w) (satUnsigned s.length (BitVec.ofInt 64 v)).toNat

/-- physical setter: `T(FromPhysical(x))` -/
def setPhys (s : DSignal) (x : F64) : Raw :=
  let r := fromPhysical s x
  match kindOf s with
  | .bool => 0
  | .float => (f64ToF32 r : Nat)
  | .sint w => f64ToIntType true w r
  | .uint w => f64ToIntType false w r

def getPhys (s : DSignal) (v : Raw) : F64 := toPhysical s (fieldToF64 (kindOf s) v)

/-- one `md.S.Marshal<Super>(&f.Data, Super(m.xxx_S))` -/
def marshalField (s : DSignal) (v : Raw) (d : Data) : Data :=
  if s.length ≤ 32 && s.float then
    -- MarshalFloat(float64(field)): float32 -> float64 -> float32 keeps the pattern (NaNs are quieted)
    s.sig.marshalFloatBits d (BitVec.ofNat 32 (f64ToF32 (fieldToF64 (kindOf s) v)))
  else if s.length == 1 then s.sig.marshalBool d (v != 0)
  else if s.signed then s.sig.marshalSigned d (BitVec.ofInt 64 v)
  else s.sig.marshalUnsigned d (BitVec.ofInt 64 v)

/-- one `T(md.S.Unmarshal<Super>(f.Data))` -/
def unmarshalField (s : DSignal) (d : Data) : Raw :=
  if s.length ≤ 32 && s.float then
    wrapKind (kindOf s) (f64ToF32 (f32ToF64 (s.sig.unmarshalFloatBits d).toNat) : Nat)
  else if s.length == 1 then (if s.sig.unmarshalBool d then 1 else 0)
  else if s.signed then wrapKind (kindOf s) (s.sig.unmarshalSigned d).toInt
  else wrapKind (kindOf s) (s.sig.unmarshalUnsigned d).toNat

structure GState where
  vals : List Raw          -- parallel to the descriptor's signal list
deriving Repr, DecidableEq

def newState (m : DMessage) : GState := ⟨m.signals.map resetVal⟩

def muxOf (m : DMessage) : Option (Nat × DSignal) :=
  (m.signals.zipIdx.find? (fun p => p.1.mux)).map fun p => (p.2, p.1)

/-- `Frame()` -/
def frameOf (m : DMessage) (st : GState) : Frame :=
  let zs := m.signals.zip st.vals
  let d0 : Data := 0#64
  let d1 := zs.foldl (fun d (p : DSignal × Raw) => if p.1.muxed then d else marshalField p.1 p.2 d) d0
  let d2 := match muxOf m with
    | none => d1
    | some (mi, _) =>
      let mv := st.vals.getD mi 0
      zs.foldl (fun d (p : DSignal × Raw) =>
        if p.1.muxed && mv == (p.1.muxValue : Int) then marshalField p.1 p.2 d else d) d1
  { id := BitVec.ofNat 32 m.id, length := BitVec.ofNat 8 m.length, data := d2, isRemote := false, isExtended := m.extended }

/-- `UnmarshalFrame`: `none` = error, message unchanged -/
def unmarshalFrame (m : DMessage) (st : GState) (f : Frame) : Option GState :=
  if f.id.toNat != m.id || f.length.toNat != m.length || f.isRemote || f.isExtended != m.extended then none
  else if m.signals.isEmpty then some st
  else
    let zs := m.signals.zip st.vals
    let v1 := zs.map fun (p : DSignal × Raw) => if p.1.muxed then p.2 else unmarshalField p.1 f.data
    let v2 := match muxOf m with
      | none => v1
      | some (mi, _) =>
        let mv := v1.getD mi 0
        (m.signals.zip v1).map fun (p : DSignal × Raw) =>
          if p.1.muxed && mv == (p.1.muxValue : Int) then unmarshalField p.1 f.data else p.2
    some ⟨v2⟩

/-- `CopyFrom`: `f, _ := o.MarshalFrame(); _ = m.UnmarshalFrame(f)` (an error leaves the destination as it was) -/
def copyFrom (m : DMessage) (dst src : GState) : GState :=
  (unmarshalFrame m dst (frameOf m src)).getD dst

def setAt (l : List Raw) (i : Nat) (v : Raw) : List Raw := l.set i v

/-- representable raw range of a signal (C10's invariant) -/
def rawInRange (s : DSignal) (v : Raw) : Bool :=
  match kindOf s with
  | .bool => v == 0 || v == 1
  | .float => 0 ≤ v && v < 2^32
  | .sint _ => -(2 ^ (s.length - 1) : Int) ≤ v && v ≤ (2 ^ (s.length - 1) : Int) - 1
  | .uint _ => 0 ≤ v && v ≤ (2 ^ s.length : Int) - 1

def Inv (m : DMessage) (st : GState) : Bool :=
  st.vals.length == m.signals.length && (m.signals.zip st.vals).all fun p => rawInRange p.1 p.2

end CanVerif
