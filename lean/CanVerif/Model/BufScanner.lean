/-
Model of `pkg/socketcan/receiver.go` (`bufio.Scanner` specialised to `scanFrames`) and of
`Transmitter.TransmitFrame`.  A read script is the list of results the underlying connection's
`Read` returns: some bytes and possibly an error (a read may return bytes *and* an error).
When the script is exhausted the connection reports end of stream (`io.EOF`).
`bufio.Scanner` itself is modelled (stdlib), restricted to what `scanFrames` can observe: it appends what
was read to its buffer, hands out 16-byte tokens while the buffer holds at least 16 bytes, reads again only
when it does not, and after a read error delivers the tokens still complete in the buffer, then stops.
Core Lean only.
-/
namespace CanVerif

abbrev Bytes := List UInt8

inductive RdErr
  | eof
  | other (code : Nat)
deriving DecidableEq, Repr

structure Read where
  bytes : Bytes
  err : Option RdErr
deriving Repr

/-- all complete 16-byte blocks of a byte string, in order; a trailing partial block is dropped -/
def blocks16 (s : Bytes) : List Bytes :=
  if _h : 16 ≤ s.length then s.take 16 :: blocks16 (s.drop 16) else []
termination_by s.length
decreasing_by simp [List.length_drop]; omega

/-- what is left in the buffer after all complete blocks were handed out -/
def rest16 (s : Bytes) : Bytes :=
  if _h : 16 ≤ s.length then rest16 (s.drop 16) else s
termination_by s.length
decreasing_by simp [List.length_drop]; omega

/-- `Scanner.Err()`: io.EOF is not reported -/
def reportErr : Option RdErr → Option Nat
  | some (.other c) => some c
  | _ => none

/-- The receive loop: returns the blocks for which `Receive()` returned true (in order) and the final `Err()`.
`buf` is the scanner's buffered, not yet delivered input. -/
def runScript : List Read → Bytes → List Bytes × Option Nat
  | [], buf => (blocks16 buf, none)
  | ⟨bytes, none⟩ :: more, buf =>
    let r := runScript more (rest16 buf ++ bytes)
    (blocks16 buf ++ r.1, r.2)
  | ⟨bytes, some e⟩ :: _, buf =>
    (blocks16 buf ++ blocks16 (rest16 buf ++ bytes), reportErr (some e))

/-- `Transmitter.TransmitFrame` against a connection whose `Write` succeeds or fails:
(the writes performed, the frames passed to the interceptor, success). -/
def transmit (wireBytes : Bytes) (writeOk : Bool) : List Bytes × Nat × Bool :=
  ([wireBytes], if writeOk then 1 else 0, writeOk)

/-- one Transmitter used for a history of frames: the writes, the number of intercepted frames, and each result.
The state carried from one call to the next is empty: the transmitter keeps no payload between calls. -/
def transmitSeq : List (Bytes × Bool) → List Bytes × Nat × List Bool
  | [] => ([], 0, [])
  | (w, ok) :: rest =>
    let (ws, ic, res) := transmit w ok
    let r := transmitSeq rest
    (ws ++ r.1, ic + r.2.1, res :: r.2.2)

end CanVerif
