/-
Model of `data.go` and `internal/reinterpret/reinterpret.go` (C01, C02, C17, parts of C08).

The payload (`can.Data`, `[8]byte`) is modelled as a `BitVec 64` whose bit `k` is bit `k % 8`
of byte `k / 8` -- i.e. the documented bit numbering of `can.Data`.  Under this representation
`PackLittleEndian` is the identity and `PackBigEndian` is the byte swap.  The line protocol moves
payloads as the 16 hex digits of d[0]..d[7]; the conversion is in `Driver`.

Core Lean only (this file is linked into the native `canmodel` driver).
-/
namespace CanVerif

abbrev Data := BitVec 64

/-- payload bit `k` under the documented numbering (false above 63). -/
def payloadBit (d : Data) (k : Nat) : Bool := d.getLsbD k

/-- `invertEndian` of data.go on naturals: row-mirrored index. -/
def invIdx (i : Nat) : Nat := (7 - i / 8) * 8 + i % 8

/-- `invertEndian` as the Go code computes it, on uint8 (wraps). -/
def invertEndian8 (i : BitVec 8) : BitVec 8 :=
  let row := i / 8#8
  let col := i % 8#8
  let oppositeRow := 7#8 - row
  oppositeRow * 8#8 + col

/-- byte `j` of the payload as a 64-bit word -/
def byteAt (d : Data) (j : Nat) : BitVec 64 := (d >>> (8 * j)) &&& 0xff#64

/-- `PackBigEndian` (byte swap of the LE-packed word). -/
def bswap (d : Data) : BitVec 64 :=
  (byteAt d 0 <<< 56) ||| (byteAt d 1 <<< 48) ||| (byteAt d 2 <<< 40) ||| (byteAt d 3 <<< 32) |||
  (byteAt d 4 <<< 24) ||| (byteAt d 5 <<< 16) ||| (byteAt d 6 <<< 8) ||| byteAt d 7

def packLE (d : Data) : BitVec 64 := d
def packBE (d : Data) : BitVec 64 := bswap d
def unpackLE (p : BitVec 64) : Data := p
def unpackBE (p : BitVec 64) : Data := bswap p

/-- `(1 << length) - 1` in uint64 with Go semantics (shift ≥ 64 gives 0, so mask is all-ones). -/
def mask (l : Nat) : BitVec 64 := (1#64 <<< l) - 1#64

/-- `UnsignedBitsLittleEndian`; `s`,`l` are the uint8 arguments. -/
def readULE (d : Data) (s l : Nat) : BitVec 64 := (packLE d >>> s) &&& mask l

/-- lsb index for a big-endian range as the Go code computes it in uint8 arithmetic. -/
def beLsb (s l : Nat) : Nat := ((invertEndian8 (BitVec.ofNat 8 s)) - BitVec.ofNat 8 l + 1#8).toNat

/-- `UnsignedBitsBigEndian`. -/
def readUBE (d : Data) (s l : Nat) : BitVec 64 := (packBE d >>> beLsb s l) &&& mask l

/-- `reinterpret.AsSigned`. Result is the int64 as a `BitVec 64` (two's complement). -/
def asSigned (u : BitVec 64) (bits : Nat) : BitVec 64 :=
  if bits = 8 then (u.setWidth 8).signExtend 64
  else if bits = 16 then (u.setWidth 16).signExtend 64
  else if bits = 32 then (u.setWidth 32).signExtend 64
  else if bits = 64 then u
  else
    -- bits is a uint8; bits-1 wraps to 255 for bits = 0 and the shift then yields 0
    let signBitMask : BitVec 64 := 1#64 <<< ((BitVec.ofNat 8 bits - 1#8).toNat)
    if (u &&& signBitMask) = 0#64 then u
    else
      let valueBitMask := signBitMask - 1#64
      let value := ((~~~ u) &&& valueBitMask) + 1#64
      (BitVec.allOnes 64) * value   -- -1 * int64(value)

/-- `reinterpret.AsUnsigned`. -/
def asUnsigned (x : BitVec 64) (bits : Nat) : BitVec 64 :=
  if bits = 8 then (x.setWidth 8).setWidth 64
  else if bits = 16 then (x.setWidth 16).setWidth 64
  else if bits = 32 then (x.setWidth 32).setWidth 64
  else if bits = 64 then x
  else x &&& mask bits

def readSLE (d : Data) (s l : Nat) : BitVec 64 := asSigned (readULE d s l) l
def readSBE (d : Data) (s l : Nat) : BitVec 64 := asSigned (readUBE d s l) l

/-- `SetUnsignedBitsLittleEndian`. -/
def writeULE (d : Data) (s l : Nat) (v : BitVec 64) : Data :=
  let packed := packLE d
  let unsetMask := ~~~ (mask l <<< s)
  let setMask := v <<< s
  unpackLE (packed &&& unsetMask ||| setMask)

/-- `SetUnsignedBitsBigEndian`. -/
def writeUBE (d : Data) (s l : Nat) (v : BitVec 64) : Data :=
  let packed := packBE d
  let lsb := beLsb s l
  let unsetMask := ~~~ (mask l <<< lsb)
  let setMask := v <<< lsb
  unpackBE (packed &&& unsetMask ||| setMask)

def writeSLE (d : Data) (s l : Nat) (x : BitVec 64) : Data := writeULE d s l (asUnsigned x l)
def writeSBE (d : Data) (s l : Nat) (x : BitVec 64) : Data := writeUBE d s l (asUnsigned x l)

/-- `Data.Bit`. -/
def getBit (d : Data) (i : Nat) : Bool :=
  if i > 63 then false else d.getLsbD i

/-- `Data.SetBit`. -/
def setBit (d : Data) (i : Nat) (b : Bool) : Data :=
  if i > 63 then d
  else if b then d ||| (1#64 <<< i) else d &&& ~~~ (1#64 <<< i)

/-! ### Range checks (C17): the model follows the Go code after the `fix:` commit (computation in `int`). -/

/-- `CheckBitRangeLittleEndian` : true = nil error. -/
def checkLE (fl s l : Nat) : Bool :=
  let msb : Int := (s : Int) + (l : Int) - 1
  let upper : Int := (fl : Int) * 8
  !(msb ≥ upper)

/-- `CheckBitRangeBigEndian` : true = nil error. -/
def checkBE (fl s l : Nat) : Bool :=
  let upper := fl * 8
  if s ≥ upper || s > 63 then false
  else
    let msb : Int := (invIdx s : Int)
    let lsb : Int := msb - (l : Int) + 1
    if lsb < 0 then false
    else
      let e := invIdx lsb.toNat
      !(e ≥ upper)

/-- `CheckValue` : true = nil error. -/
def checkValue (v : BitVec 64) (bits : Nat) : Bool :=
  if bits ≥ 64 then true
  else !(v ≥ (1#64 <<< bits))

/-! ### Specification-level definitions (independent of pack/shift): used as the executable oracle. -/

/-- Big-endian walk: position of the `k`-th bit after the start bit (msb first). -/
def bePos (s : Nat) : Nat → Nat
  | 0 => s
  | k+1 => let p := bePos s k; if p % 8 = 0 then p + 15 else p - 1

def FitsLE (s l : Nat) : Prop := 1 ≤ l ∧ s + l ≤ 64
def FitsBE (s l : Nat) : Prop := 1 ≤ l ∧ l ≤ 64 ∧ s < 64 ∧ bePos s (l-1) < 64

instance (s l : Nat) : Decidable (FitsLE s l) := by unfold FitsLE; infer_instance
instance (s l : Nat) : Decidable (FitsBE s l) := by unfold FitsBE; infer_instance

/-- value with bit `i` given by `f i` for `i < l`: the integer whose binary digits are `f 0 .. f (l-1)`. -/
def bitsToNat : Nat → (Nat → Bool) → Nat
  | 0, _ => 0
  | l+1, f => bitsToNat l f + (if f l then 2 ^ l else 0)

/-- spec: unsigned LE read, bit by bit. -/
def specReadLE (d : Data) (s l : Nat) : Nat := bitsToNat l (fun i => payloadBit d (s + i))
/-- spec: unsigned BE read, bit by bit (value bit `i` is the `(l-1-i)`-th position of the walk). -/
def specReadBE (d : Data) (s l : Nat) : Nat := bitsToNat l (fun i => payloadBit d (bePos s (l - 1 - i)))
/-- spec: two's-complement interpretation of `l` bits. -/
def specSigned (u : Nat) (l : Nat) : Int := if u / 2 ^ (l - 1) % 2 = 1 then (u : Int) - 2 ^ l else u

/-- spec write: every payload bit given by a position → value-bit map -/
def specWrite (d : Data) (l : Nat) (pos : Nat → Nat) (v : Nat) : Data :=
  BitVec.ofNat 64 (bitsToNat 64 (fun k =>
    match (List.range l).find? (fun i => pos i = k) with
    | some i => v.testBit i
    | none => payloadBit d k))

def specWriteLE (d : Data) (s l : Nat) (v : Nat) : Data := specWrite d l (fun i => s + i) v
def specWriteBE (d : Data) (s l : Nat) (v : Nat) : Data := specWrite d l (fun i => bePos s (l - 1 - i)) v

/-- spec: LE check — every bit of the range inside the first `fl` bytes. -/
def specCheckLE (fl s l : Nat) : Bool := (List.range l).all (fun i => s + i < 8 * fl)
/-- spec: BE check — every position of the walk inside the first `fl` bytes (and on the 64-bit grid). -/
def specCheckBE (fl s l : Nat) : Bool := (List.range l).all (fun j => bePos s j < 8 * fl)

/-! ### Ranges: a (byte order, start, length) triple with its documented bit positions -/

structure Range where
  be : Bool
  s : Nat
  l : Nat
deriving Repr, DecidableEq

def Range.Fits (r : Range) : Prop := if r.be then FitsBE r.s r.l else FitsLE r.s r.l
instance (r : Range) : Decidable r.Fits := by unfold Range.Fits; infer_instance

/-- payload position of value bit `i` (bit 0 = least significant) under the documented numbering -/
def Range.pos (r : Range) (i : Nat) : Nat := if r.be then bePos r.s (r.l - 1 - i) else r.s + i

def readU (r : Range) (d : Data) : BitVec 64 := if r.be then readUBE d r.s r.l else readULE d r.s r.l
def readS (r : Range) (d : Data) : BitVec 64 := if r.be then readSBE d r.s r.l else readSLE d r.s r.l
def writeU (r : Range) (d : Data) (v : BitVec 64) : Data := if r.be then writeUBE d r.s r.l v else writeULE d r.s r.l v
def writeS (r : Range) (d : Data) (x : BitVec 64) : Data := if r.be then writeSBE d r.s r.l x else writeSLE d r.s r.l x

/-- bits of `u` at index ≥ `l` are zero (`u < 2^l`) -/
def Below (u : BitVec 64) (l : Nat) : Prop := u.toNat < 2 ^ l
instance (u : BitVec 64) (l : Nat) : Decidable (Below u l) := by unfold Below; infer_instance

end CanVerif
