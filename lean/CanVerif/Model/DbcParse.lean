import CanVerif.Model.TextScanner
import CanVerif.Model.Strconv
/-
Model of `pkg/dbc`: the definition types (`def.go`), the parser (`parser.go`), identifier / message-id / enum
validation.  Written function by function as the Go code is (token look-ahead, the three whitespace modes,
`string()`, every `parseFrom`, typed attribute look-back).  `discardLine` and the `BS_` branch follow the code after
their `fix:` commits.  Every loop carries a fuel argument (source length + 2); partial Go operations are guarded.
Strings and identifiers are byte lists.  Core Lean only.
-/
namespace CanVerif

abbrev BStr := List UInt8

inductive ObjType | unspecified | node | message | signal | env
deriving DecidableEq, Repr, Inhabited
inductive AttrType | int | hex | float | string | enum
deriving DecidableEq, Repr, Inhabited

structure ValueDesc where
  pos : Pos
  value : F64
  desc : BStr
deriving Repr, Inhabited

structure SignalDef where
  pos : Pos
  name : BStr
  start : Nat := 0
  size : Nat := 0
  bigEndian : Bool := false
  signed : Bool := false
  isMux : Bool := false
  isMuxed : Bool := false
  muxValue : Nat := 0
  offset : F64 := 0
  factor : F64 := 0
  min : F64 := 0
  max : F64 := 0
  unit : BStr := []
  receivers : List BStr := []
deriving Repr, Inhabited

inductive Def
  | version (pos : Pos) (v : BStr)
  | newSymbols (pos : Pos) (syms : List BStr)
  | bitTiming (pos : Pos) (baud btr1 btr2 : Nat)
  | nodes (pos : Pos) (names : List BStr)
  | valueTable (pos : Pos) (name : BStr) (vds : List ValueDesc)
  | message (pos : Pos) (id : Nat) (name : BStr) (size : Nat) (transmitter : BStr) (signals : List SignalDef)
  | signal (s : SignalDef)                         -- a top-level SG_ (outside a message)
  | txbu (pos : Pos) (id : Nat) (transmitters : List BStr)
  | valDescs (pos : Pos) (obj : ObjType) (id : Nat) (sig env : BStr) (vds : List ValueDesc)
  | envVar (pos : Pos) (name : BStr) (typ : Nat) (min max : F64) (unit : BStr) (init : F64) (id : Nat) (access : BStr)
      (nodes : List BStr)
  | envData (pos : Pos) (name : BStr) (size : Nat)
  | comment (pos : Pos) (obj : ObjType) (node : BStr) (id : Nat) (sig env : BStr) (text : BStr)
  | attrDef (pos : Pos) (obj : ObjType) (name : BStr) (typ : AttrType) (minI maxI : Int) (minF maxF : F64)
      (enums : List BStr)
  | attrDefault (pos : Pos) (name : BStr) (i : Int) (f : F64) (s : BStr)
  | attrValue (pos : Pos) (name : BStr) (obj : ObjType) (id : Nat) (sig node env : BStr) (i : Int) (f : F64) (s : BStr)
  | sigValType (pos : Pos) (id : Nat) (sig : BStr) (typ : Nat)
  | unknown (pos : Pos) (kw : BStr)
deriving Repr, Inhabited

def Def.pos : Def → Pos
  | .version p _ | .newSymbols p _ | .bitTiming p .. | .nodes p _ | .valueTable p .. | .message p .. | .txbu p ..
  | .valDescs p .. | .envVar p .. | .envData p .. | .comment p .. | .attrDef p .. | .attrDefault p ..
  | .attrValue p .. | .sigValType p .. | .unknown p _ => p
  | .signal s => s.pos

inductive PErr
  | parse (pos : Pos) (reason : String)
  | panic (site : String)
  | fuel
deriving Repr

/-- parser state: the scanner and the one-token look-ahead.  The definitions parsed so far are *not* part of it:
`parseDef` receives them read-only (the attribute look-back), `parseStep` appends exactly one. -/
structure PS where
  sc : Sc
  hasLA : Bool := false
  la : Token := default

abbrev P := StateT PS (Except PErr)

def bs (s : String) : BStr := s.toList.map fun c => UInt8.ofNat c.toNat

def failf (pos : Pos) (reason : String) : P α := throw (.parse pos reason)
/-- a Go run-time panic (a partial operation outside its domain) -/
def panicAt (site : String) : P α := throw (.panic site)

def liftSc (f : Sc → Except ScanErr (α × Sc)) : P α := do
  let st ← get
  match f st.sc with
  | .ok (a, sc') => set { st with sc := sc' }; pure a
  | .error e => if e.fuel then throw .fuel else throw (.parse e.pos e.msg)

def useWhitespace (ws : Nat) : P Unit := modify fun st => { st with sc := { st.sc with ws := ws } }

def nextToken : P Token := do
  let st ← get
  if st.hasLA then
    set { st with hasLA := false }
    pure st.la
  else liftSc Sc.scan

def peekToken : P Token := do
  let st ← get
  if st.hasLA then pure st.la
  else
    let t ← liftSc Sc.scan
    modify fun st => { st with hasLA := true, la := t }
    pure t

/-- number of runes of a byte string (`utf8.RuneCountInString`) -/
def runeCount (s : BStr) : Nat := (decodeAll s.length s).length

def nextRune : P Int := do
  let st ← get
  if st.hasLA then
    if runeCount st.la.txt > 1 then failf st.la.pos "cannot get next rune when lookahead contains a token"
    set { st with hasLA := false }
    pure (decodeRune st.la.txt).r
  else liftSc Sc.nextRune

def peekRune : P Int := do
  let st ← get
  if st.hasLA then
    if runeCount st.la.txt > 1 then failf st.la.pos "cannot peek next rune when lookahead contains a token"
    pure (decodeRune st.la.txt).r
  else liftSc Sc.peek

/-- `discardLine` (one token per iteration, as after the fix) -/
def discardLoop : Nat → P Unit
  | 0 => throw .fuel
  | fuel+1 => do
    let tok ← nextToken
    if tok.typ == 10 || tok.typ == tokEOF then pure () else discardLoop fuel

def discardLine (fuel : Nat) : P Unit := do
  useWhitespace significantNewline
  discardLoop fuel
  useWhitespace goWhitespace

def stringLoop (tokPos : Pos) : Nat → List UInt8 → P BStr
  | 0, _ => throw .fuel
  | fuel+1, acc => do
    let r ← nextRune
    if r == -1 then failf tokPos "unterminated string"
    else if r == 34 then pure acc.reverse
    else if r == 10 then stringLoop tokPos fuel (32 :: acc)
    else if r == 92 then
      let p ← peekRune
      if p == 34 then
        let _ ← nextRune
        stringLoop tokPos fuel (34 :: 92 :: acc)
      else stringLoop tokPos fuel (92 :: acc)
    else stringLoop tokPos fuel ((utf8Encode' r.toNat).reverse ++ acc)
where
  utf8Encode' (cp : Nat) : List UInt8 :=
    if cp < 0x80 then [UInt8.ofNat cp]
    else if cp < 0x800 then [UInt8.ofNat (0xC0 + cp / 64), UInt8.ofNat (0x80 + cp % 64)]
    else if cp < 0x10000 then [UInt8.ofNat (0xE0 + cp / 4096), UInt8.ofNat (0x80 + cp / 64 % 64), UInt8.ofNat (0x80 + cp % 64)]
    else [UInt8.ofNat (0xF0 + cp / 262144), UInt8.ofNat (0x80 + cp / 4096 % 64), UInt8.ofNat (0x80 + cp / 64 % 64), UInt8.ofNat (0x80 + cp % 64)]

/-- `Parser.string()` -/
def pString (fuel : Nat) : P BStr := do
  let tok ← nextToken
  if tok.typ != 34 then failf tok.pos "expected token \""
  stringLoop tok.pos fuel []

def isAlphaB (c : UInt8) : Bool := (65 ≤ c.toNat && c.toNat ≤ 90) || (97 ≤ c.toNat && c.toNat ≤ 122)

/-- `Identifier.Validate` (non-ASCII runes are never alpha/num, so a byte-wise test is equivalent) -/
def identValid (id : BStr) : Bool :=
  !id.isEmpty && id.length ≤ 128 &&
  (match id with
   | c :: rest => (c == 95 || isAlphaB c) && rest.all (fun d => d == 95 || isAlphaB d || isDigB d)
   | [] => false)

def identifier : P BStr := do
  let tok ← nextToken
  if tok.typ != tokIdent then failf tok.pos "expected ident"
  if !identValid tok.txt then failf tok.pos "invalid identifier"
  pure tok.txt

def stringIdentifier (fuel : Nat) : P BStr := do
  let tok ← peekToken
  let id ← pString fuel
  if !identValid id then failf tok.pos "invalid identifier"
  pure id

def peekKeyword : P BStr := do
  let tok ← peekToken
  if tok.typ != tokIdent then failf tok.pos "expected ident"
  pure tok.txt

def keyword (kw : String) : P Token := do
  let k ← peekKeyword
  if k != bs kw then
    let t ← peekToken
    failf t.pos "expected keyword"
  nextToken

def token (typ : Int) : P Unit := do
  let tok ← nextToken
  if tok.typ != typ then
    let t ← peekToken
    failf t.pos "expected token"

def optionalToken (typ : Int) : P Unit := do
  let t ← peekToken
  if t.typ == typ then token typ

def pUint : P Nat := do
  let tok ← nextToken
  if tok.typ != tokInt then failf tok.pos "expected int"
  match parseUint64 tok.txt with
  | some v => pure v
  | none => failf tok.pos "invalid uint"

def pFloat : P F64 := do
  let t ← peekToken
  let neg := t.typ == 45
  if neg then token 45
  let tok ← nextToken
  if tok.typ != tokInt && tok.typ != tokFloat then
    let t2 ← peekToken
    failf t2.pos "expected int or float"
  match parseFloat64 tok.txt with
  | none => failf tok.pos "invalid float"
  | some f => pure (if neg then f64Neg f else f)

def maxInt64 : Int := 2^63 - 1
def minInt64 : Int := -(2^63)
def wrapInt64 (i : Int) : Int := (i + 2^63) % 2^64 - 2^63

def pInt : P Int := do
  let t ← peekToken
  let neg := t.typ == 45
  if neg then token 45
  let tok ← nextToken
  if tok.typ != tokInt && tok.typ != tokFloat then failf tok.pos "expected int or float"
  match parseFloat64 tok.txt with
  | none => failf tok.pos "invalid int"
  | some f =>
    -- f is non-negative here (token text carries no sign); f > MaxInt64 compares against float64(2^63)
    let i : Int := if f64Lt (f64OfNat (2^63)) f then maxInt64 else f64ToInt64 f
    pure (if neg then wrapInt64 (i * -1) else i)

def intInRange (lo hi : Int) : P Int := do
  let t ← peekToken
  let neg := t.typ == 45
  if neg then token 45
  let tok ← nextToken
  match atoi tok.txt with
  | none => failf tok.pos "invalid int"
  | some i =>
    let i := if neg then i * -1 else i
    if i < lo || i > hi then failf tok.pos "invalid value"
    pure i

def optionalUint : P Nat := do
  let t ← peekToken
  if t.typ != tokInt then pure 0
  else
    let tok ← nextToken
    match parseUint64 tok.txt with
    | some v => pure v
    | none => failf tok.pos "invalid uint"

def anyOf (ts : List Int) : P Int := do
  let tok ← nextToken
  if ts.contains tok.typ then pure tok.typ else failf tok.pos "unexpected token"

def objTypeOf (id : BStr) : Option ObjType :=
  if id == bs "BU_" then some .node else if id == bs "BO_" then some .message
  else if id == bs "SG_" then some .signal else if id == bs "EV_" then some .env else none

def optionalObjectType : P ObjType := do
  let tok ← peekToken
  if tok.typ != tokIdent then pure .unspecified
  else
    let id ← identifier
    match objTypeOf id with
    | some o => pure o
    | none => failf tok.pos "invalid object type"

/-- `MessageID.Validate` on the uint32 value -/
def msgIdValid (m : Nat) : Bool :=
  if m == 0xc0000000 then true
  else
    let ext := m / 2^31 % 2 == 1
    let can := if ext then m - 2^31 else m
    if ext then can ≤ 0x1fffffff else can ≤ 0x7ff

def messageID : P Nat := do
  let tok ← peekToken
  let v ← pUint
  let m := v % 2^32           -- MessageID(uint64) truncates to uint32
  if !msgIdValid m then failf tok.pos "invalid message id"
  pure m

def signalValueType : P Nat := do
  let tok ← peekToken
  let v ← pUint
  if v > 2 then failf tok.pos "invalid signal value type"
  pure v

def environmentVariableType : P Nat := do
  let tok ← peekToken
  let v ← pUint
  if v > 2 then failf tok.pos "invalid environment variable type"
  pure v

def attrTypeOf (id : BStr) : Option AttrType :=
  if id == bs "INT" then some .int else if id == bs "HEX" then some .hex else if id == bs "FLOAT" then some .float
  else if id == bs "STRING" then some .string else if id == bs "ENUM" then some .enum else none

def attributeValueType : P AttrType := do
  let tok ← peekToken
  let id ← identifier
  match attrTypeOf id with
  | some t => pure t
  | none => failf tok.pos "invalid attribute value type"

def accessType : P BStr := do
  let tok ← peekToken
  let id ← identifier
  if id == bs "DUMMY_NODE_VECTOR0" || id == bs "DUMMY_NODE_VECTOR1" || id == bs "DUMMY_NODE_VECTOR2" ||
      id == bs "DUMMY_NODE_VECTOR3" then pure id
  else failf tok.pos "invalid access type"

def enumValue (fuel : Nat) (values : List BStr) : P BStr := do
  let tok ← peekToken
  if tok.typ == tokInt then
    let i ← pUint
    match values[i]? with
    | some v => pure v
    | none => failf tok.pos "enum index out of bounds"
  else pString fuel

def valueDescription (fuel : Nat) : P ValueDesc := do
  let t ← peekToken
  let v ← pFloat
  let d ← pString fuel
  pure ⟨t.pos, v, d⟩

/-- `for p.peekToken().typ != ';' { valueDescription }` -/
def valueDescLoop (strFuel : Nat) : Nat → List ValueDesc → P (List ValueDesc)
  | 0, _ => throw .fuel
  | fuel+1, acc => do
    let t ← peekToken
    if t.typ == 59 then pure acc.reverse
    else
      let vd ← valueDescription strFuel
      valueDescLoop strFuel fuel (vd :: acc)

/-- `, ident` repetitions -/
def commaIdentLoop : Nat → List BStr → P (List BStr)
  | 0, _ => throw .fuel
  | fuel+1, acc => do
    let t ← peekToken
    if t.typ == 44 then
      token 44
      let id ← identifier
      commaIdentLoop fuel (id :: acc)
    else pure acc.reverse

def parseSignal (fuel : Nat) : P SignalDef := do
  let kw ← keyword "SG_"
  let name ← identifier
  let mut isMux := false
  let mut isMuxed := false
  let mut muxValue := 0
  let t ← peekToken
  if t.typ != 58 then
    let tok ← nextToken
    if tok.typ != tokIdent then failf tok.pos "expected ident"
    if tok.txt == bs "M" then isMux := true
    else if tok.txt.isEmpty then panicAt "tok.txt[0]: index out of range"   -- Go: tok.txt[0]
    else if tok.txt.head? == some 109 && tok.txt.length > 1 then
      isMuxed := true
      match atoi (tok.txt.drop 1) with
      | some i => if i < 0 then failf tok.pos "invalid multiplexer value" else muxValue := i.toNat
      | none => failf tok.pos "invalid multiplexer value"
    else failf tok.pos "expected multiplexer"
  token 58
  let start ← pUint
  token 124
  let size ← pUint
  token 64
  let be ← intInRange 0 1
  let sg ← anyOf [45, 43]
  token 40
  let factor ← pFloat
  token 44
  let offset ← pFloat
  token 41
  token 91
  let mn ← pFloat
  token 124
  let mx ← pFloat
  token 93
  let unit ← pString fuel
  let r0 ← identifier
  let rs ← commaIdentLoop fuel [r0]
  pure { pos := kw.pos, name, start, size, bigEndian := be == 0, signed := sg == 45, isMux, isMuxed, muxValue,
         offset, factor, min := mn, max := mx, unit, receivers := rs }

/-- `for p.peekToken().typ != EOF && p.peekKeyword() == SG_` -/
def signalLoop (strFuel : Nat) : Nat → List SignalDef → P (List SignalDef)
  | 0, _ => throw .fuel
  | fuel+1, acc => do
    let t ← peekToken
    if t.typ == tokEOF then pure acc.reverse
    else
      let k ← peekKeyword
      if k == bs "SG_" then
        let s ← parseSignal strFuel
        signalLoop strFuel fuel (s :: acc)
      else pure acc.reverse

def identWhileLoop : Nat → List BStr → P (List BStr)
  | 0, _ => throw .fuel
  | fuel+1, acc => do
    let t ← peekToken
    if t.typ == tokIdent then
      let id ← identifier
      identWhileLoop fuel (id :: acc)
    else pure acc.reverse

def newSymLoop : Nat → List BStr → P (List BStr)
  | 0, _ => throw .fuel
  | fuel+1, acc => do
    let t ← peekToken
    if t.typ == 9 then
      token 9
      let id ← identifier
      newSymLoop fuel (id :: acc)
    else pure acc.reverse

def txLoop : Nat → List BStr → P (List BStr)
  | 0, _ => throw .fuel
  | fuel+1, acc => do
    let t ← peekToken
    if t.typ == 59 then pure acc.reverse
    else
      let id ← identifier
      optionalToken 44
      txLoop fuel (id :: acc)

def commaStringLoop (strFuel : Nat) : Nat → List BStr → P (List BStr)
  | 0, _ => throw .fuel
  | fuel+1, acc => do
    let t ← peekToken
    if t.typ == 44 then
      token 44
      let s ← pString strFuel
      commaStringLoop strFuel fuel (s :: acc)
    else pure acc.reverse

/-- first earlier `BA_DEF_` with that name: (type, enum values) -/
def lookupAttr (defs : Array Def) (name : BStr) : Option (AttrType × List BStr) :=
  defs.findSome? fun d => match d with
    | .attrDef _ _ n t _ _ _ _ en => if n == name then some (t, en) else none
    | _ => none

/-- typed attribute value: (int, float, string) -/
def attrTypedValue (defs : Array Def) (fuel : Nat) (name : BStr) : P (Int × F64 × BStr) := do
  match lookupAttr defs name with
  | none => pure (0, 0, [])
  | some (.int, _) | some (.hex, _) => do let i ← pInt; pure (i, 0, [])
  | some (.float, _) => do let f ← pFloat; pure (0, f, [])
  | some (.string, _) => do let s ← pString fuel; pure (0, 0, s)
  | some (.enum, en) => do let s ← enumValue fuel en; pure (0, 0, s)

def objRef (o : ObjType) : P (Nat × BStr × BStr × BStr) := do   -- (msg id, signal, node, env)
  match o with
  | .node => do let n ← identifier; pure (0, [], n, [])
  | .message => do let m ← messageID; pure (m, [], [], [])
  | .signal => do let m ← messageID; let s ← identifier; pure (m, s, [], [])
  | .env => do let e ← identifier; pure (0, [], [], e)
  | .unspecified => pure (0, [], [], [])

/-- one definition, selected by the keyword of the look-ahead token -/
def parseDef (defs : Array Def) (fuel : Nat) : P Def := do
  let kw ← peekKeyword
  if kw == bs "VERSION" then
    let k ← keyword "VERSION"
    let v ← pString fuel
    pure (.version k.pos v)
  else if kw == bs "BS_" then
    let k ← keyword "BS_"
    token 58
    let baud ← optionalUint
    let mut btr1 := 0
    let mut btr2 := 0
    let t ← peekToken
    if t.typ == 58 then
      token 58
      btr1 ← optionalUint
    let t2 ← peekToken
    if t2.typ == 44 then
      token 44
      btr2 ← optionalUint
    pure (.bitTiming k.pos baud btr1 btr2)
  else if kw == bs "NS_" then
    useWhitespace significantTab
    let k ← keyword "NS_"
    token 58
    let syms ← newSymLoop fuel []
    useWhitespace goWhitespace
    pure (.newSymbols k.pos syms)
  else if kw == bs "BU_" then
    useWhitespace significantNewline
    let k ← keyword "BU_"
    token 58
    let names ← identWhileLoop fuel []
    let t ← peekToken
    if t.typ != tokEOF then token 10
    useWhitespace goWhitespace
    pure (.nodes k.pos names)
  else if kw == bs "BO_" then
    let k ← keyword "BO_"
    let id ← messageID
    let name ← identifier
    token 58
    let size ← pUint
    let tx ← identifier
    let sigs ← signalLoop fuel fuel []
    pure (.message k.pos id name size tx sigs)
  else if kw == bs "SG_" then
    let s ← parseSignal fuel
    pure (.signal s)
  else if kw == bs "EV_" then
    let k ← keyword "EV_"
    let name ← identifier
    token 58
    let typ ← environmentVariableType
    token 91
    let mn ← pFloat
    token 124
    let mx ← pFloat
    token 93
    let unit ← pString fuel
    let init ← pFloat
    let id ← pUint
    let acc ← accessType
    let n0 ← identifier
    let ns ← commaIdentLoop fuel [n0]
    token 59
    pure (.envVar k.pos name typ mn mx unit init id acc ns)
  else if kw == bs "CM_" then
    let k ← keyword "CM_"
    let o ← optionalObjectType
    let (m, s, n, e) ← objRef o
    let text ← pString fuel
    token 59
    pure (.comment k.pos o n m s e text)
  else if kw == bs "BA_DEF_" then
    let k ← keyword "BA_DEF_"
    let o ← optionalObjectType
    let name ← stringIdentifier fuel
    let typ ← attributeValueType
    let mut minI : Int := 0
    let mut maxI : Int := 0
    let mut minF : F64 := 0
    let mut maxF : F64 := 0
    let mut enums : List BStr := []
    match typ with
    | .int | .hex =>
      let t ← peekToken
      if t.typ != 59 then
        minI ← pInt
        maxI ← pInt
    | .float =>
      let t ← peekToken
      if t.typ != 59 then
        minF ← pFloat
        maxF ← pFloat
    | .enum =>
      let e0 ← pString fuel
      enums ← commaStringLoop fuel fuel [e0]
    | .string => pure ()
    token 59
    pure (.attrDef k.pos o name typ minI maxI minF maxF enums)
  else if kw == bs "BA_DEF_DEF_" then
    let k ← keyword "BA_DEF_DEF_"
    let name ← pString fuel
    let (i, f, s) ← attrTypedValue defs fuel name
    token 59
    pure (.attrDefault k.pos name i f s)
  else if kw == bs "BA_" then
    let k ← keyword "BA_"
    let name ← pString fuel
    let o ← optionalObjectType
    let (m, s, n, e) ← match o with
      | .message => do let m ← messageID; pure (m, ([] : BStr), ([] : BStr), ([] : BStr))
      | .signal => do let m ← messageID; let s ← identifier; pure (m, s, [], [])
      | .node => do let n ← identifier; pure (0, [], n, [])
      | .env => do let e ← identifier; pure (0, [], [], e)
      | .unspecified => pure (0, [], [], [])
    let (i, f, sv) ← attrTypedValue defs fuel name
    token 59
    pure (.attrValue k.pos name o m s n e i f sv)
  else if kw == bs "VAL_" then
    let k ← keyword "VAL_"
    let t ← peekToken
    let (o, m, s, e) ← if t.typ == tokIdent then do
        let e ← identifier
        pure (ObjType.env, 0, ([] : BStr), e)
      else do
        let m ← messageID
        let s ← identifier
        pure (ObjType.signal, m, s, ([] : BStr))
    let vds ← valueDescLoop fuel fuel []
    token 59
    pure (.valDescs k.pos o m s e vds)
  else if kw == bs "VAL_TABLE_" then
    let k ← keyword "VAL_TABLE_"
    let name ← identifier
    let vds ← valueDescLoop fuel fuel []
    token 59
    pure (.valueTable k.pos name vds)
  else if kw == bs "SIG_VALTYPE_" then
    let k ← keyword "SIG_VALTYPE_"
    let m ← messageID
    let s ← identifier
    optionalToken 58
    let typ ← signalValueType
    token 59
    pure (.sigValType k.pos m s typ)
  else if kw == bs "BO_TX_BU_" then
    let k ← keyword "BO_TX_BU_"
    let m ← messageID
    token 58
    let txs ← txLoop fuel []
    token 59
    pure (.txbu k.pos m txs)
  else if kw == bs "ENVVAR_DATA_" then
    let k ← keyword "ENVVAR_DATA_"
    let name ← identifier
    token 58
    let size ← pUint
    token 59
    pure (.envData k.pos name size)
  else
    let t ← peekToken
    discardLine fuel
    pure (.unknown t.pos t.txt)

inductive ParseResult
  | ok (defs : List Def)
  | error (pos : Pos) (reason : String) (defsSoFar : List Def)
  | panic (site : String)
  | outOfFuel
deriving Repr

/-- one iteration of `Parser.Parse`'s loop: `none` at end of input, otherwise the state after one more definition -/
def parseStep (defFuel : Nat) (defs : Array Def) (st : PS) : Except PErr (Option (Def × PS)) :=
  match (peekToken).run st with
  | .error e => .error e
  | .ok (t, st1) =>
    if t.typ == tokEOF then .ok none
    else match (parseDef defs defFuel).run st1 with
      | .error e => .error e
      | .ok (d, st2) => .ok (some (d, st2))

/-- `Parser.Parse` followed by `Defs()` -/
def parseAll (defFuel : Nat) : Nat → Array Def → PS → ParseResult
  | 0, _, _ => .outOfFuel
  | fuel+1, defs, st =>
    match parseStep defFuel defs st with
    | .error (.parse pos r) => .error pos r defs.toList
    | .error (.panic s) => .panic s
    | .error .fuel => .outOfFuel
    | .ok none => .ok defs.toList
    | .ok (some (d, st')) => parseAll defFuel fuel (defs.push d) st'

def parseDbc (data : List UInt8) : ParseResult :=
  let fuel := data.length + 2
  parseAll fuel fuel #[] { sc := Sc.init data }

end CanVerif
