import CanVerif.Model.GenSem
/-
The exported API `internal/generate/file.go` emits for a database (C11), as a canonical sorted listing in the
format of harness/cmd/genbuild's `apiOf`: interfaces with their method sets, struct and named types, constants,
functions and methods on exported receivers with parameter and result types (type expressions without spaces).
Core Lean only.
-/
namespace CanVerif

def strOfB (b : BStr) : String := String.ofList (b.map fun c => Char.ofNat c.toNat)

def hasCustomType (s : DSignal) : Bool := !s.vds.isEmpty

def signalTypeName (m : DMessage) (s : DSignal) : String :=
  if hasCustomType s then strOfB m.name ++ "_" ++ strOfB s.name else (kindOf s).goName

def isAlnum (c : UInt8) : Bool := isAlphaB c || isDigB c
def slugify (b : BStr) : String := strOfB (b.filter isAlnum)

def collectTx (db : Database) (n : DNode) : List DMessage :=
  db.messages.filter fun m => m.sender == n.name && m.sendType != 0
def collectRx (db : Database) (n : DNode) : List DMessage :=
  db.messages.filter fun m => m.signals.any fun s => s.receivers.contains n.name
def hasSendType (db : Database) : Bool := db.messages.any fun m => m.sendType != 0

def sortStr (l : List String) : List String := sortBy (fun a b => decide (a < b)) l
def iface (name : String) (ms : List String) : String := "interface " ++ name ++ "{" ++ ";".intercalate (sortStr ms) ++ "}"

def messageApi (m : DMessage) : List String :=
  let M := strOfB m.name
  let reader := m.signals.flatMap fun s =>
    let S := strOfB s.name
    if hasPhysical s then [s!"{S}()(float64)", s!"Raw{S}()({signalTypeName m s})"] else [s!"{S}()({signalTypeName m s})"]
  let writer := m.signals.flatMap fun s =>
    let S := strOfB s.name
    if hasPhysical s then [s!"Set{S}(float64)(*{M})", s!"SetRaw{S}({signalTypeName m s})(*{M})"]
    else [s!"Set{S}({signalTypeName m s})(*{M})"]
  let accessors := m.signals.flatMap fun s =>
    let S := strOfB s.name
    let T := signalTypeName m s
    if hasPhysical s then
      [s!"func (*{M}){S}()(float64)", s!"func (*{M})Set{S}(float64)(*{M})", s!"func (*{M})Raw{S}()({T})",
       s!"func (*{M})SetRaw{S}({T})(*{M})"]
    else [s!"func (*{M}){S}()({T})", s!"func (*{M})Set{S}({T})(*{M})"]
  let enums := m.signals.flatMap fun s =>
    if !hasCustomType s then [] else
    let T := signalTypeName m s
    [s!"type {T} {(kindOf s).goName}", s!"func ({T})String()(string)"] ++
    s.vds.map fun vd =>
      let v := if s.length == 1 && vd.value == 1 then "true" else if s.length == 1 && vd.value == 0 then "false"
        else toString vd.value
      s!"const {T}_{slugify vd.desc} {T}={v}"
  [iface (M ++ "Reader") ("embed:can.FrameMarshaler" :: reader),
   iface (M ++ "Writer") (s!"CopyFrom({M}Reader)(*{M})" :: writer),
   s!"struct {M}", s!"struct {M}Descriptor",
   s!"func ()New{M}()(*{M})", s!"func (*{M})Reset()()", s!"func (*{M})CopyFrom({M}Reader)(*{M})",
   s!"func (*{M})Descriptor()(*descriptor.Message)", s!"func (*{M})String()(string)",
   s!"func (*{M})Frame()(can.Frame)", s!"func (*{M})MarshalFrame()(can.Frame,error)",
   s!"func (*{M})UnmarshalFrame(can.Frame)(error)"] ++ accessors ++ enums

def nodeApi (db : Database) (n : DNode) : List String :=
  let N := strOfB n.name
  let rx := collectRx db n
  let tx := collectTx db n
  [iface N ["embed:sync.Locker", s!"Tx()({N}_Tx)", s!"Rx()({N}_Rx)", "Run(context.Context)(error)"],
   iface (N ++ "_Rx") ("embed:http.Handler" :: rx.map fun m => s!"{strOfB m.name}()({N}_Rx_{strOfB m.name})"),
   iface (N ++ "_Tx") ("embed:http.Handler" :: tx.map fun m => s!"{strOfB m.name}()({N}_Tx_{strOfB m.name})"),
   s!"func ()New{N}(string,string)({N})"] ++
  (rx.map fun m => iface s!"{N}_Rx_{strOfB m.name}"
    [s!"embed:{strOfB m.name}Reader", "ReceiveTime()(time.Time)", "SetAfterReceiveHook(func(context.Context)error)()"]) ++
  (tx.map fun m => iface s!"{N}_Tx_{strOfB m.name}"
    ([s!"embed:{strOfB m.name}Reader", s!"embed:{strOfB m.name}Writer", "TransmitTime()(time.Time)",
      "Transmit(context.Context)(error)", "SetBeforeTransmitHook(func(context.Context)error)()"] ++
     (if m.sendType == 1 then ["SetCyclicTransmissionEnabled(bool)()", "IsCyclicTransmissionEnabled()(bool)"] else [])))

def apiOf (db : Database) : String :=
  let base := ["struct NodesDescriptor", "struct MessagesDescriptor", "func ()Nodes()(*NodesDescriptor)",
    "func ()Messages()(*MessagesDescriptor)", "func (*MessagesDescriptor)UnmarshalFrame(can.Frame)(generated.Message,error)",
    "func (*MessagesDescriptor)Database()(*descriptor.Database)"]
  let items := base ++ db.messages.flatMap messageApi ++ (if hasSendType db then db.nodes.flatMap (nodeApi db) else [])
  "\n".intercalate (sortStr items)

end CanVerif
