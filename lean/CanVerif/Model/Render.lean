import CanVerif.Model.GenSem
/-
Model of the renderings of a generated message (C19): `cantext.MarshalCompact`, `cantext.Marshal`, `canjson.Marshal`
and the `candebug` page, as *structured* per-signal records (the harness tokenises the real output into the same
records; floats compare by parse-back to their bit pattern, durations by parse-back to nanoseconds).
`canjson` prints unsigned raw values with `FormatUint` (after its `fix:` commit).  Core Lean only.
-/
namespace CanVerif

def hexLowerNat (n : Nat) : String := String.ofList (Nat.toDigits 16 n)

def hxB (b : BStr) : String :=
  if b.isEmpty then "-" else
  String.ofList (b.flatMap fun c =>
    let d (n : Nat) : Char := if n < 10 then Char.ofNat (48 + n) else Char.ofNat (87 + n)
    [d (c.toNat / 16), d (c.toNat % 16)])

def f64Tok (f : F64) : String :=
  if f64IsNaN f then "nan" else
  String.ofList ((List.range 16).reverse.map fun i =>
    let n := f / 16 ^ i % 16
    if n < 10 then Char.ofNat (48 + n) else Char.ofNat (87 + n))

def nameS (s : DSignal) : String := String.ofList (s.name.map fun c => Char.ofNat c.toNat)

def descSuffix (s : DSignal) (d : Data) : String :=
  match unmarshalValueDescription s d with
  | some v => ";D:" ++ hxB v
  | none => ""

def bitOf (s : DSignal) (d : Data) : String := if getBit d s.start then "1" else "0"

/-- `cantext.AppendSignalCompact` -/
def compactTok (s : DSignal) (d : Data) : String :=
  nameS s ++ "=" ++
  match unmarshalValueDescription s d with
  | some v => "D:" ++ hxB v
  | none =>
    if s.length == 1 then "B:" ++ bitOf s d
    else s!"F:{f64Tok (unmarshalPhysical s d)}:U{hxB s.unit}"

/-- the raw value the text forms print in hex: `uint64(UnmarshalSigned)` resp. `UnmarshalUnsigned` -/
def textRawNat (s : DSignal) (d : Data) : Nat :=
  if s.signed then (s.sig.unmarshalSigned d).toNat else (s.sig.unmarshalUnsigned d).toNat

/-- the raw value `canjson` prints for a multi-bit signal (decimal; unsigned values up to 2^64-1 as such) -/
def jsonRawText (s : DSignal) (d : Data) : String :=
  if s.signed then toString (s.sig.unmarshalSigned d).toInt else toString (s.sig.unmarshalUnsigned d).toNat

/-- `cantext.AppendSignal` -/
def multiTok (s : DSignal) (d : Data) : String :=
  nameS s ++ "=" ++
  (if s.length == 1 then "B:" ++ bitOf s d
   else s!"F:{f64Tok (unmarshalPhysical s d)}:U{hxB s.unit}:X{hexLowerNat (textRawNat s d)}") ++ descSuffix s d

/-- `canjson` signal record -/
def jsonTok (s : DSignal) (d : Data) : String :=
  let (raw, phys, descKey) : String × F64 × Int :=
    if s.length == 1 then
      let b := getBit d s.start
      (if b then "1" else "0", toPhysical s (if b then 0x3ff0000000000000 else 0), if b then 1 else 0)
    else if s.signed then
      let v := (s.sig.unmarshalSigned d).toInt
      (jsonRawText s d, toPhysical s (f64OfInt v), v)
    else
      let v := (s.sig.unmarshalUnsigned d)
      (jsonRawText s d, toPhysical s (f64OfNat v.toNat), v.toInt)
  let desc := match s.vds.find? (fun vd => vd.value == descKey) with
    | some vd => hxB vd.desc
    | none => "-"
  s!"{nameS s}=R:{raw};P:{f64Tok phys};U:{hxB s.unit};D:{desc}"

def sendTypeName (t : Nat) : String := if t == 1 then "Cyclic" else if t == 2 then "Event" else "None"

def hxS (s : String) : String := hxB (s.toList.map fun c => UInt8.ofNat c.toNat)

def renderTok (m : DMessage) (d : Data) : String :=
  let sp := " "
  let name := String.ofList (m.name.map fun c => Char.ofNat c.toNat)
  let sender := String.ofList (m.sender.map fun c => Char.ofNat c.toNat)
  let c := sp.intercalate (m.signals.map fun s => compactTok s d)
  let mm := sp.intercalate (hxS name :: m.signals.map fun s => multiTok s d)
  let j := sp.intercalate (m.signals.map fun s => jsonTok s d)
  let hdr := [hxS s!"ID: {m.id} (0x{hexLowerNat m.id})", hxS s!"Sender: {sender}", hxS s!"SendType: {sendTypeName m.sendType}"] ++
    (if m.sendType == 1 then [s!"CycleTime={m.cycleNs}"] else []) ++
    (if m.delayNs != 0 then [s!"DelayTime={m.delayNs}"] else [])
  let h := sp.intercalate (hdr ++ m.signals.map fun s => multiTok s d)
  s!"C[{c}] M[{mm}] J[{j}] H[{h}]"

end CanVerif
