import CanVerif.Model.FrameText
/-
A model of `encoding/json` as far as `Frame.UnmarshalJSON` and the renderers of C19 can observe it:
a validating RFC 8259 parser to a tree (Go's scanner: whitespace SP/TAB/CR/LF, control characters
rejected inside strings, `\uXXXX` escapes, numbers `-?(0|[1-9][0-9]*)(\.[0-9]+)?([eE][+-]?[0-9]+)?`),
and the struct-decoding rules for `jsonFrame` (case-insensitive member names, last duplicate wins, `null`
leaves a plain field alone and nils a pointer field, integer literals only for uint fields with range check).
Strings are byte lists; non-ASCII bytes inside strings are passed through (Go replaces invalid UTF-8 by
U+FFFD, which is never a hex digit, so for the `data` member the difference is unobservable).
Core Lean only.
-/
namespace CanVerif

inductive J
  | null
  | bool (b : Bool)
  | num (text : Str)
  | str (s : Str)
  | arr (xs : List J)
  | obj (kvs : List (Str × J))
deriving Repr

def isWs (c : UInt8) : Bool := c == 32 || c == 9 || c == 10 || c == 13
def jsonIsDigit (c : UInt8) : Bool := 48 ≤ c.toNat && c.toNat ≤ 57

def jsonSkipWs : Str → Str
  | c :: cs => if isWs c then jsonSkipWs cs else c :: cs
  | [] => []

/-- scans a number literal; returns (text, rest) -/
def jsonScanNumber (s : Str) : Option (Str × Str) :=
  let takeDigits (s : Str) : Str × Str := (s.takeWhile jsonIsDigit, s.dropWhile jsonIsDigit)
  let (neg, s1) : Str × Str := match s with
    | c0 :: r => if c0 == 45 then ([(45 : UInt8)], r) else ([], s)
    | [] => ([], s)
  match s1 with
  | [] => none
  | c :: r =>
    if ¬ jsonIsDigit c then none else
    let (intPart, s2) := if c == 48 then ([c], r) else takeDigits s1
    let (frac, s3) : Option Str × Str := match s2 with
      | c2 :: r2 =>
        if c2 == 46 then (let (d, r3) := takeDigits r2; (if d.isEmpty then none else some ((46 : UInt8) :: d), r3))
        else (some [], s2)
      | [] => (some [], s2)
    match frac with
    | none => none
    | some fr =>
      match s3 with
      | e :: r4 =>
        if e == 101 || e == 69 then
          let (sg, r5) : Str × Str := match r4 with
            | x0 :: x => if x0 == 43 then ([(43 : UInt8)], x) else if x0 == 45 then ([(45 : UInt8)], x) else ([], r4)
            | [] => ([], r4)
          let (d, r6) := takeDigits r5
          if d.isEmpty then none else some (neg ++ intPart ++ fr ++ [e] ++ sg ++ d, r6)
        else some (neg ++ intPart ++ fr, s3)
      | [] => some (neg ++ intPart ++ fr, s3)

def utf8Encode (cp : Nat) : Str :=
  if cp < 0x80 then [UInt8.ofNat cp]
  else if cp < 0x800 then [UInt8.ofNat (0xC0 + cp / 64), UInt8.ofNat (0x80 + cp % 64)]
  else if cp < 0x10000 then [UInt8.ofNat (0xE0 + cp / 4096), UInt8.ofNat (0x80 + cp / 64 % 64), UInt8.ofNat (0x80 + cp % 64)]
  else [UInt8.ofNat (0xF0 + cp / 262144), UInt8.ofNat (0x80 + cp / 4096 % 64), UInt8.ofNat (0x80 + cp / 64 % 64), UInt8.ofNat (0x80 + cp % 64)]

def hex4 (a b c d : UInt8) : Option Nat := do
  let a ← hexVal a; let b ← hexVal b; let c ← hexVal c; let d ← hexVal d
  some (((a * 16 + b) * 16 + c) * 16 + d)

/-- scans a string body after the opening quote; returns (unescaped bytes, rest after closing quote) -/
def jsonScanString : Nat → Str → Str → Option (Str × Str)
  | 0, _, _ => none
  | _, _, [] => none
  | fuel+1, acc, c :: cs =>
    if c == 34 then some (acc.reverse, cs)
    else if c.toNat < 32 then none
    else if c == 92 then
      match cs with
      | 34 :: r => jsonScanString fuel (34 :: acc) r
      | 92 :: r => jsonScanString fuel (92 :: acc) r
      | 47 :: r => jsonScanString fuel (47 :: acc) r
      | 98 :: r => jsonScanString fuel (8 :: acc) r
      | 102 :: r => jsonScanString fuel (12 :: acc) r
      | 110 :: r => jsonScanString fuel (10 :: acc) r
      | 114 :: r => jsonScanString fuel (13 :: acc) r
      | 116 :: r => jsonScanString fuel (9 :: acc) r
      | 117 :: a :: b :: c2 :: d :: r =>
        match hex4 a b c2 d with
        | none => none
        | some cp =>
          -- surrogate pairs: a valid pair combines, a lone surrogate becomes U+FFFD
          if 0xD800 ≤ cp ∧ cp < 0xDC00 then
            match r with
            | 92 :: 117 :: a' :: b' :: c' :: d' :: r' =>
              match hex4 a' b' c' d' with
              | some lo =>
                if 0xDC00 ≤ lo ∧ lo < 0xE000 then
                  jsonScanString fuel ((utf8Encode (0x10000 + (cp - 0xD800) * 1024 + (lo - 0xDC00))).reverse ++ acc) r'
                else jsonScanString fuel ((utf8Encode 0xFFFD).reverse ++ acc) r
              | none => none
            | _ => jsonScanString fuel ((utf8Encode 0xFFFD).reverse ++ acc) r
          else if 0xDC00 ≤ cp ∧ cp < 0xE000 then jsonScanString fuel ((utf8Encode 0xFFFD).reverse ++ acc) r
          else jsonScanString fuel ((utf8Encode cp).reverse ++ acc) r
      | _ => none
    else jsonScanString fuel (c :: acc) cs

def lit (w : String) (s : Str) : Option Str :=
  let bs := w.toList.map ch
  if s.take bs.length = bs then some (s.drop bs.length) else none

mutual
/-- parses one value (leading whitespace skipped); fuel bounds nesting and length -/
def parseValue : Nat → Str → Option (J × Str)
  | 0, _ => none
  | fuel+1, s =>
    match jsonSkipWs s with
    | [] => none
    | c :: cs =>
      if c == 110 then (lit "null" (c :: cs)).map fun r => (J.null, r)
      else if c == 116 then (lit "true" (c :: cs)).map fun r => (J.bool true, r)
      else if c == 102 then (lit "false" (c :: cs)).map fun r => (J.bool false, r)
      else if c == 34 then (jsonScanString (cs.length + 1) [] cs).map fun (t, r) => (J.str t, r)
      else if c == 91 then
        match jsonSkipWs cs with
        | 93 :: r => some (J.arr [], r)
        | _ => (parseElems fuel cs []).map fun (xs, r) => (J.arr xs, r)
      else if c == 123 then
        match jsonSkipWs cs with
        | 125 :: r => some (J.obj [], r)
        | _ => (parseMembers fuel cs []).map fun (kvs, r) => (J.obj kvs, r)
      else (jsonScanNumber (c :: cs)).map fun (t, r) => (J.num t, r)

def parseElems : Nat → Str → List J → Option (List J × Str)
  | 0, _, _ => none
  | fuel+1, s, acc =>
    match parseValue fuel s with
    | none => none
    | some (v, r) =>
      match jsonSkipWs r with
      | 44 :: r2 => parseElems fuel r2 (v :: acc)
      | 93 :: r2 => some ((v :: acc).reverse, r2)
      | _ => none

def parseMembers : Nat → Str → List (Str × J) → Option (List (Str × J) × Str)
  | 0, _, _ => none
  | fuel+1, s, acc =>
    match jsonSkipWs s with
    | 34 :: cs =>
      match jsonScanString (cs.length + 1) [] cs with
      | none => none
      | some (k, r) =>
        match jsonSkipWs r with
        | 58 :: r2 =>
          match parseValue fuel r2 with
          | none => none
          | some (v, r3) =>
            match jsonSkipWs r3 with
            | 44 :: r4 => parseMembers fuel r4 ((k, v) :: acc)
            | 125 :: r4 => some (((k, v) :: acc).reverse, r4)
            | _ => none
        | _ => none
    | _ => none
end

/-- a complete JSON document: one value surrounded by whitespace -/
def parseJson (s : Str) : Option J :=
  match parseValue (s.length + 2) s with
  | some (v, r) => if (jsonSkipWs r).isEmpty then some v else none
  | none => none

def lowerAscii (c : UInt8) : UInt8 := if 65 ≤ c.toNat ∧ c.toNat ≤ 90 then c + 32 else c
def keyMatches (k : Str) (name : String) : Bool := k.map lowerAscii == name.toList.map ch

/-- unsigned integer literal within `[0, max]` as `encoding/json` accepts it for uint fields -/
def uintLit (t : Str) (max : Nat) : Option Nat :=
  if t.isEmpty ∨ ¬ t.all jsonIsDigit then none else
  let v := t.foldl (fun a c => a * 10 + (c.toNat - 48)) 0
  if v ≤ max then some v else none

/-- the decoded `jsonFrame` struct; `err` = some member had a value of the wrong type/range -/
structure JF where
  id : Nat := 0
  data : Option Str := none
  length : Option Nat := none
  extended : Option Bool := none
  remote : Option Bool := none
  err : Bool := false

def setId (jf : JF) : J → JF
  | .null => jf
  | .num t => match uintLit t 0xffffffff with | some n => { jf with id := n } | none => { jf with err := true }
  | _ => { jf with err := true }
def setData (jf : JF) : J → JF
  | .null => { jf with data := none }
  | .str s => { jf with data := some s }
  | _ => { jf with err := true }
def setLength (jf : JF) : J → JF
  | .null => { jf with length := none }
  | .num t => match uintLit t 255 with | some n => { jf with length := some n } | none => { jf with err := true }
  | _ => { jf with err := true }
def setExtended (jf : JF) : J → JF
  | .null => { jf with extended := none }
  | .bool b => { jf with extended := some b }
  | _ => { jf with err := true }
def setRemote (jf : JF) : J → JF
  | .null => { jf with remote := none }
  | .bool b => { jf with remote := some b }
  | _ => { jf with err := true }

def decodeMember (jf : JF) (kv : Str × J) : JF :=
  if keyMatches kv.1 "id" then setId jf kv.2
  else if keyMatches kv.1 "data" then setData jf kv.2
  else if keyMatches kv.1 "length" then setLength jf kv.2
  else if keyMatches kv.1 "extended" then setExtended jf kv.2
  else if keyMatches kv.1 "remote" then setRemote jf kv.2
  else jf

/-- `json.Unmarshal(data, &jsonFrame{})` on a parsed document -/
def decodeJF : J → Option JF
  | .null => some {}
  | .obj kvs => let jf := kvs.foldl decodeMember {}; if jf.err then none else some jf
  | _ => none

/-- the logic of `Frame.UnmarshalJSON` after `json.Unmarshal` succeeded -/
def frameOfJF (jf : JF) : Option Frame :=
  let dl : Option (Data × Nat) := match jf.data with
    | some s => (hexDecode s).map fun bytes => (dataOfBytes bytes, bytes.length)
    | none => some (0#64, 0)
  match dl with
  | none => none
  | some (data, len) =>
    let remote := jf.remote.getD false
    let ext := jf.extended.getD false
    if remote then
      match jf.length with
      | none => none
      | some l => some { id := BitVec.ofNat 32 jf.id, length := BitVec.ofNat 8 l, data, isRemote := true, isExtended := ext }
    else some { id := BitVec.ofNat 32 jf.id, length := BitVec.ofNat 8 len, data, isRemote := false, isExtended := ext }

/-- `Frame.UnmarshalJSON` -/
def unmarshalJSON (s : Str) : Option Frame :=
  match parseJson s with
  | none => none
  | some j => match decodeJF j with
    | none => none
    | some jf => frameOfJF jf

def strOf (w : String) : Str := w.toList.map ch

/-- `Frame.JSON` (panics like the Go code when a data frame has Length > 8) -/
def Frame.json (f : Frame) : PrintResult :=
  let id := decDigits f.id.toNat
  let len := decDigits f.length.toNat
  if f.isRemote && f.isExtended then
    .ok (strOf "{\"id\":" ++ id ++ strOf ",\"extended\":true,\"remote\":true,\"length\":" ++ len ++ strOf "}")
  else if f.isRemote then
    .ok (strOf "{\"id\":" ++ id ++ strOf ",\"remote\":true,\"length\":" ++ len ++ strOf "}")
  else if f.isExtended && f.length.toNat == 0 then
    .ok (strOf "{\"id\":" ++ id ++ strOf ",\"extended\":true}")
  else if f.length.toNat > 8 then .panic
  else if f.isExtended then
    .ok (strOf "{\"id\":" ++ id ++ strOf ",\"data\":\"" ++ hexEncodeLower ((dataBytes f.data).take f.length.toNat) ++
      strOf "\",\"extended\":true}")
  else if f.length.toNat == 0 then .ok (strOf "{\"id\":" ++ id ++ strOf "}")
  else
    .ok (strOf "{\"id\":" ++ id ++ strOf ",\"data\":\"" ++ hexEncodeLower ((dataBytes f.data).take f.length.toNat) ++ strOf "\"}")

end CanVerif
