import CanVerif.Model.SoftFloat
import CanVerif.Model.Signal
import CanVerif.Model.Compile
/-
Model of the floating-point part of `pkg/descriptor/signal.go`: `ToPhysical`, `FromPhysical`, `UnmarshalPhysical`,
`SaturatedCastFloat`, `UnmarshalValueDescription`, over the descriptor record `DSignal` and software binary64.
Core Lean only.
-/
namespace CanVerif

def DSignal.sig (s : DSignal) : Sig := { be := s.bigEndian, start := s.start, length := s.length, signed := s.signed }

def hasRange (s : DSignal) : Bool := f64Ne s.min 0 || f64Ne s.max 0

/-- `Signal.ToPhysical` -/
def toPhysical (s : DSignal) (v : F64) : F64 :=
  let r := f64Add (f64Mul v s.scale) s.offset
  if hasRange s then f64Max (f64Min r s.max) s.min else r

def sInt64 (b : BitVec 64) : Int := b.toInt

/-- `Signal.FromPhysical` -/
def fromPhysical (s : DSignal) (p : F64) : F64 :=
  let r := if hasRange s then f64Max (f64Min p s.max) s.min else p
  let r := f64Sub r s.offset
  let r := f64Div r s.scale
  if s.signed then
    f64Max (f64OfInt (sInt64 (minSigned s.length))) (f64Min (f64OfInt (sInt64 (maxSigned s.length))) r)
  else
    f64Max 0 (f64Min (f64OfNat (maxUnsigned s.length).toNat) r)

/-- `Signal.UnmarshalPhysical` -/
def unmarshalPhysical (s : DSignal) (d : Data) : F64 :=
  if s.length == 1 then (if getBit d s.start then 0x3ff0000000000000 else 0)
  else if s.signed then toPhysical s (f64OfInt (sInt64 (s.sig.unmarshalSigned d)))
  else toPhysical s (f64OfNat (s.sig.unmarshalUnsigned d).toNat)

def f32MaxAsF64 : F64 := 0x47efffffe0000000

/-- `Signal.SaturatedCastFloat` -/
def satFloat (v : F64) : F64 :=
  if f64Lt v (f64Neg f32MaxAsF64) then f64Neg f32MaxAsF64
  else if f64Lt f32MaxAsF64 v then f32MaxAsF64 else v

/-- `Signal.UnmarshalValueDescription` -/
def unmarshalValueDescription (s : DSignal) (d : Data) : Option BStr :=
  if s.vds.isEmpty then none else
  let v : Int := if s.signed then sInt64 (s.sig.unmarshalSigned d)
    else sInt64 (s.sig.unmarshalUnsigned d)      -- int64(uint64) reinterpretation
  (s.vds.find? (fun vd => vd.value == v)).map (·.desc)

end CanVerif
