import CanVerif.Model.Strconv
/-
Software IEEE-754 binary64 arithmetic on bit patterns (`F64 = Nat`), round-to-nearest-even, as the amd64 SSE2
instructions Go compiles float64 `*`, `+`, `-`, `/` to (no FMA fusion at GOAMD64=v1), plus `math.Max`/`math.Min`,
comparisons and the int<->float conversions the descriptor and the generated code use.  Results are computed exactly
over naturals/integers and rounded once with `roundF64`.  Invalid operations return the default quiet NaN of SSE2.
Core Lean only.
-/
namespace CanVerif

def f64DefaultNaN : F64 := 0xfff8000000000000
def f64Zero (neg : Bool) : F64 := if neg then f64SignBit else 0
def f64InfS (neg : Bool) : F64 := if neg then f64SignBit + f64Inf else f64Inf
def f64IsZero (b : F64) : Bool := f64Mag b == 0
def f64WithSign (neg : Bool) (mag : Nat) : F64 := if neg then f64SignBit + mag else mag

/-- quieted NaN operand (SSE2 propagates the first NaN operand with the quiet bit set) -/
def f64Quiet (b : F64) : F64 := if b / 2^51 % 2 == 1 then b else b + 2^51

/-- round `num/den` with a sign; overflow gives infinity -/
def f64Round (neg : Bool) (num den : Nat) : F64 :=
  match roundF64 num den with
  | some m => f64WithSign neg m
  | none => f64InfS neg

def f64Mul (a b : F64) : F64 :=
  if f64IsNaN a then f64Quiet a else if f64IsNaN b then f64Quiet b else
  let neg := f64IsNeg a != f64IsNeg b
  if f64IsInf a || f64IsInf b then
    if f64IsZero a || f64IsZero b then f64DefaultNaN else f64InfS neg
  else
    let (m1, e1) := f64Parts a
    let (m2, e2) := f64Parts b
    let m := m1 * m2
    let e := e1 + e2
    if m == 0 then f64Zero neg
    else if e ≥ 0 then f64Round neg (m * 2 ^ e.toNat) 1 else f64Round neg m (2 ^ (-e).toNat)

def f64Add (a b : F64) : F64 :=
  if f64IsNaN a then f64Quiet a else if f64IsNaN b then f64Quiet b else
  if f64IsInf a then (if f64IsInf b && f64IsNeg a != f64IsNeg b then f64DefaultNaN else a)
  else if f64IsInf b then b
  else
    let (m1, e1) := f64Parts a
    let (m2, e2) := f64Parts b
    let e := if e1 ≤ e2 then e1 else e2
    let s1 : Int := (m1 * 2 ^ (e1 - e).toNat : Nat)
    let s2 : Int := (m2 * 2 ^ (e2 - e).toNat : Nat)
    let s : Int := (if f64IsNeg a then -s1 else s1) + (if f64IsNeg b then -s2 else s2)
    if s == 0 then
      -- exact zero: -0 only if both operands are negative zeros / both negative
      f64Zero (f64IsNeg a && f64IsNeg b)
    else
      let neg := s < 0
      let m := s.natAbs
      if e ≥ 0 then f64Round neg (m * 2 ^ e.toNat) 1 else f64Round neg m (2 ^ (-e).toNat)

def f64Sub (a b : F64) : F64 := if f64IsNaN b then f64Quiet b else f64Add a (f64Neg b)

def f64Div (a b : F64) : F64 :=
  if f64IsNaN a then f64Quiet a else if f64IsNaN b then f64Quiet b else
  let neg := f64IsNeg a != f64IsNeg b
  if f64IsInf a then (if f64IsInf b then f64DefaultNaN else f64InfS neg)
  else if f64IsInf b then f64Zero neg
  else if f64IsZero b then (if f64IsZero a then f64DefaultNaN else f64InfS neg)
  else if f64IsZero a then f64Zero neg
  else
    let (m1, e1) := f64Parts a
    let (m2, e2) := f64Parts b
    let e := e1 - e2
    if e ≥ 0 then f64Round neg (m1 * 2 ^ e.toNat) m2 else f64Round neg m1 (m2 * 2 ^ (-e).toNat)

/-- ordering key of a non-NaN double (−0 and +0 coincide) -/
def f64Key (x : F64) : Int := if f64IsNeg x then -((f64Mag x : Nat) : Int) else (f64Mag x : Int)
def f64Le (a b : F64) : Bool := !(f64IsNaN a || f64IsNaN b) && f64Key a ≤ f64Key b
def f64Eq (a b : F64) : Bool := !(f64IsNaN a || f64IsNaN b) && f64Key a == f64Key b
def f64Ne (a b : F64) : Bool := !f64Eq a b

/-- `math.Max`: +Inf wins even over NaN, otherwise NaN propagates; of equal operands (±0) the positive one -/
def f64Max (x y : F64) : F64 :=
  if f64IsNaN x || f64IsNaN y then
    (if (f64IsInf x && !f64IsNeg x) || (f64IsInf y && !f64IsNeg y) then f64Inf else 0x7ff8000000000001)
  else if f64Key y < f64Key x then x
  else if f64Key x < f64Key y then y
  else if f64IsNeg x then y else x

/-- `math.Min`: -Inf wins even over NaN, otherwise NaN propagates; of equal operands (±0) the negative one -/
def f64Min (x y : F64) : F64 :=
  if f64IsNaN x || f64IsNaN y then
    (if (f64IsInf x && f64IsNeg x) || (f64IsInf y && f64IsNeg y) then f64SignBit + f64Inf else 0x7ff8000000000001)
  else if f64Key x < f64Key y then x
  else if f64Key y < f64Key x then y
  else if f64IsNeg x then x else y

/-- Go `uint64(f)` on amd64: below 2^63 a signed convert, otherwise convert `f - 2^63` and set the top bit -/
def f64ToUint64 (b : F64) : Nat :=
  let i63 := f64OfNat (2^63)
  if f64Lt b i63 then (f64ToInt64 b % 2^64).toNat
  else
    let r := f64ToInt64 (f64Sub b i63)
    (r % 2^64).toNat ||| 2^63

/-- Go `intN(f)` / `uintN(f)` of the generated setters on amd64, as a value of the target type (wrapped) -/
def f64ToIntType (signed : Bool) (bits : Nat) (b : F64) : Int :=
  if bits == 64 then (if signed then f64ToInt64 b else (f64ToUint64 b : Int))
  else
    -- 32-bit targets: signed uses CVTTSD2SL (indefinite = MinInt32), unsigned goes through the 64-bit convert;
    -- 8/16-bit targets: 32-bit convert, then truncation
    let v : Int :=
      if bits == 32 && !signed then f64ToInt64 b
      else
        let t := f64ToInt64 b
        if f64IsNaN b || f64IsInf b || t < -(2^31 : Int) || t ≥ (2^31 : Int) then -(2^31 : Int) else t
    let w := v % (2 ^ bits : Int)
    if signed && w ≥ (2 ^ (bits - 1) : Int) then w - (2 ^ bits : Int) else w

/-- float32 bit pattern -> float64 bit pattern (exact; NaN quieted) -/
def f32ToF64 (x : Nat) : F64 :=
  let neg := x / 2^31 % 2 == 1
  let ex := x / 2^23 % 256
  let fr := x % 2^23
  if ex == 255 then
    if fr == 0 then f64InfS neg else f64WithSign neg (f64Inf + (fr * 2^29) ||| 2^51)
  else if ex == 0 then
    if fr == 0 then f64Zero neg else f64Round neg fr (2^149)
  else f64WithSign neg (((ex + 896) * 2^52) + fr * 2^29)

/-- float64 -> float32 bit pattern (`float32(x)`, round to nearest even, overflow to infinity) -/
def f64ToF32 (b : F64) : Nat :=
  let neg := f64IsNeg b
  let s := if neg then 2^31 else 0
  if f64IsNaN b then s + 0x7f800000 + ((f64Mag b % 2^52) / 2^29) ||| 2^22
  else if f64IsInf b then s + 0x7f800000
  else if f64IsZero b then s
  else
    let (m, e) := f64Parts b
    -- value = m * 2^e ; round to 24 significant bits with exponent range of binary32
    let num := if e ≥ 0 then m * 2 ^ e.toNat else m
    let den := if e ≥ 0 then 1 else 2 ^ (-e).toNat
    let e0 : Int := (num.log2 : Int) - (den.log2 : Int) - 23
    let q (k : Int) : Nat × Nat × Nat :=
      let n' := if k < 0 then num * 2 ^ (-k).toNat else num
      let d' := if k < 0 then den else den * 2 ^ k.toNat
      (n' / d', n' % d', d')
    let pick : Int :=
      let (q1, _, _) := q (e0 + 1)
      if q1 ≥ 2^23 then e0 + 1 else
      let (q0, _, _) := q e0
      if q0 ≥ 2^23 then e0 else e0 - 1
    let k := if pick < -149 then -149 else pick
    let (qq, r, d') := q k
    let up := decide (2 * r > d') || (decide (2 * r = d') && qq % 2 == 1)
    let q' := if up then qq + 1 else qq
    let (q', k) := if q' == 2^24 then (2^23, k + 1) else (q', k)
    if q' ≥ 2^23 then
      let biased := k + 150
      if biased ≥ 255 then s + 0x7f800000 else s + biased.toNat * 2^23 + (q' - 2^23)
    else s + q'

end CanVerif
