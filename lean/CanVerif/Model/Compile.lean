import CanVerif.Model.DbcParse
/-
Model of `internal/generate/compile.go` and the descriptor types of `pkg/descriptor`: `collectDescriptors`,
`addMetadata` (first-match lookup by stripped ID and name, warnings), `sortDescriptors` (insertion sort by the code's
comparators; `sort.Slice` is assumed to return the sorted permutation, which is unique when keys are distinct).
The signal comparator follows the code after its `fix:` commit (start bit, then multiplexer value).  Core Lean only.
-/
namespace CanVerif

structure DVal where
  value : Int
  desc : BStr
deriving Repr, DecidableEq

structure DSignal where
  name : BStr
  start : Nat           -- uint8
  length : Nat          -- uint8
  bigEndian : Bool
  signed : Bool
  float : Bool := false
  mux : Bool
  muxed : Bool
  muxValue : Nat
  offset : F64
  scale : F64
  min : F64
  max : F64
  unit : BStr
  desc : BStr := []
  vds : List DVal := []
  receivers : List BStr
  default : Int := 0
deriving Repr, DecidableEq

structure DMessage where
  name : BStr
  id : Nat
  extended : Bool
  length : Nat          -- uint8
  sendType : Nat := 0   -- 0 none, 1 cyclic, 2 event
  desc : BStr := []
  signals : List DSignal
  sender : BStr
  cycleNs : Int := 0    -- time.Duration (nanoseconds, int64)
  delayNs : Int := 0
deriving Repr, DecidableEq

structure DNode where
  name : BStr
  desc : BStr := []
deriving Repr, DecidableEq

structure Database where
  version : BStr := []
  messages : List DMessage := []
  nodes : List DNode := []
deriving Repr, DecidableEq

structure Warning where
  pos : Pos
  reason : String
deriving Repr, DecidableEq

def toCAN (m : Nat) : Nat := if m / 2^31 % 2 == 1 then m - 2^31 else m
def msgIsExtended (m : Nat) : Bool := m != 0xc0000000 && m / 2^31 % 2 == 1
def independentID : Nat := 0xc0000000

def signalOfDef (s : SignalDef) : DSignal :=
  { name := s.name, start := s.start % 256, length := s.size % 256, bigEndian := s.bigEndian, signed := s.signed,
    mux := s.isMux, muxed := s.isMuxed, muxValue := s.muxValue, offset := s.offset, scale := s.factor,
    min := s.min, max := s.max, unit := s.unit, receivers := s.receivers }

/-- `collectDescriptors` -/
def collect (defs : List Def) : Database :=
  defs.foldl (fun db d => match d with
    | .version _ v => { db with version := v }
    | .message _ id name size tx sigs =>
      if id == independentID then db else
      let m : DMessage :=
        { name := name, id := toCAN id, extended := msgIsExtended id, length := size % 256,
          signals := sigs.map signalOfDef, sender := tx }
      { db with messages := db.messages ++ [m] }
    | .nodes _ names => { db with nodes := db.nodes ++ names.map fun n => ({ name := n } : DNode) }
    | _ => db) {}

/-- update the first message with the given id -/
def updMessage (ms : List DMessage) (id : Nat) (f : DMessage → DMessage) : Option (List DMessage) :=
  match ms with
  | [] => none
  | m :: rest => if m.id == id then some (f m :: rest) else (updMessage rest id f).map (m :: ·)

def updSignalIn (ss : List DSignal) (name : BStr) (f : DSignal → DSignal) : Option (List DSignal) :=
  match ss with
  | [] => none
  | s :: rest => if s.name == name then some (f s :: rest) else (updSignalIn rest name f).map (s :: ·)

/-- `db.Signal(id, name)` then update in place: first message with that id, first signal with that name in it -/
def updSignal (ms : List DMessage) (id : Nat) (name : BStr) (f : DSignal → DSignal) : Option (List DMessage) :=
  match ms with
  | [] => none
  | m :: rest =>
    if m.id == id then (updSignalIn m.signals name f).map fun ss => { m with signals := ss } :: rest
    else (updSignal rest id name f).map (m :: ·)

def findSignal (ms : List DMessage) (id : Nat) (name : BStr) : Option DSignal :=
  match ms.find? (fun m => m.id == id) with
  | none => none
  | some m => m.signals.find? (fun s => s.name == name)

def updNode (ns : List DNode) (name : BStr) (f : DNode → DNode) : Option (List DNode) :=
  match ns with
  | [] => none
  | n :: rest => if n.name == name then some (f n :: rest) else (updNode rest name f).map (n :: ·)

def lowerGo (s : BStr) : BStr :=
  -- strings.ToLower restricted to what can produce the ASCII keywords: ASCII letters, U+0130 -> 'i', U+212A -> 'k'
  let rs := decodeAll s.length s
  rs.flatMap fun c =>
    if c.bad then [0xEF, 0xBF, 0xBD]
    else if 65 ≤ c.r && c.r ≤ 90 then [UInt8.ofNat (c.r + 32)]
    else if c.r == 0x130 then [105]
    else if c.r == 0x212A then [107]
    else if c.r < 128 then [UInt8.ofNat c.r]
    else [0]   -- any other non-ASCII rune: cannot be part of a keyword (placeholder byte)

def sendTypeOf (s : BStr) : Nat :=
  let l := lowerGo s
  if [bs "cyclic", bs "cyclicifactive", bs "periodic", bs "fixedperiodic", bs "enabledperiodic", bs "eventperiodic"].contains l then 1
  else if [bs "event", bs "onevent"].contains l then 2 else 0

abbrev CState := Database × List Warning

def warn (st : CState) (p : Pos) (r : String) : CState := (st.1, st.2 ++ [⟨p, r⟩])

/-- one step of `addMetadata` -/
def metaStep (st : CState) (d : Def) : CState :=
  let db := st.1
  match d with
  | .sigValType p id sg typ =>
    match findSignal db.messages (toCAN id) sg with
    | none => warn st p "no declared signal"
    | some s =>
      if typ == 0 then
        match updSignal db.messages (toCAN id) sg (fun s => { s with float := false }) with
        | some ms => ({ db with messages := ms }, st.2) | none => st
      else if typ == 1 then
        if s.length == 32 then
          match updSignal db.messages (toCAN id) sg (fun s => { s with float := true }) with
          | some ms => ({ db with messages := ms }, st.2) | none => st
        else warn st p "incorrect float signal length"
      else warn st p "unsupported signal value type"
  | .comment p obj node id sg _ text =>
    match obj with
    | .message =>
      if id == independentID then st else
      match updMessage db.messages (toCAN id) (fun m => { m with desc := text }) with
      | some ms => ({ db with messages := ms }, st.2) | none => warn st p "no declared message"
    | .signal =>
      if id == independentID then st else
      match updSignal db.messages (toCAN id) sg (fun s => { s with desc := text }) with
      | some ms => ({ db with messages := ms }, st.2) | none => warn st p "no declared signal"
    | .node =>
      match updNode db.nodes node (fun n => { n with desc := text }) with
      | some ns => ({ db with nodes := ns }, st.2) | none => warn st p "no declared node"
    | _ => st
  | .valDescs p obj id sg _ vds =>
    if id == independentID then st
    else if obj != .signal then st
    else
      let add := vds.map fun v => (⟨f64ToInt64 v.value, v.desc⟩ : DVal)
      match updSignal db.messages (toCAN id) sg (fun s => { s with vds := s.vds ++ add }) with
      | some ms => ({ db with messages := ms }, st.2) | none => warn st p "no declared signal"
  | .attrValue p name obj id sg _ _ i _ sv =>
    match obj with
    | .message =>
      let f : DMessage → DMessage :=
        if name == bs "GenMsgSendType" then fun m => { m with sendType := sendTypeOf sv }
        else if name == bs "GenMsgCycleTime" then fun m => { m with cycleNs := wrapInt64 (i * 1000000) }
        else if name == bs "GenMsgDelayTime" then fun m => { m with delayNs := wrapInt64 (i * 1000000) }
        else fun m => m
      match updMessage db.messages (toCAN id) f with
      | some ms => ({ db with messages := ms }, st.2) | none => warn st p "no declared message"
    | .signal =>
      let f : DSignal → DSignal := if name == bs "GenSigStartValue" then fun s => { s with default := i } else fun s => s
      match updSignal db.messages (toCAN id) sg f with
      | some ms => ({ db with messages := ms }, st.2) | none => warn st p "no declared signal"
    | _ => st
  | _ => st

def addMetadata (defs : List Def) (db : Database) : CState := defs.foldl metaStep (db, [])

/-- insertion sort by a strict "less" (stable) -/
def insertBy {α} (lt : α → α → Bool) (x : α) : List α → List α
  | [] => [x]
  | y :: ys => if lt x y then x :: y :: ys else y :: insertBy lt x ys

def sortBy {α} (lt : α → α → Bool) : List α → List α
  | [] => []
  | x :: xs => insertBy lt x (sortBy lt xs)

/-- Go string comparison `<` is byte-wise lexicographic -/
def bstrLt : BStr → BStr → Bool
  | [], [] => false
  | [], _ :: _ => true
  | _ :: _, [] => false
  | a :: as, b :: bs' => if a < b then true else if b < a then false else bstrLt as bs'

def signalLess (a b : DSignal) : Bool :=
  if a.start != b.start then a.start < b.start else a.muxValue < b.muxValue

def sortDescriptors (db : Database) : Database :=
  { db with
    nodes := sortBy (fun a b => bstrLt a.name b.name) db.nodes
    messages := (sortBy (fun (a b : DMessage) => decide (a.id < b.id)) db.messages).map fun m =>
      { m with signals := (sortBy signalLess m.signals).map fun s =>
          { s with vds := sortBy (fun (a b : DVal) => decide (a.value < b.value)) s.vds } } }

/-- `generate.Compile` on parsed definitions -/
def compile (defs : List Def) : Database × List Warning :=
  let (db, ws) := addMetadata defs (collect defs)
  (sortDescriptors db, ws)

end CanVerif
