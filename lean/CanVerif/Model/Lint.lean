import CanVerif.Model.DbcParse
/-
Model of the 20 lint analyzers of `pkg/dbc/analysis/passes/*`: each `run` function as a function from the parsed
file (raw bytes + definitions) to the list of diagnostics `(position, message class)` in the order the Go code
reports them.  Go maps used as sets become membership tests on lists.  `requireddefinitions` and `intervals` follow
the code after their `fix:` commits.  Core Lean only.
-/
namespace CanVerif

structure Diag where
  pos : Pos
  msg : String
deriving Repr, DecidableEq

abbrev Analyzer := List UInt8 → List Def → List Diag

/-- `identifiers.IsCamelCase` over the runes of a byte string -/
def isCamelCase (s : BStr) : Bool :=
  let rs := decodeAll s.length s
  let step (acc : Nat × Bool) (c : SrcCh) : Nat × Bool :=
    let (i, ok) := acc
    if !ok then acc
    else if !c.bad && isUniDigit c.r then (i, true)
    else
      let isUpper := 65 ≤ c.r && c.r ≤ 90
      let isAlpha := isUpper || (97 ≤ c.r && c.r ≤ 122)
      let isNum := 48 ≤ c.r && c.r ≤ 57
      if c.bad then (i, false)
      else if (i == 0 && !isUpper) || (!isAlpha && !isNum) then (i, false)
      else (i + 1, true)
  (rs.foldl step (0, true)).2

def hasPrefix (s p : BStr) : Bool := s.take p.length == p
def hasSuffix (s p : BStr) : Bool := s.length ≥ p.length && s.drop (s.length - p.length) == p

def messagesOf (defs : List Def) : List (Pos × Nat × BStr × Nat × BStr × List SignalDef) :=
  defs.filterMap fun d => match d with
    | .message p id n sz tx sigs => some (p, id, n, sz, tx, sigs)
    | _ => none

def isIndependent (id : Nat) (name : BStr) (size : Nat) : Bool :=
  name == bs "VECTOR__INDEPENDENT_SIG_MSG" && id == 0xc0000000 && size == 0

/-! #### boolprefix -/
def runBoolprefix : Analyzer := fun _ defs =>
  (messagesOf defs).flatMap fun (_, id, _, _, _, sigs) =>
    sigs.filterMap fun s =>
      if s.size != 1 then none
      else if hasPrefix s.name (bs "Is") || hasPrefix s.name (bs "Has") then none
      else if defs.any (fun d => match d with
          | .valDescs _ _ vid vs _ _ => vid == id && vs == s.name
          | _ => false) then none
      else some ⟨s.pos, "bool signals (1-bit) must have prefix Is or Has"⟩

/-! #### definitiontypeorder -/
def maxU64 : Nat := 2^64 - 1
def orderOf : Def → Nat
  | .version .. => 0 | .newSymbols .. => 1 | .bitTiming .. => 2 | .nodes .. => 3 | .valueTable .. => 4
  | .message .. => 5 | .txbu .. => 6 | .envVar .. => 7 | .envData .. => 8 | .comment .. => 9 | .attrDef .. => 10
  | .attrDefault .. => 11 | .attrValue .. => 12 | .valDescs .. => 13
  | _ => maxU64

/-- backwards scan with the running minimum, as the Go code does -/
def orderScan : List Def → Nat → List Diag
  | [], _ => []
  | d :: rest, minOrder =>
    if orderOf d > minOrder then ⟨d.pos, "definition out of order"⟩ :: orderScan rest minOrder
    else orderScan rest (orderOf d)

def runDefinitiontypeorder : Analyzer := fun _ defs => orderScan defs.reverse maxU64

/-! #### intervals -/
def runIntervals : Analyzer := fun _ defs =>
  defs.flatMap fun d => match d with
    | .envVar p _ _ mn mx _ _ _ _ _ => if f64Lt mx mn then [⟨p, "invalid interval"⟩] else []
    | .message p _ _ _ _ sigs => sigs.filterMap fun s => if f64Lt s.max s.min then some ⟨p, "invalid interval"⟩ else none
    | .attrDef p _ _ _ mi ma mf xf _ =>
      (if mi > ma then [⟨p, "invalid interval"⟩] else []) ++ (if f64Lt xf mf then [⟨p, "invalid interval"⟩] else [])
    | _ => []

/-! #### lineendings -/
def containsCRLF : List UInt8 → Bool
  | 13 :: 10 :: _ => true
  | _ :: r => containsCRLF r
  | [] => false

def runLineendings : Analyzer := fun data _ =>
  if containsCRLF data then [⟨⟨0, 1, 1⟩, "file must not contain Windows line-endings (\\r\\n)"⟩] else []

/-! #### messagenames, signalnames, noreservedsignals -/
def runMessagenames : Analyzer := fun _ defs =>
  (messagesOf defs).filterMap fun (p, _, n, _, _, _) =>
    if isCamelCase n then none else some ⟨p, "message names must be CamelCase"⟩

def runSignalnames : Analyzer := fun _ defs =>
  (messagesOf defs).flatMap fun (_, _, _, _, _, sigs) =>
    sigs.filterMap fun s => if isCamelCase s.name then none else some ⟨s.pos, "signal names must be CamelCase"⟩

def runNoreservedsignals : Analyzer := fun _ defs =>
  (messagesOf defs).flatMap fun (_, _, _, _, _, sigs) =>
    sigs.filterMap fun s => if hasPrefix s.name (bs "Reserved") then some ⟨s.pos, "remove reserved signals"⟩ else none

/-! #### multiplexedsignals -/
/-- first loop: locate the multiplexer switch; returns (switch, diagnostics) -/
def muxLocate : List SignalDef → Option SignalDef → List Diag → Option SignalDef × List Diag
  | [], sw, acc => (sw, acc.reverse)
  | s :: rest, sw, acc =>
    if !s.isMux then muxLocate rest sw acc
    else match sw with
      | some _ => muxLocate rest sw (⟨s.pos, "more than one multiplexer switch"⟩ :: acc)
      | none =>
        if s.signed then muxLocate rest (some s) (⟨s.pos, "signed multiplexer switch"⟩ :: acc)
        else if s.isMuxed then muxLocate rest (some s) (⟨s.pos, "can't be multiplexer and multiplexed"⟩ :: acc)
        else muxLocate rest (some s) acc

/-- `uint64((1 << Size) - 1)` -/
def muxMax (size : Nat) : Nat := if size ≥ 64 then maxU64 else 2 ^ size - 1

def runMultiplexedsignals : Analyzer := fun _ defs =>
  (messagesOf defs).flatMap fun (_, _, _, _, _, sigs) =>
    let (sw, d1) := muxLocate sigs none []
    d1 ++ sigs.filterMap fun s =>
      if !s.isMuxed then none
      else match sw with
        | none => some ⟨s.pos, "no multiplexer switch for multiplexed signal"⟩
        | some m => if s.muxValue > muxMax m.size then some ⟨s.pos, "multiplexer switch exceeds max value"⟩ else none

/-! #### newsymbols, version -/
def runNewsymbols : Analyzer := fun _ defs =>
  defs.filterMap fun d => match d with
    | .newSymbols p syms => if syms.length > 0 then some ⟨p, "new symbols should be empty"⟩ else none
    | _ => none

def runVersion : Analyzer := fun _ defs =>
  defs.filterMap fun d => match d with
    | .version p v => if v.length > 0 then some ⟨p, "version should be empty"⟩ else none
    | _ => none

/-! #### nodereferences -/
def declaredNodes (defs : List Def) : List BStr :=
  bs "Vector__XXX" :: defs.flatMap fun d => match d with | .nodes _ ns => ns | _ => []

def runNodereferences : Analyzer := fun _ defs =>
  let decl := declaredNodes defs
  defs.flatMap fun d => match d with
    | .message p _ _ _ tx sigs =>
      (if decl.contains tx then [] else [⟨p, "undeclared transmitter node"⟩]) ++
      sigs.flatMap fun s => s.receivers.filterMap fun r =>
        if decl.contains r then none else some ⟨s.pos, "undeclared receiver node"⟩
    | .envVar p _ _ _ _ _ _ _ _ ns =>
      ns.filterMap fun n => if decl.contains n then none else some ⟨p, "undeclared access node"⟩
    | .txbu p _ txs =>
      txs.filterMap fun n => if decl.contains n then none else some ⟨p, "undeclared transmitter node"⟩
    | _ => []

/-! #### requireddefinitions (after the fix: reports at 1:1 when there is no definition at all) -/
def countWhere (defs : List Def) (f : Def → Bool) : Nat := (defs.filter f).length
def isBitTiming : Def → Bool | .bitTiming .. => true | _ => false
def isNodes : Def → Bool | .nodes .. => true | _ => false
def isVersion : Def → Bool | .version .. => true | _ => false
def isNewSymbols : Def → Bool | .newSymbols .. => true | _ => false

def runRequireddefinitions : Analyzer := fun _ defs =>
  if countWhere defs isBitTiming == 0 || countWhere defs isNodes == 0 then
    [⟨match defs with | d :: _ => d.pos | [] => ⟨0, 1, 1⟩, "missing required definition(s)"⟩]
  else []

/-! #### signalbounds -/
def runSignalbounds : Analyzer := fun _ defs =>
  (messagesOf defs).flatMap fun (_, id, n, sz, _, sigs) =>
    if isIndependent id n sz then [] else
    sigs.filterMap fun s =>
      if s.start ≥ (8 * sz) % 2^64 then some ⟨s.pos, "start bit out of bounds"⟩ else none

/-! #### singletondefinitions -/
def runSingletondefinitions : Analyzer := fun _ defs =>
  [isVersion, isNewSymbols, isBitTiming, isNodes].flatMap fun f =>
    ((defs.filter f).drop 1).map fun d => ⟨d.pos, "more than one definition not allowed"⟩

/-! #### siunits, unitsuffixes -/
def siSymbols : List (BStr × String) :=
  [(bs "kph", "km/h"), (bs "mps", "m/s"), (bs "meters/sec", "m/s"), (bs "meters", "m"),
   (bs "deg", "°"), (bs "degrees", "°"), (bs "radians", "rad")]

def runSiunits : Analyzer := fun _ defs =>
  (messagesOf defs).flatMap fun (_, _, _, _, _, sigs) =>
    sigs.filterMap fun s => match siSymbols.find? (fun e => e.1 == s.unit) with
      | some _ => some ⟨s.pos, "signal with unit"⟩
      | none => none

def degreeSign : BStr := [0xC2, 0xB0]
def unitSuffixes : List (BStr × BStr) :=
  [(degreeSign, bs "Degrees"), (bs "rad", bs "Radians"), (bs "%", bs "Percent"), (bs "km/h", bs "Kph"), (bs "m/s", bs "Mps")]

def runUnitsuffixes : Analyzer := fun _ defs =>
  (messagesOf defs).flatMap fun (_, _, _, _, _, sigs) =>
    sigs.filterMap fun s => match unitSuffixes.find? (fun e => e.1 == s.unit) with
      | some (_, suf) => if hasSuffix s.name suf then none else some ⟨s.pos, "signal with unit"⟩
      | none => none

/-! #### uniquemessageids, uniquenodenames, uniquesignalnames -/
def uniqIdScan : List (Pos × Nat) → List Nat → List Diag
  | [], _ => []
  | (p, id) :: rest, seen =>
    if seen.contains id then ⟨p, "non-unique message ID"⟩ :: uniqIdScan rest seen
    else uniqIdScan rest (id :: seen)

def runUniquemessageids : Analyzer := fun _ defs =>
  uniqIdScan ((messagesOf defs).filterMap fun (p, id, n, sz, _, _) => if isIndependent id n sz then none else some (p, id)) []

def uniqNameScan (msg : String) : List (Pos × BStr) → List BStr → List Diag
  | [], _ => []
  | (p, n) :: rest, seen =>
    if seen.contains n then ⟨p, msg⟩ :: uniqNameScan msg rest seen
    else uniqNameScan msg rest (n :: seen)

def runUniquenodenames : Analyzer := fun _ defs =>
  uniqNameScan "non-unique node name"
    (defs.flatMap fun d => match d with | .nodes p ns => ns.map fun n => (p, n) | _ => []) []

def runUniquesignalnames : Analyzer := fun _ defs =>
  (messagesOf defs).flatMap fun (_, id, n, sz, _, sigs) =>
    if isIndependent id n sz then [] else uniqNameScan "non-unique signal name" (sigs.map fun s => (s.pos, s.name)) []

/-! #### valuedescriptions -/
def intDecLen (i : Int) : Nat := (toString i).length

def runValuedescriptions : Analyzer := fun _ defs =>
  defs.flatMap fun d =>
    let vds := match d with
      | .valueTable _ _ v => v
      | .valDescs _ _ _ _ _ v => v
      | _ => []
    vds.filterMap fun vd =>
      if isCamelCase vd.desc then none
      else some ⟨{ vd.pos with col := vd.pos.col + intDecLen (f64ToInt64 vd.value) + 2 },
                 "value description must be CamelCase (numbers ignored)"⟩

def allAnalyzers : List (String × Analyzer) :=
  [("boolprefix", runBoolprefix), ("definitiontypeorder", runDefinitiontypeorder), ("intervals", runIntervals),
   ("lineendings", runLineendings), ("messagenames", runMessagenames), ("multiplexedsignals", runMultiplexedsignals),
   ("newsymbols", runNewsymbols), ("nodereferences", runNodereferences), ("noreservedsignals", runNoreservedsignals),
   ("requireddefinitions", runRequireddefinitions), ("signalbounds", runSignalbounds), ("signalnames", runSignalnames),
   ("singletondefinitions", runSingletondefinitions), ("siunits", runSiunits), ("uniquemessageids", runUniquemessageids),
   ("uniquenodenames", runUniquenodenames), ("uniquesignalnames", runUniquesignalnames),
   ("unitsuffixes", runUnitsuffixes), ("valuedescriptions", runValuedescriptions), ("version", runVersion)]

end CanVerif
