import CanVerif.Model.BufScanner
/-
Model of the fixed-size (un)marshalers of `pkg/candevice/device_linux.go` and of the link-info attribute
encoding.  A structure layout is a list of items in kernel order: fields of a byte width (native = little-endian
byte order on the only platforms the package builds for here, amd64/arm64) and padding.  The layout tables below
are transcribed by hand from linux/rtnetlink.h (`struct ifinfomsg`) and linux/can/netlink.h
(`struct can_bittiming`, `can_bittiming_const`, `can_clock`, `can_ctrlmode`, `can_berr_counter`,
`can_device_stats`); the harness compares every produced image with the in-memory image of the
`golang.org/x/sys/unix` struct generated from those headers.
Netlink attributes follow `mdlayher/netlink`: len:u16 (header + payload), type:u16 (nested flag 0x8000,
masked with 0x3fff when decoding), payload, zero padding to a multiple of 4.  Core Lean only.
-/
namespace CanVerif

inductive Item
  | field (w : Nat)
  | pad (w : Nat)
deriving Repr, DecidableEq

/-- `w` little-endian bytes of `v` -/
def leBytes : Nat → Nat → Bytes
  | 0, _ => []
  | w+1, v => UInt8.ofNat (v % 256) :: leBytes w (v / 256)

def ofLE : Bytes → Nat
  | [] => 0
  | b :: bs => b.toNat + 256 * ofLE bs

def layoutSize : List Item → Nat
  | [] => 0
  | .field w :: r => w + layoutSize r
  | .pad w :: r => w + layoutSize r

/-- marshal: concatenation of the fields in order (missing values are 0), padding zero-filled -/
def encodeItems : List Item → List Nat → Bytes
  | [], _ => []
  | .pad w :: r, vs => List.replicate w 0 ++ encodeItems r vs
  | .field w :: r, v :: vs => leBytes w v ++ encodeItems r vs
  | .field w :: r, [] => leBytes w 0 ++ encodeItems r []

def decodeItems : List Item → Bytes → List Nat
  | [], _ => []
  | .pad w :: r, bs => decodeItems r (bs.drop w)
  | .field w :: r, bs => ofLE (bs.take w) :: decodeItems r (bs.drop w)

/-- unmarshal with the size guard every decoder in device_linux.go has -/
def unmarshalItems (items : List Item) (data : Bytes) : Option (List Nat) :=
  if data.length ≠ layoutSize items then none else some (decodeItems items data)

def ifInfoLayout : List Item := [.field 1, .pad 1, .field 2, .field 4, .field 4, .field 4]
def bitTimingLayout : List Item := List.replicate 8 (.field 4)
def ctrlModeLayout : List Item := [.field 4, .field 4]
def bitTimingConstLayout : List Item := .field 16 :: List.replicate 8 (.field 4)
def clockLayout : List Item := [.field 4]
def berrLayout : List Item := [.field 2, .field 2]
def statsLayout : List Item := List.replicate 6 (.field 4)

def layoutOf : String → Option (List Item)
  | "ifinfo" => some ifInfoLayout
  | "bt" => some bitTimingLayout
  | "cm" => some ctrlModeLayout
  | "btc" => some bitTimingConstLayout
  | "clk" => some clockLayout
  | "berr" => some berrLayout
  | "stats" => some statsLayout
  | _ => none

/-! ### netlink attributes -/

def align4 (n : Nat) : Nat := (n + 3) / 4 * 4

def attr (typ : Nat) (payload : Bytes) : Bytes :=
  leBytes 2 (4 + payload.length) ++ leBytes 2 typ ++ payload ++ List.replicate (align4 payload.length - payload.length) 0

def nestedFlag : Nat := 0x8000
def IFLA_LINKINFO : Nat := 18
def IFLA_INFO_KIND : Nat := 1
def IFLA_INFO_DATA : Nat := 2
def IFLA_CAN_BITTIMING : Nat := 1
def IFLA_CAN_CTRLMODE : Nat := 5

/-- `linkInfoMsg.encode` inside `ae.Nested(IFLA_LINKINFO, …)` -/
def encodeLinkInfo (kind : Bytes) (bt : List Nat) (cm : List Nat) : Bytes :=
  attr (nestedFlag + IFLA_LINKINFO)
    (attr IFLA_INFO_KIND (kind ++ [0]) ++
     attr (nestedFlag + IFLA_INFO_DATA)
       (attr IFLA_CAN_BITTIMING (encodeItems bitTimingLayout bt) ++ attr IFLA_CAN_CTRLMODE (encodeItems ctrlModeLayout cm)))

/-- splits a byte string into attributes `(type masked, payload)`; `none` on a malformed length -/
def parseAttrs : Nat → Bytes → Option (List (Nat × Bytes))
  | 0, _ => none
  | fuel+1, bs =>
    if bs.isEmpty then some [] else
    if bs.length < 4 then none else
    let len := ofLE (bs.take 2)
    let typ := ofLE ((bs.drop 2).take 2) % 0x4000
    if len < 4 ∨ len > bs.length then none else
    let payload := (bs.drop 4).take (len - 4)
    match parseAttrs fuel (bs.drop (align4 len)) with
    | none => none
    | some r => some ((typ, payload) :: r)

/-- strips the trailing NULs of a netlink string attribute (`nlenc.String`) -/
def nlString (b : Bytes) : Bytes := b.takeWhile (· ≠ 0)

structure LinkInfo where
  kind : Bytes := []
  bt : List Nat := List.replicate 8 0
  cm : List Nat := [0, 0]
deriving Repr, DecidableEq

def canKind : Bytes := [99, 97, 110]
def vcanKind : Bytes := [118, 99, 97, 110]

def IFLA_CAN_BITTIMING_CONST : Nat := 2
def IFLA_CAN_CLOCK : Nat := 3
def IFLA_CAN_BERR_COUNTER : Nat := 8
def IFLA_INFO_XSTATS : Nat := 3

/-- `Info.decode` over the attributes of IFLA_INFO_DATA: every recognised attribute is size-checked, the first
failure ends the decode with an error whatever follows; only bit timing and control mode are kept in the result -/
def decodeInfo (li : LinkInfo) : List (Nat × Bytes) → Option LinkInfo
  | [] => some li
  | (t, p) :: r =>
    if t = IFLA_CAN_BITTIMING then
      match unmarshalItems bitTimingLayout p with
      | none => none
      | some v => decodeInfo { li with bt := v } r
    else if t = IFLA_CAN_CTRLMODE then
      match unmarshalItems ctrlModeLayout p with
      | none => none
      | some v => decodeInfo { li with cm := v } r
    else if t = IFLA_CAN_BITTIMING_CONST then
      match unmarshalItems bitTimingConstLayout p with
      | none => none
      | some _ => decodeInfo li r
    else if t = IFLA_CAN_CLOCK then
      match unmarshalItems clockLayout p with
      | none => none
      | some _ => decodeInfo li r
    else if t = IFLA_CAN_BERR_COUNTER then
      match unmarshalItems berrLayout p with
      | none => none
      | some _ => decodeInfo li r
    else decodeInfo li r

/-- `linkInfoMsg.decode` -/
def decodeLinkAttrs (li : LinkInfo) : List (Nat × Bytes) → Option LinkInfo
  | [] => some li
  | (t, p) :: r =>
    if t = IFLA_INFO_KIND then
      let k := nlString p
      if k ≠ canKind ∧ k ≠ vcanKind then none else decodeLinkAttrs { li with kind := k } r
    else if t = IFLA_INFO_DATA then
      match parseAttrs (p.length + 1) p with
      | none => none
      | some as => match decodeInfo li as with
        | none => none
        | some li' => decodeLinkAttrs li' r
    else if t = IFLA_INFO_XSTATS then
      match unmarshalItems statsLayout p with
      | none => none
      | some _ => decodeLinkAttrs li r
    else decodeLinkAttrs li r

/-- decoding of the attribute bytes following the ifinfomsg header, as far as IFLA_LINKINFO is concerned -/
def decodeLinkInfo (b : Bytes) : Option LinkInfo :=
  match parseAttrs (b.length + 1) b with
  | none => none
  | some top =>
    top.foldl (fun acc (tp : Nat × Bytes) => match acc with
      | none => none
      | some li =>
        if tp.1 = IFLA_LINKINFO then
          match parseAttrs (tp.2.length + 1) tp.2 with
          | none => none
          | some as => decodeLinkAttrs li as
        else some li) (some {})

end CanVerif
