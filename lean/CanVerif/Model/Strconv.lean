/-
Model of the `strconv` functions the DBC parser calls on token text (`ParseFloat(_, 64)`, `ParseUint(_, 10, 64)`,
`Atoi`) and of binary64 values as bit patterns (`F64 = Nat < 2^64`): exact decimal/hex -> binary64 conversion with
round-to-nearest-even, overflow detection, subnormals; conversion to int64 as amd64 does it.  Core Lean only.
-/
namespace CanVerif

abbrev F64 := Nat     -- IEEE-754 binary64 bit pattern

def f64SignBit : Nat := 2^63
def f64Inf : Nat := 0x7ff0000000000000

/-- `num · 2^-e` and `den · 2^e` with the negative powers moved to the other side: `num/den · 2^-e = scN/scD` -/
def scN (num : Nat) (e : Int) : Nat := num * 2 ^ (-e).toNat
def scD (den : Nat) (e : Int) : Nat := den * 2 ^ e.toNat

/-- round-half-even of `n/d` to an integer -/
def rhe (n d : Nat) : Nat :=
  let qq := n / d
  let r := n % d
  if decide (2 * r > d) || (decide (2 * r = d) && qq % 2 == 1) then qq + 1 else qq

/-- the exponent `p` with `2^52 ≤ ⌊num/den · 2^-p⌋ < 2^53`, found among three candidates around the log2 estimate -/
def pickE (num den : Nat) : Int :=
  let e0 : Int := (num.log2 : Int) - (den.log2 : Int) - 52
  if scN num (e0 + 1) / scD den (e0 + 1) ≥ 2 ^ 52 then e0 + 1
  else if scN num e0 / scD den e0 ≥ 2 ^ 52 then e0 else e0 - 1

/-- … clamped at the exponent of the subnormals -/
def clampE (num den : Nat) : Int := if pickE num den < -1074 then -1074 else pickE num den

/-- magnitude bits of the rounded value: `(E+1074)·2^52 + roundHalfEven(num/den · 2^-E)`; one formula covers
subnormals (E = -1074, quotient below 2^52), normals, and the carry of the quotient to 2^53 into the next binade -/
def roundBits (num den : Nat) : Nat :=
  let e := clampE num den
  (e + 1074).toNat * 2 ^ 52 + rhe (scN num e) (scD den e)

/-- round the positive rational `num/den` to binary64 (magnitude bits); `none` = overflow (±Inf, ErrRange) -/
def roundF64 (num den : Nat) : Option Nat :=
  if num == 0 || den == 0 then some 0 else
  let b := roundBits num den
  if b ≥ 2047 * 2 ^ 52 then none else some b

def pow10 (n : Nat) : Nat := 10 ^ n

/-- value `m × 10^e10 × 2^e2` to binary64 magnitude bits, with cheap exits for absurd exponents -/
def scaleToF64 (m : Nat) (e10 : Int) (e2 : Int) : Option Nat :=
  if m == 0 then some 0 else
  let digits := (toString m).length
  if e10 > 400 then none
  else if e10 + (digits : Int) < -400 then some 0
  else if e2 > 2000 then none
  else if e2 + 4 * (digits : Int) + 64 < -1200 then some 0
  else
    let num := m * (if e10 ≥ 0 then pow10 e10.toNat else 1) * (if e2 ≥ 0 then 2 ^ e2.toNat else 1)
    let den := (if e10 < 0 then pow10 (-e10).toNat else 1) * (if e2 < 0 then 2 ^ (-e2).toNat else 1)
    roundF64 num den

def lowerB (c : UInt8) : UInt8 := if 65 ≤ c.toNat ∧ c.toNat ≤ 90 then c + 32 else c
def isDigB (c : UInt8) : Bool := 48 ≤ c.toNat && c.toNat ≤ 57
def isHexLetterB (c : UInt8) : Bool := 97 ≤ (lowerB c).toNat && (lowerB c).toNat ≤ 102

/-- `underscoreOK` of strconv -/
def underscoreOK (s : List UInt8) : Bool :=
  let s := match s with | c :: r => if c == 45 || c == 43 then r else s | [] => s
  let x1 := lowerB (s.getD 1 0)
  let hasPrefix := s.length ≥ 2 && (s.getD 0 0 == (48 : UInt8)) && (x1 == 98 || x1 == 111 || x1 == 120)
  let hex := hasPrefix && x1 == 120
  let body := if hasPrefix then s.drop 2 else s
  -- saw: 0 digit, 1 underscore, 2 other, 3 start
  let step (acc : Nat × Bool) (c : UInt8) : Nat × Bool :=
    let (saw, bad) := acc
    if bad then acc
    else if isDigB c || (hex && isHexLetterB c) then (0, false)
    else if c == 95 then (1, saw != 0)
    else if saw == 1 then (2, true)
    else (2, false)
  let (saw, bad) := body.foldl step (if hasPrefix then 0 else 3, false)
  !bad && saw != 1

structure RF where
  mant : Nat := 0       -- all mantissa digits (exact)
  nd : Nat := 0         -- number of mantissa digits counted (after leading zeros)
  dp : Int := 0
  sawdot : Bool := false
  sawdigits : Bool := false
  underscores : Bool := false

/-- mantissa loop of `readFloat`; returns the state and the unread rest -/
def mantLoop (base : Nat) : List UInt8 → RF → RF × List UInt8
  | [], st => (st, [])
  | c :: r, st =>
    if c == 95 then mantLoop base r { st with underscores := true }
    else if c == 46 then
      if st.sawdot then (st, c :: r) else mantLoop base r { st with sawdot := true, dp := st.nd }
    else if isDigB c then
      if c == 48 && st.nd == 0 then mantLoop base r { st with sawdigits := true, dp := st.dp - 1 }
      else mantLoop base r { st with sawdigits := true, nd := st.nd + 1, mant := st.mant * base + (c.toNat - 48) }
    else if base == 16 && isHexLetterB c then
      mantLoop base r { st with sawdigits := true, nd := st.nd + 1, mant := st.mant * 16 + ((lowerB c).toNat - 87) }
    else (st, c :: r)

/-- exponent digits (with `_`), value capped like strconv (stops growing at 10000) -/
def expLoop : List UInt8 → Nat → Bool → Nat × Bool × List UInt8
  | [], e, us => (e, us, [])
  | c :: r, e, us =>
    if c == 95 then expLoop r e true
    else if isDigB c then expLoop r (if e < 10000 then e * 10 + (c.toNat - 48) else e) us
    else (e, us, c :: r)

/-- `strconv.ParseFloat(s, 64)` for unsigned token text: `none` = error (syntax or range) -/
def parseFloat64 (s : List UInt8) : Option F64 :=
  let hex := s.length > 2 && (s.getD 0 0 == (48 : UInt8)) && lowerB (s.getD 1 0) == 120
  let body := if hex then s.drop 2 else s
  let base := if hex then 16 else 10
  let (st, rest) := mantLoop base body {}
  if !st.sawdigits then none else
  let dp : Int := if st.sawdot then st.dp else st.nd
  let expChar : UInt8 := if hex then 112 else 101
  -- optional exponent
  let r : Option (Int × Bool × List UInt8) :=
    match rest with
    | c :: r1 =>
      if lowerB c == expChar then
        match r1 with
        | [] => none
        | c2 :: r2 =>
          let (esign, r3) : Int × List UInt8 := if c2 == 43 then (1, r2) else if c2 == 45 then (-1, r2) else (1, c2 :: r2)
          match r3 with
          | [] => none
          | d :: _ =>
            if !isDigB d then none else
            let (e, us, r4) := expLoop r3 0 false
            some (esign * (e : Int), us, r4)
      else if hex then none else some (0, false, rest)
    | [] => if hex then none else some (0, false, [])
  match r with
  | none => none
  | some (e, us, rest2) =>
    let consumed := s.take (s.length - rest2.length)
    if (st.underscores || us) && !underscoreOK consumed then none
    else if !rest2.isEmpty then none
    else
      if hex then scaleToF64 st.mant 0 (4 * (dp - st.nd) + e)
      else scaleToF64 st.mant (dp - st.nd + e) 0

/-- `strconv.ParseUint(s, 10, 64)`: decimal digits only, no sign, no underscore, ≤ 2^64-1 -/
def parseUint64 (s : List UInt8) : Option Nat :=
  if s.isEmpty || !s.all isDigB then none else
  let v := s.foldl (fun a c => a * 10 + (c.toNat - 48)) 0
  if v < 2^64 then some v else none

/-- `strconv.Atoi(s)` for token text (a lone sign is an error; otherwise digits only, ≤ MaxInt64) -/
def atoi (s : List UInt8) : Option Int :=
  let (neg, body) := match s with
    | c :: r => if c == 45 then (true, r) else if c == 43 then (false, r) else (false, s)
    | [] => (false, s)
  if body.isEmpty || !body.all isDigB then none else
  let v : Nat := body.foldl (fun (a : Nat) c => a * 10 + (c.toNat - 48)) 0
  if neg then (if v ≤ 2^63 then some (-(v : Int)) else none)
  else (if v < 2^63 then some (v : Int) else none)

/-! ### binary64 helpers -/

def f64Neg (b : F64) : F64 := if b ≥ f64SignBit then b - f64SignBit else b + f64SignBit
def f64IsNeg (b : F64) : Bool := b ≥ f64SignBit
def f64Mag (b : F64) : Nat := b % f64SignBit
def f64IsNaN (b : F64) : Bool := f64Mag b > f64Inf
def f64IsInf (b : F64) : Bool := f64Mag b == f64Inf

/-- magnitude as `m × 2^e` (finite values) -/
def f64Parts (b : F64) : Nat × Int :=
  let mag := f64Mag b
  let ex : Nat := mag / 2^52
  let fr : Nat := mag % 2^52
  if ex == 0 then (fr, -1074) else (fr + 2^52, (ex : Int) - 1075)

/-- truncation toward zero of the magnitude -/
def f64TruncMag (b : F64) : Nat :=
  let (m, e) := f64Parts b
  if e ≥ 0 then m * 2 ^ e.toNat else m / 2 ^ (-e).toNat

/-- Go `int64(f)` on amd64 (CVTTSD2SI): out-of-range and NaN give MinInt64 -/
def f64ToInt64 (b : F64) : Int :=
  if f64IsNaN b || f64IsInf b then -(2^63 : Int) else
  let t := f64TruncMag b
  if f64IsNeg b then (if t ≤ 2^63 then -(t : Int) else -(2^63 : Int))
  else (if t < 2^63 then (t : Int) else -(2^63 : Int))

/-- exact comparison `a < b` of two non-NaN doubles -/
def f64Lt (a b : F64) : Bool :=
  if f64IsNaN a || f64IsNaN b then false else
  let key (x : F64) : Int := if f64IsNeg x then -((f64Mag x : Nat) : Int) else (f64Mag x : Int)
  key a < key b

/-- `float64(n)` for a natural number (round to nearest even) -/
def f64OfNat (n : Nat) : F64 := (roundF64 n 1).getD f64Inf
def f64OfInt (i : Int) : F64 := if i < 0 then f64Neg (f64OfNat i.natAbs) else f64OfNat i.toNat

end CanVerif
