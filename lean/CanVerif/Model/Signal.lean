import CanVerif.Model.Bits
/-
Model of `pkg/descriptor/signal.go`: the integer part (layout dispatch, bounds, saturated casts).
Bounds follow the code after the `fix:` commit (`-1 << (L-1)`, `uint64(1)<<(L-1) - 1`).
Core Lean only.
-/
namespace CanVerif

structure Sig where
  be : Bool
  start : Nat       -- uint8
  length : Nat      -- uint8
  signed : Bool
deriving Repr, DecidableEq

def Sig.range (s : Sig) : Range := { be := s.be, s := s.start, l := s.length }

def Sig.unmarshalUnsigned (s : Sig) (d : Data) : BitVec 64 := readU s.range d
def Sig.unmarshalSigned (s : Sig) (d : Data) : BitVec 64 := readS s.range d
def Sig.unmarshalBool (s : Sig) (d : Data) : Bool := getBit d s.start
/-- `UnmarshalFloat`: the low 32 bits of the unsigned read are the binary32 pattern. -/
def Sig.unmarshalFloatBits (s : Sig) (d : Data) : BitVec 32 := (readU s.range d).setWidth 32
def Sig.marshalUnsigned (s : Sig) (d : Data) (v : BitVec 64) : Data := writeU s.range d v
def Sig.marshalSigned (s : Sig) (d : Data) (x : BitVec 64) : Data := writeS s.range d x
def Sig.marshalBool (s : Sig) (d : Data) (b : Bool) : Data := setBit d s.start b
/-- `MarshalFloat` given the binary32 pattern of `float32(value)`. -/
def Sig.marshalFloatBits (s : Sig) (d : Data) (f : BitVec 32) : Data := writeU s.range d (f.setWidth 64)

/-- shift count `Length - 1` in uint8 arithmetic -/
def lenM1 (L : Nat) : Nat := (BitVec.ofNat 8 L - 1#8).toNat

/-- `MaxUnsigned`: `(2 << (Length-1)) - 1` in uint64. -/
def maxUnsigned (L : Nat) : BitVec 64 := (2#64 <<< lenM1 L) - 1#64
/-- `MinSigned`: `-1 << (Length-1)` in int64. -/
def minSigned (L : Nat) : BitVec 64 := (BitVec.allOnes 64) <<< lenM1 L
/-- `MaxSigned`: `int64(uint64(1)<<(Length-1) - 1)`. -/
def maxSigned (L : Nat) : BitVec 64 := (1#64 <<< lenM1 L) - 1#64

/-- `SaturatedCastSigned` (int64 comparison). -/
def satSigned (L : Nat) (x : BitVec 64) : BitVec 64 :=
  let mn := minSigned L
  let mx := maxSigned L
  if x.slt mn then mn else if mx.slt x then mx else x

/-- `SaturatedCastUnsigned`. -/
def satUnsigned (L : Nat) (v : BitVec 64) : BitVec 64 :=
  let mx := maxUnsigned L
  if v > mx then mx else v

end CanVerif
