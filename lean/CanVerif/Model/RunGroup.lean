/-
Model of `canrunner.Run`'s goroutine group (C14, stop and fault clauses): the errgroup with its derived context, the
goroutine that closes the connection when the context is done, the receiver, one transmitter per message.  A
goroutine leaves the group by returning; the group keeps the first non-nil error and cancels the context on it;
`Run` maps an error whose text contains "closed" to nil.  What a hook, `Receive` or `TransmitFrame` *does* is not
modelled: a goroutine may fail with any error at any time (`exitErr`), the receiver fails once the connection is
closed (`recvClosed`), a transmitter returns nil once the context is done (`txDone`).  Core Lean only.
-/
namespace CanVerif

inductive G
  | closer
  | receiver
  | tx (i : Nat)
deriving DecidableEq, Repr

/-- an error value: whether its text contains "closed", and a tag identifying it -/
structure GErr where
  closedText : Bool
  tag : String
deriving DecidableEq, Repr

structure GroupSt where
  running : List G
  done : Bool := false          -- the group's context is done (caller cancelled, or a goroutine returned an error)
  connClosed : Bool := false
  first : Option GErr := none   -- errgroup: first non-nil error
deriving DecidableEq, Repr

def GroupSt.init (ntx : Nat) : GroupSt := { running := .closer :: .receiver :: (List.range ntx).map .tx }

inductive GEvent
  | callerCancel
  | exitErr (g : G) (e : GErr)   -- receiver or transmitter returns an error (hook, unmarshal, transmit, read)
  | closerRuns                   -- <-ctx.Done(); conn.Close()
  | recvClosed (e : GErr)        -- Receive fails on the closed connection: an error whose text contains "closed"
  | txDone (i : Nat)             -- case <-ctxDone: return nil
deriving DecidableEq, Repr

def gStep (s : GroupSt) : GEvent → Option GroupSt
  | .callerCancel => some { s with done := true }
  | .exitErr g e =>
    if g ≠ .closer ∧ g ∈ s.running then
      some { s with running := s.running.erase g, done := true, first := s.first <|> some e }
    else none
  | .closerRuns =>
    if s.done ∧ G.closer ∈ s.running then some { s with running := s.running.erase .closer, connClosed := true } else none
  | .recvClosed e =>
    if s.connClosed ∧ G.receiver ∈ s.running ∧ e.closedText then
      some { s with running := s.running.erase .receiver, done := true, first := s.first <|> some e }
    else none
  | .txDone i =>
    if s.done ∧ G.tx i ∈ s.running then some { s with running := s.running.erase (.tx i) } else none

/-- what `Run` returns once `g.Wait()` has returned -/
def runResult (s : GroupSt) : Option GErr :=
  match s.first with
  | none => none
  | some e => if e.closedText then none else some e

def gRun : GroupSt → List GEvent → Option GroupSt
  | s, [] => some s
  | s, e :: r => match gStep s e with
    | none => none
    | some s' => gRun s' r

end CanVerif
