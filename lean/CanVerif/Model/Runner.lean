/-
Model of `pkg/canrunner/run.go` (C13, C14).

1. Lock discipline: the runner's code regions (receiver loop body, `transmit`, `setCyclicTransmission`) and the
   application's critical sections are sequences of atoms; `wellLocked` is the static discipline; `Sys` is an
   interleaving model of any number of threads running such sequences under one mutex.
2. Transmitter protocol: an abstract LTS of the transmitter loop with the wake-up channel (capacity 1), the
   cyclic flag, application toggles (write the flag, then a non-blocking send), event requests (rendezvous), the
   ticker (a 1-slot tick channel that `Stop` does not drain) and transmissions.
Core Lean only.
-/
namespace CanVerif

/-! ### 1. lock discipline -/

inductive Atom
  | lock
  | unlock
  | access (what : String)     -- a read or write of node/message state
  | hook                       -- call of a user hook
  | tx                         -- FrameTransmitter.TransmitFrame
  | retIf                      -- a conditional return / continue (leaves the region)
  | other (what : String)      -- anything that touches no node state
deriving DecidableEq, Repr

/-- static discipline: `held` is whether the region holds the lock before the atom -/
def wellLockedFrom : Bool → List Atom → Bool
  | held, [] => !held
  | held, .lock :: r => !held && wellLockedFrom true r
  | held, .unlock :: r => held && wellLockedFrom false r
  | held, .access _ :: r => held && wellLockedFrom held r
  | held, .hook :: r => !held && wellLockedFrom held r
  | held, .tx :: r => !held && wellLockedFrom held r
  | held, .retIf :: r => !held && wellLockedFrom held r
  | held, .other _ :: r => wellLockedFrom held r

def wellLocked (p : List Atom) : Bool := wellLockedFrom false p

/-- whether a thread holds the lock after executing the first `pc` atoms of its region -/
def heldAfter : List Atom → Nat → Bool → Bool
  | _, 0, h => h
  | [], _, h => h
  | .lock :: r, n+1, _ => heldAfter r n true
  | .unlock :: r, n+1, _ => heldAfter r n false
  | _ :: r, n+1, h => heldAfter r n h

/-- a system of threads: thread `t` repeatedly runs `prog t`; `pc t` is its position; `holder` the mutex owner -/
structure Sys (T : Type) where
  prog : T → List Atom
  pc : T → Nat
  holder : Option T

/-- one step of thread `t` (a `lock` is enabled only when the mutex is free) -/
def Sys.step {T : Type} [DecidableEq T] (s : Sys T) (t : T) : Option (Sys T) :=
  match (s.prog t)[s.pc t]? with
  | none => some { s with pc := fun u => if u = t then 0 else s.pc u }          -- region finished: start over
  | some .lock => if s.holder.isNone then
      some { s with pc := fun u => if u = t then s.pc t + 1 else s.pc u, holder := some t } else none
  | some .unlock => some { s with pc := fun u => if u = t then s.pc t + 1 else s.pc u,
                                   holder := if s.holder = some t then none else s.holder }
  | some _ => some { s with pc := fun u => if u = t then s.pc t + 1 else s.pc u }

/-! ### 2. transmitter protocol -/

inductive Phase
  | select                     -- parked in the select statement
  | readFlag                   -- woke up; about to read the cyclic flag (under the lock)
  | apply (v : Bool)           -- read `v`; about to arm/disarm the ticker
  | transmitting               -- inside `transmit()`
deriving DecidableEq, Repr

structure TxState where
  phase : Phase := .readFlag   -- the loop starts with setCyclicTransmission()
  flag : Bool := false         -- isCyclicEnabled, written by the application
  wakePending : Bool := false  -- wake-up channel (capacity 1) holds a token
  mid : Nat := 0               -- applications that wrote the flag and have not yet tried to send the wake-up
  armed : Bool := false        -- the ticker exists
  tickBuf : Bool := false      -- the tick channel holds a tick (not cleared by Stop)
  accepted : Nat := 0          -- event requests that returned success
  ticks : Nat := 0             -- ticks consumed by the select
  sent : Nat := 0              -- frames handed to TransmitFrame
deriving DecidableEq, Repr

inductive TxEvent
  | appWrite (b : Bool)        -- application: m.isCyclicEnabled = b
  | appSend                    -- application: non-blocking send on the wake-up channel
  | consumeWake                -- transmitter: case <-wakeUpChan
  | readFlag                   -- transmitter: lock; read flag; unlock
  | applyFlag                  -- transmitter: enable/disable the ticker
  | tickArrive                 -- runtime: the armed ticker delivers a tick
  | consumeTick                -- transmitter: case <-tickChan
  | acceptRequest              -- transmitter: case <-transmitEventChan (the application's Transmit returns nil)
  | transmitDone               -- transmitter: transmit() returned without error
deriving DecidableEq, Repr

def txStep (s : TxState) : TxEvent → Option TxState
  | .appWrite b => some { s with flag := b, mid := s.mid + 1 }
  | .appSend => if s.mid > 0 then some { s with mid := s.mid - 1, wakePending := true } else none
  | .consumeWake => if s.phase = .select ∧ s.wakePending then some { s with phase := .readFlag, wakePending := false } else none
  | .readFlag => if s.phase = .readFlag then some { s with phase := .apply s.flag } else none
  | .applyFlag => match s.phase with
    | .apply v => some { s with phase := .select, armed := v }
    | _ => none
  | .tickArrive => if s.armed then some { s with tickBuf := true } else none
  | .consumeTick => if s.phase = .select ∧ s.tickBuf then
      some { s with phase := .transmitting, tickBuf := false, ticks := s.ticks + 1 } else none
  | .acceptRequest => if s.phase = .select then some { s with phase := .transmitting, accepted := s.accepted + 1 } else none
  | .transmitDone => if s.phase = .transmitting then some { s with phase := .select, sent := s.sent + 1 } else none

/-- states reachable from the initial state by any sequence of enabled events -/
inductive TxReach : TxState → Prop
  | init : TxReach {}
  | step (s s' : TxState) (e : TxEvent) : TxReach s → txStep s e = some s' → TxReach s'

end CanVerif
