import CanVerif.Model.Frame
/-! Bit-level lemmas about the SocketCAN wire codec. -/
namespace CanVerif

theorem bv_lt_two_pow {w : Nat} (x : BitVec w) (n i : Nat) (h : x.toNat < 2^n) (hi : n ≤ i) : x.getLsbD i = false := by
  rw [BitVec.getLsbD]
  apply Nat.testBit_lt_two_pow
  exact Nat.lt_of_lt_of_le h (Nat.pow_le_pow_right (by omega) hi)

theorem one_shl_getLsbD' {w : Nat} (hw : 0 < w) (k j : Nat) :
    ((1#w) <<< k).getLsbD j = (decide (j < w) && decide (j = k)) := by
  rw [BitVec.getLsbD_shiftLeft]
  by_cases h1 : j < w <;> by_cases h2 : j < k <;> simp [h1, h2]
  · omega
  · by_cases h3 : j = k
    · subst h3; simp; omega
    · have : j - k ≠ 0 := by omega
      simp [h3]; omega

theorem flagE_eq : idFlagExtended = 1#32 <<< 31 := by decide
theorem flagR_eq : idFlagRemote = 1#32 <<< 30 := by decide
theorem flagErr_eq : idFlagError = 1#32 <<< 29 := by decide

theorem flagE_bit (i : Nat) : idFlagExtended.getLsbD i = decide (i = 31) := by
  rw [flagE_eq, one_shl_getLsbD' (by decide)]; by_cases h : i = 31 <;> simp [h]
theorem flagR_bit (i : Nat) : idFlagRemote.getLsbD i = decide (i = 30) := by
  rw [flagR_eq, one_shl_getLsbD' (by decide)]; by_cases h : i = 30 <;> simp [h]
theorem flagErr_bit (i : Nat) : idFlagError.getLsbD i = decide (i = 29) := by
  rw [flagErr_eq, one_shl_getLsbD' (by decide)]; by_cases h : i = 29 <;> simp [h]

theorem maskE_bit (i : Nat) : idMaskExtended.getLsbD i = decide (i < 29) := by
  have : idMaskExtended = BitVec.ofNat 32 (2^29 - 1) := by decide
  rw [this, BitVec.getLsbD_ofNat, Nat.testBit_two_pow_sub_one]
  by_cases h : i < 29
  · have : i < 32 := by omega
    simp [h, this]
  · simp [h]
theorem maskS_bit (i : Nat) : idMaskStandard.getLsbD i = decide (i < 11) := by
  have : idMaskStandard = BitVec.ofNat 32 (2^11 - 1) := by decide
  rw [this, BitVec.getLsbD_ofNat, Nat.testBit_two_pow_sub_one]
  by_cases h : i < 11
  · have : i < 32 := by omega
    simp [h, this]
  · simp [h]

/-- `x & (1<<k) > 0` tests bit `k` -/
theorem and_one_shl_pos (x : BitVec 32) (k : Nat) (hk : k < 32) :
    decide (x &&& (1#32 <<< k) > 0#32) = x.getLsbD k := by
  by_cases hb : x.getLsbD k = true
  · rw [hb]
    simp only [gt_iff_lt, decide_eq_true_eq]
    rw [BitVec.lt_def]
    have : (x &&& 1#32 <<< k).toNat ≠ 0 := by
      intro h0
      have hz : (x &&& 1#32 <<< k) = 0#32 := BitVec.eq_of_toNat_eq (by simpa using h0)
      have := congrArg (fun y => y.getLsbD k) hz
      simp only [BitVec.getLsbD_and, one_shl_getLsbD' (by decide : 0 < 32), hb] at this
      simp [hk] at this
    show 0 < (x &&& 1#32 <<< k).toNat
    omega
  · have hb' : x.getLsbD k = false := by simpa using hb
    rw [hb']
    have hz : (x &&& 1#32 <<< k) = 0#32 := by
      apply BitVec.eq_of_getLsbD_eq
      intro j hj
      rw [BitVec.getLsbD_and, one_shl_getLsbD' (by decide : 0 < 32)]
      by_cases e : j = k
      · subst e; simp [hb']
      · simp [e]
    rw [hz]; decide

theorem ScFrame.isExtended_eq (f : ScFrame) : f.isExtended = f.idAndFlags.getLsbD 31 := by
  unfold ScFrame.isExtended; rw [flagE_eq]; exact and_one_shl_pos _ 31 (by decide)
theorem ScFrame.isRemote_eq (f : ScFrame) : f.isRemote = f.idAndFlags.getLsbD 30 := by
  unfold ScFrame.isRemote; rw [flagR_eq]; exact and_one_shl_pos _ 30 (by decide)
theorem ScFrame.isError_eq (f : ScFrame) : f.isError = f.idAndFlags.getLsbD 29 := by
  unfold ScFrame.isError; rw [flagErr_eq]; exact and_one_shl_pos _ 29 (by decide)

/-- bits of the can_id word produced by `encodeFrame` -/
theorem encodeFrame_bit (cf : Frame) (i : Nat) :
    (encodeFrame cf).idAndFlags.getLsbD i =
      (cf.id.getLsbD i || (cf.isRemote && decide (i = 30)) || (cf.isExtended && decide (i = 31))) := by
  unfold encodeFrame
  cases hr : cf.isRemote <;> cases he : cf.isExtended <;>
    simp [BitVec.getLsbD_or, flagE_bit, flagR_bit]

theorem marshal_unmarshal (f : ScFrame) : unmarshalBinary (marshalBinary f) = f := by
  unfold unmarshalBinary marshalBinary
  cases f with
  | mk w dlc data =>
    simp only [ScFrame.mk.injEq]
    refine ⟨?_, ?_, ?_⟩
    · apply BitVec.eq_of_getLsbD_eq; intro i hi
      simp [BitVec.getLsbD_setWidth, BitVec.getLsbD_or, BitVec.getLsbD_shiftLeft, hi,
        show i < 128 by omega, show ¬ (32 ≤ i) by omega, show ¬ (64 ≤ i) by omega]
    · apply BitVec.eq_of_getLsbD_eq; intro i hi
      have h1 : w.getLsbD (32 + i) = false := BitVec.getLsbD_of_ge _ _ (by omega)
      simp [BitVec.getLsbD_setWidth, BitVec.getLsbD_or, BitVec.getLsbD_shiftLeft, BitVec.getLsbD_ushiftRight, hi,
        show 32 + i < 128 by omega, show ¬ (32 + i < 32) by omega, show i < 128 by omega, show 32 + i < 64 by omega, h1]
    · apply BitVec.eq_of_getLsbD_eq; intro i hi
      have h1 : w.getLsbD (64 + i) = false := BitVec.getLsbD_of_ge _ _ (by omega)
      have h2 : dlc.getLsbD (64 + i - 32) = false := BitVec.getLsbD_of_ge _ _ (by omega)
      simp [BitVec.getLsbD_setWidth, BitVec.getLsbD_or, BitVec.getLsbD_shiftLeft, BitVec.getLsbD_ushiftRight, hi,
        show 64 + i < 128 by omega, show ¬ (64 + i < 32) by omega, show i < 128 by omega, show ¬ (64 + i < 64) by omega, h1, h2]

end CanVerif
