import CanVerif.Model.BufScanner
/-! Lemmas about `blocks16` / `rest16` (C07). -/
namespace CanVerif

theorem blocks16_lt (s : Bytes) (h : s.length < 16) : blocks16 s = [] := by
  rw [blocks16]; simp; omega
theorem rest16_lt (s : Bytes) (h : s.length < 16) : rest16 s = s := by
  rw [rest16]; simp; omega
theorem blocks16_ge (s : Bytes) (h : 16 ≤ s.length) : blocks16 s = s.take 16 :: blocks16 (s.drop 16) := by
  rw [blocks16]; simp [h]
theorem rest16_ge (s : Bytes) (h : 16 ≤ s.length) : rest16 s = rest16 (s.drop 16) := by
  rw [rest16]; simp [h]

/-- splitting lemma: blocks of `s ++ t` = blocks of `s` then blocks of (leftover of `s` ++ `t`) -/
theorem blocks16_append (s t : Bytes) : blocks16 (s ++ t) = blocks16 s ++ blocks16 (rest16 s ++ t) := by
  induction s using (measure (fun (s : Bytes) => s.length)).wf.induction with
  | _ s ih =>
    by_cases h : 16 ≤ s.length
    · rw [blocks16_ge s h, rest16_ge s h, blocks16_ge (s ++ t) (by simp; omega)]
      have e1 : (s ++ t).take 16 = s.take 16 := by
        rw [List.take_append_of_le_length h]
      have e2 : (s ++ t).drop 16 = s.drop 16 ++ t := by
        rw [List.drop_append_of_le_length h]
      rw [e1, e2, ih (s.drop 16) (by simp [InvImage, WellFoundedRelation.rel, List.length_drop]; omega)]
      rfl
    · rw [blocks16_lt s (by omega), rest16_lt s (by omega)]; rfl

theorem rest16_append (s t : Bytes) : rest16 (s ++ t) = rest16 (rest16 s ++ t) := by
  induction s using (measure (fun (s : Bytes) => s.length)).wf.induction with
  | _ s ih =>
    by_cases h : 16 ≤ s.length
    · rw [rest16_ge s h, rest16_ge (s ++ t) (by simp; omega)]
      have e2 : (s ++ t).drop 16 = s.drop 16 ++ t := by
        rw [List.drop_append_of_le_length h]
      rw [e2, ih (s.drop 16) (by simp [InvImage, WellFoundedRelation.rel, List.length_drop]; omega)]
    · rw [rest16_lt s (by omega)]

end CanVerif
