import CanVerif.Model.Netlink
/-! Lemmas for the netlink codec (C20). -/
namespace CanVerif

theorem leBytes_length (w v : Nat) : (leBytes w v).length = w := by
  induction w generalizing v with
  | zero => rfl
  | succ w ih => simp [leBytes, ih]

theorem ofLE_leBytes (w v : Nat) : ofLE (leBytes w v) = v % 256 ^ w := by
  induction w generalizing v with
  | zero => simp [leBytes, ofLE, Nat.mod_one]
  | succ w ih =>
    rw [leBytes, ofLE, ih]
    have : (UInt8.ofNat (v % 256)).toNat = v % 256 := by simp [UInt8.toNat_ofNat]
    rw [this, Nat.pow_succ, Nat.mul_comm (256 ^ w) 256, Nat.mod_mul]

theorem encodeItems_length (items : List Item) (vals : List Nat) : (encodeItems items vals).length = layoutSize items := by
  induction items generalizing vals with
  | nil => rfl
  | cons it r ih =>
    cases it with
    | pad w => simp [encodeItems, layoutSize, ih]
    | field w =>
      cases vals with
      | nil => simp [encodeItems, layoutSize, ih, leBytes_length]
      | cons v vs => simp [encodeItems, layoutSize, ih, leBytes_length]

/-- values fit their fields, one value per field -/
def FitsItems : List Item → List Nat → Prop
  | [], vs => vs = []
  | .pad _ :: r, vs => FitsItems r vs
  | .field w :: r, v :: vs => v < 256 ^ w ∧ FitsItems r vs
  | .field _ :: _, [] => False

theorem decode_encode (items : List Item) (vals : List Nat) (h : FitsItems items vals) (rest : Bytes) :
    decodeItems items (encodeItems items vals ++ rest) = vals := by
  induction items generalizing vals with
  | nil => simp [FitsItems] at h; subst h; rfl
  | cons it r ih =>
    cases it with
    | pad w =>
      simp only [encodeItems, decodeItems, FitsItems] at h ⊢
      rw [List.append_assoc, List.drop_append_of_le_length (by simp)]
      simp [ih vals h]
    | field w =>
      cases vals with
      | nil => simp [FitsItems] at h
      | cons v vs =>
        simp only [FitsItems] at h
        simp only [encodeItems, decodeItems, List.append_assoc]
        have hl := leBytes_length w v
        rw [List.take_append_of_le_length (by omega), List.drop_append_of_le_length (by omega)]
        rw [List.take_of_length_le (by omega), List.drop_of_length_le (by omega), List.nil_append,
          ofLE_leBytes, Nat.mod_eq_of_lt h.1, ih vs h.2]

theorem align4_add4 (n : Nat) : align4 (4 + n) = 4 + align4 n := by unfold align4; omega
theorem align4_ge (n : Nat) : n ≤ align4 n := by unfold align4; omega

theorem parseAttrs_attr (fuel t : Nat) (p rest : Bytes) (ht : t < 65536) (hp : 4 + p.length < 65536) :
    parseAttrs (fuel + 1) (attr t p ++ rest) =
      (parseAttrs fuel rest).map (fun r => (t % 0x4000, p) :: r) := by
  have hpad := align4_ge p.length
  generalize hk : align4 p.length - p.length = k
  have hal : align4 p.length = p.length + k := by omega
  have hshape : attr t p ++ rest = leBytes 2 (4 + p.length) ++ (leBytes 2 t ++ (p ++ (List.replicate k 0 ++ rest))) := by
    unfold attr; rw [hk]; simp [List.append_assoc]
  rw [hshape]
  have l1 : (leBytes 2 (4 + p.length)).length = 2 := leBytes_length _ _
  have l2 : (leBytes 2 t).length = 2 := leBytes_length _ _
  conv => lhs; unfold parseAttrs
  have hne : (leBytes 2 (4 + p.length) ++ (leBytes 2 t ++ (p ++ (List.replicate k 0 ++ rest)))).isEmpty = false := by
    simp [leBytes]
  have hlen : (leBytes 2 (4 + p.length) ++ (leBytes 2 t ++ (p ++ (List.replicate k 0 ++ rest)))).length =
      4 + p.length + k + rest.length := by simp [l1, l2]; omega
  simp only [hne, Bool.false_eq_true, if_false, hlen]
  have c1 : ¬ (4 + p.length + k + rest.length < 4) := by omega
  simp only [c1, if_false]
  have e1 : ofLE (List.take 2 (leBytes 2 (4 + p.length) ++ (leBytes 2 t ++ (p ++ (List.replicate k 0 ++ rest))))) = 4 + p.length := by
    rw [List.take_append_of_le_length (by omega), List.take_of_length_le (by omega), ofLE_leBytes]
    exact Nat.mod_eq_of_lt (by simpa using hp)
  have e2 : ofLE (List.take 2 (List.drop 2 (leBytes 2 (4 + p.length) ++ (leBytes 2 t ++ (p ++ (List.replicate k 0 ++ rest)))))) = t := by
    rw [List.drop_append_of_le_length (by omega), List.drop_of_length_le (by omega), List.nil_append,
      List.take_append_of_le_length (by omega), List.take_of_length_le (by omega), ofLE_leBytes]
    exact Nat.mod_eq_of_lt (by simpa using ht)
  simp only [e1, e2]
  have c2 : ¬ (4 + p.length < 4 ∨ 4 + p.length > 4 + p.length + k + rest.length) := by omega
  simp only [c2, if_false]
  have e3 : List.take (4 + p.length - 4) (List.drop 4 (leBytes 2 (4 + p.length) ++ (leBytes 2 t ++ (p ++ (List.replicate k 0 ++ rest))))) = p := by
    have : List.drop 4 (leBytes 2 (4 + p.length) ++ (leBytes 2 t ++ (p ++ (List.replicate k 0 ++ rest)))) = p ++ (List.replicate k 0 ++ rest) := by
      rw [← List.append_assoc, List.drop_append_of_le_length (by simp [l1, l2]), List.drop_of_length_le (by simp [l1, l2]), List.nil_append]
    rw [this, List.take_append_of_le_length (by omega), List.take_of_length_le (by omega)]
  have e4 : List.drop (align4 (4 + p.length)) (leBytes 2 (4 + p.length) ++ (leBytes 2 t ++ (p ++ (List.replicate k 0 ++ rest)))) = rest := by
    rw [align4_add4, hal]
    rw [← List.append_assoc, ← List.append_assoc, ← List.append_assoc]
    rw [List.drop_append_of_le_length (by simp [l1, l2]; omega), List.drop_of_length_le (by simp [l1, l2]; omega), List.nil_append]
  rw [e3, e4]
  cases parseAttrs fuel rest <;> simp


theorem parseAttrs_nil (fuel : Nat) : parseAttrs (fuel + 1) [] = some [] := by
  unfold parseAttrs; simp

theorem attr_length (t : Nat) (p : Bytes) : (attr t p).length = 4 + align4 p.length := by
  have := align4_ge p.length
  unfold attr; simp [leBytes_length]; omega

theorem parseAttrs_single (fuel t : Nat) (p : Bytes) (ht : t < 65536) (hp : 4 + p.length < 65536) :
    parseAttrs (fuel + 2) (attr t p) = some [(t % 0x4000, p)] := by
  have := parseAttrs_attr (fuel + 1) t p [] ht hp
  rw [List.append_nil] at this
  rw [this, parseAttrs_nil]; rfl

theorem parseAttrs_pair (fuel t₁ t₂ : Nat) (p₁ p₂ : Bytes) (ht₁ : t₁ < 65536) (hp₁ : 4 + p₁.length < 65536)
    (ht₂ : t₂ < 65536) (hp₂ : 4 + p₂.length < 65536) :
    parseAttrs (fuel + 3) (attr t₁ p₁ ++ attr t₂ p₂) = some [(t₁ % 0x4000, p₁), (t₂ % 0x4000, p₂)] := by
  rw [parseAttrs_attr (fuel + 2) t₁ p₁ _ ht₁ hp₁, parseAttrs_single fuel t₂ p₂ ht₂ hp₂]; rfl

theorem parseAttrs_single' (fuel t : Nat) (p : Bytes) (hf : 2 ≤ fuel) (ht : t < 65536) (hp : 4 + p.length < 65536) :
    parseAttrs fuel (attr t p) = some [(t % 0x4000, p)] := by
  obtain ⟨k, rfl⟩ : ∃ k, fuel = k + 2 := ⟨fuel - 2, by omega⟩
  exact parseAttrs_single k t p ht hp

theorem parseAttrs_pair' (fuel t₁ t₂ : Nat) (p₁ p₂ : Bytes) (hf : 3 ≤ fuel) (ht₁ : t₁ < 65536)
    (hp₁ : 4 + p₁.length < 65536) (ht₂ : t₂ < 65536) (hp₂ : 4 + p₂.length < 65536) :
    parseAttrs fuel (attr t₁ p₁ ++ attr t₂ p₂) = some [(t₁ % 0x4000, p₁), (t₂ % 0x4000, p₂)] := by
  obtain ⟨k, rfl⟩ : ∃ k, fuel = k + 3 := ⟨fuel - 3, by omega⟩
  exact parseAttrs_pair k t₁ t₂ p₁ p₂ ht₁ hp₁ ht₂ hp₂

theorem unmarshal_encode (items : List Item) (vals : List Nat) (h : FitsItems items vals) :
    unmarshalItems items (encodeItems items vals) = some vals := by
  unfold unmarshalItems
  simp only [encodeItems_length, ne_eq, not_true_eq_false, if_false]
  have := decode_encode items vals h []
  rw [List.append_nil] at this
  rw [this]

end CanVerif
