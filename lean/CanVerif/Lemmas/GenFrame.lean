import CanVerif.Lemmas.GenField
/-! Message-level facts about generated messages: `Frame()` is a sequence of field encodings over pairwise disjoint
ranges, so every encoded field reads back as stored, and the frame depends only on the encoded fields. -/
namespace CanVerif

/-- fold of field encoders over the fields selected by `c` -/
def enc (c : DSignal → Bool) (zs : List (DSignal × Raw)) (d : Data) : Data :=
  zs.foldl (fun d p => if c p.1 then marshalField p.1 p.2 d else d) d

@[simp] theorem enc_nil (c : DSignal → Bool) (d : Data) : enc c [] d = d := rfl
theorem enc_cons (c : DSignal → Bool) (p : DSignal × Raw) (zs : List (DSignal × Raw)) (d : Data) :
    enc c (p :: zs) d = enc c zs (if c p.1 then marshalField p.1 p.2 d else d) := rfl

/-- selected fields are well-formed and hold in-range values -/
def ActiveOk (c : DSignal → Bool) (zs : List (DSignal × Raw)) : Prop :=
  ∀ p ∈ zs, c p.1 = true → SigOk p.1 ∧ rawInRange p.1 p.2 = true

/-- a payload position outside every selected field is not touched -/
theorem enc_outside (c : DSignal → Bool) (zs : List (DSignal × Raw)) (d : Data) (hok : ActiveOk c zs) (k : Nat)
    (hout : ∀ p ∈ zs, c p.1 = true → ∀ i, i < p.1.length → p.1.rng.pos i ≠ k) :
    payloadBit (enc c zs d) k = payloadBit d k := by
  induction zs generalizing d with
  | nil => rfl
  | cons p zs ih =>
    rw [enc_cons, ih _ (fun q hq => hok q (List.mem_cons_of_mem _ hq)) (fun q hq => hout q (List.mem_cons_of_mem _ hq))]
    split
    · next hc =>
      obtain ⟨h1, h2⟩ := hok p (List.mem_cons_self ..) hc
      exact marshalField_outside p.1 p.2 d h1 h2 k (hout p (List.mem_cons_self ..) hc)
    · rfl

/-- a field whose range is disjoint from every selected field decodes as before -/
theorem enc_read_other (c : DSignal → Bool) (zs : List (DSignal × Raw)) (d : Data) (hok : ActiveOk c zs)
    (t : DSignal) (ht : SigOk t) (hdis : ∀ p ∈ zs, c p.1 = true → p.1.rng.Disjoint t.rng) :
    unmarshalField t (enc c zs d) = unmarshalField t d := by
  apply unmarshalField_congr t _ _ ht
  intro j hj
  apply enc_outside c zs d hok
  intro p hp hc i hi
  exact hdis p hp hc i j (by rw [rng_l]; exact hi) (by rw [rng_l]; exact hj)

/-- every selected field reads back as stored when the selected fields are pairwise disjoint -/
theorem enc_read_active (c : DSignal → Bool) (zs : List (DSignal × Raw)) (d : Data) (hok : ActiveOk c zs)
    (hpw : zs.Pairwise (fun p q => c p.1 = true → c q.1 = true → p.1.rng.Disjoint q.1.rng))
    (p : DSignal × Raw) (hp : p ∈ zs) (hc : c p.1 = true) : unmarshalField p.1 (enc c zs d) = p.2 := by
  induction zs generalizing d with
  | nil => cases hp
  | cons q zs ih =>
    rw [enc_cons]
    have hok' : ActiveOk c zs := fun r hr => hok r (List.mem_cons_of_mem _ hr)
    rw [List.pairwise_cons] at hpw
    rcases List.mem_cons.mp hp with rfl | hin
    · obtain ⟨h1, h2⟩ := hok p (List.mem_cons_self ..) hc
      rw [enc_read_other c zs _ hok' p.1 h1 (fun r hr hcr => (hpw.1 r hr hc hcr).symm)]
      simp only [hc, if_true]
      exact unmarshal_marshal p.1 p.2 d h1 h2
    · exact ih _ hok' hpw.2 hin

/-- the fold only looks at the values of selected fields -/
theorem enc_map_congr (c : DSignal → Bool) (g : DSignal → Raw → Raw) :
    ∀ (sigs : List DSignal) (vals vals0 : List Raw), vals.length = sigs.length → vals0.length = sigs.length →
    (∀ s v v0, (s, v) ∈ sigs.zip vals → c s = true → g s v0 = v) →
    ∀ d, enc c (sigs.zip ((sigs.zip vals0).map (fun p => g p.1 p.2))) d = enc c (sigs.zip vals) d := by
  intro sigs
  induction sigs with
  | nil => intros; rfl
  | cons s ss ih =>
    intro vals vals0 h1 h2 hg d
    cases vals with
    | nil => simp at h1
    | cons v vs =>
      cases vals0 with
      | nil => simp at h2
      | cons v0 vs0 =>
        simp only [List.zip_cons_cons, List.map_cons, enc_cons]
        have hrec := ih vs vs0 (by simpa using h1) (by simpa using h2)
          (fun s' v' v0' hm hc' => hg s' v' v0' (by simp only [List.zip_cons_cons]; exact List.mem_cons_of_mem _ hm) hc')
        rw [hrec]
        by_cases hc : c s = true
        · have : g s v0 = v := hg s v v0 (by simp) hc
          simp only [hc, if_true, this]
        · simp [hc]

theorem enc_false (zs : List (DSignal × Raw)) (d : Data) : enc (fun _ => false) zs d = d := by
  induction zs generalizing d with
  | nil => rfl
  | cons p zs ih => rw [enc_cons]; simpa using ih d

/-- composition of two pointwise updates over the zipped fields -/
theorem zip_map_map (g1 g2 : DSignal → Raw → Raw) :
    ∀ (sigs : List DSignal) (l : List Raw), l.length = sigs.length →
    (sigs.zip ((sigs.zip l).map (fun p => g1 p.1 p.2))).map (fun p => g2 p.1 p.2) =
      (sigs.zip l).map (fun p => g2 p.1 (g1 p.1 p.2)) := by
  intro sigs
  induction sigs with
  | nil => intros; rfl
  | cons s ss ih =>
    intro l hl
    cases l with
    | nil => simp at hl
    | cons v vs => simp only [List.zip_cons_cons, List.map_cons, ih vs (by simpa using hl)]

/-- the value a pointwise update leaves at an index -/
theorem getD_zip_map (g : DSignal → Raw → Raw) :
    ∀ (sigs : List DSignal) (l : List Raw) (i : Nat) (s : DSignal), l.length = sigs.length → sigs[i]? = some s →
    ((sigs.zip l).map (fun p => g p.1 p.2)).getD i 0 = g s (l.getD i 0) := by
  intro sigs
  induction sigs with
  | nil => intro l i s _ h; simp at h
  | cons t ts ih =>
    intro l i s hl hs
    cases l with
    | nil => simp at hl
    | cons v vs =>
      cases i with
      | zero => simp at hs; subst hs; simp
      | succ j =>
        simp only [List.getElem?_cons_succ] at hs
        simpa using ih vs j s (by simpa using hl) hs

theorem mem_zip_of_getElem (sigs : List DSignal) (l : List Raw) (i : Nat) (s : DSignal)
    (hl : l.length = sigs.length) (hs : sigs[i]? = some s) : (s, l.getD i 0) ∈ sigs.zip l := by
  induction sigs generalizing l i with
  | nil => simp at hs
  | cons t ts ih =>
    cases l with
    | nil => simp at hl
    | cons v vs =>
      cases i with
      | zero => simp at hs; subst hs; simp
      | succ j =>
        simp only [List.getElem?_cons_succ] at hs
        simp only [List.zip_cons_cons, List.getD_cons_succ]
        exact List.mem_cons_of_mem _ (ih vs j (by simpa using hl) hs)

end CanVerif
