import CanVerif.Lemmas.FrameText
/-! `dataBytes (dataOfBytes bs)` gives `bs` back (zero-padded): parsed data frames have zero unused bytes. -/
namespace CanVerif

def bytesVal (bs : List UInt8) : Nat := bs.foldr (fun b acc => acc * 256 + b.toNat) 0

theorem bytesVal_cons (b : UInt8) (bs : List UInt8) : bytesVal (b :: bs) = bytesVal bs * 256 + b.toNat := rfl

theorem bytesVal_lt (bs : List UInt8) : bytesVal bs < 256 ^ bs.length := by
  induction bs with
  | nil => simp [bytesVal]
  | cons b bs ih =>
    rw [bytesVal_cons, List.length_cons, Nat.pow_succ]
    have := b.toNat_lt
    omega

theorem bytesVal_byte (bs : List UInt8) (j : Nat) (h : j < bs.length) :
    (bytesVal bs >>> (8 * j)) % 256 = bs[j].toNat := by
  induction bs generalizing j with
  | nil => simp at h
  | cons b bs ih =>
    rw [bytesVal_cons]
    have hb := b.toNat_lt
    cases j with
    | zero => simp
    | succ k =>
      have hk : k < bs.length := by simpa using h
      have e : (bytesVal bs * 256 + b.toNat) >>> (8 * (k + 1)) = bytesVal bs >>> (8 * k) := by
        rw [Nat.shiftRight_eq_div_pow, Nat.shiftRight_eq_div_pow]
        have : 2 ^ (8 * (k + 1)) = 256 * 2 ^ (8 * k) := by
          rw [show 8 * (k + 1) = 8 + 8 * k by omega, Nat.pow_add]
        rw [this, ← Nat.div_div_eq_div_mul]
        congr 1
        omega
      rw [e, ih k hk]
      simp

theorem dataBytes_dataOfBytes (bs : List UInt8) (h : bs.length ≤ 8) :
    (dataBytes (dataOfBytes bs)).take bs.length = bs := by
  have ht : bs.take 8 = bs := List.take_of_length_le h
  have hN : (dataOfBytes bs).toNat = bytesVal bs := by
    unfold dataOfBytes
    rw [ht]
    show (BitVec.ofNat 64 (bytesVal bs)).toNat = bytesVal bs
    rw [BitVec.toNat_ofNat]
    apply Nat.mod_eq_of_lt
    have h1 := bytesVal_lt bs
    have h2 : 256 ^ bs.length ≤ 256 ^ 8 := Nat.pow_le_pow_right (by omega) h
    omega
  apply List.ext_getElem
  · simp [dataBytes]; omega
  · intro i h1 h2
    simp only [dataBytes, List.getElem_take, List.getElem_map, List.getElem_range, hN]
    rw [bytesVal_byte bs i h2]
    simp

theorem hexDecode_length : ∀ (s : Str) (bs : List UInt8), hexDecode s = some bs → 2 * bs.length = s.length
  | [], bs, h => by simp [hexDecode] at h; subst h; rfl
  | [_], bs, h => by simp [hexDecode] at h
  | a :: b :: rest, bs, h => by
    unfold hexDecode at h
    split at h
    · next x y r _ _ hr =>
      simp only [Option.some.injEq] at h
      subst h
      have := hexDecode_length rest r hr
      simp only [List.length_cons]; omega
    · cases h

end CanVerif
