import CanVerif.Model.Prog
/-! Soundness of the abstract interpreter `chk`: if it accepts a program from a set of monitor states, the monitor
accepts the trace of every (partial or complete) execution from each of those states, and the state at each kind of
exit is in the set `chk` reports for it. -/
namespace CanVerif

variable {S : Type} [DecidableEq S]

theorem mem_union (a b : List S) (x : S) : x ∈ union a b ↔ x ∈ a ∨ x ∈ b := by
  unfold union
  simp only [List.mem_append, List.mem_filter, Bool.not_eq_true', List.contains_eq_mem, decide_eq_false_iff_not]
  constructor
  · rintro (h | ⟨h, _⟩)
    · exact Or.inl h
    · exact Or.inr h
  · rintro (h | h)
    · exact Or.inl h
    · by_cases hx : x ∈ a
      · exact Or.inl hx
      · exact Or.inr ⟨h, hx⟩

theorem subset_spec (a b : List S) : subset a b = true ↔ ∀ x ∈ a, x ∈ b := by
  unfold subset
  simp [List.all_eq_true]

theorem stepAll_spec (δ : S → Atom → Option S) (a : Atom) : ∀ (X Y : List S), stepAll δ a X = some Y →
    ∀ s ∈ X, ∃ s', δ s a = some s' ∧ s' ∈ Y := by
  intro X
  induction X with
  | nil => intro Y _ s hs; cases hs
  | cons x r ih =>
    intro Y h s hs
    unfold stepAll at h
    split at h
    · next s1 r1 h1 h2 =>
      simp only [Option.some.injEq] at h
      subst h
      rcases List.mem_cons.mp hs with rfl | hr
      · exact ⟨s1, h1, (mem_union _ _ _).mpr (Or.inl (List.mem_singleton.mpr rfl))⟩
      · obtain ⟨s', e1, e2⟩ := ih r1 h2 s hr
        exact ⟨s', e1, (mem_union _ _ _).mpr (Or.inr e2)⟩
    · cases h

theorem foldM'_append (δ : S → Atom → Option S) (s s1 : S) (t1 t2 : List Atom) (h : foldM' δ s t1 = some s1) :
    foldM' δ s (t1 ++ t2) = foldM' δ s1 t2 := by
  induction t1 generalizing s with
  | nil => simp only [foldM', Option.some.injEq] at h; subst h; rfl
  | cons a r ih =>
    simp only [List.cons_append, foldM'] at h ⊢
    split at h
    · cases h
    · next s' hs => exact ih s' h

/-- what `chk` promises about one program from one set of entry states -/
def Sound (δ : S → Atom → Option S) (p : Prog) (X : List S) (o : Outs S) : Prop :=
  ∀ s ∈ X, ∀ t e, Run p t e → ∃ s', foldM' δ s t = some s' ∧
    (e = .fall → s' ∈ o.fall) ∧ (e = .ret → s' ∈ o.ret) ∧ (e = .brk → s' ∈ o.brk) ∧ (e = .cont → s' ∈ o.cont)

/-- loops: a checked post-fixpoint of the head set is an invariant of all iterations -/
theorem loop_sound (δ : S → Atom → Option S) (p : Prog) (H : List S) (o : Outs S)
    (hb : Sound δ p H o) (hf : ∀ x ∈ o.fall, x ∈ H) (hc : ∀ x ∈ o.cont, x ∈ H) :
    ∀ q t e, Run q t e → q = .loop p → ∀ s ∈ H, ∃ s', foldM' δ s t = some s' ∧
      (e = .fall → s' ∈ H ∨ s' ∈ o.brk) ∧ (e = .ret → s' ∈ o.ret) ∧ e ≠ .brk ∧ e ≠ .cont := by
  intro q t e hrun
  induction hrun with
  | stop p' => intro _ s _; exact ⟨s, rfl, by simp, by simp, by simp, by simp⟩
  | skip => intro h; cases h
  | atom a => intro h; cases h
  | seqFall _ _ _ _ => intro h; cases h
  | seqExit _ _ _ => intro h; cases h
  | altL _ _ => intro h; cases h
  | altR _ _ => intro h; cases h
  | loopDone => intro _ s hs; exact ⟨s, rfl, fun _ => Or.inl hs, by simp, by simp, by simp⟩
  | @loopIter p' t1 t2 e1 e2 h1 he1 _ _ ih2 =>
    intro h s hs
    cases h
    obtain ⟨s1, f1, a1, _, _, a4⟩ := hb s hs t1 e1 h1
    have hs1 : s1 ∈ H := by
      rcases he1 with rfl | rfl
      · exact hf s1 (a1 rfl)
      · exact hc s1 (a4 rfl)
    obtain ⟨s2, f2, b⟩ := ih2 rfl s1 hs1
    exact ⟨s2, by rw [foldM'_append δ s s1 t1 t2 f1]; exact f2, b⟩
  | @loopBrk p' t h1 _ =>
    intro h s hs
    cases h
    obtain ⟨s1, f1, _, _, a3, _⟩ := hb s hs t .brk h1
    exact ⟨s1, f1, fun _ => Or.inr (a3 rfl), by simp, by simp, by simp⟩
  | @loopOut p' t e h1 he _ =>
    intro h s hs
    cases h
    obtain ⟨s1, f1, _, a2, _, _⟩ := hb s hs t e h1
    rcases he with rfl | rfl
    · exact ⟨s1, f1, by simp, fun _ => a2 rfl, by simp, by simp⟩
    · exact ⟨s1, f1, by simp, by simp, by simp, by simp⟩
  | blkIn _ _ _ => intro h; cases h
  | blkBrk _ _ => intro h; cases h
  | callIn _ _ _ => intro h; cases h
  | callRet _ _ => intro h; cases h
  | ret => intro h; cases h
  | brk => intro h; cases h
  | cont => intro h; cases h

/-- Soundness of the abstract interpreter. -/
theorem chk_sound (δ : S → Atom → Option S) (fuel : Nat) :
    ∀ (p : Prog) (X : List S) (o : Outs S), chk δ fuel p X = some o → Sound δ p X o := by
  intro p
  induction p with
  | skip =>
    intro X o h s hs t e hr
    simp only [chk, Option.some.injEq] at h; subst h
    cases hr with
    | stop => exact ⟨s, rfl, by simp, by simp, by simp, by simp⟩
    | skip => exact ⟨s, rfl, fun _ => hs, by simp, by simp, by simp⟩
  | atom a =>
    intro X o h s hs t e hr
    simp only [chk, Option.map_eq_some_iff] at h
    obtain ⟨Y, hY, rfl⟩ := h
    cases hr with
    | stop => exact ⟨s, rfl, by simp, by simp, by simp, by simp⟩
    | atom =>
      obtain ⟨s', e1, e2⟩ := stepAll_spec δ a X Y hY s hs
      exact ⟨s', by simp [foldM', e1], fun _ => e2, by simp, by simp, by simp⟩
  | seq p q ihp ihq =>
    intro X o h s hs t e hr
    simp only [chk] at h
    cases h1 : chk δ fuel p X with
    | none => simp only [h1] at h; cases h
    | some o1 =>
      simp only [h1] at h
      cases h2 : chk δ fuel q o1.fall with
      | none => simp only [h2] at h; cases h
      | some o2 =>
        simp only [h2, Option.some.injEq] at h; subst h
        cases hr with
        | stop => exact ⟨s, rfl, by simp, by simp, by simp, by simp⟩
        | @seqFall _ _ t1 t2 _ r1 r2 =>
          obtain ⟨s1, f1, a1, _⟩ := ihp X o1 h1 s hs t1 .fall r1
          obtain ⟨s2, f2, b1, b2, b3, b4⟩ := ihq o1.fall o2 h2 s1 (a1 rfl) t2 e r2
          refine ⟨s2, by rw [foldM'_append δ s s1 t1 t2 f1]; exact f2, b1, ?_, ?_, ?_⟩
          · intro he; exact (mem_union _ _ _).mpr (Or.inr (b2 he))
          · intro he; exact (mem_union _ _ _).mpr (Or.inr (b3 he))
          · intro he; exact (mem_union _ _ _).mpr (Or.inr (b4 he))
        | seqExit r1 hne =>
          obtain ⟨s1, f1, a1, a2, a3, a4⟩ := ihp X o1 h1 s hs t e r1
          refine ⟨s1, f1, fun he => absurd he hne, ?_, ?_, ?_⟩
          · intro he; exact (mem_union _ _ _).mpr (Or.inl (a2 he))
          · intro he; exact (mem_union _ _ _).mpr (Or.inl (a3 he))
          · intro he; exact (mem_union _ _ _).mpr (Or.inl (a4 he))
  | alt p q ihp ihq =>
    intro X o h s hs t e hr
    simp only [chk] at h
    cases h1 : chk δ fuel p X with
    | none => simp only [h1] at h; cases h
    | some o1 =>
      cases h2 : chk δ fuel q X with
      | none => simp only [h1, h2] at h; cases h
      | some o2 =>
        simp only [h1, h2, Option.some.injEq] at h; subst h
        cases hr with
        | stop => exact ⟨s, rfl, by simp, by simp, by simp, by simp⟩
        | altL r1 =>
          obtain ⟨s1, f1, a1, a2, a3, a4⟩ := ihp X o1 h1 s hs t e r1
          exact ⟨s1, f1, fun he => (mem_union _ _ _).mpr (Or.inl (a1 he)), fun he => (mem_union _ _ _).mpr (Or.inl (a2 he)),
            fun he => (mem_union _ _ _).mpr (Or.inl (a3 he)), fun he => (mem_union _ _ _).mpr (Or.inl (a4 he))⟩
        | altR r1 =>
          obtain ⟨s1, f1, a1, a2, a3, a4⟩ := ihq X o2 h2 s hs t e r1
          exact ⟨s1, f1, fun he => (mem_union _ _ _).mpr (Or.inr (a1 he)), fun he => (mem_union _ _ _).mpr (Or.inr (a2 he)),
            fun he => (mem_union _ _ _).mpr (Or.inr (a3 he)), fun he => (mem_union _ _ _).mpr (Or.inr (a4 he))⟩
  | loop p ihp =>
    intro X o h s hs t e hr
    unfold chk at h
    simp only at h
    generalize hH : iterHead (chk δ fuel p) fuel X = H at h
    cases h1 : chk δ fuel p H with
    | none => simp only [h1] at h; cases h
    | some ob =>
      simp only [h1] at h
      by_cases hcond : (subset X H && subset ob.fall H && subset ob.cont H) = true
      · rw [if_pos hcond] at h
        simp only [Option.some.injEq] at h; subst h
        simp only [Bool.and_eq_true, subset_spec] at hcond
        obtain ⟨⟨hX, hf⟩, hc⟩ := hcond
        obtain ⟨s', f, a1, a2, a3, a4⟩ := loop_sound δ p H ob (ihp H ob h1) hf hc _ t e hr rfl s (hX s hs)
        refine ⟨s', f, ?_, a2, fun he => absurd he a3, fun he => absurd he a4⟩
        intro he
        exact (mem_union _ _ _).mpr (a1 he)
      · rw [if_neg hcond] at h; cases h
  | blk p ihp =>
    intro X o h s hs t e hr
    simp only [chk, Option.map_eq_some_iff] at h
    obtain ⟨ob, h1, rfl⟩ := h
    cases hr with
    | stop => exact ⟨s, rfl, by simp, by simp, by simp, by simp⟩
    | blkIn r1 hne =>
      obtain ⟨s1, f1, a1, a2, _, a4⟩ := ihp X ob h1 s hs t e r1
      exact ⟨s1, f1, fun he => (mem_union _ _ _).mpr (Or.inl (a1 he)), a2, fun he => absurd he hne, a4⟩
    | blkBrk r1 =>
      obtain ⟨s1, f1, _, _, a3, _⟩ := ihp X ob h1 s hs t .brk r1
      exact ⟨s1, f1, fun _ => (mem_union _ _ _).mpr (Or.inr (a3 rfl)), by simp, by simp, by simp⟩
  | call p ihp =>
    intro X o h s hs t e hr
    simp only [chk] at h
    cases h1 : chk δ fuel p X with
    | none => simp only [h1] at h; cases h
    | some ob =>
      simp only [h1] at h
      by_cases hcond : (ob.brk.isEmpty && ob.cont.isEmpty) = true
      · rw [if_pos hcond] at h
        simp only [Option.some.injEq] at h; subst h
        cases hr with
        | stop => exact ⟨s, rfl, by simp, by simp, by simp, by simp⟩
        | callIn r1 he =>
          obtain ⟨s1, f1, a1, _, _, _⟩ := ihp X ob h1 s hs t e r1
          rcases he with rfl | rfl
          · exact ⟨s1, f1, fun _ => (mem_union _ _ _).mpr (Or.inl (a1 rfl)), by simp, by simp, by simp⟩
          · exact ⟨s1, f1, by simp, by simp, by simp, by simp⟩
        | callRet r1 =>
          obtain ⟨s1, f1, _, a2, _, _⟩ := ihp X ob h1 s hs t .ret r1
          exact ⟨s1, f1, fun _ => (mem_union _ _ _).mpr (Or.inr (a2 rfl)), by simp, by simp, by simp⟩
      · rw [if_neg hcond] at h; cases h
  | ret =>
    intro X o h s hs t e hr
    simp only [chk, Option.some.injEq] at h; subst h
    cases hr with
    | stop => exact ⟨s, rfl, by simp, by simp, by simp, by simp⟩
    | ret => exact ⟨s, rfl, by simp, fun _ => hs, by simp, by simp⟩
  | brk =>
    intro X o h s hs t e hr
    simp only [chk, Option.some.injEq] at h; subst h
    cases hr with
    | stop => exact ⟨s, rfl, by simp, by simp, by simp, by simp⟩
    | brk => exact ⟨s, rfl, by simp, by simp, fun _ => hs, by simp⟩
  | cont =>
    intro X o h s hs t e hr
    simp only [chk, Option.some.injEq] at h; subst h
    cases hr with
    | stop => exact ⟨s, rfl, by simp, by simp, by simp, by simp⟩
    | cont => exact ⟨s, rfl, by simp, by simp, by simp, fun _ => hs⟩

end CanVerif
