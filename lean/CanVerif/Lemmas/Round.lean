import CanVerif.Model.SoftFloat
/-! `roundF64` in closed form, and its monotonicity in the rational it rounds.
`roundF64 num den` rounds `num/den` to binary64 (magnitude bits).  With `E = max ⌊log2 v⌋-52, -1074` and
`R` = round-half-even, the result bits are `(E+1074)·2^52 + R(v/2^E)` (one formula for subnormal, normal and the
carry into the next binade); overflow is `≥ 2047·2^52`. -/
namespace CanVerif

theorem scale_eq (num den : Nat) (e : Int) :
    (if e < 0 then num * 2 ^ (-e).toNat else num) = scN num e ∧
    (if e < 0 then den else den * 2 ^ e.toNat) = scD den e := by
  unfold scN scD
  by_cases h : e < 0
  · have : e.toNat = 0 := by omega
    simp [h, this]
  · have : (-e).toNat = 0 := by omega
    simp [h, this]

/-- floor of the scaled value -/
def fl (num den : Nat) (e : Int) : Nat := scN num e / scD den e

theorem scD_pos (den : Nat) (e : Int) (h : 0 < den) : 0 < scD den e :=
  Nat.mul_pos h (Nat.pow_pos (by decide))

/-- raising the exponent by one halves the floor -/
theorem fl_succ (num den : Nat) (e : Int) : fl num den (e + 1) = fl num den e / 2 := by
  unfold fl scN scD
  by_cases h : e < 0
  · -- numerator loses a factor two
    have h1 : (-e).toNat = (-(e + 1)).toNat + 1 := by omega
    have h2 : (e + 1).toNat = e.toNat := by omega
    rw [h1, h2, Nat.pow_succ, ← Nat.mul_assoc, Nat.div_div_eq_div_mul,
      Nat.mul_comm (den * 2 ^ e.toNat) 2, Nat.mul_comm (num * 2 ^ (-(e + 1)).toNat) 2,
      Nat.mul_div_mul_left _ _ (by decide : 0 < 2)]
  · have h1 : (-(e + 1)).toNat = (-e).toNat := by omega
    have h2 : (e + 1).toNat = e.toNat + 1 := by omega
    rw [h1, h2, Nat.pow_succ, ← Nat.mul_assoc, Nat.div_div_eq_div_mul]

theorem fl_ge_iff (num den : Nat) (e : Int) (K : Nat) (hd : 0 < den) :
    K ≤ fl num den e ↔ K * scD den e ≤ scN num e := by
  unfold fl; exact Nat.le_div_iff_mul_le (scD_pos den e hd)

theorem fl_lt_iff (num den : Nat) (e : Int) (K : Nat) (hd : 0 < den) :
    fl num den e < K ↔ scN num e < K * scD den e := by
  unfold fl; exact Nat.div_lt_iff_lt_mul (scD_pos den e hd)

theorem pow2_add (a b : Nat) : 2 ^ a * 2 ^ b = 2 ^ (a + b) := (Nat.pow_add 2 a b).symm

/-- the floor at exponent `log2 num - log2 den - 53` lies in `[2^52, 2^54)` -/
theorem fl_base (num den : Nat) (hn : 0 < num) (hd : 0 < den) :
    2 ^ 52 ≤ fl num den ((num.log2 : Int) - (den.log2 : Int) - 53) ∧
    fl num den ((num.log2 : Int) - (den.log2 : Int) - 53) < 2 ^ 54 := by
  have ha1 : 2 ^ num.log2 ≤ num := Nat.log2_self_le (by omega)
  have ha2 : num < 2 ^ (num.log2 + 1) := Nat.lt_log2_self
  have hb1 : 2 ^ den.log2 ≤ den := Nat.log2_self_le (by omega)
  have hb2 : den < 2 ^ (den.log2 + 1) := Nat.lt_log2_self
  generalize num.log2 = a at *
  generalize den.log2 = b at *
  generalize he : ((a : Int) - (b : Int) - 53) = e
  constructor
  · rw [fl_ge_iff _ _ _ _ hd]
    unfold scN scD
    -- 2^52 * den * 2^e⁺ ≤ 2^52 * 2^(b+1) * 2^e⁺ = 2^(a + e⁻) ≤ num * 2^e⁻
    have hx : 52 + (b + 1) + e.toNat = a + (-e).toNat := by omega
    calc 2 ^ 52 * (den * 2 ^ e.toNat) ≤ 2 ^ 52 * (2 ^ (b + 1) * 2 ^ e.toNat) :=
          Nat.mul_le_mul_left _ (Nat.mul_le_mul_right _ (Nat.le_of_lt hb2))
      _ = 2 ^ (a + (-e).toNat) := by rw [pow2_add, pow2_add, ← hx]; congr 1; omega
      _ = 2 ^ a * 2 ^ (-e).toNat := (pow2_add _ _).symm
      _ ≤ num * 2 ^ (-e).toNat := Nat.mul_le_mul_right _ ha1
  · rw [fl_lt_iff _ _ _ _ hd]
    unfold scN scD
    have hx : (a + 1) + (-e).toNat = 54 + b + e.toNat := by omega
    have hp : 0 < 2 ^ (-e).toNat := Nat.pow_pos (by decide)
    calc num * 2 ^ (-e).toNat < 2 ^ (a + 1) * 2 ^ (-e).toNat := Nat.mul_lt_mul_of_pos_right ha2 hp
      _ = 2 ^ (54 + b + e.toNat) := by rw [pow2_add, hx]
      _ = 2 ^ 54 * (2 ^ b * 2 ^ e.toNat) := by rw [pow2_add, pow2_add]; congr 1; omega
      _ ≤ 2 ^ 54 * (den * 2 ^ e.toNat) := Nat.mul_le_mul_left _ (Nat.mul_le_mul_right _ hb1)

/-- the chosen exponent normalises the value: its floor lies in `[2^52, 2^53)` -/
theorem pick_spec (num den : Nat) (hn : 0 < num) (hd : 0 < den) :
    2 ^ 52 ≤ fl num den (pickE num den) ∧ fl num den (pickE num den) < 2 ^ 53 := by
  obtain ⟨h1, h2⟩ := fl_base num den hn hd
  generalize he : ((num.log2 : Int) - (den.log2 : Int) - 52) = e0
  have hp : pickE num den =
      (if fl num den (e0 + 1) ≥ 2 ^ 52 then e0 + 1 else if fl num den e0 ≥ 2 ^ 52 then e0 else e0 - 1) := by
    unfold pickE fl; simp only [he]
  have e1 : ((num.log2 : Int) - (den.log2 : Int) - 53) = e0 - 1 := by omega
  rw [e1] at h1 h2
  have s0 : fl num den e0 = fl num den (e0 - 1) / 2 := by
    have := fl_succ num den (e0 - 1); simpa using this
  have s1 : fl num den (e0 + 1) = fl num den e0 / 2 := fl_succ num den e0
  rw [hp]
  by_cases c1 : fl num den (e0 + 1) ≥ 2 ^ 52
  · rw [s1, s0] at c1; omega
  · rw [if_neg c1]
    by_cases c2 : fl num den e0 ≥ 2 ^ 52
    · rw [if_pos c2]; rw [s0] at c2 ⊢; omega
    · rw [if_neg c2]; rw [s0] at c2; omega

/-- the floor is antitone in the exponent -/
theorem fl_anti (num den : Nat) (e : Int) (k : Nat) : fl num den (e + k) ≤ fl num den e := by
  induction k with
  | zero => simp
  | succ n ih =>
    have : e + ((n + 1 : Nat) : Int) = (e + n) + 1 := by omega
    rw [this, fl_succ]
    exact Nat.le_trans (Nat.div_le_self _ _) ih

theorem clamp_spec (num den : Nat) (hn : 0 < num) (hd : 0 < den) :
    fl num den (clampE num den) < 2 ^ 53 ∧ -1074 ≤ clampE num den ∧
    (-1074 < clampE num den → 2 ^ 52 ≤ fl num den (clampE num den)) := by
  obtain ⟨p1, p2⟩ := pick_spec num den hn hd
  unfold clampE
  by_cases h : pickE num den < -1074
  · simp only [h, if_true]
    have := fl_anti num den (pickE num den) ((-1074 - pickE num den).toNat)
    have e : pickE num den + ((-1074 - pickE num den).toNat : Int) = -1074 := by omega
    rw [e] at this
    exact ⟨by omega, by omega, by omega⟩
  · simp only [h, if_false]
    exact ⟨p2, by omega, fun _ => p1⟩

end CanVerif
