import CanVerif.Lemmas.Json
/-! The model of `encoding/json`'s scanner (`parseJson`) reads back what the frame encoder writes: objects whose keys
are plain ASCII and whose values are decimal numbers, plain strings or `true`. -/
namespace CanVerif

/-- bytes that need no escaping inside a JSON string -/
def Plain (t : Str) : Prop := ∀ c ∈ t, c ≠ 34 ∧ c ≠ 92 ∧ 32 ≤ c.toNat

theorem scanString_plain (t rest : Str) (ht : Plain t) : ∀ (fuel : Nat) (acc : Str), t.length + 1 ≤ fuel →
    jsonScanString fuel acc (t ++ 34 :: rest) = some (acc.reverse ++ t, rest) := by
  induction t with
  | nil =>
    intro fuel acc hf
    cases fuel with
    | zero => omega
    | succ f => simp [jsonScanString]
  | cons c t ih =>
    intro fuel acc hf
    cases fuel with
    | zero => omega
    | succ f =>
      obtain ⟨h1, h2, h3⟩ := ht c (List.mem_cons_self ..)
      have ht' : Plain t := fun x hx => ht x (List.mem_cons_of_mem _ hx)
      have e1 : (c == 34) = false := by simpa using h1
      have e2 : ¬ c.toNat < 32 := by omega
      have e3 : (c == 92) = false := by simpa using h2
      rw [List.cons_append]
      unfold jsonScanString
      simp only [e1, Bool.false_eq_true, if_false, e2, e3]
      rw [ih ht' f (c :: acc) (by simp at hf; omega)]
      simp

/-- the simple values the frame encoder writes -/
inductive SimpleV : J → Prop
  | num (n : Nat) : SimpleV (J.num (decDigits n))
  | str (t : Str) (h : Plain t) : SimpleV (J.str t)
  | tt : SimpleV (J.bool true)

theorem decDigits_head_ne_zero (n : Nat) (hn : n ≠ 0) : ∃ d ds, decDigits n = d :: ds ∧ d ≠ 48 := by
  induction n using Nat.strongRecOn with
  | _ n ih =>
    rw [decDigits]
    by_cases h : n < 10
    · simp only [h, dite_true]
      refine ⟨_, [], rfl, ?_⟩
      intro e
      have := digit_toNat n h
      rw [e] at this
      simp at this
      omega
    · simp only [h, dite_false]
      obtain ⟨d, ds, e, hd⟩ := ih (n / 10) (by omega) (by omega)
      exact ⟨d, ds ++ [UInt8.ofNat (48 + n % 10)], by rw [e]; rfl, hd⟩

theorem decDigits_zero : decDigits 0 = [48] := by rw [decDigits]; rfl

theorem takeWhile_digits (ds : Str) (c : UInt8) (rest : Str) (hd : ds.all jsonIsDigit = true) (hc : jsonIsDigit c = false) :
    (ds ++ c :: rest).takeWhile jsonIsDigit = ds ∧ (ds ++ c :: rest).dropWhile jsonIsDigit = c :: rest := by
  induction ds with
  | nil => simp [List.takeWhile, List.dropWhile, hc]
  | cons d ds ih =>
    simp only [List.all_cons, Bool.and_eq_true] at hd
    obtain ⟨i1, i2⟩ := ih hd.2
    simp [List.takeWhile, List.dropWhile, hd.1, i1, i2]

/-- a decimal literal followed by `,` or `}` is scanned as itself -/
theorem scanNumber_dec (n : Nat) (c : UInt8) (rest : Str) (hc : c = 44 ∨ c = 125) :
    jsonScanNumber (decDigits n ++ c :: rest) = some (decDigits n, c :: rest) := by
  obtain ⟨hall, _, hne⟩ := decDigits_spec n
  have hcd : jsonIsDigit c = false := by rcases hc with rfl | rfl <;> decide
  have hc46 : c ≠ 46 := by rcases hc with rfl | rfl <;> decide
  have hce : (c == 101 || c == 69) = false := by rcases hc with rfl | rfl <;> decide
  by_cases hn : n = 0
  · subst hn
    rw [decDigits_zero]
    rcases hc with rfl | rfl <;> rfl
  · obtain ⟨d, ds, e, hd48⟩ := decDigits_head_ne_zero n hn
    rw [e] at hall ⊢
    have hdig : jsonIsDigit d = true := by simp only [List.all_cons, Bool.and_eq_true] at hall; exact hall.1
    have hd45 : d ≠ 45 := by intro h; rw [h] at hdig; revert hdig; decide
    obtain ⟨t1, t2⟩ := takeWhile_digits (d :: ds) c rest hall hcd
    have hd48' : (d == 48) = false := by simpa using hd48
    have hd45' : (d == 45) = false := by simpa using hd45
    have hc46' : (c == 46) = false := by simpa using hc46
    have t1' : List.takeWhile jsonIsDigit (d :: (ds ++ c :: rest)) = d :: ds := t1
    have t2' : List.dropWhile jsonIsDigit (d :: (ds ++ c :: rest)) = c :: rest := t2
    unfold jsonScanNumber
    simp only [List.cons_append, hd45', Bool.false_eq_true, if_false, hdig, not_true_eq_false, hd48', t1', t2', hc46', hce]
    simp

theorem skipWs_nonws (c : UInt8) (cs : Str) (h : isWs c = false) : jsonSkipWs (c :: cs) = c :: cs := by
  simp [jsonSkipWs, h]

/-- a simple value followed by `,` or `}` parses to itself -/
theorem parseValue_simple (v : J) (hv : SimpleV v) (c : UInt8) (rest : Str) (hc : c = 44 ∨ c = 125) (fuel : Nat) :
    parseValue (fuel + 1) (renderVal v ++ c :: rest) = some (v, c :: rest) := by
  cases hv with
  | tt =>
    show parseValue (fuel + 1) (strOf "true" ++ c :: rest) = _
    have : strOf "true" ++ c :: rest = 116 :: 114 :: 117 :: 101 :: c :: rest := rfl
    rw [this, parseValue, skipWs_nonws _ _ (by decide)]
    simp [lit, ch]
  | str t ht =>
    show parseValue (fuel + 1) (strOf "\"" ++ t ++ strOf "\"" ++ c :: rest) = _
    have : strOf "\"" ++ t ++ strOf "\"" ++ c :: rest = 34 :: (t ++ 34 :: c :: rest) := by
      simp [strOf, ch]
    rw [this, parseValue, skipWs_nonws _ _ (by decide)]
    have e : ((34 : UInt8) == 110) = false ∧ ((34 : UInt8) == 116) = false ∧ ((34 : UInt8) == 102) = false := by decide
    simp only [e.1, e.2.1, e.2.2, Bool.false_eq_true, if_false, beq_self_eq_true, if_true]
    rw [scanString_plain t (c :: rest) ht _ [] (by simp; try omega)]
    simp
  | num n =>
    show parseValue (fuel + 1) (decDigits n ++ c :: rest) = _
    obtain ⟨hall, _, hne⟩ := decDigits_spec n
    cases hds : decDigits n with
    | nil => exact absurd hds hne
    | cons d ds =>
      have hdig : jsonIsDigit d = true := by
        rw [hds] at hall; simp only [List.all_cons, Bool.and_eq_true] at hall; exact hall.1
      have hnum := scanNumber_dec n c rest hc
      rw [hds] at hnum
      have hdn : d.toNat ≥ 48 ∧ d.toNat ≤ 57 := by
        unfold jsonIsDigit at hdig; simp only [Bool.and_eq_true, decide_eq_true_eq] at hdig; exact hdig
      have hws : isWs d = false := by
        unfold isWs
        have : d ≠ 32 ∧ d ≠ 9 ∧ d ≠ 10 ∧ d ≠ 13 := by
          refine ⟨?_, ?_, ?_, ?_⟩ <;> (intro h; rw [h] at hdn; simp at hdn)
        simp [this]
      have hne' : d ≠ 110 ∧ d ≠ 116 ∧ d ≠ 102 ∧ d ≠ 34 ∧ d ≠ 91 ∧ d ≠ 123 := by
        refine ⟨?_, ?_, ?_, ?_, ?_, ?_⟩ <;> (intro h; rw [h] at hdn; simp at hdn)
      rw [List.cons_append, parseValue, skipWs_nonws _ _ hws]
      simp only [beq_iff_eq, hne'.1, hne'.2.1, hne'.2.2.1, hne'.2.2.2.1, hne'.2.2.2.2.1, hne'.2.2.2.2.2, if_false]
      rw [List.cons_append] at hnum
      rw [hnum]; rfl

/-- key/value pairs of a simple object -/
def SimpleM (kv : String × J) : Prop := Plain (strOf kv.1) ∧ SimpleV kv.2

theorem renderMember_eq (kv : String × J) (rest : Str) :
    renderMember kv ++ rest = 34 :: (strOf kv.1 ++ 34 :: 58 :: (renderVal kv.2 ++ rest)) := by
  simp [renderMember, strOf, ch, List.append_assoc]

/-- the members written with `,` separators and a closing `}` parse back in order -/
theorem parseMembers_simple : ∀ (ms : List (String × J)) (hne : ms ≠ []) (hs : ∀ kv ∈ ms, SimpleM kv)
    (rest : Str) (acc : List (Str × J)) (fuel : Nat), ms.length + 1 ≤ fuel →
    parseMembers fuel (joinComma (ms.map renderMember) ++ 125 :: rest) acc =
      some (acc.reverse ++ ms.map (fun kv => (strOf kv.1, kv.2)), rest) := by
  intro ms
  induction ms with
  | nil => intro h; exact absurd rfl h
  | cons kv ms ih =>
    intro _ hs rest acc fuel hf
    obtain ⟨hk, hv⟩ := hs kv (List.mem_cons_self ..)
    cases fuel with
    | zero => omega
    | succ f =>
      cases f with
      | zero => simp at hf
      | succ g =>
        cases ms with
        | nil =>
          -- last member: followed by `}`
          simp only [List.map_cons, List.map_nil, joinComma]
          rw [renderMember_eq, parseMembers, skipWs_nonws _ _ (by decide)]
          simp only
          rw [scanString_plain (strOf kv.1) _ hk _ [] (by simp; try omega)]
          simp only [List.reverse_nil, List.nil_append]
          rw [skipWs_nonws _ _ (by decide)]
          simp only
          rw [parseValue_simple kv.2 hv 125 rest (Or.inr rfl) g]
          simp only
          rw [skipWs_nonws _ _ (by decide)]
          simp
        | cons kv2 ms2 =>
          simp only [List.map_cons, joinComma]
          have e : renderMember kv ++ strOf "," ++ joinComma (renderMember kv2 :: List.map renderMember ms2) ++ 125 :: rest =
              renderMember kv ++ (44 :: (joinComma (List.map renderMember (kv2 :: ms2)) ++ 125 :: rest)) := by
            simp [strOf, ch, List.append_assoc]
          rw [e, renderMember_eq, parseMembers, skipWs_nonws _ _ (by decide)]
          simp only
          rw [scanString_plain (strOf kv.1) _ hk _ [] (by simp; try omega)]
          simp only [List.reverse_nil, List.nil_append]
          rw [skipWs_nonws _ _ (by decide)]
          simp only
          rw [parseValue_simple kv.2 hv 44 _ (Or.inl rfl) g]
          simp only
          rw [skipWs_nonws _ _ (by decide)]
          simp only
          rw [ih (by simp) (fun x hx => hs x (List.mem_cons_of_mem _ hx)) rest ((strOf kv.1, kv.2) :: acc) (g + 1)
            (by simp at hf ⊢; omega)]
          simp

theorem joinComma_length (xs : List Str) (h : ∀ x ∈ xs, 1 ≤ x.length) : xs.length ≤ (joinComma xs).length + 0 := by
  induction xs with
  | nil => simp [joinComma]
  | cons a r ih =>
    cases r with
    | nil => simp [joinComma]; exact h a (List.mem_cons_self ..)
    | cons b r' =>
      have := ih (fun x hx => h x (List.mem_cons_of_mem _ hx))
      have ha := h a (List.mem_cons_self ..)
      simp only [joinComma, List.length_append, List.length_cons] at this ⊢
      omega

/-- The scanner model reads a simple object back as the tree it was written from. -/
theorem parseJson_renderObj (ms : List (String × J)) (hne : ms ≠ []) (hs : ∀ kv ∈ ms, SimpleM kv) :
    parseJson (renderObj ms) = some (J.obj (ms.map fun kv => (strOf kv.1, kv.2))) := by
  have hlen : ms.length ≤ (joinComma (ms.map renderMember)).length := by
    have := joinComma_length (ms.map renderMember) (by
      intro x hx
      simp only [List.mem_map] at hx
      obtain ⟨kv, _, rfl⟩ := hx
      simp [renderMember, strOf])
    simpa using this
  have e : renderObj ms = 123 :: (joinComma (ms.map renderMember) ++ 125 :: []) := by
    simp [renderObj, strOf, ch]
  unfold parseJson
  rw [e]
  have hx : ∃ xs, joinComma (ms.map renderMember) ++ [125] = 34 :: xs := by
    cases ms with
    | nil => exact absurd rfl hne
    | cons kv r =>
      cases r with
      | nil => exact ⟨_, by simp only [List.map_cons, List.map_nil, joinComma]; exact renderMember_eq kv [125]⟩
      | cons kv2 r2 =>
        have e2 : joinComma (List.map renderMember (kv :: kv2 :: r2)) ++ [125] =
            renderMember kv ++ (strOf "," ++ (joinComma (List.map renderMember (kv2 :: r2)) ++ [125])) := by
          simp only [List.map_cons, joinComma, List.append_assoc]
        rw [e2, renderMember_eq]
        exact ⟨_, rfl⟩
  obtain ⟨xs, hx⟩ := hx
  have hpm := parseMembers_simple ms hne hs [] []
    ((123 :: (joinComma (ms.map renderMember) ++ [125])).length + 1) (by simp; try omega)
  rw [parseValue, skipWs_nonws _ _ (by decide)]
  have c1 : ((123 : UInt8) == 110) = false ∧ ((123 : UInt8) == 116) = false ∧ ((123 : UInt8) == 102) = false ∧
      ((123 : UInt8) == 34) = false ∧ ((123 : UInt8) == 91) = false := by decide
  simp only [c1.1, c1.2.1, c1.2.2.1, c1.2.2.2.1, c1.2.2.2.2, Bool.false_eq_true, if_false, beq_self_eq_true, if_true]
  rw [hx, skipWs_nonws _ _ (by decide)]
  split
  · next v r heq =>
    split at heq
    · next r' h' => exact absurd (List.cons.inj h').1 (by decide)
    · rw [← hx, hpm] at heq
      simp only [List.reverse_nil, List.nil_append, Option.map_some, Option.some.injEq, Prod.mk.injEq] at heq
      obtain ⟨h1, h2⟩ := heq
      subst h1; subst h2
      simp [jsonSkipWs]
  · next heq =>
    split at heq
    · cases heq
    · rw [← hx, hpm] at heq
      simp at heq

end CanVerif
