import CanVerif.Lemmas.ParseProgress
/-! The fuel of `parseDbc` (source length + 2) is never exhausted. -/
open Std.Do
namespace CanVerif

theorem decodeAll_length (fuel : Nat) (bs : List UInt8) : (decodeAll fuel bs).length ≤ fuel := by
  induction fuel generalizing bs with
  | zero => simp [decodeAll]
  | succ n ih =>
    cases bs with
    | nil => simp [decodeAll]
    | cons b t =>
      unfold decodeAll
      simp only [List.length_cons]
      exact Nat.succ_le_succ (ih _)

/-- the decoder's bound (one step per byte) is never the reason it stops: any larger bound gives the same characters -/
theorem decodeAll_fuel (f1 f2 : Nat) (bs : List UInt8) (h1 : bs.length ≤ f1) (h2 : bs.length ≤ f2) :
    decodeAll f1 bs = decodeAll f2 bs := by
  induction f1 generalizing f2 bs with
  | zero =>
    have : bs = [] := List.eq_nil_of_length_eq_zero (by omega)
    subst this
    cases f2 <;> simp [decodeAll]
  | succ n ih =>
    cases bs with
    | nil => cases f2 <;> simp [decodeAll]
    | cons b t =>
      obtain ⟨m, rfl⟩ : ∃ m, f2 = m + 1 := ⟨f2 - 1, by simp only [List.length_cons] at h2; omega⟩
      unfold decodeAll
      simp only [List.length_cons] at h1 h2
      have hl : ((b :: t).drop (max (decodeRune (b :: t)).w 1)).length ≤ t.length := by
        simp only [List.length_drop, List.length_cons]; omega
      show decodeRune (b :: t) :: decodeAll n _ = decodeRune (b :: t) :: decodeAll m _
      rw [ih m ((b :: t).drop (max (decodeRune (b :: t)).w 1)) (by omega) (by omega)]

theorem μ_init (data : List UInt8) : μ { sc := Sc.init data } ≤ data.length + 1 := by
  have := decodeAll_length data.length data
  simp only [μ, μS, ν, Sc.init]
  simp
  omega

/-- one iteration of the definition loop: never out of fuel, and a parsed definition consumed input -/
theorem parseStep_progress (defFuel : Nat) (defs : Array Def) (st : PS) (hf : μ st < defFuel) :
    parseStep defFuel defs st ≠ .error .fuel ∧
    ∀ d st', parseStep defFuel defs st = .ok (some (d, st')) → μ st' < μ st := by
  have p := run_of_triple _ _ _ _ (peekToken_spec (μ st) st.hasLA st.la) st ⟨rfl, rfl, rfl⟩
  unfold parseStep
  cases h1 : peekToken.run st with
  | error e =>
    have := p.2 e h1
    exact ⟨fun h => (by cases h; exact this rfl), fun d st' h => (by cases h)⟩
  | ok r =>
    obtain ⟨t, st1⟩ := r
    have q := p.1 t st1 h1
    simp only [bnd_eq] at q
    simp only
    split
    · exact ⟨fun h => (by cases h), fun d st' h => (by cases h)⟩
    · have hf1 : μ st1 < defFuel := Nat.lt_of_le_of_lt q.1 hf
      have pd := run_of_triple _ _ _ _ (parseDef_spec defs defFuel (μ st1) hf1) st1 rfl
      cases h2 : (parseDef defs defFuel).run st1 with
      | error e =>
        have := pd.2 e h2
        exact ⟨fun h => (by cases h; exact this rfl), fun d st' h => (by cases h)⟩
      | ok r2 =>
        obtain ⟨d, st2⟩ := r2
        have := pd.1 d st2 h2
        simp only [bnd_eq] at this
        refine ⟨fun h => (by cases h), fun d' st' h => ?_⟩
        cases h
        omega

/-- the definition loop terminates within `μ + 1` iterations -/
theorem parseAll_noFuel (defFuel fuel : Nat) (defs : Array Def) (st : PS)
    (hd : μ st < defFuel) (hf : μ st < fuel) : parseAll defFuel fuel defs st ≠ .outOfFuel := by
  induction fuel generalizing defs st with
  | zero => omega
  | succ k ih =>
    obtain ⟨a, b⟩ := parseStep_progress defFuel defs st hd
    unfold parseAll
    cases h : parseStep defFuel defs st with
    | error e =>
      cases e with
      | parse p r => simp
      | panic s => simp
      | fuel => exact absurd h a
    | ok o =>
      cases o with
      | none => simp
      | some p =>
        obtain ⟨d, st'⟩ := p
        have lt := b d st' h
        simp only
        exact ih _ _ (by omega) (by omega)

theorem parseDbc_noFuel (data : List UInt8) : parseDbc data ≠ .outOfFuel := by
  unfold parseDbc
  have := μ_init data
  exact parseAll_noFuel _ _ _ _ (by omega) (by omega)

end CanVerif
