import CanVerif.Lemmas.ParseInv
/-! The panic outcome of `parseDbc` is unreachable, and parse errors are positioned at or after the first token of the
definition during which they are raised. -/
open Std.Do
namespace CanVerif

/-- with a look-ahead token in place, the bound `lb` is the start of that token -/
theorem lb_of_la (st : PS) (hi : PSInv st) (hl : st.hasLA = true) : lb st = st.la.pos.offset := by
  unfold lb
  have := (hi.2 hl).2
  simp only [hl, if_true]
  omega

theorem parseStep_inv (defFuel : Nat) (defs : Array Def) (st : PS) (n : Nat) (hi : PSInv st) (hn : n ≤ lb st) :
    (∀ s, parseStep defFuel defs st ≠ .error (.panic s)) ∧
    (∀ p r, parseStep defFuel defs st = .error (.parse p r) → n ≤ p.offset) ∧
    (∀ d st', parseStep defFuel defs st = .ok (some (d, st')) → PSInv st' ∧ n ≤ lb st' ∧ n ≤ d.pos.offset) ∧
    (∀ t st1 p r, peekToken.run st = .ok (t, st1) → parseStep defFuel defs st = .error (.parse p r) →
      t.pos.offset ≤ p.offset) := by
  have p := run_of_triple _ _ _ _ (peekToken_ispec n) st ⟨hi, hn⟩
  unfold parseStep
  cases h1 : peekToken.run st with
  | error e =>
    have := p.2 e h1
    exact ⟨fun s h => (by cases h; exact this.1 s rfl), fun p r h => (by cases h; exact this.2 p r rfl),
      fun d st' h => (by cases h), fun t st1 p r h => (by cases h)⟩
  | ok r =>
    obtain ⟨t, st1⟩ := r
    have q := p.1 t st1 h1
    -- peekToken leaves the token as look-ahead
    have hla : st1.hasLA = true ∧ st1.la = t := q.2.2.2.2
    simp only
    split
    · exact ⟨fun s h => (by cases h), fun p r h => (by cases h), fun d st' h => (by cases h),
        fun t' st1' p r _ h => (by cases h)⟩
    · have hlb : lb st1 = t.pos.offset := by rw [lb_of_la st1 q.1 hla.1, hla.2]
      have pd := run_of_triple _ _ _ _ (parseDef_ispec defs defFuel n) st1 ⟨q.1, q.2.1⟩
      have pd2 := run_of_triple _ _ _ _ (parseDef_ispec defs defFuel t.pos.offset) st1 ⟨q.1, by omega⟩
      cases h2 : (parseDef defs defFuel).run st1 with
      | error e =>
        have e1 := pd.2 e h2
        have e2 := pd2.2 e h2
        refine ⟨fun s h => (by cases h; exact e1.1 s rfl), fun p r h => (by cases h; exact e1.2 p r rfl),
          fun d st' h => (by cases h), fun t' st1' p r ht h => ?_⟩
        cases ht; cases h
        exact e2.2 p r rfl
      | ok r2 =>
        obtain ⟨d, st2⟩ := r2
        have := pd.1 d st2 h2
        refine ⟨fun s h => (by cases h), fun p r h => (by cases h), fun d' st' h => ?_, fun t' st1' p r _ h => (by cases h)⟩
        cases h
        exact this

theorem parseAll_noPanic (defFuel fuel : Nat) (defs : Array Def) (st : PS) (hi : PSInv st) (s : String) :
    parseAll defFuel fuel defs st ≠ .panic s := by
  induction fuel generalizing defs st with
  | zero => simp [parseAll]
  | succ k ih =>
    obtain ⟨a, _, b, _⟩ := parseStep_inv defFuel defs st 0 hi (Nat.zero_le _)
    unfold parseAll
    cases h : parseStep defFuel defs st with
    | error e =>
      cases e with
      | parse p r => simp
      | panic s' => exact absurd h (a s')
      | fuel => simp
    | ok o =>
      cases o with
      | none => simp
      | some p =>
        obtain ⟨d, st'⟩ := p
        simp only
        exact ih _ _ (b d st' h).1

theorem parseDbc_noPanic (data : List UInt8) (s : String) : parseDbc data ≠ .panic s := by
  unfold parseDbc
  exact parseAll_noPanic _ _ _ _ ⟨StInv_init data, fun h => (by cases h)⟩ s

/-- the state in which the definition loop fails: reached from `st` by successful steps -/
inductive StepsTo (defFuel : Nat) : Array Def → PS → Array Def → PS → Prop
  | refl (defs st) : StepsTo defFuel defs st defs st
  | step (defs st d st' defs2 st2) : parseStep defFuel defs st = .ok (some (d, st')) →
      StepsTo defFuel (defs.push d) st' defs2 st2 → StepsTo defFuel defs st defs2 st2

theorem stepsTo_inv (defFuel : Nat) (defs defs2 : Array Def) (st st2 : PS) (h : StepsTo defFuel defs st defs2 st2)
    (hi : PSInv st) : PSInv st2 := by
  induction h with
  | refl => exact hi
  | step defs st d st' defs2 st2 hs _ ih => exact ih ((parseStep_inv defFuel defs st 0 hi (Nat.zero_le _)).2.2.1 d st' hs).1

/-- a failing `parseAll` fails in one particular step, after successful ones; the definitions it reports are the ones
accepted by those -/
theorem parseAll_error_step (defFuel fuel : Nat) (defs : Array Def) (st : PS) (p : Pos) (r : String) (ds : List Def)
    (h : parseAll defFuel fuel defs st = .error p r ds) :
    ∃ defs2 st2, StepsTo defFuel defs st defs2 st2 ∧ parseStep defFuel defs2 st2 = .error (.parse p r) ∧
      ds = defs2.toList := by
  induction fuel generalizing defs st with
  | zero => simp [parseAll] at h
  | succ k ih =>
    unfold parseAll at h
    cases hs : parseStep defFuel defs st with
    | error e =>
      rw [hs] at h
      cases e with
      | parse p' r' =>
        simp only [ParseResult.error.injEq] at h
        obtain ⟨rfl, rfl, rfl⟩ := h
        exact ⟨defs, st, .refl _ _, hs, rfl⟩
      | panic s => simp at h
      | fuel => simp at h
    | ok o =>
      rw [hs] at h
      cases o with
      | none => simp at h
      | some q =>
        obtain ⟨d, st'⟩ := q
        simp only at h
        obtain ⟨defs2, st2, a, b, c⟩ := ih _ _ h
        exact ⟨defs2, st2, .step _ _ _ _ _ _ hs a, b, c⟩

end CanVerif
