import CanVerif.Lemmas.ParseInv
/-! The panic outcome of `parseDbc` is unreachable. -/
open Std.Do
namespace CanVerif

theorem parseStep_inv (defFuel : Nat) (defs : Array Def) (st : PS) (hi : PSInv st) :
    (∀ s, parseStep defFuel defs st ≠ .error (.panic s)) ∧
    ∀ d st', parseStep defFuel defs st = .ok (some (d, st')) → PSInv st' := by
  have p := run_of_triple _ _ _ _ peekToken_ispec st hi
  unfold parseStep
  cases h1 : peekToken.run st with
  | error e =>
    have := p.2 e h1
    exact ⟨fun s h => (by cases h; exact this s rfl), fun d st' h => (by cases h)⟩
  | ok r =>
    obtain ⟨t, st1⟩ := r
    have q := p.1 t st1 h1
    simp only
    split
    · exact ⟨fun s h => (by cases h), fun d st' h => (by cases h)⟩
    · have pd := run_of_triple _ _ _ _ (parseDef_ispec defs defFuel) st1 q.1
      cases h2 : (parseDef defs defFuel).run st1 with
      | error e =>
        have := pd.2 e h2
        exact ⟨fun s h => (by cases h; exact this s rfl), fun d st' h => (by cases h)⟩
      | ok r2 =>
        obtain ⟨d, st2⟩ := r2
        have := pd.1 d st2 h2
        refine ⟨fun s h => (by cases h), fun d' st' h => ?_⟩
        cases h
        exact this

theorem parseAll_noPanic (defFuel fuel : Nat) (defs : Array Def) (st : PS) (hi : PSInv st) (s : String) :
    parseAll defFuel fuel defs st ≠ .panic s := by
  induction fuel generalizing defs st with
  | zero => simp [parseAll]
  | succ k ih =>
    obtain ⟨a, b⟩ := parseStep_inv defFuel defs st hi
    unfold parseAll
    cases h : parseStep defFuel defs st with
    | error e =>
      cases e with
      | parse p r => simp
      | panic s' => exact absurd h (a s')
      | fuel => simp
    | ok o =>
      cases o with
      | none => simp
      | some p =>
        obtain ⟨d, st'⟩ := p
        simp only
        exact ih _ _ (b d st' h)

theorem parseDbc_noPanic (data : List UInt8) (s : String) : parseDbc data ≠ .panic s := by
  unfold parseDbc
  exact parseAll_noPanic _ _ _ _ ⟨StInv_init data, fun h => (by cases h)⟩ s

end CanVerif
