import CanVerif.Model.DbcParse
import CanVerif.Lemmas.ScanInv
import Lean.Elab.Tactic
/-! The parser model never reaches its panic site: the scanner invariant (offsets inside the source, identifier tokens
non-empty) is kept by every parser operation, and the look-ahead token is always well formed. -/
open Std.Do
namespace CanVerif

theorem decodeRune_spec (bs : List UInt8) :
    ((decodeRune bs).bad = true → (decodeRune bs).w ≤ 1) ∧
    ((decodeRune bs).bad = false → 1 ≤ (decodeRune bs).w ∧ (decodeRune bs).w ≤ bs.length) := by
  unfold decodeRune
  cases bs with
  | nil => simp
  | cons b0 t =>
    simp only [List.length_cons]
    split
    · simp
    split
    · simp
    split
    · cases t with
      | nil => simp
      | cons b1 t1 => simp only [List.length_cons]; split <;> simp
    split
    · cases t with
      | nil => simp
      | cons b1 t1 =>
        cases t1 with
        | nil => simp
        | cons b2 t2 => simp only [List.length_cons]; (repeat' split) <;> simp
    split
    · cases t with
      | nil => simp
      | cons b1 t1 =>
        cases t1 with
        | nil => simp
        | cons b2 t2 =>
          cases t2 with
          | nil => simp
          | cons b3 t3 => simp only [List.length_cons]; (repeat' split) <;> simp
    · simp

theorem W_decodeAll (fuel : Nat) (bs : List UInt8) : W (decodeAll fuel bs) ≤ bs.length ∧ WF (decodeAll fuel bs) := by
  induction fuel generalizing bs with
  | zero => exact ⟨by simp [decodeAll, W], fun x hx => by simp [decodeAll] at hx⟩
  | succ n ih =>
    cases bs with
    | nil => exact ⟨by simp [decodeAll, W], fun x hx => by simp [decodeAll] at hx⟩
    | cons b t =>
      unfold decodeAll
      obtain ⟨h1, h2⟩ := decodeRune_spec (b :: t)
      obtain ⟨i1, i2⟩ := ih ((b :: t).drop (max (decodeRune (b :: t)).w 1))
      simp only [List.length_drop, List.length_cons] at i1 h2
      refine ⟨?_, ?_⟩
      · simp only [W, List.length_cons]
        cases hb : (decodeRune (b :: t)).bad
        · have := h2 hb
          simp only [Bool.false_eq_true, if_false]
          omega
        · have := h1 hb
          simp only [if_true]
          omega
      · intro x hx
        simp only [List.mem_cons] at hx
        rcases hx with rfl | hx
        · intro hb; exact (h2 hb).1
        · exact i2 x hx

theorem StInv_init (data : List UInt8) : StInv (Sc.init data) := by
  obtain ⟨a, b⟩ := W_decodeAll data.length data
  left
  refine ⟨rfl, ?_, Nat.le_refl _, b⟩
  simp only [Sc.init, List.size_toArray]
  omega

/-- the parser state invariant: scanner invariant, well-formed look-ahead token -/
def PSInv (st : PS) : Prop := StInv st.sc ∧ (st.hasLA = true → TokOk st.la ∧ st.la.pos.offset ≤ E st.sc)
abbrev noPanic : PErr → Prop := fun e => ∀ s, e ≠ .panic s

/-- lower bound of every position the parser can still produce: the start of the scanner's look-ahead character, or the
look-ahead token if it starts earlier -/
def lb (st : PS) : Nat := if st.hasLA then min (E st.sc) st.la.pos.offset else E st.sc

/-- an error is not a panic, and a parse error is positioned at or after `b` -/
def ErrOk (b : Nat) (e : PErr) : Prop := noPanic e ∧ ∀ p r, e = .parse p r → b ≤ p.offset

theorem liftSc_run' {α : Type} (f : Sc → Except ScanErr (α × Sc)) (st : PS) :
    (liftSc f).run st = match f st.sc with
      | .ok (a, sc') => .ok (a, { st with sc := sc' })
      | .error e => .error (if e.fuel then .fuel else .parse e.pos e.msg) := by
  unfold liftSc
  simp only [StateT.run, bind, StateT.bind, get, getThe, MonadStateOf.get, StateT.get, Except.bind, pure, Except.pure]
  cases f st.sc with
  | ok p => obtain ⟨a, sc'⟩ := p; rfl
  | error e => cases hf : e.fuel <;> simp [hf] <;> rfl

theorem lb_le_E (st : PS) : lb st ≤ E st.sc := by unfold lb; split <;> omega

/-- lifting a scanner step: invariant kept, positions only move forward, errors positioned at or after the bound -/
theorem liftSc_core {α : Type} (f : Sc → Except ScanErr (α × Sc)) (Q : α → Sc → Prop) (n : Nat) (st : PS)
    (h : PSInv st) (hn : n ≤ lb st)
    (hok : ∀ r, f st.sc = .ok r → StInv r.2 ∧ E st.sc ≤ E r.2 ∧ (E st.sc ≤ n → False ∨ True) ∧ Q r.1 r.2)
    (herr : ∀ e, f st.sc = .error e → E st.sc ≤ e.pos.offset) :
    match (liftSc f).run st with
    | .ok (a, st') => PSInv st' ∧ n ≤ lb st' ∧ Q a st'.sc
    | .error e => ErrOk n e := by
  rw [liftSc_run']
  have hle := lb_le_E st
  cases hs : f st.sc with
  | error e =>
    have := herr e hs
    refine ⟨fun s => by cases e.fuel <;> simp, fun p r hp => ?_⟩
    cases hfu : e.fuel <;> simp [hfu] at hp
    obtain ⟨rfl, _⟩ := hp
    omega
  | ok p =>
    obtain ⟨a, sc'⟩ := p
    have := hok _ hs
    have h2 := this.2.1
    refine ⟨⟨this.1, fun hl => ⟨(h.2 hl).1, Nat.le_trans (h.2 hl).2 h2⟩⟩, ?_, this.2.2.2⟩
    simp only at h2
    unfold lb at hn ⊢
    simp only
    split at hn <;> simp_all <;> omega

@[spec] theorem liftScan_ispec (n : Nat) :
    ⦃fun st => ⌜PSInv st ∧ n ≤ lb st⌝⦄ liftSc Sc.scan
    ⦃post⟨fun r st' => ⌜PSInv st' ∧ n ≤ lb st' ∧ TokOk r ∧ n ≤ r.pos.offset ∧ r.pos.offset ≤ E st'.sc⌝, fun e => ⌜ErrOk (n) e⌝⟩⦄ := by
  apply triple_of_st
  intro st ⟨h, hn⟩
  have sp := scan_ispec st.sc h.1
  have hle := lb_le_E st
  have := liftSc_core Sc.scan (fun t sc' => TokOk t ∧ n ≤ t.pos.offset ∧ t.pos.offset ≤ E sc') n st h hn
    (fun r hr => by
      have := exc_ok_of_triple _ _ _ sp _ hr
      exact ⟨this.1, this.2.2.2.2.1, fun _ => Or.inr trivial, this.2.2.1, by omega, this.2.2.2.2.2⟩)
    (fun e he => exc_err_of_triple _ _ _ sp _ he)
  revert this
  cases (liftSc Sc.scan).run st with
  | ok p => obtain ⟨a, st'⟩ := p; exact fun h => ⟨h.1, h.2.1, h.2.2.1, h.2.2.2.1, h.2.2.2.2⟩
  | error e => exact id

@[spec] theorem liftNextRune_ispec (n : Nat) :
    ⦃fun st => ⌜PSInv st ∧ n ≤ lb st⌝⦄ liftSc Sc.nextRune
    ⦃post⟨fun _ st' => ⌜PSInv st' ∧ n ≤ lb st'⌝, fun e => ⌜ErrOk (n) e⌝⟩⦄ := by
  apply triple_of_st
  intro st ⟨h, hn⟩
  have sp := nextRune_ispec st.sc h.1
  have := liftSc_core Sc.nextRune (fun _ _ => True) n st h hn
    (fun r hr => by
      have := exc_ok_of_triple _ _ _ sp _ hr
      exact ⟨this.1, this.2.2, fun _ => Or.inr trivial, trivial⟩)
    (fun e he => exc_err_of_triple _ _ _ sp _ he)
  revert this
  cases (liftSc Sc.nextRune).run st with
  | ok p => obtain ⟨a, st'⟩ := p; exact fun h => ⟨h.1, h.2.1⟩
  | error e => exact id

@[spec] theorem liftPeek_ispec (n : Nat) :
    ⦃fun st => ⌜PSInv st ∧ n ≤ lb st⌝⦄ liftSc Sc.peek
    ⦃post⟨fun _ st' => ⌜PSInv st' ∧ n ≤ lb st'⌝, fun e => ⌜ErrOk (n) e⌝⟩⦄ := by
  apply triple_of_st
  intro st ⟨h, hn⟩
  have sp := peek_ispec st.sc h.1
  have := liftSc_core Sc.peek (fun _ _ => True) n st h hn
    (fun r hr => by
      have := exc_ok_of_triple _ _ _ sp _ hr
      have e : r.2.ch = r.1 := this.2.1
      exact ⟨Or.inr (by rw [e]; exact this.1), this.2.2.2, fun _ => Or.inr trivial, trivial⟩)
    (fun e he => exc_err_of_triple _ _ _ sp _ he)
  revert this
  cases (liftSc Sc.peek).run st with
  | ok p => obtain ⟨a, st'⟩ := p; exact fun h => ⟨h.1, h.2.1⟩
  | error e => exact id

/-- `failf`: the error it raises, exactly -/
@[spec] theorem failf_ispec {α : Type} (pos : Pos) (r : String) :
    ⦃⌜True⌝⦄ (failf pos r : P α) ⦃post⟨fun _ _ => ⌜False⌝, fun e => ⌜e = .parse pos r⌝⟩⦄ := by
  apply triple_of_st
  intro s _
  rfl

/-- the panic site needs a contradiction -/
@[spec] theorem panicAt_ispec {α : Type} (site : String) :
    ⦃⌜False⌝⦄ (panicAt site : P α) ⦃post⟨fun _ _ => ⌜False⌝, fun e => ⌜False⌝⟩⦄ := by
  apply triple_of_st
  intro s h
  exact absurd h id

theorem outOfFuel_ispec {α : Type} (x : P α) (h : x = throw .fuel) (n : Nat) :
    ⦃fun st => ⌜PSInv st ∧ n ≤ lb st⌝⦄ x ⦃post⟨fun _ st' => ⌜PSInv st' ∧ n ≤ lb st'⌝, fun e => ⌜ErrOk (n) e⌝⟩⦄ := by
  subst h
  apply triple_of_st
  intro s _
  show ErrOk (n) .fuel
  exact ⟨fun s => by simp, fun p r h => by cases h⟩

theorem StInv_ws {s : Sc} (h : StInv s) (w : Nat) : StInv { s with ws := w } := by
  rcases h with ⟨a, b, c, d⟩ | h
  · exact Or.inl ⟨a, b, c, d⟩
  · exact Or.inr ⟨h.size, h.last, h.look, h.ge, h.wf⟩
@[simp] theorem E_ws (s : Sc) (w : Nat) : E { s with ws := w } = E s := rfl

/-- ghost bounds of the specifications applied inside a proof are the `lb` of the state at the call: the generator
leaves each as a goal `(s : PS) → … → Nat`; it is assigned `fun s _ => lb s` -/
elab "assign_ghosts" : tactic => do
  let gs ← Lean.Elab.Tactic.getGoals
  let mut rest : Array Lean.MVarId := #[]
  for g in gs do
    if ← g.isAssigned then continue
    let t ← Lean.instantiateMVars (← g.getType)
    let isP ← g.withContext (Lean.Meta.isProp t)
    if isP then
      rest := rest.push g
    else
      try
        let (fvs, g') ← g.intros
        let ok ← g'.withContext do
          let mut found : Option Lean.FVarId := none
          for f in fvs do
            let ty ← Lean.instantiateMVars (← f.getType)
            if ty.isConstOf ``PS then found := some f
          match found with
          | some f => g'.assign (Lean.mkApp (Lean.mkConst ``lb) (Lean.mkFVar f)); pure true
          | none => pure false
        if !ok then rest := rest.push g
      catch _ => rest := rest.push g
  Lean.Elab.Tactic.setGoals rest.toList

macro "close_pinv" : tactic => `(tactic| (all_goals first
  | grind
  | ((try simp only [PSInv, noPanic, ErrOk, TokOk, tokIdent, bnd_eq, lb, E_ws, Def.pos, bne_iff_ne, beq_iff_eq, ne_eq, Decidable.not_not,
      List.isEmpty_iff] at *); grind [StInv_ws])
  | ((try simp only [PSInv, noPanic, ErrOk, TokOk, tokIdent, bnd_eq, lb, E, bne_iff_ne, beq_iff_eq, ne_eq, Decidable.not_not,
      List.isEmpty_iff] at *); grind [StInv_ws])))

attribute [local irreducible] bs

@[spec] theorem useWs_ispec (w : Nat) (n : Nat) :
    ⦃fun st => ⌜PSInv st ∧ n ≤ lb st⌝⦄ useWhitespace w
    ⦃post⟨fun _ st' => ⌜PSInv st' ∧ n ≤ lb st'⌝, fun e => ⌜ErrOk (n) e⌝⟩⦄ := by
  mvcgen [useWhitespace]
  close_pinv

@[spec] theorem nextToken_ispec (n : Nat) :
    ⦃fun st => ⌜PSInv st ∧ n ≤ lb st⌝⦄ nextToken
    ⦃post⟨fun r st' => ⌜PSInv st' ∧ n ≤ lb st' ∧ TokOk r ∧ n ≤ r.pos.offset⌝, fun e => ⌜ErrOk (n) e⌝⟩⦄ := by
  mvcgen [nextToken]
  close_pinv

@[spec] theorem peekToken_ispec (n : Nat) :
    ⦃fun st => ⌜PSInv st ∧ n ≤ lb st⌝⦄ peekToken
    ⦃post⟨fun r st' => ⌜PSInv st' ∧ n ≤ lb st' ∧ TokOk r ∧ n ≤ r.pos.offset ∧ st'.hasLA = true ∧ st'.la = r⌝, fun e => ⌜ErrOk (n) e⌝⟩⦄ := by
  mvcgen [peekToken]
  close_pinv

@[spec] theorem pNextRune_ispec (n : Nat) :
    ⦃fun st => ⌜PSInv st ∧ n ≤ lb st⌝⦄ nextRune
    ⦃post⟨fun r st' => ⌜PSInv st' ∧ n ≤ lb st'⌝, fun e => ⌜ErrOk (n) e⌝⟩⦄ := by
  mvcgen [nextRune]
  close_pinv

@[spec] theorem pPeekRune_ispec (n : Nat) :
    ⦃fun st => ⌜PSInv st ∧ n ≤ lb st⌝⦄ peekRune
    ⦃post⟨fun r st' => ⌜PSInv st' ∧ n ≤ lb st'⌝, fun e => ⌜ErrOk (n) e⌝⟩⦄ := by
  mvcgen [peekRune]
  close_pinv

@[spec] theorem discardLoop_ispec (fuel n : Nat) :
    ⦃fun st => ⌜PSInv st ∧ n ≤ lb st⌝⦄ discardLoop fuel
    ⦃post⟨fun r st' => ⌜PSInv st' ∧ n ≤ lb st'⌝, fun e => ⌜ErrOk (n) e⌝⟩⦄ := by
  induction fuel with
  | zero => exact outOfFuel_ispec _ rfl n
  | succ k ih =>
    mvcgen [discardLoop, ih]
    close_pinv

@[spec] theorem discardLine_ispec (fuel : Nat) (n : Nat) :
    ⦃fun st => ⌜PSInv st ∧ n ≤ lb st⌝⦄ discardLine fuel
    ⦃post⟨fun r st' => ⌜PSInv st' ∧ n ≤ lb st'⌝, fun e => ⌜ErrOk (n) e⌝⟩⦄ := by
  mvcgen [discardLine]
  close_pinv

@[spec] theorem stringLoop_ispec (tokPos : Pos) (acc : List UInt8) (fuel n : Nat) (hp : n ≤ tokPos.offset) :
    ⦃fun st => ⌜PSInv st ∧ n ≤ lb st⌝⦄ stringLoop tokPos fuel acc
    ⦃post⟨fun r st' => ⌜PSInv st' ∧ n ≤ lb st'⌝, fun e => ⌜ErrOk (n) e⌝⟩⦄ := by
  induction fuel generalizing acc with
  | zero => exact outOfFuel_ispec _ rfl n
  | succ k ih =>
    mvcgen [stringLoop, ih]
    close_pinv

@[spec] theorem pString_ispec (fuel : Nat) (n : Nat) :
    ⦃fun st => ⌜PSInv st ∧ n ≤ lb st⌝⦄ pString fuel
    ⦃post⟨fun r st' => ⌜PSInv st' ∧ n ≤ lb st'⌝, fun e => ⌜ErrOk (n) e⌝⟩⦄ := by
  mvcgen [pString]
  close_pinv

@[spec] theorem identifier_ispec (n : Nat) :
    ⦃fun st => ⌜PSInv st ∧ n ≤ lb st⌝⦄ identifier
    ⦃post⟨fun r st' => ⌜PSInv st' ∧ n ≤ lb st'⌝, fun e => ⌜ErrOk (n) e⌝⟩⦄ := by
  mvcgen [identifier]
  close_pinv

@[spec] theorem stringIdentifier_ispec (fuel : Nat) (n : Nat) :
    ⦃fun st => ⌜PSInv st ∧ n ≤ lb st⌝⦄ stringIdentifier fuel
    ⦃post⟨fun r st' => ⌜PSInv st' ∧ n ≤ lb st'⌝, fun e => ⌜ErrOk (n) e⌝⟩⦄ := by
  mvcgen [stringIdentifier]
  close_pinv

@[spec] theorem peekKeyword_ispec (n : Nat) :
    ⦃fun st => ⌜PSInv st ∧ n ≤ lb st⌝⦄ peekKeyword
    ⦃post⟨fun r st' => ⌜PSInv st' ∧ n ≤ lb st'⌝, fun e => ⌜ErrOk (n) e⌝⟩⦄ := by
  mvcgen [peekKeyword]
  close_pinv

@[spec] theorem keyword_ispec (kw : String) (n : Nat) :
    ⦃fun st => ⌜PSInv st ∧ n ≤ lb st⌝⦄ keyword kw
    ⦃post⟨fun r st' => ⌜PSInv st' ∧ n ≤ lb st' ∧ n ≤ r.pos.offset⌝, fun e => ⌜ErrOk (n) e⌝⟩⦄ := by
  mvcgen [keyword]
  close_pinv

@[spec] theorem token_ispec (typ : Int) (n : Nat) :
    ⦃fun st => ⌜PSInv st ∧ n ≤ lb st⌝⦄ token typ
    ⦃post⟨fun r st' => ⌜PSInv st' ∧ n ≤ lb st'⌝, fun e => ⌜ErrOk (n) e⌝⟩⦄ := by
  mvcgen [token]
  close_pinv

@[spec] theorem optionalToken_ispec (typ : Int) (n : Nat) :
    ⦃fun st => ⌜PSInv st ∧ n ≤ lb st⌝⦄ optionalToken typ
    ⦃post⟨fun r st' => ⌜PSInv st' ∧ n ≤ lb st'⌝, fun e => ⌜ErrOk (n) e⌝⟩⦄ := by
  mvcgen [optionalToken]
  close_pinv

@[spec] theorem pUint_ispec (n : Nat) :
    ⦃fun st => ⌜PSInv st ∧ n ≤ lb st⌝⦄ pUint
    ⦃post⟨fun r st' => ⌜PSInv st' ∧ n ≤ lb st'⌝, fun e => ⌜ErrOk (n) e⌝⟩⦄ := by
  mvcgen [pUint]
  close_pinv

@[spec] theorem pFloat_ispec (n : Nat) :
    ⦃fun st => ⌜PSInv st ∧ n ≤ lb st⌝⦄ pFloat
    ⦃post⟨fun r st' => ⌜PSInv st' ∧ n ≤ lb st'⌝, fun e => ⌜ErrOk (n) e⌝⟩⦄ := by
  mvcgen [pFloat]
  close_pinv

@[spec] theorem pInt_ispec (n : Nat) :
    ⦃fun st => ⌜PSInv st ∧ n ≤ lb st⌝⦄ pInt
    ⦃post⟨fun r st' => ⌜PSInv st' ∧ n ≤ lb st'⌝, fun e => ⌜ErrOk (n) e⌝⟩⦄ := by
  mvcgen [pInt]
  close_pinv

@[spec] theorem optionalUint_ispec (n : Nat) :
    ⦃fun st => ⌜PSInv st ∧ n ≤ lb st⌝⦄ optionalUint
    ⦃post⟨fun r st' => ⌜PSInv st' ∧ n ≤ lb st'⌝, fun e => ⌜ErrOk (n) e⌝⟩⦄ := by
  mvcgen [optionalUint]
  close_pinv

@[spec] theorem optionalObjectType_ispec (n : Nat) :
    ⦃fun st => ⌜PSInv st ∧ n ≤ lb st⌝⦄ optionalObjectType
    ⦃post⟨fun r st' => ⌜PSInv st' ∧ n ≤ lb st'⌝, fun e => ⌜ErrOk (n) e⌝⟩⦄ := by
  mvcgen [optionalObjectType]
  close_pinv

@[spec] theorem messageID_ispec (n : Nat) :
    ⦃fun st => ⌜PSInv st ∧ n ≤ lb st⌝⦄ messageID
    ⦃post⟨fun r st' => ⌜PSInv st' ∧ n ≤ lb st'⌝, fun e => ⌜ErrOk (n) e⌝⟩⦄ := by
  mvcgen [messageID]
  close_pinv

@[spec] theorem signalValueType_ispec (n : Nat) :
    ⦃fun st => ⌜PSInv st ∧ n ≤ lb st⌝⦄ signalValueType
    ⦃post⟨fun r st' => ⌜PSInv st' ∧ n ≤ lb st'⌝, fun e => ⌜ErrOk (n) e⌝⟩⦄ := by
  mvcgen [signalValueType]
  close_pinv

@[spec] theorem environmentVariableType_ispec (n : Nat) :
    ⦃fun st => ⌜PSInv st ∧ n ≤ lb st⌝⦄ environmentVariableType
    ⦃post⟨fun r st' => ⌜PSInv st' ∧ n ≤ lb st'⌝, fun e => ⌜ErrOk (n) e⌝⟩⦄ := by
  mvcgen [environmentVariableType]
  close_pinv

@[spec] theorem attributeValueType_ispec (n : Nat) :
    ⦃fun st => ⌜PSInv st ∧ n ≤ lb st⌝⦄ attributeValueType
    ⦃post⟨fun r st' => ⌜PSInv st' ∧ n ≤ lb st'⌝, fun e => ⌜ErrOk (n) e⌝⟩⦄ := by
  mvcgen [attributeValueType]
  close_pinv

@[spec] theorem accessType_ispec (n : Nat) :
    ⦃fun st => ⌜PSInv st ∧ n ≤ lb st⌝⦄ accessType
    ⦃post⟨fun r st' => ⌜PSInv st' ∧ n ≤ lb st'⌝, fun e => ⌜ErrOk (n) e⌝⟩⦄ := by
  mvcgen [accessType]
  close_pinv

@[spec] theorem intInRange_ispec (lo hi : Int) (n : Nat) :
    ⦃fun st => ⌜PSInv st ∧ n ≤ lb st⌝⦄ intInRange lo hi
    ⦃post⟨fun r st' => ⌜PSInv st' ∧ n ≤ lb st'⌝, fun e => ⌜ErrOk (n) e⌝⟩⦄ := by
  mvcgen [intInRange]
  close_pinv

@[spec] theorem anyOf_ispec (ts : List Int) (n : Nat) :
    ⦃fun st => ⌜PSInv st ∧ n ≤ lb st⌝⦄ anyOf ts
    ⦃post⟨fun r st' => ⌜PSInv st' ∧ n ≤ lb st'⌝, fun e => ⌜ErrOk (n) e⌝⟩⦄ := by
  mvcgen [anyOf]
  close_pinv

@[spec] theorem enumValue_ispec (fuel : Nat) (values : List BStr) (n : Nat) :
    ⦃fun st => ⌜PSInv st ∧ n ≤ lb st⌝⦄ enumValue fuel values
    ⦃post⟨fun r st' => ⌜PSInv st' ∧ n ≤ lb st'⌝, fun e => ⌜ErrOk (n) e⌝⟩⦄ := by
  mvcgen [enumValue]
  close_pinv

@[spec] theorem valueDescription_ispec (fuel : Nat) (n : Nat) :
    ⦃fun st => ⌜PSInv st ∧ n ≤ lb st⌝⦄ valueDescription fuel
    ⦃post⟨fun r st' => ⌜PSInv st' ∧ n ≤ lb st'⌝, fun e => ⌜ErrOk (n) e⌝⟩⦄ := by
  mvcgen [valueDescription]
  close_pinv

@[spec] theorem valueDescLoop_ispec (strFuel : Nat) (acc : List ValueDesc) (fuel n : Nat) :
    ⦃fun st => ⌜PSInv st ∧ n ≤ lb st⌝⦄ valueDescLoop strFuel fuel acc
    ⦃post⟨fun r st' => ⌜PSInv st' ∧ n ≤ lb st'⌝, fun e => ⌜ErrOk (n) e⌝⟩⦄ := by
  induction fuel generalizing acc with
  | zero => exact outOfFuel_ispec _ rfl n
  | succ k ih =>
    mvcgen [valueDescLoop, ih]
    close_pinv

@[spec] theorem commaIdentLoop_ispec (acc : List BStr) (fuel n : Nat) :
    ⦃fun st => ⌜PSInv st ∧ n ≤ lb st⌝⦄ commaIdentLoop fuel acc
    ⦃post⟨fun r st' => ⌜PSInv st' ∧ n ≤ lb st'⌝, fun e => ⌜ErrOk (n) e⌝⟩⦄ := by
  induction fuel generalizing acc with
  | zero => exact outOfFuel_ispec _ rfl n
  | succ k ih =>
    mvcgen [commaIdentLoop, ih]
    close_pinv

@[spec] theorem parseSignal_ispec (fuel : Nat) (n : Nat) :
    ⦃fun st => ⌜PSInv st ∧ n ≤ lb st⌝⦄ parseSignal fuel
    ⦃post⟨fun r st' => ⌜PSInv st' ∧ n ≤ lb st' ∧ n ≤ r.pos.offset⌝, fun e => ⌜ErrOk (n) e⌝⟩⦄ := by
  mvcgen [parseSignal]
  close_pinv

@[spec] theorem signalLoop_ispec (strFuel : Nat) (acc : List SignalDef) (fuel n : Nat) :
    ⦃fun st => ⌜PSInv st ∧ n ≤ lb st⌝⦄ signalLoop strFuel fuel acc
    ⦃post⟨fun r st' => ⌜PSInv st' ∧ n ≤ lb st'⌝, fun e => ⌜ErrOk (n) e⌝⟩⦄ := by
  induction fuel generalizing acc with
  | zero => exact outOfFuel_ispec _ rfl n
  | succ k ih =>
    mvcgen [signalLoop, ih]
    close_pinv

@[spec] theorem identWhileLoop_ispec (acc : List BStr) (fuel n : Nat) :
    ⦃fun st => ⌜PSInv st ∧ n ≤ lb st⌝⦄ identWhileLoop fuel acc
    ⦃post⟨fun r st' => ⌜PSInv st' ∧ n ≤ lb st'⌝, fun e => ⌜ErrOk (n) e⌝⟩⦄ := by
  induction fuel generalizing acc with
  | zero => exact outOfFuel_ispec _ rfl n
  | succ k ih =>
    mvcgen [identWhileLoop, ih]
    close_pinv

@[spec] theorem newSymLoop_ispec (acc : List BStr) (fuel n : Nat) :
    ⦃fun st => ⌜PSInv st ∧ n ≤ lb st⌝⦄ newSymLoop fuel acc
    ⦃post⟨fun r st' => ⌜PSInv st' ∧ n ≤ lb st'⌝, fun e => ⌜ErrOk (n) e⌝⟩⦄ := by
  induction fuel generalizing acc with
  | zero => exact outOfFuel_ispec _ rfl n
  | succ k ih =>
    mvcgen [newSymLoop, ih]
    close_pinv

@[spec] theorem txLoop_ispec (acc : List BStr) (fuel n : Nat) :
    ⦃fun st => ⌜PSInv st ∧ n ≤ lb st⌝⦄ txLoop fuel acc
    ⦃post⟨fun r st' => ⌜PSInv st' ∧ n ≤ lb st'⌝, fun e => ⌜ErrOk (n) e⌝⟩⦄ := by
  induction fuel generalizing acc with
  | zero => exact outOfFuel_ispec _ rfl n
  | succ k ih =>
    mvcgen [txLoop, ih]
    close_pinv

@[spec] theorem commaStringLoop_ispec (strFuel : Nat) (acc : List BStr) (fuel n : Nat) :
    ⦃fun st => ⌜PSInv st ∧ n ≤ lb st⌝⦄ commaStringLoop strFuel fuel acc
    ⦃post⟨fun r st' => ⌜PSInv st' ∧ n ≤ lb st'⌝, fun e => ⌜ErrOk (n) e⌝⟩⦄ := by
  induction fuel generalizing acc with
  | zero => exact outOfFuel_ispec _ rfl n
  | succ k ih =>
    mvcgen [commaStringLoop, ih]
    close_pinv

@[spec] theorem attrTypedValue_ispec (defs : Array Def) (fuel : Nat) (name : BStr) (n : Nat) :
    ⦃fun st => ⌜PSInv st ∧ n ≤ lb st⌝⦄ attrTypedValue defs fuel name
    ⦃post⟨fun r st' => ⌜PSInv st' ∧ n ≤ lb st'⌝, fun e => ⌜ErrOk (n) e⌝⟩⦄ := by
  mvcgen [attrTypedValue]
  close_pinv

@[spec] theorem objRef_ispec (o : ObjType) (n : Nat) :
    ⦃fun st => ⌜PSInv st ∧ n ≤ lb st⌝⦄ objRef o
    ⦃post⟨fun r st' => ⌜PSInv st' ∧ n ≤ lb st'⌝, fun e => ⌜ErrOk (n) e⌝⟩⦄ := by
  mvcgen [objRef]
  close_pinv

@[spec] theorem parseDef_ispec (defs : Array Def) (fuel : Nat) (n : Nat) :
    ⦃fun st => ⌜PSInv st ∧ n ≤ lb st⌝⦄ parseDef defs fuel
    ⦃post⟨fun r st' => ⌜PSInv st' ∧ n ≤ lb st' ∧ n ≤ r.pos.offset⌝, fun e => ⌜ErrOk (n) e⌝⟩⦄ := by
  mvcgen [parseDef]
  close_pinv

end CanVerif
