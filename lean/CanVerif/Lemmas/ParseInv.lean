import CanVerif.Model.DbcParse
import CanVerif.Lemmas.ScanInv
/-! The parser model never reaches its panic site: the scanner invariant (offsets inside the source, identifier tokens
non-empty) is kept by every parser operation, and the look-ahead token is always well formed. -/
open Std.Do
namespace CanVerif

theorem decodeRune_spec (bs : List UInt8) :
    ((decodeRune bs).bad = true → (decodeRune bs).w ≤ 1) ∧
    ((decodeRune bs).bad = false → 1 ≤ (decodeRune bs).w ∧ (decodeRune bs).w ≤ bs.length) := by
  unfold decodeRune
  cases bs with
  | nil => simp
  | cons b0 t =>
    simp only [List.length_cons]
    split
    · simp
    split
    · simp
    split
    · cases t with
      | nil => simp
      | cons b1 t1 => simp only [List.length_cons]; split <;> simp
    split
    · cases t with
      | nil => simp
      | cons b1 t1 =>
        cases t1 with
        | nil => simp
        | cons b2 t2 => simp only [List.length_cons]; (repeat' split) <;> simp
    split
    · cases t with
      | nil => simp
      | cons b1 t1 =>
        cases t1 with
        | nil => simp
        | cons b2 t2 =>
          cases t2 with
          | nil => simp
          | cons b3 t3 => simp only [List.length_cons]; (repeat' split) <;> simp
    · simp

theorem W_decodeAll (fuel : Nat) (bs : List UInt8) : W (decodeAll fuel bs) ≤ bs.length ∧ WF (decodeAll fuel bs) := by
  induction fuel generalizing bs with
  | zero => exact ⟨by simp [decodeAll, W], fun x hx => by simp [decodeAll] at hx⟩
  | succ n ih =>
    cases bs with
    | nil => exact ⟨by simp [decodeAll, W], fun x hx => by simp [decodeAll] at hx⟩
    | cons b t =>
      unfold decodeAll
      obtain ⟨h1, h2⟩ := decodeRune_spec (b :: t)
      obtain ⟨i1, i2⟩ := ih ((b :: t).drop (max (decodeRune (b :: t)).w 1))
      simp only [List.length_drop, List.length_cons] at i1 h2
      refine ⟨?_, ?_⟩
      · simp only [W, List.length_cons]
        cases hb : (decodeRune (b :: t)).bad
        · have := h2 hb
          simp only [Bool.false_eq_true, if_false]
          omega
        · have := h1 hb
          simp only [if_true]
          omega
      · intro x hx
        simp only [List.mem_cons] at hx
        rcases hx with rfl | hx
        · intro hb; exact (h2 hb).1
        · exact i2 x hx

theorem StInv_init (data : List UInt8) : StInv (Sc.init data) := by
  obtain ⟨a, b⟩ := W_decodeAll data.length data
  left
  refine ⟨rfl, ?_, Nat.le_refl _, b⟩
  simp only [Sc.init, List.size_toArray]
  omega

/-- the parser state invariant: scanner invariant, well-formed look-ahead token -/
def PSInv (st : PS) : Prop := StInv st.sc ∧ (st.hasLA = true → TokOk st.la)
abbrev noPanic : PErr → Prop := fun e => ∀ s, e ≠ .panic s

theorem liftSc_run' {α : Type} (f : Sc → Except ScanErr (α × Sc)) (st : PS) :
    (liftSc f).run st = match f st.sc with
      | .ok (a, sc') => .ok (a, { st with sc := sc' })
      | .error e => .error (if e.fuel then .fuel else .parse e.pos e.msg) := by
  unfold liftSc
  simp only [StateT.run, bind, StateT.bind, get, getThe, MonadStateOf.get, StateT.get, Except.bind, pure, Except.pure]
  cases f st.sc with
  | ok p => obtain ⟨a, sc'⟩ := p; rfl
  | error e => cases hf : e.fuel <;> simp [hf] <;> rfl

theorem liftSc_ispec {α : Type} (f : Sc → Except ScanErr (α × Sc)) (Q : α → Prop)
    (hf : ∀ s, StInv s → ⦃⌜True⌝⦄ f s ⦃post⟨fun r => ⌜StInv r.2 ∧ Q r.1⌝, fun _ => ⌜True⌝⟩⦄) :
    ⦃fun st => ⌜PSInv st⌝⦄ liftSc f ⦃post⟨fun r st' => ⌜PSInv st' ∧ Q r⌝, fun e => ⌜noPanic e⌝⟩⦄ := by
  apply triple_of_st
  intro st h
  rw [liftSc_run']
  cases hs : f st.sc with
  | error e => intro s; cases e.fuel <;> simp
  | ok p =>
    obtain ⟨a, sc'⟩ := p
    have := exc_ok_of_triple _ _ _ (hf st.sc h.1) _ hs
    exact ⟨⟨this.1, h.2⟩, this.2⟩

@[spec] theorem liftScan_ispec :
    ⦃fun st => ⌜PSInv st⌝⦄ liftSc Sc.scan ⦃post⟨fun r st' => ⌜PSInv st' ∧ TokOk r⌝, fun e => ⌜noPanic e⌝⟩⦄ := by
  apply liftSc_ispec Sc.scan TokOk
  intro s hs
  have := scan_ispec s hs
  apply triple_of_exc
  cases h : s.scan with
  | ok r => have := exc_ok_of_triple _ _ _ this _ h; exact ⟨this.1, this.2.2⟩
  | error e => trivial

@[spec] theorem liftNextRune_ispec :
    ⦃fun st => ⌜PSInv st⌝⦄ liftSc Sc.nextRune ⦃post⟨fun _ st' => ⌜PSInv st' ∧ True⌝, fun e => ⌜noPanic e⌝⟩⦄ := by
  apply liftSc_ispec Sc.nextRune (fun _ => True)
  intro s hs
  have := nextRune_ispec s hs
  apply triple_of_exc
  cases h : s.nextRune with
  | ok r => have := exc_ok_of_triple _ _ _ this _ h; exact ⟨this.1, trivial⟩
  | error e => trivial

@[spec] theorem liftPeek_ispec :
    ⦃fun st => ⌜PSInv st⌝⦄ liftSc Sc.peek ⦃post⟨fun _ st' => ⌜PSInv st' ∧ True⌝, fun e => ⌜noPanic e⌝⟩⦄ := by
  apply liftSc_ispec Sc.peek (fun _ => True)
  intro s hs
  have := peek_ispec s hs
  apply triple_of_exc
  cases h : s.peek with
  | ok r =>
    have := exc_ok_of_triple _ _ _ this _ h
    refine ⟨?_, trivial⟩
    have e : r.2.ch = r.1 := this.2.1
    right; rw [e]; exact this.1
  | error e => trivial

@[spec] theorem failf_ispec {α : Type} (pos : Pos) (r : String) :
    ⦃⌜True⌝⦄ (failf pos r : P α) ⦃post⟨fun _ _ => ⌜False⌝, fun e => ⌜noPanic e⌝⟩⦄ := by
  apply triple_of_st
  intro s _
  show noPanic (.parse pos r)
  intro s; simp

/-- the panic site needs a contradiction -/
@[spec] theorem panicAt_ispec {α : Type} (site : String) :
    ⦃⌜False⌝⦄ (panicAt site : P α) ⦃post⟨fun _ _ => ⌜False⌝, fun e => ⌜noPanic e⌝⟩⦄ := by
  apply triple_of_st
  intro s h
  exact absurd h id

theorem outOfFuel_ispec {α : Type} (x : P α) (h : x = throw .fuel) :
    ⦃fun st => ⌜PSInv st⌝⦄ x ⦃post⟨fun _ st' => ⌜PSInv st'⌝, fun e => ⌜noPanic e⌝⟩⦄ := by
  subst h
  apply triple_of_st
  intro s _
  show noPanic .fuel
  intro s; simp

theorem StInv_ws {s : Sc} (h : StInv s) (w : Nat) : StInv { s with ws := w } := by
  rcases h with ⟨a, b, c, d⟩ | h
  · exact Or.inl ⟨a, b, c, d⟩
  · exact Or.inr ⟨h.size, h.last, h.look, h.ge, h.wf⟩

macro "close_pinv" : tactic => `(tactic| all_goals first
  | grind
  | ((try simp only [PSInv, noPanic, TokOk, tokIdent, bne_iff_ne, beq_iff_eq, ne_eq, Decidable.not_not, List.isEmpty_iff] at *); grind [StInv_ws]))

attribute [local irreducible] bs

@[spec] theorem useWs_ispec (w : Nat) :
    ⦃fun st => ⌜PSInv st⌝⦄ useWhitespace w ⦃post⟨fun _ st' => ⌜PSInv st'⌝, fun e => ⌜noPanic e⌝⟩⦄ := by
  mvcgen [useWhitespace]
  close_pinv

@[spec] theorem nextToken_ispec :
    ⦃fun st => ⌜PSInv st⌝⦄ nextToken
    ⦃post⟨fun r st' => ⌜PSInv st' ∧ TokOk r⌝, fun e => ⌜noPanic e⌝⟩⦄ := by
  mvcgen [nextToken]
  close_pinv

@[spec] theorem peekToken_ispec :
    ⦃fun st => ⌜PSInv st⌝⦄ peekToken
    ⦃post⟨fun r st' => ⌜PSInv st' ∧ TokOk r⌝, fun e => ⌜noPanic e⌝⟩⦄ := by
  mvcgen [peekToken]
  close_pinv

@[spec] theorem pNextRune_ispec :
    ⦃fun st => ⌜PSInv st⌝⦄ nextRune
    ⦃post⟨fun r st' => ⌜PSInv st'⌝, fun e => ⌜noPanic e⌝⟩⦄ := by
  mvcgen [nextRune]
  close_pinv

@[spec] theorem pPeekRune_ispec :
    ⦃fun st => ⌜PSInv st⌝⦄ peekRune
    ⦃post⟨fun r st' => ⌜PSInv st'⌝, fun e => ⌜noPanic e⌝⟩⦄ := by
  mvcgen [peekRune]
  close_pinv

@[spec] theorem discardLoop_ispec (fuel : Nat) :
    ⦃fun st => ⌜PSInv st⌝⦄ discardLoop fuel
    ⦃post⟨fun r st' => ⌜PSInv st'⌝, fun e => ⌜noPanic e⌝⟩⦄ := by
  induction fuel with
  | zero => exact outOfFuel_ispec _ rfl
  | succ k ih =>
    mvcgen [discardLoop, ih]
    close_pinv

@[spec] theorem discardLine_ispec (fuel : Nat) :
    ⦃fun st => ⌜PSInv st⌝⦄ discardLine fuel
    ⦃post⟨fun r st' => ⌜PSInv st'⌝, fun e => ⌜noPanic e⌝⟩⦄ := by
  mvcgen [discardLine]
  close_pinv

@[spec] theorem stringLoop_ispec (tokPos : Pos) (acc : List UInt8) (fuel : Nat) :
    ⦃fun st => ⌜PSInv st⌝⦄ stringLoop tokPos fuel acc
    ⦃post⟨fun r st' => ⌜PSInv st'⌝, fun e => ⌜noPanic e⌝⟩⦄ := by
  induction fuel generalizing acc with
  | zero => exact outOfFuel_ispec _ rfl
  | succ k ih =>
    mvcgen [stringLoop, ih]
    close_pinv

@[spec] theorem pString_ispec (fuel : Nat) :
    ⦃fun st => ⌜PSInv st⌝⦄ pString fuel
    ⦃post⟨fun r st' => ⌜PSInv st'⌝, fun e => ⌜noPanic e⌝⟩⦄ := by
  mvcgen [pString]
  close_pinv

@[spec] theorem identifier_ispec :
    ⦃fun st => ⌜PSInv st⌝⦄ identifier
    ⦃post⟨fun r st' => ⌜PSInv st'⌝, fun e => ⌜noPanic e⌝⟩⦄ := by
  mvcgen [identifier]
  close_pinv

@[spec] theorem stringIdentifier_ispec (fuel : Nat) :
    ⦃fun st => ⌜PSInv st⌝⦄ stringIdentifier fuel
    ⦃post⟨fun r st' => ⌜PSInv st'⌝, fun e => ⌜noPanic e⌝⟩⦄ := by
  mvcgen [stringIdentifier]
  close_pinv

@[spec] theorem peekKeyword_ispec :
    ⦃fun st => ⌜PSInv st⌝⦄ peekKeyword
    ⦃post⟨fun r st' => ⌜PSInv st'⌝, fun e => ⌜noPanic e⌝⟩⦄ := by
  mvcgen [peekKeyword]
  close_pinv

@[spec] theorem keyword_ispec (kw : String) :
    ⦃fun st => ⌜PSInv st⌝⦄ keyword kw
    ⦃post⟨fun r st' => ⌜PSInv st'⌝, fun e => ⌜noPanic e⌝⟩⦄ := by
  mvcgen [keyword]
  close_pinv

@[spec] theorem token_ispec (typ : Int) :
    ⦃fun st => ⌜PSInv st⌝⦄ token typ
    ⦃post⟨fun r st' => ⌜PSInv st'⌝, fun e => ⌜noPanic e⌝⟩⦄ := by
  mvcgen [token]
  close_pinv

@[spec] theorem optionalToken_ispec (typ : Int) :
    ⦃fun st => ⌜PSInv st⌝⦄ optionalToken typ
    ⦃post⟨fun r st' => ⌜PSInv st'⌝, fun e => ⌜noPanic e⌝⟩⦄ := by
  mvcgen [optionalToken]
  close_pinv

@[spec] theorem pUint_ispec :
    ⦃fun st => ⌜PSInv st⌝⦄ pUint
    ⦃post⟨fun r st' => ⌜PSInv st'⌝, fun e => ⌜noPanic e⌝⟩⦄ := by
  mvcgen [pUint]
  close_pinv

@[spec] theorem pFloat_ispec :
    ⦃fun st => ⌜PSInv st⌝⦄ pFloat
    ⦃post⟨fun r st' => ⌜PSInv st'⌝, fun e => ⌜noPanic e⌝⟩⦄ := by
  mvcgen [pFloat]
  close_pinv

@[spec] theorem pInt_ispec :
    ⦃fun st => ⌜PSInv st⌝⦄ pInt
    ⦃post⟨fun r st' => ⌜PSInv st'⌝, fun e => ⌜noPanic e⌝⟩⦄ := by
  mvcgen [pInt]
  close_pinv

@[spec] theorem optionalUint_ispec :
    ⦃fun st => ⌜PSInv st⌝⦄ optionalUint
    ⦃post⟨fun r st' => ⌜PSInv st'⌝, fun e => ⌜noPanic e⌝⟩⦄ := by
  mvcgen [optionalUint]
  close_pinv

@[spec] theorem optionalObjectType_ispec :
    ⦃fun st => ⌜PSInv st⌝⦄ optionalObjectType
    ⦃post⟨fun r st' => ⌜PSInv st'⌝, fun e => ⌜noPanic e⌝⟩⦄ := by
  mvcgen [optionalObjectType]
  close_pinv

@[spec] theorem messageID_ispec :
    ⦃fun st => ⌜PSInv st⌝⦄ messageID
    ⦃post⟨fun r st' => ⌜PSInv st'⌝, fun e => ⌜noPanic e⌝⟩⦄ := by
  mvcgen [messageID]
  close_pinv

@[spec] theorem signalValueType_ispec :
    ⦃fun st => ⌜PSInv st⌝⦄ signalValueType
    ⦃post⟨fun r st' => ⌜PSInv st'⌝, fun e => ⌜noPanic e⌝⟩⦄ := by
  mvcgen [signalValueType]
  close_pinv

@[spec] theorem environmentVariableType_ispec :
    ⦃fun st => ⌜PSInv st⌝⦄ environmentVariableType
    ⦃post⟨fun r st' => ⌜PSInv st'⌝, fun e => ⌜noPanic e⌝⟩⦄ := by
  mvcgen [environmentVariableType]
  close_pinv

@[spec] theorem attributeValueType_ispec :
    ⦃fun st => ⌜PSInv st⌝⦄ attributeValueType
    ⦃post⟨fun r st' => ⌜PSInv st'⌝, fun e => ⌜noPanic e⌝⟩⦄ := by
  mvcgen [attributeValueType]
  close_pinv

@[spec] theorem accessType_ispec :
    ⦃fun st => ⌜PSInv st⌝⦄ accessType
    ⦃post⟨fun r st' => ⌜PSInv st'⌝, fun e => ⌜noPanic e⌝⟩⦄ := by
  mvcgen [accessType]
  close_pinv

@[spec] theorem intInRange_ispec (lo hi : Int) :
    ⦃fun st => ⌜PSInv st⌝⦄ intInRange lo hi
    ⦃post⟨fun r st' => ⌜PSInv st'⌝, fun e => ⌜noPanic e⌝⟩⦄ := by
  mvcgen [intInRange]
  close_pinv

@[spec] theorem anyOf_ispec (ts : List Int) :
    ⦃fun st => ⌜PSInv st⌝⦄ anyOf ts
    ⦃post⟨fun r st' => ⌜PSInv st'⌝, fun e => ⌜noPanic e⌝⟩⦄ := by
  mvcgen [anyOf]
  close_pinv

@[spec] theorem enumValue_ispec (fuel : Nat) (values : List BStr) :
    ⦃fun st => ⌜PSInv st⌝⦄ enumValue fuel values
    ⦃post⟨fun r st' => ⌜PSInv st'⌝, fun e => ⌜noPanic e⌝⟩⦄ := by
  mvcgen [enumValue]
  close_pinv

@[spec] theorem valueDescription_ispec (fuel : Nat) :
    ⦃fun st => ⌜PSInv st⌝⦄ valueDescription fuel
    ⦃post⟨fun r st' => ⌜PSInv st'⌝, fun e => ⌜noPanic e⌝⟩⦄ := by
  mvcgen [valueDescription]
  close_pinv

@[spec] theorem valueDescLoop_ispec (strFuel : Nat) (acc : List ValueDesc) (fuel : Nat) :
    ⦃fun st => ⌜PSInv st⌝⦄ valueDescLoop strFuel fuel acc
    ⦃post⟨fun r st' => ⌜PSInv st'⌝, fun e => ⌜noPanic e⌝⟩⦄ := by
  induction fuel generalizing acc with
  | zero => exact outOfFuel_ispec _ rfl
  | succ k ih =>
    mvcgen [valueDescLoop, ih]
    close_pinv

@[spec] theorem commaIdentLoop_ispec (acc : List BStr) (fuel : Nat) :
    ⦃fun st => ⌜PSInv st⌝⦄ commaIdentLoop fuel acc
    ⦃post⟨fun r st' => ⌜PSInv st'⌝, fun e => ⌜noPanic e⌝⟩⦄ := by
  induction fuel generalizing acc with
  | zero => exact outOfFuel_ispec _ rfl
  | succ k ih =>
    mvcgen [commaIdentLoop, ih]
    close_pinv

@[spec] theorem parseSignal_ispec (fuel : Nat) :
    ⦃fun st => ⌜PSInv st⌝⦄ parseSignal fuel
    ⦃post⟨fun r st' => ⌜PSInv st'⌝, fun e => ⌜noPanic e⌝⟩⦄ := by
  mvcgen [parseSignal]
  close_pinv

@[spec] theorem signalLoop_ispec (strFuel : Nat) (acc : List SignalDef) (fuel : Nat) :
    ⦃fun st => ⌜PSInv st⌝⦄ signalLoop strFuel fuel acc
    ⦃post⟨fun r st' => ⌜PSInv st'⌝, fun e => ⌜noPanic e⌝⟩⦄ := by
  induction fuel generalizing acc with
  | zero => exact outOfFuel_ispec _ rfl
  | succ k ih =>
    mvcgen [signalLoop, ih]
    close_pinv

@[spec] theorem identWhileLoop_ispec (acc : List BStr) (fuel : Nat) :
    ⦃fun st => ⌜PSInv st⌝⦄ identWhileLoop fuel acc
    ⦃post⟨fun r st' => ⌜PSInv st'⌝, fun e => ⌜noPanic e⌝⟩⦄ := by
  induction fuel generalizing acc with
  | zero => exact outOfFuel_ispec _ rfl
  | succ k ih =>
    mvcgen [identWhileLoop, ih]
    close_pinv

@[spec] theorem newSymLoop_ispec (acc : List BStr) (fuel : Nat) :
    ⦃fun st => ⌜PSInv st⌝⦄ newSymLoop fuel acc
    ⦃post⟨fun r st' => ⌜PSInv st'⌝, fun e => ⌜noPanic e⌝⟩⦄ := by
  induction fuel generalizing acc with
  | zero => exact outOfFuel_ispec _ rfl
  | succ k ih =>
    mvcgen [newSymLoop, ih]
    close_pinv

@[spec] theorem txLoop_ispec (acc : List BStr) (fuel : Nat) :
    ⦃fun st => ⌜PSInv st⌝⦄ txLoop fuel acc
    ⦃post⟨fun r st' => ⌜PSInv st'⌝, fun e => ⌜noPanic e⌝⟩⦄ := by
  induction fuel generalizing acc with
  | zero => exact outOfFuel_ispec _ rfl
  | succ k ih =>
    mvcgen [txLoop, ih]
    close_pinv

@[spec] theorem commaStringLoop_ispec (strFuel : Nat) (acc : List BStr) (fuel : Nat) :
    ⦃fun st => ⌜PSInv st⌝⦄ commaStringLoop strFuel fuel acc
    ⦃post⟨fun r st' => ⌜PSInv st'⌝, fun e => ⌜noPanic e⌝⟩⦄ := by
  induction fuel generalizing acc with
  | zero => exact outOfFuel_ispec _ rfl
  | succ k ih =>
    mvcgen [commaStringLoop, ih]
    close_pinv

@[spec] theorem attrTypedValue_ispec (defs : Array Def) (fuel : Nat) (name : BStr) :
    ⦃fun st => ⌜PSInv st⌝⦄ attrTypedValue defs fuel name
    ⦃post⟨fun r st' => ⌜PSInv st'⌝, fun e => ⌜noPanic e⌝⟩⦄ := by
  mvcgen [attrTypedValue]
  close_pinv

@[spec] theorem objRef_ispec (o : ObjType) :
    ⦃fun st => ⌜PSInv st⌝⦄ objRef o
    ⦃post⟨fun r st' => ⌜PSInv st'⌝, fun e => ⌜noPanic e⌝⟩⦄ := by
  mvcgen [objRef]
  close_pinv

@[spec] theorem parseDef_ispec (defs : Array Def) (fuel : Nat) :
    ⦃fun st => ⌜PSInv st⌝⦄ parseDef defs fuel
    ⦃post⟨fun r st' => ⌜PSInv st'⌝, fun e => ⌜noPanic e⌝⟩⦄ := by
  mvcgen [parseDef]
  close_pinv

end CanVerif
