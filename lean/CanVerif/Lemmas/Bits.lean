import CanVerif.Model.Bits
/-! Helper lemmas for the bit-level properties (C01, C02, C08, C17). Kernel-only proofs. -/
namespace CanVerif

theorem mask_toNat_lt (l : Nat) (h : l < 64) : (mask l).toNat = 2^l - 1 := by
  unfold mask
  have h2 : 2^l < 2^64 := Nat.pow_lt_pow_right (by omega) h
  have h3 : 0 < 2^l := Nat.pow_pos (by omega)
  rw [BitVec.toNat_sub, BitVec.toNat_shiftLeft]
  simp only [BitVec.toNat_ofNat]
  have e1 : (1 % 2^64) <<< l = 2^l := by
    rw [Nat.mod_eq_of_lt (by decide), Nat.one_shiftLeft]
  rw [e1, Nat.mod_eq_of_lt h2, Nat.mod_eq_of_lt (by decide : 1 < 2^64)]
  omega

theorem mask_ge (l : Nat) (h : 64 ≤ l) : mask l = BitVec.allOnes 64 := by
  unfold mask
  have : (1#64 <<< l) = 0#64 := by
    apply BitVec.eq_of_getLsbD_eq
    intro i hi
    simp [BitVec.getLsbD_shiftLeft]
    omega
  rw [this]; decide

theorem mask_getLsbD (l i : Nat) : (mask l).getLsbD i = (decide (i < l) && decide (i < 64)) := by
  by_cases h : l < 64
  · have : mask l = BitVec.ofNat 64 (2^l - 1) := by
      apply BitVec.eq_of_toNat_eq
      rw [mask_toNat_lt l h]
      have h2 : 2^l < 2^64 := Nat.pow_lt_pow_right (by omega) h
      simp; omega
    rw [this, BitVec.getLsbD_ofNat, Nat.testBit_two_pow_sub_one]
    by_cases h1 : i < l <;> by_cases h2 : i < 64 <;> simp [h1, h2]
  · rw [mask_ge l (by omega), BitVec.getLsbD_allOnes]
    by_cases h2 : i < 64
    · have : i < l := by omega
      simp [h2, this]
    · simp [h2]

theorem byteAt_getLsbD (d : Data) (j i : Nat) : (byteAt d j).getLsbD i = (decide (i < 8) && d.getLsbD (8*j + i)) := by
  unfold byteAt
  have : (0xff#64) = mask 8 := by decide
  rw [this, BitVec.getLsbD_and, BitVec.getLsbD_ushiftRight, mask_getLsbD]
  by_cases h : i < 8
  · have : i < 64 := by omega
    simp [h, this]
  · simp [h]

theorem bswap_getLsbD (d : Data) (k : Nat) (hk : k < 64) : (bswap d).getLsbD k = d.getLsbD (invIdx k) := by
  unfold bswap
  simp only [BitVec.getLsbD_or, BitVec.getLsbD_shiftLeft, byteAt_getLsbD]
  have h8 : k / 8 < 8 := by omega
  unfold invIdx
  generalize hq : k / 8 = q at *
  have hm : k % 8 < 8 := Nat.mod_lt _ (by omega)
  generalize hr : k % 8 = r at *
  have hk' : k = 8 * q + r := by omega
  subst hk'
  clear hq hr
  have hq : q = 0 ∨ q = 1 ∨ q = 2 ∨ q = 3 ∨ q = 4 ∨ q = 5 ∨ q = 6 ∨ q = 7 := by omega
  have hr : r = 0 ∨ r = 1 ∨ r = 2 ∨ r = 3 ∨ r = 4 ∨ r = 5 ∨ r = 6 ∨ r = 7 := by omega
  rcases hq with rfl | rfl | rfl | rfl | rfl | rfl | rfl | rfl <;>
  rcases hr with rfl | rfl | rfl | rfl | rfl | rfl | rfl | rfl <;> simp
theorem invIdx_lt (i : Nat) (h : i < 64) : invIdx i < 64 := by unfold invIdx; omega
theorem invIdx_invIdx (i : Nat) (h : i < 64) : invIdx (invIdx i) = i := by unfold invIdx; omega

theorem invertEndian8_toNat : ∀ b : BitVec 8, b.toNat < 64 → (invertEndian8 b).toNat = invIdx b.toNat := by
  decide

def beStep (p : Nat) : Nat := if p % 8 = 0 then p + 15 else p - 1
theorem bePos_succ (s k : Nat) : bePos s (k+1) = beStep (bePos s k) := rfl

theorem beStep_ge (p : Nat) (h : 64 ≤ p) : 64 ≤ beStep p := by unfold beStep; split <;> omega

theorem beStep_inv (p : Nat) (h : p < 64) (h0 : 0 < invIdx p) : beStep p < 64 ∧ invIdx (beStep p) = invIdx p - 1 := by
  unfold beStep invIdx at *; split <;> omega

theorem beStep_inv0 (p : Nat) (h : p < 64) (h0 : invIdx p = 0) : 64 ≤ beStep p := by
  unfold beStep invIdx at *; split <;> omega

theorem bePos_closed (s : Nat) (hs : s < 64) : ∀ k, k ≤ invIdx s → bePos s k < 64 ∧ invIdx (bePos s k) = invIdx s - k := by
  intro k
  induction k with
  | zero => intro _; exact ⟨hs, rfl⟩
  | succ k ih =>
    intro hk
    have ⟨h1, h2⟩ := ih (by omega)
    rw [bePos_succ]
    have := beStep_inv (bePos s k) h1 (by omega)
    omega

theorem bePos_over (s : Nat) (hs : s < 64) : ∀ k, invIdx s < k → 64 ≤ bePos s k := by
  intro k
  induction k with
  | zero => intro h; omega
  | succ k ih =>
    intro hk
    rw [bePos_succ]
    by_cases h : invIdx s < k
    · exact beStep_ge _ (ih h)
    · have hk' : k = invIdx s := by omega
      have ⟨h1, h2⟩ := bePos_closed s hs k (by omega)
      exact beStep_inv0 _ h1 (by omega)

theorem bePos_eq (s k : Nat) (hs : s < 64) (hk : k ≤ invIdx s) : bePos s k = invIdx (invIdx s - k) := by
  have ⟨h1, h2⟩ := bePos_closed s hs k hk
  rw [← h2, invIdx_invIdx _ h1]

theorem fitsBE_le (s l : Nat) (h : FitsBE s l) : l - 1 ≤ invIdx s := by
  obtain ⟨h1, h2, h3, h4⟩ := h
  by_cases hc : l - 1 ≤ invIdx s
  · exact hc
  · have := bePos_over s h3 (l-1) (by omega); omega


theorem readULE_getLsbD (d : Data) (s l i : Nat) :
    (readULE d s l).getLsbD i = (decide (i < l) && payloadBit d (s + i)) := by
  unfold readULE packLE payloadBit
  rw [BitVec.getLsbD_and, BitVec.getLsbD_ushiftRight, mask_getLsbD]
  by_cases h : i < 64
  · simp [h, Bool.and_comm]
  · have : d.getLsbD (s + i) = false := BitVec.getLsbD_of_ge _ _ (by omega)
    simp [h, this]

theorem beLsb_eq (s l : Nat) (h : FitsBE s l) : beLsb s l = invIdx s - (l - 1) := by
  have hle := fitsBE_le s l h
  obtain ⟨h1, h2, h3, h4⟩ := h
  unfold beLsb
  have hi := invIdx_lt s h3
  have e := invertEndian8_toNat (BitVec.ofNat 8 s) (by simp; omega)
  have es : (BitVec.ofNat 8 s).toNat = s := by simp; omega
  rw [es] at e
  rw [BitVec.toNat_add, BitVec.toNat_sub, e]
  simp
  omega

theorem readUBE_getLsbD (d : Data) (s l i : Nat) (h : FitsBE s l) :
    (readUBE d s l).getLsbD i = (decide (i < l) && payloadBit d (bePos s (l - 1 - i))) := by
  have hle := fitsBE_le s l h
  have hb := beLsb_eq s l h
  obtain ⟨h1, h2, h3, h4⟩ := h
  have hi := invIdx_lt s h3
  unfold readUBE packBE payloadBit
  rw [BitVec.getLsbD_and, BitVec.getLsbD_ushiftRight, mask_getLsbD, hb]
  by_cases hil : i < l
  · have h64 : i < 64 := by omega
    rw [bswap_getLsbD _ _ (by omega), bePos_eq s (l-1-i) h3 (by omega)]
    have : invIdx s - (l - 1) + i = invIdx s - (l - 1 - i) := by omega
    simp [hil, h64, this]
  · simp [hil]



theorem below_getLsbD (u : BitVec 64) (l i : Nat) (h : Below u l) (hi : l ≤ i) : u.getLsbD i = false := by
  unfold Below at h
  rw [BitVec.getLsbD]
  apply Nat.testBit_lt_two_pow
  calc u.toNat < 2^l := h
    _ ≤ 2^i := Nat.pow_le_pow_right (by omega) hi

theorem neg_succ_eq_not (y : BitVec 64) : BitVec.allOnes 64 * (y + 1#64) = ~~~ y := by
  have : BitVec.allOnes 64 = -1#64 := by decide
  rw [this, BitVec.neg_mul, BitVec.one_mul, BitVec.neg_eq_not_add, BitVec.not_add_one, BitVec.sub_add_cancel]

theorem one_shl_getLsbD (k j : Nat) : (1#64 <<< k).getLsbD j = (decide (j < 64) && decide (j = k)) := by
  rw [BitVec.getLsbD_shiftLeft]
  by_cases h1 : j < 64 <;> by_cases h2 : j < k <;> simp [h1, h2]
  · omega
  · by_cases h3 : j = k
    · subst h3; simp
    · have : j - k ≠ 0 := by omega
      simp [h3]; omega

theorem and_one_shl_eq_zero (u : BitVec 64) (k : Nat) (hk : k < 64) :
    (u &&& (1#64 <<< k) = 0#64) ↔ u.getLsbD k = false := by
  constructor
  · intro h
    have := congrArg (fun x => x.getLsbD k) h
    simp only [BitVec.getLsbD_and, one_shl_getLsbD] at this
    simpa [hk] using this
  · intro h
    apply BitVec.eq_of_getLsbD_eq
    intro j hj
    rw [BitVec.getLsbD_and, one_shl_getLsbD]
    by_cases hjk : j = k
    · subst hjk; simp [h]
    · simp [hjk]

theorem asSigned_eq (u : BitVec 64) (l : Nat) (h1 : 1 ≤ l) (h2 : l ≤ 64) (hu : Below u l) :
    asSigned u l = (u.setWidth l).signExtend 64 := by
  unfold asSigned
  split
  · next h => subst h; rfl
  split
  · next h => subst h; rfl
  split
  · next h => subst h; rfl
  split
  · next h =>
    subst h
    apply BitVec.eq_of_getLsbD_eq
    intro i hi
    simp [BitVec.getLsbD_signExtend, hi]
  next n8 n16 n32 n64 =>
  have hl : l < 64 := by omega
  have hk : (BitVec.ofNat 8 l - 1#8).toNat = l - 1 := by
    rw [BitVec.toNat_sub]; simp; omega
  simp only [hk]
  have hmsb : (BitVec.setWidth l u).msb = u.getLsbD (l - 1) := by
    rw [BitVec.msb_eq_getLsbD_last, BitVec.getLsbD_setWidth]; simp; omega
  apply BitVec.eq_of_getLsbD_eq
  intro i hi
  rw [BitVec.getLsbD_signExtend, hmsb, BitVec.getLsbD_setWidth]
  split
  · next hz =>
    rw [and_one_shl_eq_zero u (l-1) (by omega)] at hz
    by_cases hil : i < l
    · simp [hi, hil]
    · rw [hz, below_getLsbD u l i hu (by omega)]; simp [hil]
  · next hz =>
    rw [and_one_shl_eq_zero u (l-1) (by omega)] at hz
    have hz' : u.getLsbD (l-1) = true := by simpa using hz
    rw [neg_succ_eq_not, BitVec.getLsbD_not, BitVec.getLsbD_and, BitVec.getLsbD_not]
    have : (1#64 <<< (l - 1)) - 1#64 = mask (l-1) := rfl
    rw [this, mask_getLsbD, hz']
    by_cases hil : i < l
    · by_cases hil1 : i < l - 1
      · simp [hi, hil, hil1]
      · have : i = l - 1 := by omega
        subst this
        simp [hi, hil, hz']
    · have : ¬ (i < l - 1) := by omega
      simp [hi, hil, this]



theorem shl_getLsbD (v : BitVec 64) (s k : Nat) (hk : k < 64) :
    (v <<< s).getLsbD k = (decide (s ≤ k) && v.getLsbD (k - s)) := by
  rw [BitVec.getLsbD_shiftLeft]
  by_cases h : k < s
  · have : ¬ s ≤ k := by omega
    simp [hk, h, this]
  · have : s ≤ k := by omega
    simp [hk, h, this]

/-- the packed read-modify-write used by both setters -/
def rmw (p : BitVec 64) (lsb l : Nat) (v : BitVec 64) : BitVec 64 :=
  p &&& ~~~ (mask l <<< lsb) ||| (v <<< lsb)

theorem rmw_getLsbD (p v : BitVec 64) (lsb l k : Nat) (hk : k < 64) (hv : Below v l) :
    (rmw p lsb l v).getLsbD k =
      if lsb ≤ k ∧ k < lsb + l then v.getLsbD (k - lsb) else p.getLsbD k := by
  unfold rmw
  rw [BitVec.getLsbD_or, BitVec.getLsbD_and, BitVec.getLsbD_not, shl_getLsbD _ _ _ hk, shl_getLsbD _ _ _ hk,
    mask_getLsbD]
  by_cases h1 : lsb ≤ k
  · by_cases h2 : k < lsb + l
    · have a : k - lsb < l := by omega
      have b : k - lsb < 64 := by omega
      simp [hk, h1, h2, a, b]
    · have a : ¬ (k - lsb < l) := by omega
      have : v.getLsbD (k - lsb) = false := below_getLsbD v l _ hv (by omega)
      simp [hk, h1, h2, a, this]
  · simp [hk, h1]

theorem writeULE_eq (d : Data) (s l : Nat) (v : BitVec 64) : writeULE d s l v = rmw d s l v := rfl
theorem writeUBE_eq (d : Data) (s l : Nat) (v : BitVec 64) :
    writeUBE d s l v = bswap (rmw (bswap d) (beLsb s l) l v) := rfl

end CanVerif

