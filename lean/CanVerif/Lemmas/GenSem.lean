import CanVerif.Model.GenSem
import CanVerif.Props.C08
import CanVerif.Props.C01
/-! Lemmas about the denotation of generated messages (C03, C10, C11). -/
namespace CanVerif

/-- C11's width rule: the narrowest of 8/16/32/64 that holds the length -/
theorem goWidth_spec (L : Nat) (h : L ≤ 64) :
    (goWidth L = 8 ∨ goWidth L = 16 ∨ goWidth L = 32 ∨ goWidth L = 64) ∧ L ≤ goWidth L ∧
    ∀ w, (w = 8 ∨ w = 16 ∨ w = 32 ∨ w = 64) → L ≤ w → goWidth L ≤ w := by
  have e : goWidth L = (if L ≤ 8 then 8 else if L ≤ 16 then 16 else if L ≤ 32 then 32 else 64) := rfl
  refine ⟨?_, ?_, ?_⟩
  · rw [e]; split; exact Or.inl rfl; split; exact Or.inr (Or.inl rfl); split
    exact Or.inr (Or.inr (Or.inl rfl)); exact Or.inr (Or.inr (Or.inr rfl))
  · rw [e]; split; omega; split; omega; split <;> omega
  · intro w hw hl; rw [e]; split; omega; split; omega; split <;> omega

theorem kind_sint (s : DSignal) (w : Nat) (h : kindOf s = .sint w) :
    w = goWidth s.length ∧ s.signed = true ∧ s.length ≠ 1 := by
  unfold kindOf at h
  repeat' split at h
  all_goals (try cases h)
  all_goals simp_all

theorem kind_uint (s : DSignal) (w : Nat) (h : kindOf s = .uint w) :
    w = goWidth s.length ∧ s.length ≠ 1 ∧ (s.signed = false ∨ 64 < s.length) := by
  unfold kindOf at h
  repeat' split at h
  all_goals (try cases h)
  all_goals simp_all
  cases hs : s.signed <;> simp_all

theorem wrap_uint_id (w : Nat) (v : Int) (h0 : 0 ≤ v) (h : v < (2 ^ w : Int)) : wrapKind (.uint w) v = v := by
  unfold wrapKind; simp only; exact Int.emod_eq_of_lt h0 h

theorem wrap_sint_id (w : Nat) (hw : 1 ≤ w) (v : Int) (h0 : -(2 ^ (w - 1) : Int) ≤ v) (h : v < (2 ^ (w - 1) : Int)) :
    wrapKind (.sint w) v = v := by
  unfold wrapKind
  simp only
  have hp : (2 ^ w : Int) = 2 * 2 ^ (w - 1) := by
    have : w = (w - 1) + 1 := by omega
    rw [this, Int.pow_succ]; simp; omega
  by_cases hv : 0 ≤ v
  · have : v % (2 ^ w : Int) = v := Int.emod_eq_of_lt hv (by omega)
    rw [this]; simp; omega
  · have : v % (2 ^ w : Int) = v + 2 ^ w := by
      have h1 : (v + 2 ^ w) % (2 ^ w : Int) = v % 2 ^ w := by simp
      rw [← h1]; exact Int.emod_eq_of_lt (by omega) (by omega)
    rw [this]
    have : ¬ (v + 2 ^ w < (2:Int) ^ (w - 1)) := by omega
    simp; omega


theorem pow_le_pow_int (a b : Nat) (h : a ≤ b) : (2 ^ a : Int) ≤ 2 ^ b := by
  have : (2 ^ a : Nat) ≤ 2 ^ b := Nat.pow_le_pow_right (by omega) h
  exact_mod_cast this

/-- raw setters store a value inside the signal's representable range (integer and bool kinds) -/
theorem setRaw_inRange (s : DSignal) (v : Int) (h1 : 1 ≤ s.length) (h64 : s.length ≤ 64)
    (hk : kindOf s ≠ .float) : rawInRange s (setRaw s v) = true := by
  cases hkd : kindOf s with
  | float => exact absurd hkd hk
  | bool =>
    have e : setRaw s v = if v != 0 then 1 else 0 := by simp only [setRaw, hkd]
    simp only [rawInRange, hkd, e]
    split <;> simp
  | sint w =>
    obtain ⟨hw, _, _⟩ := kind_sint s w hkd
    obtain ⟨_, hlw, _⟩ := goWidth_spec s.length h64
    have e : setRaw s v = wrapKind (.sint w) (satSigned s.length (BitVec.ofInt 64 v)).toInt := by
      simp only [setRaw, hkd]
    have hs := C08_sat_signed s.length (BitVec.ofInt 64 v) h1 h64
    generalize (satSigned s.length (BitVec.ofInt 64 v)).toInt = r at *
    have hp : (0 : Int) < 2 ^ (s.length - 1) := Int.pow_pos (by omega)
    have hr : -(2 ^ (s.length - 1) : Int) ≤ r ∧ r ≤ 2 ^ (s.length - 1) - 1 := by rw [hs]; omega
    have hle := pow_le_pow_int (s.length - 1) (w - 1) (by omega)
    rw [e, wrap_sint_id w (by omega) r (by omega) (by omega)]
    simp only [rawInRange, hkd]
    simp; omega
  | uint w =>
    obtain ⟨hw, _, _⟩ := kind_uint s w hkd
    obtain ⟨_, hlw, _⟩ := goWidth_spec s.length h64
    have e : setRaw s v = wrapKind (.uint w) (satUnsigned s.length (BitVec.ofInt 64 v)).toNat := by
      simp only [setRaw, hkd]
    have hs := C08_sat_unsigned s.length (BitVec.ofInt 64 v) h1 h64
    generalize (satUnsigned s.length (BitVec.ofInt 64 v)).toNat = r at *
    have hp : 0 < 2 ^ s.length := Nat.pow_pos (by omega)
    have hr : r ≤ 2 ^ s.length - 1 := by rw [hs]; omega
    have hle : 2 ^ s.length ≤ 2 ^ w := Nat.pow_le_pow_right (by omega) (by omega)
    have hri : ((r : Nat) : Int) < (2 ^ w : Int) := by exact_mod_cast (by omega : r < 2 ^ w)
    have hb : ((r : Nat) : Int) ≤ (2 ^ s.length : Int) - 1 := by
      have h' : (r : Int) ≤ ((2 ^ s.length - 1 : Nat) : Int) := by exact_mod_cast hr
      have e' : ((2 ^ s.length - 1 : Nat) : Int) = (2 ^ s.length : Int) - 1 := by
        rw [Int.ofNat_sub hp]; simp
      omega
    rw [e, wrap_uint_id w r (by omega) hri]
    simp only [rawInRange, hkd]
    simp; omega

/-- replacing one in-range value keeps the invariant -/
theorem inv_setAt (sigs : List DSignal) (vals : List Raw) (i : Nat) (s : DSignal) (v : Raw)
    (hlen : vals.length = sigs.length) (hall : (sigs.zip vals).all (fun p => rawInRange p.1 p.2) = true)
    (hs : sigs[i]? = some s) (hv : rawInRange s v = true) :
    (sigs.zip (setAt vals i v)).all (fun p => rawInRange p.1 p.2) = true ∧ (setAt vals i v).length = sigs.length := by
  unfold setAt
  refine ⟨?_, by simp [hlen]⟩
  induction sigs generalizing vals i with
  | nil => simp
  | cons t ts ih =>
    cases vals with
    | nil => simp at hlen
    | cons u us =>
      cases i with
      | zero =>
        simp only [List.getElem?_cons_zero, Option.some.injEq] at hs
        subst hs
        simp only [List.set_cons_zero, List.zip_cons_cons, List.all_cons, Bool.and_eq_true] at hall ⊢
        exact ⟨hv, hall.2⟩
      | succ j =>
        simp only [List.getElem?_cons_succ] at hs
        simp only [List.set_cons_succ, List.zip_cons_cons, List.all_cons, Bool.and_eq_true] at hall ⊢
        exact ⟨hall.1, ih us j (by simpa using hlen) hall.2 hs⟩

end CanVerif
