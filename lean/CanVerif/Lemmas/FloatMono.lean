import CanVerif.Lemmas.FloatVal
/-! Rounded results as a monotone function of the exact rational result; `f64Add`, `f64Sub`, `f64Div` compute the
correctly rounded exact result for finite operands; hence subtraction of a constant and division by a constant are
monotone (antitone for a negative divisor) in the order key. -/
namespace CanVerif

def infKey : ℕ := 2047 * 2 ^ 52

theorem f64Inf_eq : f64Inf = infKey := by decide

def capB (b : ℕ) : ℕ := min b infKey

/-- the order key of the correctly rounded `± n/d` -/
def Kpair (neg : Bool) (n d : ℕ) : ℤ :=
  if n = 0 then 0 else (if neg then -1 else 1) * (capB (roundBits n d) : ℤ)

/-- the signed rational `± n/d` -/
def sv (neg : Bool) (n d : ℕ) : ℚ := (if neg then -1 else 1) * ((n:ℚ) / d)

theorem key_withSign (neg : Bool) (m : ℕ) (h : m < 2 ^ 63) :
    f64Key (f64WithSign neg m) = (if neg then -1 else 1) * (m : ℤ) := by
  unfold f64Key f64WithSign f64IsNeg f64Mag f64SignBit
  cases neg
  · have h1 : ¬ (m ≥ 2 ^ 63) := by omega
    simp only [Bool.false_eq_true, if_false, decide_eq_true_eq, h1, Nat.mod_eq_of_lt h]; simp
  · have h1 : 2 ^ 63 + m ≥ 2 ^ 63 := by omega
    have h2 : (2 ^ 63 + m) % 2 ^ 63 = m := by omega
    simp only [if_true, decide_eq_true_eq, h1, h2]; simp

theorem key_f64Round (neg : Bool) (n d : ℕ) (hd : 0 < d) : f64Key (f64Round neg n d) = Kpair neg n d := by
  unfold f64Round Kpair
  by_cases hn : n = 0
  · subst hn
    have : roundF64 0 d = some 0 := by unfold roundF64; simp
    rw [this]
    simp only [if_true]
    rw [key_withSign neg 0 (by decide)]; simp
  · have hn' : 0 < n := by omega
    simp only [hn, if_false]
    unfold roundF64
    have a : (n == 0) = false := by simpa using hn
    have b : (d == 0) = false := by simp; omega
    simp only [a, b, Bool.or_self, Bool.false_eq_true, if_false]
    by_cases ho : roundBits n d ≥ 2047 * 2 ^ 52
    · simp only [ho, if_true]
      have : capB (roundBits n d) = infKey := by unfold capB infKey; omega
      rw [this]
      unfold f64InfS
      have := key_withSign neg f64Inf (by decide)
      unfold f64WithSign at this
      rw [this, f64Inf_eq]
    · simp only [ho, if_false]
      have : capB (roundBits n d) = roundBits n d := by unfold capB infKey; omega
      rw [this]
      exact key_withSign neg _ (by omega)

theorem capB_mono (a b : ℕ) (h : a ≤ b) : capB a ≤ capB b := by unfold capB; omega

/-- the key of the rounded result is monotone in the exact result -/
theorem Kpair_mono (neg1 neg2 : Bool) (n1 d1 n2 d2 : ℕ) (hd1 : 0 < d1) (hd2 : 0 < d2)
    (h : sv neg1 n1 d1 ≤ sv neg2 n2 d2) : Kpair neg1 n1 d1 ≤ Kpair neg2 n2 d2 := by
  have q1 : (0:ℚ) < d1 := by exact_mod_cast hd1
  have q2 : (0:ℚ) < d2 := by exact_mod_cast hd2
  have v1 : (0:ℚ) ≤ (n1:ℚ) / d1 := by positivity
  have v2 : (0:ℚ) ≤ (n2:ℚ) / d2 := by positivity
  have pos : ∀ (n d : ℕ), 0 < n → 0 < d → (0:ℚ) < (n:ℚ) / d := by
    intro n d hn hd
    have : (0:ℚ) < n := by exact_mod_cast hn
    have : (0:ℚ) < d := by exact_mod_cast hd
    positivity
  unfold Kpair
  unfold sv at h
  by_cases z1 : n1 = 0 <;> by_cases z2 : n2 = 0
  · simp [z1, z2]
  · simp only [z1, if_true, z2, if_false]
    have p2 := pos n2 d2 (by omega) hd2
    cases neg2
    · simp
    · exfalso; subst z1; simp at h; linarith
  · simp only [z1, if_false, z2, if_true]
    have p1 := pos n1 d1 (by omega) hd1
    cases neg1
    · exfalso; subst z2; simp at h; linarith
    · simp
  · simp only [z1, z2, if_false]
    have p1 := pos n1 d1 (by omega) hd1
    have p2 := pos n2 d2 (by omega) hd2
    have cross : ∀ (a b c e : ℕ), 0 < b → 0 < e → (a:ℚ) / b ≤ (c:ℚ) / e → a * e ≤ c * b := by
      intro a b c e hb he hle
      have hb' : (0:ℚ) < b := by exact_mod_cast hb
      have he' : (0:ℚ) < e := by exact_mod_cast he
      rw [div_le_div_iff₀ hb' he'] at hle
      exact_mod_cast hle
    cases neg1 <;> cases neg2 <;> simp only [Bool.false_eq_true, if_false, if_true] at h ⊢
    · have := roundBits_mono n1 d1 n2 d2 (by omega) hd1 (by omega) hd2 (cross _ _ _ _ hd1 hd2 (by linarith))
      have := capB_mono _ _ this
      omega
    · exfalso; linarith
    · have a : (0:ℤ) ≤ (capB (roundBits n1 d1) : ℤ) := Int.natCast_nonneg _
      have b : (0:ℤ) ≤ (capB (roundBits n2 d2) : ℤ) := Int.natCast_nonneg _
      omega
    · have := roundBits_mono n2 d2 n1 d1 (by omega) hd2 (by omega) hd1 (cross _ _ _ _ hd2 hd1 (by linarith))
      have := capB_mono _ _ this
      omega

theorem notNaN_of_fin (a : F64) (h : f64Mag a < f64Inf) : f64IsNaN a = false ∧ f64IsInf a = false := by
  unfold f64IsNaN f64IsInf
  constructor
  · simp only [decide_eq_false_iff_not]; omega
  · simp only [beq_eq_false_iff_ne, ne_eq]; omega

theorem zpow_shift (m : ℕ) (e1 e : ℤ) (h : e ≤ e1) :
    ((m * 2 ^ (e1 - e).toNat : ℕ) : ℚ) * 2 ^ e = (m : ℚ) * 2 ^ e1 := by
  have h1 : (((e1 - e).toNat : ℕ) : ℤ) = e1 - e := by omega
  push_cast
  rw [mul_assoc, ← zpow_natCast, h1, ← zpow_add₀ (by norm_num : (2:ℚ) ≠ 0)]
  congr 2; omega

theorem sv_of_int (s : ℤ) (e : ℤ) (hs : s ≠ 0) :
    (if 0 ≤ e then sv (decide (s < 0)) (s.natAbs * 2 ^ e.toNat) 1 else sv (decide (s < 0)) s.natAbs (2 ^ (-e).toNat)) =
      (s : ℚ) * 2 ^ e := by
  have habs : ((s.natAbs : ℕ) : ℚ) = |(s : ℚ)| := by
    rw [← Int.cast_abs, Int.abs_eq_natAbs]; simp
  have hsign : (if decide (s < 0) = true then (-1 : ℚ) else 1) * |(s : ℚ)| = s := by
    by_cases h : s < 0
    · have : (s : ℚ) < 0 := by exact_mod_cast h
      simp [h, abs_of_neg this]
    · have : (0 : ℚ) ≤ s := by exact_mod_cast (not_lt.mp h)
      simp [h, abs_of_nonneg this]
  by_cases he : 0 ≤ e
  · simp only [he, if_true]
    unfold sv
    have h1 : ((e.toNat : ℕ) : ℤ) = e := by omega
    push_cast
    rw [habs, div_one, ← mul_assoc, hsign, ← zpow_natCast, h1]
  · simp only [he, if_false]
    unfold sv
    have h1 : (((-e).toNat : ℕ) : ℤ) = -e := by omega
    push_cast
    rw [habs, ← zpow_natCast, h1, zpow_neg, div_inv_eq_mul, ← mul_assoc, hsign]

/-- `f64Add` of finite operands is the correctly rounded exact sum -/
theorem add_exact (a b : F64) (ha : f64Mag a < f64Inf) (hb : f64Mag b < f64Inf) :
    ∃ neg n d, 0 < d ∧ f64Key (f64Add a b) = Kpair neg n d ∧ sv neg n d = fval a + fval b := by
  obtain ⟨na, ia⟩ := notNaN_of_fin a ha
  obtain ⟨nb, ib⟩ := notNaN_of_fin b hb
  unfold f64Add
  simp only [na, nb, ia, ib, Bool.false_eq_true, if_false]
  have va : mval a = ((f64Parts a).1 : ℚ) * 2 ^ (f64Parts a).2 := rfl
  have vb : mval b = ((f64Parts b).1 : ℚ) * 2 ^ (f64Parts b).2 := rfl
  cases hpa : f64Parts a with
  | mk m1 e1 =>
  cases hpb : f64Parts b with
  | mk m2 e2 =>
  rw [hpa] at va; rw [hpb] at vb
  simp only at va vb ⊢
  generalize he : (if e1 ≤ e2 then e1 else e2) = e
  have le1 : e ≤ e1 := by rw [← he]; split <;> omega
  have le2 : e ≤ e2 := by rw [← he]; split <;> omega
  generalize hs : ((if f64IsNeg a = true then -((m1 * 2 ^ (e1 - e).toNat : ℕ) : ℤ) else ((m1 * 2 ^ (e1 - e).toNat : ℕ) : ℤ)) +
      (if f64IsNeg b = true then -((m2 * 2 ^ (e2 - e).toNat : ℕ) : ℤ) else ((m2 * 2 ^ (e2 - e).toNat : ℕ) : ℤ))) = s
  -- the exact sum
  have hsum : fval a + fval b = (s : ℚ) * 2 ^ e := by
    unfold fval
    rw [va, vb, ← zpow_shift m1 e1 e le1, ← zpow_shift m2 e2 e le2, ← hs]
    cases f64IsNeg a <;> cases f64IsNeg b <;> simp only [Bool.false_eq_true, if_false, if_true] <;> push_cast <;> ring
  by_cases hz : s = 0
  · have : (s == 0) = true := by simpa using hz
    simp only [this, if_true]
    refine ⟨false, 0, 1, by decide, ?_, ?_⟩
    · unfold f64Zero Kpair
      split <;> simp [f64Key, f64IsNeg, f64Mag, f64SignBit]
    · rw [hsum, hz]; simp [sv]
  · have : (s == 0) = false := by simpa using hz
    simp only [this, Bool.false_eq_true, if_false]
    have hsv := sv_of_int s e hz
    by_cases hge : e ≥ 0
    · have hge' : 0 ≤ e := hge
      simp only [hge, if_true]
      simp only [hge', if_true] at hsv
      exact ⟨decide (s < 0), _, 1, by decide, key_f64Round _ _ _ (by decide), by rw [hsv, hsum]⟩
    · have hge' : ¬ 0 ≤ e := hge
      simp only [hge, if_false]
      simp only [hge', if_false] at hsv
      exact ⟨decide (s < 0), _, _, Nat.pow_pos (by decide), key_f64Round _ _ _ (Nat.pow_pos (by decide)), by rw [hsv, hsum]⟩

theorem key_zero (neg : Bool) : f64Key (f64Zero neg) = 0 := by
  unfold f64Zero; cases neg <;> simp [f64Key, f64IsNeg, f64Mag, f64SignBit]

/-- `f64Div` of a finite dividend by a finite non-zero divisor is the correctly rounded exact quotient -/
theorem div_exact (a b : F64) (ha : f64Mag a < f64Inf) (hb : f64Mag b < f64Inf) (hbz : f64Mag b ≠ 0) :
    ∃ neg n d, 0 < d ∧ f64Key (f64Div a b) = Kpair neg n d ∧ sv neg n d = fval a / fval b := by
  obtain ⟨na, ia⟩ := notNaN_of_fin a ha
  obtain ⟨nb, ib⟩ := notNaN_of_fin b hb
  have zb : f64IsZero b = false := by unfold f64IsZero; simpa using hbz
  unfold f64Div
  simp only [na, nb, ia, ib, zb, Bool.false_eq_true, if_false]
  by_cases za : f64IsZero a = true
  · simp only [za, if_true]
    refine ⟨false, 0, 1, by decide, ?_, ?_⟩
    · rw [key_zero]; simp [Kpair]
    · have : f64Mag a = 0 := by unfold f64IsZero at za; simpa using za
      have hv : mval a = 0 := (mval_zero_iff a ha).mpr this
      unfold fval sv; rw [hv]; simp
  · have za' : f64IsZero a = false := by simpa using za
    simp only [za', Bool.false_eq_true, if_false]
    have va : mval a = ((f64Parts a).1 : ℚ) * 2 ^ (f64Parts a).2 := rfl
    have vb : mval b = ((f64Parts b).1 : ℚ) * 2 ^ (f64Parts b).2 := rfl
    have hvb : mval b ≠ 0 := fun h => hbz ((mval_zero_iff b hb).mp h)
    cases hpa : f64Parts a with
    | mk m1 e1 =>
    cases hpb : f64Parts b with
    | mk m2 e2 =>
    rw [hpa] at va; rw [hpb] at vb
    simp only at va vb ⊢
    have hm2 : 0 < m2 := by
      rcases Nat.eq_zero_or_pos m2 with h | h
      · exfalso; apply hvb; rw [vb, h]; simp
      · exact h
    have hm2q : (0:ℚ) < m2 := by exact_mod_cast hm2
    have p2 := two_zpow_pos e2
    -- the exact quotient, with the sign of the xor
    have hq : fval a / fval b =
        (if (f64IsNeg a != f64IsNeg b) = true then (-1:ℚ) else 1) * (((m1:ℚ) * 2 ^ e1) / ((m2:ℚ) * 2 ^ e2)) := by
      unfold fval
      rw [va, vb]
      cases f64IsNeg a <;> cases f64IsNeg b <;> simp [neg_div, div_neg]
    have hsplit : ((m1:ℚ) * 2 ^ e1) / ((m2:ℚ) * 2 ^ e2) = (m1:ℚ) / m2 * 2 ^ (e1 - e2) := by
      rw [zpow_sub₀ (by norm_num : (2:ℚ) ≠ 0)]
      field_simp
    by_cases hge : e1 - e2 ≥ 0
    · simp only [hge, if_true]
      refine ⟨_, _, m2, hm2, key_f64Round _ _ _ hm2, ?_⟩
      rw [hq, hsplit]
      unfold sv
      have h1 : (((e1 - e2).toNat : ℕ) : ℤ) = e1 - e2 := by omega
      push_cast
      rw [← zpow_natCast, h1]
      congr 1
      field_simp
    · simp only [hge, if_false]
      have hd : 0 < m2 * 2 ^ (-(e1 - e2)).toNat := Nat.mul_pos hm2 (Nat.pow_pos (by decide))
      refine ⟨_, m1, _, hd, key_f64Round _ _ _ hd, ?_⟩
      rw [hq, hsplit]
      unfold sv
      have h1 : (((-(e1 - e2)).toNat : ℕ) : ℤ) = -(e1 - e2) := by omega
      push_cast
      rw [← zpow_natCast, h1, zpow_neg]
      congr 1
      field_simp

/-! ### monotonicity of `x ↦ x - c` and `x ↦ x / c` in the order key, infinities included -/

theorem Kpair_bound (neg : Bool) (n d : ℕ) : -(infKey : ℤ) ≤ Kpair neg n d ∧ Kpair neg n d ≤ (infKey : ℤ) := by
  unfold Kpair
  have h : (capB (roundBits n d) : ℤ) ≤ (infKey : ℤ) := by
    have : capB (roundBits n d) ≤ infKey := by unfold capB; omega
    exact_mod_cast this
  have h0 : (0 : ℤ) ≤ (capB (roundBits n d) : ℤ) := Int.natCast_nonneg _
  have hi : (0 : ℤ) ≤ (infKey : ℤ) := Int.natCast_nonneg _
  split
  · omega
  · cases neg <;> simp <;> omega

/-- non-NaN patterns: finite or infinite -/
def Ext (x : F64) : Prop := f64Mag x ≤ f64Inf

theorem key_bound (x : F64) (h : Ext x) : -(infKey : ℤ) ≤ f64Key x ∧ f64Key x ≤ (infKey : ℤ) := by
  unfold Ext at h; rw [f64Inf_eq] at h
  unfold f64Key
  have : (f64Mag x : ℤ) ≤ (infKey : ℤ) := by exact_mod_cast h
  split <;> omega

theorem key_fin_lt (x : F64) (h : f64Mag x < f64Inf) : -(infKey : ℤ) < f64Key x ∧ f64Key x < (infKey : ℤ) := by
  rw [f64Inf_eq] at h
  unfold f64Key
  have : (f64Mag x : ℤ) < (infKey : ℤ) := by exact_mod_cast h
  split <;> omega

theorem key_inf (x : F64) (h : f64Mag x = f64Inf) : f64Key x = if f64IsNeg x then -(infKey : ℤ) else (infKey : ℤ) := by
  unfold f64Key; rw [h, f64Inf_eq]

theorem ext_cases (x : F64) (h : Ext x) : f64Mag x < f64Inf ∨ f64Mag x = f64Inf := by
  unfold Ext at h; omega

theorem neg_mag (c : Nat) : f64Mag (f64Neg c) = f64Mag c := by
  unfold f64Neg f64Mag f64SignBit
  by_cases hc : c ≥ 2 ^ 63
  · rw [if_pos hc]
    have e : c = (c - 2 ^ 63) + 2 ^ 63 := by omega
    conv => rhs; rw [e, Nat.add_mod_right]
  · rw [if_neg hc, Nat.add_mod_right]

theorem neg_isNeg (c : Nat) (h : c < 2 ^ 64) : f64IsNeg (f64Neg c) = !f64IsNeg c := by
  unfold f64Neg f64IsNeg f64SignBit
  by_cases hc : c ≥ 2 ^ 63
  · have h1 : ¬ (c - 2 ^ 63 ≥ 2 ^ 63) := by omega
    rw [if_pos hc]
    simp only [decide_eq_true hc, h1, decide_false, Bool.not_true]
  · have h1 : c + 2 ^ 63 ≥ 2 ^ 63 := by omega
    rw [if_neg hc]
    simp only [decide_eq_false hc, decide_eq_true h1, Bool.not_false]

theorem fval_neg (c : F64) (h : c < 2 ^ 64) : fval (f64Neg c) = -fval c := by
  unfold fval mval
  have hp : f64Parts (f64Neg c) = f64Parts c := by unfold f64Parts; rw [neg_mag]
  rw [neg_isNeg c h, hp]
  cases f64IsNeg c <;> simp

theorem sub_inf (x c : F64) (hx : f64Mag x = f64Inf) (hc : f64Mag c < f64Inf) : f64Sub x c = x := by
  obtain ⟨nc, ic⟩ := notNaN_of_fin c hc
  have nx : f64IsNaN x = false := by unfold f64IsNaN; simp only [decide_eq_false_iff_not]; omega
  have ix : f64IsInf x = true := by unfold f64IsInf; simpa using hx
  have inn : f64IsInf (f64Neg c) = false := by unfold f64IsInf; rw [neg_mag]; simpa using (by omega : f64Mag c ≠ f64Inf)
  have nnn : f64IsNaN (f64Neg c) = false := by unfold f64IsNaN; rw [neg_mag]; simp only [decide_eq_false_iff_not]; omega
  unfold f64Sub f64Add
  simp [nc, nx, ix, inn, nnn]

/-- `x ↦ x - c` is monotone (finite `c`, non-NaN `x`) and its result is not NaN -/
theorem sub_mono (x1 x2 c : F64) (h1 : Ext x1) (h2 : Ext x2) (hc : f64Mag c < f64Inf) (hcw : c < 2 ^ 64)
    (h : f64Key x1 ≤ f64Key x2) :
    f64Key (f64Sub x1 c) ≤ f64Key (f64Sub x2 c) ∧ -(infKey : ℤ) ≤ f64Key (f64Sub x1 c) ∧ f64Key (f64Sub x2 c) ≤ (infKey : ℤ) := by
  obtain ⟨nc, _⟩ := notNaN_of_fin c hc
  have hnc : f64Mag (f64Neg c) < f64Inf := by rw [neg_mag]; exact hc
  have fin : ∀ x, f64Mag x < f64Inf → ∃ neg n d, 0 < d ∧ f64Key (f64Sub x c) = Kpair neg n d ∧ sv neg n d = fval x - fval c := by
    intro x hx
    obtain ⟨neg, n, d, hd, hk, hv⟩ := add_exact x (f64Neg c) hx hnc
    refine ⟨neg, n, d, hd, ?_, ?_⟩
    · unfold f64Sub; simp only [nc, Bool.false_eq_true, if_false]; exact hk
    · rw [hv, fval_neg c hcw]; ring
  rcases ext_cases x1 h1 with f1 | i1 <;> rcases ext_cases x2 h2 with f2 | i2
  · obtain ⟨g1, n1, d1, hd1, k1, v1⟩ := fin x1 f1
    obtain ⟨g2, n2, d2, hd2, k2, v2⟩ := fin x2 f2
    have hv : fval x1 ≤ fval x2 := (key_le_iff x1 x2 f1 f2).mp h
    rw [k1, k2]
    exact ⟨Kpair_mono _ _ _ _ _ _ hd1 hd2 (by rw [v1, v2]; linarith), (Kpair_bound _ _ _).1, (Kpair_bound _ _ _).2⟩
  · obtain ⟨g1, n1, d1, hd1, k1, v1⟩ := fin x1 f1
    rw [sub_inf x2 c i2 hc, k1]
    have hk2 := key_inf x2 i2
    have b1 := key_fin_lt x1 f1
    have kb := Kpair_bound g1 n1 d1
    cases hs : f64IsNeg x2 <;> rw [hs] at hk2 <;> simp only [Bool.false_eq_true, if_false, if_true] at hk2
    · rw [hk2]; exact ⟨kb.2, kb.1, le_refl _⟩
    · exfalso; omega
  · obtain ⟨g2, n2, d2, hd2, k2, v2⟩ := fin x2 f2
    rw [sub_inf x1 c i1 hc, k2]
    have hk1 := key_inf x1 i1
    have b2 := key_fin_lt x2 f2
    have kb := Kpair_bound g2 n2 d2
    cases hs : f64IsNeg x1 <;> rw [hs] at hk1 <;> simp only [Bool.false_eq_true, if_false, if_true] at hk1
    · exfalso; omega
    · rw [hk1]; exact ⟨kb.1, le_refl _, kb.2⟩
  · rw [sub_inf x1 c i1 hc, sub_inf x2 c i2 hc]
    exact ⟨h, (key_bound x1 h1).1, (key_bound x2 h2).2⟩

theorem div_inf (x c : F64) (hx : f64Mag x = f64Inf) (hc : f64Mag c < f64Inf) :
    f64Div x c = f64InfS (f64IsNeg x != f64IsNeg c) := by
  obtain ⟨nc, ic⟩ := notNaN_of_fin c hc
  have nx : f64IsNaN x = false := by unfold f64IsNaN; simp only [decide_eq_false_iff_not]; omega
  have ix : f64IsInf x = true := by unfold f64IsInf; simpa using hx
  unfold f64Div
  simp [nc, nx, ix, ic]

theorem key_infS (neg : Bool) : f64Key (f64InfS neg) = if neg then -(infKey : ℤ) else (infKey : ℤ) := by
  have := key_withSign neg f64Inf (by decide)
  unfold f64WithSign at this
  unfold f64InfS
  rw [this, f64Inf_eq]
  cases neg <;> simp

theorem fval_pos (c : F64) (hc : f64Mag c < f64Inf) (hz : f64Mag c ≠ 0) :
    (f64IsNeg c = false → 0 < fval c) ∧ (f64IsNeg c = true → fval c < 0) := by
  have h0 := mval_nonneg c
  have hne : mval c ≠ 0 := fun h => hz ((mval_zero_iff c hc).mp h)
  have hp : 0 < mval c := lt_of_le_of_ne h0 (Ne.symm hne)
  unfold fval
  constructor
  · intro h; rw [h]; simpa using hp
  · intro h; rw [h]; simpa using hp

/-- `x ↦ x / c` is monotone for a positive finite `c` and antitone for a negative one (non-NaN `x`) -/
theorem div_mono (x1 x2 c : F64) (h1 : Ext x1) (h2 : Ext x2) (hc : f64Mag c < f64Inf) (hz : f64Mag c ≠ 0)
    (h : f64Key x1 ≤ f64Key x2) :
    (if f64IsNeg c then f64Key (f64Div x2 c) ≤ f64Key (f64Div x1 c) else f64Key (f64Div x1 c) ≤ f64Key (f64Div x2 c)) ∧
    (-(infKey : ℤ) ≤ f64Key (f64Div x1 c) ∧ f64Key (f64Div x1 c) ≤ (infKey : ℤ)) ∧
    (-(infKey : ℤ) ≤ f64Key (f64Div x2 c) ∧ f64Key (f64Div x2 c) ≤ (infKey : ℤ)) := by
  obtain ⟨cpos, cneg⟩ := fval_pos c hc hz
  have fin : ∀ x, f64Mag x < f64Inf → ∃ neg n d, 0 < d ∧ f64Key (f64Div x c) = Kpair neg n d ∧ sv neg n d = fval x / fval c :=
    fun x hx => div_exact x c hx hc hz
  have hi : (0 : ℤ) ≤ (infKey : ℤ) := Int.natCast_nonneg _
  rcases ext_cases x1 h1 with f1 | i1 <;> rcases ext_cases x2 h2 with f2 | i2
  · obtain ⟨g1, n1, d1, hd1, k1, v1⟩ := fin x1 f1
    obtain ⟨g2, n2, d2, hd2, k2, v2⟩ := fin x2 f2
    have hv : fval x1 ≤ fval x2 := (key_le_iff x1 x2 f1 f2).mp h
    rw [k1, k2]
    refine ⟨?_, Kpair_bound _ _ _, Kpair_bound _ _ _⟩
    cases hs : f64IsNeg c
    · simp only [Bool.false_eq_true, if_false]
      exact Kpair_mono _ _ _ _ _ _ hd1 hd2 (by rw [v1, v2]; exact div_le_div_of_nonneg_right hv (le_of_lt (cpos hs)))
    · simp only [if_true]
      exact Kpair_mono _ _ _ _ _ _ hd2 hd1 (by rw [v1, v2]; exact div_le_div_of_nonpos_of_le (le_of_lt (cneg hs)) hv)
  · obtain ⟨g1, n1, d1, hd1, k1, v1⟩ := fin x1 f1
    have kb := Kpair_bound g1 n1 d1
    have hk2 := key_inf x2 i2
    have b1 := key_fin_lt x1 f1
    rw [div_inf x2 c i2 hc, key_infS, k1]
    cases hs2 : f64IsNeg x2 <;> rw [hs2] at hk2 <;> simp only [Bool.false_eq_true, if_false, if_true] at hk2
    · cases hs : f64IsNeg c <;> simp <;> omega
    · exfalso; omega
  · obtain ⟨g2, n2, d2, hd2, k2, v2⟩ := fin x2 f2
    have kb := Kpair_bound g2 n2 d2
    have hk1 := key_inf x1 i1
    have b2 := key_fin_lt x2 f2
    rw [div_inf x1 c i1 hc, key_infS, k2]
    cases hs1 : f64IsNeg x1 <;> rw [hs1] at hk1 <;> simp only [Bool.false_eq_true, if_false, if_true] at hk1
    · exfalso; omega
    · cases hs : f64IsNeg c <;> simp <;> omega
  · have hk1 := key_inf x1 i1
    have hk2 := key_inf x2 i2
    rw [div_inf x1 c i1 hc, div_inf x2 c i2 hc, key_infS, key_infS]
    cases hs1 : f64IsNeg x1 <;> cases hs2 : f64IsNeg x2 <;> rw [hs1] at hk1 <;> rw [hs2] at hk2 <;>
      simp only [Bool.false_eq_true, if_false, if_true] at hk1 hk2 <;> cases hs : f64IsNeg c <;> simp <;> omega

end CanVerif
