import CanVerif.Lemmas.FloatMono
/-! Integers up to 2^53 are exactly representable (`f64OfNat`), and a finite double between two integers truncates to
an integer between them: the float → integer conversions of the generated physical setters stay inside the raw range
whenever the raw bounds are exactly representable. -/
namespace CanVerif

theorem rhe_one (M : ℕ) : rhe M 1 = M := by
  unfold rhe; simp [Nat.mod_one]

def mkBits (E : ℤ) (M : ℕ) : ℕ := (E + 1074).toNat * 2 ^ 52 + M

/-- decoding `(E+1074)·2^52 + M` with a normalised `M` gives `(M, E)` back -/
theorem parts_of_bits (E : ℤ) (M : ℕ) (hE : -1074 ≤ E) (hE2 : E ≤ 971) (h1 : 2 ^ 52 ≤ M) (h2 : M < 2 ^ 53) :
    mkBits E M < 2 ^ 63 ∧ f64Mag (mkBits E M) = mkBits E M ∧ mkBits E M < f64Inf ∧ f64Parts (mkBits E M) = (M, E) := by
  have hk : (E + 1074).toNat ≤ 2045 := by omega
  have hk1 : ((E + 1074).toNat : ℤ) = E + 1074 := by omega
  have hbdef : mkBits E M = (E + 1074).toNat * 2 ^ 52 + M := rfl
  generalize (E + 1074).toNat = k at *
  generalize mkBits E M = b at *
  have hb : b < 2 ^ 63 := by omega
  have hm : f64Mag b = b := by unfold f64Mag f64SignBit; exact Nat.mod_eq_of_lt hb
  have hinf : b < f64Inf := by unfold f64Inf; omega
  refine ⟨hb, hm, hinf, ?_⟩
  unfold f64Parts
  rw [hm]
  have hdiv : b / 2 ^ 52 = k + 1 := by omega
  have hmod : b % 2 ^ 52 = M - 2 ^ 52 := by omega
  simp only [hdiv, hmod]
  have : (k + 1 == 0) = false := by simp
  simp only [this, Bool.false_eq_true, if_false]
  congr 1
  · omega
  · push_cast; omega

/-- natural numbers below 2^53 are exactly representable -/
theorem ofNat_exact (n : ℕ) (h0 : 0 < n) (h : n < 2 ^ 53) :
    f64IsNeg (f64OfNat n) = false ∧ f64Mag (f64OfNat n) < f64Inf ∧ fval (f64OfNat n) = n := by
  obtain ⟨p1, p2⟩ := pick_spec n 1 h0 (by decide)
  -- the exponent is not positive
  have hp : pickE n 1 ≤ 0 := by
    by_contra hc
    push Not at hc
    have : fl n 1 (pickE n 1) ≤ n / 2 := by
      unfold fl scN scD
      have e1 : (-(pickE n 1)).toNat = 0 := by omega
      have e2 : 1 ≤ (pickE n 1).toNat := by omega
      rw [e1]
      simp only [Nat.pow_zero, Nat.mul_one, Nat.one_mul]
      calc n / 2 ^ (pickE n 1).toNat ≤ n / 2 ^ 1 := Nat.div_le_div_left (Nat.pow_le_pow_right (by decide) e2) (by decide)
        _ = n / 2 := by simp
    omega
  generalize hpe : pickE n 1 = p at *
  have hM : fl n 1 p = n * 2 ^ (-p).toNat := by
    unfold fl scN scD
    have : p.toNat = 0 := by omega
    rw [this]; simp
  rw [hM] at p1 p2
  -- p > -53
  have hp2 : -53 < p := by
    by_contra hc
    push Not at hc
    have : 2 ^ 53 ≤ 2 ^ (-p).toNat := Nat.pow_le_pow_right (by decide) (by omega)
    have : 2 ^ 53 ≤ n * 2 ^ (-p).toNat := by
      calc 2 ^ 53 ≤ 2 ^ (-p).toNat := this
        _ = 1 * 2 ^ (-p).toNat := by simp
        _ ≤ n * 2 ^ (-p).toNat := Nat.mul_le_mul_right _ h0
    omega
  have hcl : clampE n 1 = p := by unfold clampE; rw [hpe]; split <;> omega
  have hbits : roundBits n 1 = mkBits p (n * 2 ^ (-p).toNat) := by
    unfold mkBits
    unfold roundBits
    simp only [hcl]
    unfold scN scD
    have : p.toNat = 0 := by omega
    rw [this]
    simp only [Nat.pow_zero, Nat.mul_one]
    rw [rhe_one]
  obtain ⟨b63, bmag, binf, bparts⟩ := parts_of_bits p (n * 2 ^ (-p).toNat) (by omega) (by omega) p1 p2
  have hof : f64OfNat n = mkBits p (n * 2 ^ (-p).toNat) := by
    unfold f64OfNat roundF64
    have a : (n == 0) = false := by simp; omega
    have b : ((1:ℕ) == 0) = false := by decide
    simp only [a, b, Bool.or_self, Bool.false_eq_true, if_false]
    rw [hbits]
    have : ¬ (mkBits p (n * 2 ^ (-p).toNat) ≥ 2047 * 2 ^ 52) := by
      unfold f64Inf at binf; omega
    simp only [this, if_false, Option.getD_some]
  rw [hof]
  refine ⟨?_, by rw [bmag]; exact binf, ?_⟩
  · unfold f64IsNeg f64SignBit; simp only [decide_eq_false_iff_not]; exact Nat.not_le.mpr b63
  · unfold fval mval
    have hneg : f64IsNeg (mkBits p (n * 2 ^ (-p).toNat)) = false := by
      unfold f64IsNeg f64SignBit; simp only [decide_eq_false_iff_not]; exact Nat.not_le.mpr b63
    rw [hneg, bparts]
    simp only [Bool.false_eq_true, if_false]
    have h1 : (((-p).toNat : ℕ) : ℤ) = -p := by omega
    push_cast
    rw [mul_assoc, ← zpow_natCast, h1, ← zpow_add₀ (by norm_num : (2:ℚ) ≠ 0)]
    simp

/-- truncation toward zero is the floor of the magnitude -/
theorem trunc_floor (b : F64) : (f64TruncMag b : ℚ) ≤ mval b ∧ mval b < (f64TruncMag b : ℚ) + 1 := by
  unfold f64TruncMag mval
  cases hp : f64Parts b with
  | mk m e =>
  simp only
  by_cases he : e ≥ 0
  · simp only [he, if_true]
    have h1 : ((e.toNat : ℕ) : ℤ) = e := by omega
    push_cast
    rw [← zpow_natCast, h1]
    constructor <;> linarith
  · simp only [he, if_false]
    have h1 : (((-e).toNat : ℕ) : ℤ) = -e := by omega
    have hk : (0:ℚ) < 2 ^ (-e).toNat := by positivity
    have hz : (2:ℚ) ^ e = 1 / 2 ^ (-e).toNat := by
      rw [← zpow_natCast, h1, zpow_neg]; simp
    rw [hz]
    have d1 := Nat.div_mul_le_self m (2 ^ (-e).toNat)
    have d2 := Nat.lt_mul_div_succ m (Nat.pow_pos (by decide : 0 < 2) (n := (-e).toNat))
    have d1q : ((m / 2 ^ (-e).toNat : ℕ) : ℚ) * 2 ^ (-e).toNat ≤ m := by exact_mod_cast d1
    have d2q : (m : ℚ) < 2 ^ (-e).toNat * (((m / 2 ^ (-e).toNat : ℕ) : ℚ) + 1) := by exact_mod_cast d2
    constructor
    · rw [mul_one_div, le_div_iff₀ hk]; exact d1q
    · rw [mul_one_div, div_lt_iff₀ hk]; linarith

/-- a finite double lying between two integers converts (`int64(f)`, truncation toward zero) to an integer between
them -/
theorem toInt64_between (r : F64) (hr : f64Mag r < f64Inf) (lo hi : ℤ) (hlo : -(2:ℤ) ^ 62 ≤ lo) (hhi : hi ≤ 2 ^ 62)
    (h1 : (lo : ℚ) ≤ fval r) (h2 : fval r ≤ (hi : ℚ)) : lo ≤ f64ToInt64 r ∧ f64ToInt64 r ≤ hi := by
  obtain ⟨nn, ni⟩ := notNaN_of_fin r hr
  obtain ⟨t1, t2⟩ := trunc_floor r
  have mn := mval_nonneg r
  unfold f64ToInt64
  simp only [nn, ni, Bool.or_self, Bool.false_eq_true, if_false]
  unfold fval at h1 h2
  generalize f64TruncMag r = t at *
  have hloq : (-(2:ℚ) ^ 62) ≤ (lo : ℚ) := by exact_mod_cast hlo
  have hhiq : (hi : ℚ) ≤ (2:ℚ) ^ 62 := by exact_mod_cast hhi
  cases hs : f64IsNeg r
  · -- non-negative
    rw [hs] at h1 h2
    simp only [Bool.false_eq_true, if_false] at h1 h2 ⊢
    have tq : (t : ℚ) ≤ (hi : ℚ) := by linarith
    have tle : (t : ℤ) ≤ hi := by exact_mod_cast tq
    have tlt : t < 2 ^ 63 := by
      have : (t : ℤ) < 2 ^ 63 := by omega
      exact_mod_cast this
    simp only [tlt, if_true]
    refine ⟨?_, tle⟩
    by_cases hl0 : lo ≤ 0
    · have : (0 : ℤ) ≤ (t : ℤ) := Int.natCast_nonneg _
      omega
    · -- lo is a positive integer below mval, hence at most its floor
      have : (lo : ℚ) < (t : ℚ) + 1 := by linarith
      have : lo < (t : ℤ) + 1 := by exact_mod_cast this
      omega
  · rw [hs] at h1 h2
    simp only [if_true] at h1 h2 ⊢
    have tq : (t : ℚ) ≤ -(lo : ℚ) := by linarith
    have tle : (t : ℤ) ≤ -lo := by exact_mod_cast tq
    have tlt : t ≤ 2 ^ 63 := by
      have : (t : ℤ) ≤ 2 ^ 63 := by omega
      exact_mod_cast this
    simp only [tlt, if_true]
    refine ⟨by omega, ?_⟩
    by_cases hh0 : 0 ≤ hi
    · have : (0 : ℤ) ≤ (t : ℤ) := Int.natCast_nonneg _
      omega
    · have : -(hi : ℚ) < (t : ℚ) + 1 := by linarith
      have : -hi < (t : ℤ) + 1 := by exact_mod_cast this
      omega

def c63 : F64 := 0x43E0000000000000

theorem ofNat_2_63 : f64OfNat (2 ^ 63) = c63 := by decide +kernel

theorem c63_facts : f64Mag c63 < f64Inf ∧ f64IsNaN c63 = false ∧ fval c63 = 2 ^ 63 := by
  refine ⟨by decide, by decide, ?_⟩
  have hp : f64Parts c63 = (2 ^ 52, 11) := by decide
  have hn : f64IsNeg c63 = false := by decide
  unfold fval mval
  rw [hn, hp]
  norm_num

theorem f64Lt_eq (a b : F64) (ha : f64IsNaN a = false) (hb : f64IsNaN b = false) :
    f64Lt a b = decide (f64Key a < f64Key b) := by
  unfold f64Lt f64Key
  simp only [ha, hb, Bool.or_self, Bool.false_eq_true, if_false]

/-- `uint64(f)` of a finite non-negative double below 2^63 is the truncated value -/
theorem toUint64_eq (r : F64) (hr : f64Mag r < f64Inf) (h0 : 0 ≤ f64ToInt64 r) (hlt : f64ToInt64 r < 2 ^ 63)
    (hv : fval r < 2 ^ 63) : (f64ToUint64 r : ℤ) = f64ToInt64 r := by
  obtain ⟨nn, _⟩ := notNaN_of_fin r hr
  obtain ⟨cf, cn, cv⟩ := c63_facts
  have hk : f64Key r < f64Key c63 := by
    by_contra hc
    push Not at hc
    have := (key_le_iff c63 r cf hr).mp hc
    rw [cv] at this
    linarith
  unfold f64ToUint64
  simp only [ofNat_2_63, f64Lt_eq r c63 nn cn, hk, decide_true, if_true]
  have : f64ToInt64 r % 2 ^ 64 = f64ToInt64 r := Int.emod_eq_of_lt h0 (by omega)
  rw [this, Int.toNat_of_nonneg h0]

/-- the conversions of the generated physical setters, when the truncated value fits the accessor type -/
theorem toIntType_signed (w : ℕ) (hw : w = 8 ∨ w = 16 ∨ w = 32 ∨ w = 64) (r : F64) (hr : f64Mag r < f64Inf)
    (h1 : -(2 : ℤ) ^ (w - 1) ≤ f64ToInt64 r) (h2 : f64ToInt64 r < (2 : ℤ) ^ (w - 1)) :
    f64ToIntType true w r = f64ToInt64 r := by
  obtain ⟨nn, ni⟩ := notNaN_of_fin r hr
  unfold f64ToIntType
  generalize f64ToInt64 r = v at *
  rcases hw with rfl | rfl | rfl | rfl
  · norm_num at h1 h2
    have c : ¬ (v < -(2 ^ 31 : ℤ) ∨ v ≥ (2 ^ 31 : ℤ)) := by omega
    simp [nn, ni, c]
    omega
  · norm_num at h1 h2
    have c : ¬ (v < -(2 ^ 31 : ℤ) ∨ v ≥ (2 ^ 31 : ℤ)) := by omega
    simp [nn, ni, c]
    omega
  · norm_num at h1 h2
    have c : ¬ (v < -(2 ^ 31 : ℤ) ∨ v ≥ (2 ^ 31 : ℤ)) := by omega
    simp [nn, ni, c]
    omega
  · simp

theorem toIntType_unsigned (w : ℕ) (hw : w = 8 ∨ w = 16 ∨ w = 32 ∨ w = 64) (r : F64) (hr : f64Mag r < f64Inf)
    (h1 : 0 ≤ f64ToInt64 r) (h2 : f64ToInt64 r < (2 : ℤ) ^ w) (h3 : f64ToInt64 r < 2 ^ 63) (hv : fval r < 2 ^ 63) :
    f64ToIntType false w r = f64ToInt64 r := by
  obtain ⟨nn, ni⟩ := notNaN_of_fin r hr
  have h64 := toUint64_eq r hr h1 h3 hv
  unfold f64ToIntType
  generalize f64ToInt64 r = v at *
  rcases hw with rfl | rfl | rfl | rfl
  · norm_num at h2
    have c : ¬ (v < -(2 ^ 31 : ℤ) ∨ v ≥ (2 ^ 31 : ℤ)) := by omega
    simp [nn, ni, c]
    omega
  · norm_num at h2
    have c : ¬ (v < -(2 ^ 31 : ℤ) ∨ v ≥ (2 ^ 31 : ℤ)) := by omega
    simp [nn, ni, c]
    omega
  · norm_num at h2
    simp
    omega
  · simp [h64]

end CanVerif
