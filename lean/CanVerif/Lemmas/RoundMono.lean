import Mathlib.Tactic.Linarith
import Mathlib.Tactic.Positivity
import Mathlib.Tactic.FieldSimp
import Mathlib.Tactic.Ring
import Mathlib.Algebra.Order.Field.Power
import Mathlib.Data.Rat.Cast.Order
import CanVerif.Lemmas.Round
/-! Monotonicity of `roundBits` (hence of `roundF64`) in the rational being rounded.  This is the only part of the
development that uses Mathlib (ℚ, `zpow`, `nlinarith`): proof modules only, the model stays core Lean. -/
namespace CanVerif

theorem two_zpow_split (e : ℤ) : (2:ℚ) ^ (-e).toNat / 2 ^ e.toNat = 2 ^ (-e) := by
  by_cases h : e < 0
  · have h1 : e.toNat = 0 := by omega
    have h2 : ((-e).toNat : ℤ) = -e := by omega
    rw [h1, pow_zero, div_one, ← zpow_natCast, h2]
  · have h1 : (-e).toNat = 0 := by omega
    have h2 : (e.toNat : ℤ) = e := by omega
    have h3 : (2:ℚ) ^ e = 2 ^ e.toNat := by rw [← zpow_natCast, h2]
    rw [h1, pow_zero, zpow_neg, h3, one_div]

/-- the scaled fraction as a rational -/
theorem scale_q (n d : ℕ) (e : ℤ) : ((scN n e : ℕ) : ℚ) / ((scD d e : ℕ) : ℚ) = (n:ℚ) / d * 2 ^ (-e) := by
  unfold scN scD
  push_cast
  rw [← two_zpow_split e]
  ring

theorem scD_q_pos (d : ℕ) (e : ℤ) (hd : 0 < d) : (0:ℚ) < ((scD d e : ℕ) : ℚ) := by
  exact_mod_cast scD_pos d e hd

/-- thresholds of the floor, as inequalities about the value -/
theorem fl_ge_q (n d : ℕ) (e : ℤ) (K : ℕ) (hd : 0 < d) : K ≤ fl n d e ↔ (K:ℚ) ≤ (n:ℚ) / d * 2 ^ (-e) := by
  rw [fl_ge_iff n d e K hd, ← scale_q, le_div_iff₀ (scD_q_pos d e hd)]
  exact_mod_cast Iff.rfl

theorem fl_lt_q (n d : ℕ) (e : ℤ) (K : ℕ) (hd : 0 < d) : fl n d e < K ↔ (n:ℚ) / d * 2 ^ (-e) < (K:ℚ) := by
  rw [fl_lt_iff n d e K hd, ← scale_q, div_lt_iff₀ (scD_q_pos d e hd)]
  exact_mod_cast Iff.rfl

/-- round-half-even is monotone in the fraction it rounds -/
theorem rhe_mono (N1 D1 N2 D2 : ℕ) (hD1 : 0 < D1) (hD2 : 0 < D2) (h : N1 * D2 ≤ N2 * D1) :
    rhe N1 D1 ≤ rhe N2 D2 := by
  have e1 := Nat.div_add_mod N1 D1
  have e2 := Nat.div_add_mod N2 D2
  have r1 := Nat.mod_lt N1 hD1
  have r2 := Nat.mod_lt N2 hD2
  unfold rhe
  simp only
  generalize N1 / D1 = q1 at *
  generalize N2 / D2 = q2 at *
  generalize N1 % D1 = a at *
  generalize N2 % D2 = b at *
  subst e1; subst e2
  -- q1 ≤ q2
  have hq : q1 ≤ q2 := by
    by_contra hc
    push_neg at hc
    have : q2 + 1 ≤ q1 := hc
    nlinarith [Nat.mul_le_mul_right D2 (Nat.mul_le_mul_left D1 this)]
  rcases Nat.lt_or_eq_of_le hq with hlt | heq
  · -- different integer parts
    split <;> split <;> omega
  · subst heq
    -- same integer part: compare the remainders a/D1 ≤ b/D2
    have hab : a * D2 ≤ b * D1 := by nlinarith
    by_cases u1 : 2 * a > D1
    · have u2 : 2 * b > D2 := by
        by_contra hc; push_neg at hc
        nlinarith
      simp [u1, u2]
    · by_cases t1 : 2 * a = D1 ∧ q1 % 2 = 1
      · have : 2 * b ≥ D2 := by
          by_contra hc; push_neg at hc
          nlinarith [t1.1]
        rcases Nat.lt_or_eq_of_le this with g | g
        · have u2 : 2 * b > D2 := g
          simp [u2]
          split <;> omega
        · have u2 : ¬ 2 * b > D2 := by omega
          have t2 : 2 * b = D2 := g.symm
          simp [u1, u2, t1.1, t1.2, t2]
      · have hup1 : (decide (2 * a > D1) || (decide (2 * a = D1) && q1 % 2 == 1)) = false := by
          simp only [Bool.or_eq_false_iff, decide_eq_false_iff_not, Bool.and_eq_false_iff, beq_eq_false_iff_ne]
          refine ⟨u1, ?_⟩
          by_cases c : 2 * a = D1
          · right; intro e; exact t1 ⟨c, e⟩
          · left; exact c
        rw [hup1]
        simp only [Bool.false_eq_true, if_false]
        split <;> omega

theorem two_zpow_pos (e : ℤ) : (0:ℚ) < 2 ^ e := zpow_pos (by norm_num) e

/-- the (clamped) exponent is monotone in the value -/
theorem clampE_mono (n1 d1 n2 d2 : ℕ) (hn1 : 0 < n1) (hd1 : 0 < d1) (hn2 : 0 < n2) (hd2 : 0 < d2)
    (hle : (n1:ℚ) / d1 ≤ (n2:ℚ) / d2) : clampE n1 d1 ≤ clampE n2 d2 := by
  obtain ⟨_, _, b1⟩ := clamp_spec n1 d1 hn1 hd1
  obtain ⟨a2, lo2, _⟩ := clamp_spec n2 d2 hn2 hd2
  by_contra hc
  push_neg at hc
  have hb := (fl_ge_q n1 d1 _ (2 ^ 52) hd1).mp (b1 (by omega))
  have ha := (fl_lt_q n2 d2 _ (2 ^ 53) hd2).mp a2
  push_cast at hb ha
  generalize clampE n1 d1 = E1 at *
  generalize clampE n2 d2 = E2 at *
  -- v1 ≥ 2^(52+E1),  v2 < 2^(53+E2) ≤ 2^(52+E1)
  have p1 := two_zpow_pos E1
  have p2 := two_zpow_pos E2
  have h1 : (2:ℚ) ^ (52:ℤ) * 2 ^ E1 ≤ (n1:ℚ) / d1 := by
    have : (n1:ℚ) / d1 * 2 ^ (-E1) * 2 ^ E1 = (n1:ℚ) / d1 := by
      rw [mul_assoc, ← zpow_add₀ (by norm_num : (2:ℚ) ≠ 0)]; simp
    calc (2:ℚ) ^ (52:ℤ) * 2 ^ E1 = 2 ^ 52 * 2 ^ E1 := by norm_num
      _ ≤ (n1:ℚ) / d1 * 2 ^ (-E1) * 2 ^ E1 := by apply mul_le_mul_of_nonneg_right hb (le_of_lt p1)
      _ = (n1:ℚ) / d1 := this
  have h2 : (n2:ℚ) / d2 < (2:ℚ) ^ (53:ℤ) * 2 ^ E2 := by
    have : (n2:ℚ) / d2 * 2 ^ (-E2) * 2 ^ E2 = (n2:ℚ) / d2 := by
      rw [mul_assoc, ← zpow_add₀ (by norm_num : (2:ℚ) ≠ 0)]; simp
    calc (n2:ℚ) / d2 = (n2:ℚ) / d2 * 2 ^ (-E2) * 2 ^ E2 := this.symm
      _ < 2 ^ 53 * 2 ^ E2 := by apply mul_lt_mul_of_pos_right ha p2
      _ = (2:ℚ) ^ (53:ℤ) * 2 ^ E2 := by norm_num
  rw [← zpow_add₀ (by norm_num : (2:ℚ) ≠ 0)] at h1 h2
  have h3 : (2:ℚ) ^ (53 + E2) ≤ 2 ^ (52 + E1) :=
    zpow_le_zpow_right₀ (by norm_num) (by omega)
  linarith

/-- `roundBits` is monotone in the value it rounds -/
theorem roundBits_mono (n1 d1 n2 d2 : ℕ) (hn1 : 0 < n1) (hd1 : 0 < d1) (hn2 : 0 < n2) (hd2 : 0 < d2)
    (hle : n1 * d2 ≤ n2 * d1) : roundBits n1 d1 ≤ roundBits n2 d2 := by
  have hq : (n1:ℚ) / d1 ≤ (n2:ℚ) / d2 := by
    rw [div_le_div_iff₀ (by exact_mod_cast hd1) (by exact_mod_cast hd2)]
    exact_mod_cast hle
  have hE := clampE_mono n1 d1 n2 d2 hn1 hd1 hn2 hd2 hq
  obtain ⟨a1, lo1, b1⟩ := clamp_spec n1 d1 hn1 hd1
  obtain ⟨a2, lo2, b2⟩ := clamp_spec n2 d2 hn2 hd2
  unfold roundBits
  simp only
  generalize hE1 : clampE n1 d1 = E1 at *
  generalize hE2 : clampE n2 d2 = E2 at *
  -- rhe of a fraction whose floor is below 2^53 is at most 2^53
  have rle : ∀ (N D : ℕ), 0 < D → N / D < 2 ^ 53 → rhe N D ≤ 2 ^ 53 := by
    intro N D _ h; unfold rhe; simp only; split <;> omega
  have rge : ∀ (N D : ℕ), N / D ≤ rhe N D := by
    intro N D; unfold rhe; simp only; split <;> omega
  rcases lt_or_eq_of_le hE with hlt | heq
  · -- a lower binade: at most the first value of the next one
    have u1 : rhe (scN n1 E1) (scD d1 E1) ≤ 2 ^ 53 := rle _ _ (scD_pos d1 E1 hd1) a1
    have u2 : 2 ^ 52 ≤ rhe (scN n2 E2) (scD d2 E2) := le_trans (b2 (by omega)) (rge _ _)
    have : (E1 + 1074).toNat + 1 ≤ (E2 + 1074).toNat := by omega
    have := Nat.mul_le_mul_right (2 ^ 52) this
    omega
  · subst heq
    have hr : rhe (scN n1 E1) (scD d1 E1) ≤ rhe (scN n2 E1) (scD d2 E1) := by
      apply rhe_mono _ _ _ _ (scD_pos d1 E1 hd1) (scD_pos d2 E1 hd2)
      unfold scN scD
      calc n1 * 2 ^ (-E1).toNat * (d2 * 2 ^ E1.toNat) = (n1 * d2) * (2 ^ (-E1).toNat * 2 ^ E1.toNat) := by ring
        _ ≤ (n2 * d1) * (2 ^ (-E1).toNat * 2 ^ E1.toNat) := Nat.mul_le_mul_right _ hle
        _ = n2 * 2 ^ (-E1).toNat * (d1 * 2 ^ E1.toNat) := by ring
    omega

end CanVerif
