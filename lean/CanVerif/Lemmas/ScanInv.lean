import CanVerif.Model.TextScanner
import CanVerif.Lemmas.TripleBridge
/-! Offsets of the `text/scanner` model stay inside the source, and an identifier token has a non-empty text.
(Separate from ScanProgress.lean: the two families of specifications are registered for the verification-condition
generator independently.) -/
open Std.Do
namespace CanVerif

/-- bytes taken by the characters not yet read -/
def W : List SrcCh → Nat
  | [] => 0
  | c :: r => (if c.bad then 1 else c.w) + W r

/-- every well-formed character is at least one byte wide -/
def WF (l : List SrcCh) : Prop := ∀ x ∈ l, x.bad = false → 1 ≤ x.w

/-- start offset of the look-ahead character -/
def E (s : Sc) : Nat := s.off - s.lastCharLen

/-- invariant of a scanner state `s` with look-ahead character `c` -/
structure ScInv (c : Int) (s : Sc) : Prop where
  size : s.off + W s.rest ≤ s.src.size
  last : s.lastCharLen ≤ s.off
  look : 0 ≤ c → 1 ≤ s.lastCharLen
  ge : -1 ≤ c
  wf : WF s.rest

/-- invariant of a stored state (look-ahead in `s.ch`, `-2` = nothing read yet) -/
def StInv (s : Sc) : Prop :=
  (s.ch = -2 ∧ s.off + W s.rest ≤ s.src.size ∧ s.lastCharLen ≤ s.off ∧ WF s.rest) ∨ ScInv s.ch s

theorem WF_tail {x : SrcCh} {r : List SrcCh} (h : WF (x :: r)) : WF r :=
  fun y hy => h y (List.mem_cons_of_mem _ hy)

/-- `next` keeps the invariant; the new look-ahead starts where the offset was -/
theorem next_inv (s s' : Sc) (c' : Int) (hsz : s.off + W s.rest ≤ s.src.size) (hl : s.lastCharLen ≤ s.off)
    (hwf : WF s.rest) (h : s.next = .ok (c', s')) :
    ScInv c' s' ∧ E s' = s.off ∧ s'.src = s.src := by
  unfold Sc.next at h
  cases hr : s.rest with
  | nil =>
    rw [hr] at h
    simp only [Except.ok.injEq, Prod.mk.injEq] at h
    obtain ⟨rfl, rfl⟩ := h
    refine ⟨⟨?_, ?_, ?_, ?_, ?_⟩, ?_, rfl⟩
    · simpa [hr, W] using hsz
    · simp
    · intro h; omega
    · omega
    · simpa [hr] using hwf
    · simp [E]
  | cons x r =>
    rw [hr] at h hsz hwf
    simp only at h
    have hx := hwf x List.mem_cons_self
    have hwr := WF_tail hwf
    simp only [W] at hsz
    split at h
    · cases h
    · next hb =>
      have hb' : x.bad = false := by simpa using hb
      have hw := hx hb'
      simp only [hb', Bool.false_eq_true, if_false] at hsz
      split at h
      · cases h
      · split at h
        · simp only [Except.ok.injEq, Prod.mk.injEq] at h
          obtain ⟨rfl, rfl⟩ := h
          exact ⟨⟨by simp; omega, by simp, fun _ => by simpa using hw, by omega, by simpa using hwr⟩, by simp [E], rfl⟩
        · simp only [Except.ok.injEq, Prod.mk.injEq] at h
          obtain ⟨rfl, rfl⟩ := h
          exact ⟨⟨by simp; omega, by simp, fun _ => by simpa using hw, by
            have : (0:Int) ≤ (x.r : Int) := Int.natCast_nonneg _
            omega, by simpa using hwr⟩, by simp [E], rfl⟩

theorem next_inv' (c : Int) (s s' : Sc) (c' : Int) (hi : ScInv c s) (h : s.next = .ok (c', s')) :
    ScInv c' s' ∧ E s ≤ E s' ∧ E s' = s.off ∧ s'.src = s.src := by
  obtain ⟨a, b, d⟩ := next_inv s s' c' hi.size hi.last hi.wf h
  refine ⟨a, ?_, b, d⟩
  rw [b]; unfold E; omega

/-- what every scanner step guarantees about the pair (look-ahead, state) it returns -/
def Step (s : Sc) (c' : Int) (s' : Sc) : Prop := ScInv c' s' ∧ E s ≤ E s' ∧ s'.src = s.src

theorem Step.refl {c : Int} {s : Sc} (h : ScInv c s) : Step s c s := ⟨h, Nat.le_refl _, rfl⟩
theorem Step.trans {s s1 s2 : Sc} {c1 c2 : Int} (a : Step s c1 s1) (b : Step s1 c2 s2) : Step s c2 s2 :=
  ⟨b.1, Nat.le_trans a.2.1 b.2.1, b.2.2.trans a.2.2⟩
theorem Step.next {c : Int} {s s' : Sc} {c' : Int} (hi : ScInv c s) (h : s.next = .ok (c', s')) : Step s c' s' :=
  let ⟨a, b, _, d⟩ := next_inv' c s s' c' hi h; ⟨a, b, d⟩

theorem skipWs_inv (fuel : Nat) (c c' : Int) (s s' : Sc) (hi : ScInv c s) (h : skipWsLoop fuel c s = .ok (c', s')) :
    Step s c' s' := by
  induction fuel generalizing c s with
  | zero => simp [skipWsLoop] at h
  | succ n ih =>
    unfold skipWsLoop at h
    split at h
    · cases hn : s.next with
      | error e => rw [hn] at h; cases h
      | ok p =>
        obtain ⟨c1, s1⟩ := p
        rw [hn] at h
        have st := Step.next hi hn
        exact st.trans (ih c1 s1 st.1 h)
    · simp only [Except.ok.injEq, Prod.mk.injEq] at h; obtain ⟨rfl, rfl⟩ := h; exact Step.refl hi

theorem ident_inv (fuel i : Nat) (c c' : Int) (s s' : Sc) (hi : ScInv c s) (h : identLoop fuel i c s = .ok (c', s')) :
    Step s c' s' := by
  induction fuel generalizing c s i with
  | zero => simp [identLoop] at h
  | succ n ih =>
    unfold identLoop at h
    split at h
    · cases hn : s.next with
      | error e => rw [hn] at h; cases h
      | ok p =>
        obtain ⟨c1, s1⟩ := p
        rw [hn] at h
        have st := Step.next hi hn
        exact st.trans (ih (i + 1) c1 s1 st.1 h)
    · simp only [Except.ok.injEq, Prod.mk.injEq] at h; obtain ⟨rfl, rfl⟩ := h; exact Step.refl hi

theorem digits_inv (fuel : Nat) (c : Int) (base ds : Nat) (inv : Int) (s : Sc) (r : Int × Nat × Int × Sc)
    (hi : ScInv c s) (h : digitsLoop fuel c base ds inv s = .ok r) : Step s r.1 r.2.2.2 := by
  induction fuel generalizing c s ds inv with
  | zero => simp [digitsLoop] at h
  | succ n ih =>
    unfold digitsLoop at h
    split at h
    · split at h
      · cases hn : s.next with
        | error e => rw [hn] at h; cases h
        | ok p =>
          obtain ⟨c1, s1⟩ := p
          rw [hn] at h
          have st := Step.next hi hn
          exact st.trans (ih c1 _ _ s1 st.1 h)
      · simp only [Except.ok.injEq] at h; subst h; exact Step.refl hi
    · split at h
      · cases hn : s.next with
        | error e => rw [hn] at h; cases h
        | ok p =>
          obtain ⟨c1, s1⟩ := p
          rw [hn] at h
          have st := Step.next hi hn
          exact st.trans (ih c1 _ _ s1 st.1 h)
      · simp only [Except.ok.injEq] at h; subst h; exact Step.refl hi

/-! ### positions: errors and tokens are positioned at or after the look-ahead character -/

theorem pos_offset (s : Sc) : s.pos.offset = E s := by
  unfold Sc.pos E
  simp only
  split
  · rfl
  · split <;> rfl

theorem E_le_off (s : Sc) : E s ≤ s.off := by unfold E; omega

theorem next_err_pos (s : Sc) (e : ScanErr) (h : s.next = .error e) : E s ≤ e.pos.offset := by
  unfold Sc.next at h
  split at h
  · cases h
  · split at h
    · cases h
      simp only [pos_offset, E]
      omega
    · split at h
      · cases h
        simp only [pos_offset, E]
        omega
      · split at h <;> cases h

/-- result of a scanner step started in `s`: a `Step` on success, an error positioned at or after the look-ahead -/
def StepR {α : Type} (s : Sc) (proj : α → Int × Sc) (r : Except ScanErr α) : Prop :=
  match r with
  | .ok a => Step s (proj a).1 (proj a).2
  | .error e => E s ≤ e.pos.offset

theorem skipWs_stepR (fuel : Nat) (c : Int) (s : Sc) (hi : ScInv c s) : StepR s id (skipWsLoop fuel c s) := by
  induction fuel generalizing c s with
  | zero => simp [skipWsLoop, StepR, pos_offset]
  | succ n ih =>
    unfold skipWsLoop
    split
    · cases hn : s.next with
      | error e => exact next_err_pos s e hn
      | ok p =>
        obtain ⟨c1, s1⟩ := p
        have st := Step.next hi hn
        have h1 := ih c1 s1 st.1
        simp only [bind, Except.bind]
        revert h1
        unfold StepR
        cases skipWsLoop n c1 s1 with
        | ok r => intro h; exact st.trans h
        | error e => intro h; exact Nat.le_trans st.2.1 h
    · exact Step.refl hi

theorem ident_stepR (fuel i : Nat) (c : Int) (s : Sc) (hi : ScInv c s) : StepR s id (identLoop fuel i c s) := by
  induction fuel generalizing c s i with
  | zero => simp [identLoop, StepR, pos_offset]
  | succ n ih =>
    unfold identLoop
    split
    · cases hn : s.next with
      | error e => exact next_err_pos s e hn
      | ok p =>
        obtain ⟨c1, s1⟩ := p
        have st := Step.next hi hn
        have h1 := ih (i + 1) c1 s1 st.1
        simp only [bind, Except.bind]
        revert h1
        unfold StepR
        cases identLoop n (i + 1) c1 s1 with
        | ok r => intro h; exact st.trans h
        | error e => intro h; exact Nat.le_trans st.2.1 h
    · exact Step.refl hi

theorem digits_stepR (fuel : Nat) (c : Int) (base ds : Nat) (inv : Int) (s : Sc) (hi : ScInv c s) :
    StepR s (fun r : Int × Nat × Int × Sc => (r.1, r.2.2.2)) (digitsLoop fuel c base ds inv s) := by
  induction fuel generalizing c s ds inv with
  | zero => simp [digitsLoop, StepR, pos_offset]
  | succ n ih =>
    have step : ∀ (ds' : Nat) (inv' : Int),
        StepR s (fun r : Int × Nat × Int × Sc => (r.1, r.2.2.2))
          (do let (c', s') ← s.next; digitsLoop n c' base ds' inv' s') := by
      intro ds' inv'
      cases hn : s.next with
      | error e => exact next_err_pos s e hn
      | ok p =>
        obtain ⟨c1, s1⟩ := p
        have st := Step.next hi hn
        have h1 := ih c1 ds' inv' s1 st.1
        simp only [bind, Except.bind]
        revert h1
        unfold StepR
        cases digitsLoop n c1 base ds' inv' s1 with
        | ok r => intro h; exact st.trans h
        | error e => intro h; exact Nat.le_trans st.2.1 h
    unfold digitsLoop
    split
    · split
      · exact step _ _
      · exact Step.refl hi
    · split
      · exact step _ _
      · exact Step.refl hi

theorem triple_of_stepR {α : Type} (s : Sc) (proj : α → Int × Sc) (r : Except ScanErr α) (h : StepR s proj r) :
    ⦃⌜True⌝⦄ r ⦃post⟨fun a => ⌜Step s (proj a).1 (proj a).2⌝, fun e => ⌜E s ≤ e.pos.offset⌝⟩⦄ := by
  apply triple_of_exc
  unfold StepR at h
  cases r with
  | ok a => exact h
  | error e => exact h

/-! ### straight-line parts by `mvcgen` -/

/-- the part of the invariant that does not mention the look-ahead character -/
def SInv (s : Sc) : Prop := s.off + W s.rest ≤ s.src.size ∧ s.lastCharLen ≤ s.off ∧ WF s.rest
theorem ScInv.sinv {c : Int} {s : Sc} (h : ScInv c s) : SInv s := ⟨h.size, h.last, h.wf⟩

@[spec] theorem next_ispec (s : Sc) (hi : SInv s) :
    ⦃⌜True⌝⦄ s.next ⦃post⟨fun r => ⌜Step s r.1 r.2 ∧ E r.2 = s.off⌝, fun e => ⌜E s ≤ e.pos.offset⌝⟩⦄ := by
  apply triple_of_exc
  cases h : s.next with
  | ok r =>
    obtain ⟨a, b, d⟩ := next_inv s r.2 r.1 hi.1 hi.2.1 hi.2.2 h
    refine ⟨⟨a, ?_, d⟩, b⟩
    rw [b]; unfold E; omega
  | error e => exact next_err_pos s e h

@[spec] theorem skipWs_ispec (fuel : Nat) (c : Int) (s : Sc) (hi : ScInv c s) :
    ⦃⌜True⌝⦄ skipWsLoop fuel c s ⦃post⟨fun r => ⌜Step s r.1 r.2⌝, fun e => ⌜E s ≤ e.pos.offset⌝⟩⦄ :=
  triple_of_stepR s id _ (skipWs_stepR fuel c s hi)

@[spec] theorem ident_ispec (fuel i : Nat) (c : Int) (s : Sc) (hi : ScInv c s) :
    ⦃⌜True⌝⦄ identLoop fuel i c s ⦃post⟨fun r => ⌜Step s r.1 r.2⌝, fun e => ⌜E s ≤ e.pos.offset⌝⟩⦄ :=
  triple_of_stepR s id _ (ident_stepR fuel i c s hi)

@[spec] theorem digits_ispec (fuel : Nat) (c : Int) (base ds : Nat) (inv : Int) (s : Sc) (hi : ScInv c s) :
    ⦃⌜True⌝⦄ digitsLoop fuel c base ds inv s ⦃post⟨fun r => ⌜Step s r.1 r.2.2.2⌝, fun e => ⌜E s ≤ e.pos.offset⌝⟩⦄ :=
  triple_of_stepR s _ _ (digits_stepR fuel c base ds inv s hi)

@[spec] theorem err_ispec {α : Type} (s : Sc) (msg : String) :
    ⦃⌜True⌝⦄ (s.err msg : Except ScanErr α) ⦃post⟨fun _ => ⌜False⌝, fun e => ⌜e.pos.offset = E s⌝⟩⦄ := by
  apply triple_of_exc; unfold Sc.err; exact pos_offset s

macro "close_inv" : tactic => `(tactic| all_goals first
  | grind [Step.trans, Step.refl, ScInv.sinv]
  | (simp only [Step] at *; grind [ScInv.sinv]))

@[spec] theorem numInt_ispec (fuel : Nat) (n : NumSt) (hi : ScInv n.ch n.s) :
    ⦃⌜True⌝⦄ numIntPart fuel n ⦃post⟨fun r => ⌜Step n.s r.ch r.s ∧ r.tok = n.tok⌝, fun e => ⌜E n.s ≤ e.pos.offset⌝⟩⦄ := by
  mvcgen [numIntPart]
  close_inv

@[spec] theorem numFrac_ispec (fuel : Nat) (n : NumSt) (hi : ScInv n.ch n.s) :
    ⦃⌜True⌝⦄ numFracPart fuel n ⦃post⟨fun r => ⌜Step n.s r.ch r.s ∧ (r.tok = n.tok ∨ r.tok = tokFloat)⌝, fun e => ⌜E n.s ≤ e.pos.offset⌝⟩⦄ := by
  mvcgen [numFracPart]
  close_inv

@[spec] theorem numExp_ispec (fuel : Nat) (n : NumSt) (hi : ScInv n.ch n.s) :
    ⦃⌜True⌝⦄ numExpPart fuel n ⦃post⟨fun r => ⌜Step n.s r.ch r.s ∧ (r.tok = n.tok ∨ r.tok = tokFloat)⌝, fun e => ⌜E n.s ≤ e.pos.offset⌝⟩⦄ := by
  mvcgen [numExpPart]
  close_inv

@[spec] theorem numFinish_ispec (tokStart : Nat) (n : NumSt) (hi : ScInv n.ch n.s) :
    ⦃⌜True⌝⦄ numFinish tokStart n ⦃post⟨fun r => ⌜Step n.s r.2.1 r.2.2 ∧ r.1 = n.tok⌝, fun e => ⌜E n.s ≤ e.pos.offset⌝⟩⦄ := by
  mvcgen [numFinish]
  close_inv

@[spec] theorem scanNumber_ispec (fuel tokStart : Nat) (ch : Int) (seenDot : Bool) (s : Sc) (hi : ScInv ch s) :
    ⦃⌜True⌝⦄ scanNumber fuel tokStart ch seenDot s
    ⦃post⟨fun r => ⌜Step s r.2.1 r.2.2 ∧ (r.1 = tokInt ∨ r.1 = tokFloat)⌝, fun e => ⌜E s ≤ e.pos.offset⌝⟩⦄ := by
  mvcgen [scanNumber]
  close_inv

theorem ScInv.withCh {c : Int} {s : Sc} (h : ScInv c s) (x : Int) : ScInv c { s with ch := x } :=
  ⟨h.size, h.last, h.look, h.ge, h.wf⟩
@[simp] theorem E_withCh (s : Sc) (x : Int) : E { s with ch := x } = E s := rfl
theorem StInv.of {c : Int} {s : Sc} (h : ScInv c s) : StInv { s with ch := c } := Or.inr (h.withCh c)
theorem StInv.mk {s : Sc} (h : ScInv s.ch s) : StInv s := Or.inr h
theorem StInv.sinv {s : Sc} (h : StInv s) : SInv s := by
  rcases h with ⟨_, a, b, c⟩ | h
  · exact ⟨a, b, c⟩
  · exact h.sinv
theorem StInv.look {s : Sc} (h : StInv s) (hc : s.ch ≠ -2) : ScInv s.ch s := by
  rcases h with ⟨a, _⟩ | h
  · exact absurd a hc
  · exact h

/-- `Peek` -/
@[spec] theorem peek_ispec (s : Sc) (hi : StInv s) :
    ⦃⌜True⌝⦄ s.peek
    ⦃post⟨fun r => ⌜ScInv r.1 r.2 ∧ r.2.ch = r.1 ∧ r.2.src = s.src ∧ E s ≤ E r.2⌝, fun e => ⌜E s ≤ e.pos.offset⌝⟩⦄ := by
  mvcgen [Sc.peek]
  all_goals (simp only [Step, E_withCh, beq_iff_eq] at *; grind [StInv.sinv, StInv.look, ScInv.withCh, ScInv.sinv])

macro "close_st" : tactic => `(tactic| all_goals ((try simp only [Step, E_withCh, beq_iff_eq] at *); grind [StInv.sinv, StInv.look, StInv.of, StInv.mk, ScInv.withCh, ScInv.sinv]))

/-- `Next` -/
@[spec] theorem nextRune_ispec (s : Sc) (hi : StInv s) :
    ⦃⌜True⌝⦄ s.nextRune ⦃post⟨fun r => ⌜StInv r.2 ∧ r.2.src = s.src ∧ E s ≤ E r.2⌝, fun e => ⌜E s ≤ e.pos.offset⌝⟩⦄ := by
  mvcgen [Sc.nextRune]
  close_st

/-- an identifier token is never empty -/
def TokOk (t : Token) : Prop := t.typ = tokIdent → t.txt ≠ []

theorem extract_ne_nil (a : Array UInt8) (i j : Nat) (h1 : i < j) (h2 : i < a.size) : (a.extract i j).toList ≠ [] := by
  intro h
  have : (a.extract i j).size = 0 := by rw [← Array.length_toList, h]; rfl
  rw [Array.size_extract] at this
  omega

theorem E_fold (s : Sc) : s.off - s.lastCharLen = E s := rfl
theorem pos_ite_offset (c : Prop) [Decidable c] (o l1 c1 l2 c2 : Nat) :
    (if c then (⟨o, l1, c1⟩ : Pos) else ⟨o, l2, c2⟩).offset = o := by split <;> rfl

theorem isIdent_ge0 (c : Int) (h : isIdentRune c 0 = true) : 0 ≤ c := by
  unfold isIdentRune at h
  simp only [Bool.or_eq_true, beq_iff_eq, Bool.and_eq_true, decide_eq_true_eq] at h
  rcases h with (h | h) | h <;> omega

/-- the text of an identifier token: from the first character to the start of the look-ahead, inside the source -/
theorem ident_nonempty (c2 : Int) (s2 s1 s3 : Sc) (hI : ScInv c2 s2) (hc : 0 ≤ c2) (e1 : E s1 = s2.off)
    (e2 : E s1 ≤ E s3) (hsrc : s3.src = s2.src) :
    (s3.src.extract (E s2) (if E s3 < E s2 then E s2 else E s3)).toList ≠ [] := by
  have l1 := hI.look hc
  have l2 := hI.last
  have sz := hI.size
  apply extract_ne_nil
  · unfold E at *; split <;> omega
  · rw [hsrc]; unfold E; omega

/-- `Scan` keeps the invariant and returns a well-formed token positioned at or after the look-ahead -/
@[spec] theorem scan_ispec (s : Sc) (hi : StInv s) :
    ⦃⌜True⌝⦄ s.scan
    ⦃post⟨fun r => ⌜StInv r.2 ∧ r.2.src = s.src ∧ TokOk r.1 ∧ E s ≤ r.1.pos.offset ∧ E s ≤ E r.2 ∧ r.1.pos.offset ≤ E r.2⌝,
      fun e => ⌜E s ≤ e.pos.offset⌝⟩⦄ := by
  mvcgen [Sc.scan]
  all_goals (try (simp (config := { zetaDelta := true }) only [Step, E_withCh, beq_iff_eq, TokOk, tokIdent, tokEOF, tokInt,
    tokFloat, pos_ite_offset, E_fold] at *))
  all_goals (try grind [StInv.sinv, StInv.look, StInv.of, StInv.mk, ScInv.withCh, ScInv.sinv, ScInv.ge, ident_nonempty, isIdent_ge0])
  all_goals
    rename_i r1 _ _ _ _ _ h3 r2 h4 _ _
    refine ⟨StInv.of (by grind), by grind, fun h => ?_, by grind, by grind, by grind⟩
    have := h3.1.ge
    omega

end CanVerif
