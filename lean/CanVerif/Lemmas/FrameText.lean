import CanVerif.Model.FrameText
/-! Lemmas for the candump text form (C15). -/
namespace CanVerif

def hexCh (up : Bool) (n : Nat) : UInt8 := if up then hexUpper n else hexLower n

theorem hexVal_hexCh : ∀ (up : Bool) (n : Fin 16), hexVal (hexCh up n.val) = some n.val := by decide
theorem hexCh_ne_hash : ∀ (up : Bool) (n : Fin 16), hexCh up n.val ≠ ch '#' := by decide
theorem hexCh_ne_R : ∀ (up : Bool) (n : Fin 16), hexCh up n.val ≠ ch 'R' := by decide

/-- a string of hex digits with a per-digit letter case -/
def hexStr (ds : List (Bool × Fin 16)) : Str := ds.map fun d => hexCh d.1 d.2.val
def hexNum (ds : List (Bool × Fin 16)) : Nat := ds.foldl (fun a d => a * 16 + d.2.val) 0

theorem splitHash_nohash (s : Str) (h : ∀ c ∈ s, c ≠ ch '#') : splitHash s = [s] := by
  induction s with
  | nil => rfl
  | cons c cs ih =>
    have hc : c ≠ ch '#' := h c (List.mem_cons_self)
    rw [splitHash, ih (fun x hx => h x (List.mem_cons_of_mem _ hx))]
    simp [hc]

theorem splitHash_one (a b : Str) (ha : ∀ c ∈ a, c ≠ ch '#') (hb : ∀ c ∈ b, c ≠ ch '#') :
    splitHash (a ++ ch '#' :: b) = [a, b] := by
  induction a with
  | nil => simp [splitHash, splitHash_nohash b hb]
  | cons c cs ih =>
    have hc : c ≠ ch '#' := ha c (List.mem_cons_self)
    rw [List.cons_append, splitHash, ih (fun x hx => ha x (List.mem_cons_of_mem _ hx))]
    simp [hc]

theorem parseHex_fold (ds : List (Bool × Fin 16)) (a : Nat) :
    (hexStr ds).foldl (fun acc c => match acc, hexVal c with
      | some a, some v => some (a * 16 + v)
      | _, _ => none) (some a) = some (ds.foldl (fun a d => a * 16 + d.2.val) a) := by
  induction ds generalizing a with
  | nil => rfl
  | cons d ds ih =>
    simp only [hexStr, List.map_cons, List.foldl_cons, hexVal_hexCh]
    exact ih _

theorem parseHexUint_hexStr (ds : List (Bool × Fin 16)) (h : ds ≠ []) : parseHexUint (hexStr ds) = some (hexNum ds) := by
  unfold parseHexUint
  have : (hexStr ds).isEmpty = false := by
    cases ds with
    | nil => exact absurd rfl h
    | cons _ _ => rfl
  simp only [this, Bool.false_eq_true, if_false]
  exact parseHex_fold ds 0

abbrev HexDigit := Bool × Fin 16

inductive Payload
  | remote (len : Option (Fin 10))
  | data (bytes : List (HexDigit × HexDigit))

def byteOf (p : HexDigit × HexDigit) : UInt8 := UInt8.ofNat (p.1.2.val * 16 + p.2.2.val)

def payloadStr : Payload → Str
  | .remote none => [ch 'R']
  | .remote (some n) => [ch 'R', UInt8.ofNat (48 + n.val)]
  | .data bs => hexStr (bs.flatMap fun p => [p.1, p.2])

def patternStr (ids : List HexDigit) (pl : Payload) : Str := hexStr ids ++ ch '#' :: payloadStr pl

def denote (ids : List HexDigit) (pl : Payload) : Frame :=
  match pl with
  | .remote none => { id := BitVec.ofNat 32 (hexNum ids), length := 0#8, data := 0#64, isRemote := true, isExtended := ids.length == 8 }
  | .remote (some n) => { id := BitVec.ofNat 32 (hexNum ids), length := BitVec.ofNat 8 n.val, data := 0#64, isRemote := true, isExtended := ids.length == 8 }
  | .data bs => { id := BitVec.ofNat 32 (hexNum ids), length := BitVec.ofNat 8 bs.length, data := dataOfBytes (bs.map byteOf), isRemote := false, isExtended := ids.length == 8 }

theorem hexDecode_pairs (bs : List (HexDigit × HexDigit)) :
    hexDecode (hexStr (bs.flatMap fun p => [p.1, p.2])) = some (bs.map byteOf) := by
  induction bs with
  | nil => rfl
  | cons p ps ih =>
    simp only [List.flatMap_cons, hexStr, List.map_append, List.map_cons, List.map_nil, List.cons_append, List.nil_append]
    rw [hexDecode]
    simp only [hexVal_hexCh]
    have := ih
    simp only [hexStr] at this
    rw [this]
    rfl

theorem hexStr_no_hash (ds : List HexDigit) : ∀ c ∈ hexStr ds, c ≠ ch '#' := by
  intro c hc
  simp only [hexStr, List.mem_map] at hc
  obtain ⟨d, _, rfl⟩ := hc
  exact hexCh_ne_hash d.1 d.2

theorem payloadStr_no_hash (pl : Payload) : ∀ c ∈ payloadStr pl, c ≠ ch '#' := by
  cases pl with
  | remote l =>
    cases l with
    | none => intro c hc; simp [payloadStr] at hc; subst hc; decide
    | some n =>
      intro c hc
      simp only [payloadStr, List.mem_cons, List.mem_nil_iff, or_false] at hc
      rcases hc with rfl | rfl
      · decide
      · revert n; decide
  | data bs => exact hexStr_no_hash _

theorem digit10 : ∀ n : Fin 10, (UInt8.ofNat (48 + n.val)).toNat = 48 + n.val := by decide

theorem pairs_length (bs : List (HexDigit × HexDigit)) :
    (hexStr (bs.flatMap fun p => [p.1, p.2])).length = 2 * bs.length := by
  simp only [hexStr, List.length_map]
  induction bs with
  | nil => rfl
  | cons p ps ih => simp only [List.flatMap_cons, List.length_append, List.length_cons, List.length_nil]; omega

theorem parse_pattern (ids : List HexDigit) (pl : Payload) (hid : ids.length = 3 ∨ ids.length = 8)
    (hpl : ∀ bs, pl = .data bs → bs.length ≤ 8) :
    parseFrame (patternStr ids pl) = some (denote ids pl) := by
  unfold parseFrame patternStr
  rw [splitHash_one _ _ (hexStr_no_hash ids) (payloadStr_no_hash pl)]
  have hlen : (hexStr ids).length = ids.length := by simp [hexStr]
  have hne : ids ≠ [] := by intro h; subst h; simp at hid
  simp only [hlen, parseHexUint_hexStr ids hne]
  have hc : ¬ (ids.length ≠ 3 ∧ ids.length ≠ 8) := by omega
  simp only [hc, if_false]
  cases pl with
  | remote l =>
    cases l with
    | none => simp [payloadStr, denote, parsePayload]
    | some n =>
      have hn := digit10 n
      have e1 : 48 ≤ (UInt8.ofNat (48 + n.val)).toNat ∧ (UInt8.ofNat (48 + n.val)).toNat ≤ 57 := by omega
      have e2 : (UInt8.ofNat (48 + n.val)).toNat - 48 = n.val := by omega
      have hm : (48 + n.val) % 256 = 48 + n.val := by omega
      simp [payloadStr, denote, parsePayload, hm]
      omega
  | data bs =>
    have hb := hpl bs rfl
    have hl := pairs_length bs
    have hd := hexDecode_pairs bs
    simp only [payloadStr, denote, parsePayload]
    cases bs with
    | nil => simp [hexStr, dataOfBytes]
    | cons p ps =>
      have hR : hexCh p.1.1 p.1.2.val ≠ ch 'R' := hexCh_ne_R _ _
      have hhead : (hexStr (List.flatMap (fun p => [p.1, p.2]) (p :: ps))).head? = some (hexCh p.1.1 p.1.2.val) := by
        simp [hexStr]
      have hemp : (hexStr (List.flatMap (fun p => [p.1, p.2]) (p :: ps))).isEmpty = false := by
        simp [hexStr]
      have c1 : ¬ (some (hexCh p.1.1 p.1.2.val) = some (ch 'R')) := by simpa using hR
      have c2 : ¬ (2 * (p :: ps).length > 16 ∨ 2 * (p :: ps).length % 2 ≠ 0) := by
        simp at hb; simp; omega
      simp only [hemp, hhead, hl, c1, c2, hd, if_false, Bool.false_eq_true]
      have : 2 * (p :: ps).length / 2 = (p :: ps).length := by omega
      rw [this]


def digitsOf : Nat → Nat → List HexDigit
  | 0, _ => []
  | k+1, n => digitsOf k (n / 16) ++ [(true, ⟨n % 16, Nat.mod_lt _ (by decide)⟩)]

theorem hexStr_append (a b : List HexDigit) : hexStr (a ++ b) = hexStr a ++ hexStr b := by simp [hexStr]
theorem hexNum_append_one (a : List HexDigit) (d : HexDigit) : hexNum (a ++ [d]) = hexNum a * 16 + d.2.val := by
  simp [hexNum, List.foldl_append]

theorem digitsOf_length (k n : Nat) : (digitsOf k n).length = k := by
  induction k generalizing n with
  | zero => rfl
  | succ k ih => simp [digitsOf, ih]

theorem hexStr_digitsOf (k n : Nat) : hexStr (digitsOf k n) = hexFixed k n := by
  induction k generalizing n with
  | zero => rfl
  | succ k ih => rw [digitsOf, hexFixed, hexStr_append, ih]; rfl

theorem hexNum_digitsOf (k n : Nat) : hexNum (digitsOf k n) = n % 16 ^ k := by
  induction k generalizing n with
  | zero => simp [digitsOf, hexNum, Nat.mod_one]
  | succ k ih =>
    rw [digitsOf, hexNum_append_one, ih]
    simp only
    rw [Nat.pow_succ, Nat.mul_comm (16 ^ k) 16, Nat.mod_mul]
    omega

def pairOf (b : UInt8) : HexDigit × HexDigit :=
  ((true, ⟨b.toNat / 16, by have := b.toNat_lt; omega⟩), (true, ⟨b.toNat % 16, Nat.mod_lt _ (by decide)⟩))

theorem byteOf_pairOf (b : UInt8) : byteOf (pairOf b) = b := by
  unfold byteOf pairOf
  have : b.toNat / 16 * 16 + b.toNat % 16 = b.toNat := by omega
  simp only [this]
  exact UInt8.ofNat_toNat

theorem hexEncodeUpper_eq (bs : List UInt8) :
    hexEncodeUpper bs = hexStr ((bs.map pairOf).flatMap fun p => [p.1, p.2]) := by
  induction bs with
  | nil => rfl
  | cons b bs ih =>
    simp only [hexEncodeUpper, List.flatMap_cons, List.map_cons, hexStr_append] at ih ⊢
    rw [ih]; rfl

theorem decDigits_lt10 (n : Nat) (h : n < 10) : decDigits n = [UInt8.ofNat (48 + n)] := by
  rw [decDigits]; simp [h]


end CanVerif
