import CanVerif.Model.TextScanner
import CanVerif.Lemmas.TripleBridge
/-! Progress of the `text/scanner` model: no operation puts characters back, and a scan that returns a token other
than EOF consumes at least one character.  Measure: characters not yet read plus one for a pending look-ahead. -/
open Std.Do
namespace CanVerif

/-- unread characters, counting the look-ahead character `c` unless it is EOF -/
def ν (c : Int) (s : Sc) : Nat := s.rest.length + (if c = -1 then 0 else 1)
def μS (s : Sc) : Nat := ν s.ch s

theorem next_le (s s' : Sc) (c : Int) (h : s.next = .ok (c, s')) : ν c s' ≤ s.rest.length ∧ s'.ch = s.ch := by
  unfold Sc.next at h
  unfold ν
  cases hr : s.rest with
  | nil =>
    rw [hr] at h
    simp only [Except.ok.injEq, Prod.mk.injEq] at h
    obtain ⟨rfl, rfl⟩ := h
    simp
  | cons x r =>
    rw [hr] at h
    simp only at h
    split at h
    · cases h
    · split at h
      · cases h
      · split at h
        · simp only [Except.ok.injEq, Prod.mk.injEq] at h
          obtain ⟨rfl, rfl⟩ := h
          simp
        · simp only [Except.ok.injEq, Prod.mk.injEq] at h
          obtain ⟨rfl, rfl⟩ := h
          simp only [List.length_cons]
          refine ⟨?_, trivial⟩
          split <;> omega

theorem next_lt (s s' : Sc) (c0 c : Int) (h : s.next = .ok (c, s')) (h0 : c0 ≠ -1) : ν c s' < ν c0 s := by
  have := (next_le s s' c h).1
  unfold ν at *
  simp only [h0, if_false]
  omega

theorem next_err (s : Sc) (e : ScanErr) (h : s.next = .error e) : e.fuel = false := by
  unfold Sc.next at h
  split at h
  · cases h
  · split at h
    · cases h; rfl
    · split at h
      · cases h; rfl
      · split at h <;> cases h

theorem isIdent_ne (c : Int) (i : Nat) (h : isIdentRune c i = true) : c ≠ -1 := by
  intro e; subst e; simp [isIdentRune] at h
theorem isDec_ne (c : Int) (h : isDec c = true) : c ≠ -1 := by
  intro e; subst e; simp [isDec] at h
theorem isHex_ne (c : Int) (h : isHexI c = true) : c ≠ -1 := by
  intro e; subst e; simp [isHexI, isDec, lowerI] at h
theorem isWs_ne (ws : Nat) (c : Int) (h : isWsCh ws c = true) : c ≠ -1 := by
  intro e; subst e; simp [isWsCh] at h

/-- what the loops guarantee: nothing is put back, and with fuel above the measure the bound is not reached -/
def LoopOk {α : Type} (fuelErrOk : Bool) (r : Except ScanErr α) (P : α → Prop) : Prop :=
  match r with
  | .ok a => P a
  | .error e => fuelErrOk = true ∨ e.fuel = false

theorem skipWs_ok (fuel : Nat) (c : Int) (s : Sc) :
    LoopOk (decide (fuel ≤ ν c s)) (skipWsLoop fuel c s) (fun r => ν r.1 r.2 ≤ ν c s) := by
  induction fuel generalizing c s with
  | zero => simp [skipWsLoop, LoopOk]
  | succ n ih =>
    unfold skipWsLoop
    split
    · next hw =>
      have hc := isWs_ne _ _ hw
      cases hn : s.next with
      | error e => exact Or.inr (next_err s e hn)
      | ok p =>
        obtain ⟨c1, s1⟩ := p
        have lt := next_lt s s1 c c1 hn hc
        have h1 := ih c1 s1
        simp only [bind, Except.bind]
        revert h1
        unfold LoopOk
        cases skipWsLoop n c1 s1 with
        | ok r => intro h; simp only at h ⊢; omega
        | error e =>
          intro h; simp only [decide_eq_true_eq] at h ⊢
          rcases h with h | h
          · left; omega
          · right; exact h
    · simp [LoopOk]

theorem ident_ok (fuel i : Nat) (c : Int) (s : Sc) :
    LoopOk (decide (fuel ≤ ν c s)) (identLoop fuel i c s) (fun r => ν r.1 r.2 ≤ ν c s) := by
  induction fuel generalizing c s i with
  | zero => simp [identLoop, LoopOk]
  | succ n ih =>
    unfold identLoop
    split
    · next hw =>
      have hc := isIdent_ne _ _ hw
      cases hn : s.next with
      | error e => exact Or.inr (next_err s e hn)
      | ok p =>
        obtain ⟨c1, s1⟩ := p
        have lt := next_lt s s1 c c1 hn hc
        have h1 := ih (i + 1) c1 s1
        simp only [bind, Except.bind]
        revert h1
        unfold LoopOk
        cases identLoop n (i + 1) c1 s1 with
        | ok r => intro h; simp only at h ⊢; omega
        | error e =>
          intro h; simp only [decide_eq_true_eq] at h ⊢
          rcases h with h | h
          · left; omega
          · right; exact h
    · simp [LoopOk]

theorem digits_ok (fuel : Nat) (c : Int) (base ds : Nat) (inv : Int) (s : Sc) :
    LoopOk (decide (fuel ≤ ν c s)) (digitsLoop fuel c base ds inv s)
      (fun r => ν r.1 r.2.2.2 ≤ ν c s ∧ (base ≤ 10 → isDec c = true → ν r.1 r.2.2.2 < ν c s)) := by
  induction fuel generalizing c s ds inv with
  | zero => simp [digitsLoop, LoopOk]
  | succ n ih =>
    have step : ∀ (hc : c ≠ -1) (ds' : Nat) (inv' : Int),
        LoopOk (decide (n + 1 ≤ ν c s)) (do let (c', s') ← s.next; digitsLoop n c' base ds' inv' s')
          (fun r => ν r.1 r.2.2.2 ≤ ν c s ∧ (base ≤ 10 → isDec c = true → ν r.1 r.2.2.2 < ν c s)) := by
      intro hc ds' inv'
      cases hn : s.next with
      | error e => exact Or.inr (next_err s e hn)
      | ok p =>
        obtain ⟨c1, s1⟩ := p
        have lt := next_lt s s1 c c1 hn hc
        have h1 := ih c1 ds' inv' s1
        simp only [bind, Except.bind]
        revert h1
        unfold LoopOk
        cases digitsLoop n c1 base ds' inv' s1 with
        | ok r => intro h; simp only at h ⊢; exact ⟨by omega, fun _ _ => by omega⟩
        | error e =>
          intro h; simp only [decide_eq_true_eq] at h ⊢
          rcases h with h | h
          · left; omega
          · right; exact h
    unfold digitsLoop
    split
    · split
      · next hw =>
        have hc : c ≠ -1 := by
          rcases Bool.or_eq_true _ _ |>.mp hw with h | h
          · exact isDec_ne c h
          · intro e; subst e; simp at h
        exact step hc _ _
      · next hb hw =>
        unfold LoopOk
        simp only [Bool.or_eq_true, not_or] at hw
        exact ⟨Nat.le_refl _, fun _ hd => absurd hd hw.1⟩
    · split
      · next hw =>
        have hc : c ≠ -1 := by
          rcases Bool.or_eq_true _ _ |>.mp hw with h | h
          · exact isHex_ne c h
          · intro e; subst e; simp at h
        exact step hc _ _
      · next hb hw =>
        unfold LoopOk
        exact ⟨Nat.le_refl _, fun h10 _ => absurd h10 hb⟩

/-! ### the straight-line parts, by the verification-condition generator of `Std.Do` -/

theorem ν_le_rest (c : Int) (s : Sc) : s.rest.length ≤ ν c s := by unfold ν; omega
theorem ν_ne (c : Int) (s : Sc) (h : c ≠ -1) : ν c s = s.rest.length + 1 := by unfold ν; simp [h]
theorem ν_eof (s : Sc) : ν (-1) s = s.rest.length := by unfold ν; simp

abbrev scanOk : ScanErr → Prop := fun e => e.fuel = false

theorem triple_of_loopOk {α : Type} (r : Except ScanErr α) (P : α → Prop) (h : LoopOk false r P) :
    ⦃⌜True⌝⦄ r ⦃post⟨fun a => ⌜P a⌝, fun e => ⌜scanOk e⌝⟩⦄ := by
  apply triple_of_exc
  unfold LoopOk at h
  cases r with
  | ok a => exact h
  | error e => simpa using h

@[spec] theorem next_spec (s : Sc) :
    ⦃⌜True⌝⦄ s.next ⦃post⟨fun r => ⌜ν r.1 r.2 ≤ s.rest.length⌝, fun e => ⌜scanOk e⌝⟩⦄ := by
  apply triple_of_exc
  cases h : s.next with
  | ok r => exact (next_le s r.2 r.1 h).1
  | error e => exact next_err s e h

@[spec] theorem digits_spec (fuel : Nat) (c : Int) (base ds : Nat) (inv : Int) (s : Sc) (hf : ν c s < fuel) :
    ⦃⌜True⌝⦄ digitsLoop fuel c base ds inv s
    ⦃post⟨fun r => ⌜ν r.1 r.2.2.2 ≤ ν c s ∧ (base ≤ 10 → isDec c = true → ν r.1 r.2.2.2 < ν c s)⌝,
      fun e => ⌜scanOk e⌝⟩⦄ := by
  apply triple_of_loopOk
  have := digits_ok fuel c base ds inv s
  rwa [decide_eq_false (by omega)] at this

@[spec] theorem skipWs_spec (fuel : Nat) (c : Int) (s : Sc) (hf : ν c s < fuel) :
    ⦃⌜True⌝⦄ skipWsLoop fuel c s ⦃post⟨fun r => ⌜ν r.1 r.2 ≤ ν c s⌝, fun e => ⌜scanOk e⌝⟩⦄ := by
  apply triple_of_loopOk
  have := skipWs_ok fuel c s
  rwa [decide_eq_false (by omega)] at this

@[spec] theorem ident_spec (fuel i : Nat) (c : Int) (s : Sc) (hf : ν c s < fuel) :
    ⦃⌜True⌝⦄ identLoop fuel i c s ⦃post⟨fun r => ⌜ν r.1 r.2 ≤ ν c s⌝, fun e => ⌜scanOk e⌝⟩⦄ := by
  apply triple_of_loopOk
  have := ident_ok fuel i c s
  rwa [decide_eq_false (by omega)] at this

@[spec] theorem err_spec {α : Type} (s : Sc) (msg : String) :
    ⦃⌜True⌝⦄ (s.err msg : Except ScanErr α) ⦃post⟨fun _ => ⌜False⌝, fun e => ⌜scanOk e⌝⟩⦄ := by
  apply triple_of_exc; unfold Sc.err; rfl

macro "close_scan" : tactic => `(tactic| all_goals first
  | grind [ν_le_rest, ν_ne, isDec_ne, isIdent_ne]
  | (simp only [μS, ν] at *; grind [isDec_ne, isIdent_ne, tokEOF, tokIdent, tokInt, tokFloat]))

@[spec] theorem numInt_spec (fuel : Nat) (n : NumSt) (hf : ν n.ch n.s < fuel) :
    ⦃⌜True⌝⦄ numIntPart fuel n
    ⦃post⟨fun r => ⌜ν r.ch r.s ≤ ν n.ch n.s ∧
      (isDec n.ch = true → n.seenDot = false → n.base = 10 → ν r.ch r.s < ν n.ch n.s)⌝, fun e => ⌜scanOk e⌝⟩⦄ := by
  mvcgen [numIntPart]
  close_scan

@[spec] theorem numFrac_spec (fuel : Nat) (n : NumSt) (hf : ν n.ch n.s < fuel) :
    ⦃⌜True⌝⦄ numFracPart fuel n ⦃post⟨fun r => ⌜ν r.ch r.s ≤ ν n.ch n.s⌝, fun e => ⌜scanOk e⌝⟩⦄ := by
  mvcgen [numFracPart]
  close_scan

@[spec] theorem numExp_spec (fuel : Nat) (n : NumSt) (hf : ν n.ch n.s < fuel) :
    ⦃⌜True⌝⦄ numExpPart fuel n ⦃post⟨fun r => ⌜ν r.ch r.s ≤ ν n.ch n.s⌝, fun e => ⌜scanOk e⌝⟩⦄ := by
  mvcgen [numExpPart]
  close_scan

@[spec] theorem numFinish_spec (tokStart : Nat) (n : NumSt) :
    ⦃⌜True⌝⦄ numFinish tokStart n ⦃post⟨fun r => ⌜ν r.2.1 r.2.2 ≤ ν n.ch n.s⌝, fun e => ⌜scanOk e⌝⟩⦄ := by
  mvcgen [numFinish]
  close_scan

@[spec] theorem scanNumber_spec (fuel tokStart : Nat) (ch : Int) (seenDot : Bool) (s : Sc) (hf : ν ch s < fuel) :
    ⦃⌜True⌝⦄ scanNumber fuel tokStart ch seenDot s
    ⦃post⟨fun r => ⌜ν r.2.1 r.2.2 ≤ ν ch s ∧ (isDec ch = true → seenDot = false → ν r.2.1 r.2.2 < ν ch s)⌝,
      fun e => ⌜scanOk e⌝⟩⦄ := by
  mvcgen [scanNumber]
  close_scan

/-- `Peek`: the look-ahead it leaves is the one it returns; nothing is put back -/
@[spec] theorem peek_spec (s : Sc) :
    ⦃⌜True⌝⦄ s.peek ⦃post⟨fun r => ⌜r.2.ch = r.1 ∧ ν r.1 r.2 ≤ μS s⌝, fun e => ⌜scanOk e⌝⟩⦄ := by
  mvcgen [Sc.peek]
  close_scan

/-- `Next`: reading a character other than EOF consumes it -/
@[spec] theorem nextRune_spec (s : Sc) :
    ⦃⌜True⌝⦄ s.nextRune ⦃post⟨fun r => ⌜μS r.2 ≤ μS s ∧ (r.1 ≠ -1 → μS r.2 < μS s)⌝, fun e => ⌜scanOk e⌝⟩⦄ := by
  mvcgen [Sc.nextRune]
  close_scan

/-- `Scan`: no character is put back, a token other than EOF consumes at least one, and the loop bound
(characters left + 2) is not reached -/
@[spec] theorem scan_spec (s : Sc) :
    ⦃⌜True⌝⦄ s.scan ⦃post⟨fun r => ⌜μS r.2 ≤ μS s ∧ (r.1.typ ≠ tokEOF → μS r.2 < μS s)⌝, fun e => ⌜scanOk e⌝⟩⦄ := by
  mvcgen [Sc.scan]
  close_scan

end CanVerif
