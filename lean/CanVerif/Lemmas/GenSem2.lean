import CanVerif.Lemmas.GenSem
import CanVerif.Props.C02
/-! Lemmas about `unmarshalField` / `marshalField` of generated messages: decoded values are in range, a field that
was just encoded decodes to itself, encoding another (disjoint) field does not disturb it. -/
namespace CanVerif

/-- class hypothesis (§4.3) for one integer or bool signal -/
structure SigOk (s : DSignal) : Prop where
  l1 : 1 ≤ s.length
  l64 : s.length ≤ 64
  fits : s.sig.range.Fits
  nofloat : s.float = false

theorem kindOf_bool (s : DSignal) (hf : s.float = false) (h1 : s.length = 1) : kindOf s = .bool := by
  unfold kindOf; simp [hf, h1]

theorem kindOf_sint (s : DSignal) (hf : s.float = false) (h1 : s.length ≠ 1) (h64 : s.length ≤ 64)
    (hs : s.signed = true) : kindOf s = .sint (goWidth s.length) := by
  unfold kindOf; simp [hf, h1, hs, h64]

theorem kindOf_uint (s : DSignal) (hf : s.float = false) (h1 : s.length ≠ 1)
    (hs : s.signed = false) : kindOf s = .uint (goWidth s.length) := by
  unfold kindOf; simp [hf, h1, hs]

theorem readS_toInt_bounds (r : Range) (d : Data) (h : r.Fits) (hl1 : 1 ≤ r.l) (hl : r.l ≤ 64) :
    -(2 ^ (r.l - 1) : Int) ≤ (readS r d).toInt ∧ (readS r d).toInt < (2 ^ (r.l - 1) : Int) := by
  rw [C01_signed r d h hl1 hl, BitVec.toInt_signExtend_of_le hl]
  exact ⟨BitVec.le_toInt _, BitVec.toInt_lt⟩

theorem goWidth_ge (L : Nat) (h : L ≤ 64) : L ≤ goWidth L := (goWidth_spec L h).2.1

/-- decoded fields are always inside the signal's representable range -/
theorem unmarshalField_inRange (s : DSignal) (d : Data) (h : SigOk s) :
    rawInRange s (unmarshalField s d) = true := by
  obtain ⟨h1, h64, hfit, hf⟩ := h
  unfold unmarshalField
  simp only [hf, Bool.and_false, Bool.false_eq_true, if_false]
  by_cases hb : s.length = 1
  · simp only [hb, beq_self_eq_true, if_true]
    unfold rawInRange
    rw [kindOf_bool s hf hb]
    simp only
    split <;> simp
  · have hb' : (s.length == 1) = false := by simpa using hb
    simp only [hb', Bool.false_eq_true, if_false]
    cases hs : s.signed
    · simp only [Bool.false_eq_true, if_false]
      have hk := kindOf_uint s hf hb hs
      have hbelow := readU_below s.sig.range d hfit
      unfold Below at hbelow
      have hl : s.sig.range.l = s.length := rfl
      rw [hl] at hbelow
      have hw := goWidth_ge s.length h64
      have hle : (2 ^ s.length : Nat) ≤ 2 ^ goWidth s.length := Nat.pow_le_pow_right (by omega) hw
      unfold Sig.unmarshalUnsigned
      have hlt : ((readU s.sig.range d).toNat : Int) < (2 ^ s.length : Int) := by exact_mod_cast hbelow
      have hlt2 : ((readU s.sig.range d).toNat : Int) < (2 ^ goWidth s.length : Int) := by
        exact_mod_cast Nat.lt_of_lt_of_le hbelow hle
      rw [hk, wrap_uint_id _ _ (Int.natCast_nonneg _) hlt2]
      unfold rawInRange
      rw [hk]
      simp only [Bool.and_eq_true, decide_eq_true_eq]
      exact ⟨Int.natCast_nonneg _, Int.le_sub_one_of_lt hlt⟩
    · simp only [if_true]
      have hk := kindOf_sint s hf hb h64 hs
      have hl : s.sig.range.l = s.length := rfl
      obtain ⟨lo, hi⟩ := readS_toInt_bounds s.sig.range d hfit (by rw [hl]; exact h1) (by rw [hl]; exact h64)
      rw [hl] at lo hi
      have hw := goWidth_ge s.length h64
      have hp := pow_le_pow_int (s.length - 1) (goWidth s.length - 1) (by omega)
      unfold Sig.unmarshalSigned
      have hw1 : 1 ≤ goWidth s.length := by omega
      rw [hk, wrap_sint_id _ hw1 _ (Int.le_trans (Int.neg_le_neg hp) lo) (Int.lt_of_lt_of_le hi hp)]
      unfold rawInRange
      rw [hk]
      simp only [Bool.and_eq_true, decide_eq_true_eq]
      exact ⟨lo, Int.le_sub_one_of_lt hi⟩

/-- mapping a range-preserving update over the fields keeps the shape and the range invariant -/
theorem inv_zip_map (g : DSignal → Raw → Raw) :
    ∀ (sigs : List DSignal) (vals : List Raw), vals.length = sigs.length →
    (sigs.zip vals).all (fun p => rawInRange p.1 p.2) = true →
    (∀ s v, s ∈ sigs → rawInRange s v = true → rawInRange s (g s v) = true) →
    ((sigs.zip vals).map (fun p => g p.1 p.2)).length = sigs.length ∧
    (sigs.zip ((sigs.zip vals).map (fun p => g p.1 p.2))).all (fun p => rawInRange p.1 p.2) = true := by
  intro sigs
  induction sigs with
  | nil => intro vals _ _ _; simp
  | cons t ts ih =>
    intro vals hlen hall hg
    cases vals with
    | nil => simp at hlen
    | cons u us =>
      simp only [List.zip_cons_cons, List.all_cons, Bool.and_eq_true, List.map_cons, List.length_cons] at hall ⊢
      obtain ⟨h1, h2⟩ := ih us (by simpa using hlen) hall.2 (fun s v hs hv => hg s v (List.mem_cons_of_mem _ hs) hv)
      exact ⟨by rw [h1], hg t u (List.mem_cons_self ..) hall.1, h2⟩

/-- a successful `UnmarshalFrame` leaves every field inside its representable range -/
theorem unmarshalFrame_inv (m : DMessage) (st st' : GState) (f : Frame)
    (hok : ∀ s ∈ m.signals, SigOk s) (hinv : Inv m st = true) (h : unmarshalFrame m st f = some st') :
    Inv m st' = true := by
  unfold Inv at hinv ⊢
  simp only [Bool.and_eq_true, beq_iff_eq] at hinv ⊢
  obtain ⟨hlen, hall⟩ := hinv
  unfold unmarshalFrame at h
  split at h
  · cases h
  · split at h
    · cases h; exact ⟨hlen, hall⟩
    · simp only [Option.some.injEq] at h
      subst h
      have step1 := inv_zip_map (fun s v => if s.muxed then v else unmarshalField s f.data) m.signals st.vals hlen hall
        (by intro s v hs hv; split
            · exact hv
            · exact unmarshalField_inRange s f.data (hok s hs))
      cases hm : muxOf m with
      | none => exact ⟨step1.1, step1.2⟩
      | some mi =>
        have step2 := inv_zip_map
          (fun s v => if (s.muxed && (((m.signals.zip st.vals).map fun (p : DSignal × Raw) =>
              if p.1.muxed then p.2 else unmarshalField p.1 f.data).getD mi.1 0 == (s.muxValue : Int))) = true
            then unmarshalField s f.data else v)
          m.signals _ step1.1 step1.2
          (by intro s v hs hv; split
              · exact unmarshalField_inRange s f.data (hok s hs)
              · exact hv)
        exact ⟨step2.1, step2.2⟩

end CanVerif
