import CanVerif.Props.C05
import CanVerif.Lemmas.Range
/-! Metadata attachment written as pointwise updates: under unique message IDs, unique signal names per message and
unique node names, "update the first match" is "update every match", which is insensitive to the order of the lists
and of the updates. -/
namespace CanVerif

/-- update every message with the given id -/
def mapMsg (id : Nat) (f : DMessage → DMessage) (ms : List DMessage) : List DMessage :=
  ms.map fun m => if m.id == id then f m else m

def mapSigIn (name : BStr) (g : DSignal → DSignal) (m : DMessage) : DMessage :=
  { m with signals := m.signals.map fun s => if s.name == name then g s else s }

def mapNode (name : BStr) (h : DNode → DNode) (ns : List DNode) : List DNode :=
  ns.map fun n => if n.name == name then h n else n

/-- uniqueness invariant of a database under construction -/
structure Uniq (db : Database) : Prop where
  ids : (db.messages.map (·.id)).Nodup
  sigs : ∀ m ∈ db.messages, (m.signals.map (·.name)).Nodup
  nodes : (db.nodes.map (·.name)).Nodup

theorem map_id_of_not_mem {α} (l : List α) (p : α → Bool) (f : α → α) (h : ∀ x ∈ l, p x = false) :
    l.map (fun x => if p x then f x else x) = l := by
  induction l with
  | nil => rfl
  | cons a r ih =>
    simp only [List.map_cons, h a (List.mem_cons_self ..), Bool.false_eq_true, if_false]
    rw [ih (fun x hx => h x (List.mem_cons_of_mem _ hx))]

theorem updMessage_map (ms : List DMessage) (id : Nat) (f : DMessage → DMessage)
    (hnd : (ms.map (·.id)).Nodup) :
    (updMessage ms id f).getD ms = mapMsg id f ms ∧ ((updMessage ms id f).isNone ↔ ∀ m ∈ ms, (m.id == id) = false) := by
  induction ms with
  | nil => simp [updMessage, mapMsg]
  | cons m rest ih =>
    simp only [List.map_cons, List.nodup_cons] at hnd
    obtain ⟨h1, h2⟩ := ih hnd.2
    unfold updMessage
    by_cases hm : (m.id == id) = true
    · simp only [hm, if_true, Option.getD_some, Option.isNone_some, Bool.false_eq_true, false_iff]
      refine ⟨?_, fun h => by have := h m (List.mem_cons_self ..); rw [hm] at this; cases this⟩
      unfold mapMsg
      simp only [List.map_cons, hm, if_true]
      congr 1
      apply (map_id_of_not_mem rest (fun x => x.id == id) f ?_).symm
      intro x hx
      have hmid : m.id = id := by simpa using hm
      have : x.id ≠ m.id := fun e => hnd.1 (List.mem_map.mpr ⟨x, hx, e⟩)
      simp only [beq_eq_false_iff_ne, ne_eq]
      rw [← hmid]; exact this
    · have hm' : (m.id == id) = false := by simpa using hm
      simp only [hm', Bool.false_eq_true, if_false]
      cases hu : updMessage rest id f with
      | none =>
        rw [hu] at h1 h2
        simp only [Option.map_none, Option.getD_none, Option.isNone_none, true_iff] at h1 h2 ⊢
        refine ⟨?_, ?_⟩
        · unfold mapMsg at h1 ⊢
          simp only [List.map_cons, hm', Bool.false_eq_true, if_false]
          rw [← h1]
        · intro x hx
          rcases List.mem_cons.mp hx with rfl | hr
          · exact hm'
          · exact h2 x hr
      | some r =>
        rw [hu] at h1 h2
        simp only [Option.map_some, Option.getD_some, Option.isNone_some, Bool.false_eq_true, false_iff] at h1 h2 ⊢
        refine ⟨?_, ?_⟩
        · unfold mapMsg at h1 ⊢
          simp only [List.map_cons, hm', Bool.false_eq_true, if_false]
          rw [h1]
        · intro h
          exact h2 (fun x hx => h x (List.mem_cons_of_mem _ hx))

/-- generic "update the first element satisfying `p`" -/
def updFirstBy {α} (p : α → Bool) (f : α → α) : List α → Option (List α)
  | [] => none
  | a :: r => if p a then some (f a :: r) else (updFirstBy p f r).map (a :: ·)

theorem updFirstBy_map {α} (p : α → Bool) (f : α → α) (l : List α)
    (h1 : l.Pairwise (fun a b => ¬ (p a = true ∧ p b = true))) :
    (updFirstBy p f l).getD l = l.map (fun a => if p a then f a else a) ∧
    ((updFirstBy p f l).isNone ↔ ∀ a ∈ l, p a = false) := by
  induction l with
  | nil => simp [updFirstBy]
  | cons a r ih =>
    rw [List.pairwise_cons] at h1
    obtain ⟨i1, i2⟩ := ih h1.2
    unfold updFirstBy
    by_cases ha : p a = true
    · simp only [ha, if_true, Option.getD_some, Option.isNone_some, Bool.false_eq_true, false_iff, List.map_cons]
      refine ⟨?_, fun h => by have := h a (List.mem_cons_self ..); rw [ha] at this; cases this⟩
      congr 1
      apply (map_id_of_not_mem r p f ?_).symm
      intro b hb
      cases hpb : p b
      · rfl
      · exact absurd ⟨ha, hpb⟩ (h1.1 b hb)
    · have ha' : p a = false := by simpa using ha
      simp only [ha', Bool.false_eq_true, if_false, List.map_cons]
      cases hu : updFirstBy p f r with
      | none =>
        rw [hu] at i1 i2
        simp only [Option.map_none, Option.getD_none, Option.isNone_none, true_iff] at i1 i2 ⊢
        refine ⟨by rw [← i1], ?_⟩
        intro x hx
        rcases List.mem_cons.mp hx with rfl | hr
        · exact ha'
        · exact i2 x hr
      | some r' =>
        rw [hu] at i1 i2
        simp only [Option.map_some, Option.getD_some, Option.isNone_some, Bool.false_eq_true, false_iff] at i1 i2 ⊢
        exact ⟨by rw [i1], fun h => i2 (fun x hx => h x (List.mem_cons_of_mem _ hx))⟩

theorem updMessage_eq (ms : List DMessage) (id : Nat) (f : DMessage → DMessage) :
    updMessage ms id f = updFirstBy (fun m => m.id == id) f ms := by
  induction ms with
  | nil => rfl
  | cons m r ih => unfold updMessage updFirstBy; rw [ih]

theorem updSignalIn_eq (ss : List DSignal) (name : BStr) (g : DSignal → DSignal) :
    updSignalIn ss name g = updFirstBy (fun s => s.name == name) g ss := by
  induction ss with
  | nil => rfl
  | cons s r ih => unfold updSignalIn updFirstBy; rw [ih]

theorem updNode_eq (ns : List DNode) (name : BStr) (h : DNode → DNode) :
    updNode ns name h = updFirstBy (fun n => n.name == name) h ns := by
  induction ns with
  | nil => rfl
  | cons n r ih => unfold updNode updFirstBy; rw [ih]

/-- `Nodup` of a key list means at most one element has a given key -/
theorem pairwise_of_nodup_key {α κ} [DecidableEq κ] [BEq κ] [LawfulBEq κ] (l : List α) (key : α → κ) (k : κ)
    (h : (l.map key).Nodup) : l.Pairwise (fun a b => ¬ ((key a == k) = true ∧ (key b == k) = true)) := by
  induction l with
  | nil => exact List.Pairwise.nil
  | cons a r ih =>
    simp only [List.map_cons, List.nodup_cons] at h
    refine List.Pairwise.cons ?_ (ih h.2)
    intro b hb ⟨ha, hb'⟩
    have e1 : key a = k := by simpa using ha
    have e2 : key b = k := by simpa using hb'
    exact h.1 (List.mem_map.mpr ⟨b, hb, by rw [e2, e1]⟩)

/-- signals: "first message with the id, first signal with the name" is the pointwise update -/
theorem updSignal_map (ms : List DMessage) (id : Nat) (name : BStr) (g : DSignal → DSignal)
    (hid : (ms.map (·.id)).Nodup) (hs : ∀ m ∈ ms, (m.signals.map (·.name)).Nodup) :
    (updSignal ms id name g).getD ms = mapMsg id (mapSigIn name g) ms ∧
    ((updSignal ms id name g).isNone ↔ findSignal ms id name = none) := by
  induction ms with
  | nil => simp [updSignal, mapMsg, findSignal]
  | cons m r ih =>
    simp only [List.map_cons, List.nodup_cons] at hid
    obtain ⟨i1, i2⟩ := ih hid.2 (fun x hx => hs x (List.mem_cons_of_mem _ hx))
    have hin := updFirstBy_map (fun s => s.name == name) g m.signals
      (pairwise_of_nodup_key m.signals (·.name) name (hs m (List.mem_cons_self ..)))
    unfold updSignal findSignal
    by_cases hm : (m.id == id) = true
    · have hrest : ∀ x ∈ r, (x.id == id) = false := by
        intro x hx
        have hmid : m.id = id := by simpa using hm
        have : x.id ≠ m.id := fun e => hid.1 (List.mem_map.mpr ⟨x, hx, e⟩)
        simp only [beq_eq_false_iff_ne, ne_eq]; rw [← hmid]; exact this
      simp only [hm, if_true, List.find?_cons_of_pos]
      rw [updSignalIn_eq]
      unfold mapMsg
      simp only [List.map_cons, hm, if_true]
      rw [map_id_of_not_mem r (fun x => x.id == id) (mapSigIn name g) hrest]
      cases hu : updFirstBy (fun s => s.name == name) g m.signals with
      | none =>
        rw [hu] at hin
        simp only [Option.getD_none, Option.isNone_none, true_iff] at hin
        simp only [Option.map_none, Option.getD_none, Option.isNone_none, true_iff]
        refine ⟨?_, ?_⟩
        · congr 1
          unfold mapSigIn
          rw [← hin.1]
        · exact List.find?_eq_none.mpr (fun s hs' => by simpa using hin.2 s hs')
      | some ss =>
        rw [hu] at hin
        simp only [Option.getD_some, Option.isNone_some, Bool.false_eq_true, false_iff] at hin
        simp only [Option.map_some, Option.getD_some, Option.isNone_some, Bool.false_eq_true, false_iff]
        refine ⟨?_, ?_⟩
        · congr 1
          unfold mapSigIn
          rw [hin.1]
        · intro hnone
          apply hin.2
          intro s hs'
          have := List.find?_eq_none.mp hnone s hs'
          simpa using this
    · have hm' : (m.id == id) = false := by simpa using hm
      have hfind : List.find? (fun m => m.id == id) (m :: r) = List.find? (fun m => m.id == id) r := by
        rw [List.find?_cons_of_neg]; simpa using hm
      simp only [hm', Bool.false_eq_true, if_false, hfind]
      unfold findSignal at i2
      unfold mapMsg at i1 ⊢
      simp only [List.map_cons, hm', Bool.false_eq_true, if_false]
      cases hu : updSignal r id name g with
      | none =>
        rw [hu] at i1 i2
        simp only [Option.getD_none, Option.isNone_none, true_iff] at i1 i2
        simp only [Option.map_none, Option.getD_none, Option.isNone_none, true_iff]
        exact ⟨by rw [← i1], i2⟩
      | some r' =>
        rw [hu] at i1 i2
        simp only [Option.getD_some, Option.isNone_some, Bool.false_eq_true, false_iff] at i1 i2
        simp only [Option.map_some, Option.getD_some, Option.isNone_some, Bool.false_eq_true, false_iff]
        exact ⟨by rw [i1], i2⟩

/-! ### metadata steps as pointwise updates -/

def gVT (typ : Nat) (s : DSignal) : DSignal :=
  if typ == 0 then { s with float := false }
  else if typ == 1 then (if s.length == 32 then { s with float := true } else s)
  else s

def fMsgAttr (name : BStr) (i : Int) (sv : BStr) : DMessage → DMessage :=
  if name == bs "GenMsgSendType" then fun m => { m with sendType := sendTypeOf sv }
  else if name == bs "GenMsgCycleTime" then fun m => { m with cycleNs := wrapInt64 (i * 1000000) }
  else if name == bs "GenMsgDelayTime" then fun m => { m with delayNs := wrapInt64 (i * 1000000) }
  else fun m => m

def gSigAttr (name : BStr) (i : Int) : DSignal → DSignal :=
  if name == bs "GenSigStartValue" then fun s => { s with default := i } else fun s => s

def onMsgs (db : Database) (F : List DMessage → List DMessage) : Database := { db with messages := F db.messages }

/-- the database part of one metadata step, as a pointwise update -/
def dStep (d : Def) (db : Database) : Database :=
  match d with
  | .sigValType _ id sg typ => onMsgs db (mapMsg (toCAN id) (mapSigIn sg (gVT typ)))
  | .comment _ obj node id sg _ text =>
    match obj with
    | .message => if id == independentID then db else onMsgs db (mapMsg (toCAN id) fun m => { m with desc := text })
    | .signal => if id == independentID then db else
        onMsgs db (mapMsg (toCAN id) (mapSigIn sg fun s => { s with desc := text }))
    | .node => { db with nodes := mapNode node (fun n => { n with desc := text }) db.nodes }
    | _ => db
  | .valDescs _ obj id sg _ vds =>
    if id == independentID then db
    else if obj != .signal then db
    else onMsgs db (mapMsg (toCAN id) (mapSigIn sg fun s =>
      { s with vds := s.vds ++ vds.map fun v => (⟨f64ToInt64 v.value, v.desc⟩ : DVal) }))
  | .attrValue _ name obj id sg _ _ i _ sv =>
    match obj with
    | .message => onMsgs db (mapMsg (toCAN id) (fMsgAttr name i sv))
    | .signal => onMsgs db (mapMsg (toCAN id) (mapSigIn sg (gSigAttr name i)))
    | _ => db
  | _ => db

theorem modMsg_eq (db : Database) (id : Nat) (f : DMessage → DMessage) (hu : Uniq db) :
    (match updMessage db.messages id f with
      | some ms => ({ db with messages := ms } : Database)
      | none => db) = onMsgs db (mapMsg id f) := by
  obtain ⟨h1, _⟩ := updMessage_map db.messages id f hu.ids
  unfold onMsgs
  cases hm : updMessage db.messages id f with
  | none => rw [hm] at h1; simp only [Option.getD_none] at h1; rw [← h1]
  | some ms => rw [hm] at h1; simp only [Option.getD_some] at h1; rw [← h1]

theorem modSig_eq (db : Database) (id : Nat) (name : BStr) (g : DSignal → DSignal) (hu : Uniq db) :
    (match updSignal db.messages id name g with
      | some ms => ({ db with messages := ms } : Database)
      | none => db) = onMsgs db (mapMsg id (mapSigIn name g)) := by
  obtain ⟨h1, _⟩ := updSignal_map db.messages id name g hu.ids hu.sigs
  unfold onMsgs
  cases hm : updSignal db.messages id name g with
  | none => rw [hm] at h1; simp only [Option.getD_none] at h1; rw [← h1]
  | some ms => rw [hm] at h1; simp only [Option.getD_some] at h1; rw [← h1]

theorem modNode_eq (db : Database) (name : BStr) (h : DNode → DNode) (hu : Uniq db) :
    (match updNode db.nodes name h with
      | some ns => ({ db with nodes := ns } : Database)
      | none => db) = { db with nodes := mapNode name h db.nodes } := by
  rw [updNode_eq]
  obtain ⟨h1, _⟩ := updFirstBy_map (fun n => n.name == name) h db.nodes
    (pairwise_of_nodup_key db.nodes (·.name) name hu.nodes)
  unfold mapNode
  cases hm : updFirstBy (fun n => n.name == name) h db.nodes with
  | none => rw [hm] at h1; simp only [Option.getD_none] at h1; rw [← h1]
  | some ns => rw [hm] at h1; simp only [Option.getD_some] at h1; rw [← h1]

theorem find_unique {α κ} [DecidableEq κ] [BEq κ] [LawfulBEq κ] (l : List α) (key : α → κ) (k : κ)
    (h : (l.map key).Nodup) (x : α) (hx : x ∈ l) (hk : (key x == k) = true) :
    l.find? (fun a => key a == k) = some x := by
  induction l with
  | nil => cases hx
  | cons a r ih =>
    simp only [List.map_cons, List.nodup_cons] at h
    rcases List.mem_cons.mp hx with rfl | hr
    · simp [List.find?_cons, hk]
    · have hne : (key a == k) = false := by
        have e2 : key x = k := by simpa using hk
        simp only [beq_eq_false_iff_ne, ne_eq]
        intro e1
        exact h.1 (List.mem_map.mpr ⟨x, hr, by rw [e2, e1]⟩)
      rw [List.find?_cons_of_neg (by simpa using hne)]
      exact ih h.2 hr

/-- two signal updates that agree on the one signal they can reach give the same database -/
theorem mapSig_congr (ms : List DMessage) (id : Nat) (name : BStr) (g g' : DSignal → DSignal) (s0 : DSignal)
    (hid : (ms.map (·.id)).Nodup) (hs : ∀ m ∈ ms, (m.signals.map (·.name)).Nodup)
    (hf : findSignal ms id name = some s0) (hg : g s0 = g' s0) :
    mapMsg id (mapSigIn name g) ms = mapMsg id (mapSigIn name g') ms := by
  unfold mapMsg
  apply List.map_congr_left
  intro m hm
  by_cases hmid : (m.id == id) = true
  · simp only [hmid, if_true]
    unfold mapSigIn
    congr 1
    apply List.map_congr_left
    intro s hsm
    by_cases hn : (s.name == name) = true
    · simp only [hn, if_true]
      have e1 := find_unique ms (·.id) id hid m hm hmid
      have e2 := find_unique m.signals (·.name) name (hs m hm) s hsm hn
      unfold findSignal at hf
      rw [e1] at hf
      simp only at hf
      rw [e2] at hf
      cases hf
      exact hg
    · simp only [hn, Bool.false_eq_true, if_false]
  · simp only [hmid, Bool.false_eq_true, if_false]

theorem warn_fst (st : CState) (p : Pos) (r : String) : (warn st p r).1 = st.1 := rfl

/-- the database part of `metaStep` is the pointwise update (under the uniqueness invariant) -/
theorem metaStep_db (st : CState) (d : Def) (hu : Uniq st.1) : (metaStep st d).1 = dStep d st.1 := by
  cases d with
  | sigValType p id sg typ =>
    simp only [metaStep, dStep]
    obtain ⟨_, hnone⟩ := updSignal_map st.1.messages (toCAN id) sg (gVT typ) hu.ids hu.sigs
    cases hf : findSignal st.1.messages (toCAN id) sg with
    | none =>
      -- nothing to update: the pointwise update is the identity
      simp only [warn_fst]
      have h1 := (updSignal_map st.1.messages (toCAN id) sg (gVT typ) hu.ids hu.sigs)
      have hn : (updSignal st.1.messages (toCAN id) sg (gVT typ)).isNone := h1.2.mpr hf
      have := h1.1
      cases hm : updSignal st.1.messages (toCAN id) sg (gVT typ) with
      | none => rw [hm] at this; simp only [Option.getD_none] at this; unfold onMsgs; rw [← this]
      | some ms => rw [hm] at hn; cases hn
    | some s0 =>
      simp only
      by_cases h0 : (typ == 0) = true
      · simp only [h0, if_true]
        have eg : mapMsg (toCAN id) (mapSigIn sg (gVT typ)) st.1.messages =
            mapMsg (toCAN id) (mapSigIn sg (fun s => { s with float := false })) st.1.messages :=
          mapSig_congr _ _ _ _ _ s0 hu.ids hu.sigs hf (by simp [gVT, h0])
        have := modSig_eq st.1 (toCAN id) sg (fun s => { s with float := false }) hu
        unfold onMsgs at this ⊢
        rw [eg]
        cases hm : updSignal st.1.messages (toCAN id) sg (fun s => { s with float := false }) with
        | none => rw [hm] at this; exact this
        | some ms => rw [hm] at this; exact this
      · have h0' : (typ == 0) = false := by simpa using h0
        simp only [h0', Bool.false_eq_true, if_false]
        by_cases h1 : (typ == 1) = true
        · simp only [h1, if_true]
          by_cases h32 : (s0.length == 32) = true
          · simp only [h32, if_true]
            have eg : mapMsg (toCAN id) (mapSigIn sg (gVT typ)) st.1.messages =
                mapMsg (toCAN id) (mapSigIn sg (fun s => { s with float := true })) st.1.messages :=
              mapSig_congr _ _ _ _ _ s0 hu.ids hu.sigs hf (by simp [gVT, h0', h1, h32])
            have := modSig_eq st.1 (toCAN id) sg (fun s => { s with float := true }) hu
            unfold onMsgs at this ⊢
            rw [eg]
            cases hm : updSignal st.1.messages (toCAN id) sg (fun s => { s with float := true }) with
            | none => rw [hm] at this; exact this
            | some ms => rw [hm] at this; exact this
          · have h32' : (s0.length == 32) = false := by simpa using h32
            simp only [h32', Bool.false_eq_true, if_false, warn_fst]
            have eg : mapMsg (toCAN id) (mapSigIn sg (gVT typ)) st.1.messages =
                mapMsg (toCAN id) (mapSigIn sg (fun s => s)) st.1.messages :=
              mapSig_congr _ _ _ _ _ s0 hu.ids hu.sigs hf (by simp [gVT, h0', h1, h32'])
            unfold onMsgs
            rw [eg]
            have hid : mapMsg (toCAN id) (mapSigIn sg (fun s => s)) st.1.messages = st.1.messages := by
              unfold mapMsg mapSigIn
              simp
            rw [hid]
        · have h1' : (typ == 1) = false := by simpa using h1
          simp only [h1', Bool.false_eq_true, if_false, warn_fst]
          have eg : mapMsg (toCAN id) (mapSigIn sg (gVT typ)) st.1.messages =
              mapMsg (toCAN id) (mapSigIn sg (fun s => s)) st.1.messages :=
            mapSig_congr _ _ _ _ _ s0 hu.ids hu.sigs hf (by simp [gVT, h0', h1'])
          unfold onMsgs
          rw [eg]
          have hid : mapMsg (toCAN id) (mapSigIn sg (fun s => s)) st.1.messages = st.1.messages := by
            unfold mapMsg mapSigIn
            simp
          rw [hid]
  | comment p obj node id sg env text =>
    cases obj <;> simp only [metaStep, dStep]
    · -- node
      have := modNode_eq st.1 node (fun n => { n with desc := text }) hu
      cases hm : updNode st.1.nodes node (fun n => { n with desc := text }) with
      | none => rw [hm] at this; simp only [warn_fst]; exact this
      | some ns => rw [hm] at this; exact this
    · -- message
      split
      · rfl
      · have := modMsg_eq st.1 (toCAN id) (fun m => { m with desc := text }) hu
        cases hm : updMessage st.1.messages (toCAN id) (fun m => { m with desc := text }) with
        | none => rw [hm] at this; simp only [warn_fst]; exact this
        | some ms => rw [hm] at this; exact this
    · -- signal
      split
      · rfl
      · have := modSig_eq st.1 (toCAN id) sg (fun s => { s with desc := text }) hu
        cases hm : updSignal st.1.messages (toCAN id) sg (fun s => { s with desc := text }) with
        | none => rw [hm] at this; simp only [warn_fst]; exact this
        | some ms => rw [hm] at this; exact this
  | valDescs p obj id sg env vds =>
    simp only [metaStep, dStep]
    split
    · rfl
    · split
      · rfl
      · have := modSig_eq st.1 (toCAN id) sg
          (fun s => { s with vds := s.vds ++ vds.map fun v => (⟨f64ToInt64 v.value, v.desc⟩ : DVal) }) hu
        cases hm : updSignal st.1.messages (toCAN id) sg
            (fun s => { s with vds := s.vds ++ vds.map fun v => (⟨f64ToInt64 v.value, v.desc⟩ : DVal) }) with
        | none => rw [hm] at this; simp only [warn_fst]; exact this
        | some ms => rw [hm] at this; exact this
  | attrValue p name obj id sg node env i f sv =>
    cases obj <;> simp only [metaStep, dStep]
    · have := modMsg_eq st.1 (toCAN id) (fMsgAttr name i sv) hu
      unfold fMsgAttr at this ⊢
      cases hm : updMessage st.1.messages (toCAN id)
          (if name == bs "GenMsgSendType" then fun m => { m with sendType := sendTypeOf sv }
           else if name == bs "GenMsgCycleTime" then fun m => { m with cycleNs := wrapInt64 (i * 1000000) }
           else if name == bs "GenMsgDelayTime" then fun m => { m with delayNs := wrapInt64 (i * 1000000) }
           else fun m => m) with
      | none => rw [hm] at this; simp only [warn_fst]; exact this
      | some ms => rw [hm] at this; exact this
    · have := modSig_eq st.1 (toCAN id) sg (gSigAttr name i) hu
      unfold gSigAttr at this ⊢
      cases hm : updSignal st.1.messages (toCAN id) sg
          (if name == bs "GenSigStartValue" then fun s => { s with default := i } else fun s => s) with
      | none => rw [hm] at this; simp only [warn_fst]; exact this
      | some ms => rw [hm] at this; exact this
  | _ => rfl

/-! ### the updates preserve the uniqueness invariant -/

/-- a message update that keeps the id and the signal names -/
def PresM (F : DMessage → DMessage) : Prop :=
  ∀ m, (F m).id = m.id ∧ (F m).signals.map (·.name) = m.signals.map (·.name)

theorem presM_mapSigIn (name : BStr) (g : DSignal → DSignal) (hg : ∀ s, (g s).name = s.name) : PresM (mapSigIn name g) := by
  intro m
  refine ⟨rfl, ?_⟩
  unfold mapSigIn
  simp only [List.map_map]
  apply List.map_congr_left
  intro s _
  simp only [Function.comp]
  split
  · exact hg s
  · rfl

theorem mapMsg_ids (id : Nat) (F : DMessage → DMessage) (hF : PresM F) (ms : List DMessage) :
    (mapMsg id F ms).map (·.id) = ms.map (·.id) := by
  unfold mapMsg
  simp only [List.map_map]
  apply List.map_congr_left
  intro m _
  simp only [Function.comp]
  split
  · exact (hF m).1
  · rfl

theorem uniq_onMsgs (db : Database) (id : Nat) (F : DMessage → DMessage) (hF : PresM F) (hu : Uniq db) :
    Uniq (onMsgs db (mapMsg id F)) := by
  refine ⟨?_, ?_, hu.nodes⟩
  · show ((mapMsg id F db.messages).map (·.id)).Nodup
    rw [mapMsg_ids id F hF]; exact hu.ids
  · intro m hm
    have hm' : m ∈ mapMsg id F db.messages := hm
    unfold mapMsg at hm'
    obtain ⟨m0, hm0, rfl⟩ := List.mem_map.mp hm'
    split
    · rw [(hF m0).2]; exact hu.sigs m0 hm0
    · exact hu.sigs m0 hm0

theorem gVT_name (typ : Nat) (s : DSignal) : (gVT typ s).name = s.name := by
  unfold gVT
  split
  · rfl
  · split
    · split <;> rfl
    · rfl

theorem gSigAttr_name (name : BStr) (i : Int) (s : DSignal) : (gSigAttr name i s).name = s.name := by
  unfold gSigAttr
  split <;> rfl

theorem presM_fMsgAttr (name : BStr) (i : Int) (sv : BStr) : PresM (fMsgAttr name i sv) := by
  intro m
  unfold fMsgAttr
  split
  · exact ⟨rfl, rfl⟩
  · split
    · exact ⟨rfl, rfl⟩
    · split <;> exact ⟨rfl, rfl⟩

theorem dStep_uniq (d : Def) (db : Database) (hu : Uniq db) : Uniq (dStep d db) := by
  cases d with
  | sigValType p id sg typ => exact uniq_onMsgs db _ _ (presM_mapSigIn sg _ (gVT_name typ)) hu
  | comment p obj node id sg env text =>
    cases obj <;> simp only [dStep]
    · exact hu
    · refine ⟨hu.ids, hu.sigs, ?_⟩
      show ((mapNode node _ db.nodes).map (·.name)).Nodup
      have : (mapNode node (fun n => { n with desc := text }) db.nodes).map (·.name) = db.nodes.map (·.name) := by
        unfold mapNode
        simp only [List.map_map]
        apply List.map_congr_left
        intro n _
        simp only [Function.comp]
        split <;> rfl
      rw [this]; exact hu.nodes
    · split
      · exact hu
      · exact uniq_onMsgs db _ _ (fun m => ⟨rfl, rfl⟩) hu
    · split
      · exact hu
      · exact uniq_onMsgs db _ _ (presM_mapSigIn sg _ (fun _ => rfl)) hu
    · exact hu
  | valDescs p obj id sg env vds =>
    simp only [dStep]
    split
    · exact hu
    · split
      · exact hu
      · exact uniq_onMsgs db _ _ (presM_mapSigIn sg _ (fun _ => rfl)) hu
  | attrValue p name obj id sg node env i f sv =>
    cases obj <;> simp only [dStep]
    · exact hu
    · exact hu
    · exact uniq_onMsgs db _ _ (presM_fMsgAttr name i sv) hu
    · exact uniq_onMsgs db _ _ (presM_mapSigIn sg _ (gSigAttr_name name i)) hu
    · exact hu
  | _ => exact hu

/-- the database `addMetadata` builds is the fold of the pointwise updates -/
theorem addMetadata_db (defs : List Def) : ∀ (st : CState), Uniq st.1 →
    (defs.foldl metaStep st).1 = defs.foldl (fun db d => dStep d db) st.1 := by
  induction defs with
  | nil => intro st _; rfl
  | cons d r ih =>
    intro st hu
    simp only [List.foldl_cons]
    have e := metaStep_db st d hu
    rw [ih (metaStep st d) (by rw [e]; exact dStep_uniq d st.1 hu), e]

/-! ### commutation of updates -/

theorem mapMsg_comm (id id' : Nat) (F F' : DMessage → DMessage) (hF : ∀ m, (F m).id = m.id) (hF' : ∀ m, (F' m).id = m.id)
    (h : id ≠ id' ∨ ∀ m, F (F' m) = F' (F m)) (ms : List DMessage) :
    mapMsg id F (mapMsg id' F' ms) = mapMsg id' F' (mapMsg id F ms) := by
  unfold mapMsg
  simp only [List.map_map]
  apply List.map_congr_left
  intro m _
  simp only [Function.comp]
  by_cases a : (m.id == id) = true <;> by_cases b : (m.id == id') = true
  · have ea : m.id = id := by simpa using a
    have eb : m.id = id' := by simpa using b
    rcases h with h | h
    · exact absurd (ea.symm.trans eb) h
    · simp only [a, b, if_true, hF, hF', h m]
  · simp only [a, b, if_true, Bool.false_eq_true, if_false, hF]
  · simp only [a, b, if_true, Bool.false_eq_true, if_false, hF']
  · simp only [a, b, Bool.false_eq_true, if_false]

theorem mapSigIn_comm (sg sg' : BStr) (g g' : DSignal → DSignal) (hg : ∀ s, (g s).name = s.name)
    (hg' : ∀ s, (g' s).name = s.name) (h : sg ≠ sg' ∨ ∀ s, g (g' s) = g' (g s)) (m : DMessage) :
    mapSigIn sg g (mapSigIn sg' g' m) = mapSigIn sg' g' (mapSigIn sg g m) := by
  unfold mapSigIn
  simp only [List.map_map]
  congr 1
  apply List.map_congr_left
  intro s _
  simp only [Function.comp]
  by_cases a : (s.name == sg) = true <;> by_cases b : (s.name == sg') = true
  · have ea : s.name = sg := by simpa using a
    have eb : s.name = sg' := by simpa using b
    rcases h with h | h
    · exact absurd (ea.symm.trans eb) h
    · simp only [a, b, if_true, hg, hg', h s]
  · simp only [a, b, if_true, Bool.false_eq_true, if_false, hg]
  · simp only [a, b, if_true, Bool.false_eq_true, if_false, hg']
  · simp only [a, b, Bool.false_eq_true, if_false]

/-- the effect of one metadata definition -/
inductive Eff
  | none
  | msg (id : Nat) (F : DMessage → DMessage)
  | node (name : BStr) (h : DNode → DNode)

def Eff.apply : Eff → Database → Database
  | .none, db => db
  | .msg id F, db => onMsgs db (mapMsg id F)
  | .node name h, db => { db with nodes := mapNode name h db.nodes }

def eff (d : Def) : Eff :=
  match d with
  | .sigValType _ id sg typ => .msg (toCAN id) (mapSigIn sg (gVT typ))
  | .comment _ obj node id sg _ text =>
    match obj with
    | .message => if id == independentID then .none else .msg (toCAN id) fun m => { m with desc := text }
    | .signal => if id == independentID then .none else .msg (toCAN id) (mapSigIn sg fun s => { s with desc := text })
    | .node => .node node fun n => { n with desc := text }
    | _ => .none
  | .valDescs _ obj id sg _ vds =>
    if id == independentID then .none
    else if obj != .signal then .none
    else .msg (toCAN id) (mapSigIn sg fun s =>
      { s with vds := s.vds ++ vds.map fun v => (⟨f64ToInt64 v.value, v.desc⟩ : DVal) })
  | .attrValue _ name obj id sg _ _ i _ sv =>
    match obj with
    | .message => .msg (toCAN id) (fMsgAttr name i sv)
    | .signal => .msg (toCAN id) (mapSigIn sg (gSigAttr name i))
    | _ => .none
  | _ => .none

theorem dStep_eff (d : Def) (db : Database) : dStep d db = (eff d).apply db := by
  cases d with
  | comment p obj node id sg env text =>
    cases obj <;> simp only [dStep, eff] <;> (try split) <;> rfl
  | valDescs p obj id sg env vds =>
    simp only [dStep, eff]
    split
    · rfl
    · split <;> rfl
  | attrValue p name obj id sg node env i f sv => cases obj <;> rfl
  | _ => rfl

/-- two effects commute when they touch different things -/
def Eff.Indep : Eff → Eff → Prop
  | .none, _ => True
  | _, .none => True
  | .msg _ _, .node _ _ => True
  | .node _ _, .msg _ _ => True
  | .node n h, .node n' h' => n ≠ n' ∨ ∀ x, h (h' x) = h' (h x)
  | .msg id F, .msg id' F' => (∀ m, (F m).id = m.id) ∧ (∀ m, (F' m).id = m.id) ∧ (id ≠ id' ∨ ∀ m, F (F' m) = F' (F m))

theorem mapNode_comm (n n' : BStr) (h h' : DNode → DNode) (hh : ∀ x, (h x).name = x.name) (hh' : ∀ x, (h' x).name = x.name)
    (hc : n ≠ n' ∨ ∀ x, h (h' x) = h' (h x)) (ns : List DNode) :
    mapNode n h (mapNode n' h' ns) = mapNode n' h' (mapNode n h ns) := by
  unfold mapNode
  simp only [List.map_map]
  apply List.map_congr_left
  intro x _
  simp only [Function.comp]
  by_cases a : (x.name == n) = true <;> by_cases b : (x.name == n') = true
  · have ea : x.name = n := by simpa using a
    have eb : x.name = n' := by simpa using b
    rcases hc with hc | hc
    · exact absurd (ea.symm.trans eb) hc
    · simp only [a, b, if_true, hh, hh', hc x]
  · simp only [a, b, if_true, Bool.false_eq_true, if_false, hh]
  · simp only [a, b, if_true, Bool.false_eq_true, if_false, hh']
  · simp only [a, b, Bool.false_eq_true, if_false]

theorem Eff.apply_comm (e e' : Eff) (h : e.Indep e') (hn : ∀ n hh, e = .node n hh → ∀ x, (hh x).name = x.name)
    (hn' : ∀ n hh, e' = .node n hh → ∀ x, (hh x).name = x.name) (db : Database) :
    e.apply (e'.apply db) = e'.apply (e.apply db) := by
  cases e with
  | none => rfl
  | msg id F =>
    cases e' with
    | none => rfl
    | node n h' => rfl
    | msg id' F' =>
      obtain ⟨a, b, c⟩ := h
      simp only [Eff.apply, onMsgs]
      rw [mapMsg_comm id id' F F' a b c]
  | node n hh =>
    cases e' with
    | none => rfl
    | msg id' F' => rfl
    | node n' hh' =>
      simp only [Eff.apply]
      rw [mapNode_comm n n' hh hh' (hn n hh rfl) (hn' n' hh' rfl) h]

/-- what a metadata definition is about: (kind, CAN id, object name, attribute name) -/
def Def.key : Def → Option (Nat × Nat × BStr × BStr)
  | .sigValType _ id sg _ => some (1, toCAN id, sg, [])
  | .comment _ obj node id sg _ _ =>
    match obj with
    | .message => if id == independentID then none else some (2, toCAN id, [], [])
    | .signal => if id == independentID then none else some (3, toCAN id, sg, [])
    | .node => some (4, 0, node, [])
    | _ => none
  | .valDescs _ obj id sg _ _ => if id == independentID then none else if obj != .signal then none else some (5, toCAN id, sg, [])
  | .attrValue _ name obj id sg _ _ _ _ _ =>
    match obj with
    | .message => some (6, toCAN id, [], name)
    | .signal => some (7, toCAN id, sg, name)
    | _ => none
  | _ => none

theorem eff_none_of_key (d : Def) (h : d.key = none) : eff d = .none := by
  cases d with
  | comment p obj node id sg env text =>
    cases obj <;> simp only [Def.key, eff] at h ⊢ <;> (try split at h) <;> simp_all
  | valDescs p obj id sg env vds =>
    simp only [Def.key, eff] at h ⊢
    split at h
    · simp [*]
    · split at h
      · simp [*]
      · cases h
  | attrValue p name obj id sg node env i f sv => cases obj <;> simp_all [Def.key, eff]
  | sigValType p id sg typ => simp [Def.key] at h
  | _ => rfl

/-! ### definitions with different keys have independent effects -/

inductive Shape
  | vt (id : Nat) (sg : BStr) (typ : Nat)
  | mdesc (id : Nat) (text : BStr)
  | sdesc (id : Nat) (sg : BStr) (text : BStr)
  | ndesc (node : BStr) (text : BStr)
  | vds (id : Nat) (sg : BStr) (add : List DVal)
  | mattr (id : Nat) (name : BStr) (i : Int) (sv : BStr)
  | sattr (id : Nat) (sg : BStr) (name : BStr) (i : Int)

def gDesc (text : BStr) (s : DSignal) : DSignal := { s with desc := text }
def gVds (add : List DVal) (s : DSignal) : DSignal := { s with vds := s.vds ++ add }
def fDesc (text : BStr) (m : DMessage) : DMessage := { m with desc := text }

def Shape.eff : Shape → Eff
  | .vt id sg typ => .msg id (mapSigIn sg (gVT typ))
  | .mdesc id text => .msg id (fDesc text)
  | .sdesc id sg text => .msg id (mapSigIn sg (gDesc text))
  | .ndesc node text => .node node fun n => { n with desc := text }
  | .vds id sg add => .msg id (mapSigIn sg (gVds add))
  | .mattr id name i sv => .msg id (fMsgAttr name i sv)
  | .sattr id sg name i => .msg id (mapSigIn sg (gSigAttr name i))

def Shape.key : Shape → Nat × Nat × BStr × BStr
  | .vt id sg _ => (1, id, sg, [])
  | .mdesc id _ => (2, id, [], [])
  | .sdesc id sg _ => (3, id, sg, [])
  | .ndesc node _ => (4, 0, node, [])
  | .vds id sg _ => (5, id, sg, [])
  | .mattr id name _ _ => (6, id, [], name)
  | .sattr id sg name _ => (7, id, sg, name)

theorem shape_of_key (d : Def) (k : Nat × Nat × BStr × BStr) (h : d.key = some k) :
    ∃ sh : Shape, eff d = sh.eff ∧ sh.key = k := by
  cases d with
  | sigValType p id sg typ =>
    simp only [Def.key, Option.some.injEq] at h
    exact ⟨.vt (toCAN id) sg typ, rfl, h⟩
  | comment p obj node id sg env text =>
    cases obj <;> simp only [Def.key] at h
    · cases h
    · simp only [Option.some.injEq] at h; exact ⟨.ndesc node text, rfl, h⟩
    · split at h
      · cases h
      · next hi =>
        simp only [Option.some.injEq] at h
        exact ⟨.mdesc (toCAN id) text, by simp only [eff, hi, Bool.false_eq_true, if_false]; rfl, h⟩
    · split at h
      · cases h
      · next hi =>
        simp only [Option.some.injEq] at h
        exact ⟨.sdesc (toCAN id) sg text, by simp only [eff, hi, Bool.false_eq_true, if_false]; rfl, h⟩
    · cases h
  | valDescs p obj id sg env vds =>
    simp only [Def.key] at h
    split at h
    · cases h
    · next hi =>
      split at h
      · cases h
      · next ho =>
        simp only [Option.some.injEq] at h
        exact ⟨.vds (toCAN id) sg (vds.map fun v => (⟨f64ToInt64 v.value, v.desc⟩ : DVal)),
          by simp only [eff, hi, ho, Bool.false_eq_true, if_false]; rfl, h⟩
  | attrValue p name obj id sg node env i f sv =>
    cases obj <;> simp only [Def.key] at h
    · cases h
    · cases h
    · simp only [Option.some.injEq] at h; exact ⟨.mattr (toCAN id) name i sv, rfl, h⟩
    · simp only [Option.some.injEq] at h; exact ⟨.sattr (toCAN id) sg name i, rfl, h⟩
    · cases h
  | _ => simp [Def.key] at h

theorem mapSigIn_id (sg : BStr) (g : DSignal → DSignal) (m : DMessage) : (mapSigIn sg g m).id = m.id := rfl
theorem fDesc_id (t : BStr) (m : DMessage) : (fDesc t m).id = m.id := rfl
theorem fMsgAttr_id (name : BStr) (i : Int) (sv : BStr) (m : DMessage) : (fMsgAttr name i sv m).id = m.id :=
  (presM_fMsgAttr name i sv m).1

/-- message-level field updates commute with signal updates -/
theorem fDesc_mapSigIn (t : BStr) (sg : BStr) (g : DSignal → DSignal) (m : DMessage) :
    fDesc t (mapSigIn sg g m) = mapSigIn sg g (fDesc t m) := rfl

theorem fMsgAttr_mapSigIn (name : BStr) (i : Int) (sv : BStr) (sg : BStr) (g : DSignal → DSignal) (m : DMessage) :
    fMsgAttr name i sv (mapSigIn sg g m) = mapSigIn sg g (fMsgAttr name i sv m) := by
  unfold fMsgAttr
  split
  · rfl
  · split
    · rfl
    · split <;> rfl

theorem fDesc_fMsgAttr (t : BStr) (name : BStr) (i : Int) (sv : BStr) (m : DMessage) :
    fDesc t (fMsgAttr name i sv m) = fMsgAttr name i sv (fDesc t m) := by
  unfold fMsgAttr
  split
  · rfl
  · split
    · rfl
    · split <;> rfl

theorem fMsgAttr_comm (n1 n2 : BStr) (i1 i2 : Int) (s1 s2 : BStr) (hne : n1 ≠ n2) (m : DMessage) :
    fMsgAttr n1 i1 s1 (fMsgAttr n2 i2 s2 m) = fMsgAttr n2 i2 s2 (fMsgAttr n1 i1 s1 m) := by
  unfold fMsgAttr
  by_cases a1 : n1 = bs "GenMsgSendType" <;> by_cases a2 : n1 = bs "GenMsgCycleTime" <;>
    by_cases a3 : n1 = bs "GenMsgDelayTime" <;> by_cases b1 : n2 = bs "GenMsgSendType" <;>
    by_cases b2 : n2 = bs "GenMsgCycleTime" <;> by_cases b3 : n2 = bs "GenMsgDelayTime" <;>
    simp_all

theorem gDesc_name (t : BStr) (s : DSignal) : (gDesc t s).name = s.name := rfl
theorem gVds_name (a : List DVal) (s : DSignal) : (gVds a s).name = s.name := rfl

theorem gVT_gDesc (typ : Nat) (t : BStr) (s : DSignal) : gVT typ (gDesc t s) = gDesc t (gVT typ s) := by
  unfold gVT gDesc
  split
  · rfl
  · split
    · split <;> rfl
    · rfl

theorem gVT_gVds (typ : Nat) (a : List DVal) (s : DSignal) : gVT typ (gVds a s) = gVds a (gVT typ s) := by
  unfold gVT gVds
  split
  · rfl
  · split
    · split <;> rfl
    · rfl

theorem gVT_gSigAttr (typ : Nat) (n : BStr) (i : Int) (s : DSignal) :
    gVT typ (gSigAttr n i s) = gSigAttr n i (gVT typ s) := by
  unfold gVT gSigAttr
  split <;> split <;> (try split) <;> (try split) <;> rfl

theorem gDesc_gVds (t : BStr) (a : List DVal) (s : DSignal) : gDesc t (gVds a s) = gVds a (gDesc t s) := rfl

theorem gDesc_gSigAttr (t : BStr) (n : BStr) (i : Int) (s : DSignal) :
    gDesc t (gSigAttr n i s) = gSigAttr n i (gDesc t s) := by
  unfold gSigAttr; split <;> rfl

theorem gVds_gSigAttr (a : List DVal) (n : BStr) (i : Int) (s : DSignal) :
    gVds a (gSigAttr n i s) = gSigAttr n i (gVds a s) := by
  unfold gSigAttr; split <;> rfl

theorem gSigAttr_comm (n1 n2 : BStr) (i1 i2 : Int) (hne : n1 ≠ n2) (s : DSignal) :
    gSigAttr n1 i1 (gSigAttr n2 i2 s) = gSigAttr n2 i2 (gSigAttr n1 i1 s) := by
  unfold gSigAttr
  by_cases a : n1 = bs "GenSigStartValue" <;> by_cases b : n2 = bs "GenSigStartValue" <;> simp_all

/-- signal-level updates on the same message commute when they are about different signals or different fields -/
theorem sig_comm (id id' : Nat) (sg sg' : BStr) (g g' : DSignal → DSignal) (hg : ∀ s, (g s).name = s.name)
    (hg' : ∀ s, (g' s).name = s.name) (h : id ≠ id' ∨ sg ≠ sg' ∨ ∀ s, g (g' s) = g' (g s)) :
    (Eff.msg id (mapSigIn sg g)).Indep (Eff.msg id' (mapSigIn sg' g')) := by
  refine ⟨fun _ => rfl, fun _ => rfl, ?_⟩
  rcases h with h | h
  · exact Or.inl h
  · exact Or.inr (mapSigIn_comm sg sg' g g' hg hg' h)

theorem indep_of_shapes (a b : Shape) (h : a.key ≠ b.key) : a.eff.Indep b.eff := by
  cases a <;> cases b <;> simp only [Shape.key, ne_eq, Prod.mk.injEq, not_and] at h <;> simp only [Shape.eff]
  -- vt × _
  · rename_i id sg typ id' sg' typ'
    apply sig_comm _ _ _ _ _ _ (gVT_name typ) (gVT_name typ')
    by_cases e1 : id = id'
    · by_cases e2 : sg = sg'
      · exact absurd e2 (by simpa [e1] using h)
      · exact Or.inr (Or.inl e2)
    · exact Or.inl e1
  · exact ⟨fun _ => rfl, fDesc_id _, Or.inr fun m => (fDesc_mapSigIn _ _ _ m).symm⟩
  · exact sig_comm _ _ _ _ _ _ (gVT_name _) (gDesc_name _) (Or.inr (Or.inr (gVT_gDesc _ _)))
  · trivial
  · exact sig_comm _ _ _ _ _ _ (gVT_name _) (gVds_name _) (Or.inr (Or.inr (gVT_gVds _ _)))
  · exact ⟨fun _ => rfl, fMsgAttr_id _ _ _, Or.inr fun m => (fMsgAttr_mapSigIn _ _ _ _ _ m).symm⟩
  · exact sig_comm _ _ _ _ _ _ (gVT_name _) (gSigAttr_name _ _) (Or.inr (Or.inr (gVT_gSigAttr _ _ _)))
  -- mdesc × _
  · exact ⟨fDesc_id _, fun _ => rfl, Or.inr fun m => fDesc_mapSigIn _ _ _ m⟩
  · rename_i id t id' t'
    refine ⟨fDesc_id _, fDesc_id _, ?_⟩
    by_cases e1 : id = id'
    · exact absurd e1 (by simpa using h)
    · exact Or.inl e1
  · exact ⟨fDesc_id _, fun _ => rfl, Or.inr fun m => fDesc_mapSigIn _ _ _ m⟩
  · trivial
  · exact ⟨fDesc_id _, fun _ => rfl, Or.inr fun m => fDesc_mapSigIn _ _ _ m⟩
  · exact ⟨fDesc_id _, fMsgAttr_id _ _ _, Or.inr fun m => fDesc_fMsgAttr _ _ _ _ m⟩
  · exact ⟨fDesc_id _, fun _ => rfl, Or.inr fun m => fDesc_mapSigIn _ _ _ m⟩
  -- sdesc × _
  · exact sig_comm _ _ _ _ _ _ (gDesc_name _) (gVT_name _) (Or.inr (Or.inr fun s => (gVT_gDesc _ _ s).symm))
  · exact ⟨fun _ => rfl, fDesc_id _, Or.inr fun m => (fDesc_mapSigIn _ _ _ m).symm⟩
  · rename_i id sg t id' sg' t'
    apply sig_comm _ _ _ _ _ _ (gDesc_name t) (gDesc_name t')
    by_cases e1 : id = id'
    · by_cases e2 : sg = sg'
      · exact absurd e2 (by simpa [e1] using h)
      · exact Or.inr (Or.inl e2)
    · exact Or.inl e1
  · trivial
  · exact sig_comm _ _ _ _ _ _ (gDesc_name _) (gVds_name _) (Or.inr (Or.inr (gDesc_gVds _ _)))
  · exact ⟨fun _ => rfl, fMsgAttr_id _ _ _, Or.inr fun m => (fMsgAttr_mapSigIn _ _ _ _ _ m).symm⟩
  · exact sig_comm _ _ _ _ _ _ (gDesc_name _) (gSigAttr_name _ _) (Or.inr (Or.inr (gDesc_gSigAttr _ _ _)))
  -- ndesc × _
  · trivial
  · trivial
  · trivial
  · rename_i n t n' t'
    show n ≠ n' ∨ _
    by_cases e : n = n'
    · exact absurd e (by simpa using h)
    · exact Or.inl e
  · trivial
  · trivial
  · trivial
  -- vds × _
  · exact sig_comm _ _ _ _ _ _ (gVds_name _) (gVT_name _) (Or.inr (Or.inr fun s => (gVT_gVds _ _ s).symm))
  · exact ⟨fun _ => rfl, fDesc_id _, Or.inr fun m => (fDesc_mapSigIn _ _ _ m).symm⟩
  · exact sig_comm _ _ _ _ _ _ (gVds_name _) (gDesc_name _) (Or.inr (Or.inr fun s => (gDesc_gVds _ _ s).symm))
  · trivial
  · rename_i id sg a id' sg' a'
    apply sig_comm _ _ _ _ _ _ (gVds_name a) (gVds_name a')
    by_cases e1 : id = id'
    · by_cases e2 : sg = sg'
      · exact absurd e2 (by simpa [e1] using h)
      · exact Or.inr (Or.inl e2)
    · exact Or.inl e1
  · exact ⟨fun _ => rfl, fMsgAttr_id _ _ _, Or.inr fun m => (fMsgAttr_mapSigIn _ _ _ _ _ m).symm⟩
  · exact sig_comm _ _ _ _ _ _ (gVds_name _) (gSigAttr_name _ _) (Or.inr (Or.inr (gVds_gSigAttr _ _ _)))
  -- mattr × _
  · exact ⟨fMsgAttr_id _ _ _, fun _ => rfl, Or.inr fun m => fMsgAttr_mapSigIn _ _ _ _ _ m⟩
  · exact ⟨fMsgAttr_id _ _ _, fDesc_id _, Or.inr fun m => (fDesc_fMsgAttr _ _ _ _ m).symm⟩
  · exact ⟨fMsgAttr_id _ _ _, fun _ => rfl, Or.inr fun m => fMsgAttr_mapSigIn _ _ _ _ _ m⟩
  · trivial
  · exact ⟨fMsgAttr_id _ _ _, fun _ => rfl, Or.inr fun m => fMsgAttr_mapSigIn _ _ _ _ _ m⟩
  · rename_i id n i sv id' n' i' sv'
    refine ⟨fMsgAttr_id _ _ _, fMsgAttr_id _ _ _, ?_⟩
    by_cases e1 : id = id'
    · by_cases e2 : n = n'
      · exact absurd e2 (by simpa [e1] using h)
      · exact Or.inr (fMsgAttr_comm _ _ _ _ _ _ e2)
    · exact Or.inl e1
  · exact ⟨fMsgAttr_id _ _ _, fun _ => rfl, Or.inr fun m => fMsgAttr_mapSigIn _ _ _ _ _ m⟩
  -- sattr × _
  · exact sig_comm _ _ _ _ _ _ (gSigAttr_name _ _) (gVT_name _) (Or.inr (Or.inr fun s => (gVT_gSigAttr _ _ _ s).symm))
  · exact ⟨fun _ => rfl, fDesc_id _, Or.inr fun m => (fDesc_mapSigIn _ _ _ m).symm⟩
  · exact sig_comm _ _ _ _ _ _ (gSigAttr_name _ _) (gDesc_name _) (Or.inr (Or.inr fun s => (gDesc_gSigAttr _ _ _ s).symm))
  · trivial
  · exact sig_comm _ _ _ _ _ _ (gSigAttr_name _ _) (gVds_name _) (Or.inr (Or.inr fun s => (gVds_gSigAttr _ _ _ s).symm))
  · exact ⟨fun _ => rfl, fMsgAttr_id _ _ _, Or.inr fun m => (fMsgAttr_mapSigIn _ _ _ _ _ m).symm⟩
  · rename_i id sg n i id' sg' n' i'
    apply sig_comm _ _ _ _ _ _ (gSigAttr_name n i) (gSigAttr_name n' i')
    by_cases e1 : id = id'
    · by_cases e2 : sg = sg'
      · by_cases e3 : n = n'
        · exact absurd e3 (by simpa [e1, e2] using h)
        · exact Or.inr (Or.inr (gSigAttr_comm _ _ _ _ e3))
      · exact Or.inr (Or.inl e2)
    · exact Or.inl e1

/-- what makes two metadata definitions order-independent: they are about different (kind, object, attribute) -/
def KeyCompat (a b : Def) : Prop := a.key = none ∨ b.key = none ∨ a.key ≠ b.key

theorem dStep_comm (d1 d2 : Def) (h : KeyCompat d1 d2) (db : Database) :
    dStep d1 (dStep d2 db) = dStep d2 (dStep d1 db) := by
  simp only [dStep_eff]
  cases k1 : d1.key with
  | none => rw [eff_none_of_key d1 k1]; rfl
  | some a =>
    cases k2 : d2.key with
    | none => rw [eff_none_of_key d2 k2]; rfl
    | some b =>
      obtain ⟨s1, e1, q1⟩ := shape_of_key d1 a k1
      obtain ⟨s2, e2, q2⟩ := shape_of_key d2 b k2
      have hne : s1.key ≠ s2.key := by
        rw [q1, q2]
        rcases h with h | h | h
        · rw [k1] at h; cases h
        · rw [k2] at h; cases h
        · rw [k1, k2] at h; exact fun e => h (by rw [e])
      rw [e1, e2]
      apply Eff.apply_comm _ _ (indep_of_shapes s1 s2 hne)
      · intro n hh e x; cases s1 <;> simp only [Shape.eff] at e <;> cases e; rfl
      · intro n hh e x; cases s2 <;> simp only [Shape.eff] at e <;> cases e; rfl

/-- on a fixed database, metadata definitions about pairwise different things can be applied in any order -/
theorem fold_dStep_perm (l l' : List Def) (hp : l.Perm l') (hk : l.Pairwise KeyCompat) (db : Database) :
    l.foldl (fun db d => dStep d db) db = l'.foldl (fun db d => dStep d db) db := by
  apply List.Perm.foldl_eq' hp
  intro x hx y hy z
  rcases pairwise_mem_cases hk hx hy with e | e | e
  · rw [e]
  · exact (dStep_comm y x (by
      rcases e with e | e | e
      · exact Or.inr (Or.inl e)
      · exact Or.inl e
      · exact Or.inr (Or.inr (fun q => e q.symm))) z)
  · exact dStep_comm y x e z

/-! ### databases up to the order of their lists -/

structure DbEquiv (a b : Database) : Prop where
  version : a.version = b.version
  messages : a.messages.Perm b.messages
  nodes : a.nodes.Perm b.nodes

theorem DbEquiv.refl (a : Database) : DbEquiv a a := ⟨rfl, List.Perm.refl _, List.Perm.refl _⟩

theorem Eff.apply_equiv (e : Eff) (a b : Database) (h : DbEquiv a b) : DbEquiv (e.apply a) (e.apply b) := by
  cases e with
  | none => exact h
  | msg id F => exact ⟨h.version, by simp only [Eff.apply, onMsgs, mapMsg]; exact h.messages.map _, h.nodes⟩
  | node n hh => exact ⟨h.version, h.messages, by simp only [Eff.apply, mapNode]; exact h.nodes.map _⟩

theorem fold_dStep_equiv (l : List Def) : ∀ (a b : Database), DbEquiv a b →
    DbEquiv (l.foldl (fun db d => dStep d db) a) (l.foldl (fun db d => dStep d db) b) := by
  induction l with
  | nil => intro a b h; exact h
  | cons d r ih =>
    intro a b h
    simp only [List.foldl_cons]
    apply ih
    rw [dStep_eff, dStep_eff]
    exact Eff.apply_equiv _ a b h

theorem uniq_of_equiv (a b : Database) (h : DbEquiv a b) (hu : Uniq a) : Uniq b := by
  refine ⟨?_, ?_, ?_⟩
  · exact (h.messages.map (·.id)).nodup_iff.mp hu.ids
  · intro m hm; exact hu.sigs m (h.messages.mem_iff.mpr hm)
  · exact (h.nodes.map (·.name)).nodup_iff.mp hu.nodes

/-! ### `collectDescriptors` as list comprehensions -/

def msgOf : Def → Option DMessage
  | .message _ id name size tx sigs =>
    if id == independentID then none else
    some { name := name, id := toCAN id, extended := msgIsExtended id, length := size % 256,
           signals := sigs.map signalOfDef, sender := tx }
  | _ => none

def nodesOf : Def → List DNode
  | .nodes _ names => names.map fun n => ({ name := n } : DNode)
  | _ => []

def verVal : Def → Option BStr
  | .version _ v => some v
  | _ => none

def collectStep (db : Database) (d : Def) : Database :=
  match d with
  | .version _ v => { db with version := v }
  | .message _ id name size tx sigs =>
    if id == independentID then db else
    let m : DMessage :=
      { name := name, id := toCAN id, extended := msgIsExtended id, length := size % 256,
        signals := sigs.map signalOfDef, sender := tx }
    { db with messages := db.messages ++ [m] }
  | .nodes _ names => { db with nodes := db.nodes ++ names.map fun n => ({ name := n } : DNode) }
  | _ => db

theorem collect_fold (defs : List Def) : collect defs = defs.foldl collectStep {} := rfl

theorem collect_acc (defs : List Def) : ∀ acc : Database,
    defs.foldl collectStep acc =
      { version := ((defs.filterMap verVal).getLast?).getD acc.version,
        messages := acc.messages ++ defs.filterMap msgOf,
        nodes := acc.nodes ++ defs.flatMap nodesOf } := by
  induction defs with
  | nil => intro acc; simp
  | cons d r ih =>
    intro acc
    rw [List.foldl_cons, ih]
    cases d <;> simp only [collectStep, List.filterMap_cons, verVal, msgOf, List.flatMap_cons, nodesOf,
      List.nil_append, List.append_assoc, List.append_nil]
    case version p v =>
      cases hr : (r.filterMap verVal).getLast? with
      | none =>
        have : r.filterMap verVal = [] := List.getLast?_eq_none_iff.mp hr
        simp [this]
      | some w =>
        have hne : r.filterMap verVal ≠ [] := by intro e; rw [e] at hr; cases hr
        rw [List.getLast?_cons_of_ne_nil hne] <;> simp [hr]
    case message p id name size tx sigs =>
      split <;> simp
    all_goals rfl

theorem collect_eq (defs : List Def) :
    collect defs = { version := ((defs.filterMap verVal).getLast?).getD [], messages := defs.filterMap msgOf,
                     nodes := defs.flatMap nodesOf } := by
  rw [collect_fold, collect_acc]; simp

theorem collect_equiv (defs defs' : List Def) (hp : defs.Perm defs') (hv : (defs.filterMap verVal).length ≤ 1) :
    DbEquiv (collect defs) (collect defs') := by
  rw [collect_eq, collect_eq]
  refine ⟨?_, hp.filterMap msgOf, hp.flatMap_right nodesOf⟩
  have hpv := hp.filterMap verVal
  simp only
  cases hl : defs.filterMap verVal with
  | nil => rw [hl] at hpv; rw [(List.nil_perm.mp hpv)]
  | cons a r =>
    have : r = [] := by
      rw [hl] at hv
      simp only [List.length_cons] at hv
      exact List.eq_nil_of_length_eq_zero (by omega)
    subst this
    rw [hl] at hpv
    rw [← hpv.singleton_eq]

/-! ### the comparators of `sortDescriptors` on distinct keys -/

theorem bstrLt_irrefl : ∀ a : BStr, bstrLt a a = false
  | [] => rfl
  | x :: r => by simp [bstrLt, bstrLt_irrefl r]

theorem bstrLt_asym : ∀ a b : BStr, bstrLt a b = true → bstrLt b a = false
  | [], [], h => by simp [bstrLt] at h
  | [], _ :: _, _ => rfl
  | _ :: _, [], h => by simp [bstrLt] at h
  | x :: r, y :: t, h => by
    unfold bstrLt at h ⊢
    by_cases h1 : x < y
    · have : ¬ y < x := by
        simp only [UInt8.lt_iff_toNat_lt] at h1 ⊢; omega
      simp [this, h1]
    · by_cases h2 : y < x
      · simp [h1, h2] at h
      · simp only [h1, h2, if_false] at h ⊢
        exact bstrLt_asym r t h

theorem bstrLt_trans : ∀ a b c : BStr, bstrLt a b = true → bstrLt b c = true → bstrLt a c = true
  | [], [], _, h, _ => by simp [bstrLt] at h
  | [], _ :: _, [], _, h => by simp [bstrLt] at h
  | [], _ :: _, _ :: _, _, _ => rfl
  | _ :: _, [], _, h, _ => by simp [bstrLt] at h
  | _ :: _, _ :: _, [], _, h => by simp [bstrLt] at h
  | x :: r, y :: t, z :: u, h1, h2 => by
    unfold bstrLt at h1 h2 ⊢
    simp only [UInt8.lt_iff_toNat_lt] at h1 h2 ⊢
    by_cases a1 : x.toNat < y.toNat
    · by_cases b1 : y.toNat < z.toNat
      · have : x.toNat < z.toNat := by omega
        simp [this]
      · by_cases b2 : z.toNat < y.toNat
        · simp [b1, b2] at h2
        · have e : y.toNat = z.toNat := by omega
          have : x.toNat < z.toNat := by omega
          simp [this]
    · by_cases a2 : y.toNat < x.toNat
      · simp [a1, a2] at h1
      · have e : x.toNat = y.toNat := by omega
        simp only [a1, a2, if_false] at h1
        by_cases b1 : y.toNat < z.toNat
        · have : x.toNat < z.toNat := by omega
          simp [this]
        · by_cases b2 : z.toNat < y.toNat
          · simp [b1, b2] at h2
          · simp only [b1, b2, if_false] at h2
            have c1 : ¬ x.toNat < z.toNat := by omega
            have c2 : ¬ z.toNat < x.toNat := by omega
            simp only [c1, c2, if_false]
            exact bstrLt_trans r t u h1 h2

theorem bstrLt_total : ∀ a b : BStr, a = b ∨ bstrLt a b = true ∨ bstrLt b a = true
  | [], [] => Or.inl rfl
  | [], _ :: _ => Or.inr (Or.inl rfl)
  | _ :: _, [] => Or.inr (Or.inr rfl)
  | x :: r, y :: t => by
    unfold bstrLt
    by_cases h1 : x < y
    · simp [h1]
    · by_cases h2 : y < x
      · simp [h1, h2]
      · have e : x = y := by
          apply UInt8.toNat_inj.mp
          simp only [UInt8.lt_iff_toNat_lt] at h1 h2
          omega
        subst e
        simp only [h1, if_false]
        rcases bstrLt_total r t with e | e | e
        · exact Or.inl (by rw [e])
        · exact Or.inr (Or.inl e)
        · exact Or.inr (Or.inr e)

/-- sorting two permutations of a list with pairwise distinct keys under a total strict order gives the same list -/
theorem sortBy_perm_eq {α : Type} (lt : α → α → Bool) (l l' : List α) (hp : l.Perm l')
    (asym : ∀ a b, lt a b = true → lt b a = false)
    (trans : ∀ a b c, lt a b = true → lt b c = true → lt a c = true)
    (total : ∀ a ∈ l, ∀ b ∈ l, a = b ∨ lt a b = true ∨ lt b a = true) (nodup : l.Nodup) :
    sortBy lt l = sortBy lt l' := by
  have p1 := sortBy_perm lt l
  have p2 := sortBy_perm lt l'
  apply C05_sorted_unique lt _ _ ((p1.trans hp).trans p2.symm) (C05_sort_sorted lt asym trans l)
    (C05_sort_sorted lt asym trans l')
  · intro a ha b hb
    exact total a (p1.mem_iff.mp ha) b (p1.mem_iff.mp hb)
  · exact p1.nodup_iff.mpr nodup

theorem nodup_of_map {α β} (f : α → β) (l : List α) (h : (l.map f).Nodup) : l.Nodup := by
  induction l with
  | nil => exact List.nodup_nil
  | cons a r ih =>
    simp only [List.map_cons, List.nodup_cons] at h ⊢
    exact ⟨fun hm => h.1 (List.mem_map.mpr ⟨a, hm, rfl⟩), ih h.2⟩

theorem eq_of_key_eq {α β} (f : α → β) (l : List α) (h : (l.map f).Nodup) (a b : α) (ha : a ∈ l) (hb : b ∈ l)
    (e : f a = f b) : a = b := by
  induction l with
  | nil => cases ha
  | cons x r ih =>
    simp only [List.map_cons, List.nodup_cons] at h
    rcases List.mem_cons.mp ha with rfl | ha' <;> rcases List.mem_cons.mp hb with rfl | hb'
    · rfl
    · exact absurd (List.mem_map.mpr ⟨b, hb', e.symm⟩) h.1
    · exact absurd (List.mem_map.mpr ⟨a, ha', e⟩) h.1
    · exact ih h.2 ha' hb'

/-- `sortDescriptors` does not see the order of the message and node lists (distinct IDs, distinct node names) -/
theorem sortDescriptors_equiv (a b : Database) (h : DbEquiv a b) (hu : Uniq a) :
    sortDescriptors a = sortDescriptors b := by
  unfold sortDescriptors
  have hn : sortBy (fun (x y : DNode) => bstrLt x.name y.name) a.nodes =
      sortBy (fun (x y : DNode) => bstrLt x.name y.name) b.nodes := by
    apply sortBy_perm_eq _ _ _ h.nodes
    · intro x y; exact bstrLt_asym x.name y.name
    · intro x y z; exact bstrLt_trans x.name y.name z.name
    · intro x hx y hy
      rcases bstrLt_total x.name y.name with e | e | e
      · exact Or.inl (eq_of_key_eq (·.name) a.nodes hu.nodes x y hx hy e)
      · exact Or.inr (Or.inl e)
      · exact Or.inr (Or.inr e)
    · exact nodup_of_map (·.name) a.nodes hu.nodes
  have hm : sortBy (fun (x y : DMessage) => decide (x.id < y.id)) a.messages =
      sortBy (fun (x y : DMessage) => decide (x.id < y.id)) b.messages := by
    apply sortBy_perm_eq _ _ _ h.messages
    · intro x y hxy; simp only [decide_eq_true_eq] at hxy; simp only [decide_eq_false_iff_not]; omega
    · intro x y z h1 h2; simp only [decide_eq_true_eq] at h1 h2 ⊢; omega
    · intro x hx y hy
      by_cases e : x.id = y.id
      · exact Or.inl (eq_of_key_eq (·.id) a.messages hu.ids x y hx hy e)
      · by_cases l : x.id < y.id
        · exact Or.inr (Or.inl (by simpa using l))
        · exact Or.inr (Or.inr (by simp only [decide_eq_true_eq]; omega))
    · exact nodup_of_map (·.id) a.messages hu.ids
  rw [hn, hm, h.version]

end CanVerif
