import CanVerif.Lemmas.GenSem2
/-! Field-level facts about generated messages: a field's encoder touches only the field's own payload positions, its
decoder looks only at them, and decoding what was just encoded returns the stored value.  Integer and bool signals. -/
namespace CanVerif

/-- payload positions of a signal -/
def DSignal.rng (s : DSignal) : Range := s.sig.range

theorem rng_l (s : DSignal) : s.rng.l = s.length := rfl

/-- `unmarshalField` written by cases (no float) -/
theorem unmarshalField_eq (s : DSignal) (d : Data) (hf : s.float = false) :
    unmarshalField s d =
      if s.length = 1 then (if getBit d s.start then 1 else 0)
      else if s.signed then wrapKind (kindOf s) (readS s.rng d).toInt
      else wrapKind (kindOf s) (readU s.rng d).toNat := by
  unfold unmarshalField Sig.unmarshalBool Sig.unmarshalSigned Sig.unmarshalUnsigned DSignal.rng
  simp only [hf, Bool.and_false, Bool.false_eq_true, if_false, beq_iff_eq]
  rfl

theorem marshalField_eq (s : DSignal) (v : Raw) (d : Data) (hf : s.float = false) :
    marshalField s v d =
      if s.length = 1 then setBit d s.start (v != 0)
      else if s.signed then writeS s.rng d (BitVec.ofInt 64 v)
      else writeU s.rng d (BitVec.ofInt 64 v) := by
  unfold marshalField Sig.marshalBool Sig.marshalSigned Sig.marshalUnsigned DSignal.rng
  simp only [hf, Bool.and_false, Bool.false_eq_true, if_false, beq_iff_eq]
  rfl

/-- the single position of a 1-bit range is its start bit, in either byte order -/
theorem pos_zero_of_one (s : DSignal) (h1 : s.length = 1) : s.rng.pos 0 = s.start := by
  unfold Range.pos DSignal.rng DSignal.sig Sig.range
  simp only [h1]
  split <;> simp [bePos]

theorem start_le_63 (s : DSignal) (h : SigOk s) (h1 : s.length = 1) : s.start ≤ 63 := by
  have := s.rng.pos_lt h.fits 0 (by rw [rng_l]; omega)
  rw [pos_zero_of_one s h1] at this
  omega

theorem readU_congr (r : Range) (d d' : Data) (h : r.Fits)
    (hag : ∀ i, i < r.l → payloadBit d (r.pos i) = payloadBit d' (r.pos i)) : readU r d = readU r d' := by
  apply BitVec.eq_of_getLsbD_eq
  intro i _
  rw [readU_getLsbD r d h, readU_getLsbD r d' h]
  by_cases hi : i < r.l
  · rw [hag i hi]
  · simp [hi]

theorem readS_eq_asSigned (r : Range) (d : Data) : readS r d = asSigned (readU r d) r.l := by
  unfold readS readU readSBE readSLE; split <;> rfl

/-- the decoder looks only at the field's own positions -/
theorem unmarshalField_congr (s : DSignal) (d d' : Data) (h : SigOk s)
    (hag : ∀ i, i < s.length → payloadBit d (s.rng.pos i) = payloadBit d' (s.rng.pos i)) :
    unmarshalField s d = unmarshalField s d' := by
  rw [unmarshalField_eq s d h.nofloat, unmarshalField_eq s d' h.nofloat]
  by_cases h1 : s.length = 1
  · simp only [h1, if_true]
    have := hag 0 (by omega)
    rw [pos_zero_of_one s h1] at this
    rw [C01_bit, C01_bit, this]
  · simp only [h1, if_false]
    have e := readU_congr s.rng d d' h.fits (by intro i hi; exact hag i (by rw [rng_l] at hi; exact hi))
    rw [readS_eq_asSigned, readS_eq_asSigned, e]

theorem ofInt_toNat_of_nonneg (v : Int) (h0 : 0 ≤ v) (h : v < 2 ^ 64) : (BitVec.ofInt 64 v).toNat = v.toNat := by
  rw [BitVec.toNat_ofInt]
  have : v % ((2 ^ 64 : Nat) : Int) = v := Int.emod_eq_of_lt h0 (by simpa using h)
  rw [this]

/-- the low `L` bits of an in-range signed value, read back as a signed `L`-bit number, are the value -/
theorem setWidth_ofInt_toInt (L : Nat) (v : Int) (h1 : 1 ≤ L) (h64 : L ≤ 64)
    (lo : -(2 ^ (L - 1) : Int) ≤ v) (hi : v < 2 ^ (L - 1)) :
    (BitVec.setWidth L (BitVec.ofInt 64 v)).toInt = v := by
  rw [BitVec.toInt_setWidth, BitVec.toNat_ofInt]
  have hnn : 0 ≤ v % ((2 ^ 64 : Nat) : Int) := Int.emod_nonneg _ (by simp)
  rw [Int.toNat_of_nonneg hnn, ← Int.emod_bmod]
  have hd : ((2 ^ L : Nat) : Int) ∣ ((2 ^ 64 : Nat) : Int) := by
    have : (2 ^ L : Nat) ∣ 2 ^ 64 := Nat.pow_dvd_pow 2 h64
    exact Int.natCast_dvd_natCast.mpr this
  rw [Int.emod_emod_of_dvd _ hd, Int.emod_bmod]
  have e : ((2 ^ L : Nat) : Int) = 2 * 2 ^ (L - 1) := by
    have : L = (L - 1) + 1 := by omega
    rw [this, Nat.pow_succ]; simp; omega
  apply Int.bmod_eq_of_le_mul_two <;> rw [e] <;> omega

/-- in-range unsigned raw values are below `2^L` as 64-bit words -/
theorem below_of_uint (s : DSignal) (v : Raw) (h : SigOk s) (h1 : s.length ≠ 1) (hs : s.signed = false)
    (hv : rawInRange s v = true) : Below (BitVec.ofInt 64 v) s.length ∧ ((BitVec.ofInt 64 v).toNat : Int) = v := by
  unfold rawInRange at hv
  rw [kindOf_uint s h.nofloat h1 hs] at hv
  simp only [Bool.and_eq_true, decide_eq_true_eq] at hv
  have hp : (2 ^ s.length : Int) ≤ 2 ^ 64 := pow_le_pow_int s.length 64 h.l64
  obtain ⟨hv0, hv1⟩ := hv
  have hlt : v < 2 ^ s.length := Int.le_sub_one_iff.mp hv1
  have e := ofInt_toNat_of_nonneg v hv0 (Int.lt_of_lt_of_le hlt hp)
  refine ⟨?_, ?_⟩
  · unfold Below
    rw [e]
    have : (v.toNat : Int) < ((2 ^ s.length : Nat) : Int) := by
      rw [Int.toNat_of_nonneg hv0]; simpa using hlt
    exact_mod_cast this
  · rw [e, Int.toNat_of_nonneg hv0]

/-- the encoder touches only the field's own positions (the stored value being in range) -/
theorem marshalField_outside (s : DSignal) (v : Raw) (d : Data) (h : SigOk s) (hv : rawInRange s v = true) (k : Nat)
    (hout : ∀ i, i < s.length → s.rng.pos i ≠ k) : payloadBit (marshalField s v d) k = payloadBit d k := by
  rw [marshalField_eq s v d h.nofloat]
  by_cases h1 : s.length = 1
  · simp only [h1, if_true]
    rw [payloadBit_setBit]
    have := hout 0 (by omega)
    rw [pos_zero_of_one s h1] at this
    have : ¬ (k = s.start ∧ s.start ≤ 63) := fun c => this c.1.symm
    simp [this]
  · simp only [h1, if_false]
    cases hs : s.signed
    · simp only [Bool.false_eq_true, if_false]
      exact writeU_outside s.rng d _ h.fits (below_of_uint s v h h1 hs hv).1 k
        (by intro i hi; exact hout i (by rw [rng_l] at hi; exact hi))
    · simp only [if_true]
      obtain ⟨e, hb, _⟩ := C02_signed_write s.rng d (BitVec.ofInt 64 v) (by rw [rng_l]; exact h.l1) (by rw [rng_l]; exact h.l64)
      rw [e]
      exact writeU_outside s.rng d _ h.fits hb k (by intro i hi; exact hout i (by rw [rng_l] at hi; exact hi))

/-- decoding what was just encoded gives the stored value back -/
theorem unmarshal_marshal (s : DSignal) (v : Raw) (d : Data) (h : SigOk s) (hv : rawInRange s v = true) :
    unmarshalField s (marshalField s v d) = v := by
  rw [unmarshalField_eq s _ h.nofloat, marshalField_eq s v d h.nofloat]
  by_cases h1 : s.length = 1
  · simp only [h1, if_true]
    have hst := start_le_63 s h h1
    rw [C01_bit, payloadBit_setBit]
    unfold rawInRange at hv
    rw [kindOf_bool s h.nofloat h1] at hv
    simp only [Bool.or_eq_true, beq_iff_eq] at hv
    rcases hv with rfl | rfl <;> simp [hst]
  · simp only [h1, if_false]
    cases hs : s.signed
    · simp only [Bool.false_eq_true, if_false]
      obtain ⟨hb, hval⟩ := below_of_uint s v h h1 hs hv
      rw [readU_writeU s.rng d _ h.fits hb, kindOf_uint s h.nofloat h1 hs, hval]
      unfold rawInRange at hv
      rw [kindOf_uint s h.nofloat h1 hs] at hv
      simp only [Bool.and_eq_true, decide_eq_true_eq] at hv
      have hp := pow_le_pow_int s.length (goWidth s.length) (goWidth_ge s.length h.l64)
      exact wrap_uint_id _ _ hv.1 (Int.lt_of_lt_of_le (Int.le_sub_one_iff.mp hv.2) hp)
    · simp only [if_true]
      have hl1 : 1 ≤ s.rng.l := by rw [rng_l]; exact h.l1
      have hl64 : s.rng.l ≤ 64 := by rw [rng_l]; exact h.l64
      rw [C02_read_after_write_signed s.rng d _ h.fits hl1 hl64, BitVec.toInt_signExtend_of_le hl64, rng_l]
      unfold rawInRange at hv
      rw [kindOf_sint s h.nofloat h1 h.l64 hs] at hv
      simp only [Bool.and_eq_true, decide_eq_true_eq] at hv
      obtain ⟨lo, hi⟩ := hv
      have hi' : v < 2 ^ (s.length - 1) := Int.le_sub_one_iff.mp hi
      rw [setWidth_ofInt_toInt s.length v h.l1 h.l64 lo hi', kindOf_sint s h.nofloat h1 h.l64 hs]
      have hp := pow_le_pow_int (s.length - 1) (goWidth s.length - 1) (by have := goWidth_ge s.length h.l64; omega)
      exact wrap_sint_id _ (by have := goWidth_ge s.length h.l64; have := h.l1; omega) _
        (Int.le_trans (Int.neg_le_neg hp) lo) (Int.lt_of_lt_of_le hi' hp)

end CanVerif
