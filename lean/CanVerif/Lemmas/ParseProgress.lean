import CanVerif.Model.DbcParse
import CanVerif.Lemmas.ScanProgress
/-! Progress of the DBC parser model: every operation leaves the measure `μ` (unread characters, pending look-ahead
character, pending look-ahead token) non-increasing, consuming a token other than EOF decreases it, and no loop runs
out of fuel when the fuel exceeds the measure.  The composite functions are handled by the verification-condition
generator of `Std.Do` from the specifications of the primitives. -/
open Std.Do
namespace CanVerif

def μ (st : PS) : Nat := μS st.sc + (if st.hasLA && st.la.typ != tokEOF then 1 else 0)
abbrev noFuel : PErr → Prop := fun e => e ≠ .fuel

macro "close_vcs" : tactic => `(tactic| all_goals first
  | ((try simp only [noFuel, bnd_eq, tokEOF, tokIdent, tokInt, tokFloat] at *); grind)
  | ((try simp only [noFuel, bnd_eq, tokEOF, tokIdent, tokInt, tokFloat, bne_iff_ne, beq_iff_eq, Bool.and_eq_true,
        Bool.or_eq_true, ne_eq, not_and, Decidable.not_not] at *); grind)
  | ((try simp only [μ, μS, ν, noFuel, bnd_eq, tokEOF, tokIdent, tokInt, tokFloat] at *); grind))

attribute [local irreducible] bs

theorem liftSc_run {α : Type} (f : Sc → Except ScanErr (α × Sc)) (st : PS) :
    (liftSc f).run st = match f st.sc with
      | .ok (a, sc') => .ok (a, { st with sc := sc' })
      | .error e => .error (if e.fuel then .fuel else .parse e.pos e.msg) := by
  unfold liftSc
  simp only [StateT.run, bind, StateT.bind, get, getThe, MonadStateOf.get, StateT.get, Except.bind, pure, Except.pure]
  cases f st.sc with
  | ok p => obtain ⟨a, sc'⟩ := p; rfl
  | error e => cases hf : e.fuel <;> simp [hf] <;> rfl

theorem liftErr_noFuel (e : ScanErr) (h : scanOk e) : noFuel (if e.fuel then PErr.fuel else PErr.parse e.pos e.msg) := by
  unfold scanOk at h; simp [h, noFuel]

@[spec] theorem liftScan_spec (n : Nat) :
    ⦃fun st => ⌜μ st = n ∧ st.hasLA = false⌝⦄ liftSc Sc.scan
    ⦃post⟨fun tok st' => ⌜μ st' ≤ bnd n ∧ (tok.typ ≠ tokEOF → μ st' < bnd n) ∧ st'.hasLA = false⌝, fun e => ⌜noFuel e⌝⟩⦄ := by
  apply triple_of_st
  intro st ⟨h1, h2⟩
  rw [liftSc_run, bnd_eq]
  cases hs : st.sc.scan with
  | error e => exact liftErr_noFuel e (exc_err_of_triple _ _ _ (scan_spec st.sc) _ hs)
  | ok p =>
    obtain ⟨tok, sc'⟩ := p
    have := exc_ok_of_triple _ _ _ (scan_spec st.sc) _ hs
    simp only at this ⊢
    unfold μ at *
    simp only [h2, Bool.false_and, Bool.false_eq_true, if_false, Nat.add_zero] at *
    subst h1; exact ⟨this.1, this.2, trivial⟩


theorem liftSc_spec {α : Type} (f : Sc → Except ScanErr (α × Sc)) (R : Sc → α → Sc → Prop)
    (hf : ∀ s, ⦃⌜True⌝⦄ f s ⦃post⟨fun r => ⌜R s r.1 r.2⌝, fun e => ⌜scanOk e⌝⟩⦄) (st0 : PS) :
    ⦃fun st => ⌜st = st0 ∧ True⌝⦄ liftSc f
    ⦃post⟨fun a st' => ⌜R st0.sc a st'.sc ∧ st'.hasLA = st0.hasLA ∧ st'.la = st0.la⌝, fun e => ⌜noFuel e⌝⟩⦄ := by
  apply triple_of_st
  intro st h
  obtain ⟨h, _⟩ := h
  subst h
  rw [liftSc_run]
  cases hs : f st.sc with
  | error e => exact liftErr_noFuel e (exc_err_of_triple _ _ _ (hf st.sc) _ hs)
  | ok p =>
    obtain ⟨a, sc'⟩ := p
    exact ⟨exc_ok_of_triple _ _ _ (hf st.sc) _ hs, rfl, rfl⟩

@[spec] theorem liftNextRune_spec (n : Nat) :
    ⦃fun st => ⌜μ st = n ∧ st.hasLA = false⌝⦄ liftSc Sc.nextRune
    ⦃post⟨fun r st' => ⌜μ st' ≤ bnd n ∧ (r ≠ -1 → μ st' < bnd n) ∧ st'.hasLA = false⌝, fun e => ⌜noFuel e⌝⟩⦄ := by
  apply triple_of_st
  intro st ⟨h1, h2⟩
  have := st_of_triple _ (fun _ => True) _ _ (liftSc_spec Sc.nextRune (fun s r s' => μS s' ≤ μS s ∧ (r ≠ -1 → μS s' < μS s)) nextRune_spec) st trivial
  revert this
  cases (liftSc Sc.nextRune).run st with
  | error e => exact id
  | ok p =>
    obtain ⟨r, st'⟩ := p
    simp only [bnd_eq]
    intro ⟨⟨a, b⟩, c, _⟩
    unfold μ at *
    simp only [c, h2, Bool.false_and, Bool.false_eq_true, if_false, Nat.add_zero] at *
    subst h1; exact ⟨a, b, trivial⟩

@[spec] theorem liftPeek_spec (n : Nat) :
    ⦃fun st => ⌜μ st = n ∧ st.hasLA = false⌝⦄ liftSc Sc.peek
    ⦃post⟨fun _ st' => ⌜μ st' ≤ bnd n ∧ st'.hasLA = false⌝, fun e => ⌜noFuel e⌝⟩⦄ := by
  apply triple_of_st
  intro st ⟨h1, h2⟩
  have := st_of_triple _ (fun _ => True) _ _ (liftSc_spec Sc.peek (fun s r s' => s'.ch = r ∧ ν r s' ≤ μS s) peek_spec) st trivial
  revert this
  cases (liftSc Sc.peek).run st with
  | error e => exact id
  | ok p =>
    obtain ⟨r, st'⟩ := p
    simp only [bnd_eq]
    intro ⟨⟨a, b⟩, c, _⟩
    unfold μ μS at *
    simp only [c, h2, Bool.false_and, Bool.false_eq_true, if_false, Nat.add_zero] at *
    subst h1
    rw [a]; exact ⟨b, trivial⟩

@[spec] theorem throw_spec {α : Type} (e : PErr) :
    ⦃⌜noFuel e⌝⦄ (throw e : P α) ⦃post⟨fun _ _ => ⌜False⌝, fun e => ⌜noFuel e⌝⟩⦄ := by
  apply triple_of_st
  intro s h
  exact h

@[spec] theorem panicAt_spec {α : Type} (site : String) :
    ⦃⌜True⌝⦄ (panicAt site : P α) ⦃post⟨fun _ _ => ⌜False⌝, fun e => ⌜noFuel e⌝⟩⦄ := by
  apply triple_of_st
  intro s _
  show noFuel (.panic site)
  simp [noFuel]

@[spec] theorem failf_spec {α : Type} (pos : Pos) (r : String) :
    ⦃⌜True⌝⦄ (failf pos r : P α) ⦃post⟨fun _ _ => ⌜False⌝, fun e => ⌜noFuel e⌝⟩⦄ := by
  apply triple_of_st
  intro s _
  show noFuel (.parse pos r)
  simp [noFuel]

@[spec] theorem nextToken_spec (n : Nat) (b : Bool) :
    ⦃fun st => ⌜μ st = n ∧ (st.hasLA && st.la.typ != tokEOF) = b⌝⦄ nextToken
    ⦃post⟨fun r st' => ⌜μ st' ≤ bnd n ∧ (r.typ ≠ tokEOF → μ st' < bnd n) ∧ (b = true → μ st' < bnd n) ∧ st'.hasLA = false⌝,
      fun e => ⌜noFuel e⌝⟩⦄ := by
  simp only [bnd_eq]
  mvcgen [nextToken]
  close_vcs

@[spec] theorem peekToken_spec (n : Nat) (b : Bool) (t : Token) :
    ⦃fun st => ⌜μ st = n ∧ st.hasLA = b ∧ st.la = t⌝⦄ peekToken
    ⦃post⟨fun r st' => ⌜μ st' ≤ bnd n ∧ st'.hasLA = true ∧ st'.la = r ∧ (b = true → r = t)⌝, fun e => ⌜noFuel e⌝⟩⦄ := by
  simp only [bnd_eq]
  mvcgen [peekToken]
  close_vcs

@[spec] theorem useWs_spec (n : Nat) (b : Bool) (t : Token) (w : Nat) :
    ⦃fun st => ⌜μ st = n ∧ st.hasLA = b ∧ st.la = t⌝⦄ useWhitespace w
    ⦃post⟨fun _ st' => ⌜μ st' ≤ bnd n ∧ st'.hasLA = b ∧ st'.la = t⌝, fun e => ⌜noFuel e⌝⟩⦄ := by
  simp only [bnd_eq]
  mvcgen [useWhitespace]
  close_vcs

@[spec] theorem pNextRune_spec (n : Nat) :
    ⦃fun st => ⌜μ st = n ∧ st.hasLA = false⌝⦄ nextRune
    ⦃post⟨fun r st' => ⌜μ st' ≤ bnd n ∧ (r ≠ -1 → μ st' < bnd n) ∧ st'.hasLA = false⌝, fun e => ⌜noFuel e⌝⟩⦄ := by
  simp only [bnd_eq]
  mvcgen [nextRune]
  close_vcs

@[spec] theorem pPeekRune_spec (n : Nat) :
    ⦃fun st => ⌜μ st = n ∧ st.hasLA = false⌝⦄ peekRune
    ⦃post⟨fun r st' => ⌜μ st' ≤ bnd n ∧ st'.hasLA = false⌝, fun e => ⌜noFuel e⌝⟩⦄ := by
  simp only [bnd_eq]
  mvcgen [peekRune]
  close_vcs

@[spec] theorem discardLoop_spec (fuel n : Nat) (b : Bool) (hf : n < fuel) :
    ⦃fun st => ⌜μ st = n ∧ (st.hasLA && st.la.typ != tokEOF) = b⌝⦄ discardLoop fuel
    ⦃post⟨fun _ st' => ⌜μ st' ≤ bnd n ∧ (b = true → μ st' < bnd n)⌝, fun e => ⌜noFuel e⌝⟩⦄ := by
  induction fuel generalizing n b with
  | zero => omega
  | succ k ih =>
    simp only [bnd_eq]
    mvcgen [discardLoop, ih]
    close_vcs

@[spec] theorem discardLine_spec (fuel n : Nat) (b : Bool) (hf : n < fuel) :
    ⦃fun st => ⌜μ st = n ∧ (st.hasLA && st.la.typ != tokEOF) = b⌝⦄ discardLine fuel
    ⦃post⟨fun _ st' => ⌜μ st' ≤ bnd n ∧ (b = true → μ st' < bnd n)⌝, fun e => ⌜noFuel e⌝⟩⦄ := by
  simp only [bnd_eq]
  mvcgen [discardLine]
  close_vcs

@[spec] theorem stringLoop_spec (tokPos : Pos) (fuel n : Nat) (acc : List UInt8) (hf : n < fuel) :
    ⦃fun st => ⌜μ st = n ∧ st.hasLA = false⌝⦄ stringLoop tokPos fuel acc
    ⦃post⟨fun _ st' => ⌜μ st' ≤ bnd n ∧ st'.hasLA = false⌝, fun e => ⌜noFuel e⌝⟩⦄ := by
  induction fuel generalizing n acc with
  | zero => omega
  | succ k ih =>
    simp only [bnd_eq]
    mvcgen [stringLoop, ih]
    close_vcs

@[spec] theorem pString_spec (fuel n : Nat) (hf : n < fuel) :
    ⦃fun st => ⌜μ st = n⌝⦄ pString fuel
    ⦃post⟨fun _ st' => ⌜μ st' < bnd n ∧ st'.hasLA = false⌝, fun e => ⌜noFuel e⌝⟩⦄ := by
  simp only [bnd_eq]
  mvcgen [pString]
  close_vcs

@[spec] theorem identifier_spec (n : Nat) :
    ⦃fun st => ⌜μ st = n⌝⦄ identifier
    ⦃post⟨fun r st' => ⌜μ st' < bnd n ∧ st'.hasLA = false⌝, fun e => ⌜noFuel e⌝⟩⦄ := by
  simp only [bnd_eq]
  mvcgen [identifier]
  close_vcs

@[spec] theorem stringIdentifier_spec (fuel : Nat) (n : Nat) (hf : n < fuel) :
    ⦃fun st => ⌜μ st = n⌝⦄ stringIdentifier fuel
    ⦃post⟨fun r st' => ⌜μ st' < bnd n⌝, fun e => ⌜noFuel e⌝⟩⦄ := by
  simp only [bnd_eq]
  mvcgen [stringIdentifier]
  close_vcs

@[spec] theorem peekKeyword_spec (n : Nat) :
    ⦃fun st => ⌜μ st = n⌝⦄ peekKeyword
    ⦃post⟨fun r st' => ⌜μ st' ≤ bnd n ∧ st'.hasLA = true ∧ st'.la.typ = tokIdent ∧ st'.la.txt = r⌝, fun e => ⌜noFuel e⌝⟩⦄ := by
  simp only [bnd_eq]
  mvcgen [peekKeyword]
  close_vcs

@[spec] theorem keyword_spec (kw : String) (n : Nat) :
    ⦃fun st => ⌜μ st = n⌝⦄ keyword kw
    ⦃post⟨fun r st' => ⌜μ st' < bnd n ∧ st'.hasLA = false⌝, fun e => ⌜noFuel e⌝⟩⦄ := by
  simp only [bnd_eq]
  mvcgen [keyword]
  close_vcs

@[spec] theorem token_spec (typ : Int) (n : Nat) :
    ⦃fun st => ⌜μ st = n⌝⦄ token typ
    ⦃post⟨fun r st' => ⌜μ st' ≤ bnd n ∧ (typ ≠ tokEOF → μ st' < bnd n)⌝, fun e => ⌜noFuel e⌝⟩⦄ := by
  simp only [bnd_eq]
  mvcgen [token]
  close_vcs

@[spec] theorem optionalToken_spec (typ : Int) (n : Nat) :
    ⦃fun st => ⌜μ st = n⌝⦄ optionalToken typ
    ⦃post⟨fun r st' => ⌜μ st' ≤ bnd n⌝, fun e => ⌜noFuel e⌝⟩⦄ := by
  simp only [bnd_eq]
  mvcgen [optionalToken]
  close_vcs

@[spec] theorem pUint_spec (n : Nat) :
    ⦃fun st => ⌜μ st = n⌝⦄ pUint
    ⦃post⟨fun r st' => ⌜μ st' < bnd n⌝, fun e => ⌜noFuel e⌝⟩⦄ := by
  simp only [bnd_eq]
  mvcgen [pUint]
  close_vcs


@[spec] theorem pFloat_spec (n : Nat) :
    ⦃fun st => ⌜μ st = n⌝⦄ pFloat
    ⦃post⟨fun r st' => ⌜μ st' < bnd n⌝, fun e => ⌜noFuel e⌝⟩⦄ := by
  simp only [bnd_eq]
  mvcgen [pFloat]
  close_vcs

@[spec] theorem pInt_spec (n : Nat) :
    ⦃fun st => ⌜μ st = n⌝⦄ pInt
    ⦃post⟨fun r st' => ⌜μ st' < bnd n⌝, fun e => ⌜noFuel e⌝⟩⦄ := by
  simp only [bnd_eq]
  mvcgen [pInt]
  close_vcs

@[spec] theorem intInRange_spec (lo hi : Int) (n : Nat) :
    ⦃fun st => ⌜μ st = n⌝⦄ intInRange lo hi
    ⦃post⟨fun r st' => ⌜μ st' ≤ bnd n⌝, fun e => ⌜noFuel e⌝⟩⦄ := by
  simp only [bnd_eq]
  mvcgen [intInRange]
  close_vcs

@[spec] theorem optionalUint_spec (n : Nat) :
    ⦃fun st => ⌜μ st = n⌝⦄ optionalUint
    ⦃post⟨fun r st' => ⌜μ st' ≤ bnd n⌝, fun e => ⌜noFuel e⌝⟩⦄ := by
  simp only [bnd_eq]
  mvcgen [optionalUint]
  close_vcs

@[spec] theorem anyOf_spec (ts : List Int) (n : Nat) :
    ⦃fun st => ⌜μ st = n⌝⦄ anyOf ts
    ⦃post⟨fun r st' => ⌜μ st' ≤ bnd n⌝, fun e => ⌜noFuel e⌝⟩⦄ := by
  simp only [bnd_eq]
  mvcgen [anyOf]
  close_vcs

@[spec] theorem optionalObjectType_spec (n : Nat) :
    ⦃fun st => ⌜μ st = n⌝⦄ optionalObjectType
    ⦃post⟨fun r st' => ⌜μ st' ≤ bnd n⌝, fun e => ⌜noFuel e⌝⟩⦄ := by
  simp only [bnd_eq]
  mvcgen [optionalObjectType]
  close_vcs

@[spec] theorem messageID_spec (n : Nat) :
    ⦃fun st => ⌜μ st = n⌝⦄ messageID
    ⦃post⟨fun r st' => ⌜μ st' < bnd n⌝, fun e => ⌜noFuel e⌝⟩⦄ := by
  simp only [bnd_eq]
  mvcgen [messageID]
  close_vcs

@[spec] theorem signalValueType_spec (n : Nat) :
    ⦃fun st => ⌜μ st = n⌝⦄ signalValueType
    ⦃post⟨fun r st' => ⌜μ st' < bnd n⌝, fun e => ⌜noFuel e⌝⟩⦄ := by
  simp only [bnd_eq]
  mvcgen [signalValueType]
  close_vcs

@[spec] theorem environmentVariableType_spec (n : Nat) :
    ⦃fun st => ⌜μ st = n⌝⦄ environmentVariableType
    ⦃post⟨fun r st' => ⌜μ st' < bnd n⌝, fun e => ⌜noFuel e⌝⟩⦄ := by
  simp only [bnd_eq]
  mvcgen [environmentVariableType]
  close_vcs

@[spec] theorem attributeValueType_spec (n : Nat) :
    ⦃fun st => ⌜μ st = n⌝⦄ attributeValueType
    ⦃post⟨fun r st' => ⌜μ st' < bnd n⌝, fun e => ⌜noFuel e⌝⟩⦄ := by
  simp only [bnd_eq]
  mvcgen [attributeValueType]
  close_vcs

@[spec] theorem accessType_spec (n : Nat) :
    ⦃fun st => ⌜μ st = n⌝⦄ accessType
    ⦃post⟨fun r st' => ⌜μ st' < bnd n⌝, fun e => ⌜noFuel e⌝⟩⦄ := by
  simp only [bnd_eq]
  mvcgen [accessType]
  close_vcs

@[spec] theorem enumValue_spec (fuel : Nat) (values : List BStr) (n : Nat) (hf : n < fuel) :
    ⦃fun st => ⌜μ st = n⌝⦄ enumValue fuel values
    ⦃post⟨fun r st' => ⌜μ st' ≤ bnd n⌝, fun e => ⌜noFuel e⌝⟩⦄ := by
  simp only [bnd_eq]
  mvcgen [enumValue]
  close_vcs

@[spec] theorem valueDescription_spec (fuel : Nat) (n : Nat) (hf : n < fuel) :
    ⦃fun st => ⌜μ st = n⌝⦄ valueDescription fuel
    ⦃post⟨fun r st' => ⌜μ st' < bnd n⌝, fun e => ⌜noFuel e⌝⟩⦄ := by
  simp only [bnd_eq]
  mvcgen [valueDescription]
  close_vcs

@[spec] theorem valueDescLoop_spec (strFuel : Nat) (acc : List ValueDesc) (fuel n : Nat) (hs : n < strFuel) (hf : n < fuel) :
    ⦃fun st => ⌜μ st = n⌝⦄ valueDescLoop strFuel fuel acc
    ⦃post⟨fun r st' => ⌜μ st' ≤ bnd n⌝, fun e => ⌜noFuel e⌝⟩⦄ := by
  induction fuel generalizing n acc with
  | zero => omega
  | succ k ih =>
    simp only [bnd_eq]
    mvcgen [valueDescLoop, ih]
    close_vcs

@[spec] theorem commaIdentLoop_spec (acc : List BStr) (fuel n : Nat) (hf : n < fuel) :
    ⦃fun st => ⌜μ st = n⌝⦄ commaIdentLoop fuel acc
    ⦃post⟨fun r st' => ⌜μ st' ≤ bnd n⌝, fun e => ⌜noFuel e⌝⟩⦄ := by
  induction fuel generalizing n acc with
  | zero => omega
  | succ k ih =>
    simp only [bnd_eq]
    mvcgen [commaIdentLoop, ih]
    close_vcs

@[spec] theorem parseSignal_spec (fuel : Nat) (n : Nat) (hf : n < fuel) :
    ⦃fun st => ⌜μ st = n⌝⦄ parseSignal fuel
    ⦃post⟨fun r st' => ⌜μ st' < bnd n⌝, fun e => ⌜noFuel e⌝⟩⦄ := by
  simp only [bnd_eq]
  mvcgen [parseSignal]
  close_vcs

@[spec] theorem signalLoop_spec (strFuel : Nat) (acc : List SignalDef) (fuel n : Nat) (hs : n < strFuel) (hf : n < fuel) :
    ⦃fun st => ⌜μ st = n⌝⦄ signalLoop strFuel fuel acc
    ⦃post⟨fun r st' => ⌜μ st' ≤ bnd n⌝, fun e => ⌜noFuel e⌝⟩⦄ := by
  induction fuel generalizing n acc with
  | zero => omega
  | succ k ih =>
    simp only [bnd_eq]
    mvcgen [signalLoop, ih]
    close_vcs

@[spec] theorem identWhileLoop_spec (acc : List BStr) (fuel n : Nat) (hf : n < fuel) :
    ⦃fun st => ⌜μ st = n⌝⦄ identWhileLoop fuel acc
    ⦃post⟨fun r st' => ⌜μ st' ≤ bnd n⌝, fun e => ⌜noFuel e⌝⟩⦄ := by
  induction fuel generalizing n acc with
  | zero => omega
  | succ k ih =>
    simp only [bnd_eq]
    mvcgen [identWhileLoop, ih]
    close_vcs

@[spec] theorem newSymLoop_spec (acc : List BStr) (fuel n : Nat) (hf : n < fuel) :
    ⦃fun st => ⌜μ st = n⌝⦄ newSymLoop fuel acc
    ⦃post⟨fun r st' => ⌜μ st' ≤ bnd n⌝, fun e => ⌜noFuel e⌝⟩⦄ := by
  induction fuel generalizing n acc with
  | zero => omega
  | succ k ih =>
    simp only [bnd_eq]
    mvcgen [newSymLoop, ih]
    close_vcs

@[spec] theorem txLoop_spec (acc : List BStr) (fuel n : Nat) (hf : n < fuel) :
    ⦃fun st => ⌜μ st = n⌝⦄ txLoop fuel acc
    ⦃post⟨fun r st' => ⌜μ st' ≤ bnd n⌝, fun e => ⌜noFuel e⌝⟩⦄ := by
  induction fuel generalizing n acc with
  | zero => omega
  | succ k ih =>
    simp only [bnd_eq]
    mvcgen [txLoop, ih]
    close_vcs

@[spec] theorem commaStringLoop_spec (strFuel : Nat) (acc : List BStr) (fuel n : Nat) (hs : n < strFuel) (hf : n < fuel) :
    ⦃fun st => ⌜μ st = n⌝⦄ commaStringLoop strFuel fuel acc
    ⦃post⟨fun r st' => ⌜μ st' ≤ bnd n⌝, fun e => ⌜noFuel e⌝⟩⦄ := by
  induction fuel generalizing n acc with
  | zero => omega
  | succ k ih =>
    simp only [bnd_eq]
    mvcgen [commaStringLoop, ih]
    close_vcs

@[spec] theorem attrTypedValue_spec (defs : Array Def) (fuel : Nat) (name : BStr) (n : Nat) (hf : n < fuel) :
    ⦃fun st => ⌜μ st = n⌝⦄ attrTypedValue defs fuel name
    ⦃post⟨fun r st' => ⌜μ st' ≤ bnd n⌝, fun e => ⌜noFuel e⌝⟩⦄ := by
  simp only [bnd_eq]
  mvcgen [attrTypedValue]
  close_vcs

@[spec] theorem objRef_spec (o : ObjType) (n : Nat) :
    ⦃fun st => ⌜μ st = n⌝⦄ objRef o
    ⦃post⟨fun r st' => ⌜μ st' ≤ bnd n⌝, fun e => ⌜noFuel e⌝⟩⦄ := by
  simp only [bnd_eq]
  mvcgen [objRef]
  close_vcs

/-- one definition: strictly consumes input (the keyword at least), never runs out of fuel -/
@[spec] theorem parseDef_spec (defs : Array Def) (fuel n : Nat) (hf : n < fuel) :
    ⦃fun st => ⌜μ st = n⌝⦄ parseDef defs fuel
    ⦃post⟨fun _ st' => ⌜μ st' < bnd n⌝, fun e => ⌜noFuel e⌝⟩⦄ := by
  simp only [bnd_eq]
  mvcgen [parseDef]
  close_vcs

end CanVerif
