import CanVerif.Lemmas.RoundMono
/-! The rational value of a finite binary64 bit pattern, the order key as a monotone function of it, and the key of a
rounded result as a monotone function `Kq` of the exact rational result.  Mathlib (ℚ) is used in proofs only. -/
namespace CanVerif

/-- a well-formed finite pattern -/
def Fin64 (x : F64) : Prop := x < 2 ^ 64 ∧ f64Mag x < f64Inf

/-- magnitude as a rational -/
def mval (x : F64) : ℚ := ((f64Parts x).1 : ℚ) * 2 ^ (f64Parts x).2

def fval (x : F64) : ℚ := if f64IsNeg x then -mval x else mval x

theorem parts_spec (x : F64) (h : f64Mag x < f64Inf) :
    f64Mag x = ((f64Parts x).2 + 1074).toNat * 2 ^ 52 + (f64Parts x).1 ∧ (f64Parts x).1 < 2 ^ 53 ∧
    -1074 ≤ (f64Parts x).2 ∧ (f64Parts x).2 ≤ 971 ∧ (-1074 < (f64Parts x).2 → 2 ^ 52 ≤ (f64Parts x).1) := by
  unfold f64Inf at h
  unfold f64Parts
  simp only
  generalize f64Mag x = g at *
  have hd := Nat.div_add_mod g (2 ^ 52)
  have hm := Nat.mod_lt g (by decide : 0 < 2 ^ 52)
  have hq : g / 2 ^ 52 < 2047 := by omega
  by_cases h0 : g / 2 ^ 52 = 0
  · simp only [h0, beq_self_eq_true, if_true]
    refine ⟨by omega, by omega, by omega, by omega, by omega⟩
  · have : (g / 2 ^ 52 == 0) = false := by simpa using h0
    simp only [this, Bool.false_eq_true, if_false]
    refine ⟨?_, by omega, by omega, by omega, by omega⟩
    have e : (((g / 2 ^ 52 : Nat) : Int) - 1075 + 1074).toNat = g / 2 ^ 52 - 1 := by omega
    rw [e]
    have : (g / 2 ^ 52 - 1) * 2 ^ 52 = (g / 2 ^ 52) * 2 ^ 52 - 2 ^ 52 := by
      rw [Nat.sub_mul]; simp
    have hge : 2 ^ 52 ≤ g / 2 ^ 52 * 2 ^ 52 := by
      have : 1 ≤ g / 2 ^ 52 := by omega
      calc 2 ^ 52 = 1 * 2 ^ 52 := by simp
        _ ≤ g / 2 ^ 52 * 2 ^ 52 := Nat.mul_le_mul_right _ this
    omega

theorem em_lt (e1 e2 : ℤ) (m1 m2 : ℕ) (h1 : m1 < 2 ^ 53) (lo1 : -1074 ≤ e1) (n2 : 2 ^ 52 ≤ m2) (he : e1 < e2) :
    (e1 + 1074).toNat * 2 ^ 52 + m1 < (e2 + 1074).toNat * 2 ^ 52 + m2 ∧ (m1:ℚ) * 2 ^ e1 < (m2:ℚ) * 2 ^ e2 := by
  constructor
  · have : (e1 + 1074).toNat + 1 ≤ (e2 + 1074).toNat := by omega
    have := Nat.mul_le_mul_right (2 ^ 52) this
    omega
  · have p1 := two_zpow_pos e1
    have p2 := two_zpow_pos e2
    have a : (m1:ℚ) * 2 ^ e1 < 2 ^ (53:ℤ) * 2 ^ e1 := by
      apply mul_lt_mul_of_pos_right _ p1
      have : (m1:ℚ) < ((2 ^ 53 : ℕ) : ℚ) := by exact_mod_cast h1
      calc (m1:ℚ) < ((2 ^ 53 : ℕ) : ℚ) := this
        _ = 2 ^ (53:ℤ) := by norm_num
    have b : (2:ℚ) ^ (52:ℤ) * 2 ^ e2 ≤ (m2:ℚ) * 2 ^ e2 := by
      apply mul_le_mul_of_nonneg_right _ (le_of_lt p2)
      have : ((2 ^ 52 : ℕ) : ℚ) ≤ (m2:ℚ) := by exact_mod_cast n2
      calc (2:ℚ) ^ (52:ℤ) = ((2 ^ 52 : ℕ) : ℚ) := by norm_num
        _ ≤ (m2:ℚ) := this
    rw [← zpow_add₀ (by norm_num : (2:ℚ) ≠ 0)] at a b
    have c : (2:ℚ) ^ (53 + e1) ≤ 2 ^ (52 + e2) := zpow_le_zpow_right₀ (by norm_num) (by omega)
    linarith

theorem em_order (e1 e2 : ℤ) (m1 m2 : ℕ) (h1 : m1 < 2 ^ 53) (h2 : m2 < 2 ^ 53) (lo1 : -1074 ≤ e1) (lo2 : -1074 ≤ e2)
    (n1 : -1074 < e1 → 2 ^ 52 ≤ m1) (n2 : -1074 < e2 → 2 ^ 52 ≤ m2) :
    ((e1 + 1074).toNat * 2 ^ 52 + m1 ≤ (e2 + 1074).toNat * 2 ^ 52 + m2) ↔ ((m1:ℚ) * 2 ^ e1 ≤ (m2:ℚ) * 2 ^ e2) := by
  rcases lt_trichotomy e1 e2 with h | h | h
  · obtain ⟨a, b⟩ := em_lt e1 e2 m1 m2 h1 lo1 (n2 (by omega)) h
    exact ⟨fun _ => le_of_lt b, fun _ => le_of_lt a⟩
  · subst h
    have p := two_zpow_pos e1
    constructor
    · intro hb
      have : m1 ≤ m2 := by omega
      exact mul_le_mul_of_nonneg_right (by exact_mod_cast this) (le_of_lt p)
    · intro hv
      have : (m1:ℚ) ≤ m2 := le_of_mul_le_mul_right hv p
      have : m1 ≤ m2 := by exact_mod_cast this
      omega
  · obtain ⟨a, b⟩ := em_lt e2 e1 m2 m1 h2 lo2 (n1 (by omega)) h
    constructor
    · intro hb; omega
    · intro hv; linarith

/-- for finite patterns the magnitude bits are ordered like the magnitudes -/
theorem mag_le_iff (x y : F64) (hx : f64Mag x < f64Inf) (hy : f64Mag y < f64Inf) :
    f64Mag x ≤ f64Mag y ↔ mval x ≤ mval y := by
  obtain ⟨ex, a1, a2, _, a4⟩ := parts_spec x hx
  obtain ⟨ey, b1, b2, _, b4⟩ := parts_spec y hy
  rw [ex, ey]
  exact em_order _ _ _ _ a1 b1 a2 b2 a4 b4

theorem mval_nonneg (x : F64) : 0 ≤ mval x := by
  unfold mval
  exact mul_nonneg (by positivity) (le_of_lt (two_zpow_pos _))

theorem mval_zero_iff (x : F64) (hx : f64Mag x < f64Inf) : mval x = 0 ↔ f64Mag x = 0 := by
  obtain ⟨ex, a1, a2, _, a4⟩ := parts_spec x hx
  unfold mval
  constructor
  · intro h
    have : ((f64Parts x).1 : ℚ) = 0 := by
      rcases mul_eq_zero.mp h with h | h
      · exact h
      · exact absurd h (ne_of_gt (two_zpow_pos _))
    have hm : (f64Parts x).1 = 0 := by exact_mod_cast this
    have he : ¬ (-1074 < (f64Parts x).2) := by intro c; have := a4 c; omega
    rw [ex, hm]
    have : ((f64Parts x).2 + 1074).toNat = 0 := by omega
    rw [this]; rfl
  · intro h
    rw [ex] at h
    have : (f64Parts x).1 = 0 := by omega
    rw [this]; simp

/-- for finite patterns the order key is ordered like the value -/
theorem key_le_iff (x y : F64) (hx : f64Mag x < f64Inf) (hy : f64Mag y < f64Inf) :
    f64Key x ≤ f64Key y ↔ fval x ≤ fval y := by
  have m := mag_le_iff x y hx hy
  have m' := mag_le_iff y x hy hx
  have nx := mval_nonneg x
  have ny := mval_nonneg y
  have zx := mval_zero_iff x hx
  have zy := mval_zero_iff y hy
  unfold f64Key fval
  cases hsx : f64IsNeg x <;> cases hsy : f64IsNeg y <;> simp only [Bool.false_eq_true, if_false, if_true]
  · rw [← m]; omega
  · -- x ≥ 0, y ≤ 0
    constructor
    · intro h
      have h1 : f64Mag x = 0 := by omega
      have h2 : f64Mag y = 0 := by omega
      rw [zx.mpr h1, zy.mpr h2]; simp
    · intro h
      have h1 : mval x = 0 := by linarith
      have h2 : mval y = 0 := by linarith
      rw [zx.mp h1, zy.mp h2]; simp
  · constructor
    · intro _; linarith
    · intro _; omega
  · constructor
    · intro h; have := m'.mp (by omega); linarith
    · intro h; have := m'.mpr (by linarith); omega

end CanVerif
