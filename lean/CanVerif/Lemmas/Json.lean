import CanVerif.Lemmas.FrameText
import CanVerif.Model.Json
/-! Lemmas for the JSON form (C16, C19). -/
namespace CanVerif

def renderVal : J → Str
  | .null => strOf "null"
  | .bool true => strOf "true"
  | .bool false => strOf "false"
  | .num t => t
  | .str s => strOf "\"" ++ s ++ strOf "\""      -- only used for strings without characters that need escaping
  | _ => []

def renderMember (kv : String × J) : Str := strOf "\"" ++ strOf kv.1 ++ strOf "\":" ++ renderVal kv.2

def joinComma : List Str → Str
  | [] => []
  | [a] => a
  | a :: b :: r => a ++ strOf "," ++ joinComma (b :: r)

def renderObj (ms : List (String × J)) : Str := strOf "{" ++ joinComma (ms.map renderMember) ++ strOf "}"

def decVal (t : Str) : Nat := t.foldl (fun a c => a * 10 + (c.toNat - 48)) 0

theorem decVal_append_one (t : Str) (c : UInt8) : decVal (t ++ [c]) = decVal t * 10 + (c.toNat - 48) := by
  simp [decVal, List.foldl_append]

theorem digit_toNat (d : Nat) (h : d < 10) : (UInt8.ofNat (48 + d)).toNat = 48 + d := by
  simp [UInt8.toNat_ofNat]; omega

theorem decDigits_spec (n : Nat) : (decDigits n).all jsonIsDigit = true ∧ decVal (decDigits n) = n ∧ decDigits n ≠ [] := by
  induction n using Nat.strongRecOn with
  | _ n ih =>
    rw [decDigits]
    by_cases h : n < 10
    · simp only [h, dite_true]
      have := digit_toNat n h
      refine ⟨?_, ?_, by simp⟩
      · simp [jsonIsDigit, this]; omega
      · simp [decVal]; omega
    · simp only [h, dite_false]
      obtain ⟨a, b, c⟩ := ih (n / 10) (by omega)
      have hd := digit_toNat (n % 10) (by omega)
      refine ⟨?_, ?_, by simp⟩
      · simp [List.all_append, a, jsonIsDigit, hd]; omega
      · rw [decVal_append_one, b, hd]; omega

theorem uintLit_decDigits (n max : Nat) (h : n ≤ max) : uintLit (decDigits n) max = some n := by
  obtain ⟨a, b, c⟩ := decDigits_spec n
  unfold uintLit
  have e : (decDigits n).isEmpty = false := by
    cases hd : decDigits n with
    | nil => exact absurd hd c
    | cons _ _ => rfl
  have hv : (decDigits n).foldl (fun a c => a * 10 + (c.toNat - 48)) 0 = n := b
  simp [e, a, hv, h]

def pairOfL (b : UInt8) : HexDigit × HexDigit :=
  ((false, ⟨b.toNat / 16, by have := b.toNat_lt; omega⟩), (false, ⟨b.toNat % 16, Nat.mod_lt _ (by decide)⟩))

theorem byteOf_pairOfL (b : UInt8) : byteOf (pairOfL b) = b := by
  unfold byteOf pairOfL
  have : b.toNat / 16 * 16 + b.toNat % 16 = b.toNat := by omega
  simp only [this]
  exact UInt8.ofNat_toNat

theorem hexEncodeLower_eq (bs : List UInt8) :
    hexEncodeLower bs = hexStr ((bs.map pairOfL).flatMap fun p => [p.1, p.2]) := by
  induction bs with
  | nil => rfl
  | cons b bs ih =>
    simp only [hexEncodeLower, List.flatMap_cons, List.map_cons, hexStr_append] at ih ⊢
    rw [ih]; rfl

theorem hexDecode_lower (bs : List UInt8) : hexDecode (hexEncodeLower bs) = some bs := by
  rw [hexEncodeLower_eq, hexDecode_pairs, List.map_map]
  have : (byteOf ∘ pairOfL) = (fun b => b) := by funext b; exact byteOf_pairOfL b
  rw [this, List.map_id']

end CanVerif
