import Std.Do
import Std.Tactic.Do
/-! Reading Hoare triples of `Std.Do` over `Except` and `StateT σ (Except ε)` as plain statements about the result. -/
open Std.Do
namespace CanVerif

/-- the ghost bound of a specification, wrapped so that it is only ever instantiated from the precondition -/
@[irreducible] def bnd (n : Nat) : Nat := n
theorem bnd_eq (n : Nat) : bnd n = n := by unfold bnd; rfl

theorem wp_ok {ε α : Type} (a : α) (Q : PostCond α (.except ε .pure)) : wp⟦(Except.ok a : Except ε α)⟧ Q = Q.1 a := by
  simp [wp, Except.instWP._aux_1, Id.run, ExceptT.run, PredTrans.pushExcept]; rfl
theorem wp_err {ε α : Type} (e : ε) (Q : PostCond α (.except ε .pure)) : wp⟦(Except.error e : Except ε α)⟧ Q = Q.2.1 e := by
  simp [wp, Except.instWP._aux_1, Id.run, ExceptT.run, PredTrans.pushExcept]; rfl

theorem exc_of_triple {ε α : Type} (x : Except ε α) (Q : α → Prop) (E : ε → Prop)
    (h : ⦃⌜True⌝⦄ x ⦃post⟨fun a => ⌜Q a⌝, fun e => ⌜E e⌝⟩⦄) :
    match x with | .ok a => Q a | .error e => E e := by
  have := h True.intro
  cases x with
  | ok a => rw [wp_ok] at this; exact this
  | error e => rw [wp_err] at this; exact this

theorem exc_ok_of_triple {ε α : Type} (x : Except ε α) (Q : α → Prop) (E : ε → Prop)
    (h : ⦃⌜True⌝⦄ x ⦃post⟨fun a => ⌜Q a⌝, fun e => ⌜E e⌝⟩⦄) (a : α) (hx : x = .ok a) : Q a := by
  have := exc_of_triple x Q E h
  subst hx; exact this

theorem exc_err_of_triple {ε α : Type} (x : Except ε α) (Q : α → Prop) (E : ε → Prop)
    (h : ⦃⌜True⌝⦄ x ⦃post⟨fun a => ⌜Q a⌝, fun e => ⌜E e⌝⟩⦄) (e : ε) (hx : x = .error e) : E e := by
  have := exc_of_triple x Q E h
  subst hx; exact this

theorem triple_of_exc {ε α : Type} (x : Except ε α) (Q : α → Prop) (E : ε → Prop)
    (h : match x with | .ok a => Q a | .error e => E e) :
    ⦃⌜True⌝⦄ x ⦃post⟨fun a => ⌜Q a⌝, fun e => ⌜E e⌝⟩⦄ := by
  intro _
  cases x with
  | ok a => rw [wp_ok]; exact h
  | error e => rw [wp_err]; exact h

theorem st_of_triple {σ ε α : Type} (x : StateT σ (Except ε) α) (P : σ → Prop) (Q : σ → α → σ → Prop) (E : ε → Prop)
    (h : ∀ s0, ⦃fun s => ⌜s = s0 ∧ P s⌝⦄ x ⦃post⟨fun a s' => ⌜Q s0 a s'⌝, fun e => ⌜E e⌝⟩⦄) (s : σ) (hp : P s) :
    match x.run s with | .ok (a, s') => Q s a s' | .error e => E e := by
  have h1 := h s s ⟨rfl, hp⟩
  have h2 : (wp⟦x.run s⟧ (post⟨fun p => ⌜Q s p.1 p.2⌝, fun e => ⌜E e⌝⟩)).down := h1
  revert h2
  cases x.run s with
  | ok a => intro h; rw [wp_ok] at h; exact h
  | error e => intro h; rw [wp_err] at h; exact h

theorem run_of_triple {σ ε α : Type} (x : StateT σ (Except ε) α) (A : σ → Prop) (Q : α → σ → Prop) (E : ε → Prop)
    (h : ⦃fun s => ⌜A s⌝⦄ x ⦃post⟨fun a s' => ⌜Q a s'⌝, fun e => ⌜E e⌝⟩⦄) (s : σ) (hA : A s) :
    (∀ a s', x.run s = .ok (a, s') → Q a s') ∧ (∀ e, x.run s = .error e → E e) := by
  have h1 := h s hA
  have h2 : (wp⟦x.run s⟧ (post⟨fun p => ⌜Q p.1 p.2⌝, fun e => ⌜E e⌝⟩)).down := h1
  revert h2
  cases x.run s with
  | ok p => intro h; rw [wp_ok] at h; exact ⟨fun a s' e => (by cases e; exact h), fun e h' => (by cases h')⟩
  | error e => intro h; rw [wp_err] at h; exact ⟨fun a s' h' => (by cases h'), fun e' h' => (by cases h'; exact h)⟩

theorem triple_of_st {σ ε α : Type} (x : StateT σ (Except ε) α) (P : σ → Prop) (Q : α → σ → Prop) (E : ε → Prop)
    (h : ∀ s, P s → match x.run s with | .ok (a, s') => Q a s' | .error e => E e) :
    ⦃fun s => ⌜P s⌝⦄ x ⦃post⟨fun a s' => ⌜Q a s'⌝, fun e => ⌜E e⌝⟩⦄ := by
  intro s hp
  have h1 := h s hp
  show (wp⟦x.run s⟧ (post⟨fun p => ⌜Q p.1 p.2⌝, fun e => ⌜E e⌝⟩)).down
  revert h1
  cases x.run s with
  | ok a => intro h; rw [wp_ok]; exact h
  | error e => intro h; rw [wp_err]; exact h
end CanVerif
