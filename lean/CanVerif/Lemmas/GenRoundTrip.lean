import CanVerif.Lemmas.GenFrame
/-! Unmarshalling the frame of a generated message into any message of the same type and marshalling again gives
the identical frame (integer and bool signals, §4.3 layout). -/
namespace CanVerif

/-- the §4.3 layout conditions for one message (integer / bool signals) -/
structure MsgOk (m : DMessage) : Prop where
  sigs : ∀ s ∈ m.signals, SigOk s
  /-- two signals may share bits only if both are multiplexed with different selector values -/
  layout : m.signals.Pairwise fun s t =>
    (s.muxed = false ∨ t.muxed = false ∨ s.muxValue = t.muxValue) → s.rng.Disjoint t.rng
  /-- the multiplexer itself is a plain signal -/
  muxPlain : ∀ s ∈ m.signals, s.mux = true → s.muxed = false

def c1 (s : DSignal) : Bool := !s.muxed

/-- the multiplexed signals `Frame()` encodes, given the stored values -/
def c2of (m : DMessage) (vals : List Raw) (s : DSignal) : Bool :=
  match muxOf m with
  | none => false
  | some (mi, _) => s.muxed && (vals.getD mi 0 == (s.muxValue : Int))

theorem frameOf_data (m : DMessage) (st : GState) :
    (frameOf m st).data = enc (c2of m st.vals) (m.signals.zip st.vals) (enc c1 (m.signals.zip st.vals) 0#64) := by
  have e1 : ∀ (zs : List (DSignal × Raw)) d,
      zs.foldl (fun d (p : DSignal × Raw) => if p.1.muxed then d else marshalField p.1 p.2 d) d = enc c1 zs d := by
    intro zs
    induction zs with
    | nil => intro d; rfl
    | cons p zs ih =>
      intro d
      rw [List.foldl_cons, enc_cons, ih]
      unfold c1
      cases p.1.muxed <;> rfl
  unfold frameOf
  simp only [e1]
  cases hm : muxOf m with
  | none =>
    have : c2of m st.vals = fun _ => false := by funext s; unfold c2of; rw [hm]
    rw [this, enc_false]
  | some mi =>
    have : c2of m st.vals = fun s => s.muxed && (st.vals.getD mi.1 0 == (s.muxValue : Int)) := by
      funext s; unfold c2of; rw [hm]
    rw [this]; rfl

theorem pairwise_zip_fst {R : DSignal → DSignal → Prop} :
    ∀ (sigs : List DSignal) (vals : List Raw), sigs.Pairwise R → (sigs.zip vals).Pairwise (fun p q => R p.1 q.1) := by
  intro sigs
  induction sigs with
  | nil => intro vals _; simp
  | cons s ss ih =>
    intro vals h
    cases vals with
    | nil => simp
    | cons v vs =>
      rw [List.pairwise_cons] at h
      simp only [List.zip_cons_cons, List.pairwise_cons]
      exact ⟨fun q hq => h.1 q.1 (List.of_mem_zip hq).1, ih vs h.2⟩

theorem inv_mem (m : DMessage) (st : GState) (hinv : Inv m st = true) (p : DSignal × Raw)
    (hp : p ∈ m.signals.zip st.vals) : rawInRange p.1 p.2 = true := by
  unfold Inv at hinv
  simp only [Bool.and_eq_true, List.all_eq_true] at hinv
  exact hinv.2 p hp

theorem inv_len (m : DMessage) (st : GState) (hinv : Inv m st = true) : st.vals.length = m.signals.length := by
  unfold Inv at hinv
  simp only [Bool.and_eq_true, beq_iff_eq] at hinv
  exact hinv.1

theorem muxOf_spec (m : DMessage) (mi : Nat) (ms : DSignal) (h : muxOf m = some (mi, ms)) :
    m.signals[mi]? = some ms ∧ ms.mux = true := by
  unfold muxOf at h
  cases hf : m.signals.zipIdx.find? (fun p => p.1.mux) with
  | none => rw [hf] at h; cases h
  | some p =>
    rw [hf] at h
    simp only [Option.map_some, Option.some.injEq, Prod.mk.injEq] at h
    have hp := List.find?_some hf
    have hmem := List.mem_of_find?_eq_some hf
    obtain ⟨h1, h2⟩ := h
    subst h1; subst h2
    have := List.mem_zipIdx hmem
    simp only [Nat.zero_add, Nat.sub_zero] at this
    refine ⟨?_, hp⟩
    rw [this.2.2]
    simp [List.getElem?_eq_getElem this.2.1]

/-- the frame's bits, decoded with each encoded field's own layout, give the stored values back -/
theorem frame_read (m : DMessage) (st : GState) (hm : MsgOk m) (hinv : Inv m st = true)
    (p : DSignal × Raw) (hp : p ∈ m.signals.zip st.vals)
    (hc : c1 p.1 = true ∨ c2of m st.vals p.1 = true) : unmarshalField p.1 (frameOf m st).data = p.2 := by
  rw [frameOf_data]
  have hsig : ∀ q ∈ m.signals.zip st.vals, SigOk q.1 := fun q hq => hm.sigs q.1 (List.of_mem_zip hq).1
  have ok : ∀ c, ActiveOk c (m.signals.zip st.vals) := fun c q hq _ => ⟨hsig q hq, inv_mem m st hinv q hq⟩
  have pw := pairwise_zip_fst m.signals st.vals hm.layout
  have c2mux : ∀ s, c2of m st.vals s = true → s.muxed = true := by
    intro s h
    unfold c2of at h
    split at h
    · cases h
    · simp only [Bool.and_eq_true] at h; exact h.1
  have c2val : ∀ s t, c2of m st.vals s = true → c2of m st.vals t = true → s.muxValue = t.muxValue := by
    intro s t hs ht
    unfold c2of at hs ht
    cases hmx : muxOf m with
    | none => rw [hmx] at hs; cases hs
    | some mi =>
      rw [hmx] at hs ht
      simp only [Bool.and_eq_true, beq_iff_eq] at hs ht
      have := hs.2.symm.trans ht.2
      exact_mod_cast this
  rcases hc with hc | hc
  · -- a plain field: the multiplexed fields encoded afterwards are disjoint from it
    rw [enc_read_other (c2of m st.vals) _ _ (ok _) p.1 (hsig p hp)]
    · exact enc_read_active c1 _ _ (ok _)
        (pw.imp (fun {a b} hab ha _ => hab (Or.inl (by unfold c1 at ha; simpa using ha)))) p hp hc
    · intro q hq hcq
      have hpm : p.1.muxed = false := by unfold c1 at hc; simpa using hc
      have hqm := c2mux q.1 hcq
      rcases pairwise_mem_cases pw hq hp with heq | hqp | hpq
      · rw [heq] at hqm; rw [hpm] at hqm; cases hqm
      · exact hqp (Or.inr (Or.inl hpm))
      · exact (hpq (Or.inl hpm)).symm
  · exact enc_read_active (c2of m st.vals) _ _ (ok _)
      (pw.imp (fun {a b} hab ha hb => hab (Or.inr (Or.inr (c2val a.1 b.1 ha hb))))) p hp hc

/-- what `UnmarshalFrame` leaves in each field: plain signals are decoded; a multiplexed signal is decoded exactly when
the multiplexer value decoded from the same frame equals its selector, and keeps its previous value otherwise -/
theorem unmarshalFrame_get (m : DMessage) (st st' : GState) (f : Frame)
    (hplain : ∀ s ∈ m.signals, s.mux = true → s.muxed = false)
    (hlen : st.vals.length = m.signals.length) (h : unmarshalFrame m st f = some st')
    (i : Nat) (s : DSignal) (hs : m.signals[i]? = some s) :
    st'.vals.getD i 0 =
      if s.muxed = false then unmarshalField s f.data
      else match muxOf m with
        | none => st.vals.getD i 0
        | some (_, ms) =>
          if unmarshalField ms f.data = (s.muxValue : Int) then unmarshalField s f.data else st.vals.getD i 0 := by
  unfold unmarshalFrame at h
  split at h
  · cases h
  · split at h
    · next he =>
      have : m.signals = [] := by simpa using he
      rw [this] at hs; simp at hs
    · simp only [Option.some.injEq] at h
      subst h
      let g1 : DSignal → Raw → Raw := fun s v => if s.muxed then v else unmarshalField s f.data
      have hv1 : ∀ j t, m.signals[j]? = some t →
          ((m.signals.zip st.vals).map (fun p => g1 p.1 p.2)).getD j 0 = g1 t (st.vals.getD j 0) :=
        fun j t ht => getD_zip_map g1 m.signals st.vals j t hlen ht
      cases hmux : muxOf m with
      | none =>
        show ((m.signals.zip st.vals).map (fun p => g1 p.1 p.2)).getD i 0 = _
        rw [hv1 i s hs]
        show (if s.muxed then st.vals.getD i 0 else unmarshalField s f.data) = _
        cases s.muxed <;> simp
      | some mp =>
        obtain ⟨mi, ms⟩ := mp
        obtain ⟨hms, hmsmux⟩ := muxOf_spec m mi ms hmux
        have hmsplain : ms.muxed = false := hplain ms (List.mem_of_getElem? hms) hmsmux
        have hmv : ((m.signals.zip st.vals).map (fun p => g1 p.1 p.2)).getD mi 0 = unmarshalField ms f.data := by
          rw [hv1 mi ms hms]
          show (if ms.muxed then st.vals.getD mi 0 else unmarshalField ms f.data) = _
          rw [hmsplain]; rfl
        let g2 : DSignal → Raw → Raw := fun s x =>
          if (s.muxed && (unmarshalField ms f.data == (s.muxValue : Int))) = true then unmarshalField s f.data else x
        have hlen1 : ((m.signals.zip st.vals).map (fun p => g1 p.1 p.2)).length = m.signals.length := by
          simp [hlen]
        show ((m.signals.zip ((m.signals.zip st.vals).map (fun p => g1 p.1 p.2))).map
            (fun (p : DSignal × Raw) => if (p.1.muxed && (((m.signals.zip st.vals).map (fun p => g1 p.1 p.2)).getD mi 0 == (p.1.muxValue : Int))) = true
              then unmarshalField p.1 f.data else p.2)).getD i 0 = _
        rw [hmv]
        rw [getD_zip_map g2 m.signals _ i s hlen1 hs, hv1 i s hs]
        show (if (s.muxed && (unmarshalField ms f.data == (s.muxValue : Int))) = true then unmarshalField s f.data
          else (if s.muxed then st.vals.getD i 0 else unmarshalField s f.data)) = _
        cases hsm : s.muxed
        · simp
        · simp only [Bool.true_and, beq_iff_eq, if_true, Bool.true_eq_false, if_false]

theorem frameOf_ext (m : DMessage) (a b : GState) (h : (frameOf m a).data = (frameOf m b).data) :
    frameOf m a = frameOf m b := by
  unfold frameOf at h ⊢
  simp only [Frame.mk.injEq, true_and, and_true]
  exact h

/-- Unmarshalling a message's frame into any message of the same type and marshalling again reproduces the frame. -/
theorem reencode (m : DMessage) (st st0 st' : GState) (hm : MsgOk m) (hinv : Inv m st = true)
    (hlen0 : st0.vals.length = m.signals.length)
    (h : unmarshalFrame m st0 (frameOf m st) = some st') : frameOf m st' = frameOf m st := by
  apply frameOf_ext
  have hlen := inv_len m st hinv
  unfold unmarshalFrame at h
  split at h
  · cases h
  · split at h
    · next hempty =>
      cases h
      have : m.signals = [] := by simpa using hempty
      rw [frameOf_data, frameOf_data, this]; rfl
    · simp only [Option.some.injEq] at h
      subst h
      have hR := frameOf_data m st
      generalize hD : (frameOf m st).data = D at hR ⊢
      have rd : ∀ p ∈ m.signals.zip st.vals, (c1 p.1 = true ∨ c2of m st.vals p.1 = true) → unmarshalField p.1 D = p.2 := by
        intro p hp hc; rw [← hD]; exact frame_read m st hm hinv p hp hc
      let g1 : DSignal → Raw → Raw := fun s v => if s.muxed then v else unmarshalField s D
      have hc1g1 : ∀ s v v0, (s, v) ∈ m.signals.zip st.vals → c1 s = true → g1 s v0 = v := by
        intro s v v0 hmem hc
        have hmx : s.muxed = false := by unfold c1 at hc; simpa using hc
        show (if s.muxed then v0 else unmarshalField s D) = v
        rw [hmx]; exact rd (s, v) hmem (Or.inl hc)
      rw [frameOf_data]
      refine Eq.trans ?_ hR.symm
      cases hmux : muxOf m with
      | none =>
        have e : ∀ vals, c2of m vals = fun _ => false := by intro vals; funext s; unfold c2of; rw [hmux]
        simp only [e, enc_false]
        show enc c1 (m.signals.zip ((m.signals.zip st0.vals).map (fun p => g1 p.1 p.2))) 0#64 = _
        rw [enc_map_congr c1 g1 m.signals st.vals st0.vals hlen hlen0 hc1g1]
      | some mp =>
        obtain ⟨mi, ms⟩ := mp
        obtain ⟨hms, hmsmux⟩ := muxOf_spec m mi ms hmux
        have hmsmem : ms ∈ m.signals := List.mem_of_getElem? hms
        have hmsplain : ms.muxed = false := hm.muxPlain ms hmsmem hmsmux
        have hmsc1 : c1 ms = true := by unfold c1; simp [hmsplain]
        have hmszip := mem_zip_of_getElem m.signals st.vals mi ms hlen hms
        -- the multiplexer value decoded first equals the stored one
        have hmv : ((m.signals.zip st0.vals).map (fun p => g1 p.1 p.2)).getD mi 0 = st.vals.getD mi 0 := by
          rw [getD_zip_map g1 m.signals st0.vals mi ms hlen0 hms]
          exact hc1g1 ms _ _ hmszip hmsc1
        simp only
        let g2 : DSignal → Raw → Raw := fun s x =>
          if (s.muxed && (st.vals.getD mi 0 == (s.muxValue : Int))) = true then unmarshalField s D else x
        have hv2 : (m.signals.zip ((m.signals.zip st0.vals).map (fun p => g1 p.1 p.2))).map
            (fun (p : DSignal × Raw) => if (p.1.muxed && (((m.signals.zip st0.vals).map (fun p => g1 p.1 p.2)).getD mi 0 == (p.1.muxValue : Int))) = true
              then unmarshalField p.1 D else p.2) =
            (m.signals.zip st0.vals).map (fun p => g2 p.1 (g1 p.1 p.2)) := by
          rw [hmv]
          exact zip_map_map g1 g2 m.signals st0.vals hlen0
        show enc (c2of m ((m.signals.zip ((m.signals.zip st0.vals).map (fun p => g1 p.1 p.2))).map _))
            (m.signals.zip ((m.signals.zip ((m.signals.zip st0.vals).map (fun p => g1 p.1 p.2))).map _))
            (enc c1 (m.signals.zip ((m.signals.zip ((m.signals.zip st0.vals).map (fun p => g1 p.1 p.2))).map _)) 0#64) = _
        rw [hv2]
        let G : DSignal → Raw → Raw := fun s v0 => g2 s (g1 s v0)
        have hGc1 : ∀ s v v0, (s, v) ∈ m.signals.zip st.vals → c1 s = true → G s v0 = v := by
          intro s v v0 hmem hc
          have hmx : s.muxed = false := by unfold c1 at hc; simpa using hc
          show (if (s.muxed && (st.vals.getD mi 0 == (s.muxValue : Int))) = true then unmarshalField s D else g1 s v0) = v
          rw [hmx]; simp only [Bool.false_and, Bool.false_eq_true, if_false]
          exact hc1g1 s v v0 hmem hc
        have c2eq : ∀ vals, c2of m vals = fun s => s.muxed && (vals.getD mi 0 == (s.muxValue : Int)) := by
          intro vals; funext s; unfold c2of; rw [hmux]
        have hGc2 : ∀ s v v0, (s, v) ∈ m.signals.zip st.vals → c2of m st.vals s = true → G s v0 = v := by
          intro s v v0 hmem hc
          have hc' := hc
          rw [c2eq] at hc'
          show (if (s.muxed && (st.vals.getD mi 0 == (s.muxValue : Int))) = true then unmarshalField s D else g1 s v0) = v
          rw [if_pos hc']
          exact rd (s, v) hmem (Or.inr hc)
        have hmv2 : ((m.signals.zip st0.vals).map (fun p => G p.1 p.2)).getD mi 0 = st.vals.getD mi 0 := by
          rw [getD_zip_map G m.signals st0.vals mi ms hlen0 hms]
          exact hGc1 ms _ _ hmszip hmsc1
        have hc2same : c2of m ((m.signals.zip st0.vals).map (fun p => G p.1 p.2)) = c2of m st.vals := by
          rw [c2eq, c2eq, hmv2]
        show enc (c2of m ((m.signals.zip st0.vals).map (fun p => G p.1 p.2)))
            (m.signals.zip ((m.signals.zip st0.vals).map (fun p => G p.1 p.2)))
            (enc c1 (m.signals.zip ((m.signals.zip st0.vals).map (fun p => G p.1 p.2))) 0#64) = _
        rw [hc2same, enc_map_congr c1 G m.signals st.vals st0.vals hlen hlen0 hGc1,
          enc_map_congr (c2of m st.vals) G m.signals st.vals st0.vals hlen hlen0 hGc2]

end CanVerif
