import CanVerif.Lemmas.Bits
/-! Range-level lemmas: reads and writes in terms of the documented bit positions `Range.pos`. -/
namespace CanVerif

theorem Range.pos_lt (r : Range) (h : r.Fits) (i : Nat) (hi : i < r.l) : r.pos i < 64 := by
  unfold Range.Fits at h; unfold Range.pos
  split at h
  · next hb =>
    simp only [hb, if_true]
    have hle := fitsBE_le r.s r.l h
    obtain ⟨h1, h2, h3, h4⟩ := h
    exact (bePos_closed r.s h3 (r.l - 1 - i) (by omega)).1
  · next hb =>
    simp only [hb]
    obtain ⟨h1, h2⟩ := h
    simp; omega

/-- the packed index of a payload position: identity for little-endian, row mirror for big-endian -/
def Range.pidx (r : Range) (k : Nat) : Nat := if r.be then invIdx k else k
/-- lsb of the range in the packed word -/
def Range.lsb (r : Range) : Nat := if r.be then invIdx r.s - (r.l - 1) else r.s

theorem Range.pidx_pos (r : Range) (h : r.Fits) (i : Nat) (hi : i < r.l) : r.pidx (r.pos i) = r.lsb + i := by
  unfold Range.Fits at h; unfold Range.pos Range.pidx Range.lsb
  split at h
  · next hb =>
    simp only [hb, if_true]
    have hle := fitsBE_le r.s r.l h
    obtain ⟨h1, h2, h3, h4⟩ := h
    have := (bePos_closed r.s h3 (r.l - 1 - i) (by omega)).2
    omega
  · next hb => simp [hb]

theorem Range.pidx_lt (r : Range) (k : Nat) (hk : k < 64) : r.pidx k < 64 := by
  unfold Range.pidx; split
  · exact invIdx_lt k hk
  · exact hk

theorem Range.pidx_inj (r : Range) (a b : Nat) (ha : a < 64) (hb : b < 64) (h : r.pidx a = r.pidx b) : a = b := by
  unfold Range.pidx at h; split at h
  · rw [← invIdx_invIdx a ha, ← invIdx_invIdx b hb, h]
  · exact h

theorem Range.lsb_add_lt (r : Range) (h : r.Fits) : r.lsb + r.l ≤ 64 := by
  unfold Range.Fits at h; unfold Range.lsb
  split at h
  · next hb =>
    simp only [hb, if_true]
    have hle := fitsBE_le r.s r.l h
    obtain ⟨h1, h2, h3, h4⟩ := h
    have := invIdx_lt r.s h3
    omega
  · next hb =>
    simp only [hb]
    obtain ⟨h1, h2⟩ := h
    simp; omega

/-- every packed index inside `[lsb, lsb+l)` is the image of a value bit -/
theorem Range.pos_surj (r : Range) (h : r.Fits) (k : Nat) (hk : k < 64)
    (h1 : r.lsb ≤ r.pidx k) (h2 : r.pidx k < r.lsb + r.l) : r.pos (r.pidx k - r.lsb) = k := by
  have hi : r.pidx k - r.lsb < r.l := by omega
  have := r.pidx_pos h _ hi
  apply r.pidx_inj _ _ (r.pos_lt h _ hi) hk
  omega

theorem readU_getLsbD (r : Range) (d : Data) (h : r.Fits) (i : Nat) :
    (readU r d).getLsbD i = (decide (i < r.l) && payloadBit d (r.pos i)) := by
  unfold readU Range.pos
  unfold Range.Fits at h
  split
  · next hb => simp only [hb, if_true] at h; exact readUBE_getLsbD d r.s r.l i h
  · next hb => exact readULE_getLsbD d r.s r.l i

theorem writeU_getLsbD (r : Range) (d : Data) (v : BitVec 64) (h : r.Fits) (hv : Below v r.l) (k : Nat) (hk : k < 64) :
    (writeU r d v).getLsbD k =
      if r.lsb ≤ r.pidx k ∧ r.pidx k < r.lsb + r.l then v.getLsbD (r.pidx k - r.lsb) else d.getLsbD k := by
  unfold writeU Range.pidx Range.lsb
  unfold Range.Fits at h
  split
  · next hb =>
    simp only [hb, if_true] at h ⊢
    rw [writeUBE_eq, bswap_getLsbD _ _ hk, rmw_getLsbD _ _ _ _ _ (invIdx_lt k hk) hv, beLsb_eq _ _ h,
      bswap_getLsbD _ _ (invIdx_lt k hk), invIdx_invIdx k hk]
  · next hb =>
    rw [writeULE_eq, rmw_getLsbD _ _ _ _ _ hk hv]

/-- inside: value bit `i` lands on its documented position -/
theorem writeU_inside (r : Range) (d : Data) (v : BitVec 64) (h : r.Fits) (hv : Below v r.l) (i : Nat) (hi : i < r.l) :
    payloadBit (writeU r d v) (r.pos i) = v.getLsbD i := by
  unfold payloadBit
  rw [writeU_getLsbD r d v h hv _ (r.pos_lt h i hi), r.pidx_pos h i hi]
  have : r.lsb ≤ r.lsb + i ∧ r.lsb + i < r.lsb + r.l := by omega
  simp [this]

/-- outside: every other payload bit is unchanged -/
theorem writeU_outside (r : Range) (d : Data) (v : BitVec 64) (h : r.Fits) (hv : Below v r.l) (k : Nat)
    (hout : ∀ i, i < r.l → r.pos i ≠ k) : payloadBit (writeU r d v) k = payloadBit d k := by
  unfold payloadBit
  by_cases hk : k < 64
  · rw [writeU_getLsbD r d v h hv k hk]
    split
    · next hin =>
      exfalso
      exact hout (r.pidx k - r.lsb) (by omega) (r.pos_surj h k hk hin.1 hin.2)
    · rfl
  · rw [BitVec.getLsbD_of_ge _ _ (by omega), BitVec.getLsbD_of_ge _ _ (by omega)]

theorem readU_writeU (r : Range) (d : Data) (v : BitVec 64) (h : r.Fits) (hv : Below v r.l) :
    readU r (writeU r d v) = v := by
  apply BitVec.eq_of_getLsbD_eq
  intro i hi
  rw [readU_getLsbD r _ h]
  by_cases hil : i < r.l
  · rw [writeU_inside r d v h hv i hil]; simp [hil]
  · rw [below_getLsbD v r.l i hv (by omega)]; simp [hil]

theorem readU_below (r : Range) (d : Data) (h : r.Fits) : Below (readU r d) r.l := by
  unfold Below
  by_cases h64 : r.l = 64
  · rw [h64]; exact (readU r d).isLt
  · apply Nat.lt_pow_two_of_testBit
    intro i hi
    have := readU_getLsbD r d h i
    rw [BitVec.getLsbD] at this
    rw [this]
    have : ¬ i < r.l := by omega
    simp [this]

def Range.Disjoint (r₁ r₂ : Range) : Prop := ∀ i j, i < r₁.l → j < r₂.l → r₁.pos i ≠ r₂.pos j

theorem Range.Disjoint.symm {r₁ r₂ : Range} (h : r₁.Disjoint r₂) : r₂.Disjoint r₁ :=
  fun i j hi hj e => h j i hj hi e.symm

/-- pointwise description of a write, with a (classical) case split on membership -/
theorem writeU_bit (r : Range) (d : Data) (v : BitVec 64) (h : r.Fits) (hv : Below v r.l) (k : Nat) :
    (∃ i, i < r.l ∧ r.pos i = k ∧ payloadBit (writeU r d v) k = v.getLsbD i) ∨
    ((∀ i, i < r.l → r.pos i ≠ k) ∧ payloadBit (writeU r d v) k = payloadBit d k) := by
  by_cases hex : ∃ i, i < r.l ∧ r.pos i = k
  · obtain ⟨i, hi, hp⟩ := hex
    left; exact ⟨i, hi, hp, by rw [← hp]; exact writeU_inside r d v h hv i hi⟩
  · right
    have : ∀ i, i < r.l → r.pos i ≠ k := fun i hi e => hex ⟨i, hi, e⟩
    exact ⟨this, writeU_outside r d v h hv k this⟩

theorem data_ext (a b : Data) (h : ∀ k, payloadBit a k = payloadBit b k) : a = b :=
  BitVec.eq_of_getLsbD_eq (fun i _ => h i)

theorem writeU_comm (r₁ r₂ : Range) (d : Data) (v₁ v₂ : BitVec 64) (h₁ : r₁.Fits) (h₂ : r₂.Fits)
    (hv₁ : Below v₁ r₁.l) (hv₂ : Below v₂ r₂.l) (hd : r₁.Disjoint r₂) :
    writeU r₁ (writeU r₂ d v₂) v₁ = writeU r₂ (writeU r₁ d v₁) v₂ := by
  apply data_ext
  intro k
  rcases writeU_bit r₁ (writeU r₂ d v₂) v₁ h₁ hv₁ k with ⟨i, hi, hp, e⟩ | ⟨ho, e⟩
  · -- k belongs to r₁, hence not to r₂
    rw [e]
    have hout : ∀ j, j < r₂.l → r₂.pos j ≠ k := fun j hj ej => hd i j hi hj (by rw [hp, ej])
    rw [writeU_outside r₂ _ v₂ h₂ hv₂ k hout, ← hp, writeU_inside r₁ d v₁ h₁ hv₁ i hi]
  · rw [e]
    rcases writeU_bit r₂ (writeU r₁ d v₁) v₂ h₂ hv₂ k with ⟨j, hj, hp, e'⟩ | ⟨ho', e'⟩
    · rw [e', ← hp, writeU_inside r₂ d v₂ h₂ hv₂ j hj]
    · rw [e', writeU_outside r₂ d v₂ h₂ hv₂ k ho', writeU_outside r₁ d v₁ h₁ hv₁ k ho]

theorem mod_two_pow_eq_bitsToNat (n : Nat) : ∀ l, n % 2 ^ l = bitsToNat l (fun i => n.testBit i) := by
  intro l
  induction l with
  | zero => simp [bitsToNat, Nat.mod_one]
  | succ l ih =>
    rw [bitsToNat, ← ih, Nat.mod_pow_succ, Nat.testBit_eq_decide_div_mod_eq]
    by_cases h : n / 2 ^ l % 2 = 1
    · simp [h]
    · have : n / 2 ^ l % 2 = 0 := by omega
      simp [this]

theorem bitsToNat_congr (l : Nat) (f g : Nat → Bool) (h : ∀ i, i < l → f i = g i) : bitsToNat l f = bitsToNat l g := by
  induction l with
  | zero => rfl
  | succ l ih =>
    rw [bitsToNat, bitsToNat, ih (fun i hi => h i (by omega)), h l (by omega)]

theorem toNat_eq_bitsToNat (x : BitVec 64) (l : Nat) (h : Below x l) : x.toNat = bitsToNat l (fun i => x.getLsbD i) := by
  unfold Below at h
  have := mod_two_pow_eq_bitsToNat x.toNat l
  rw [Nat.mod_eq_of_lt h] at this
  exact this


theorem asUnsigned_getLsbD (x : BitVec 64) (l i : Nat) (h1 : 1 ≤ l) (h2 : l ≤ 64) (hi : i < 64) :
    (asUnsigned x l).getLsbD i = (decide (i < l) && x.getLsbD i) := by
  unfold asUnsigned
  split
  · next h => subst h; simp [BitVec.getLsbD_setWidth, hi]
  split
  · next h => subst h; simp [BitVec.getLsbD_setWidth, hi]
  split
  · next h => subst h; simp [BitVec.getLsbD_setWidth, hi]
  split
  · next h => subst h; simp [hi]
  · rw [BitVec.getLsbD_and, mask_getLsbD]; simp [hi, Bool.and_comm]

theorem asUnsigned_below (x : BitVec 64) (l : Nat) (h1 : 1 ≤ l) (h2 : l ≤ 64) : Below (asUnsigned x l) l := by
  unfold Below
  by_cases h64 : l = 64
  · rw [h64]; exact (asUnsigned x 64).isLt
  · apply Nat.lt_pow_two_of_testBit
    intro i hi
    by_cases hi64 : i < 64
    · have := asUnsigned_getLsbD x l i h1 h2 hi64
      rw [BitVec.getLsbD] at this
      rw [this]
      have : ¬ i < l := by omega
      simp [this]
    · exact Nat.testBit_lt_two_pow (Nat.lt_of_lt_of_le (asUnsigned x l).isLt (Nat.pow_le_pow_right (by omega) (by omega)))


theorem pairwise_mem_cases {α} {R : α → α → Prop} {l : List α} (h : l.Pairwise R) {x y : α}
    (hx : x ∈ l) (hy : y ∈ l) : x = y ∨ R x y ∨ R y x := by
  induction h with
  | nil => cases hx
  | cons hhead _ ih =>
    cases hx with
    | head =>
      cases hy with
      | head => exact Or.inl rfl
      | tail _ hy' => exact Or.inr (Or.inl (hhead _ hy'))
    | tail _ hx' =>
      cases hy with
      | head => exact Or.inr (Or.inr (hhead _ hx'))
      | tail _ hy' => exact ih hx' hy'

theorem payloadBit_setBit (d : Data) (i k : Nat) (b : Bool) :
    payloadBit (setBit d i b) k = if k = i ∧ i ≤ 63 then b else payloadBit d k := by
  unfold setBit payloadBit
  by_cases h : i > 63
  · have : ¬ i ≤ 63 := by omega
    simp [h, this]
  · have h' : i ≤ 63 := by omega
    simp only [h, if_false]
    by_cases hk : k < 64
    · cases b
      · simp only [Bool.false_eq_true, if_false, BitVec.getLsbD_and, BitVec.getLsbD_not, one_shl_getLsbD]
        by_cases e : k = i <;> simp [e, hk, h']
      · simp only [if_true, BitVec.getLsbD_or, one_shl_getLsbD]
        by_cases e : k = i
        · subst e; simp [hk, h']
        · simp [e]
    · have e : ¬ (k = i) := by omega
      rw [BitVec.getLsbD_of_ge _ _ (by omega), BitVec.getLsbD_of_ge _ _ (by omega)]
      simp [e]

end CanVerif
