/-
T1 bridge for pkg/descriptor/signal.go (C08): the integer part of the descriptor's signal functions, translated from the
working tree on every run (Gen/DataGo.lean), equals Model/Signal.lean for every descriptor, payload and value, and does
not panic.  `s : Gen.Go.Signal` is the translated struct (its integer and boolean fields).
-/
import CanVerif.Model.Signal
import CanVerif.Bridge.DataGo

namespace CanVerif.Bridge
open CanVerif CanVerif.Gen.Go

/-- the model descriptor of a translated one -/
def sigOf (s : Gen.Go.Signal) : Sig := ⟨s.IsBigEndian, s.Start.toNat, s.Length.toNat, s.IsSigned⟩

macro "bridge_sig" : tactic => `(tactic| (
      unfold_go
      simp only [sigOf, Sig.range, Sig.unmarshalUnsigned, Sig.unmarshalSigned, Sig.unmarshalBool, Sig.marshalUnsigned,
        Sig.marshalSigned, Sig.marshalBool, readU, readS, writeU, writeS, maxUnsigned, minSigned, maxSigned, satSigned,
        satUnsigned, lenM1,
        readULE, readUBE, readSLE, readSBE, writeULE, writeUBE, writeSLE, writeSBE, asSigned, asUnsigned,
        getBit, setBit, mask, packLE, packBE, unpackLE, unpackBE, bswap, byteAt, invertEndian8, beLsb, Nat.reduceMul,
        toNat_eq_lit _ 8 (by decide), toNat_eq_lit _ 16 (by decide), toNat_eq_lit _ 32 (by decide),
        toNat_eq_lit _ 64 (by decide), gt_lit _ 63 (by decide), ge_lit _ 64 (by decide), getLsbD_toNat,
        BitVec.ofNat_toNat, BitVec.setWidth_eq]
      try unfold Data
      constructor <;> bv_decide (config := { timeout := 120 })))

theorem bridge_sig_unmarshalUnsigned (s : Gen.Go.Signal) (d : BitVec 64) :
    Signal_UnmarshalUnsigned_ret s d = (sigOf s).unmarshalUnsigned d ∧ Signal_UnmarshalUnsigned_ok s d = true := by
  bridge_sig

theorem bridge_sig_unmarshalSigned (s : Gen.Go.Signal) (d : BitVec 64) :
    Signal_UnmarshalSigned_ret s d = (sigOf s).unmarshalSigned d ∧ Signal_UnmarshalSigned_ok s d = true := by
  bridge_sig

theorem bridge_sig_unmarshalBool (s : Gen.Go.Signal) (d : BitVec 64) :
    Signal_UnmarshalBool_ret s d = (sigOf s).unmarshalBool d ∧ Signal_UnmarshalBool_ok s d = true := by
  bridge_sig

theorem bridge_sig_marshalUnsigned (s : Gen.Go.Signal) (d v : BitVec 64) :
    Signal_MarshalUnsigned_recv s d v = (sigOf s).marshalUnsigned d v ∧ Signal_MarshalUnsigned_ok s d v = true := by
  bridge_sig

theorem bridge_sig_marshalSigned (s : Gen.Go.Signal) (d x : BitVec 64) :
    Signal_MarshalSigned_recv s d x = (sigOf s).marshalSigned d x ∧ Signal_MarshalSigned_ok s d x = true := by
  bridge_sig

theorem bridge_sig_marshalBool (s : Gen.Go.Signal) (d : BitVec 64) (b : Bool) :
    Signal_MarshalBool_recv s d b = (sigOf s).marshalBool d b ∧ Signal_MarshalBool_ok s d b = true := by
  bridge_sig

theorem bridge_sig_maxUnsigned (s : Gen.Go.Signal) :
    Signal_MaxUnsigned_ret s = maxUnsigned s.Length.toNat ∧ Signal_MaxUnsigned_ok s = true := by
  bridge_sig

theorem bridge_sig_minSigned (s : Gen.Go.Signal) :
    Signal_MinSigned_ret s = minSigned s.Length.toNat ∧ Signal_MinSigned_ok s = true := by
  bridge_sig

theorem bridge_sig_maxSigned (s : Gen.Go.Signal) :
    Signal_MaxSigned_ret s = maxSigned s.Length.toNat ∧ Signal_MaxSigned_ok s = true := by
  bridge_sig

theorem bridge_sig_satSigned (s : Gen.Go.Signal) (x : BitVec 64) :
    Signal_SaturatedCastSigned_ret s x = satSigned s.Length.toNat x ∧ Signal_SaturatedCastSigned_ok s x = true := by
  bridge_sig

theorem bridge_sig_satUnsigned (s : Gen.Go.Signal) (v : BitVec 64) :
    Signal_SaturatedCastUnsigned_ret s v = satUnsigned s.Length.toNat v ∧ Signal_SaturatedCastUnsigned_ok s v = true := by
  bridge_sig

/-- the unmarshal functions, bounds and saturated casts do not assign through a pointer parameter -/
theorem bridge_sig_pure :
    Signal_UnmarshalUnsigned_mutates = false ∧ Signal_UnmarshalSigned_mutates = false ∧ Signal_UnmarshalBool_mutates = false ∧
    Signal_MaxUnsigned_mutates = false ∧ Signal_MinSigned_mutates = false ∧ Signal_MaxSigned_mutates = false ∧
    Signal_SaturatedCastSigned_mutates = false ∧ Signal_SaturatedCastUnsigned_mutates = false := by decide

end CanVerif.Bridge
