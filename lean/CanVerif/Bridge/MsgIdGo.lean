/-
T1 bridge for pkg/dbc/messageid.go (C04, C05, C12): `MessageID.IsExtended`, `ToCAN` and `Validate`, translated from the
working tree on every run (Gen/DataGo.lean), equal the model's `msgIsExtended`, `toCAN` and `msgIdValid` for every 32-bit
message ID.  The model works on naturals; `isExt_bv`, `toCAN_bv`, `idValid_bv` restate it over bit-vectors (proved equal by
hand) and the translated code is compared with those by `bv_decide`.
-/
import CanVerif.Model.Compile
import CanVerif.Model.DbcParse
import CanVerif.Gen.DataGo
import Std.Tactic.BVDecide

namespace CanVerif.Bridge
open CanVerif CanVerif.Gen.Go

/-- bit-vector restatements of the model's ID functions -/
def isExt_bv (m : BitVec 32) : Bool := m != 0xc0000000#32 && m.getLsbD 31
def toCAN_bv (m : BitVec 32) : BitVec 32 := m &&& 0x7fffffff#32
def idValid_bv (m : BitVec 32) : Bool :=
  if m == 0xc0000000#32 then true
  else if m.getLsbD 31 then BitVec.ule (toCAN_bv m) 0x1fffffff#32 else BitVec.ule (toCAN_bv m) 0x7ff#32

theorem bit31 (m : BitVec 32) : m.getLsbD 31 = (m.toNat / 2 ^ 31 % 2 == 1) := by
  rw [BitVec.getLsbD, Nat.testBit_eq_decide_div_mod_eq]
  by_cases h : m.toNat / 2 ^ 31 % 2 = 1 <;> simp [h]

theorem beq_toNat (m c : BitVec 32) : (m == c) = (m.toNat == c.toNat) := by
  by_cases h : m = c
  · subst h; simp
  · have : m.toNat ≠ c.toNat := fun e => h (BitVec.eq_of_toNat_eq e)
    rw [beq_eq_false_iff_ne.mpr h, beq_eq_false_iff_ne.mpr this]

theorem toCAN_bv_eq (m : BitVec 32) : (toCAN_bv m).toNat = toCAN m.toNat := by
  have h := m.isLt
  unfold toCAN_bv toCAN
  rw [BitVec.toNat_and]
  have : (0x7fffffff#32 : BitVec 32).toNat = 2 ^ 31 - 1 := by decide
  rw [this, Nat.and_two_pow_sub_one_eq_mod]
  by_cases hb : m.toNat / 2 ^ 31 % 2 = 1 <;> simp [hb] <;> omega

theorem isExt_bv_eq (m : BitVec 32) : isExt_bv m = msgIsExtended m.toNat := by
  unfold isExt_bv msgIsExtended
  rw [bit31]
  congr 1
  simp only [bne, beq_toNat]
  rfl

theorem idValid_bv_eq (m : BitVec 32) : idValid_bv m = msgIdValid m.toNat := by
  have h := m.isLt
  unfold idValid_bv msgIdValid
  have e0 : (m == 0xc0000000#32) = (m.toNat == 0xc0000000) := by rw [beq_toNat]; rfl
  rw [e0, bit31]
  have ec := toCAN_bv_eq m
  unfold toCAN at ec
  simp only [BitVec.ule, ec]
  split
  · rfl
  · split <;> simp_all

theorem bridge_msgid_bv (m : BitVec 32) :
    MessageID_IsExtended_ret m = isExt_bv m ∧ MessageID_ToCAN_ret m = toCAN_bv m ∧
    MessageID_Validate_ret m = !idValid_bv m ∧
    MessageID_IsExtended_ok m = true ∧ MessageID_ToCAN_ok m = true ∧ MessageID_Validate_ok m = true := by
  unfold_go
  simp only [isExt_bv, idValid_bv, toCAN_bv]
  refine ⟨?_, ?_, ?_, ?_, ?_, ?_⟩ <;> bv_decide (config := { timeout := 120 })

/-- the translated ID functions are the model's, for every 32-bit message ID -/
theorem bridge_msgid (m : BitVec 32) :
    MessageID_IsExtended_ret m = msgIsExtended m.toNat ∧ (MessageID_ToCAN_ret m).toNat = toCAN m.toNat ∧
    MessageID_Validate_ret m = !msgIdValid m.toNat := by
  obtain ⟨h1, h2, h3, _⟩ := bridge_msgid_bv m
  rw [h1, h2, h3, isExt_bv_eq, toCAN_bv_eq, idValid_bv_eq]
  exact ⟨rfl, rfl, rfl⟩

end CanVerif.Bridge
