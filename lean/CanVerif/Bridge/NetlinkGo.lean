/-
T1 for pkg/candevice/device_linux.go (C20): the fixed-size (un)marshalers of the interface-info header, bit timing,
control mode, clock, bus-error counters and device statistics, translated from the working tree on every run
(Gen/DataGo.lean).  A byte slice is its first 64 bytes (512-bit vector, byte k = bits 8k..8k+7) and its length; a slice
made by `make([]byte, N)` is the zero vector.  Here the statements are about the translated code directly (bit-vector
identities decided by `bv_decide`), not through the list model of Model/Netlink.lean: the image is the concatenation of
the fields at the kernel's offsets and sizes in little-endian order with zero padding, decoding an image of the right
size returns the fields, and any other size is rejected with the destination untouched and nothing read.
-/
import CanVerif.Gen.DataGo
import Std.Tactic.BVDecide

namespace CanVerif.Bridge
open CanVerif CanVerif.Gen.Go

macro "nl_decide" : tactic => `(tactic| (
      unfold_go
      try simp only []
      bv_decide (config := { timeout := 120 })))

/-- `struct ifinfomsg`: family u8 @0, pad u8 @1, type u16 @2, index s32 @4, flags u32 @8, change u32 @12; size 16 -/
theorem nl_ifinfo_image (x : Gen.Go.ifInfoMsg) :
    ifInfoMsg_marshalBinary_ret x =
      BitVec.setWidth 512 x.Family ||| (BitVec.setWidth 512 x.Type_ <<< 16) ||| (BitVec.setWidth 512 x.Index <<< 32) |||
      (BitVec.setWidth 512 x.Flags <<< 64) ||| (BitVec.setWidth 512 x.Change <<< 96) ∧
    ifInfoMsg_marshalBinary_ok x = true := by
  constructor <;> nl_decide

/-- `struct can_bittiming`: eight u32 in kernel order; size 32 -/
theorem nl_bittiming_image (x : Gen.Go.BitTiming) :
    BitTiming_marshalBinary_ret x =
      BitVec.setWidth 512 x.Bitrate ||| (BitVec.setWidth 512 x.Sample_point <<< 32) ||| (BitVec.setWidth 512 x.Tq <<< 64) |||
      (BitVec.setWidth 512 x.Prop_seg <<< 96) ||| (BitVec.setWidth 512 x.Phase_seg1 <<< 128) |||
      (BitVec.setWidth 512 x.Phase_seg2 <<< 160) ||| (BitVec.setWidth 512 x.Sjw <<< 192) |||
      (BitVec.setWidth 512 x.Brp <<< 224) ∧
    BitTiming_marshalBinary_ok x = true := by
  constructor <;> nl_decide

/-- `struct can_ctrlmode`: mask u32 @0, flags u32 @4; size 8 -/
theorem nl_ctrlmode_image (x : Gen.Go.CtrlMode) :
    CtrlMode_marshalBinary_ret x = BitVec.setWidth 512 x.Mask ||| (BitVec.setWidth 512 x.Flags <<< 32) ∧
    CtrlMode_marshalBinary_ok x = true := by
  constructor <;> nl_decide

/-- decoding an image of the structure's size returns the fields and no error, whatever the destination held -/
theorem nl_ifinfo_roundtrip (x y : Gen.Go.ifInfoMsg) :
    let r := ifInfoMsg_unmarshalBinary_recv y (ifInfoMsg_marshalBinary_ret x) 16#64
    r.Family = x.Family ∧ r.Type_ = x.Type_ ∧ r.Index = x.Index ∧ r.Flags = x.Flags ∧ r.Change = x.Change ∧
    ifInfoMsg_unmarshalBinary_ret y (ifInfoMsg_marshalBinary_ret x) 16#64 = false ∧
    ifInfoMsg_unmarshalBinary_ok y (ifInfoMsg_marshalBinary_ret x) 16#64 = true := by
  refine ⟨?_, ?_, ?_, ?_, ?_, ?_, ?_⟩ <;> nl_decide

theorem nl_bittiming_roundtrip (x y : Gen.Go.BitTiming) :
    let r := BitTiming_unmarshalBinary_recv y (BitTiming_marshalBinary_ret x) 32#64
    r.Bitrate = x.Bitrate ∧ r.Sample_point = x.Sample_point ∧ r.Tq = x.Tq ∧ r.Prop_seg = x.Prop_seg ∧
    r.Phase_seg1 = x.Phase_seg1 ∧ r.Phase_seg2 = x.Phase_seg2 ∧ r.Sjw = x.Sjw ∧ r.Brp = x.Brp ∧
    BitTiming_unmarshalBinary_ret y (BitTiming_marshalBinary_ret x) 32#64 = false ∧
    BitTiming_unmarshalBinary_ok y (BitTiming_marshalBinary_ret x) 32#64 = true := by
  refine ⟨?_, ?_, ?_, ?_, ?_, ?_, ?_, ?_, ?_, ?_⟩ <;> nl_decide

theorem nl_ctrlmode_roundtrip (x y : Gen.Go.CtrlMode) :
    let r := CtrlMode_unmarshalBinary_recv y (CtrlMode_marshalBinary_ret x) 8#64
    r.Mask = x.Mask ∧ r.Flags = x.Flags ∧
    CtrlMode_unmarshalBinary_ret y (CtrlMode_marshalBinary_ret x) 8#64 = false ∧
    CtrlMode_unmarshalBinary_ok y (CtrlMode_marshalBinary_ret x) 8#64 = true := by
  refine ⟨?_, ?_, ?_, ?_⟩ <;> nl_decide

/-- decoders read the fields at the kernel offsets of any slice of the right size -/
theorem nl_decode_fields (b : BitVec 512) (c : Gen.Go.Clock) (e : Gen.Go.BusErrorCounters) (s : Gen.Go.Stats)
    (m : Gen.Go.CtrlMode) :
    (Clock_unmarshalBinary_recv c b 4#64).Freq = BitVec.setWidth 32 b ∧
    (BusErrorCounters_unmarshalBinary_recv e b 4#64).Txerr = BitVec.setWidth 16 b ∧
    (BusErrorCounters_unmarshalBinary_recv e b 4#64).Rxerr = BitVec.setWidth 16 (b >>> 16) ∧
    (Stats_unmarshalBinary_recv s b 24#64).Bus_error = BitVec.setWidth 32 b ∧
    (Stats_unmarshalBinary_recv s b 24#64).Restarts = BitVec.setWidth 32 (b >>> 160) ∧
    (CtrlMode_unmarshalBinary_recv m b 8#64).Mask = BitVec.setWidth 32 b ∧
    (CtrlMode_unmarshalBinary_recv m b 8#64).Flags = BitVec.setWidth 32 (b >>> 32) := by
  refine ⟨?_, ?_, ?_, ?_, ?_, ?_, ?_⟩ <;> nl_decide

/-- **size guard**: a slice of any other length is rejected (error), the destination keeps its value, and nothing is
read (the translated code has no panic on that path) -/
theorem nl_size_guard (b : BitVec 512) (n : BitVec 64) :
    (∀ (x : Gen.Go.ifInfoMsg), n ≠ 16#64 → ifInfoMsg_unmarshalBinary_ret x b n = true ∧
        ifInfoMsg_unmarshalBinary_recv x b n = x ∧ ifInfoMsg_unmarshalBinary_ok x b n = true) ∧
    (∀ (x : Gen.Go.BitTiming), n ≠ 32#64 → BitTiming_unmarshalBinary_ret x b n = true ∧
        BitTiming_unmarshalBinary_recv x b n = x ∧ BitTiming_unmarshalBinary_ok x b n = true) ∧
    (∀ (x : Gen.Go.CtrlMode), n ≠ 8#64 → CtrlMode_unmarshalBinary_ret x b n = true ∧
        CtrlMode_unmarshalBinary_recv x b n = x ∧ CtrlMode_unmarshalBinary_ok x b n = true) ∧
    (∀ (x : Gen.Go.Clock), n ≠ 4#64 → Clock_unmarshalBinary_ret x b n = true ∧
        Clock_unmarshalBinary_recv x b n = x ∧ Clock_unmarshalBinary_ok x b n = true) ∧
    (∀ (x : Gen.Go.BusErrorCounters), n ≠ 4#64 → BusErrorCounters_unmarshalBinary_ret x b n = true ∧
        BusErrorCounters_unmarshalBinary_recv x b n = x ∧ BusErrorCounters_unmarshalBinary_ok x b n = true) ∧
    (∀ (x : Gen.Go.Stats), n ≠ 24#64 → Stats_unmarshalBinary_ret x b n = true ∧
        Stats_unmarshalBinary_recv x b n = x ∧ Stats_unmarshalBinary_ok x b n = true) := by
  refine ⟨?_, ?_, ?_, ?_, ?_, ?_⟩ <;> intro x hn <;> unfold_go <;> simp [hn]

/-- with the right size no decoder panics -/
theorem nl_decode_no_panic (b : BitVec 512) (i : Gen.Go.ifInfoMsg) (t : Gen.Go.BitTiming) (m : Gen.Go.CtrlMode)
    (c : Gen.Go.Clock) (e : Gen.Go.BusErrorCounters) (s : Gen.Go.Stats) :
    ifInfoMsg_unmarshalBinary_ok i b 16#64 = true ∧ BitTiming_unmarshalBinary_ok t b 32#64 = true ∧
    CtrlMode_unmarshalBinary_ok m b 8#64 = true ∧ Clock_unmarshalBinary_ok c b 4#64 = true ∧
    BusErrorCounters_unmarshalBinary_ok e b 4#64 = true ∧ Stats_unmarshalBinary_ok s b 24#64 = true := by
  refine ⟨?_, ?_, ?_, ?_, ?_, ?_⟩ <;> nl_decide

end CanVerif.Bridge
