/-
T1 bridge: the Lean definitions *translated from /repo's Go source on every run* (`Gen/DataGo.lean`, written by
harness/cmd/go2lean) are proved equal to the hand-written model (`Model/Bits.lean`, `Model/Frame.lean`) for ALL
arguments -- every payload, every uint8 start/length (fitting or not), every value -- and proved free of run-time
panics.  Together with the kernel-checked property theorems about the model this gives statements about the code as
translated (`Props/C01Code.lean`, ...).

Proof method: the definitions are unfolded and the resulting bit-vector identity is decided by `bv_decide` (bit-blasting
+ SAT with a checked LRAT certificate).  When the SAT step is needed the theorem depends on an axiom
`<thm>._native.bv_decide.ax_*` (Lean.ofReduceBool: trust in the compiled certificate checker); when normalisation alone
closes the goal no such axiom appears.  `#print axioms` of every theorem is recorded in the evidence on every run.
This is the only directory in which `bv_decide` is allowed; the property theorems over the model never depend on it.
-/
import CanVerif.Model.Bits
import CanVerif.Model.Frame
import CanVerif.Gen.DataGo
import Std.Tactic.BVDecide

namespace CanVerif.Bridge
open CanVerif CanVerif.Gen.Go

/-! Nat-indexed model arguments are uint8 values: the rewriting lemmas that turn them back into bit-vectors -/
theorem toNat_eq_lit (l : BitVec 8) (n : Nat) (h : n < 256) : (l.toNat = n) = (l = BitVec.ofNat 8 n) := by
  apply propext; constructor
  · intro e; apply BitVec.eq_of_toNat_eq; simp [e, Nat.mod_eq_of_lt h]
  · intro e; subst e; simp [Nat.mod_eq_of_lt h]

theorem getLsbD_toNat (d : BitVec 64) (i : BitVec 8) : d.getLsbD i.toNat = (d >>> i).getLsbD 0 := by
  rw [BitVec.ushiftRight_eq', BitVec.getLsbD_ushiftRight]; simp

theorem gt_lit (i : BitVec 8) (n : Nat) (h : n < 256) : (i.toNat > n) = (BitVec.ult (BitVec.ofNat 8 n) i = true) := by
  simp [BitVec.ult, Nat.mod_eq_of_lt h]


theorem ge_lit (i : BitVec 8) (n : Nat) (h : n < 256) : (i.toNat ≥ n) = (BitVec.ule (BitVec.ofNat 8 n) i = true) := by
  simp [BitVec.ule, Nat.mod_eq_of_lt h]

/-- the generic bridge proof: unfold every translated definition and the named model definitions, turn the model's
`Nat` readings of uint8 arguments back into bit-vectors, and decide the remaining bit-vector identity -/
macro "bridge" : tactic => `(tactic| (
      unfold_go
      try simp only [readULE, readUBE, readSLE, readSBE, writeULE, writeUBE, writeSLE, writeSBE, asSigned, asUnsigned,
        getBit, setBit, checkValue, Frame.validate, maxID, maxExtendedID,
        mask, packLE, packBE, unpackLE, unpackBE, bswap, byteAt, invertEndian8, beLsb, Nat.reduceMul,
        toNat_eq_lit _ 8 (by decide), toNat_eq_lit _ 16 (by decide), toNat_eq_lit _ 32 (by decide),
        toNat_eq_lit _ 64 (by decide), gt_lit _ 63 (by decide), ge_lit _ 64 (by decide), getLsbD_toNat,
        BitVec.ofNat_toNat, BitVec.setWidth_eq]
      try unfold Data
      constructor <;> bv_decide (config := { timeout := 120 })))

theorem bridge_packLE (d : BitVec 64) : Data_PackLittleEndian_ret d = packLE d ∧ Data_PackLittleEndian_ok d = true := by
  bridge

theorem bridge_packBE (d : BitVec 64) : Data_PackBigEndian_ret d = packBE d ∧ Data_PackBigEndian_ok d = true := by
  bridge

theorem bridge_unpackLE (d p : BitVec 64) : Data_UnpackLittleEndian_recv d p = unpackLE p ∧ Data_UnpackLittleEndian_ok d p = true := by
  bridge

theorem bridge_unpackBE (d p : BitVec 64) : Data_UnpackBigEndian_recv d p = unpackBE p ∧ Data_UnpackBigEndian_ok d p = true := by
  bridge

theorem bridge_invertEndian (i : BitVec 8) : invertEndian_ret i = invertEndian8 i ∧ invertEndian_ok i = true := by
  bridge

theorem bridge_readULE (d : BitVec 64) (s l : BitVec 8) :
    Data_UnsignedBitsLittleEndian_ret d s l = readULE d s.toNat l.toNat ∧ Data_UnsignedBitsLittleEndian_ok d s l = true := by
  bridge

theorem bridge_readUBE (d : BitVec 64) (s l : BitVec 8) :
    Data_UnsignedBitsBigEndian_ret d s l = readUBE d s.toNat l.toNat ∧ Data_UnsignedBitsBigEndian_ok d s l = true := by
  bridge

theorem bridge_asSigned (u : BitVec 64) (l : BitVec 8) : AsSigned_ret u l = asSigned u l.toNat ∧ AsSigned_ok u l = true := by
  bridge

theorem bridge_asUnsigned (x : BitVec 64) (l : BitVec 8) : AsUnsigned_ret x l = asUnsigned x l.toNat ∧ AsUnsigned_ok x l = true := by
  bridge

theorem bridge_readSLE (d : BitVec 64) (s l : BitVec 8) :
    Data_SignedBitsLittleEndian_ret d s l = readSLE d s.toNat l.toNat ∧ Data_SignedBitsLittleEndian_ok d s l = true := by
  bridge

theorem bridge_readSBE (d : BitVec 64) (s l : BitVec 8) :
    Data_SignedBitsBigEndian_ret d s l = readSBE d s.toNat l.toNat ∧ Data_SignedBitsBigEndian_ok d s l = true := by
  bridge

theorem bridge_writeULE (d : BitVec 64) (s l : BitVec 8) (v : BitVec 64) :
    Data_SetUnsignedBitsLittleEndian_recv d s l v = writeULE d s.toNat l.toNat v ∧ Data_SetUnsignedBitsLittleEndian_ok d s l v = true := by
  bridge

theorem bridge_writeUBE (d : BitVec 64) (s l : BitVec 8) (v : BitVec 64) :
    Data_SetUnsignedBitsBigEndian_recv d s l v = writeUBE d s.toNat l.toNat v ∧ Data_SetUnsignedBitsBigEndian_ok d s l v = true := by
  bridge

theorem bridge_writeSLE (d : BitVec 64) (s l : BitVec 8) (x : BitVec 64) :
    Data_SetSignedBitsLittleEndian_recv d s l x = writeSLE d s.toNat l.toNat x ∧ Data_SetSignedBitsLittleEndian_ok d s l x = true := by
  bridge

theorem bridge_writeSBE (d : BitVec 64) (s l : BitVec 8) (x : BitVec 64) :
    Data_SetSignedBitsBigEndian_recv d s l x = writeSBE d s.toNat l.toNat x ∧ Data_SetSignedBitsBigEndian_ok d s l x = true := by
  bridge

theorem bridge_getBit (d : BitVec 64) (i : BitVec 8) : Data_Bit_ret d i = getBit d i.toNat ∧ Data_Bit_ok d i = true := by
  bridge

theorem bridge_setBit (d : BitVec 64) (i : BitVec 8) (b : Bool) : Data_SetBit_recv d i b = setBit d i.toNat b ∧ Data_SetBit_ok d i b = true := by
  bridge

/-- true = a non-nil error -/
theorem bridge_checkValue (v : BitVec 64) (b : BitVec 8) : CheckValue_ret v b = !checkValue v b.toNat ∧ CheckValue_ok v b = true := by
  bridge

/-- `CheckBitRangeLittleEndian` restated over bit-vectors (int = 64-bit two's complement), true = error -/
def checkLE_bv (fl s l : BitVec 8) : Bool :=
  BitVec.sle (BitVec.setWidth 64 fl * 8#64) (BitVec.setWidth 64 s + BitVec.setWidth 64 l - 1#64)

theorem checkLE_bv_eq (fl s l : BitVec 8) : checkLE_bv fl s l = !checkLE fl.toNat s.toNat l.toNat := by
  have h1 := fl.isLt; have h2 := s.isLt; have h3 := l.isLt
  unfold checkLE_bv checkLE
  simp [BitVec.sle, BitVec.toInt_eq_toNat_cond, BitVec.toNat_add, BitVec.toNat_sub, BitVec.toNat_mul]
  omega

theorem bridge_checkLE_bv (fl s l : BitVec 8) :
    CheckBitRangeLittleEndian_ret fl s l = checkLE_bv fl s l ∧ CheckBitRangeLittleEndian_ok fl s l = true := by
  unfold checkLE_bv
  bridge

theorem bridge_checkLE (fl s l : BitVec 8) :
    CheckBitRangeLittleEndian_ret fl s l = !checkLE fl.toNat s.toNat l.toNat ∧ CheckBitRangeLittleEndian_ok fl s l = true :=
  ⟨by rw [(bridge_checkLE_bv fl s l).1, checkLE_bv_eq], (bridge_checkLE_bv fl s l).2⟩

/-- `CheckBitRangeBigEndian` restated over bit-vectors (int = 64-bit two's complement), true = error -/
def checkBE_bv (fl s l : BitVec 8) : Bool :=
  let upper : BitVec 64 := BitVec.setWidth 64 fl * 8#64
  if BitVec.sle upper (BitVec.setWidth 64 s) || BitVec.ult 63#8 s then true
  else
    let msb : BitVec 64 := BitVec.setWidth 64 (invertEndian8 s)
    let lsb : BitVec 64 := msb - BitVec.setWidth 64 l + 1#64
    if BitVec.slt lsb 0#64 then true
    else
      let e : BitVec 64 := BitVec.setWidth 64 (invertEndian8 (BitVec.setWidth 8 lsb))
      if BitVec.sle upper e then true else false

theorem inv8_toNat (i : BitVec 8) (h : i.toNat ≤ 63) : (invertEndian8 i).toNat = invIdx i.toNat := by
  unfold invertEndian8 invIdx
  simp [BitVec.toNat_add, BitVec.toNat_mul, BitVec.toNat_sub, BitVec.toNat_udiv, BitVec.toNat_umod, BitVec.toNat_ofNat]
  omega

theorem invIdx_le (i : Nat) (h : i ≤ 63) : invIdx i ≤ 63 := by unfold invIdx; omega

theorem sle_upper (fl x : BitVec 8) : BitVec.sle (BitVec.setWidth 64 fl * 8#64) (BitVec.setWidth 64 x) = decide (fl.toNat * 8 ≤ x.toNat) := by
  have h1 := fl.isLt; have h2 := x.isLt
  simp only [BitVec.sle, BitVec.toInt_eq_toNat_cond, BitVec.toNat_mul, BitVec.toNat_setWidth, BitVec.toNat_ofNat]
  congr 1; apply propext; omega

theorem checkBE_bv_eq (fl s l : BitVec 8) (hl : l ≠ 0#8) : checkBE_bv fl s l = !checkBE fl.toNat s.toNat l.toNat := by
  have hF := fl.isLt; have hS := s.isLt; have hL := l.isLt
  have hl' : 0 < l.toNat := by
    rcases Nat.eq_zero_or_pos l.toNat with h | h
    · exact absurd (BitVec.eq_of_toNat_eq (by simpa using h)) hl
    · exact h
  unfold checkBE_bv checkBE
  simp only [sle_upper]
  have c2 : BitVec.ult 63#8 s = decide (s.toNat > 63) := by simp [BitVec.ult]
  rw [c2]
  by_cases h1 : s.toNat ≥ fl.toNat * 8
  · simp [h1]
  by_cases h2 : s.toNat > 63
  · simp [h2]
  have h1' : ¬ fl.toNat * 8 ≤ s.toNat := h1
  simp only [h1, h2, decide_false, Bool.or_false, Bool.false_eq_true, if_false, ge_iff_le]
  have hm : (BitVec.setWidth 64 (invertEndian8 s)).toNat = invIdx s.toNat := by
    simp [inv8_toNat s (by omega)]; have := invIdx_le s.toNat (by omega); omega
  have hm63 := invIdx_le s.toNat (by omega)
  generalize hM : invIdx s.toNat = M at *
  generalize hmm : BitVec.setWidth 64 (invertEndian8 s) = m at *
  have hlsb : (m - BitVec.setWidth 64 l + 1#64).toInt = (M : Int) - l.toNat + 1 := by
    simp only [BitVec.toInt_eq_toNat_cond, BitVec.toNat_add, BitVec.toNat_sub, BitVec.toNat_setWidth, BitVec.toNat_ofNat, hm]
    omega
  have c3 : BitVec.slt (m - BitVec.setWidth 64 l + 1#64) 0#64 = decide ((M : Int) - (l.toNat : Int) + 1 < 0) := by
    simp only [BitVec.slt, hlsb]; simp
  rw [c3]
  by_cases h3 : (M : Int) - (l.toNat : Int) + 1 < 0
  · simp [h3]
  simp only [h3, decide_false, Bool.false_eq_true, if_false]
  have h8 : (BitVec.setWidth 8 (m - BitVec.setWidth 64 l + 1#64)).toNat = ((M : Int) - l.toNat + 1).toNat := by
    have : (m - BitVec.setWidth 64 l + 1#64).toNat = ((M : Int) - l.toNat + 1).toNat := by
      have := hlsb
      simp only [BitVec.toInt_eq_toNat_cond] at this
      omega
    simp only [BitVec.toNat_setWidth, this]; omega
  generalize hx : BitVec.setWidth 8 (m - BitVec.setWidth 64 l + 1#64) = x at *
  have hx63 : x.toNat ≤ 63 := by omega
  have he : (invertEndian8 x).toNat = invIdx ((M : Int) - l.toNat + 1).toNat := by rw [inv8_toNat x hx63, h8]
  rw [he]
  simp

theorem bridge_checkBE_bv (fl s l : BitVec 8) :
    CheckBitRangeBigEndian_ret fl s l = checkBE_bv fl s l ∧ CheckBitRangeBigEndian_ok fl s l = true := by
  unfold checkBE_bv
  bridge

/-- `CheckBitRangeBigEndian` = the model's check for every frame length, start and non-zero length (length 0 is outside
the property's domain; there the Go code's uint8 wrap-around in `invertEndian(64)` and the model differ) -/
theorem bridge_checkBE (fl s l : BitVec 8) (hl : l ≠ 0#8) :
    CheckBitRangeBigEndian_ret fl s l = !checkBE fl.toNat s.toNat l.toNat ∧ CheckBitRangeBigEndian_ok fl s l = true :=
  ⟨by rw [(bridge_checkBE_bv fl s l).1, checkBE_bv_eq fl s l hl], (bridge_checkBE_bv fl s l).2⟩

/-- the readers, packers and checks do not assign through their receiver -/
theorem bridge_data_pure :
    Data_UnsignedBitsLittleEndian_mutates = false ∧ Data_UnsignedBitsBigEndian_mutates = false ∧
    Data_SignedBitsLittleEndian_mutates = false ∧ Data_SignedBitsBigEndian_mutates = false ∧
    Data_PackLittleEndian_mutates = false ∧ Data_PackBigEndian_mutates = false ∧ Data_Bit_mutates = false := by decide

end CanVerif.Bridge
