/-
T1 bridge for pkg/socketcan/frame.go and Frame.Validate (C06): encodeFrame, decodeFrame, the flag / ID getters and the
error-frame byte getters, translated from the working tree on every run (Gen/DataGo.lean), equal Model/Frame.lean for
every frame and every 32-bit word, and do not panic.  marshalBinary / unmarshalBinary (byte slices) are not translated:
the 16-byte layout step is tied by the correspondence run only.
-/
import CanVerif.Model.Frame
import CanVerif.Bridge.DataGo

namespace CanVerif.Bridge
open CanVerif CanVerif.Gen.Go

/-- model values of the translated structs -/
def frameOf (f : Gen.Go.Frame) : CanVerif.Frame := ⟨f.ID, f.Length, f.Data, f.IsRemote, f.IsExtended⟩
def scOf (f : Gen.Go.frame) : ScFrame := ⟨f.idAndFlags, f.dataLengthCode, f.data⟩

macro "bridge_frame" : tactic => `(tactic| (
      unfold_go
      simp only [frameOf, scOf, encodeFrame, decodeFrame, decodeErrorFrame, ScFrame.isExtended, ScFrame.isRemote,
        ScFrame.isError, ScFrame.id, dataByte, idFlagExtended, idFlagError, idFlagRemote, idMaskExtended, idMaskStandard,
        Nat.reduceMul]
      try unfold Data
      repeat' (first | constructor | split)
      all_goals (try simp only [])
      all_goals bv_decide))

theorem bridge_sc_flags (f : Gen.Go.frame) :
    frame_isExtended_ret f = (scOf f).isExtended ∧ frame_isRemote_ret f = (scOf f).isRemote ∧
    frame_isError_ret f = (scOf f).isError ∧ frame_id_ret f = (scOf f).id ∧
    frame_isExtended_ok f = true ∧ frame_isRemote_ok f = true ∧ frame_isError_ok f = true ∧ frame_id_ok f = true := by
  bridge_frame

theorem bridge_sc_error (f : Gen.Go.frame) :
    frame_errorClass_ret f = (decodeErrorFrame (scOf f)).errorClass ∧
    frame_lostArbitrationBit_ret f = (decodeErrorFrame (scOf f)).lostArbitrationBit ∧
    frame_controllerError_ret f = (decodeErrorFrame (scOf f)).controllerError ∧
    frame_protocolError_ret f = (decodeErrorFrame (scOf f)).protocolError ∧
    frame_protocolErrorLocation_ret f = (decodeErrorFrame (scOf f)).protocolErrorLocation ∧
    frame_transceiverError_ret f = (decodeErrorFrame (scOf f)).transceiverError ∧
    frame_errorClass_ok f = true ∧ frame_lostArbitrationBit_ok f = true ∧ frame_controllerError_ok f = true ∧
    frame_protocolError_ok f = true ∧ frame_protocolErrorLocation_ok f = true ∧ frame_transceiverError_ok f = true := by
  bridge_frame

theorem bridge_sc_encode (f : Gen.Go.frame) (cf : Gen.Go.Frame) :
    scOf (frame_encodeFrame_recv f cf) = encodeFrame (frameOf cf) ∧ frame_encodeFrame_ok f cf = true := by
  constructor
  · unfold_go
    simp only [frameOf, scOf, encodeFrame, idFlagExtended, idFlagRemote]
    repeat' split
    all_goals simp_all
    all_goals bv_decide
  · unfold_go; simp

theorem bridge_sc_decode (f : Gen.Go.frame) :
    frameOf (frame_decodeFrame_ret f) = decodeFrame (scOf f) ∧ frame_decodeFrame_ok f = true := by
  obtain ⟨h1, h2, _, h4, o1, o2, _, o4⟩ := bridge_sc_flags f
  constructor
  · simp only [frame_decodeFrame_ret, frameOf, decodeFrame, h1, h2, h4, scOf]
  · simp only [frame_decodeFrame_ok, o1, o2, o4, Bool.and_self]

/-- the getters, `decodeFrame` and `Validate` leave the frame they are called on unchanged (the translator found no
assignment through their receiver) -/
theorem bridge_sc_pure :
    frame_isExtended_mutates = false ∧ frame_isRemote_mutates = false ∧ frame_isError_mutates = false ∧
    frame_id_mutates = false ∧ frame_errorClass_mutates = false ∧ frame_lostArbitrationBit_mutates = false ∧
    frame_controllerError_mutates = false ∧ frame_protocolError_mutates = false ∧
    frame_protocolErrorLocation_mutates = false ∧ frame_transceiverError_mutates = false ∧
    frame_decodeFrame_mutates = false ∧ Frame_Validate_mutates = false := by decide

end CanVerif.Bridge
