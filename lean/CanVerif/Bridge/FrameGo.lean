/-
T1 bridge for pkg/socketcan/frame.go and Frame.Validate (C06): encodeFrame, decodeFrame, the flag / ID getters and the
error-frame byte getters, translated from the working tree on every run (Gen/DataGo.lean), equal Model/Frame.lean for
every frame and every 32-bit word, and do not panic.  marshalBinary / unmarshalBinary work on a byte slice: the translator
models the first 64 bytes of the slice (a 512-bit vector, byte k = bits 8k..8k+7) and its length; the bridge is stated for
every slice of at least 16 bytes (shorter ones make the Go code panic at its own bounds check, `_ok = false`).
-/
import CanVerif.Model.Frame
import CanVerif.Bridge.DataGo

namespace CanVerif.Bridge
open CanVerif CanVerif.Gen.Go

/-- model values of the translated structs -/
def frameOf (f : Gen.Go.Frame) : CanVerif.Frame := ⟨f.ID, f.Length, f.Data, f.IsRemote, f.IsExtended⟩
def scOf (f : Gen.Go.frame) : ScFrame := ⟨f.idAndFlags, f.dataLengthCode, f.data⟩

macro "bridge_frame" : tactic => `(tactic| (
      unfold_go
      simp only [frameOf, scOf, encodeFrame, decodeFrame, decodeErrorFrame, ScFrame.isExtended, ScFrame.isRemote,
        ScFrame.isError, ScFrame.id, dataByte, idFlagExtended, idFlagError, idFlagRemote, idMaskExtended, idMaskStandard,
        Nat.reduceMul]
      try unfold Data
      repeat' (first | constructor | split)
      all_goals (try simp only [])
      all_goals bv_decide (config := { timeout := 120 })))

/-- `Frame.Validate` (true = a non-nil error) -/
theorem bridge_validate (f : Gen.Go.Frame) :
    Frame_Validate_ret f = !(CanVerif.Frame.validate ⟨f.ID, f.Length, f.Data, f.IsRemote, f.IsExtended⟩) ∧ Frame_Validate_ok f = true := by
  unfold_go
  simp only [Frame.validate, maxID, maxExtendedID]
  try unfold Data
  constructor <;> bv_decide (config := { timeout := 120 })

theorem bridge_sc_flags (f : Gen.Go.frame) :
    frame_isExtended_ret f = (scOf f).isExtended ∧ frame_isRemote_ret f = (scOf f).isRemote ∧
    frame_isError_ret f = (scOf f).isError ∧ frame_id_ret f = (scOf f).id ∧
    frame_isExtended_ok f = true ∧ frame_isRemote_ok f = true ∧ frame_isError_ok f = true ∧ frame_id_ok f = true := by
  bridge_frame

theorem bridge_sc_error (f : Gen.Go.frame) :
    frame_errorClass_ret f = (decodeErrorFrame (scOf f)).errorClass ∧
    frame_lostArbitrationBit_ret f = (decodeErrorFrame (scOf f)).lostArbitrationBit ∧
    frame_controllerError_ret f = (decodeErrorFrame (scOf f)).controllerError ∧
    frame_protocolError_ret f = (decodeErrorFrame (scOf f)).protocolError ∧
    frame_protocolErrorLocation_ret f = (decodeErrorFrame (scOf f)).protocolErrorLocation ∧
    frame_transceiverError_ret f = (decodeErrorFrame (scOf f)).transceiverError ∧
    frame_errorClass_ok f = true ∧ frame_lostArbitrationBit_ok f = true ∧ frame_controllerError_ok f = true ∧
    frame_protocolError_ok f = true ∧ frame_protocolErrorLocation_ok f = true ∧ frame_transceiverError_ok f = true := by
  bridge_frame

theorem bridge_sc_encode (f : Gen.Go.frame) (cf : Gen.Go.Frame) :
    scOf (frame_encodeFrame_recv f cf) = encodeFrame (frameOf cf) ∧ frame_encodeFrame_ok f cf = true := by
  constructor
  · unfold_go
    simp only [frameOf, scOf, encodeFrame, idFlagExtended, idFlagRemote]
    repeat' split
    all_goals simp_all
    all_goals bv_decide (config := { timeout := 120 })
  · unfold_go; simp

theorem bridge_sc_decode (f : Gen.Go.frame) :
    frameOf (frame_decodeFrame_ret f) = decodeFrame (scOf f) ∧ frame_decodeFrame_ok f = true := by
  -- field by field, whatever the shape of the translated code (the getters may be called or inlined)
  have hf : (frame_decodeFrame_ret f).ID = (scOf f).id ∧ (frame_decodeFrame_ret f).Length = f.dataLengthCode ∧
      (frame_decodeFrame_ret f).Data = f.data ∧ (frame_decodeFrame_ret f).IsRemote = (scOf f).isRemote ∧
      (frame_decodeFrame_ret f).IsExtended = (scOf f).isExtended ∧ frame_decodeFrame_ok f = true := by
    bridge_frame
  obtain ⟨a, b, c, d, e, g⟩ := hf
  refine ⟨?_, g⟩
  simp only [frameOf, decodeFrame, a, b, c, d, e, scOf]

/-- `marshalBinary` into any buffer of at least 16 bytes: ID word, length byte and data are the model's image; the three
padding bytes and everything after byte 15 keep what the buffer held (the transmitter passes a fresh zeroed buffer) -/
theorem bridge_sc_marshal (f : Gen.Go.frame) (b : BitVec 512) (n : BitVec 64) (hn : BitVec.ule 16#64 n = true) :
    frame_marshalBinary_recv f b n =
      (BitVec.setWidth 512 (marshalBinary (scOf f)) ||| (b &&& ~~~ (0xffffffffffffffff000000ffffffffff#512))) ∧
    frame_marshalBinary_ok f b n = true := by
  unfold_go
  simp only [scOf, marshalBinary]
  try unfold Data
  constructor <;> bv_decide (config := { timeout := 120 })

/-- into a zeroed buffer: exactly the model's 16-byte image -/
theorem bridge_sc_marshal_zero (f : Gen.Go.frame) (n : BitVec 64) (hn : BitVec.ule 16#64 n = true) :
    BitVec.setWidth 128 (frame_marshalBinary_recv f 0#512 n) = marshalBinary (scOf f) := by
  rw [(bridge_sc_marshal f 0#512 n hn).1]
  simp only [scOf, marshalBinary]
  try unfold Data
  bv_decide (config := { timeout := 120 })

/-- `unmarshalBinary` of any slice of at least 16 bytes (whatever the frame held before): only the first 16 bytes count -/
theorem bridge_sc_unmarshal (f : Gen.Go.frame) (b : BitVec 512) (n : BitVec 64) (hn : BitVec.ule 16#64 n = true) :
    scOf (frame_unmarshalBinary_recv f b n) = unmarshalBinary (BitVec.setWidth 128 b) ∧
    frame_unmarshalBinary_ok f b n = true := by
  unfold_go
  simp only [scOf, unmarshalBinary]
  try unfold Data
  refine ⟨?_, by bv_decide (config := { timeout := 120 })⟩
  simp only [ScFrame.mk.injEq]
  refine ⟨by bv_decide (config := { timeout := 120 }), by bv_decide (config := { timeout := 120 }),
    by bv_decide (config := { timeout := 120 })⟩

/-- a slice shorter than 16 bytes: the translated code panics at its bounds check instead of reading or writing -/
theorem bridge_sc_short (f : Gen.Go.frame) (b : BitVec 512) (n : BitVec 64) (hn : BitVec.ult n 16#64 = true) :
    frame_marshalBinary_ok f b n = false ∧ frame_unmarshalBinary_ok f b n = false := by
  unfold_go
  constructor <;> bv_decide (config := { timeout := 120 })

/-- the getters, `decodeFrame` and `Validate` leave the frame they are called on unchanged (the translator found no
assignment through their receiver) -/
theorem bridge_sc_pure :
    frame_isExtended_mutates = false ∧ frame_isRemote_mutates = false ∧ frame_isError_mutates = false ∧
    frame_id_mutates = false ∧ frame_errorClass_mutates = false ∧ frame_lostArbitrationBit_mutates = false ∧
    frame_controllerError_mutates = false ∧ frame_protocolError_mutates = false ∧
    frame_protocolErrorLocation_mutates = false ∧ frame_transceiverError_mutates = false ∧
    frame_decodeFrame_mutates = false ∧ Frame_Validate_mutates = false := by decide

end CanVerif.Bridge
