import CanVerif.Lemmas.Netlink
/-!
# C20  CAN netlink link-info codec matches the kernel ABI and decodes defensively

The byte images are specified as "concatenation of the structure's fields in kernel order and size"
(`encodeItems` over the hand-transcribed layout tables of Model/Netlink.lean).  Native byte order is
little-endian (assumption: amd64/arm64, the only platforms this sandbox builds for).
-/
namespace CanVerif

/-- Image layout: a field of width `w` at its place in the sequence is the `w` little-endian bytes of its value. -/
theorem C20_field_bytes (w v : Nat) : (leBytes w v).length = w ∧ ofLE (leBytes w v) = v % 256 ^ w :=
  ⟨leBytes_length w v, ofLE_leBytes w v⟩

/-- Sizes of the images equal the kernel structure sizes (ifinfomsg 16, can_bittiming 32, can_ctrlmode 8,
can_bittiming_const 48, can_clock 4, can_berr_counter 4, can_device_stats 24). -/
theorem C20_sizes :
    layoutSize ifInfoLayout = 16 ∧ layoutSize bitTimingLayout = 32 ∧ layoutSize ctrlModeLayout = 8 ∧
    layoutSize bitTimingConstLayout = 48 ∧ layoutSize clockLayout = 4 ∧ layoutSize berrLayout = 4 ∧
    layoutSize statsLayout = 24 := by decide

/-- Every image has exactly the structure's size. -/
theorem C20_image_size (items : List Item) (vals : List Nat) : (encodeItems items vals).length = layoutSize items :=
  encodeItems_length items vals

/-- Decoding an image returns the original field values (any layout, any in-range field values). -/
theorem C20_roundtrip (items : List Item) (vals : List Nat) (h : FitsItems items vals) :
    unmarshalItems items (encodeItems items vals) = some vals :=
  unmarshal_encode items vals h

/-- Decoding a fixed-size attribute of any other size returns an error (and reads nothing). -/
theorem C20_size_guard (items : List Item) (data : Bytes) (h : data.length ≠ layoutSize items) :
    unmarshalItems items data = none := by
  unfold unmarshalItems; simp [h]

/-- …and when the size is right the decoder only reads inside the slice: it is total on such input. -/
theorem C20_decode_total (items : List Item) (data : Bytes) (h : data.length = layoutSize items) :
    ∃ vals, unmarshalItems items data = some vals := by
  unfold unmarshalItems; simp [h]

def U32s (n : Nat) (vs : List Nat) : Prop := vs.length = n ∧ ∀ v ∈ vs, v < 2 ^ 32

theorem fits_u32s (n : Nat) (vs : List Nat) (h : U32s n vs) : FitsItems (List.replicate n (.field 4)) vs := by
  obtain ⟨hl, hv⟩ := h
  induction n generalizing vs with
  | zero =>
    cases vs with
    | nil => simp [FitsItems]
    | cons _ _ => simp at hl
  | succ n ih =>
    cases vs with
    | nil => simp at hl
    | cons v vs =>
      simp only [List.replicate_succ, FitsItems]
      refine ⟨by have := hv v (List.mem_cons_self); omega, ?_⟩
      exact ih vs (by simpa using hl) (fun x hx => hv x (List.mem_cons_of_mem _ hx))

/-- An encoded link-info message (kind plus data with bit timing and control mode) decodes to the same kind,
bit timing (hence bit rate) and control mode. -/
theorem C20_linkinfo (kind : Bytes) (hk : kind = canKind ∨ kind = vcanKind) (bt cm : List Nat)
    (hbt : U32s 8 bt) (hcm : U32s 2 cm) :
    decodeLinkInfo (encodeLinkInfo kind bt cm) = some { kind := kind, bt := bt, cm := cm } := by
  have fbt : FitsItems bitTimingLayout bt := fits_u32s 8 bt hbt
  have fcm : FitsItems ctrlModeLayout cm := by
    have := fits_u32s 2 cm hcm
    simpa [ctrlModeLayout] using this
  have lbt : (encodeItems bitTimingLayout bt).length = 32 := by rw [encodeItems_length]; decide
  have lcm : (encodeItems ctrlModeLayout cm).length = 8 := by rw [encodeItems_length]; decide
  have ubt := unmarshal_encode bitTimingLayout bt fbt
  have ucm := unmarshal_encode ctrlModeLayout cm fcm
  generalize hBT : encodeItems bitTimingLayout bt = BT at *
  generalize hCM : encodeItems ctrlModeLayout cm = CM at *
  have lP2 : (attr IFLA_CAN_BITTIMING BT ++ attr IFLA_CAN_CTRLMODE CM).length = 48 := by
    simp [attr_length, lbt, lcm, align4]
  have pP2 : parseAttrs (48 + 1) (attr IFLA_CAN_BITTIMING BT ++ attr IFLA_CAN_CTRLMODE CM) =
      some [(IFLA_CAN_BITTIMING, BT), (IFLA_CAN_CTRLMODE, CM)] := by
    rw [parseAttrs_pair' _ _ _ _ _ (by omega) (by decide) (by omega) (by decide) (by omega)]; rfl
  generalize hP2 : attr IFLA_CAN_BITTIMING BT ++ attr IFLA_CAN_CTRLMODE CM = P2 at *
  have hkl : kind.length ≤ 4 := by rcases hk with rfl | rfl <;> decide
  have hks : nlString (kind ++ [0]) = kind := by rcases hk with rfl | rfl <;> decide
  have hkok : ¬ (kind ≠ canKind ∧ kind ≠ vcanKind) := by
    rcases hk with rfl | rfl <;> simp
  have lK : (attr IFLA_INFO_KIND (kind ++ [0])).length ≤ 12 := by
    rw [attr_length]; simp [align4]; omega
  have lD : (attr (nestedFlag + IFLA_INFO_DATA) P2).length = 52 := by simp [attr_length, lP2, align4]
  have lP1 : 52 ≤ (attr IFLA_INFO_KIND (kind ++ [0]) ++ attr (nestedFlag + IFLA_INFO_DATA) P2).length ∧
      (attr IFLA_INFO_KIND (kind ++ [0]) ++ attr (nestedFlag + IFLA_INFO_DATA) P2).length ≤ 64 := by
    rw [List.length_append, lD]; omega
  have pP1 : ∀ fuel, 3 ≤ fuel →
      parseAttrs fuel (attr IFLA_INFO_KIND (kind ++ [0]) ++ attr (nestedFlag + IFLA_INFO_DATA) P2) =
      some [(IFLA_INFO_KIND, kind ++ [0]), (IFLA_INFO_DATA, P2)] := by
    intro fuel hf
    rw [parseAttrs_pair' _ _ _ _ _ hf (by decide) (by simp; omega) (by decide) (by omega)]; rfl
  generalize hP1 : attr IFLA_INFO_KIND (kind ++ [0]) ++ attr (nestedFlag + IFLA_INFO_DATA) P2 = P1 at *
  have ptop : ∀ fuel, 2 ≤ fuel → parseAttrs fuel (attr (nestedFlag + IFLA_LINKINFO) P1) = some [(IFLA_LINKINFO, P1)] := by
    intro fuel hf
    rw [parseAttrs_single' _ _ _ hf (by decide) (by omega)]; rfl
  unfold decodeLinkInfo encodeLinkInfo
  rw [hBT, hCM, hP2, hP1, ptop _ (by rw [attr_length]; omega)]
  simp only [List.foldl_cons, List.foldl_nil, if_true]
  rw [pP1 _ (by omega)]
  simp only [decodeLinkAttrs, if_true, hks, hkok, if_false, lP2]
  have e1 : ¬ (IFLA_INFO_DATA = IFLA_INFO_KIND) := by decide
  simp only [e1, if_false, if_true]
  rw [pP2]
  have e2 : ¬ (IFLA_CAN_CTRLMODE = IFLA_CAN_BITTIMING) := by decide
  simp only [decodeInfo, if_true, ubt, e2, if_false, ucm]

/-- layout of the fixed-size attributes `Info.decode` recognises -/
def infoLayout (t : Nat) : Option (List Item) :=
  if t = IFLA_CAN_BITTIMING then some bitTimingLayout
  else if t = IFLA_CAN_CTRLMODE then some ctrlModeLayout
  else if t = IFLA_CAN_BITTIMING_CONST then some bitTimingConstLayout
  else if t = IFLA_CAN_CLOCK then some clockLayout
  else if t = IFLA_CAN_BERR_COUNTER then some berrLayout
  else none

/-- A wrong-sized fixed-size attribute makes the whole info decode fail wherever it stands in the attribute list:
no later well-formed attribute can turn the error back into success. -/
theorem C20_info_size_guard (li : LinkInfo) (as : List (Nat × Bytes)) (t : Nat) (p : Bytes) (lay : List Item)
    (hm : (t, p) ∈ as) (hl : infoLayout t = some lay) (hs : p.length ≠ layoutSize lay) :
    decodeInfo li as = none := by
  induction as generalizing li with
  | nil => cases hm
  | cons a r ih =>
    obtain ⟨t', p'⟩ := a
    have hrec : ∀ li', (t, p) ∈ r → decodeInfo li' r = none := fun li' h => ih li' h
    rcases List.mem_cons.mp hm with heq | hr
    · cases heq
      have g := C20_size_guard lay p hs
      unfold infoLayout at hl
      repeat' split at hl
      all_goals (try cases hl)
      all_goals (subst_vars; simp [decodeInfo, g, IFLA_CAN_BITTIMING, IFLA_CAN_CTRLMODE, IFLA_CAN_BITTIMING_CONST,
        IFLA_CAN_CLOCK, IFLA_CAN_BERR_COUNTER])
    · unfold decodeInfo
      repeat' split
      all_goals first | rfl | exact hrec _ hr

/-- non-vacuity: a 31-byte bit timing followed by a valid control mode is rejected -/
example : decodeInfo {} [(IFLA_CAN_BITTIMING, List.replicate 31 0), (IFLA_CAN_CTRLMODE, List.replicate 8 0)] = none := by
  decide

/-- non-vacuity: concrete field values within range -/
example : U32s 8 [500000, 875, 125, 6, 7, 2, 1, 10] ∧ U32s 2 [0x20, 0x20] := by
  constructor <;> exact ⟨rfl, by decide⟩

end CanVerif
