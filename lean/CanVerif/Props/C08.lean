import CanVerif.Lemmas.Range
import CanVerif.Model.Signal
/-!
# C08  Signal descriptors follow the DBC layout; bounds and saturation exact to 64 bits
-/
namespace CanVerif

/-- Descriptor reads/writes are the C01/C02 functions of the descriptor's (order, start, length), hence
inherit their bit-level specifications (`C01_*`, `C02_*` in terms of `Range.pos`). -/
theorem C08_unmarshal_unsigned (s : Sig) (d : Data) (h : s.range.Fits) (i : Nat) :
    (s.unmarshalUnsigned d).getLsbD i = (decide (i < s.length) && payloadBit d (s.range.pos i)) :=
  readU_getLsbD s.range d h i

theorem C08_unmarshal_signed (s : Sig) (d : Data) (h : s.range.Fits) (h1 : 1 ≤ s.length) (h64 : s.length ≤ 64) :
    s.unmarshalSigned d = ((s.unmarshalUnsigned d).setWidth s.length).signExtend 64 := by
  have := asSigned_eq (readU s.range d) s.length h1 h64 (readU_below s.range d h)
  unfold Sig.unmarshalSigned Sig.unmarshalUnsigned readS readU readSBE readSLE at *
  split <;> simp_all [Sig.range]

theorem C08_marshal_unsigned (s : Sig) (d : Data) (v : BitVec 64) (h : s.range.Fits) (hv : Below v s.length) :
    (∀ i, i < s.length → payloadBit (s.marshalUnsigned d v) (s.range.pos i) = v.getLsbD i) ∧
    (∀ k, (∀ i, i < s.length → s.range.pos i ≠ k) → payloadBit (s.marshalUnsigned d v) k = payloadBit d k) :=
  ⟨fun i hi => writeU_inside s.range d v h hv i hi, fun k hk => writeU_outside s.range d v h hv k hk⟩

theorem C08_marshal_signed (s : Sig) (d : Data) (x : BitVec 64) (h1 : 1 ≤ s.length) (h64 : s.length ≤ 64) :
    s.marshalSigned d x = s.marshalUnsigned d (asUnsigned x s.length) ∧ Below (asUnsigned x s.length) s.length ∧
    ∀ i, i < s.length → (asUnsigned x s.length).getLsbD i = x.getLsbD i := by
  refine ⟨by unfold Sig.marshalSigned Sig.marshalUnsigned writeS writeU writeSBE writeSLE; rfl,
    asUnsigned_below x s.length h1 h64, ?_⟩
  intro i hi
  rw [asUnsigned_getLsbD x s.length i h1 h64 (by omega)]; simp [hi]

/-- 1-bit signals read and write the single addressed bit. -/
theorem C08_bool (s : Sig) (d : Data) (b : Bool) (hs : s.start ≤ 63) :
    s.unmarshalBool d = payloadBit d s.start ∧
    (∀ k, payloadBit (s.marshalBool d b) k = if k = s.start then b else payloadBit d k) := by
  constructor
  · unfold Sig.unmarshalBool getBit payloadBit
    have : ¬ s.start > 63 := by omega
    simp [this]
  · intro k
    unfold Sig.marshalBool
    rw [payloadBit_setBit]
    by_cases e : k = s.start <;> simp [e, hs]

/-- Float signals carry exactly the 32-bit pattern. -/
theorem C08_float_bits (s : Sig) (d : Data) (f : BitVec 32) (h : s.range.Fits) (hl : s.length = 32) :
    s.unmarshalFloatBits (s.marshalFloatBits d f) = f := by
  unfold Sig.unmarshalFloatBits Sig.marshalFloatBits
  have hb : Below (f.setWidth 64) s.range.l := by
    show (f.setWidth 64).toNat < 2 ^ s.length
    rw [hl, BitVec.toNat_setWidth]
    exact Nat.lt_of_le_of_lt (Nat.mod_le _ _) f.isLt
  rw [readU_writeU s.range d _ h hb]
  apply BitVec.eq_of_getLsbD_eq
  intro i hi
  simp [BitVec.getLsbD_setWidth, hi]

theorem bounds_fin : ∀ L : Fin 65, 1 ≤ L.val →
    (maxUnsigned L.val).toNat = 2 ^ L.val - 1 ∧
    (minSigned L.val).toInt = -(2 ^ (L.val - 1) : Int) ∧
    (maxSigned L.val).toInt = (2 ^ (L.val - 1) : Int) - 1 := by decide +kernel

/-- Reported raw bounds for every length 1..64. -/
theorem C08_bounds (L : Nat) (h1 : 1 ≤ L) (h64 : L ≤ 64) :
    (maxUnsigned L).toNat = 2 ^ L - 1 ∧
    (minSigned L).toInt = -(2 ^ (L - 1) : Int) ∧
    (maxSigned L).toInt = (2 ^ (L - 1) : Int) - 1 :=
  bounds_fin ⟨L, by omega⟩ h1

/-- Saturated cast (signed): the argument inside the bounds, the nearer bound otherwise. -/
theorem C08_sat_signed (L : Nat) (x : BitVec 64) (h1 : 1 ≤ L) (h64 : L ≤ 64) :
    (satSigned L x).toInt = max (-(2 ^ (L - 1) : Int)) (min ((2 ^ (L - 1) : Int) - 1) x.toInt) := by
  obtain ⟨_, hmin, hmax⟩ := C08_bounds L h1 h64
  have hpos : (0 : Int) < 2 ^ (L - 1) := Int.pow_pos (by omega)
  unfold satSigned
  simp only [BitVec.slt_iff_toInt_lt, hmin, hmax]
  generalize (2 ^ (L - 1) : Int) = p at *
  by_cases c1 : x.toInt < -p
  · simp only [c1, if_true, hmin]; omega
  · by_cases c2 : p - 1 < x.toInt
    · simp only [c1, c2, if_true, if_false, hmax]; omega
    · simp only [c1, c2, if_false]; omega

/-- Saturated cast (unsigned). -/
theorem C08_sat_unsigned (L : Nat) (v : BitVec 64) (h1 : 1 ≤ L) (h64 : L ≤ 64) :
    (satUnsigned L v).toNat = min v.toNat (2 ^ L - 1) := by
  obtain ⟨hmax, _, _⟩ := C08_bounds L h1 h64
  unfold satUnsigned
  simp only [gt_iff_lt, BitVec.lt_def, hmax]
  generalize hp : 2 ^ L - 1 = p at *
  by_cases c : p < v.toNat
  · simp only [c, if_true, hmax]; omega
  · simp only [c, if_false]; omega
/-- non-vacuity: a 63-bit big-endian signed signal that fits. -/
example : ({ be := true, start := 7, length := 63, signed := true } : Sig).range.Fits := by decide +kernel

end CanVerif
