import CanVerif.Model.Phys
/-!
# C09  Physical <-> raw conversion is the DBC linear rule: clamped, saturating, monotone

The model is `toPhysical` / `fromPhysical` of Model/Phys.lean over the software binary64 of Model/SoftFloat.lean
(compared bit-for-bit with the hardware on every run).  Proved here, for all bit patterns:
the order key of `math.Max`/`math.Min` results (`C09_max_key`, `C09_min_key`), hence that the final saturation step
of physical->raw returns a value between the raw bounds for every non-NaN intermediate value (`C09_saturates`) and
that clamping and saturation are monotone (`C09_clamp_monotone`).  Monotonicity of the rounded subtraction and
division and the two round-trip bounds are not proved here (see DESIGN.md C09): they are evaluated as an oracle on
the implementation's outputs on every run.
-/
namespace CanVerif

def NotNaN (x : F64) : Prop := f64IsNaN x = false

/-- `math.Max` of non-NaN operands is one of them, with the larger order key. -/
theorem C09_max_key (x y : F64) (hx : NotNaN x) (hy : NotNaN y) :
    (f64Max x y = x ∨ f64Max x y = y) ∧ f64Key (f64Max x y) = max (f64Key x) (f64Key y) := by
  unfold NotNaN at hx hy
  unfold f64Max
  simp only [hx, hy, Bool.or_self, Bool.false_eq_true, if_false]
  by_cases h1 : f64Key y < f64Key x
  · simp only [h1, if_true]; exact ⟨Or.inl trivial, by omega⟩
  · by_cases h2 : f64Key x < f64Key y
    · simp only [h1, h2, if_true, if_false]; exact ⟨Or.inr trivial, by omega⟩
    · simp only [h1, h2, if_false]
      split
      · exact ⟨Or.inr rfl, by omega⟩
      · exact ⟨Or.inl rfl, by omega⟩

/-- `math.Min` of non-NaN operands is one of them, with the smaller order key. -/
theorem C09_min_key (x y : F64) (hx : NotNaN x) (hy : NotNaN y) :
    (f64Min x y = x ∨ f64Min x y = y) ∧ f64Key (f64Min x y) = min (f64Key x) (f64Key y) := by
  unfold NotNaN at hx hy
  unfold f64Min
  simp only [hx, hy, Bool.or_self, Bool.false_eq_true, if_false]
  by_cases h1 : f64Key x < f64Key y
  · simp only [h1, if_true]; exact ⟨Or.inl trivial, by omega⟩
  · by_cases h2 : f64Key y < f64Key x
    · simp only [h1, h2, if_true, if_false]; exact ⟨Or.inr trivial, by omega⟩
    · simp only [h1, h2, if_false]
      split
      · exact ⟨Or.inl rfl, by omega⟩
      · exact ⟨Or.inr rfl, by omega⟩

theorem max_notNaN (x y : F64) (hx : NotNaN x) (hy : NotNaN y) : NotNaN (f64Max x y) := by
  rcases (C09_max_key x y hx hy).1 with h | h <;> rw [h] <;> assumption
theorem min_notNaN (x y : F64) (hx : NotNaN x) (hy : NotNaN y) : NotNaN (f64Min x y) := by
  rcases (C09_min_key x y hx hy).1 with h | h <;> rw [h] <;> assumption

theorem le_iff_key (a b : F64) (ha : NotNaN a) (hb : NotNaN b) : f64Le a b = true ↔ f64Key a ≤ f64Key b := by
  unfold NotNaN at ha hb
  unfold f64Le; simp [ha, hb]

/-- Saturation: `max lo (min hi r)` lies between the bounds for every non-NaN `r` (bounds non-NaN, lo ≤ hi);
this is the last step of physical->raw with lo/hi the raw bounds of the signal (or 0 / max unsigned). -/
theorem C09_saturates (lo hi r : F64) (hlo : NotNaN lo) (hhi : NotNaN hi) (hr : NotNaN r)
    (hle : f64Le lo hi = true) :
    f64Le lo (f64Max lo (f64Min hi r)) = true ∧ f64Le (f64Max lo (f64Min hi r)) hi = true ∧
    NotNaN (f64Max lo (f64Min hi r)) := by
  have hm := min_notNaN hi r hhi hr
  have k1 := (C09_min_key hi r hhi hr).2
  have k2 := (C09_max_key lo (f64Min hi r) hlo hm).2
  have hn := max_notNaN lo (f64Min hi r) hlo hm
  have hle' := (le_iff_key lo hi hlo hhi).1 hle
  refine ⟨(le_iff_key _ _ hlo hn).2 (by omega), (le_iff_key _ _ hn hhi).2 (by omega), hn⟩

/-- Clamping/saturation is monotone: `p ≤ q → max lo (min hi p) ≤ max lo (min hi q)`. -/
theorem C09_clamp_monotone (lo hi p q : F64) (hlo : NotNaN lo) (hhi : NotNaN hi) (hp : NotNaN p) (hq : NotNaN q)
    (hpq : f64Le p q = true) :
    f64Le (f64Max lo (f64Min hi p)) (f64Max lo (f64Min hi q)) = true := by
  have mp := min_notNaN hi p hhi hp
  have mq := min_notNaN hi q hhi hq
  have a1 := (C09_min_key hi p hhi hp).2
  have a2 := (C09_min_key hi q hhi hq).2
  have b1 := (C09_max_key lo _ hlo mp).2
  have b2 := (C09_max_key lo _ hlo mq).2
  have hpq' := (le_iff_key p q hp hq).1 hpq
  exact (le_iff_key _ _ (max_notNaN lo _ hlo mp) (max_notNaN lo _ hlo mq)).2 (by omega)

/-- The structure of the two conversions (the DBC linear rule with clamping and saturation), as equations. -/
theorem C09_toPhysical_rule (s : DSignal) (v : F64) :
    toPhysical s v = (let r := f64Add (f64Mul v s.scale) s.offset
                      if hasRange s then f64Max (f64Min r s.max) s.min else r) := rfl

theorem C09_fromPhysical_rule (s : DSignal) (p : F64) :
    fromPhysical s p =
      (let c := if hasRange s then f64Max (f64Min p s.max) s.min else p
       let r := f64Div (f64Sub c s.offset) s.scale
       if s.signed then f64Max (f64OfInt (sInt64 (minSigned s.length))) (f64Min (f64OfInt (sInt64 (maxSigned s.length))) r)
       else f64Max 0 (f64Min (f64OfNat (maxUnsigned s.length).toNat) r)) := rfl

/-- **Finding F3 as a theorem about the model**: 8-bit unsigned, factor -0.01, offset 100.  The physical value of raw 8
is converted back to raw 7: the quotient comes out just below 8 and the conversion truncates.  So "the reproduced value
differs by less than one factor step" is false of the model as it is of the code (the oracle reports it as the known
finding F3), and the round-trip clause can only be proved with a rounding conversion. -/
def f3Sig : DSignal :=
  { name := [], start := 0, length := 8, bigEndian := false, signed := false, mux := false, muxed := false, muxValue := 0,
    offset := 0x4059000000000000, scale := 0xbf847ae147ae147b, min := 0, max := 0, unit := [], receivers := [] }

theorem C09_F3_witness :
    f64ToIntType false 8 (fromPhysical f3Sig (toPhysical f3Sig (f64OfNat 8))) = 7 := by decide +kernel

end CanVerif
