import CanVerif.Lemmas.Frame
/-!
# C06  SocketCAN wire format equals Linux `struct can_frame` in both directions

A 16-byte block is a `BitVec 128` with byte `k` at bits `8k..8k+7`: the little-endian `can_id` word is
`b.setWidth 32`, `can_dlc` is `(b >>> 32).setWidth 8`, the three padding bytes are
`(b >>> 40).setWidth 24`, `data[8]` is `(b >>> 64).setWidth 64`.  The flag bits 31 (EFF), 30 (RTR), 29 (ERR)
and the masks are the values of `linux/can.h` (`CAN_EFF_FLAG`, `CAN_RTR_FLAG`, `CAN_ERR_FLAG`, `CAN_EFF_MASK`,
`CAN_SFF_MASK`), written here by hand; the harness cross-checks them against `golang.org/x/sys/unix`.
-/
namespace CanVerif

/-- Validation accepts exactly the frames whose ID fits its format and whose length is 0..8. -/
theorem C06_validate (f : Frame) :
    f.validate = true ↔
      (f.isExtended = true → f.id.toNat ≤ 0x1fffffff) ∧ (f.isExtended = false → f.id.toNat ≤ 0x7ff) ∧
      f.length.toNat ≤ 8 := by
  unfold Frame.validate maxExtendedID maxID
  cases he : f.isExtended <;> simp [BitVec.lt_def, BitVec.le_def] <;> omega

/-- Transmit layout: can_id = ID | EFF (bit 31 iff extended) | RTR (bit 30 iff remote); length in byte 4;
zeros in bytes 5..7; the 8 data bytes in bytes 8..15. -/
theorem C06_tx_layout (f : Frame) :
    (∀ i, ((wire f).setWidth 32).getLsbD i =
        (f.id.getLsbD i || (f.isRemote && decide (i = 30)) || (f.isExtended && decide (i = 31)))) ∧
    ((wire f) >>> 32).setWidth 8 = f.length ∧
    ((wire f) >>> 40).setWidth 24 = 0#24 ∧
    ((wire f) >>> 64).setWidth 64 = f.data := by
  have hm := marshal_unmarshal (encodeFrame f)
  unfold unmarshalBinary at hm
  have h1 := congrArg ScFrame.idAndFlags hm
  have h2 := congrArg ScFrame.dlc hm
  have h3 := congrArg ScFrame.data hm
  simp only at h1 h2 h3
  refine ⟨?_, ?_, ?_, ?_⟩
  · intro i
    unfold wire; rw [h1]; exact encodeFrame_bit f i
  · unfold wire; rw [h2]; rfl
  · unfold wire marshalBinary
    apply BitVec.eq_of_getLsbD_eq; intro i hi
    have a : (encodeFrame f).idAndFlags.getLsbD (40 + i) = false := BitVec.getLsbD_of_ge _ _ (by omega)
    have b : (encodeFrame f).dlc.getLsbD (40 + i - 32) = false := BitVec.getLsbD_of_ge _ _ (by omega)
    simp [BitVec.getLsbD_setWidth, BitVec.getLsbD_or, BitVec.getLsbD_shiftLeft, BitVec.getLsbD_ushiftRight, hi,
      show 40 + i < 128 by omega, show ¬ (40 + i < 32) by omega, show 40 + i < 64 by omega, a, b]
  · unfold wire; rw [h3]; rfl

/-- With a valid ID the flag bits are not disturbed by the ID: bit 31 set iff extended, bit 30 iff remote,
bit 29 (error flag) clear, and the low 29 bits are the ID. -/
theorem C06_tx_flags (f : Frame) (hv : f.validate = true) :
    ((wire f).setWidth 32).getLsbD 31 = f.isExtended ∧ ((wire f).setWidth 32).getLsbD 30 = f.isRemote ∧
    ((wire f).setWidth 32).getLsbD 29 = false ∧
    ∀ i, i < 29 → ((wire f).setWidth 32).getLsbD i = f.id.getLsbD i := by
  obtain ⟨hl, _, _, _⟩ := C06_tx_layout f
  have hid : f.id.toNat < 2 ^ 29 := by
    have := (C06_validate f).1 hv
    cases he : f.isExtended
    · have := this.2.1 he; omega
    · have := this.1 he; omega
  have z : ∀ i, 29 ≤ i → f.id.getLsbD i = false := fun i hi => bv_lt_two_pow f.id 29 i hid hi
  refine ⟨?_, ?_, ?_, ?_⟩
  · rw [hl 31, z 31 (by omega)]; simp
  · rw [hl 30, z 30 (by omega)]; simp
  · rw [hl 29, z 29 (by omega)]; simp
  · intro i hi; rw [hl i]
    have a : ¬ i = 30 := by omega
    have b : ¬ i = 31 := by omega
    simp [a, b]

/-- Receive: for every 16-byte block the frame has flags from bits 31/30, the ID masked to 29 or 11 bits,
the length byte and the 8 data bytes; it is an error frame iff bit 29 is set. -/
theorem C06_rx (b : BitVec 128) :
    (unwire b).isExtended = b.getLsbD 31 ∧ (unwire b).isRemote = b.getLsbD 30 ∧
    (∀ i, (unwire b).id.getLsbD i =
        (b.getLsbD i && decide (i < (if b.getLsbD 31 then 29 else 11)))) ∧
    (unwire b).length = (b >>> 32).setWidth 8 ∧ (unwire b).data = (b >>> 64).setWidth 64 ∧
    (unmarshalBinary b).isError = b.getLsbD 29 := by
  have hw : ∀ i, i < 32 → (unmarshalBinary b).idAndFlags.getLsbD i = b.getLsbD i := by
    intro i hi; unfold unmarshalBinary; simp [BitVec.getLsbD_setWidth, hi]
  refine ⟨?_, ?_, ?_, rfl, rfl, ?_⟩
  · show (unmarshalBinary b).isExtended = _
    rw [ScFrame.isExtended_eq, hw 31 (by omega)]
  · show (unmarshalBinary b).isRemote = _
    rw [ScFrame.isRemote_eq, hw 30 (by omega)]
  · intro i
    show (unmarshalBinary b).id.getLsbD i = _
    unfold ScFrame.id
    rw [ScFrame.isExtended_eq, hw 31 (by omega)]
    by_cases hi : i < 32
    · cases hb : b.getLsbD 31 <;> simp [BitVec.getLsbD_and, maskE_bit, maskS_bit, hw i hi]
    · have : (unmarshalBinary b).idAndFlags.getLsbD i = false := BitVec.getLsbD_of_ge _ _ (by omega)
      cases hb : b.getLsbD 31 <;> simp [BitVec.getLsbD_and, maskE_bit, maskS_bit, this] <;> omega
  · rw [ScFrame.isError_eq, hw 29 (by omega)]

/-- Error frames: class = can_id with the error flag cleared; detail bytes at the offsets of
linux/can/error.h: data[0] lost-arbitration bit, data[1] controller, data[2] protocol type,
data[3] protocol location, data[4] transceiver, data[5..7] controller specific. -/
theorem C06_err (b : BitVec 128) :
    let e := decodeErrorFrame (unmarshalBinary b)
    (∀ i, e.errorClass.getLsbD i = (decide (i < 32) && b.getLsbD i && !decide (i = 29))) ∧
    e.lostArbitrationBit = (b >>> 64).setWidth 8 ∧ e.controllerError = (b >>> 72).setWidth 8 ∧
    e.protocolError = (b >>> 80).setWidth 8 ∧ e.protocolErrorLocation = (b >>> 88).setWidth 8 ∧
    e.transceiverError = (b >>> 96).setWidth 8 ∧ e.csi = (b >>> 104).setWidth 24 := by
  have hb : ∀ k n, 8 * k + n ≤ 64 → ∀ i, i < n →
      (((b >>> 64).setWidth 64 >>> (8 * k)).setWidth n).getLsbD i = ((b >>> (64 + 8 * k)).setWidth n).getLsbD i := by
    intro k n hk i hi
    simp [BitVec.getLsbD_setWidth, BitVec.getLsbD_ushiftRight, hi, show 8 * k + i < 64 by omega]
    congr 1; omega
  refine ⟨?_, ?_, ?_, ?_, ?_, ?_, ?_⟩
  · intro i
    unfold decodeErrorFrame unmarshalBinary
    simp only [BitVec.getLsbD_and, BitVec.getLsbD_not, flagErr_bit, BitVec.getLsbD_setWidth]
    by_cases hi : i < 32 <;> by_cases h29 : i = 29 <;> simp [hi, h29]
  all_goals
    apply BitVec.eq_of_getLsbD_eq; intro i hi
    unfold decodeErrorFrame unmarshalBinary dataByte
  · exact hb 0 8 (by omega) i hi
  · exact hb 1 8 (by omega) i hi
  · exact hb 2 8 (by omega) i hi
  · exact hb 3 8 (by omega) i hi
  · exact hb 4 8 (by omega) i hi
  · exact hb 5 24 (by omega) i hi

/-- Every frame that passes validation survives transmit then receive unchanged. -/
theorem C06_roundtrip (f : Frame) (hv : f.validate = true) : unwire (wire f) = f := by
  obtain ⟨h31, h30, h29, hlow⟩ := C06_tx_flags f hv
  obtain ⟨hl, hlen, _, hdata⟩ := C06_tx_layout f
  obtain ⟨re, rr, rid, rlen, rdata, _⟩ := C06_rx (wire f)
  have w32 : ∀ i, i < 32 → (wire f).getLsbD i = ((wire f).setWidth 32).getLsbD i := by
    intro i hi; simp [BitVec.getLsbD_setWidth, hi]
  have hval := (C06_validate f).1 hv
  cases f with
  | mk id len data rem ext =>
  simp only at *
  have e1 : (unwire (wire ⟨id, len, data, rem, ext⟩)).isExtended = ext := by rw [re, w32 31 (by omega), h31]
  have e2 : (unwire (wire ⟨id, len, data, rem, ext⟩)).isRemote = rem := by rw [rr, w32 30 (by omega), h30]
  have e3 : (unwire (wire ⟨id, len, data, rem, ext⟩)).length = len := by rw [rlen, hlen]
  have e4 : (unwire (wire ⟨id, len, data, rem, ext⟩)).data = data := by rw [rdata, hdata]
  have e5 : (unwire (wire ⟨id, len, data, rem, ext⟩)).id = id := by
    apply BitVec.eq_of_getLsbD_eq; intro i hi
    rw [rid i, w32 31 (by omega), h31, w32 i hi]
    by_cases hext : ext = true
    · have hidlt : id.toNat < 2 ^ 29 := by have := hval.1 hext; omega
      by_cases h29' : i < 29
      · rw [hlow i h29']; simp [h29', hext]
      · rw [bv_lt_two_pow id 29 i hidlt (by omega)]; simp [h29', hext]
    · have hext' : ext = false := by simpa using hext
      have hidlt : id.toNat < 2 ^ 11 := by have := hval.2.1 hext'; omega
      by_cases h11 : i < 11
      · rw [hlow i (by omega)]; simp [h11, hext']
      · rw [bv_lt_two_pow id 11 i hidlt (by omega)]; simp [h11, hext']
  generalize unwire (wire ⟨id, len, data, rem, ext⟩) = g at *
  cases g
  simp_all

/-- non-vacuity: a valid extended remote frame, and a valid standard data frame. -/
example : (Frame.mk 0x1fffffff#32 8#8 0#64 true true).validate = true ∧
    (Frame.mk 0x7ff#32 0#8 0xdeadbeef#64 false false).validate = true := by decide

end CanVerif
