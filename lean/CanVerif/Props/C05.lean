import CanVerif.Model.Compile
/-!
# C05  Compiling a DBC yields the database it denotes, in canonical order

Proved here: the comparators are strict orders that are total on distinct keys (so the canonical order exists and
is unique), the model's sort returns a sorted permutation, and *any* two sorted permutations of the same items with
pairwise distinct keys are equal (`C05_sorted_unique`) — hence the result of sorting does not depend on the order
the items were given in, nor on which correct sorting algorithm is used (Go's `sort.Slice` is trusted only to return
a sorted permutation).  The denotation itself (every field as written, one warning per dangling reference) is decided
on every run against an expected database computed by the generator independently of the compiler, over the
original file and its class permutations (bin/props.py C05).  `C05_perm` for metadata-line order is not proved.
-/
namespace CanVerif

theorem signalLess_iff (a b : DSignal) :
    signalLess a b = true ↔ (a.start < b.start ∨ (a.start = b.start ∧ a.muxValue < b.muxValue)) := by
  unfold signalLess
  by_cases h : a.start = b.start
  · simp [h]
  · simp [h]

theorem signalLess_false_iff (a b : DSignal) :
    signalLess a b = false ↔ ¬ (a.start < b.start ∨ (a.start = b.start ∧ a.muxValue < b.muxValue)) := by
  rw [← signalLess_iff]; simp

/-- the signal comparator (start bit, then multiplexer value) is a strict weak order -/
theorem C05_less_swo :
    (∀ a : DSignal, signalLess a a = false) ∧
    (∀ a b : DSignal, signalLess a b = true → signalLess b a = false) ∧
    (∀ a b c : DSignal, signalLess a b = true → signalLess b c = true → signalLess a c = true) ∧
    (∀ a b c : DSignal, signalLess a b = false → signalLess b a = false → signalLess b c = false → signalLess c b = false →
        signalLess a c = false ∧ signalLess c a = false) := by
  refine ⟨?_, ?_, ?_, ?_⟩
  · intro a; rw [signalLess_false_iff]; omega
  · intro a b; rw [signalLess_iff, signalLess_false_iff]; omega
  · intro a b c; rw [signalLess_iff, signalLess_iff, signalLess_iff]; omega
  · intro a b c
    rw [signalLess_false_iff, signalLess_false_iff, signalLess_false_iff, signalLess_false_iff, signalLess_false_iff,
      signalLess_false_iff]
    omega

/-- ... and it separates signals with different (start, multiplexer value) keys -/
theorem C05_less_total (a b : DSignal) (h : (a.start, a.muxValue) ≠ (b.start, b.muxValue)) :
    signalLess a b = true ∨ signalLess b a = true := by
  rw [signalLess_iff, signalLess_iff]
  have : a.start ≠ b.start ∨ a.muxValue ≠ b.muxValue := by
    by_cases h1 : a.start = b.start
    · right; intro e; exact h (by rw [h1, e])
    · left; exact h1
  omega

variable {α : Type}

/-- sortedness w.r.t. a strict comparator: no later element is strictly less than an earlier one -/
def SortedBy (lt : α → α → Bool) (l : List α) : Prop := l.Pairwise (fun a b => lt b a = false)

theorem insertBy_perm (lt : α → α → Bool) (x : α) (l : List α) : (insertBy lt x l).Perm (x :: l) := by
  induction l with
  | nil => exact List.Perm.refl _
  | cons y ys ih =>
    unfold insertBy
    split
    · exact List.Perm.refl _
    · exact (List.Perm.cons y ih).trans (List.Perm.swap x y ys)

theorem sortBy_perm (lt : α → α → Bool) (l : List α) : (sortBy lt l).Perm l := by
  induction l with
  | nil => exact List.Perm.refl _
  | cons x xs ih => exact (insertBy_perm lt x _).trans (List.Perm.cons x ih)

/-- The sort returns a permutation of its input: nothing is lost or duplicated (one node per declared node, one
message per message definition, one signal per signal definition). -/
theorem C05_sort_perm (lt : α → α → Bool) (l : List α) : (sortBy lt l).Perm l := sortBy_perm lt l

theorem insertBy_sorted (lt : α → α → Bool)
    (asym : ∀ a b, lt a b = true → lt b a = false)
    (trans : ∀ a b c, lt a b = true → lt b c = true → lt a c = true)
    (x : α) (l : List α) (h : SortedBy lt l) : SortedBy lt (insertBy lt x l) := by
  induction l with
  | nil => exact List.pairwise_singleton _ _
  | cons y ys ih =>
    unfold insertBy
    have hy := List.pairwise_cons.mp h
    split
    · next hxy =>
      refine List.pairwise_cons.mpr ⟨?_, h⟩
      intro z hz
      rcases List.mem_cons.mp hz with rfl | hz
      · exact asym _ _ hxy
      · -- lt z x must be false: otherwise lt z y by transitivity, contradicting sortedness
        cases hzx : lt z x with
        | false => rfl
        | true =>
          have := trans z x y hzx hxy
          have := hy.1 z hz
          simp_all
    · next hxy =>
      have hxy' : lt x y = false := by simpa using hxy
      refine List.pairwise_cons.mpr ⟨?_, ih hy.2⟩
      intro z hz
      have hp := (insertBy_perm lt x ys).mem_iff.mp hz
      rcases List.mem_cons.mp hp with rfl | hz'
      · exact hxy'
      · exact hy.1 z hz'

/-- The model's sort output is sorted (for a strict weak order). -/
theorem C05_sort_sorted (lt : α → α → Bool)
    (asym : ∀ a b, lt a b = true → lt b a = false)
    (trans : ∀ a b c, lt a b = true → lt b c = true → lt a c = true)
    (l : List α) : SortedBy lt (sortBy lt l) := by
  induction l with
  | nil => exact List.Pairwise.nil
  | cons x xs ih => exact insertBy_sorted lt asym trans x _ ih

/-- Uniqueness of the canonical order: two sorted permutations of each other, whose elements are pairwise
separated by the comparator (distinct keys), are equal.  Consequently reordering the definitions of a file cannot
change the sorted result, whatever correct sort is used. -/
theorem C05_sorted_unique (lt : α → α → Bool) (l₁ l₂ : List α) (hp : l₁.Perm l₂)
    (h₁ : SortedBy lt l₁) (h₂ : SortedBy lt l₂)
    (total : ∀ a ∈ l₁, ∀ b ∈ l₁, a = b ∨ lt a b = true ∨ lt b a = true)
    (nodup : l₁.Nodup) : l₁ = l₂ := by
  induction l₁ generalizing l₂ with
  | nil => exact (List.Perm.nil_eq hp)
  | cons x xs ih =>
    cases l₂ with
    | nil => exact absurd hp.symm (List.Perm.nil_eq · |> fun e => by cases e)
    | cons y ys =>
      have hx := List.pairwise_cons.mp h₁
      have hy := List.pairwise_cons.mp h₂
      have hnd := List.nodup_cons.mp nodup
      -- x = y: both are minimal
      have hxy : x = y := by
        have hyin : y ∈ x :: xs := hp.mem_iff.mpr (List.mem_cons_self)
        have hxin : x ∈ y :: ys := hp.mem_iff.mp (List.mem_cons_self)
        rcases List.mem_cons.mp hyin with e | hyxs
        · exact e.symm
        · rcases List.mem_cons.mp hxin with e | hxys
          · exact e
          · -- y after x in l₁ ⇒ lt y x = false; x after y in l₂ ⇒ lt x y = false; but distinct keys are separated
            have a := hx.1 y hyxs
            have b := hy.1 x hxys
            rcases total x List.mem_cons_self y hyin with e | e | e
            · exact e
            · simp_all
            · simp_all
      subst hxy
      have hp' : xs.Perm ys := List.Perm.cons_inv hp
      rw [ih ys hp' hx.2 hy.2 (fun a ha b hb => total a (List.mem_cons_of_mem _ ha) b (List.mem_cons_of_mem _ hb)) hnd.2]

end CanVerif
