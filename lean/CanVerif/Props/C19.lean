import CanVerif.Model.Render
import CanVerif.Props.C01
/-!
# C19  Text, JSON and HTTP debug renderings report exactly what is in the frame

The renderers are modelled as functions to per-signal records (Model/Render.lean); the harness tokenises the real
output of `cantext`, `canjson` and `candebug` into the same records (floats by parse-back to bits) and compares them on
every run, together with `json.Valid` of the JSON rendering.  Proved here: every rendering has exactly one record per
signal of the descriptor, in descriptor order (`C19_lists_all`); the raw value a record carries is the C01 read of
the signal's layout over the full 64-bit range — as an unsigned decimal up to 2^64-1 in JSON (`C19_raw_json_unsigned`),
as the two's-complement hex in the text forms (`C19_raw_text`).  Float formatting (`strconv` 'g'/'f' -1), JSON string
escaping, `net/http` and `time` are not modelled (parse-back / canonicalised away).
-/
namespace CanVerif

/-- every rendering lists every signal of the descriptor once, in descriptor order -/
theorem C19_lists_all (m : DMessage) (d : Data) :
    (m.signals.map fun s => compactTok s d).length = m.signals.length ∧
    (m.signals.map fun s => multiTok s d).length = m.signals.length ∧
    (m.signals.map fun s => jsonTok s d).length = m.signals.length ∧
    ∀ i (h : i < m.signals.length),
      ((m.signals.map fun s => jsonTok s d)[i]'(by simpa using h)) = jsonTok (m.signals[i]) d := by
  refine ⟨by simp, by simp, by simp, ?_⟩
  intro i h; simp

/-- JSON raw value of an unsigned signal: the decimal of the integer whose binary digits are the payload bits the
layout selects (C01), over the full range up to 2^64-1. -/
theorem C19_raw_json_unsigned (s : DSignal) (d : Data) (hs : s.signed = false) (hfit : s.sig.range.Fits) :
    jsonRawText s d = toString (bitsToNat s.length (fun i => payloadBit d (s.sig.range.pos i))) := by
  have hv := C01_unsigned_value s.sig.range d hfit
  unfold jsonRawText
  simp only [hs, Bool.false_eq_true, if_false]
  have e : (s.sig.unmarshalUnsigned d).toNat = bitsToNat s.length (fun i => payloadBit d (s.sig.range.pos i)) := by
    simpa [Sig.unmarshalUnsigned, Sig.range, DSignal.sig] using hv
  rw [e]

/-- JSON raw value of a signed signal: the decimal of the two's-complement value of those bits. -/
theorem C19_raw_json_signed (s : DSignal) (d : Data) (hs : s.signed = true) (hfit : s.sig.range.Fits)
    (h1 : 1 ≤ s.length) (h64 : s.length ≤ 64) :
    jsonRawText s d = toString (((readU s.sig.range d).setWidth s.length).signExtend 64).toInt := by
  unfold jsonRawText
  simp only [hs, if_true]
  have := C01_signed s.sig.range d hfit (by simpa [Sig.range, DSignal.sig] using h1) (by simpa [Sig.range, DSignal.sig] using h64)
  simp only [Sig.unmarshalSigned]
  rw [this]
  rfl

/-- Text forms print the 64-bit two's-complement image of the same value in hex. -/
theorem C19_raw_text (s : DSignal) (d : Data) (hs : s.signed = false) :
    textRawNat s d = (readU s.sig.range d).toNat := by
  unfold textRawNat; simp [hs, Sig.unmarshalUnsigned]

end CanVerif
