/-
C01 for the code as translated (T1).  `CanVerif.Gen.Go.*` are the Lean definitions written by harness/cmd/go2lean from
/repo's data.go and internal/reinterpret/reinterpret.go on every run; `Bridge/DataGo.lean` proves them equal to the model
for all arguments; here the property theorems of Props/C01.lean are restated about them.  Arguments are Go's own:
the payload is the [8]byte (as a 64-bit vector, byte k = bits 8k..8k+7), start and length are uint8.

Every statement also says that the translated function does not panic (`_ok = true`).
Axioms: those of Props/C01.lean plus the `bv_decide` certificate axioms of the bridge (listed in the evidence).
-/
import CanVerif.Props.C01
import CanVerif.Bridge.DataGo

namespace CanVerif
open CanVerif.Gen.Go CanVerif.Bridge

/-- little-endian unsigned read of the translated code: value bit `i` is payload bit `start+i` (any start, any length) -/
theorem C01_code_le (d : BitVec 64) (s l : BitVec 8) (i : Nat) :
    (Data_UnsignedBitsLittleEndian_ret d s l).getLsbD i = (decide (i < l.toNat) && payloadBit d (s.toNat + i)) ∧
    Data_UnsignedBitsLittleEndian_ok d s l = true := by
  rw [(bridge_readULE d s l).1]; exact ⟨C01_le d s.toNat l.toNat i, (bridge_readULE d s l).2⟩

/-- big-endian unsigned read of the translated code, for every fitting range -/
theorem C01_code_be (d : BitVec 64) (s l : BitVec 8) (i : Nat) (h : FitsBE s.toNat l.toNat) :
    (Data_UnsignedBitsBigEndian_ret d s l).getLsbD i =
      (decide (i < l.toNat) && payloadBit d (bePos s.toNat (l.toNat - 1 - i))) ∧
    Data_UnsignedBitsBigEndian_ok d s l = true := by
  rw [(bridge_readUBE d s l).1]; exact ⟨C01_be d s.toNat l.toNat i h, (bridge_readUBE d s l).2⟩

/-- the translated readers of one range, by byte order -/
def codeReadU (be : Bool) (d : BitVec 64) (s l : BitVec 8) : BitVec 64 :=
  if be then Data_UnsignedBitsBigEndian_ret d s l else Data_UnsignedBitsLittleEndian_ret d s l
def codeReadS (be : Bool) (d : BitVec 64) (s l : BitVec 8) : BitVec 64 :=
  if be then Data_SignedBitsBigEndian_ret d s l else Data_SignedBitsLittleEndian_ret d s l

theorem codeReadU_eq (be : Bool) (d : BitVec 64) (s l : BitVec 8) :
    codeReadU be d s l = readU ⟨be, s.toNat, l.toNat⟩ d := by
  unfold codeReadU readU; cases be <;> simp [(bridge_readUBE d s l).1, (bridge_readULE d s l).1]

theorem codeReadS_eq (be : Bool) (d : BitVec 64) (s l : BitVec 8) :
    codeReadS be d s l = readS ⟨be, s.toNat, l.toNat⟩ d := by
  unfold codeReadS readS; cases be <;> simp [(bridge_readSBE d s l).1, (bridge_readSLE d s l).1]

/-- the integer returned by the translated unsigned readers is the one whose binary digits are the selected payload bits -/
theorem C01_code_unsigned_value (be : Bool) (d : BitVec 64) (s l : BitVec 8) (h : (Range.mk be s.toNat l.toNat).Fits) :
    (codeReadU be d s l).toNat = bitsToNat l.toNat (fun i => payloadBit d ((Range.mk be s.toNat l.toNat).pos i)) := by
  rw [codeReadU_eq]; exact C01_unsigned_value _ d h

/-- the translated signed readers return the two's-complement reading of exactly those bits -/
theorem C01_code_signed (be : Bool) (d : BitVec 64) (s l : BitVec 8) (h : (Range.mk be s.toNat l.toNat).Fits)
    (hl1 : 1 ≤ l.toNat) (hl : l.toNat ≤ 64) :
    codeReadS be d s l = ((codeReadU be d s l).setWidth l.toNat).signExtend 64 := by
  rw [codeReadS_eq, codeReadU_eq]; exact C01_signed _ d h hl1 hl

/-- the translated readers never panic, for any argument whatsoever -/
theorem C01_code_no_panic (d : BitVec 64) (s l : BitVec 8) :
    Data_UnsignedBitsLittleEndian_ok d s l = true ∧ Data_UnsignedBitsBigEndian_ok d s l = true ∧
    Data_SignedBitsLittleEndian_ok d s l = true ∧ Data_SignedBitsBigEndian_ok d s l = true :=
  ⟨(bridge_readULE d s l).2, (bridge_readUBE d s l).2, (bridge_readSLE d s l).2, (bridge_readSBE d s l).2⟩

/-- `Data.Bit` of the translated code -/
theorem C01_code_bit (d : BitVec 64) (i : BitVec 8) :
    Data_Bit_ret d i = (decide (i.toNat ≤ 63) && payloadBit d i.toNat) ∧ Data_Bit_ok d i = true := by
  rw [(bridge_getBit d i).1]; exact ⟨C01_bit d i.toNat, (bridge_getBit d i).2⟩

end CanVerif
