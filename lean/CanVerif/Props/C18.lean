import CanVerif.Model.Lint
/-!
# C18  Every lint analyzer reports exactly the violations of its rule and never fails

The analyzers are modelled as pure total functions `List UInt8 → List Def → List Diag` (Model/Lint.lean): totality
(no error, no panic, also on the empty file), purity (the file is not modified, no dependence on other analyzers or
on run order) hold by construction of the model and are compared with the real analyzers on every run (file dumped
before/after, analyzers run in two orders).  For the analyzers written as filters the model *is* the declarative
rule ("report the definition/signal iff the predicate holds, once"); for the analyzers that the Go code implements
with running state (sets, running minimum, first-match search) the theorems below prove the state-based scan equal
to the declarative rule.
-/
namespace CanVerif

/-! ### definitiontypeorder: "a definition is reported iff some later definition has a strictly smaller type order" -/

/-- declarative rule, processing from the end of the file: `later` are the definitions after `d` -/
def orderRule : List Def → List Def → List Diag
  | [], _ => []
  | d :: rest, later =>
    (if later.any (fun e => decide (orderOf e < orderOf d)) then [⟨d.pos, "definition out of order"⟩] else []) ++
      orderRule rest (d :: later)

def minOrderOf (later : List Def) : Nat := later.foldr (fun e m => min (orderOf e) m) maxU64

theorem orderOf_le (d : Def) : orderOf d ≤ maxU64 := by
  cases d <;> simp [orderOf, maxU64]

theorem any_lt_iff_min (later : List Def) (d : Def) :
    later.any (fun e => decide (orderOf e < orderOf d)) = decide (minOrderOf later < orderOf d) := by
  induction later with
  | nil =>
    have := orderOf_le d
    have h : ¬ (maxU64 < orderOf d) := by omega
    simp [minOrderOf, h]
  | cons e es ih =>
    have hm : minOrderOf (e :: es) = min (orderOf e) (minOrderOf es) := rfl
    rw [List.any_cons, ih, hm]
    by_cases h1 : orderOf e < orderOf d <;> by_cases h2 : minOrderOf es < orderOf d
    · have : min (orderOf e) (minOrderOf es) < orderOf d := by omega
      simp [h1, h2, this]
    · have : min (orderOf e) (minOrderOf es) < orderOf d := by omega
      simp [h1, h2, this]
    · have : min (orderOf e) (minOrderOf es) < orderOf d := by omega
      simp [h1, h2, this]
    · have : ¬ min (orderOf e) (minOrderOf es) < orderOf d := by omega
      simp [h1, h2, this]

theorem C18_definitiontypeorder_scan (rev later : List Def) :
    orderScan rev (minOrderOf later) = orderRule rev later := by
  induction rev generalizing later with
  | nil => rfl
  | cons d rest ih =>
    rw [orderScan, orderRule, any_lt_iff_min]
    by_cases h : orderOf d > minOrderOf later
    · have h' : minOrderOf later < orderOf d := h
      have e : minOrderOf (d :: later) = minOrderOf later := by
        show min (orderOf d) (minOrderOf later) = minOrderOf later
        omega
      simp only [h, h', if_true, decide_true, List.singleton_append]
      rw [← e, ih (d :: later)]
    · have h' : ¬ minOrderOf later < orderOf d := h
      have e : minOrderOf (d :: later) = orderOf d := by
        show min (orderOf d) (minOrderOf later) = orderOf d
        omega
      simp only [h, h', if_false, decide_false, List.nil_append, Bool.false_eq_true]
      rw [← e, ih (d :: later)]

/-- The analyzer (which scans backwards with a running minimum) reports exactly the rule's diagnostics. -/
theorem C18_definitiontypeorder (data : List UInt8) (defs : List Def) :
    runDefinitiontypeorder data defs = orderRule defs.reverse [] :=
  C18_definitiontypeorder_scan defs.reverse []

/-! ### unique IDs / names: "an item is reported iff an earlier item has the same key" -/

def dupRule {κ : Type} [BEq κ] (msg : String) : List (Pos × κ) → List κ → List Diag
  | [], _ => []
  | (p, k) :: rest, earlier =>
    (if earlier.contains k then [⟨p, msg⟩] else []) ++ dupRule msg rest (k :: earlier)

theorem C18_uniqueid_scan (l : List (Pos × Nat)) (seen earlier : List Nat)
    (h : ∀ x, x ∈ seen ↔ x ∈ earlier) :
    uniqIdScan l seen = dupRule "non-unique message ID" l earlier := by
  induction l generalizing seen earlier with
  | nil => rfl
  | cons a rest ih =>
    obtain ⟨p, id⟩ := a
    have hs : seen.contains id = earlier.contains id := by
      simp only [List.contains_eq_mem]; exact decide_eq_decide.mpr (h id)
    rw [uniqIdScan, dupRule, hs]
    by_cases hc : earlier.contains id = true
    · simp only [hc, if_true, List.singleton_append]
      congr 1
      apply ih
      intro x
      have hmem : id ∈ earlier := by simpa using hc
      rw [h x]
      constructor
      · intro hx; exact List.mem_cons_of_mem _ hx
      · intro hx
        rcases List.mem_cons.mp hx with rfl | hx
        · exact hmem
        · exact hx
    · simp only [hc, if_false, List.nil_append, Bool.false_eq_true]
      apply ih
      intro x
      simp only [List.mem_cons, h x]

theorem C18_uniquename_scan (msg : String) (l : List (Pos × BStr)) (seen earlier : List BStr)
    (h : ∀ x, x ∈ seen ↔ x ∈ earlier) :
    uniqNameScan msg l seen = dupRule msg l earlier := by
  induction l generalizing seen earlier with
  | nil => rfl
  | cons a rest ih =>
    obtain ⟨p, id⟩ := a
    have hs : seen.contains id = earlier.contains id := by
      simp only [List.contains_eq_mem]; exact decide_eq_decide.mpr (h id)
    rw [uniqNameScan, dupRule, hs]
    by_cases hc : earlier.contains id = true
    · simp only [hc, if_true, List.singleton_append]
      congr 1
      apply ih
      intro x
      have hmem : id ∈ earlier := by simpa using hc
      rw [h x]
      constructor
      · intro hx; exact List.mem_cons_of_mem _ hx
      · intro hx
        rcases List.mem_cons.mp hx with rfl | hx
        · exact hmem
        · exact hx
    · simp only [hc, if_false, List.nil_append, Bool.false_eq_true]
      apply ih
      intro x
      simp only [List.mem_cons, h x]

/-- uniquemessageids: message k (the independent-signals pseudo message excluded) is reported iff an earlier such
message has the same ID. -/
theorem C18_uniquemessageids (data : List UInt8) (defs : List Def) :
    runUniquemessageids data defs =
      dupRule "non-unique message ID"
        ((messagesOf defs).filterMap fun (p, id, n, sz, _, _) => if isIndependent id n sz then none else some (p, id)) [] :=
  C18_uniqueid_scan _ [] [] (fun _ => Iff.rfl)

/-- uniquenodenames: a node name is reported (at its `BU_` definition) iff it already occurred earlier. -/
theorem C18_uniquenodenames (data : List UInt8) (defs : List Def) :
    runUniquenodenames data defs =
      dupRule "non-unique node name"
        (defs.flatMap fun d => match d with | .nodes p ns => ns.map fun n => (p, n) | _ => []) [] :=
  C18_uniquename_scan _ _ [] [] (fun _ => Iff.rfl)

/-! ### multiplexedsignals: the switch is the first `M` signal; every further `M` signal is reported once -/

def muxFirstDiag (s : SignalDef) : List Diag :=
  if s.signed then [⟨s.pos, "signed multiplexer switch"⟩]
  else if s.isMuxed then [⟨s.pos, "can't be multiplexer and multiplexed"⟩] else []

def muxRule : List SignalDef → Option SignalDef → List Diag
  | [], _ => []
  | s :: rest, none => if s.isMux then muxFirstDiag s ++ muxRule rest (some s) else muxRule rest none
  | s :: rest, some m =>
    if s.isMux then ⟨s.pos, "more than one multiplexer switch"⟩ :: muxRule rest (some m) else muxRule rest (some m)

def muxSwitch : List SignalDef → Option SignalDef → Option SignalDef
  | [], sw => sw
  | s :: rest, none => if s.isMux then muxSwitch rest (some s) else muxSwitch rest none
  | _ :: rest, some m => muxSwitch rest (some m)

theorem C18_mux_locate (sigs : List SignalDef) (sw : Option SignalDef) (acc : List Diag) :
    muxLocate sigs sw acc = (muxSwitch sigs sw, acc.reverse ++ muxRule sigs sw) := by
  induction sigs generalizing sw acc with
  | nil => simp [muxLocate, muxSwitch, muxRule]
  | cons s rest ih =>
    conv => lhs; unfold muxLocate
    cases sw with
    | some m =>
      by_cases hm : s.isMux = true
      · simp [hm, ih, muxRule, muxSwitch]
      · simp [hm, ih, muxRule, muxSwitch]
    | none =>
      by_cases hm : s.isMux = true
      · by_cases hs : s.signed = true
        · simp [hm, hs, ih, muxFirstDiag, muxRule, muxSwitch]
        · by_cases hx : s.isMuxed = true
          · simp [hm, hs, hx, ih, muxFirstDiag, muxRule, muxSwitch]
          · simp [hm, hs, hx, ih, muxFirstDiag, muxRule, muxSwitch]
      · simp [hm, ih, muxRule, muxSwitch]

/-- with no switch given, the located switch is the first signal marked `M` -/
theorem C18_mux_switch_is_first (sigs : List SignalDef) :
    muxSwitch sigs none = sigs.find? (fun s => s.isMux) := by
  have hsome : ∀ (l : List SignalDef) (m : SignalDef), muxSwitch l (some m) = some m := by
    intro l m
    induction l with
    | nil => rfl
    | cons s rest ih => simp [muxSwitch, ih]
  induction sigs with
  | nil => rfl
  | cons s rest ih =>
    by_cases hm : s.isMux = true
    · simp [muxSwitch, List.find?, hm, hsome]
    · simp [muxSwitch, List.find?, hm, ih]

/-! ### clean files and degenerate files -/

/-- every analyzer is total on the empty file and reports nothing there except the missing required definitions -/
theorem C18_empty_file :
    (allAnalyzers.map fun a => (a.1, a.2 [] [])) =
      (allAnalyzers.map fun a => (a.1, if a.1 = "requireddefinitions" then
          [⟨⟨0, 1, 1⟩, "missing required definition(s)"⟩] else [])) := by decide

/-- singletondefinitions: for each singleton kind exactly the second and later definitions of that kind -/
theorem C18_singleton_count (data : List UInt8) (defs : List Def) :
    (runSingletondefinitions data defs).length =
      (countWhere defs isVersion - 1) + (countWhere defs isNewSymbols - 1) + (countWhere defs isBitTiming - 1) +
      (countWhere defs isNodes - 1) := by
  simp [runSingletondefinitions, countWhere, List.length_drop]
  omega

/-- requireddefinitions: one diagnostic iff `BS_` or `BU_` is missing, none otherwise; total on the empty file -/
theorem C18_required (data : List UInt8) (defs : List Def) :
    (runRequireddefinitions data defs).length =
      if countWhere defs isBitTiming = 0 ∨ countWhere defs isNodes = 0 then 1 else 0 := by
  unfold runRequireddefinitions
  by_cases h1 : countWhere defs isBitTiming = 0 <;> by_cases h2 : countWhere defs isNodes = 0 <;> simp [h1, h2]

end CanVerif
