import CanVerif.Model.Runner
/-!
# C13  Runner touches node state only under the node lock and calls hooks unlocked

The runner's code regions are extracted from `pkg/canrunner/run.go` on every run (harness/cmd/extract ->
`CanVerif/Gen/RunnerProg.lean`) as atom sequences; `Props/C13Code.lean` checks `wellLocked` on them by `decide`.
Here: what `wellLocked` guarantees, for every interleaving of any number of threads (runner goroutines and
application goroutines alike) that each run a well-locked region under one mutex: whenever a thread is about to access
node state it is the holder of the lock, and whenever it is about to call a hook, transmit, or leave the region it
does not hold it (`C13_sound`).
-/
namespace CanVerif

/-- what the static discipline says about the lock state in front of every atom of a region -/
theorem wellLocked_at (p : List Atom) (held : Bool) (h : wellLockedFrom held p = true) (pc : Nat) :
    (∀ w, p[pc]? = some (.access w) → heldAfter p pc held = true) ∧
    (p[pc]? = some .hook ∨ p[pc]? = some .tx ∨ p[pc]? = some .retIf ∨ p[pc]? = some .lock ∨ p[pc]? = none →
        heldAfter p pc held = false) ∧
    (p[pc]? = some .unlock → heldAfter p pc held = true) := by
  induction p generalizing held pc with
  | nil =>
    simp only [wellLockedFrom, Bool.not_eq_true'] at h
    refine ⟨by simp, ?_, by simp⟩
    intro _; cases pc <;> simp [heldAfter, h]
  | cons a r ih =>
    cases pc with
    | zero =>
      cases a <;> simp_all [wellLockedFrom, heldAfter]
    | succ n =>
      cases a <;> simp only [wellLockedFrom, Bool.and_eq_true, Bool.not_eq_true'] at h <;>
        simp only [List.getElem?_cons_succ, heldAfter]
      case lock => exact ih true h.2 n
      case unlock => exact ih false h.2 n
      case access w => exact ih held h.2 n
      case hook => exact ih held h.2 n
      case tx => exact ih held h.2 n
      case retIf => exact ih held h.2 n
      case other w => exact ih held h n

variable {T : Type} [DecidableEq T]

/-- the invariant: a thread's own view "I hold the lock" coincides with being the holder of the mutex -/
def LockInv (s : Sys T) : Prop := ∀ t, heldAfter (s.prog t) (s.pc t) false = true ↔ s.holder = some t

def atomEffect : Atom → Bool → Bool
  | .lock, _ => true
  | .unlock, _ => false
  | _, h => h

theorem heldAfter_succ (p : List Atom) (pc : Nat) (h0 : Bool) (a : Atom) (ha : p[pc]? = some a) :
    heldAfter p (pc + 1) h0 = atomEffect a (heldAfter p pc h0) := by
  induction p generalizing pc h0 with
  | nil => simp at ha
  | cons b r ih =>
    cases pc with
    | zero =>
      simp only [List.getElem?_cons_zero, Option.some.injEq] at ha
      subst ha
      cases b <;> simp [heldAfter, atomEffect]
    | succ n =>
      simp only [List.getElem?_cons_succ] at ha
      cases b <;> simp only [heldAfter] <;> exact ih n _ ha

theorem lockInv_step (s s' : Sys T) (t : T) (hw : ∀ u, wellLocked (s.prog u) = true) (hi : LockInv s)
    (hs : s.step t = some s') : LockInv s' := by
  unfold Sys.step at hs
  have hwt := wellLocked_at (s.prog t) false (hw t) (s.pc t)
  cases ha : (s.prog t)[s.pc t]? with
  | none =>
    rw [ha] at hs
    injection hs with hs; subst hs
    intro u
    by_cases hu : u = t
    · subst hu
      have hf := hwt.2.1 (Or.inr (Or.inr (Or.inr (Or.inr ha))))
      have := (hi u)
      simp only [if_true, heldAfter]
      constructor
      · intro h; cases h
      · intro h; rw [hf] at this; exact (this.2 h)
    · simp only [hu, if_false]; exact hi u
  | some a =>
    rw [ha] at hs
    cases a with
    | lock =>
      simp only at hs
      split at hs
      · next hfree =>
        injection hs with hs; subst hs
        intro u
        by_cases hu : u = t
        · subst hu
          simp only [if_true, heldAfter_succ _ _ _ _ ha, atomEffect]
        · simp only [hu, if_false]
          have := hi u
          constructor
          · intro h
            have := this.1 h
            rw [this] at hfree; simp at hfree
          · intro h; injection h with h; exact absurd h.symm hu
      · cases hs
    | unlock =>
      simp only at hs
      injection hs with hs; subst hs
      have hheld := hwt.2.2 ha
      have hhold := (hi t).1 hheld
      intro u
      by_cases hu : u = t
      · subst hu
        simp only [if_true, heldAfter_succ _ _ _ _ ha, atomEffect, hhold]
        simp
      · simp only [hu, if_false, hhold, if_true]
        constructor
        · intro h; have := (hi u).1 h; rw [hhold] at this; injection this with this; exact absurd this.symm hu
        · intro h; cases h
    | access w | hook | tx | retIf | other w =>
      simp only at hs
      injection hs with hs; subst hs
      intro u
      by_cases hu : u = t
      · subst hu
        simp only [if_true, heldAfter_succ _ _ _ _ ha, atomEffect]
        exact hi u
      · simp only [hu, if_false]; exact hi u

/-- reachability in the thread system -/
inductive SysReach (prog : T → List Atom) : Sys T → Prop
  | init : SysReach prog { prog := prog, pc := fun _ => 0, holder := none }
  | step (s s' : Sys T) (t : T) : SysReach prog s → s.step t = some s' → SysReach prog s'

theorem sys_prog (prog : T → List Atom) (s : Sys T) (h : SysReach prog s) : s.prog = prog := by
  induction h with
  | init => rfl
  | step s s' t _ hs ih =>
    unfold Sys.step at hs
    split at hs
    · injection hs with hs; subst hs; exact ih
    · split at hs
      · injection hs with hs; subst hs; exact ih
      · cases hs
    · injection hs with hs; subst hs; exact ih
    · injection hs with hs; subst hs; exact ih

/-- Soundness of the discipline, for every reachable state of every interleaving of any set of threads: a thread in
front of an access to node state holds the mutex; a thread in front of a hook call, a transmission or a return does
not (so a hook that takes the lock itself cannot self-deadlock, and no region leaks the lock). -/
theorem C13_sound (prog : T → List Atom) (hw : ∀ u, wellLocked (prog u) = true) (s : Sys T) (h : SysReach prog s) (t : T) :
    (∀ w, (s.prog t)[s.pc t]? = some (.access w) → s.holder = some t) ∧
    ((s.prog t)[s.pc t]? = some .hook ∨ (s.prog t)[s.pc t]? = some .tx ∨ (s.prog t)[s.pc t]? = some .retIf →
        s.holder ≠ some t) := by
  have hinv : LockInv s := by
    induction h with
    | init => intro u; simp [heldAfter]
    | step s s' t' hr hs ih =>
      have hp := sys_prog prog s hr
      exact lockInv_step s s' t' (by rw [hp]; exact hw) ih hs
  have hp := sys_prog prog s h
  have hwt := wellLocked_at (s.prog t) false (by rw [hp]; exact hw t) (s.pc t)
  constructor
  · intro w ha; exact (hinv t).1 (hwt.1 w ha)
  · intro ha hh
    have hf := hwt.2.1 (by rcases ha with a | a | a <;> simp [a])
    have := (hinv t).2 hh
    rw [hf] at this; cases this

/-- Mutual exclusion corollary: two different threads are never both in front of an access (no data race on node
state between the runner and application code that takes the same lock). -/
theorem C13_race_free (prog : T → List Atom) (hw : ∀ u, wellLocked (prog u) = true) (s : Sys T) (h : SysReach prog s)
    (t u : T) (w w' : String) (ht : (s.prog t)[s.pc t]? = some (.access w)) (hu : (s.prog u)[s.pc u]? = some (.access w')) :
    t = u := by
  have a := (C13_sound prog hw s h t).1 w ht
  have b := (C13_sound prog hw s h u).1 w' hu
  rw [a] at b; injection b

end CanVerif
