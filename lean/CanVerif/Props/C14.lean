import CanVerif.Model.Runner
/-!
# C14  Runner protocol: requests sent exactly once, toggles never lost, clean stop

The transmitter loop is modelled as the labelled transition system `txStep` (Model/Runner.lean): any number of
application threads toggle cyclic transmission (write the flag, then a non-blocking send on the capacity-1 wake-up
channel) and request event transmissions, the runtime delivers ticks while the ticker is armed, the transmitter
consumes wake-ups, ticks and requests.  All theorems quantify over every reachable state, i.e. every interleaving
of every number of operations.  Time is abstract: "frames start within a bounded number of cycle times" is the untimed
statement that the ticker is armed whenever the transmitter is parked with no toggle in progress
(`C14_no_lost_toggle`); the timed claim, and the stop/fault clauses, are measured on the real functions on every run
(bin/props.py C14).
-/
namespace CanVerif

macro "tx_cases" hs:ident : tactic => `(tactic| (
  simp only [txStep] at $hs:ident
  repeat' split at $hs:ident
  all_goals (try cases $hs:ident)))

/-- the inductive invariant behind `C14_no_lost_toggle`: after a read of the flag that is already stale, and whenever
the ticker does not match the flag, a wake-up is pending or an application is about to send one -/
def ToggleInv (s : TxState) : Prop :=
  match s.phase with
  | .readFlag => True
  | .apply v => v = s.flag ∨ s.wakePending = true ∨ s.mid > 0
  | _ => s.armed = s.flag ∨ s.wakePending = true ∨ s.mid > 0

theorem toggleInv_step (s s' : TxState) (e : TxEvent) (h : ToggleInv s) (hs : txStep s e = some s') : ToggleInv s' := by
  unfold ToggleInv at *
  cases e <;> tx_cases hs
  all_goals (try (simp_all; done))
  all_goals (try (cases hp : s.phase <;> simp_all <;> omega))

theorem toggleInv_reach (s : TxState) (h : TxReach s) : ToggleInv s := by
  induction h with
  | init => unfold ToggleInv; simp
  | step s s' e _ hs ih => exact toggleInv_step s s' e ih hs

/-- Toggles are never lost: whenever the transmitter is parked in its select, no wake-up is pending and no
application is between writing the flag and sending the wake-up, the ticker is armed exactly when cyclic
transmission is enabled — whatever the transmitter was doing when the toggles were made. -/
theorem C14_no_lost_toggle (s : TxState) (h : TxReach s)
    (hpark : s.phase = .select) (hnw : s.wakePending = false) (hmid : s.mid = 0) : s.armed = s.flag := by
  have hi := toggleInv_reach s h
  unfold ToggleInv at hi
  rw [hpark] at hi
  simp only at hi
  rcases hi with h | h | h
  · exact h
  · rw [hnw] at h; cases h
  · omega

def inFlight (s : TxState) : Nat := if s.phase = .transmitting then 1 else 0

/-- Exactly once: every frame handed to the bus corresponds to one accepted request or one consumed tick, and every
accepted request / consumed tick has been sent or is in flight (fault-free runs). -/
theorem C14_exactly_once (s : TxState) (h : TxReach s) : s.sent + inFlight s = s.accepted + s.ticks := by
  induction h with
  | init => simp [inFlight]
  | step s s' e _ hs ih =>
    unfold inFlight at *
    cases e <;> tx_cases hs
    all_goals (try (simp_all; done))
    all_goals (try (simp_all; omega))

/-- run a list of events; `none` if one of them is not enabled -/
def txRun (s : TxState) : List TxEvent → Option TxState
  | [] => some s
  | e :: es => match txStep s e with
    | some s' => txRun s' es
    | none => none

theorem disable_tail_step (s s1 : TxState) (e : TxEvent) (harm : s.armed = false) (hne : e ≠ .applyFlag)
    (hst : txStep s e = some s1) :
    s1.armed = false ∧ s1.ticks + (if s1.tickBuf then 1 else 0) ≤ s.ticks + (if s.tickBuf then 1 else 0) := by
  cases e <;> tx_cases hst
  all_goals (try (simp_all; done))
  all_goals (try (simp_all; omega))

/-- Once a disable has been handled (ticker disarmed) and until the ticker is armed again, at most one further tick —
the one already due in the channel — is consumed. -/
theorem C14_disable_tail (s s' : TxState) (es : List TxEvent) (harm : s.armed = false)
    (hno : ∀ e ∈ es, e ≠ .applyFlag) (hrun : txRun s es = some s') :
    s'.ticks ≤ s.ticks + (if s.tickBuf then 1 else 0) ∧ s'.armed = false := by
  induction es generalizing s with
  | nil => simp [txRun] at hrun; subst hrun; exact ⟨by split <;> omega, harm⟩
  | cons e es ih =>
    simp only [txRun] at hrun
    cases hst : txStep s e with
    | none => rw [hst] at hrun; cases hrun
    | some s1 =>
      rw [hst] at hrun
      have hno' : ∀ e ∈ es, e ≠ .applyFlag := fun x hx => hno x (List.mem_cons_of_mem _ hx)
      have key := disable_tail_step s s1 e harm (hno e List.mem_cons_self) hst
      have := ih s1 key.1 hno' hrun
      exact ⟨Nat.le_trans this.1 key.2, this.2⟩

/-- non-vacuity: enable, wake, handle, tick, transmit — a reachable run that sends one frame -/
example : ∃ s, txRun {} [.readFlag, .applyFlag, .appWrite true, .appSend, .consumeWake, .readFlag, .applyFlag, .tickArrive,
    .consumeTick, .transmitDone] = some s ∧ s.sent = 1 ∧ s.armed = true := by
  exact ⟨_, rfl, rfl, rfl⟩

end CanVerif
