import CanVerif.Lemmas.BufScanner
/-!
# C07  Receiver reassembles the byte stream into whole frames under any read chunking

`runScript reads buf` is the model of repeatedly calling `Receiver.Receive` over a connection whose
successive `Read` calls return `reads` (Model/BufScanner.lean).  Quantification: every byte stream, every
segmentation into reads (including empty reads in the model), every error point, every error value.
-/
namespace CanVerif

def okRead (c : Bytes) : Read := ⟨c, none⟩

/-- Any chunking of a stream yields exactly the complete 16-byte blocks of the stream, in order, and no error. -/
theorem C07_chunking (chunks : List Bytes) (buf : Bytes) :
    runScript (chunks.map okRead) buf = (blocks16 (buf ++ chunks.flatten), none) := by
  induction chunks generalizing buf with
  | nil => simp [runScript]
  | cons c cs ih =>
    simp only [List.map_cons, okRead, runScript, List.flatten_cons]
    rw [ih (rest16 buf ++ c), blocks16_append buf (c ++ cs.flatten), List.append_assoc]

/-- Corollary for a fresh receiver: the result depends only on the concatenation of the reads. -/
theorem C07_segmentation_independent (c₁ c₂ : List Bytes) (h : c₁.flatten = c₂.flatten) :
    runScript (c₁.map okRead) [] = runScript (c₂.map okRead) [] := by
  rw [C07_chunking, C07_chunking, h]

/-- The blocks: exactly floor(n/16) of them, the k-th is bytes 16k .. 16k+15 of the stream; trailing bytes dropped. -/
theorem C07_blocks (s : Bytes) :
    (blocks16 s).length = s.length / 16 ∧
    ∀ k, k < s.length / 16 → (blocks16 s)[k]? = some ((s.drop (16 * k)).take 16) := by
  induction s using (measure (fun (s : Bytes) => s.length)).wf.induction with
  | _ s ih =>
    by_cases h : 16 ≤ s.length
    · rw [blocks16_ge s h]
      have hlt : (s.drop 16).length < s.length := by simp [List.length_drop]; omega
      obtain ⟨l1, l2⟩ := ih (s.drop 16) hlt
      have hlen : (s.drop 16).length = s.length - 16 := by simp [List.length_drop]
      constructor
      · rw [List.length_cons, l1, hlen]; omega
      · intro k hk
        have hdiv : s.length / 16 = (s.length - 16) / 16 + 1 := by omega
        cases k with
        | zero => simp
        | succ k =>
          simp only [List.getElem?_cons_succ]
          have hk' : k < (s.drop 16).length / 16 := by rw [hlen]; omega
          rw [l2 k hk', List.drop_drop]
          have e : 16 + 16 * k = 16 * (k + 1) := by omega
          rw [e]
    · rw [blocks16_lt s (by omega)]
      constructor
      · simp; omega
      · intro k hk; omega

/-- A read error ends reception; the frames completed before it (including those completed by bytes returned
together with the error) are delivered first, the error is reported, later reads are never performed. -/
theorem C07_error (chunks : List Bytes) (bs : Bytes) (e : RdErr) (later : List Read) (buf : Bytes) :
    runScript (chunks.map okRead ++ ⟨bs, some e⟩ :: later) buf =
      (blocks16 (buf ++ chunks.flatten ++ bs), reportErr (some e)) := by
  induction chunks generalizing buf with
  | nil =>
    simp only [List.map_nil, List.nil_append, runScript, List.flatten_nil, List.append_nil]
    rw [blocks16_append buf bs]
  | cons c cs ih =>
    simp only [List.map_cons, List.cons_append, okRead, runScript, List.flatten_cons]
    rw [ih (rest16 buf ++ c)]
    have e1 : buf ++ (c ++ cs.flatten) ++ bs = buf ++ (c ++ cs.flatten ++ bs) := by simp [List.append_assoc]
    rw [e1, blocks16_append buf (c ++ cs.flatten ++ bs)]
    simp [List.append_assoc]

/-- End of stream is not an error: a trailing partial block is dropped silently. -/
theorem C07_eof_silent : reportErr (some RdErr.eof) = none ∧ ∀ c, reportErr (some (RdErr.other c)) = some c :=
  ⟨rfl, fun _ => rfl⟩

/-- Transmit: exactly one write of the frame's 16 bytes; the interceptor is called iff the write succeeded. -/
theorem C07_tx (w : Bytes) (ok : Bool) :
    (transmit w ok).1 = [w] ∧ (transmit w ok).2.1 = (if ok then 1 else 0) ∧ (transmit w ok).2.2 = ok := by
  cases ok <;> simp [transmit]

/-- A history of transmits on one transmitter: the k-th write is the k-th frame's own 16 bytes whatever was sent
before it (no payload survives from one call to the next), every call writes exactly once, and the interceptor sees
exactly the frames whose write succeeded. -/
theorem C07_tx_history (xs : List (Bytes × Bool)) :
    (transmitSeq xs).1 = xs.map (·.1) ∧ (transmitSeq xs).2.1 = (xs.filter (·.2)).length ∧
    (transmitSeq xs).2.2 = xs.map (·.2) := by
  induction xs with
  | nil => simp [transmitSeq]
  | cons x xs ih =>
    obtain ⟨w, ok⟩ := x
    obtain ⟨h1, h2, h3⟩ := ih
    cases ok <;> simp [transmitSeq, transmit, h1, h2, h3] <;> omega

/-- non-vacuity: a 33-byte stream cut as 1 + 31 + 1 bytes gives two frames. -/
example : (runScript ([[0], List.replicate 31 1, [2]].map okRead) []).1.length = 2 := by decide +kernel

end CanVerif
