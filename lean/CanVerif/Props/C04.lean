import CanVerif.Model.DbcParse
/-!
# C04  DBC parser reads back every well-formed definition faithfully, with positions

Status: the executable model (`parseDbc`) is a transcription of `text/scanner` + `pkg/dbc`; the full round-trip
theorem `parse (render ds ℓ) = ok (withPositions ds ℓ)` is not proved (DESIGN.md C04).  What is proved here are
facts about the building blocks that the round trip rests on; the property itself is decided on every run against the
oracle AST of grammar-derived files (see bin/props.py C04).
-/
namespace CanVerif

/-- Keyword dispatch is by exact token text: an identifier that is none of the 16 keywords becomes an unknown
definition (the last branch of `parseDef`) — stated for the keyword test itself. -/
theorem C04_objtype_exact (id : BStr) (o : ObjType) (h : objTypeOf id = some o) :
    (o = .node ∧ id = bs "BU_") ∨ (o = .message ∧ id = bs "BO_") ∨ (o = .signal ∧ id = bs "SG_") ∨
    (o = .env ∧ id = bs "EV_") := by
  unfold objTypeOf at h
  split at h
  · next e => left; exact ⟨by injection h with h; exact h.symm, by simpa using e⟩
  · split at h
    · next e => right; left; exact ⟨by injection h with h; exact h.symm, by simpa using e⟩
    · split at h
      · next e => right; right; left; exact ⟨by injection h with h; exact h.symm, by simpa using e⟩
      · split at h
        · next e => right; right; right; exact ⟨by injection h with h; exact h.symm, by simpa using e⟩
        · cases h

/-- Message IDs: accepted exactly the standard IDs ≤ 0x7FF, the extended IDs (bit 31 set) with 29-bit CAN ID,
and the independent-signals pseudo ID. -/
theorem C04_msgid_valid (m : Nat) (hm : m < 2 ^ 32) :
    msgIdValid m = true ↔ (m ≤ 0x7ff ∨ (2 ^ 31 ≤ m ∧ m - 2 ^ 31 ≤ 0x1fffffff) ∨ m = 0xc0000000) := by
  unfold msgIdValid
  by_cases h0 : m = 0xc0000000
  · simp [h0]
  · have hne : (m == 0xc0000000) = false := by simpa using h0
    simp only [hne, Bool.false_eq_true, if_false]
    by_cases hext : m / 2 ^ 31 % 2 = 1
    · have : 2 ^ 31 ≤ m := by omega
      simp [hext, h0]; omega
    · have : m < 2 ^ 31 := by omega
      simp [hext, h0]; omega

/-- Identifier validation: non-empty, at most 128 bytes, first byte a letter or `_`, the rest letters, digits, `_`. -/
theorem C04_ident_valid (id : BStr) :
    identValid id = true ↔
      (1 ≤ id.length ∧ id.length ≤ 128 ∧
       ∃ c rest, id = c :: rest ∧ (c = 95 ∨ isAlphaB c = true) ∧
         ∀ d ∈ rest, (d = 95 ∨ isAlphaB d = true ∨ isDigB d = true)) := by
  unfold identValid
  cases id with
  | nil => simp
  | cons c rest =>
    simp only [List.isEmpty_cons, Bool.not_false, Bool.true_and, List.length_cons, Bool.and_eq_true,
      decide_eq_true_eq, Bool.or_eq_true, beq_iff_eq, List.all_eq_true]
    constructor
    · rintro ⟨h1, h2, h3⟩
      exact ⟨by omega, h1, c, rest, rfl, h2, fun d hd => by have := h3 d hd; simpa [or_assoc] using this⟩
    · rintro ⟨_, h1, c', rest', e, h2, h3⟩
      injection e with e1 e2
      subst e1; subst e2
      exact ⟨h1, h2, fun d hd => by have := h3 d hd; simpa [or_assoc] using this⟩

end CanVerif
