import CanVerif.Lemmas.CompileOrder
/-!
# C05 (canonical order, inner lists)  The final sort erases the order *inside* definitions as well

`C05_order_invariant` covers permutations of the definition list.  This file covers the orders that live inside one
definition or one descriptor: the signals of a message, the value descriptions of a signal, the nodes.  Two databases
that differ only in those orders (`DbFine`) are sorted to the *same* database by `sortDescriptors`, provided the keys
the canonical order uses are pairwise distinct where the class of DESIGN.md §4.2 says so: message IDs, node names,
(start bit, multiplexer value) inside a message, values inside one signal's descriptions (`C05_canonical`).
So the order in which a `BO_` lists its signals, a `BU_` its nodes or a `VAL_` its pairs cannot show in the result.
Not proved: that `collectDescriptors`/`addMetadata` map files differing in those inner orders to `DbFine` databases.
-/
namespace CanVerif

/-- two lists related position by position -/
inductive Rel2 {α : Type} (R : α → α → Prop) : List α → List α → Prop
  | nil : Rel2 R [] []
  | cons {a b : α} {as bs : List α} : R a b → Rel2 R as bs → Rel2 R (a :: as) (b :: bs)

/-- equal up to the order of the value descriptions -/
structure SigFine (s t : DSignal) : Prop where
  rest : { s with vds := [] } = { t with vds := [] }
  vds : s.vds.Perm t.vds

/-- equal up to the order of the signals (and of their value descriptions) -/
structure MsgFine (m n : DMessage) : Prop where
  rest : { m with signals := [] } = { n with signals := [] }
  sigs : ∃ l, m.signals.Perm l ∧ Rel2 SigFine l n.signals

/-- equal up to the order of nodes, messages, signals inside messages, value descriptions inside signals -/
structure DbFine (a b : Database) : Prop where
  version : a.version = b.version
  nodes : a.nodes.Perm b.nodes
  msgs : ∃ l, a.messages.Perm l ∧ Rel2 MsgFine l b.messages

/-- the keys of the canonical order are pairwise distinct -/
structure KeysDistinct (db : Database) : Prop where
  ids : (db.messages.map (·.id)).Nodup
  nodes : (db.nodes.map (·.name)).Nodup
  sigs : ∀ m ∈ db.messages, (m.signals.map fun s => (s.start, s.muxValue)).Nodup
  vds : ∀ m ∈ db.messages, ∀ s ∈ m.signals, (s.vds.map (·.value)).Nodup

def normSig (s : DSignal) : DSignal :=
  { s with vds := sortBy (fun (a b : DVal) => decide (a.value < b.value)) s.vds }
def normMsg (m : DMessage) : DMessage :=
  { m with signals := (sortBy signalLess m.signals).map normSig }

theorem sortDescriptors_norm (db : Database) :
    sortDescriptors db = { db with
      nodes := sortBy (fun a b => bstrLt a.name b.name) db.nodes
      messages := (sortBy (fun (a b : DMessage) => decide (a.id < b.id)) db.messages).map normMsg } := rfl

theorem SigFine.start {s t : DSignal} (h : SigFine s t) : s.start = t.start := by
  have := congrArg DSignal.start h.rest; simpa using this
theorem SigFine.mux {s t : DSignal} (h : SigFine s t) : s.muxValue = t.muxValue := by
  have := congrArg DSignal.muxValue h.rest; simpa using this
theorem MsgFine.id {m n : DMessage} (h : MsgFine m n) : m.id = n.id := by
  have := congrArg DMessage.id h.rest; simpa using this

theorem normSig_eq (s t : DSignal) (h : SigFine s t) (hn : (s.vds.map (·.value)).Nodup) : normSig s = normSig t := by
  have hv : sortBy (fun (a b : DVal) => decide (a.value < b.value)) s.vds =
      sortBy (fun (a b : DVal) => decide (a.value < b.value)) t.vds := by
    apply sortBy_perm_eq _ _ _ h.vds
    · intro x y hxy; simp only [decide_eq_true_eq] at hxy; simp only [decide_eq_false_iff_not]; omega
    · intro x y z h1 h2; simp only [decide_eq_true_eq] at h1 h2 ⊢; omega
    · intro x hx y hy
      by_cases e : x.value = y.value
      · exact Or.inl (eq_of_key_eq (·.value) s.vds hn x y hx hy e)
      · by_cases l : x.value < y.value
        · exact Or.inr (Or.inl (by simpa using l))
        · exact Or.inr (Or.inr (by simp only [decide_eq_true_eq]; omega))
    · exact nodup_of_map (·.value) s.vds hn
  have hr := h.rest
  unfold normSig
  rw [hv]
  cases s; cases t
  simp only [DSignal.mk.injEq] at hr ⊢
  obtain ⟨h1, h2, h3, h4, h5, h6, h7, h8, h9, h10, h11, h12, h13, h14, h15, _, h17, h18⟩ := hr
  exact ⟨h1, h2, h3, h4, h5, h6, h7, h8, h9, h10, h11, h12, h13, h14, h15, trivial, h17, h18⟩

/-- insertion into related sorted lists, when the comparison respects the relation -/
theorem insertBy_forall2 {α} (R : α → α → Prop) (lt : α → α → Bool)
    (hlt : ∀ a b c d, R a b → R c d → lt a c = lt b d) (x y : α) (hxy : R x y) :
    ∀ (l l' : List α), Rel2 R l l' → Rel2 R (insertBy lt x l) (insertBy lt y l') := by
  intro l l' h
  induction h with
  | nil => exact Rel2.cons hxy Rel2.nil
  | @cons a b as bs hab _ ih =>
    unfold insertBy
    rw [hlt x y a b hxy hab]
    split
    · exact Rel2.cons hxy (Rel2.cons hab ‹_›)
    · exact Rel2.cons hab ih

theorem sortBy_forall2 {α} (R : α → α → Prop) (lt : α → α → Bool)
    (hlt : ∀ a b c d, R a b → R c d → lt a c = lt b d) :
    ∀ (l l' : List α), Rel2 R l l' → Rel2 R (sortBy lt l) (sortBy lt l') := by
  intro l l' h
  induction h with
  | nil => exact Rel2.nil
  | cons hab _ ih => exact insertBy_forall2 R lt hlt _ _ hab _ _ ih

theorem map_eq_of_forall2 {α β} (R : α → α → Prop) (f : α → β) (P : α → Prop) (hf : ∀ a b, R a b → P a → f a = f b) :
    ∀ (l l' : List α), Rel2 R l l' → (∀ a ∈ l, P a) → l.map f = l'.map f := by
  intro l l' h
  induction h with
  | nil => intro _; rfl
  | @cons a b as bs hab _ ih =>
    intro hp
    simp only [List.map_cons]
    rw [hf a b hab (hp a List.mem_cons_self), ih (fun x hx => hp x (List.mem_cons_of_mem _ hx))]

theorem signalLess_fine (a b c d : DSignal) (h1 : SigFine a b) (h2 : SigFine c d) : signalLess a c = signalLess b d := by
  unfold signalLess; rw [h1.start, h1.mux, h2.start, h2.mux]

theorem signalLess_asym (a b : DSignal) (h : signalLess a b = true) : signalLess b a = false := by
  unfold signalLess at *
  by_cases e : a.start = b.start
  · have e' : b.start = a.start := e.symm
    simp [e] at h; simp [e']; omega
  · have e' : ¬ b.start = a.start := fun x => e x.symm
    simp [e] at h; simp [e']; omega

theorem signalLess_trans (a b c : DSignal) (h1 : signalLess a b = true) (h2 : signalLess b c = true) :
    signalLess a c = true := by
  unfold signalLess at *
  by_cases e1 : a.start = b.start <;> by_cases e2 : b.start = c.start <;> by_cases e3 : a.start = c.start <;>
    simp_all <;> omega

/-- normalising a message erases the order of its signals and of their value descriptions -/
theorem normMsg_eq (m n : DMessage) (h : MsgFine m n)
    (hk : (m.signals.map fun s => (s.start, s.muxValue)).Nodup)
    (hv : ∀ s ∈ m.signals, (s.vds.map (·.value)).Nodup) : normMsg m = normMsg n := by
  obtain ⟨l, hp, hf⟩ := h.sigs
  have e1 : sortBy signalLess m.signals = sortBy signalLess l := by
    apply sortBy_perm_eq _ _ _ hp signalLess_asym signalLess_trans
    · intro x hx y hy
      by_cases e : (x.start, x.muxValue) = (y.start, y.muxValue)
      · exact Or.inl (eq_of_key_eq (fun s : DSignal => (s.start, s.muxValue)) m.signals hk x y hx hy e)
      · have := C05_less_total x y e
        rcases this with t | t
        · exact Or.inr (Or.inl t)
        · exact Or.inr (Or.inr t)
    · exact nodup_of_map _ m.signals hk
  have f2 := sortBy_forall2 SigFine signalLess signalLess_fine l n.signals hf
  have e2 : (sortBy signalLess l).map normSig = (sortBy signalLess n.signals).map normSig := by
    apply map_eq_of_forall2 SigFine normSig (fun s => (s.vds.map (·.value)).Nodup) normSig_eq _ _ f2
    intro a ha
    exact hv a (hp.mem_iff.mpr ((sortBy_perm signalLess l).mem_iff.mp ha))
  have hr := h.rest
  unfold normMsg
  rw [e1, e2]
  cases m; cases n
  simp only [DMessage.mk.injEq] at hr ⊢
  obtain ⟨h1, h2, h3, h4, h5, h6, _, h8, h9, h10⟩ := hr
  exact ⟨h1, h2, h3, h4, h5, h6, trivial, h8, h9, h10⟩

/-- **The canonical order erases every inner order.**  Databases that differ only in the order of their nodes, their
messages, the signals inside a message and the value descriptions inside a signal are sorted to the same database,
when the sort keys are pairwise distinct. -/
theorem C05_canonical (a b : Database) (h : DbFine a b) (hk : KeysDistinct a) :
    sortDescriptors a = sortDescriptors b := by
  rw [sortDescriptors_norm, sortDescriptors_norm]
  obtain ⟨l, hp, hf⟩ := h.msgs
  have hn : sortBy (fun (x y : DNode) => bstrLt x.name y.name) a.nodes =
      sortBy (fun (x y : DNode) => bstrLt x.name y.name) b.nodes := by
    apply sortBy_perm_eq _ _ _ h.nodes
    · intro x y; exact bstrLt_asym x.name y.name
    · intro x y z; exact bstrLt_trans x.name y.name z.name
    · intro x hx y hy
      rcases bstrLt_total x.name y.name with e | e | e
      · exact Or.inl (eq_of_key_eq (·.name) a.nodes hk.nodes x y hx hy e)
      · exact Or.inr (Or.inl e)
      · exact Or.inr (Or.inr e)
    · exact nodup_of_map (·.name) a.nodes hk.nodes
  have e1 : sortBy (fun (x y : DMessage) => decide (x.id < y.id)) a.messages =
      sortBy (fun (x y : DMessage) => decide (x.id < y.id)) l := by
    apply sortBy_perm_eq _ _ _ hp
    · intro x y hxy; simp only [decide_eq_true_eq] at hxy; simp only [decide_eq_false_iff_not]; omega
    · intro x y z h1 h2; simp only [decide_eq_true_eq] at h1 h2 ⊢; omega
    · intro x hx y hy
      by_cases e : x.id = y.id
      · exact Or.inl (eq_of_key_eq (·.id) a.messages hk.ids x y hx hy e)
      · by_cases l : x.id < y.id
        · exact Or.inr (Or.inl (by simpa using l))
        · exact Or.inr (Or.inr (by simp only [decide_eq_true_eq]; omega))
    · exact nodup_of_map (·.id) a.messages hk.ids
  have f2 := sortBy_forall2 MsgFine (fun (x y : DMessage) => decide (x.id < y.id))
    (fun a b c d h1 h2 => by rw [h1.id, h2.id]) l b.messages hf
  have e2 : (sortBy (fun (x y : DMessage) => decide (x.id < y.id)) l).map normMsg =
      (sortBy (fun (x y : DMessage) => decide (x.id < y.id)) b.messages).map normMsg := by
    apply map_eq_of_forall2 MsgFine normMsg
      (fun m => (m.signals.map fun s => (s.start, s.muxValue)).Nodup ∧ ∀ s ∈ m.signals, (s.vds.map (·.value)).Nodup)
      (fun m n hmn hP => normMsg_eq m n hmn hP.1 hP.2) _ _ f2
    intro m hm
    have hm' : m ∈ a.messages := hp.mem_iff.mpr ((sortBy_perm _ l).mem_iff.mp hm)
    exact ⟨hk.sigs m hm', hk.vds m hm'⟩
  rw [hn, e1, e2, h.version]

/-- non-vacuity and an instance: one message whose two signals (and one signal's two value descriptions) are listed in
the two possible orders -/
def canonExSig (nm : BStr) (st : Nat) (vs : List DVal) : DSignal where
  name := nm
  start := st
  length := 4
  bigEndian := false
  signed := false
  mux := false
  muxed := false
  muxValue := 0
  offset := 0
  scale := 0x3ff0000000000000
  min := 0
  max := 0
  unit := []
  vds := vs
  receivers := []

def canonExMsg (ss : List DSignal) : DMessage where
  name := []
  id := 7
  extended := false
  length := 8
  signals := ss
  sender := []

def canonExDb (flip : Bool) : Database :=
  let s1 := canonExSig [65] 0 (if flip then [⟨1, []⟩, ⟨0, []⟩] else [⟨0, []⟩, ⟨1, []⟩])
  let s2 := canonExSig [66] 4 []
  { version := [], nodes := [], messages := [canonExMsg (if flip then [s2, s1] else [s1, s2])] }

example : sortDescriptors (canonExDb true) = sortDescriptors (canonExDb false) := by decide +kernel

end CanVerif
