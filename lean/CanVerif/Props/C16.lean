import CanVerif.Lemmas.Json
import CanVerif.Lemmas.JsonParse
import CanVerif.Props.C15
/-!
# C16  Frame <-> JSON: output is valid JSON that round-trips every valid frame

Statement split (see DESIGN.md C16): the encoder output is *exactly* the serialisation of a JSON object whose
members are the ones the property lists (`C16_members`), and decoding that object with the struct-decoding
rules of `encoding/json` + the logic of `UnmarshalJSON` returns the frame (`C16_roundtrip_tree`).
The text -> tree step (`parseJson`, a model of `encoding/json`'s scanner) is executable and compared with
`encoding/json` on every run (`fjson` operations carry `json.Valid` and the model parser's verdict; `jrt`
operations run the full text round trip, also inside larger documents); on the encoder's output it is proved to
return the tree that was written (`parseJson_renderObj`), which closes the text round trip (`C16_roundtrip_text`).
-/
namespace CanVerif

/-- the members the statement lists, in the order the encoder writes them: id (decimal); data (lower-case hex of
the first `length` bytes) iff a data frame has length > 0; extended/remote present and true iff set;
length iff remote. -/
def expectedMembers (f : Frame) : List (String × J) :=
  [("id", J.num (decDigits f.id.toNat))] ++
  (if !f.isRemote && f.length.toNat != 0 then
     [("data", J.str (hexEncodeLower ((dataBytes f.data).take f.length.toNat)))] else []) ++
  (if f.isExtended then [("extended", J.bool true)] else []) ++
  (if f.isRemote then [("remote", J.bool true), ("length", J.num (decDigits f.length.toNat))] else [])

/-- The JSON form of a valid frame is the serialisation of exactly those members. -/
theorem C16_members (f : Frame) (hv : f.validate = true) : f.json = .ok (renderObj (expectedMembers f)) := by
  have hlen : ¬ f.length.toNat > 8 := by
    unfold Frame.validate at hv
    intro h
    have : f.length > 8#8 := by rw [gt_iff_lt, BitVec.lt_def]; simpa using h
    simp [this] at hv
  unfold Frame.json expectedMembers renderObj
  cases hr : f.isRemote <;> cases he : f.isExtended <;> by_cases h0 : f.length.toNat = 0 <;>
    simp [hr, he, h0, hlen, renderMember, renderVal, joinComma, strOf, ch, List.append_assoc]

/-- decimal and hex payloads are produced by serialisers whose inverse the decoder applies -/
theorem C16_number_and_data_roundtrip (n max : Nat) (h : n ≤ max) (bs : List UInt8) :
    uintLit (decDigits n) max = some n ∧ hexDecode (hexEncodeLower bs) = some bs :=
  ⟨uintLit_decDigits n max h, hexDecode_lower bs⟩

def asTree (ms : List (String × J)) : J := J.obj (ms.map fun kv => (strOf kv.1, kv.2))

/-- Decoding the object the encoder wrote returns the identical frame (valid frames, unused bytes zero). -/
theorem C16_roundtrip_tree (f : Frame) (hv : f.validate = true) (hz : f.UnusedZero) :
    (decodeJF (asTree (expectedMembers f))).bind frameOfJF = some f := by
  obtain ⟨_, hlen⟩ := validate_bounds f hv
  have hid := uintLit_decDigits f.id.toNat 0xffffffff (by have := f.id.isLt; omega)
  have hl := uintLit_decDigits f.length.toNat 255 (by have := f.length.isLt; omega)
  have hdat := hexDecode_lower ((dataBytes f.data).take f.length.toNat)
  have hidb : BitVec.ofNat 32 f.id.toNat = f.id := by simp
  have hlb : BitVec.ofNat 8 f.length.toNat = f.length := by simp
  have k1 : keyMatches (strOf "id") "id" = true := by decide
  have k2 : keyMatches (strOf "data") "id" = false ∧ keyMatches (strOf "data") "data" = true := by decide
  have k3 : keyMatches (strOf "extended") "id" = false ∧ keyMatches (strOf "extended") "data" = false ∧
      keyMatches (strOf "extended") "length" = false ∧ keyMatches (strOf "extended") "extended" = true := by decide
  have k4 : keyMatches (strOf "remote") "id" = false ∧ keyMatches (strOf "remote") "data" = false ∧
      keyMatches (strOf "remote") "length" = false ∧ keyMatches (strOf "remote") "extended" = false ∧
      keyMatches (strOf "remote") "remote" = true := by decide
  have k5 : keyMatches (strOf "length") "id" = false ∧ keyMatches (strOf "length") "data" = false ∧
      keyMatches (strOf "length") "length" = true := by decide
  unfold Frame.UnusedZero at hz
  have htl : ((dataBytes f.data).take f.length.toNat).length = f.length.toNat := by simp [dataBytes]; omega
  cases f with
  | mk fid len data rem ext =>
  simp only at *
  have hlen0 : len.toNat = 0 → len = 0#8 := fun h => BitVec.eq_of_toNat_eq (by simpa using h)
  cases rem <;> cases ext <;> by_cases h0 : len.toNat = 0 <;>
    simp [expectedMembers, asTree, decodeJF, decodeMember, setId, setData, setLength, setExtended, setRemote, frameOfJF,
      h0, k1, k2, k3, k4, k5, hid, hl, hdat, hidb, hlb, htl, Option.bind] at hz ⊢ <;>
    simp_all
  all_goals first
    | (rw [← hz]; rfl)
    | simp [frameOfJF]

theorem hexLower_plain : ∀ n : Fin 16, hexLower n.val ≠ 34 ∧ hexLower n.val ≠ 92 ∧ 32 ≤ (hexLower n.val).toNat := by
  decide

theorem hexEncodeLower_plain (bs : List UInt8) : Plain (hexEncodeLower bs) := by
  intro c hc
  unfold hexEncodeLower at hc
  simp only [List.mem_flatMap, List.mem_cons, List.mem_nil_iff, or_false] at hc
  obtain ⟨b, _, h | h⟩ := hc
  · rw [h]; exact hexLower_plain ⟨b.toNat / 16, by have := b.toNat_lt; omega⟩
  · rw [h]; exact hexLower_plain ⟨b.toNat % 16, Nat.mod_lt _ (by decide)⟩

theorem expectedMembers_simple (f : Frame) : expectedMembers f ≠ [] ∧ ∀ kv ∈ expectedMembers f, SimpleM kv := by
  have pk : Plain (strOf "id") ∧ Plain (strOf "data") ∧ Plain (strOf "extended") ∧ Plain (strOf "remote") ∧
      Plain (strOf "length") := by
    refine ⟨?_, ?_, ?_, ?_, ?_⟩ <;> (intro c hc; revert c; decide)
  refine ⟨by simp [expectedMembers], ?_⟩
  intro kv hkv
  unfold expectedMembers at hkv
  simp only [List.mem_append, List.mem_cons, List.mem_nil_iff, or_false] at hkv
  rcases hkv with ((h | h) | h) | h
  · rw [h]; exact ⟨pk.1, SimpleV.num _⟩
  · split at h
    · simp only [List.mem_cons, List.mem_nil_iff, or_false] at h
      rw [h]; exact ⟨pk.2.1, SimpleV.str _ (hexEncodeLower_plain _)⟩
    · cases h
  · split at h
    · simp only [List.mem_cons, List.mem_nil_iff, or_false] at h
      rw [h]; exact ⟨pk.2.2.1, SimpleV.tt⟩
    · cases h
  · split at h
    · simp only [List.mem_cons, List.mem_nil_iff, or_false] at h
      rcases h with h | h
      · rw [h]; exact ⟨pk.2.2.2.1, SimpleV.tt⟩
      · rw [h]; exact ⟨pk.2.2.2.2, SimpleV.num _⟩
    · cases h

/-- Text round trip: for every valid frame whose unused data bytes are zero, decoding the JSON text the encoder
writes yields the identical frame. -/
theorem C16_roundtrip_text (f : Frame) (hv : f.validate = true) (hz : f.UnusedZero) :
    ∃ s, f.json = .ok s ∧ unmarshalJSON s = some f := by
  refine ⟨_, C16_members f hv, ?_⟩
  obtain ⟨hne, hs⟩ := expectedMembers_simple f
  have hp := parseJson_renderObj (expectedMembers f) hne hs
  have ht := C16_roundtrip_tree f hv hz
  unfold unmarshalJSON
  rw [hp]
  unfold asTree at ht
  cases hd : decodeJF (J.obj (List.map (fun kv => (strOf kv.fst, kv.snd)) (expectedMembers f))) with
  | none => rw [hd] at ht; cases ht
  | some jf => rw [hd] at ht; simp only [hd]; exact ht

/-- A remote frame without a length member is rejected. -/
theorem C16_remote_needs_length (jf : JF) (hr : jf.remote = some true) (hl : jf.length = none) :
    frameOfJF jf = none := by
  unfold frameOfJF
  cases hd : jf.data with
  | none => simp [hr, hl]
  | some s => cases hh : hexDecode s <;> simp [hr, hl, hh]

/-- Decoding is total: an error or a frame; the only partial operations of the Go code after `json.Unmarshal`
(`*jf.Data`, `*jf.Length`, ...) are guarded by nil tests, as in the model. -/
theorem C16_total (s : Str) : unmarshalJSON s = none ∨ ∃ f, unmarshalJSON s = some f := by
  cases h : unmarshalJSON s
  · exact Or.inl rfl
  · exact Or.inr ⟨_, rfl⟩

end CanVerif
