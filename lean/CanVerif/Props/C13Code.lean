import CanVerif.Gen.RunnerProg
import CanVerif.Lemmas.Prog
import CanVerif.Props.C13
/-!
# C13 (code tie)  The goroutine bodies translated from pkg/canrunner obey the lock discipline

`CanVerif.Gen.RunnerProg` is regenerated from `/repo`'s working tree by harness/cmd/extract on every run (go/types,
calls into the package inlined); the statements below are re-checked by `decide` against what the code says now.
`lockSafe p` runs the abstract interpreter `chk` (Model/Prog.lean, sound by `chk_sound`) with the lock monitor: on every
path through the goroutine body, state accesses happen while the lock is held, hook calls, transmissions and returns
while it is not, lock/unlock alternate.  `frameAfterHook` runs it with the monitor that accepts a transmission only
when the frame was marshalled after the latest hook call.  A change that moves a state access out of its critical
section, calls a hook or transmits while holding the lock, returns without unlocking, or marshals the frame before the
hook makes these fail; the check then looks for the offending schedule on the real functions (bin/props.py C13).
-/
namespace CanVerif

/-- every goroutine body of the runner obeys the lock discipline -/
theorem C13_code :
    lockSafe Gen.receiverThread = true ∧ lockSafe Gen.transmitterThread = true ∧ lockSafe Gen.runThread = true ∧
    Gen.spawned.all lockSafe = true := by
  decide +kernel

/-- the accesses the property lists all occur in the translated bodies (so `C13_code` is not vacuous): hooks and the
cyclic flag are read, times are set, frames are marshalled and unmarshalled, hooks are called, frames transmitted -/
theorem C13_code_accesses :
    Gen.receiverThread.atoms.contains (.access "AfterReceiveHook") = true ∧
    Gen.receiverThread.atoms.contains (.access "SetReceiveTime") = true ∧
    Gen.receiverThread.atoms.contains (.access "UnmarshalFrame") = true ∧ Gen.receiverThread.atoms.contains .hook = true ∧
    Gen.transmitterThread.atoms.contains (.access "BeforeTransmitHook") = true ∧
    Gen.transmitterThread.atoms.contains (.access "SetTransmitTime") = true ∧
    Gen.transmitterThread.atoms.contains (.access "Frame") = true ∧ Gen.transmitterThread.atoms.contains .hook = true ∧
    Gen.transmitterThread.atoms.contains .tx = true ∧
    Gen.transmitterThread.atoms.contains (.access "IsCyclicTransmissionEnabled") = true ∧
    Gen.receiverThread.atoms.contains .lock = true ∧ Gen.transmitterThread.atoms.contains .lock = true := by
  decide +kernel

/-- a transmitted frame reflects the state left by its before-transmit hook: on every path, the frame is marshalled
after the latest hook call and before the transmission -/
theorem C13_frame_after_hook : frameAfterHook Gen.transmitterThread = true := by decide +kernel

/-- What `lockSafe` means (soundness of the abstract interpreter instantiated): for every partial or complete
execution of the goroutine body, the lock monitor accepts its trace from "not holding the lock", and a complete
execution ends not holding it. -/
theorem C13_lockSafe_sound (p : Prog) (h : lockSafe p = true) (t : List Atom) (e : Exit) (hr : Run (.call p) t e) :
    ∃ held, foldM' lockMon false t = some held ∧ (e = .fall → held = false) := by
  unfold lockSafe at h
  cases hc : chk lockMon 4 (.call p) [false] with
  | none => rw [hc] at h; cases h
  | some o =>
    rw [hc] at h
    obtain ⟨s', f, a1, _⟩ := chk_sound lockMon 4 (.call p) [false] o hc false (List.mem_singleton.mpr rfl) t e hr
    refine ⟨s', f, fun he => ?_⟩
    have := (subset_spec o.fall [false]).mp h s' (a1 he)
    simpa using this

/-- the trace of a complete execution is a well-locked region in the sense of `C13_sound` -/
theorem foldM_lock_wellLocked (t : List Atom) (h : Bool) (hf : foldM' lockMon h t = some false) :
    wellLockedFrom h t = true := by
  induction t generalizing h with
  | nil => simp only [foldM', Option.some.injEq] at hf; subst hf; rfl
  | cons a r ih =>
    unfold foldM' at hf
    cases a <;> cases h <;> simp [lockMon] at hf <;> simp [wellLockedFrom] <;> exact ih _ hf

theorem C13_complete_runs_wellLocked (p : Prog) (h : lockSafe p = true) (t : List Atom) (hr : Run (.call p) t .fall) :
    wellLocked t = true := by
  obtain ⟨held, f, hh⟩ := C13_lockSafe_sound p h t .fall hr
  rw [hh rfl] at f
  exact foldM_lock_wellLocked t false f

end CanVerif
