import CanVerif.Gen.RunnerProg
import CanVerif.Props.C13
/-!
# C13 (code tie)  The regions extracted from pkg/canrunner/run.go satisfy the lock discipline

`CanVerif.Gen.RunnerProg` is regenerated from `/repo`'s working tree by harness/cmd/extract on every run; the
statements below are re-checked by `decide` against what the code says now.  A change that moves a state access out of
its critical section, calls a hook or transmits while holding the lock, or returns without unlocking makes
`C13_code` fail; the check then replays the offending schedule on the real functions (bin/props.py C13).
-/
namespace CanVerif

/-- position of the first atom satisfying `p` -/
def firstIdx (p : Atom → Bool) (l : List Atom) : Option Nat := l.findIdx? p

/-- in `transmit`: the before-transmit hook is called, then (in a later critical section) the frame is marshalled,
then it is transmitted -/
def hookThenFrameThenTx (l : List Atom) : Bool :=
  match firstIdx (· == .hook) l, firstIdx (· == .access "Frame") l, firstIdx (· == .tx) l with
  | some h, some f, some t => h < f && f < t
  | _, _, _ => false

/-- every region of the runner obeys the discipline of `C13_sound` -/
theorem C13_code :
    wellLocked Gen.receiverBody = true ∧ wellLocked Gen.transmitBody = true ∧ wellLocked Gen.setCyclicBody = true := by
  decide

/-- the accesses the property lists all occur in the regions (so `C13_code` is not vacuous): hooks and the cyclic
flag are read, times are set, frames are marshalled and unmarshalled -/
theorem C13_code_accesses :
    Gen.receiverBody.contains (.access "AfterReceiveHook") = true ∧ Gen.receiverBody.contains (.access "SetReceiveTime") = true ∧
    Gen.receiverBody.contains (.access "UnmarshalFrame") = true ∧ Gen.receiverBody.contains .hook = true ∧
    Gen.transmitBody.contains (.access "BeforeTransmitHook") = true ∧ Gen.transmitBody.contains (.access "SetTransmitTime") = true ∧
    Gen.transmitBody.contains (.access "Frame") = true ∧ Gen.transmitBody.contains .hook = true ∧ Gen.transmitBody.contains .tx = true ∧
    Gen.setCyclicBody.contains (.access "IsCyclicTransmissionEnabled") = true := by
  decide

/-- a transmitted frame reflects the state left by its before-transmit hook -/
theorem C13_frame_after_hook : hookThenFrameThenTx Gen.transmitBody = true := by decide

end CanVerif
