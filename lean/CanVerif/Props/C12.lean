import CanVerif.Model.DbcParse
/-!
# C12  Parsing any input terminates with success or a positioned, local error

Proved here (kernel-checked): the model is a total function of the bytes (so parsing terminates and parsing the
same bytes twice gives the same outcome — every definition of Model/TextScanner.lean, Model/Strconv.lean and
Model/DbcParse.lean is accepted by Lean's termination checker; every loop is structurally recursive on a fuel
argument), its outcome is one of four explicit classes, and the definitions reported are built strictly by appending:
whatever was accepted before is a prefix of what is reported at the end, for success and for error alike
(`C12_prefix_stable`), and each accepted definition was parsed with read-only access to the earlier ones.

Not proved (decided by the correspondence run only, see bin/props.py C12): that the `panic` and `outOfFuel` outcomes are
unreachable, and that the error *position* is not before the corrupted definition (the definitions half of the
locality clause is `C12_error_reports_accepted` + `C12_prefix_stable`).
-/
namespace CanVerif

/-- Totality / classification: on every byte string the result is success, a positioned error with the
definitions so far, or one of the two internal outcomes the correspondence run checks never to occur. -/
theorem C12_total (data : List UInt8) :
    (∃ ds, parseDbc data = .ok ds) ∨ (∃ p r ds, parseDbc data = .error p r ds) ∨
    (∃ s, parseDbc data = .panic s) ∨ parseDbc data = .outOfFuel := by
  cases h : parseDbc data with
  | ok ds => exact Or.inl ⟨ds, rfl⟩
  | error p r ds => exact Or.inr (Or.inl ⟨p, r, ds, rfl⟩)
  | panic s => exact Or.inr (Or.inr (Or.inl ⟨s, rfl⟩))
  | outOfFuel => exact Or.inr (Or.inr (Or.inr rfl))

/-- Determinism: the outcome is a function of the bytes. -/
theorem C12_deterministic (d₁ d₂ : List UInt8) (h : d₁ = d₂) : parseDbc d₁ = parseDbc d₂ := by rw [h]

def ParseResult.defs : ParseResult → List Def
  | .ok ds => ds
  | .error _ _ ds => ds
  | _ => []

def ParseResult.reports : ParseResult → Bool
  | .ok _ => true
  | .error .. => true
  | _ => false

/-- Definitions are only ever appended: the definitions accepted so far are a prefix of the reported ones. -/
theorem C12_prefix_stable (defFuel fuel : Nat) (defs : Array Def) (st : PS)
    (h : (parseAll defFuel fuel defs st).reports = true) :
    defs.toList <+: (parseAll defFuel fuel defs st).defs := by
  induction fuel generalizing defs st with
  | zero => simp [parseAll, ParseResult.reports] at h
  | succ n ih =>
    unfold parseAll at h ⊢
    split at h
    · exact List.prefix_refl _
    · simp [ParseResult.reports] at h
    · simp [ParseResult.reports] at h
    · exact List.prefix_refl _
    · next d st' _ =>
      have := ih (defs.push d) st' h
      refine List.IsPrefix.trans ?_ this
      simp

/-- The definition produced by one step is parsed with read-only access to the earlier definitions and the
step appends exactly that one definition (by the type of `parseStep`: it returns the new definition and the new
scanner state, never a modified list). -/
theorem C12_step_appends_one (defFuel fuel : Nat) (defs : Array Def) (st st' : PS) (d : Def)
    (h : parseStep defFuel defs st = .ok (some (d, st'))) :
    parseAll defFuel (fuel + 1) defs st = parseAll defFuel fuel (defs.push d) st' := by
  conv => lhs; unfold parseAll
  rw [h]

/-- Locality, definitions half (proved): when parsing fails after `k` successful steps, the definitions reported are
exactly the `k` definitions accepted so far — errors never add, drop or alter accepted definitions. -/
theorem C12_error_reports_accepted (defFuel fuel : Nat) (defs : Array Def) (st : PS) (p : Pos) (r : String)
    (e : PErr) (he : parseStep defFuel defs st = .error e) (hp : e = .parse p r) :
    parseAll defFuel (fuel + 1) defs st = .error p r defs.toList := by
  conv => lhs; unfold parseAll
  rw [he, hp]

end CanVerif
