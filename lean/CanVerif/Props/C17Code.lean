/-
C17 for the code as translated (T1): CheckBitRangeLittleEndian / CheckBitRangeBigEndian / CheckValue of data.go written
as Lean definitions by harness/cmd/go2lean on every run (`_ret = true` means a non-nil error), tied to the model by
Bridge/DataGo.lean for every uint8 frame length, start and length, with the theorems of Props/C17.lean restated.
-/
import CanVerif.Props.C17
import CanVerif.Bridge.DataGo

namespace CanVerif
open CanVerif.Gen.Go CanVerif.Bridge

theorem C17_code_le (fl s l : BitVec 8) (hl : 1 ≤ l.toNat) :
    CheckBitRangeLittleEndian_ret fl s l = false ↔ ∀ i, i < l.toNat → s.toNat + i < 8 * fl.toNat := by
  rw [(bridge_checkLE fl s l).1, ← C17_le fl.toNat s.toNat l.toNat hl]; simp

theorem C17_code_be (fl s l : BitVec 8) (hfl : fl.toNat ≤ 8) (hl : 1 ≤ l.toNat) :
    CheckBitRangeBigEndian_ret fl s l = false ↔ ∀ j, j < l.toNat → bePos s.toNat j < 8 * fl.toNat := by
  have hne : l ≠ 0#8 := by intro e; subst e; simp at hl
  rw [(bridge_checkBE fl s l hne).1, ← C17_be fl.toNat s.toNat l.toNat hfl hl]; simp

theorem C17_code_val (v : BitVec 64) (b : BitVec 8) (hb : b.toNat ≤ 64) :
    CheckValue_ret v b = false ↔ v.toNat < 2 ^ b.toNat := by
  rw [(bridge_checkValue v b).1, ← C17_val v b.toNat hb]; simp

/-- a passing translated check confines the translated accessors to the first `frameLength` bytes -/
theorem C17_code_confined (be : Bool) (fl s l : BitVec 8) (hfl : fl.toNat ≤ 8) (hl : 1 ≤ l.toNat)
    (hc : (if be then CheckBitRangeBigEndian_ret fl s l else CheckBitRangeLittleEndian_ret fl s l) = false) :
    (∀ d d' : BitVec 64, (∀ k, k < 8 * fl.toNat → payloadBit d k = payloadBit d' k) →
        (if be then Data_UnsignedBitsBigEndian_ret d s l else Data_UnsignedBitsLittleEndian_ret d s l) =
        (if be then Data_UnsignedBitsBigEndian_ret d' s l else Data_UnsignedBitsLittleEndian_ret d' s l)) ∧
    (∀ (d v : BitVec 64), Below v l.toNat → ∀ k, 8 * fl.toNat ≤ k →
        payloadBit (if be then Data_SetUnsignedBitsBigEndian_recv d s l v else Data_SetUnsignedBitsLittleEndian_recv d s l v) k
          = payloadBit d k) := by
  have hne : l ≠ 0#8 := by intro e; subst e; simp at hl
  have hc' : (if (Range.mk be s.toNat l.toNat).be then checkBE fl.toNat s.toNat l.toNat else checkLE fl.toNat s.toNat l.toNat) = true := by
    cases be
    · simp only [Bool.false_eq_true, if_false] at hc ⊢
      rw [(bridge_checkLE fl s l).1] at hc; simpa using hc
    · simp only [if_true] at hc ⊢
      rw [(bridge_checkBE fl s l hne).1] at hc; simpa using hc
  have := C17_confined ⟨be, s.toNat, l.toNat⟩ fl.toNat hfl hl hc'
  obtain ⟨_, _, hr, hw⟩ := this
  constructor
  · intro d d' hk
    have := hr d d' hk
    unfold readU at this
    cases be <;> simp_all [(bridge_readUBE _ s l).1, (bridge_readULE _ s l).1]
  · intro d v hv k hk
    have := hw d v hv k hk
    unfold writeU at this
    cases be <;> simp_all [(bridge_writeUBE _ s l _).1, (bridge_writeULE _ s l _).1]

/-- no check panics, for any argument -/
theorem C17_code_no_panic (fl s l : BitVec 8) (v : BitVec 64) :
    CheckBitRangeLittleEndian_ok fl s l = true ∧ CheckBitRangeBigEndian_ok fl s l = true ∧ CheckValue_ok v l = true :=
  ⟨(bridge_checkLE fl s l).2, (bridge_checkBE_bv fl s l).2, (bridge_checkValue v l).2⟩

end CanVerif
