import CanVerif.Lemmas.FrameText
import CanVerif.Lemmas.FrameText2
/-!
# C15  Frame <-> candump text: valid frames round-trip; parsing is total and atomic

`Frame.toStr` / `parseFrame` model `Frame.String` / `Frame.UnmarshalString` over byte strings.
Documented pattern: 3 or 8 hex digits, `#`, then `R` with an optional digit, or 0..8 hex byte pairs;
"either letter case" is a per-digit choice (`HexDigit = Bool × Fin 16`, the Bool selecting upper case).
"Unused data bytes are zero": the payload equals its first `length` bytes zero-padded (data frames),
resp. is zero (remote frames).
-/
namespace CanVerif

/-- unused data bytes are zero -/
def Frame.UnusedZero (f : Frame) : Prop :=
  if f.isRemote then f.data = 0#64 else dataOfBytes ((dataBytes f.data).take f.length.toNat) = f.data

/-- Parsing accepts every string of the documented pattern, in either letter case per digit, and decodes ID,
format (3 vs 8 digits), remote flag, length and data as written. -/
theorem C15_accept (ids : List HexDigit) (pl : Payload) (hid : ids.length = 3 ∨ ids.length = 8)
    (hpl : ∀ bs, pl = .data bs → bs.length ≤ 8) :
    parseFrame (patternStr ids pl) = some (denote ids pl) :=
  parse_pattern ids pl hid hpl

/-- the pattern instance printed for a valid frame: upper-case digits only -/
def printedIds (f : Frame) : List HexDigit := digitsOf (if f.isExtended then 8 else 3) f.id.toNat
def printedPayload (f : Frame) : Payload :=
  if f.isRemote then
    (if h : f.length.toNat = 0 then .remote none
     else .remote (some ⟨f.length.toNat % 10, Nat.mod_lt _ (by decide)⟩))
  else .data (((dataBytes f.data).take f.length.toNat).map pairOf)

theorem validate_bounds (f : Frame) (hv : f.validate = true) :
    f.id.toNat < 16 ^ (if f.isExtended then 8 else 3) ∧ f.length.toNat ≤ 8 := by
  unfold Frame.validate maxExtendedID maxID at hv
  cases he : f.isExtended <;> simp [he, BitVec.lt_def, BitVec.le_def] at hv ⊢ <;> omega

/-- The text form of a valid frame is an instance of the documented pattern with upper-case digits:
3 digits for standard, 8 for extended IDs, `#`, then upper-case hex data or `R` with an optional length. -/
theorem C15_print_shape (f : Frame) (hv : f.validate = true) :
    f.toStr = .ok (patternStr (printedIds f) (printedPayload f)) ∧
    (printedIds f).length = (if f.isExtended then 8 else 3) ∧ (∀ d ∈ printedIds f, d.1 = true) := by
  obtain ⟨hid, hlen⟩ := validate_bounds f hv
  refine ⟨?_, ?_, ?_⟩
  · unfold Frame.toStr patternStr printedIds printedPayload
    have hidstr : (if f.isExtended then fmtHexMin 8 f.id.toNat else fmtHexMin 3 f.id.toNat) =
        hexStr (digitsOf (if f.isExtended then 8 else 3) f.id.toNat) := by
      rw [hexStr_digitsOf]
      cases he : f.isExtended <;> simp only [he, if_true, if_false, Bool.false_eq_true] at hid ⊢ <;>
        simp [fmtHexMin, hid]
    simp only [hidstr]
    cases hr : f.isRemote
    · -- data frame
      have hl : ¬ f.length.toNat > 8 := by omega
      simp only [Bool.false_and, Bool.false_eq_true, if_false, hl, payloadStr, hexEncodeUpper_eq]
      simp
    · by_cases h0 : f.length.toNat = 0
      · simp [h0, payloadStr]
      · have hne : (f.length.toNat == 0) = false := by simpa using h0
        have hlt : f.length.toNat < 10 := by omega
        have hmod : f.length.toNat % 10 = f.length.toNat := Nat.mod_eq_of_lt hlt
        simp [hne, h0, payloadStr, decDigits_lt10 _ hlt, hmod]
  · unfold printedIds; exact digitsOf_length _ _
  · intro d hd
    unfold printedIds at hd
    generalize (if f.isExtended then 8 else 3) = k at hd
    generalize f.id.toNat = n at hd
    induction k generalizing n with
    | zero => simp [digitsOf] at hd
    | succ k ih =>
      simp only [digitsOf, List.mem_append, List.mem_singleton] at hd
      rcases hd with h | h
      · exact ih _ h
      · rw [h]

/-- Round trip: for every valid frame whose unused data bytes are zero, parsing the text form yields the frame. -/
theorem C15_roundtrip (f : Frame) (hv : f.validate = true) (hz : f.UnusedZero) :
    ∃ s, f.toStr = .ok s ∧ parseFrame s = some f := by
  obtain ⟨hs, hl, _⟩ := C15_print_shape f hv
  obtain ⟨hid, hlen⟩ := validate_bounds f hv
  refine ⟨_, hs, ?_⟩
  have hidl : (printedIds f).length = 3 ∨ (printedIds f).length = 8 := by
    rw [hl]; cases f.isExtended <;> simp
  have hpl : ∀ bs, printedPayload f = .data bs → bs.length ≤ 8 := by
    intro bs hbs
    unfold printedPayload at hbs
    split at hbs
    · split at hbs <;> cases hbs
    · injection hbs with e; rw [← e]; simp [dataBytes]; omega
  rw [parse_pattern _ _ hidl hpl]
  have hnum : BitVec.ofNat 32 (hexNum (printedIds f)) = f.id := by
    unfold printedIds
    rw [hexNum_digitsOf, Nat.mod_eq_of_lt hid]
    simp
  have hext : ((printedIds f).length == 8) = f.isExtended := by
    rw [hl]; cases f.isExtended <;> rfl
  have hlen8 : BitVec.ofNat 8 f.length.toNat = f.length := by simp
  generalize printedIds f = ids at *
  unfold Frame.UnusedZero at hz
  unfold printedPayload
  cases f with
  | mk fid len data rem ext =>
  simp only at *
  cases rem
  · -- data frame
    simp only [Bool.false_eq_true, if_false, denote, hnum, hext] at hz ⊢
    have e1 : (List.map pairOf (List.take len.toNat (dataBytes data))).length = len.toNat := by
      simp [dataBytes]; omega
    have e2 : List.map byteOf (List.map pairOf (List.take len.toNat (dataBytes data))) =
        List.take len.toNat (dataBytes data) := by
      rw [List.map_map]
      have : (byteOf ∘ pairOf) = (fun b => b) := by funext b; exact byteOf_pairOf b
      rw [this, List.map_id']
    rw [e1, e2, hz, hlen8]
  · simp only [if_true] at hz ⊢
    by_cases h0 : len.toNat = 0
    · simp only [h0, dite_true, denote, hnum, hext, hz]
      have : len = 0#8 := by apply BitVec.eq_of_toNat_eq; simpa using h0
      rw [this]
    · have hmod : len.toNat % 10 = len.toNat := Nat.mod_eq_of_lt (by omega)
      simp only [h0, dite_false, denote, hnum, hext, hz, hmod, hlen8]

/-- A parsed remote frame carries no data. -/
theorem C15_parsed_remote_zero (base : Frame) (dp : Str) (f : Frame) (hb : base.data = 0#64)
    (h : parsePayload base dp = some f) (hr : f.isRemote = true) (hbr : base.isRemote = false) : f.data = 0#64 := by
  unfold parsePayload at h
  dsimp only at h
  repeat' split at h
  all_goals (cases h <;> simp_all)

/-- Every frame the parser returns has zero unused data bytes (remote frames carry no data; a data frame's payload
is exactly the decoded bytes, zero-padded). -/
theorem C15_parsed_unused_zero (s : Str) (f : Frame) (h : parseFrame s = some f) : f.UnusedZero := by
  unfold parseFrame at h
  split at h
  · next idPart dataPart _ =>
    split at h
    · cases h
    · split at h
      · cases h
      · next id _ =>
        unfold parsePayload at h
        dsimp only at h
        split at h
        · cases h; simp [Frame.UnusedZero, dataOfBytes]
        · split at h
          · split at h
            · cases h
            · split at h
              · split at h
                · cases h; simp [Frame.UnusedZero]
                · cases h
              · cases h; simp [Frame.UnusedZero]
          · split at h
            · cases h
            · next hlen =>
              split at h
              · cases h
              · next bytes hdec =>
                cases h
                have hl := hexDecode_length dataPart bytes hdec
                have h8 : bytes.length ≤ 8 := by omega
                have hn : (BitVec.ofNat 8 (dataPart.length / 2)).toNat = bytes.length := by
                  simp; omega
                simp only [Frame.UnusedZero, Bool.false_eq_true, if_false, hn]
                rw [dataBytes_dataOfBytes bytes h8]
  · cases h

/-- Whenever the parsed frame is valid, printing and re-parsing it is the identity. -/
theorem C15_reprint (s : Str) (f : Frame) (h : parseFrame s = some f) (hv : f.validate = true) :
    ∃ s', f.toStr = .ok s' ∧ parseFrame s' = some f :=
  C15_roundtrip f hv (C15_parsed_unused_zero s f h)

/-- Totality and atomicity: for any byte string the parser returns an error (`none`; the destination is not
part of the result, hence untouched) or a frame.  Every partial operation of the Go code (`dataPart[0]`,
`dataPart[1:2]`) is guarded in the model by an explicit length test. -/
theorem C15_total (s : Str) : parseFrame s = none ∨ ∃ f, parseFrame s = some f := by
  cases h : parseFrame s
  · exact Or.inl rfl
  · exact Or.inr ⟨_, rfl⟩

/-- non-vacuity -/
example : (Frame.mk 0x123#32 2#8 0x0201#64 false false).validate = true ∧
    (Frame.mk 0x123#32 2#8 0x0201#64 false false).UnusedZero := by
  refine ⟨by decide, ?_⟩
  unfold Frame.UnusedZero
  decide

end CanVerif
