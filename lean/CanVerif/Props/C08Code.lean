/-
C08 for the code as translated (T1): the integer part of pkg/descriptor/signal.go written as Lean definitions by
harness/cmd/go2lean on every run, tied to Model/Signal.lean by Bridge/SignalGo.lean for every descriptor, payload and
value, with the theorems of Props/C08.lean restated about them.  `s : Gen.Go.Signal` is the translated struct; the
layout the statements refer to is the one its own fields give (`sigOf s`).
-/
import CanVerif.Props.C08
import CanVerif.Bridge.SignalGo

namespace CanVerif
open CanVerif.Gen.Go CanVerif.Bridge

theorem C08_code_unmarshal_unsigned (s : Gen.Go.Signal) (d : BitVec 64) (h : (sigOf s).range.Fits) (i : Nat) :
    (Signal_UnmarshalUnsigned_ret s d).getLsbD i =
      (decide (i < s.Length.toNat) && payloadBit d ((sigOf s).range.pos i)) ∧ Signal_UnmarshalUnsigned_ok s d = true := by
  rw [(bridge_sig_unmarshalUnsigned s d).1]
  exact ⟨C08_unmarshal_unsigned (sigOf s) d h i, (bridge_sig_unmarshalUnsigned s d).2⟩

theorem C08_code_unmarshal_signed (s : Gen.Go.Signal) (d : BitVec 64) (h : (sigOf s).range.Fits)
    (h1 : 1 ≤ s.Length.toNat) (h64 : s.Length.toNat ≤ 64) :
    Signal_UnmarshalSigned_ret s d = ((Signal_UnmarshalUnsigned_ret s d).setWidth s.Length.toNat).signExtend 64 ∧
    Signal_UnmarshalSigned_ok s d = true := by
  rw [(bridge_sig_unmarshalSigned s d).1, (bridge_sig_unmarshalUnsigned s d).1]
  exact ⟨C08_unmarshal_signed (sigOf s) d h h1 h64, (bridge_sig_unmarshalSigned s d).2⟩

theorem C08_code_marshal_unsigned (s : Gen.Go.Signal) (d v : BitVec 64) (h : (sigOf s).range.Fits)
    (hv : Below v s.Length.toNat) :
    (∀ i, i < s.Length.toNat → payloadBit (Signal_MarshalUnsigned_recv s d v) ((sigOf s).range.pos i) = v.getLsbD i) ∧
    (∀ k, (∀ i, i < s.Length.toNat → (sigOf s).range.pos i ≠ k) →
      payloadBit (Signal_MarshalUnsigned_recv s d v) k = payloadBit d k) ∧
    Signal_MarshalUnsigned_ok s d v = true := by
  rw [(bridge_sig_marshalUnsigned s d v).1]
  have := C08_marshal_unsigned (sigOf s) d v h hv
  exact ⟨this.1, this.2, (bridge_sig_marshalUnsigned s d v).2⟩

theorem C08_code_marshal_signed (s : Gen.Go.Signal) (d x : BitVec 64) (h1 : 1 ≤ s.Length.toNat) (h64 : s.Length.toNat ≤ 64) :
    Signal_MarshalSigned_recv s d x = Signal_MarshalUnsigned_recv s d (asUnsigned x s.Length.toNat) ∧
    Below (asUnsigned x s.Length.toNat) s.Length.toNat ∧ Signal_MarshalSigned_ok s d x = true := by
  rw [(bridge_sig_marshalSigned s d x).1, (bridge_sig_marshalUnsigned s d _).1]
  have := C08_marshal_signed (sigOf s) d x h1 h64
  exact ⟨this.1, this.2.1, (bridge_sig_marshalSigned s d x).2⟩

theorem C08_code_bool (s : Gen.Go.Signal) (d : BitVec 64) (b : Bool) (hs : s.Start.toNat ≤ 63) :
    Signal_UnmarshalBool_ret s d = payloadBit d s.Start.toNat ∧
    (∀ k, payloadBit (Signal_MarshalBool_recv s d b) k = if k = s.Start.toNat then b else payloadBit d k) ∧
    Signal_UnmarshalBool_ok s d = true ∧ Signal_MarshalBool_ok s d b = true := by
  rw [(bridge_sig_unmarshalBool s d).1, (bridge_sig_marshalBool s d b).1]
  have := C08_bool (sigOf s) d b hs
  exact ⟨this.1, this.2, (bridge_sig_unmarshalBool s d).2, (bridge_sig_marshalBool s d b).2⟩

/-- the raw bounds the translated descriptor reports, for every length 1..64 -/
theorem C08_code_bounds (s : Gen.Go.Signal) (h1 : 1 ≤ s.Length.toNat) (h64 : s.Length.toNat ≤ 64) :
    (Signal_MaxUnsigned_ret s).toNat = 2 ^ s.Length.toNat - 1 ∧
    (Signal_MinSigned_ret s).toInt = -(2 ^ (s.Length.toNat - 1) : Int) ∧
    (Signal_MaxSigned_ret s).toInt = (2 ^ (s.Length.toNat - 1) : Int) - 1 := by
  rw [(bridge_sig_maxUnsigned s).1, (bridge_sig_minSigned s).1, (bridge_sig_maxSigned s).1]
  exact C08_bounds _ h1 h64

/-- the translated saturated casts clamp to those bounds, for every int64 / uint64 argument -/
theorem C08_code_sat (s : Gen.Go.Signal) (x : BitVec 64) (h1 : 1 ≤ s.Length.toNat) (h64 : s.Length.toNat ≤ 64) :
    (Signal_SaturatedCastSigned_ret s x).toInt =
      max (-(2 ^ (s.Length.toNat - 1) : Int)) (min ((2 ^ (s.Length.toNat - 1) : Int) - 1) x.toInt) ∧
    (Signal_SaturatedCastUnsigned_ret s x).toNat = min x.toNat (2 ^ s.Length.toNat - 1) := by
  rw [(bridge_sig_satSigned s x).1, (bridge_sig_satUnsigned s x).1]
  exact ⟨C08_sat_signed _ x h1 h64, C08_sat_unsigned _ x h1 h64⟩

end CanVerif
