/-
C02 for the code as translated (T1): the setters of data.go written as Lean definitions by harness/cmd/go2lean on every
run, tied to the model by Bridge/DataGo.lean (all arguments), with the theorems of Props/C02.lean restated about them.
-/
import CanVerif.Props.C02
import CanVerif.Bridge.DataGo

namespace CanVerif
open CanVerif.Gen.Go CanVerif.Bridge

def codeWriteU (be : Bool) (d : BitVec 64) (s l : BitVec 8) (v : BitVec 64) : BitVec 64 :=
  if be then Data_SetUnsignedBitsBigEndian_recv d s l v else Data_SetUnsignedBitsLittleEndian_recv d s l v
def codeWriteS (be : Bool) (d : BitVec 64) (s l : BitVec 8) (x : BitVec 64) : BitVec 64 :=
  if be then Data_SetSignedBitsBigEndian_recv d s l x else Data_SetSignedBitsLittleEndian_recv d s l x

theorem codeWriteU_eq (be : Bool) (d : BitVec 64) (s l : BitVec 8) (v : BitVec 64) :
    codeWriteU be d s l v = writeU ⟨be, s.toNat, l.toNat⟩ d v := by
  unfold codeWriteU writeU; cases be <;> simp [(bridge_writeUBE d s l v).1, (bridge_writeULE d s l v).1]

theorem codeWriteS_eq (be : Bool) (d : BitVec 64) (s l : BitVec 8) (x : BitVec 64) :
    codeWriteS be d s l x = writeS ⟨be, s.toNat, l.toNat⟩ d x := by
  unfold codeWriteS writeS; cases be <;> simp [(bridge_writeSBE d s l x).1, (bridge_writeSLE d s l x).1]

/-- inside the range the payload holds the value's bits -/
theorem C02_code_write_inside (be : Bool) (d : BitVec 64) (s l : BitVec 8) (v : BitVec 64)
    (h : (Range.mk be s.toNat l.toNat).Fits) (hv : Below v l.toNat) (i : Nat) (hi : i < l.toNat) :
    payloadBit (codeWriteU be d s l v) ((Range.mk be s.toNat l.toNat).pos i) = v.getLsbD i := by
  rw [codeWriteU_eq]; exact C02_write_inside _ d v h hv i hi

/-- every payload bit outside the range is unchanged -/
theorem C02_code_write_outside (be : Bool) (d : BitVec 64) (s l : BitVec 8) (v : BitVec 64)
    (h : (Range.mk be s.toNat l.toNat).Fits) (hv : Below v l.toNat) (k : Nat)
    (hout : ∀ i, i < l.toNat → (Range.mk be s.toNat l.toNat).pos i ≠ k) :
    payloadBit (codeWriteU be d s l v) k = payloadBit d k := by
  rw [codeWriteU_eq]; exact C02_write_outside _ d v h hv k hout

/-- reading the range back with the translated reader returns the value written by the translated setter -/
theorem C02_code_read_after_write (be : Bool) (d : BitVec 64) (s l : BitVec 8) (v : BitVec 64)
    (h : (Range.mk be s.toNat l.toNat).Fits) (hv : Below v l.toNat) :
    (if be then Data_UnsignedBitsBigEndian_ret (codeWriteU be d s l v) s l
     else Data_UnsignedBitsLittleEndian_ret (codeWriteU be d s l v) s l) = v := by
  have := C02_read_after_write ⟨be, s.toNat, l.toNat⟩ d v h hv
  rw [codeWriteU_eq]
  unfold readU at this
  cases be <;> simp_all [(bridge_readUBE _ s l).1, (bridge_readULE _ s l).1]

/-- a signed write stores the low `length` two's-complement bits; reading back signed gives their sign extension -/
theorem C02_code_signed (be : Bool) (d : BitVec 64) (s l : BitVec 8) (x : BitVec 64)
    (h : (Range.mk be s.toNat l.toNat).Fits) (hl1 : 1 ≤ l.toNat) (hl : l.toNat ≤ 64) :
    codeWriteS be d s l x = codeWriteU be d s l (asUnsigned x l.toNat) ∧
    (if be then Data_SignedBitsBigEndian_ret (codeWriteS be d s l x) s l
     else Data_SignedBitsLittleEndian_ret (codeWriteS be d s l x) s l) = (x.setWidth l.toNat).signExtend 64 := by
  have h1 := (C02_signed_write ⟨be, s.toNat, l.toNat⟩ d x hl1 hl).1
  have h2 := C02_read_after_write_signed ⟨be, s.toNat, l.toNat⟩ d x h hl1 hl
  rw [codeWriteS_eq, codeWriteU_eq]
  refine ⟨h1, ?_⟩
  unfold readS at h2
  cases be <;> simp_all [(bridge_readSBE _ s l).1, (bridge_readSLE _ s l).1]

/-- writes to disjoint fitting ranges commute -/
theorem C02_code_disjoint_commute (be₁ be₂ : Bool) (d : BitVec 64) (s₁ l₁ s₂ l₂ : BitVec 8) (v₁ v₂ : BitVec 64)
    (h₁ : (Range.mk be₁ s₁.toNat l₁.toNat).Fits) (h₂ : (Range.mk be₂ s₂.toNat l₂.toNat).Fits)
    (hv₁ : Below v₁ l₁.toNat) (hv₂ : Below v₂ l₂.toNat)
    (hd : (Range.mk be₁ s₁.toNat l₁.toNat).Disjoint (Range.mk be₂ s₂.toNat l₂.toNat)) :
    codeWriteU be₁ (codeWriteU be₂ d s₂ l₂ v₂) s₁ l₁ v₁ = codeWriteU be₂ (codeWriteU be₁ d s₁ l₁ v₁) s₂ l₂ v₂ := by
  simp only [codeWriteU_eq]; exact C02_disjoint_commute _ _ d v₁ v₂ h₁ h₂ hv₁ hv₂ hd

/-- a call of a translated unsigned setter: byte order, uint8 start and length, value -/
structure CodeWrite where
  be : Bool
  s : BitVec 8
  l : BitVec 8
  v : BitVec 64

def CodeWrite.range (w : CodeWrite) : Range := ⟨w.be, w.s.toNat, w.l.toNat⟩
def CodeWrite.Ok (w : CodeWrite) : Prop := w.range.Fits ∧ Below w.v w.l.toNat
def applyCodeWrite (d : BitVec 64) (w : CodeWrite) : BitVec 64 := codeWriteU w.be d w.s w.l w.v

/-- histories of translated setter calls: any two orders of the same calls on pairwise-disjoint fitting ranges leave the
same payload -/
theorem C02_code_history (ws ws' : List CodeWrite) (hp : ws.Perm ws') (hok : ∀ w ∈ ws, w.Ok)
    (hdisj : ws.Pairwise (fun a b => a.range.Disjoint b.range)) (d : BitVec 64) :
    ws.foldl applyCodeWrite d = ws'.foldl applyCodeWrite d := by
  let conv : CodeWrite → Write := fun w => ⟨w.range, w.v⟩
  have e : ∀ (l : List CodeWrite) (d : BitVec 64), l.foldl applyCodeWrite d = (l.map conv).foldl applyWrite d := by
    intro l
    induction l with
    | nil => intro d; rfl
    | cons w r ih =>
      intro d
      simp only [List.foldl_cons, List.map_cons]
      rw [ih]
      congr 1
      exact codeWriteU_eq w.be d w.s w.l w.v
  rw [e, e]
  apply C02_history _ _ (hp.map conv)
  · intro w hw
    obtain ⟨x, hx, rfl⟩ := List.mem_map.mp hw
    exact hok x hx
  · exact List.pairwise_map.mpr hdisj

/-- `SetBit` of the translated code; no setter panics for any argument -/
theorem C02_code_setbit (d : BitVec 64) (i : BitVec 8) (b : Bool) (k : Nat) :
    payloadBit (Data_SetBit_recv d i b) k = (if k = i.toNat ∧ i.toNat ≤ 63 then b else payloadBit d k) ∧
    Data_SetBit_ok d i b = true := by
  rw [(bridge_setBit d i b).1]; exact ⟨C02_setbit d i.toNat k b, (bridge_setBit d i b).2⟩

theorem C02_code_no_panic (d : BitVec 64) (s l : BitVec 8) (v : BitVec 64) :
    Data_SetUnsignedBitsLittleEndian_ok d s l v = true ∧ Data_SetUnsignedBitsBigEndian_ok d s l v = true ∧
    Data_SetSignedBitsLittleEndian_ok d s l v = true ∧ Data_SetSignedBitsBigEndian_ok d s l v = true :=
  ⟨(bridge_writeULE d s l v).2, (bridge_writeUBE d s l v).2, (bridge_writeSLE d s l v).2, (bridge_writeSBE d s l v).2⟩

end CanVerif
