import CanVerif.Lemmas.Range
/-!
# C02  Bit-range writes change exactly the addressed bits; read-after-write is identity

Quantification: every payload, every fitting range, every unsigned value below `2^length`
(`Below v l`), every signed 64-bit value `x` (an arbitrary `BitVec 64`), every list of writes to
pairwise disjoint ranges and every permutation of it.
-/
namespace CanVerif

/-- Inside the range: after the write, the payload bit at the documented position of value bit `i`
equals value bit `i`. -/
theorem C02_write_inside (r : Range) (d : Data) (v : BitVec 64) (h : r.Fits) (hv : Below v r.l)
    (i : Nat) (hi : i < r.l) : payloadBit (writeU r d v) (r.pos i) = v.getLsbD i :=
  writeU_inside r d v h hv i hi

/-- Outside the range: every other payload bit is unchanged. -/
theorem C02_write_outside (r : Range) (d : Data) (v : BitVec 64) (h : r.Fits) (hv : Below v r.l)
    (k : Nat) (hout : ∀ i, i < r.l → r.pos i ≠ k) : payloadBit (writeU r d v) k = payloadBit d k :=
  writeU_outside r d v h hv k hout

/-- A signed write stores the low `length` two's-complement bits of any int64 value. -/
theorem C02_signed_write (r : Range) (d : Data) (x : BitVec 64) (hl1 : 1 ≤ r.l) (hl : r.l ≤ 64) :
    writeS r d x = writeU r d (asUnsigned x r.l) ∧ Below (asUnsigned x r.l) r.l ∧
    ∀ i, i < r.l → (asUnsigned x r.l).getLsbD i = x.getLsbD i := by
  refine ⟨by unfold writeS writeU writeSBE writeSLE; rfl, asUnsigned_below x r.l hl1 hl, ?_⟩
  intro i hi
  rw [asUnsigned_getLsbD x r.l i hl1 hl (by omega)]; simp [hi]

/-- Read after write returns the written value. -/
theorem C02_read_after_write (r : Range) (d : Data) (v : BitVec 64) (h : r.Fits) (hv : Below v r.l) :
    readU r (writeU r d v) = v :=
  readU_writeU r d v h hv

/-- Signed read after signed write returns the sign extension of the low `length` bits. -/
theorem C02_read_after_write_signed (r : Range) (d : Data) (x : BitVec 64) (h : r.Fits)
    (hl1 : 1 ≤ r.l) (hl : r.l ≤ 64) :
    readS r (writeS r d x) = (x.setWidth r.l).signExtend 64 := by
  have hw := (C02_signed_write r d x hl1 hl)
  have hb := hw.2.1
  have e : readS r (writeS r d x) = asSigned (readU r (writeS r d x)) r.l := by
    unfold readS readU readSBE readSLE; split <;> rfl
  rw [e, hw.1, readU_writeU r d _ h hb, asSigned_eq _ r.l hl1 hl hb]
  congr 1
  apply BitVec.eq_of_getLsbD_eq
  intro i hi
  rw [BitVec.getLsbD_setWidth, BitVec.getLsbD_setWidth, hw.2.2 i hi]

/-- Writes to disjoint ranges (possibly of different byte orders) commute. -/
theorem C02_disjoint_commute (r₁ r₂ : Range) (d : Data) (v₁ v₂ : BitVec 64) (h₁ : r₁.Fits) (h₂ : r₂.Fits)
    (hv₁ : Below v₁ r₁.l) (hv₂ : Below v₂ r₂.l) (hd : r₁.Disjoint r₂) :
    writeU r₁ (writeU r₂ d v₂) v₁ = writeU r₂ (writeU r₁ d v₁) v₂ :=
  writeU_comm r₁ r₂ d v₁ v₂ h₁ h₂ hv₁ hv₂ hd

structure Write where
  r : Range
  v : BitVec 64

def Write.Ok (w : Write) : Prop := w.r.Fits ∧ Below w.v w.r.l
def applyWrite (d : Data) (w : Write) : Data := writeU w.r d w.v

/-- Histories: any two orders of the same writes to pairwise-disjoint fitting ranges give the same payload. -/
theorem C02_history (ws ws' : List Write) (hp : ws.Perm ws') (hok : ∀ w ∈ ws, w.Ok)
    (hdisj : ws.Pairwise (fun a b => a.r.Disjoint b.r)) (d : Data) :
    ws.foldl applyWrite d = ws'.foldl applyWrite d := by
  apply hp.foldl_eq'
  intro x hx y hy z
  rcases pairwise_mem_cases hdisj hx hy with rfl | hxy | hyx
  · rfl
  · exact writeU_comm y.r x.r z y.v x.v (hok y hy).1 (hok x hx).1 (hok y hy).2 (hok x hx).2 hxy.symm
  · exact writeU_comm y.r x.r z y.v x.v (hok y hy).1 (hok x hx).1 (hok y hy).2 (hok x hx).2 hyx

/-- Single-bit set: changes exactly bit `i` (same numbering) and is a no-op above 63. -/
theorem C02_setbit (d : Data) (i k : Nat) (b : Bool) :
    payloadBit (setBit d i b) k = if k = i ∧ i ≤ 63 then b else payloadBit d k :=
  payloadBit_setBit d i k b

theorem C02_setbit_noop (d : Data) (i : Nat) (b : Bool) (h : 63 < i) : setBit d i b = d := by
  unfold setBit; simp [h]

/-- non-vacuity: two disjoint fitting ranges of different byte orders with in-range values. -/
example : (Range.mk false 0 12).Fits ∧ (Range.mk true 23 10).Fits ∧ Below 0xabc#64 12 ∧ Below 0x3ff#64 10 := by decide

end CanVerif
