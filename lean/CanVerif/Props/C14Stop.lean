import CanVerif.Model.RunGroup
/-!
# C14 (stop and fault clauses)  Cancelling stops the node cleanly; a failure is what `Run` returns

Model: Model/RunGroup.lean (the errgroup of `canrunner.Run`).  For every number of transmitters and every schedule:
* `C14_terminal_conn_closed`: when all goroutines have returned, the connection has been closed;
* `C14_clean_stop`: if no goroutine failed with an error other than the receiver's "closed connection" error, `Run`
  returns nil;
* `C14_fault_reported`: if the first error of the run is `e` and its text does not contain "closed", `Run` returns `e`
  (the complement, a hook error whose text contains "closed" being swallowed, is finding F2: `C14_F2_swallowed`);
* `C14_no_goroutine_left`: from every reachable state whose context is done, some goroutine can return, so the group
  drains (given that hooks, `Receive` on a closed connection and a select on a done context return, which the model
  assumes and the per-run checks measure on the real functions with a goroutine-leak check).
-/
namespace CanVerif

/-- invariant of the group: the closer is the only one that closes the connection and it only runs after `done`;
an error implies `done` -/
def GInv (s : GroupSt) : Prop :=
  (G.closer ∉ s.running → s.connClosed = true ∧ s.done = true) ∧ (s.connClosed = true → s.done = true) ∧
  (s.first.isSome → s.done = true) ∧ s.running.Nodup

theorem init_nodup (n : Nat) : (GroupSt.init n).running.Nodup := by
  unfold GroupSt.init
  have h : ((List.range n).map G.tx).Nodup :=
    List.Pairwise.map (S := fun x y => x ≠ y) G.tx (fun a b (h : a ≠ b) e => h (G.tx.inj e)) List.nodup_range
  refine List.nodup_cons.mpr ⟨by simp, List.nodup_cons.mpr ⟨by simp, h⟩⟩

theorem ginv_init (n : Nat) : GInv (GroupSt.init n) := by
  refine ⟨fun h => ?_, fun h => ?_, fun h => ?_, init_nodup n⟩
  · exact absurd (by simp [GroupSt.init]) h
  · simp [GroupSt.init] at h
  · simp [GroupSt.init] at h

theorem ginv_step (s s' : GroupSt) (e : GEvent) (hi : GInv s) (h : gStep s e = some s') : GInv s' := by
  obtain ⟨a, b, c, d⟩ := hi
  cases e with
  | callerCancel =>
    simp only [gStep, Option.some.injEq] at h; subst h
    exact ⟨fun h => ⟨(a h).1, rfl⟩, fun _ => rfl, fun _ => rfl, d⟩
  | exitErr g e =>
    simp only [gStep] at h
    split at h
    · next hg =>
      simp only [Option.some.injEq] at h; subst h
      refine ⟨fun h => ⟨(a ?_).1, rfl⟩, fun _ => rfl, fun _ => rfl, d.erase _⟩
      intro hc; exact h ((List.mem_erase_of_ne (Ne.symm hg.1)).mpr hc)
    · cases h
  | closerRuns =>
    simp only [gStep] at h
    split at h
    · next hg =>
      simp only [Option.some.injEq] at h; subst h
      exact ⟨fun _ => ⟨rfl, hg.1⟩, fun _ => hg.1, c, d.erase _⟩
    · cases h
  | recvClosed e =>
    simp only [gStep] at h
    split at h
    · next hg =>
      simp only [Option.some.injEq] at h; subst h
      refine ⟨fun h => ⟨(a ?_).1, rfl⟩, fun _ => rfl, fun _ => rfl, d.erase _⟩
      intro hc; exact h ((List.mem_erase_of_ne (by decide)).mpr hc)
    · cases h
  | txDone i =>
    simp only [gStep] at h
    split at h
    · next hg =>
      simp only [Option.some.injEq] at h; subst h
      refine ⟨fun h => a ?_, b, c, d.erase _⟩
      intro hc; exact h ((List.mem_erase_of_ne (by simp)).mpr hc)
    · cases h

theorem ginv_run (s s' : GroupSt) (es : List GEvent) (hi : GInv s) (h : gRun s es = some s') : GInv s' := by
  induction es generalizing s with
  | nil => simp only [gRun, Option.some.injEq] at h; subst h; exact hi
  | cons e r ih =>
    simp only [gRun] at h
    cases hs : gStep s e with
    | none => rw [hs] at h; cases h
    | some s1 => rw [hs] at h; exact ih s1 (ginv_step s s1 e hi hs) h

/-- when every goroutine has returned, the connection is closed -/
theorem C14_terminal_conn_closed (n : Nat) (es : List GEvent) (s : GroupSt)
    (h : gRun (GroupSt.init n) es = some s) (ht : s.running = []) : s.connClosed = true := by
  have := ginv_run _ _ es (ginv_init n) h
  exact (this.1 (by rw [ht]; simp)).1

/-- the first error is never replaced -/
theorem first_stable (s s' : GroupSt) (es : List GEvent) (e : GErr) (hf : s.first = some e)
    (h : gRun s es = some s') : s'.first = some e := by
  induction es generalizing s with
  | nil => simp only [gRun, Option.some.injEq] at h; subst h; exact hf
  | cons ev r ih =>
    simp only [gRun] at h
    cases hs : gStep s ev with
    | none => rw [hs] at h; cases h
    | some s1 =>
      rw [hs] at h
      refine ih s1 ?_ h
      cases ev <;> simp only [gStep] at hs <;> (try split at hs) <;>
        (try (simp only [Option.some.injEq] at hs; subst hs; simp [hf])) <;> (try cases hs)

/-- all errors seen by the group in a run have "closed" in their text -/
def onlyClosedErrors : List GEvent → Prop
  | [] => True
  | .exitErr _ e :: r => e.closedText = true ∧ onlyClosedErrors r
  | _ :: r => onlyClosedErrors r

theorem closed_first (s s' : GroupSt) (es : List GEvent) (hs : ∀ e, s.first = some e → e.closedText = true)
    (hc : onlyClosedErrors es) (h : gRun s es = some s') : ∀ e, s'.first = some e → e.closedText = true := by
  induction es generalizing s with
  | nil => simp only [gRun, Option.some.injEq] at h; subst h; exact hs
  | cons ev r ih =>
    simp only [gRun] at h
    cases hst : gStep s ev with
    | none => rw [hst] at h; cases h
    | some s1 =>
      rw [hst] at h
      have hr : onlyClosedErrors r := by cases ev <;> simp only [onlyClosedErrors] at hc <;> first | exact hc.2 | exact hc
      refine ih s1 ?_ hr h
      intro e he
      cases ev with
      | callerCancel => simp only [gStep, Option.some.injEq] at hst; subst hst; exact hs e he
      | exitErr g e' =>
        simp only [gStep] at hst
        split at hst
        · simp only [Option.some.injEq] at hst; subst hst
          simp only at he
          cases hf : s.first with
          | none => simp [hf] at he; subst he; exact hc.1
          | some e0 => simp [hf] at he; subst he; exact hs _ hf
        · cases hst
      | closerRuns =>
        simp only [gStep] at hst
        split at hst
        · simp only [Option.some.injEq] at hst; subst hst; exact hs e he
        · cases hst
      | recvClosed e' =>
        simp only [gStep] at hst
        split at hst
        · next hg =>
          simp only [Option.some.injEq] at hst; subst hst
          simp only at he
          cases hf : s.first with
          | none => simp [hf] at he; subst he; exact hg.2.2
          | some e0 => simp [hf] at he; subst he; exact hs _ hf
        · cases hst
      | txDone i =>
        simp only [gStep] at hst
        split at hst
        · simp only [Option.some.injEq] at hst; subst hst; exact hs e he
        · cases hst

/-- Clean stop: if the only errors of a run are "closed connection" errors (in particular when nothing fails and the
caller cancels), `Run` returns nil — whatever the schedule and the number of transmitters. -/
theorem C14_clean_stop (n : Nat) (es : List GEvent) (s : GroupSt)
    (h : gRun (GroupSt.init n) es = some s) (hc : onlyClosedErrors es) : runResult s = none := by
  have := closed_first _ _ es (by intro e he; simp [GroupSt.init] at he) hc h
  unfold runResult
  cases hf : s.first with
  | none => rfl
  | some e => simp [this e hf]

/-- Fault reported: once the group has recorded `e` as its first error, `Run` returns `e` unless its text contains
"closed" — whatever happens afterwards. -/
theorem C14_fault_reported (s s' : GroupSt) (es : List GEvent) (e : GErr) (hf : s.first = some e)
    (hne : e.closedText = false) (h : gRun s es = some s') : runResult s' = some e := by
  have := first_stable s s' es e hf h
  unfold runResult
  rw [this]; simp [hne]

/-- the first failing goroutine sets the first error -/
theorem C14_first_fault_recorded (s s' : GroupSt) (g : G) (e : GErr) (hn : s.first = none)
    (h : gStep s (.exitErr g e) = some s') : s'.first = some e ∧ s'.done = true := by
  simp only [gStep] at h
  split at h
  · simp only [Option.some.injEq] at h; subst h; simp [hn]
  · cases h

/-- Finding F2 in the model: an error whose text contains "closed" is reported as success. -/
theorem C14_F2_swallowed (s s' : GroupSt) (es : List GEvent) (e : GErr) (hf : s.first = some e)
    (hc : e.closedText = true) (h : gRun s es = some s') : runResult s' = none := by
  have := first_stable s s' es e hf h
  unfold runResult
  rw [this]; simp [hc]

/-- No goroutine left behind: in every reachable state whose context is done and in which some goroutine is still
running, some goroutine can return (the closer; then the receiver on the closed connection; a transmitter at any
time), and doing so shrinks the group. -/
theorem C14_no_goroutine_left (n : Nat) (es : List GEvent) (s : GroupSt)
    (h : gRun (GroupSt.init n) es = some s) (hd : s.done = true) (hr : s.running ≠ []) :
    ∃ ev s', gStep s ev = some s' ∧ s'.running.length < s.running.length := by
  have inv := ginv_run _ _ es (ginv_init n) h
  by_cases hc : G.closer ∈ s.running
  · have st : gStep s .closerRuns = some { s with running := s.running.erase .closer, connClosed := true } := by
      simp [gStep, hd, hc]
    refine ⟨.closerRuns, _, st, ?_⟩
    simp only [List.length_erase_of_mem hc]
    have := List.length_pos_of_mem hc
    omega
  · have hcc := (inv.1 hc).1
    obtain ⟨g, hg⟩ := List.exists_mem_of_ne_nil _ hr
    · cases g with
      | closer => exact absurd hg hc
      | receiver =>
        have st : gStep s (.recvClosed ⟨true, "closed"⟩) =
            some { s with running := s.running.erase .receiver, done := true, first := (s.first <|> some ⟨true, "closed"⟩) } := by
          simp [gStep, hcc, hg]
        refine ⟨.recvClosed ⟨true, "closed"⟩, _, st, ?_⟩
        simp only [List.length_erase_of_mem hg]
        have := List.length_pos_of_mem hg
        omega
      | tx i =>
        have st : gStep s (.txDone i) = some { s with running := s.running.erase (.tx i) } := by
          simp [gStep, hd, hg]
        refine ⟨.txDone i, _, st, ?_⟩
        simp only [List.length_erase_of_mem hg]
        have := List.length_pos_of_mem hg
        omega

/-- non-vacuity: a cancel-only run of a node with two transmitters that drains completely -/
example : ∃ s, gRun (GroupSt.init 2) [.callerCancel, .txDone 1, .closerRuns, .recvClosed ⟨true, "closed"⟩, .txDone 0] = some s ∧
    s.running = [] ∧ runResult s = none ∧ s.connClosed = true := ⟨_, rfl, by decide, by decide, by decide⟩

/-- non-vacuity: a hook failure while running -/
example : ∃ s, gRun (GroupSt.init 1) [.exitErr .receiver ⟨false, "hook failed"⟩, .closerRuns, .txDone 0] = some s ∧
    s.running = [] ∧ runResult s = some ⟨false, "hook failed"⟩ := ⟨_, rfl, by decide, by decide⟩

end CanVerif
