import CanVerif.Lemmas.Range
/-!
# C01  Bit-range reads return exactly the documented payload bits

Property theorems only (helper lemmas are in `Lemmas/`).  The model functions (`readU`, `readS`,
`getBit`, `asSigned`) are those of `Model/Bits.lean`, which the correspondence check runs against
`data.go` / `reinterpret.go` on every run.

Quantification: every payload `d : BitVec 64` (all 2^64), every range `r` (byte order, start, length)
with `r.Fits` (the 4160 fitting geometries, `C01_geometries`), every bit index.
-/
namespace CanVerif

/-- The documented walk of a big-endian range: from the start bit, each following (less significant)
bit is one lower in the same byte, continuing at bit 7 of the next byte. -/
theorem C01_be_walk (s k : Nat) :
    bePos s 0 = s ∧
    bePos s (k + 1) = (if bePos s k % 8 = 0 then 8 * (bePos s k / 8 + 1) + 7 else bePos s k - 1) := by
  refine ⟨rfl, ?_⟩
  show beStep (bePos s k) = _
  unfold beStep; split <;> omega

/-- Unsigned read, little-endian: value bit `i` is payload bit `start + i`; no bit at or above `length`. -/
theorem C01_le (d : Data) (s l i : Nat) :
    (readULE d s l).getLsbD i = (decide (i < l) && payloadBit d (s + i)) :=
  readULE_getLsbD d s l i

/-- Unsigned read, big-endian: the most significant value bit (`i = l-1`) is payload bit `start`,
value bit `i` is `l-1-i` steps along the documented walk. -/
theorem C01_be (d : Data) (s l i : Nat) (h : FitsBE s l) :
    (readUBE d s l).getLsbD i = (decide (i < l) && payloadBit d (bePos s (l - 1 - i))) :=
  readUBE_getLsbD d s l i h

/-- Both orders at once, as an integer: the read returns the integer whose binary digits are the
selected payload bits. -/
theorem C01_unsigned_value (r : Range) (d : Data) (h : r.Fits) :
    (readU r d).toNat = bitsToNat r.l (fun i => payloadBit d (r.pos i)) := by
  rw [toNat_eq_bitsToNat _ r.l (readU_below r d h)]
  apply bitsToNat_congr
  intro i hi
  rw [readU_getLsbD r d h i]; simp [hi]

/-- Signed read: the two's-complement interpretation (sign extension) of exactly those `l` bits. -/
theorem C01_signed (r : Range) (d : Data) (h : r.Fits) (hl1 : 1 ≤ r.l) (hl : r.l ≤ 64) :
    readS r d = ((readU r d).setWidth r.l).signExtend 64 := by
  have := asSigned_eq (readU r d) r.l hl1 hl (readU_below r d h)
  unfold readS readU readSBE readSLE at *
  split <;> simp_all

/-- … hence as an integer: `u` if the top selected bit is clear, `u - 2^l` if it is set. -/
theorem C01_signed_value (r : Range) (d : Data) (h : r.Fits) (hl1 : 1 ≤ r.l) (hl : r.l ≤ 64) :
    (readS r d).toInt =
      if (readU r d).getLsbD (r.l - 1) then ((readU r d).toNat : Int) - 2 ^ r.l else (readU r d).toNat := by
  rw [C01_signed r d h hl1 hl, BitVec.toInt_signExtend_of_le hl]
  have hb := readU_below r d h
  unfold Below at hb
  rw [BitVec.toInt_eq_msb_cond, BitVec.msb_eq_getLsbD_last, BitVec.getLsbD_setWidth]
  have : r.l - 1 < r.l := by omega
  simp only [this, decide_true, Bool.true_and, BitVec.toNat_setWidth, Nat.mod_eq_of_lt hb]
  split <;> simp

/-- Single-bit get uses the same numbering and is false above 63. -/
theorem C01_bit (d : Data) (i : Nat) : getBit d i = (decide (i ≤ 63) && payloadBit d i) := by
  unfold getBit payloadBit
  by_cases h : i > 63
  · have : ¬ i ≤ 63 := by omega
    simp [h, this]
  · have : i ≤ 63 := by omega
    simp [h, this]

/-- The positions of a fitting range are payload bits (below 64) and pairwise distinct. -/
theorem C01_positions (r : Range) (h : r.Fits) (i j : Nat) (hi : i < r.l) (hj : j < r.l) :
    r.pos i < 64 ∧ (r.pos i = r.pos j → i = j) := by
  refine ⟨r.pos_lt h i hi, fun e => ?_⟩
  have a := r.pidx_pos h i hi
  have b := r.pidx_pos h j hj
  rw [e] at a; omega

/-- all candidate (start, length) pairs in both orders, filtered by `Fits` -/
def geometries : List Range :=
  (List.range 64).flatMap fun s => (List.range 65).flatMap fun l =>
    (if FitsLE s l then [Range.mk false s l] else []) ++ (if FitsBE s l then [Range.mk true s l] else [])

/-- there are exactly 4160 fitting geometries (the number the correspondence check enumerates). -/
theorem C01_geometries : geometries.length = 4160 := by decide +kernel

/-- non-vacuity: the example range of data.go's documentation (length 32 at bit 29) fits in both orders. -/
example : (Range.mk false 29 32).Fits ∧ (Range.mk true 29 32).Fits := by decide

end CanVerif
