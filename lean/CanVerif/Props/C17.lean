import CanVerif.Lemmas.Range
/-!
# C17  Range and value checks are exact and keep the access inside the frame

`checkLE`, `checkBE`, `checkValue` are the models of `CheckBitRangeLittleEndian`,
`CheckBitRangeBigEndian`, `CheckValue` (true = nil error).  The correspondence check enumerates the
complete domain (1 175 040 cases) against the real functions on every run.
-/
namespace CanVerif

/-- little-endian: passes exactly when every bit `start+i` lies inside the first `fl` bytes. -/
theorem C17_le (fl s l : Nat) (hl : 1 ≤ l) :
    checkLE fl s l = true ↔ ∀ i, i < l → s + i < 8 * fl := by
  unfold checkLE
  simp only [Bool.not_eq_true', decide_eq_false_iff_not]
  constructor
  · intro h i hi; omega
  · intro h; have := h (l - 1) (by omega); omega

/-- big-endian: passes exactly when every position of the documented walk lies inside the first `fl` bytes. -/
theorem C17_be (fl s l : Nat) (hfl : fl ≤ 8) (hl : 1 ≤ l) :
    checkBE fl s l = true ↔ ∀ j, j < l → bePos s j < 8 * fl := by
  unfold checkBE
  constructor
  · intro h j hj
    by_cases c1 : s ≥ fl * 8 ∨ s > 63
    · simp [c1] at h
    · have hs : s < 64 := by omega
      have c1' : ¬ (s ≥ fl * 8) := by omega
      have c1'' : ¬ (s > 63) := by omega
      simp only [c1', c1'', decide_false, Bool.or_self, Bool.false_eq_true, if_false] at h
      by_cases c2 : ((invIdx s : Int) - (l : Int) + 1 < 0)
      · simp [c2] at h
      · simp only [c2, if_false, Bool.not_eq_true', decide_eq_false_iff_not] at h
        have hle : l - 1 ≤ invIdx s := by omega
        have e : ((invIdx s : Int) - (l : Int) + 1).toNat = invIdx s - (l - 1) := by omega
        rw [e] at h
        rw [bePos_eq s j hs (by omega)]
        have hi := invIdx_lt s hs
        unfold invIdx at h ⊢
        generalize (7 - s / 8) * 8 + s % 8 = m at *
        omega
  · intro h
    have h0 := h 0 (by omega)
    have hs : s < 64 := by simp [bePos] at h0; omega
    have hlast := h (l - 1) (by omega)
    have hle : l - 1 ≤ invIdx s := by
      by_cases hc : l - 1 ≤ invIdx s
      · exact hc
      · have := bePos_over s hs (l-1) (by omega); omega
    have c1' : ¬ (s ≥ fl * 8) := by simp [bePos] at h0; omega
    have c1'' : ¬ (s > 63) := by omega
    simp only [c1', c1'', decide_false, Bool.or_self, Bool.false_eq_true, if_false]
    have c2 : ¬ ((invIdx s : Int) - (l : Int) + 1 < 0) := by omega
    simp only [c2, if_false, Bool.not_eq_true', decide_eq_false_iff_not]
    have e : ((invIdx s : Int) - (l : Int) + 1).toNat = invIdx s - (l - 1) := by omega
    rw [e, ← bePos_eq s (l-1) hs hle]
    omega

/-- value check: passes exactly when the value is below `2^bits`, for every `bits` in 1..64. -/
theorem C17_val (v : BitVec 64) (bits : Nat) (hb : bits ≤ 64) :
    checkValue v bits = true ↔ v.toNat < 2 ^ bits := by
  unfold checkValue
  by_cases h : bits ≥ 64
  · have : bits = 64 := by omega
    subst this
    simp [v.isLt]
  · simp only [h, if_false, Bool.not_eq_true', decide_eq_false_iff_not, BitVec.not_le]
    have hlt : bits < 64 := by omega
    have h2 : 2 ^ bits < 2 ^ 64 := Nat.pow_lt_pow_right (by omega) hlt
    rw [BitVec.lt_def, BitVec.toNat_shiftLeft]
    simp only [BitVec.toNat_ofNat]
    rw [Nat.mod_eq_of_lt (by decide : 1 < 2^64), Nat.one_shiftLeft, Nat.mod_eq_of_lt h2]

/-- A passing check (on a real frame length 0..8) means the range fits the payload and all of its
positions are inside the first `fl` bytes; by C01 a read depends only on those bits and by C02 a
write changes only those bits. -/
theorem C17_confined (r : Range) (fl : Nat) (hfl : fl ≤ 8) (hl : 1 ≤ r.l)
    (hc : (if r.be then checkBE fl r.s r.l else checkLE fl r.s r.l) = true) :
    r.Fits ∧ (∀ i, i < r.l → r.pos i < 8 * fl) ∧
    (∀ d d' : Data, (∀ k, k < 8 * fl → payloadBit d k = payloadBit d' k) → readU r d = readU r d') ∧
    (∀ (d : Data) (v : BitVec 64), Below v r.l → ∀ k, 8 * fl ≤ k → payloadBit (writeU r d v) k = payloadBit d k) := by
  have hpos : ∀ i, i < r.l → r.pos i < 8 * fl := by
    intro i hi
    unfold Range.pos
    split at hc
    · next hb => simp only [hb, if_true]; exact (C17_be fl r.s r.l hfl hl).1 hc _ (by omega)
    · next hb => simp only [hb]; exact (C17_le fl r.s r.l hl).1 hc i hi
  have hfits : r.Fits := by
    unfold Range.Fits
    split at hc
    · next hb =>
      simp only [hb, if_true]
      have h := (C17_be fl r.s r.l hfl hl).1 hc
      have h0 := h 0 (by omega)
      have hlast := h (r.l - 1) (by omega)
      have hs : r.s < 64 := by simp [bePos] at h0; omega
      refine ⟨hl, ?_, hs, by omega⟩
      by_cases hc' : r.l - 1 ≤ invIdx r.s
      · have := invIdx_lt r.s hs; omega
      · have := bePos_over r.s hs (r.l-1) (by omega); omega
    · next hb =>
      simp only [hb]
      have h := (C17_le fl r.s r.l hl).1 hc (r.l - 1) (by omega)
      exact ⟨hl, by omega⟩
  refine ⟨hfits, hpos, ?_, ?_⟩
  · intro d d' hd
    apply BitVec.eq_of_getLsbD_eq
    intro i _
    rw [readU_getLsbD r d hfits, readU_getLsbD r d' hfits]
    by_cases hi : i < r.l
    · rw [hd _ (hpos i hi)]
    · simp [hi]
  · intro d v hv k hk
    apply writeU_outside r d v hfits hv k
    intro i hi e
    have := hpos i hi
    omega

/-- non-vacuity -/
example : checkBE 8 7 64 = true ∧ checkLE 8 0 64 = true ∧ checkBE 2 7 17 = false := by decide

end CanVerif
