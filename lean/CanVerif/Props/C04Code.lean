/-
C04 / C05 / C12 for the code as translated (T1): the message-ID functions of pkg/dbc/messageid.go.  The parser accepts
exactly the IDs `C04_msgid_valid` describes, and the compiler strips the extended flag / reads the ID format as the
model does, for every 32-bit ID.
-/
import CanVerif.Props.C04
import CanVerif.Bridge.MsgIdGo

namespace CanVerif
open CanVerif.Gen.Go CanVerif.Bridge

/-- `MessageID.Validate` returns nil exactly for standard IDs up to 0x7FF, extended IDs (bit 31 set) with a 29-bit CAN ID,
and the independent-signals pseudo ID -/
theorem C04_code_msgid_valid (m : BitVec 32) :
    MessageID_Validate_ret m = false ↔
      (m.toNat ≤ 0x7ff ∨ (2 ^ 31 ≤ m.toNat ∧ m.toNat - 2 ^ 31 ≤ 0x1fffffff) ∨ m.toNat = 0xc0000000) := by
  rw [(bridge_msgid m).2.2, ← C04_msgid_valid m.toNat m.isLt]; simp

/-- `ToCAN` strips exactly the extended flag; `IsExtended` is bit 31 except for the pseudo ID -/
theorem C05_code_msgid (m : BitVec 32) :
    (MessageID_ToCAN_ret m).toNat = (if m.toNat / 2 ^ 31 % 2 = 1 then m.toNat - 2 ^ 31 else m.toNat) ∧
    MessageID_IsExtended_ret m = (m.toNat != 0xc0000000 && m.toNat / 2 ^ 31 % 2 == 1) := by
  obtain ⟨h1, h2, _⟩ := bridge_msgid m
  rw [h1, h2]
  unfold toCAN msgIsExtended
  refine ⟨?_, rfl⟩
  by_cases hb : m.toNat / 2 ^ 31 % 2 = 1 <;> simp [hb]

end CanVerif
