import CanVerif.Lemmas.FloatMono
import CanVerif.Props.C09
/-!
# C09 (monotonicity)  The physical-to-raw conversion is monotone in its argument

`fromPhysical` (Model/Phys.lean) is clamp → subtract the offset → divide by the factor → saturate, over the software
binary64 of Model/SoftFloat.lean.  For every signal whose offset is finite and whose factor is finite and non-zero, and
for all non-NaN arguments (infinities included): if `p ≤ q` then `fromPhysical p ≤ fromPhysical q` when the factor is
positive and `fromPhysical q ≤ fromPhysical p` when it is negative (`C09_fromPhysical_monotone`; order = the order key,
which for non-NaN doubles is the numeric order with ±0 identified).

How: `roundF64` is `(E+1074)·2^52 + roundHalfEven(v/2^E)` with `E` the clamped binade of `v` (`pick_spec`), which is
monotone in the rational `v` (`roundBits_mono`); `f64Add`, `f64Sub`, `f64Div` return the correctly rounded exact
rational result for finite operands (`add_exact`, `div_exact`), so their keys are a monotone function of the exact
result (`Kpair_mono`); the key of a finite double is ordered like its rational value (`key_le_iff`); infinities are
handled case by case; `math.Max` / `math.Min` act as max / min on keys (`C09_max_key`, `C09_min_key`).
The arithmetic about ℚ and `zpow` in Lemmas/RoundMono.lean, FloatVal.lean, FloatMono.lean uses Mathlib tactics
(`nlinarith`, `field_simp`, `push_cast`); the model itself stays core Lean.
-/
namespace CanVerif

theorem notNaN_iff_ext (x : F64) : NotNaN x ↔ Ext x := by
  unfold NotNaN Ext f64IsNaN
  simp only [decide_eq_false_iff_not]; omega

theorem ext_of_key (x : F64) (h1 : -(infKey : ℤ) ≤ f64Key x) (h2 : f64Key x ≤ (infKey : ℤ)) : Ext x := by
  unfold Ext; rw [f64Inf_eq]
  unfold f64Key at h1 h2
  have : (f64Mag x : ℤ) ≤ (infKey : ℤ) := by split at h1 <;> simp_all <;> omega
  exact_mod_cast this

theorem ofNat_notNaN (n : ℕ) : NotNaN (f64OfNat n) := by
  rw [notNaN_iff_ext]
  unfold Ext f64OfNat roundF64
  by_cases h0 : n = 0
  · subst h0; decide
  · have h0' : (n == 0) = false := by simpa using h0
    have h1 : ((1 : ℕ) == 0) = false := by decide
    simp only [h0', h1, Bool.or_self, Bool.false_eq_true, if_false]
    by_cases hb : roundBits n 1 ≥ 2047 * 2 ^ 52
    · simp only [hb, if_true, Option.getD_none]; decide
    · simp only [hb, if_false, Option.getD_some]
      unfold f64Mag f64SignBit f64Inf
      have : roundBits n 1 % 2 ^ 63 = roundBits n 1 := Nat.mod_eq_of_lt (by omega)
      rw [this]; omega

theorem ofInt_notNaN (i : ℤ) : NotNaN (f64OfInt i) := by
  unfold f64OfInt
  split
  · rw [notNaN_iff_ext]
    have := (notNaN_iff_ext _).mp (ofNat_notNaN i.natAbs)
    unfold Ext at *
    rw [neg_mag]; exact this
  · exact ofNat_notNaN _

/-- keys through `math.Max` / `math.Min` -/
theorem key_max (x y : F64) (hx : NotNaN x) (hy : NotNaN y) : f64Key (f64Max x y) = max (f64Key x) (f64Key y) :=
  (C09_max_key x y hx hy).2
theorem key_min (x y : F64) (hx : NotNaN x) (hy : NotNaN y) : f64Key (f64Min x y) = min (f64Key x) (f64Key y) :=
  (C09_min_key x y hx hy).2

/-- The physical-to-raw conversion is monotone in its argument: non-decreasing for a positive factor, non-increasing
for a negative one, for all non-NaN arguments. -/
theorem C09_fromPhysical_monotone (s : DSignal) (p q : F64)
    (hp : NotNaN p) (hq : NotNaN q) (hpq : f64Key p ≤ f64Key q)
    (hoff : f64Mag s.offset < f64Inf) (hoffw : s.offset < 2 ^ 64)
    (hsc : f64Mag s.scale < f64Inf) (hscz : f64Mag s.scale ≠ 0)
    (hmin : NotNaN s.min) (hmax : NotNaN s.max) :
    if f64IsNeg s.scale then f64Key (fromPhysical s q) ≤ f64Key (fromPhysical s p)
    else f64Key (fromPhysical s p) ≤ f64Key (fromPhysical s q) := by
  -- stage 1: clamp
  have st1 : ∃ cp cq, NotNaN cp ∧ NotNaN cq ∧ f64Key cp ≤ f64Key cq ∧
      (if hasRange s then f64Max (f64Min p s.max) s.min else p) = cp ∧
      (if hasRange s then f64Max (f64Min q s.max) s.min else q) = cq := by
    by_cases hr : hasRange s = true
    · simp only [hr, if_true]
      have a1 := min_notNaN p s.max hp hmax
      have a2 := min_notNaN q s.max hq hmax
      refine ⟨_, _, max_notNaN _ _ a1 hmin, max_notNaN _ _ a2 hmin, ?_, rfl, rfl⟩
      rw [key_max _ _ a1 hmin, key_max _ _ a2 hmin, key_min _ _ hp hmax, key_min _ _ hq hmax]
      omega
    · simp only [hr, if_false]
      exact ⟨p, q, hp, hq, hpq, rfl, rfl⟩
  obtain ⟨cp, cq, ncp, ncq, hc, ep, eq⟩ := st1
  -- stage 2: subtract the offset
  obtain ⟨hs, lo1, hi2⟩ := sub_mono cp cq s.offset ((notNaN_iff_ext _).mp ncp) ((notNaN_iff_ext _).mp ncq) hoff hoffw hc
  have bnd := fun x (hx : Ext x) => sub_mono x x s.offset hx hx hoff hoffw (le_refl _)
  have esp : Ext (f64Sub cp s.offset) := by
    obtain ⟨_, a, b⟩ := bnd cp ((notNaN_iff_ext _).mp ncp); exact ext_of_key _ a b
  have esq : Ext (f64Sub cq s.offset) := by
    obtain ⟨_, a, b⟩ := bnd cq ((notNaN_iff_ext _).mp ncq); exact ext_of_key _ a b
  -- stage 3: divide by the factor
  obtain ⟨hd, ⟨d1a, d1b⟩, ⟨d2a, d2b⟩⟩ := div_mono _ _ s.scale esp esq hsc hscz hs
  have nrp : NotNaN (f64Div (f64Sub cp s.offset) s.scale) := (notNaN_iff_ext _).mpr (ext_of_key _ d1a d1b)
  have nrq : NotNaN (f64Div (f64Sub cq s.offset) s.scale) := (notNaN_iff_ext _).mpr (ext_of_key _ d2a d2b)
  -- stage 4: saturate
  have sat : ∀ (lo hi : F64), NotNaN lo → NotNaN hi → ∀ r, NotNaN r →
      f64Key (f64Max lo (f64Min hi r)) = max (f64Key lo) (min (f64Key hi) (f64Key r)) := by
    intro lo hi hlo hhi r hr
    rw [key_max _ _ hlo (min_notNaN _ _ hhi hr), key_min _ _ hhi hr]
  unfold fromPhysical
  simp only [ep, eq]
  by_cases hsg : s.signed = true
  · simp only [hsg, if_true]
    rw [sat _ _ (ofInt_notNaN _) (ofInt_notNaN _) _ nrp, sat _ _ (ofInt_notNaN _) (ofInt_notNaN _) _ nrq]
    cases hn : f64IsNeg s.scale <;> rw [hn] at hd <;> simp only [Bool.false_eq_true, if_false, if_true] at hd ⊢ <;> omega
  · have hsg' : s.signed = false := by simpa using hsg
    simp only [hsg', Bool.false_eq_true, if_false]
    have z : NotNaN (0 : F64) := by unfold NotNaN; decide
    rw [sat _ _ z (ofNat_notNaN _) _ nrp, sat _ _ z (ofNat_notNaN _) _ nrq]
    cases hn : f64IsNeg s.scale <;> rw [hn] at hd <;> simp only [Bool.false_eq_true, if_false, if_true] at hd ⊢ <;> omega

end CanVerif
