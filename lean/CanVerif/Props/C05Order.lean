import CanVerif.Lemmas.CompileOrder
/-!
# C05 (order)  Reordering the definitions of a file never changes the compiled database

`compile` (Model/Compile.lean) is `sortDescriptors ∘ addMetadata ∘ collectDescriptors`.  For definition lists in the
§4.2 class — CAN IDs pairwise distinct after stripping the extended flag, signal names distinct inside a message, node
names distinct (`Uniq (collect defs)`), at most one `VERSION`, and metadata definitions about pairwise different
(kind, object, attribute) (`KeyCompat`) — every permutation of the definitions compiles to the *same* database
(`C05_order_invariant`).  The proof: under `Uniq`, "attach to the first match" is a pointwise update of every match
(`metaStep_db`), pointwise updates about different things commute (`dStep_comm`, by the 49 pairs of metadata kinds) and
respect permutations of the message and node lists (`fold_dStep_equiv`), `collectDescriptors` of a permutation is a
permutation (`collect_equiv`), and sorting two permutations with distinct keys gives the same list
(`sortDescriptors_equiv`, from `C05_sorted_unique`).  Not covered here: permuting the signals *inside* one message
definition and the names inside one `BU_` line (single definitions, not list positions) — decided per run; the
multiset of warnings.
-/
namespace CanVerif

theorem C05_order_invariant (defs defs' : List Def) (hp : defs.Perm defs')
    (hu : Uniq (collect defs)) (hv : (defs.filterMap verVal).length ≤ 1) (hk : defs.Pairwise KeyCompat) :
    (compile defs).1 = (compile defs').1 := by
  unfold compile addMetadata
  have e0 := collect_equiv defs defs' hp hv
  have hu' := uniq_of_equiv _ _ e0 hu
  have a1 := addMetadata_db defs (collect defs, []) hu
  have a2 := addMetadata_db defs' (collect defs', []) hu'
  simp only at a1 a2
  show sortDescriptors (defs.foldl metaStep (collect defs, [])).1 = sortDescriptors (defs'.foldl metaStep (collect defs', [])).1
  rw [a1, a2, ← fold_dStep_perm defs defs' hp hk (collect defs')]
  apply sortDescriptors_equiv _ _ (fold_dStep_equiv defs _ _ e0)
  -- the folded database is still unique
  have : ∀ (l : List Def) (db : Database), Uniq db → Uniq (l.foldl (fun db d => dStep d db) db) := by
    intro l
    induction l with
    | nil => intro db h; exact h
    | cons d r ih => intro db h; exact ih _ (dStep_uniq d db h)
  exact this defs _ hu

/-- the metadata part alone: on a database with unique keys, metadata definitions about pairwise different things
may come in any order -/
theorem C05_metadata_order (defs defs' : List Def) (hp : defs.Perm defs') (hk : defs.Pairwise KeyCompat)
    (db : Database) (hu : Uniq db) : (addMetadata defs db).1 = (addMetadata defs' db).1 := by
  unfold addMetadata
  rw [addMetadata_db defs (db, []) hu, addMetadata_db defs' (db, []) hu]
  exact fold_dStep_perm defs defs' hp hk db

/-- non-vacuity: two messages with a same-named signal, a comment, a cycle time and a value type, in class -/
def exDefs (idB : Nat) : List Def :=
  [.message default 100 (bs "A") 8 (bs "N") [{ pos := default, name := bs "S", size := 32 }],
   .message default idB (bs "B") 8 (bs "N") [{ pos := default, name := bs "S", size := 8 }],
   .comment default .message [] 100 [] [] (bs "about A"),
   .attrValue default (bs "GenMsgCycleTime") .message 100 [] [] [] 10 0 [],
   .sigValType default 100 (bs "S") 1]

instance : DecidableRel KeyCompat := fun a b => by unfold KeyCompat; infer_instance

example : Uniq (collect (exDefs 200)) ∧ ((exDefs 200).filterMap verVal).length ≤ 1 ∧ (exDefs 200).Pairwise KeyCompat :=
  ⟨⟨by decide, by decide, by decide⟩, by decide, by decide⟩

example : (compile (exDefs 200)).1 = (compile (exDefs 200).reverse).1 :=
  C05_order_invariant _ _ (List.reverse_perm _).symm ⟨by decide, by decide, by decide⟩ (by decide) (by decide)

/-- … and why the class asks for distinct IDs *after* stripping the extended flag: with 100 and 0x80000064 (the same
CAN ID in the other format) the value type lands on whichever message comes first, so the order matters. -/
example : (compile (exDefs 2147483748)).1 ≠ (compile (exDefs 2147483748).reverse).1 := by decide +kernel

end CanVerif
