import CanVerif.Lemmas.ParseTerm
import CanVerif.Lemmas.ParseNoPanic
import CanVerif.Props.C12
/-!
# C12 (termination, no panic)  Parsing any input terminates with success or a positioned error

Every loop of the model carries a bound ("fuel": source length + 2 for the parser's loops, characters left + 2 for the
scanner's, one step per byte for the decoder).  Reaching a bound is an outcome of its own (`outOfFuel`; scanner loops
report it through `ScanErr.fuel`), never a silent stop, so the statement below says that the bounds are not what ends
any loop: the model's result is what the unbounded Go loops compute, and those loops terminate.

Proof (Lemmas/ScanProgress.lean, ParseProgress.lean, ParseTerm.lean): the measure `μ` = characters not yet read +
pending look-ahead character + pending look-ahead token never increases under any scanner or parser operation, a scan
that returns a token other than EOF and a `Next` that returns a character decrease it, every loop iteration that
continues has consumed a token or a character, every definition consumes its keyword, and initially `μ ≤ length + 1`.
The straight-line code between the loops is handled by the verification-condition generator of `Std.Do` (`mvcgen`)
from the specifications of the primitives; the loops by induction on the bound.

No panic (Lemmas/ScanInv.lean, ParseInv.lean, ParseNoPanic.lean): the model has one partial Go operation, `tok.txt[0]` on
the token after a signal name; it is guarded by `tok.typ == scanner.Ident`, and an identifier token is never empty:
the scanner's offsets stay inside the source (offset + bytes of the unread characters ≤ source size, last character
length ≤ offset), the look-ahead character starts where the previous offset was, so the token text runs over at least
the first identifier character.  The invariant holds initially (the decoder yields characters of total width ≤ the
source length, each well-formed one at least a byte wide), is kept by every scanner and parser operation, and the
look-ahead token is always well formed; the panic site is specified with precondition `False`, which the generated
verification condition has to derive at its only call site.

Locality of the error position (same lemma files): the start offset of the scanner's look-ahead character never
decreases, every token and every scanner error is positioned at or after it, a pending look-ahead token starts at or
before it; hence every parse error raised while a definition is being parsed is positioned at or after the start of
that definition's first token (`C12_error_position_local`), and accepted definitions are positioned at or after
everything consumed before them (`C12_definition_position`).
-/
namespace CanVerif

/-- Parsing never runs into a loop bound, for every byte sequence. -/
theorem C12_terminates (data : List UInt8) : parseDbc data ≠ .outOfFuel := parseDbc_noFuel data

/-- `C12_total` without the fourth case: success, a positioned error with the definitions so far, or the (single)
run-time panic site of the model. -/
theorem C12_total_strong (data : List UInt8) :
    (∃ ds, parseDbc data = .ok ds) ∨ (∃ p r ds, parseDbc data = .error p r ds) ∨ (∃ s, parseDbc data = .panic s) := by
  rcases C12_total data with h | h | h | h
  · exact Or.inl h
  · exact Or.inr (Or.inl h)
  · exact Or.inr (Or.inr h)
  · exact absurd h (C12_terminates data)

/-- The UTF-8 decoder's bound is never what stops it. -/
theorem C12_decoder_bound (data : List UInt8) (k : Nat) :
    decodeAll (data.length + k) data = decodeAll data.length data :=
  decodeAll_fuel _ _ data (by omega) (Nat.le_refl _)

/-- One step of the definition loop consumes input (so the loop runs at most `μ + 1` times). -/
theorem C12_step_consumes (defFuel : Nat) (defs : Array Def) (st st' : PS) (d : Def) (hf : μ st < defFuel)
    (h : parseStep defFuel defs st = .ok (some (d, st'))) : μ st' < μ st :=
  (parseStep_progress defFuel defs st hf).2 d st' h

/-- Parsing never reaches the model's run-time panic site, for every byte sequence. -/
theorem C12_no_panic (data : List UInt8) (site : String) : parseDbc data ≠ .panic site := parseDbc_noPanic data site

/-- **C12, outcome clause**: for every byte sequence, parsing terminates with success or with an error value carrying a
reason and a position (and the definitions accepted so far); nothing else can happen. -/
theorem C12_success_or_positioned_error (data : List UInt8) :
    (∃ ds, parseDbc data = .ok ds) ∨ (∃ p r ds, parseDbc data = .error p r ds) := by
  rcases C12_total_strong data with h | h | ⟨s, h⟩
  · exact Or.inl h
  · exact Or.inr h
  · exact absurd h (C12_no_panic data s)

/-- An identifier token of the scanner model is never empty (what guards the panic site). -/
theorem C12_ident_token_nonempty (s s' : Sc) (t : Token) (hi : StInv s) (h : s.scan = .ok (t, s'))
    (ht : t.typ = tokIdent) : t.txt ≠ [] :=
  (exc_ok_of_triple _ _ _ (scan_ispec s hi) _ h).2.2.1 ht

/-- **C12, locality of the error position**: when parsing fails, it fails in one particular iteration of the
definition loop, after the iterations that accepted the reported definitions (`C12_error_reports_accepted`); if that
iteration had already found the first token `t` of the next definition, the error position is at or after the start
of `t` — never inside or before an accepted definition's keyword. -/
theorem C12_error_position_local (data : List UInt8) (p : Pos) (r : String) (ds : List Def)
    (h : parseDbc data = .error p r ds) :
    ∃ defs2 st2, StepsTo (data.length + 2) #[] { sc := Sc.init data } defs2 st2 ∧ ds = defs2.toList ∧
      parseStep (data.length + 2) defs2 st2 = .error (.parse p r) ∧
      (∀ t st1, peekToken.run st2 = .ok (t, st1) → t.pos.offset ≤ p.offset) ∧ lb st2 ≤ p.offset := by
  unfold parseDbc at h
  obtain ⟨defs2, st2, a, b, c⟩ := parseAll_error_step _ _ _ _ _ _ _ h
  have hi0 : PSInv { sc := Sc.init data } := ⟨StInv_init data, fun h => (by cases h)⟩
  have hi := stepsTo_inv _ _ _ _ _ a hi0
  obtain ⟨_, e1, _, e2⟩ := parseStep_inv (data.length + 2) defs2 st2 (lb st2) hi (Nat.le_refl _)
  exact ⟨defs2, st2, a, c, b, fun t st1 ht => e2 t st1 p r ht b, e1 p r b⟩

/-- every accepted definition is positioned at or after everything consumed before its iteration began -/
theorem C12_definition_position (defFuel : Nat) (defs : Array Def) (st st' : PS) (d : Def) (hi : PSInv st)
    (h : parseStep defFuel defs st = .ok (some (d, st'))) : lb st ≤ d.pos.offset ∧ lb st ≤ lb st' :=
  let x := (parseStep_inv defFuel defs st (lb st) hi (Nat.le_refl _)).2.2.1 d st' h
  ⟨x.2.2, x.2.1⟩

end CanVerif
