import CanVerif.Lemmas.ParseTerm
import CanVerif.Props.C12
/-!
# C12 (termination)  Parsing any input terminates: the loop bounds of the model are never reached

Every loop of the model carries a bound ("fuel": source length + 2 for the parser's loops, characters left + 2 for the
scanner's, one step per byte for the decoder).  Reaching a bound is an outcome of its own (`outOfFuel`; scanner loops
report it through `ScanErr.fuel`), never a silent stop, so the statement below says that the bounds are not what ends
any loop: the model's result is what the unbounded Go loops compute, and those loops terminate.

Proof (Lemmas/ScanProgress.lean, ParseProgress.lean, ParseTerm.lean): the measure `μ` = characters not yet read +
pending look-ahead character + pending look-ahead token never increases under any scanner or parser operation, a scan
that returns a token other than EOF and a `Next` that returns a character decrease it, every loop iteration that
continues has consumed a token or a character, every definition consumes its keyword, and initially `μ ≤ length + 1`.
The straight-line code between the loops is handled by the verification-condition generator of `Std.Do` (`mvcgen`)
from the specifications of the primitives; the loops by induction on the bound.
-/
namespace CanVerif

/-- Parsing never runs into a loop bound, for every byte sequence. -/
theorem C12_terminates (data : List UInt8) : parseDbc data ≠ .outOfFuel := parseDbc_noFuel data

/-- `C12_total` without the fourth case: success, a positioned error with the definitions so far, or the (single)
run-time panic site of the model. -/
theorem C12_total_strong (data : List UInt8) :
    (∃ ds, parseDbc data = .ok ds) ∨ (∃ p r ds, parseDbc data = .error p r ds) ∨ (∃ s, parseDbc data = .panic s) := by
  rcases C12_total data with h | h | h | h
  · exact Or.inl h
  · exact Or.inr (Or.inl h)
  · exact Or.inr (Or.inr h)
  · exact absurd h (C12_terminates data)

/-- The UTF-8 decoder's bound is never what stops it. -/
theorem C12_decoder_bound (data : List UInt8) (k : Nat) :
    decodeAll (data.length + k) data = decodeAll data.length data :=
  decodeAll_fuel _ _ data (by omega) (Nat.le_refl _)

/-- One step of the definition loop consumes input (so the loop runs at most `μ + 1` times). -/
theorem C12_step_consumes (defFuel : Nat) (defs : Array Def) (st st' : PS) (d : Def) (hf : μ st < defFuel)
    (h : parseStep defFuel defs st = .ok (some (d, st'))) : μ st' < μ st :=
  (parseStep_progress defFuel defs st hf).2 d st' h

end CanVerif
